/-
  Property C13: the `directive(s)` / `const_directive(s)` rules read by the interpreter, as a
  token-level PEG (`qDirectives`), and `parse_directive` on the emitted pairs.
-/
import AGV.Lemmas.PegC13Comb2
namespace AGV.Lemmas.PegX
open AGV.Model.Peg AGV.Model.BuildAst AGV.Spec.Lex AGV.Spec.Parse AGV.Core.PAst AGV.Lemmas.PegC13 AGV.Lemmas.SpecVal

def tMap {α β : Type} (f : α → β) (q : Sim α) : Sim β := fun ts => (q ts).map (fun x => (f x.1, x.2))

theorem Reads.map {α β : Type} {L e B} {qf : Sim α} {Bd : Bld α} {Bd' : Bld β} (f : α → β)
    (h : Reads L e B qf Bd) (hB : ∀ s₀ ps a, Bd s₀ ps a → Bd' s₀ ps (f a)) : Reads L e B (tMap f qf) Bd' :=
  Reads.conv f h (fun _ => rfl) hB

theorem Reads.weaken {α : Type} {L e B} {qf : Sim α} {Bd Bd' : Bld α} (h : Reads L e B qf Bd)
    (hB : ∀ s₀ ps a, Bd s₀ ps a → Bd' s₀ ps a) : Reads L e B qf Bd' :=
  Reads.conv id h (fun ts => by cases qf ts <;> rfl) hB

theorem strict_map {α β : Type} {f : α → β} {q : Sim α} (h : Strict q) : Strict (tMap f q) := by
  intro ts a r e
  simp only [tMap] at e
  cases hq : q ts with
  | none => simp [hq] at e
  | some x => simp [hq] at e; obtain ⟨-, rfl⟩ := e; exact h _ _ _ hq

theorem mono_map {α β : Type} {f : α → β} {q : Sim α} (h : Mono q) : Mono (tMap f q) := by
  intro ts a r e
  simp only [tMap] at e
  cases hq : q ts with
  | none => simp [hq] at e
  | some x => simp [hq] at e; obtain ⟨-, rfl⟩ := e; exact h _ _ _ hq

/-- the one pair a normal rule emits where pairs are emitted carries the rule's name -/
theorem ev_ident_pair {n : String} {r : Rule} (hR : RuleOk n r) {q : Nat} {t : List Char} {N p' : Nat} {s' : List Char}
    {ps : List Pair} (h : EvR G0 c0 (.ident n) q t N (.ok p' s' ps)) : ∃ inner, ps = [Pair.mk n q p' inner] := by
  have h0 := h (N + 1) (Nat.le_succ N)
  simp only [eval, hR.soi, hR.eoi, if_false, hR.cls, hR.find] at h0
  split at h0
  · rename_i p1 s1 ps1 hb
    have hty := hR.ty
    simp only [hty, if_false] at h0
    have hem : emits c0 = true := by decide
    simp only [hem, if_true] at h0
    injection h0 with e1 e2 e3
    subst e1
    exact ⟨ps1, e3.symm⟩
  · rename_i hx
    exact (hx _ _ _ h0).elim

-- ------------------------------------------------------------------ arguments as a reader

def bArgs (F : ValFam) : Bld (List (Name × PValue)) := fun s₀ ps as =>
  ∃ pr, ps = [pr] ∧ pr.rule = asName F ∧ buildArgs (envOf s₀) pr = expFs as

theorem strict_pArgsV (c : Bool) : Strict (pArgsV c) := by
  intro ts a r h
  unfold pArgsV at h
  cases hc : closeTok '(' ts with
  | none => simp [hc] at h
  | some r1 =>
    simp only [hc] at h
    rw [closeTok_some hc]
    have h2 : ∀ (L : Nat) (ts : List Tok) (g : Nat) a r, ts.length ≤ L → pArgList P' c g ts = some (a, r) →
        r.length < ts.length := by
      intro L
      induction L using Nat.strongRecOn with
      | _ L ih =>
        intro ts g a r hL h
        cases g with
        | zero => rw [pArgList] at h; cases h
        | succ g =>
          by_cases hn : ∃ n r0, ts = .name n :: .punct ':' :: r0
          · obtain ⟨n, r0, rfl⟩ := hn
            rw [pArgList_nc] at h
            cases hp : pV P' c r0 with
            | none => simp [hp] at h
            | some x =>
              have hl := pV_len P' c (v := x.1) (r := x.2) hp
              simp only [hp, Option.bind_some] at h
              cases hcl : closeTok ')' x.2 with
              | some r' =>
                simp only [hcl] at h
                cases h
                have := closeTok_some hcl
                have : r.length < x.2.length := by rw [this]; simp
                simp only [List.length_cons]; omega
              | none =>
                simp only [hcl] at h
                cases hr : pArgList P' c g x.2 with
                | none => simp [hr] at h
                | some y =>
                  simp [hr] at h
                  obtain ⟨-, rfl⟩ := h
                  simp only [List.length_cons] at hL ⊢
                  have := ih x.2.length (by omega) x.2 g _ _ (Nat.le_refl _) hr
                  omega
          · rw [pArgList_other c _ ts (fun n r e => hn ⟨n, r, e⟩)] at h; cases h
    have := h2 r1.length r1 _ a r (Nat.le_refl _) h
    simp only [List.length_cons]; omega

theorem reads_args (F : ValFam) (hF : IsFam F) (L : Nat) :
    Reads L (.ident (asName F)) 40 (pArgsV F.const) (bArgs F) := by
  intro q t _ ht
  obtain ⟨r, hE, hG⟩ := args_main F hF q t ht
  refine ⟨r, hE, fun s₀ hat => ?_⟩
  have hg := hG s₀ hat
  unfold GoodArgs at hg
  cases hp : pArgsV F.const (toks t) with
  | none => rw [hp] at hg; rw [hg]; exact Out.mk_none hp
  | some x =>
    obtain ⟨as, ts'⟩ := x
    rw [hp] at hg
    obtain ⟨s', pr, e, h1, -, h2, -, h4⟩ := hg
    subst e
    obtain ⟨inner, hin⟩ := ev_ident_pair (arg_rules F hF).2 hE
    injection hin with hin
    subst hin
    exact Out.mk_some hp rfl h1 h2 ⟨_, rfl, rfl, h4⟩

-- ------------------------------------------------------------------ one directive

def dName (F : ValFam) : String := if F.const then "const_directive" else "directive"
def dsName (F : ValFam) : String := if F.const then "const_directives" else "directives"
def dRule (F : ValFam) : Rule := ⟨dName F, .normal, .seq (.str ['@']) (.seq (.ident "name") (.opt (.ident (asName F))))⟩
def dsRule (F : ValFam) : Rule := ⟨dsName F, .normal, .rep1 (.ident (dName F))⟩

theorem dir_rules (F : ValFam) (hF : IsFam F) : RuleOk (dName F) (dRule F) ∧ RuleOk (dsName F) (dsRule F) := by
  rcases hF with rfl | rfl <;>
    exact ⟨⟨by rfl, by decide, by decide, by rfl, rfl, by decide⟩, ⟨by rfl, by decide, by decide, by rfl, rfl, by decide⟩⟩

/-- `@ name arguments?` on tokens, as the PEG reads it: a `(` that opens no argument list is left -/
def qDirective (c : Bool) : Sim PDirective :=
  tMap (fun x => ⟨x.2.1, x.2.2.getD []⟩) (tSeq (tPunct '@') (tSeq pName (tOpt (pArgsV c))))

def qDirectives (c : Bool) : Sim (List PDirective) := tRep1 (qDirective c)

def finD (d : PDirective) : Bool := finFs d.args
def normD (d : PDirective) : PDirective := ⟨d.name, normFs d.args⟩
def finDs (ds : List PDirective) : Bool := ds.all finD
def normDs (ds : List PDirective) : List PDirective := ds.map normD

/-- what the tree builder returns: the stored form, or a number error for an infinite float literal -/
def expD (d : PDirective) : Except PErr PDirective := if finD d then .ok (normD d) else .error .number
def expDs (ds : List PDirective) : Except PErr (List PDirective) := if finDs ds then .ok (normDs ds) else .error .number

def bDir (F : ValFam) : Bld PDirective := fun s₀ ps d =>
  ∃ pr, ps = [pr] ∧ pr.rule = dName F ∧ buildDirective (envOf s₀) pr = expD d

theorem strict_qDirective (c : Bool) : Strict (qDirective c) :=
  strict_map (strict_seq (strict_punct '@') (mono_seq strict_pName.mono (mono_opt (strict_pArgsV c).mono)))

theorem reads_directive (F : ValFam) (hF : IsFam F) (L : Nat) :
    Reads L (.ident (dName F)) 45 (qDirective F.const) (bDir F) := by
  have hbody := Reads.seq (Reads.punct L '@' (by decide) 1 (Nat.le_refl _))
    (Reads.seq (Reads.name L 8 (Nat.le_refl _)) (Reads.opt (reads_args F hF L) (K := 41) (by omega))
      (K := 42) (by omega) (by omega) (by omega)) (K := 43) (by omega) (by omega) (by omega)
  have hrule := Reads.rule (dir_rules F hF).1 (r := dRule F) hbody (K := 45) (by omega)
  refine Reads.map _ hrule ?_
  rintro s₀ ps ⟨⟨⟩, n, oas⟩ ⟨p, p1, inner, rfl, ps1, ps2, rfl, h1, ps3, ps4, rfl, ⟨a, b, rfl, hn⟩, h4⟩
  refine ⟨_, rfl, rfl, ?_⟩
  simp only [bNil] at h1
  subst h1
  cases oas with
  | none =>
    simp only [bOpt] at h4
    subst h4
    simp [buildDirective, Pair.inner, hn, expD, finD, finFs, normD, normFs]
  | some as =>
    obtain ⟨pr, rfl, -, hb⟩ := h4
    cases hf : finFs as <;>
      simp [buildDirective, Pair.inner, hn, hb, expD, finD, normD, expFs, hf, Except.map]

-- ------------------------------------------------------------------ directives

def bDirs (F : ValFam) : Bld (List PDirective) := fun s₀ ps ds =>
  ∃ pr, ps = [pr] ∧ pr.rule = dsName F ∧ pr.inner.mapM (buildDirective (envOf s₀)) = expDs ds

/-- the outcome of a builder step: `.ok x` when the condition holds, some error otherwise -/
def Exp {α : Type} (r : Except PErr α) (c : Bool) (x : α) : Prop :=
  (c = true → r = .ok x) ∧ (c = false → ∃ e, r = .error e)

theorem Exp.of_ite {α : Type} {r : Except PErr α} {c : Bool} {x : α} (h : r = if c then .ok x else .error .number) :
    Exp r c x := by
  subst h
  cases c <;> simp [Exp]

theorem Exp.cast {α : Type} {r : Except PErr α} {c c' : Bool} {x x' : α} (h : Exp r c x) (hc : c = c') (hx : x = x') :
    Exp r c' x' := by subst hc hx; exact h

/-- the pairs of a repetition of one-pair elements, element by element -/
theorem bMany_all2 {α : Type} {R : Pair → Prop} {Q : List Char → Pair → α → Prop} {s₀ : List Char} {ps : List Pair}
    {xs : List α} (h : bMany (fun s₀ ps x => ∃ pr, ps = [pr] ∧ R pr ∧ Q s₀ pr x) s₀ ps xs) : All2 (Q s₀) ps xs := by
  obtain ⟨pss, rfl, hall⟩ := h
  induction hall with
  | nil => exact All2.nil
  | cons h1 _ ih =>
    obtain ⟨pr, rfl, -, hq⟩ := h1
    exact All2.cons hq ih

/-- `mapM` over steps whose only error is the number error -/
theorem mapM_expN {α β : Type} {f : α → Except PErr β} {c : β → Bool} {nf : β → β} {l : List α} {xs : List β}
    (h : All2 (fun a x => f a = if c x then .ok (nf x) else .error .number) l xs) :
    l.mapM f = if xs.all c then .ok (xs.map nf) else .error .number := by
  induction h with
  | nil => rfl
  | @cons a b as bs h1 _ ih =>
    cases hc : c b <;> cases hcs : bs.all c <;>
      simp [List.mapM_cons, h1, ih, hc, hcs, bind, Except.bind, pure, Except.pure]

/-- `mapM` over steps with expected outcomes -/
theorem mapM_exp {α β : Type} {f : α → Except PErr β} {c : β → Bool} {nf : β → β} {l : List α} {xs : List β}
    (h : All2 (fun a x => Exp (f a) (c x) (nf x)) l xs) : Exp (l.mapM f) (xs.all c) (xs.map nf) := by
  induction h with
  | nil => exact ⟨fun _ => rfl, fun h => by simp at h⟩
  | @cons a b as bs h1 _ ih =>
    cases hc : c b with
    | false =>
      obtain ⟨e, he⟩ := h1.2 hc
      refine ⟨fun h => by simp [hc] at h, fun _ => ⟨e, ?_⟩⟩
      simp [List.mapM_cons, he, bind, Except.bind]
    | true =>
      have h1' := h1.1 hc
      cases hcs : bs.all c with
      | false =>
        obtain ⟨e, he⟩ := ih.2 hcs
        refine ⟨fun h => by simp [hc, hcs] at h, fun _ => ⟨e, ?_⟩⟩
        simp [List.mapM_cons, h1', he, bind, Except.bind]
      | true =>
        have ih' := ih.1 hcs
        refine ⟨fun _ => ?_, fun h => by simp [hc, hcs] at h⟩
        simp [List.mapM_cons, h1', ih', bind, Except.bind, pure, Except.pure]

theorem reads_directives (F : ValFam) (hF : IsFam F) (L : Nat) :
    Reads L (.ident (dsName F)) 52 (qDirectives F.const) (bDirs F) := by
  have hbody := Reads.rep1 (reads_directive F hF L) (strict_qDirective F.const) (by omega)
  have hrule := Reads.rule (dir_rules F hF).2 (r := dsRule F) hbody (K := 52) (by omega)
  refine Reads.weaken hrule ?_
  rintro s₀ ps ds ⟨p, p1, inner, rfl, hm⟩
  refine ⟨_, rfl, rfl, ?_⟩
  have h2 := bMany_all2 (Q := fun s₀ pr d => buildDirective (envOf s₀) pr = expD d) hm
  exact mapM_expN (c := finD) (nf := normD) h2
end AGV.Lemmas.PegX
