import AGV.Model.Lookahead
import AGV.Lemmas.ExecStatic

/-! Helper lemmas for C22 (views of a resolver vs. the executor model). -/

namespace AGV.Lemmas.Lookahead
open AGV.Core AGV.Model.Lookahead AGV.Spec.Lookahead
open AGV.Model.ExecStatic (resolveValue resolveContainer runField completeField joinAll nnWrap itemWrap isSkipped prune)
open AGV.Spec.Exec (FieldOcc excluded dirIf)

-- ------------------------------------------------------------------ lists

theorem sublist_flatten_map {α β} (l : List α) (f g : α → List β) (h : ∀ x ∈ l, (f x).Sublist (g x)) :
    (l.map f).flatten.Sublist (l.map g).flatten := by
  induction l with
  | nil => simp
  | cons x xs ih =>
    simp only [List.map_cons, List.flatten_cons]
    exact List.Sublist.append (h x (by simp)) (ih (fun y hy => h y (by simp [hy])))

theorem sublist_flatten_map_filter {α β} (l : List α) (p : α → Bool) (f g : α → List β)
    (h : ∀ x ∈ l, p x = true → (f x).Sublist (g x)) :
    ((l.filter p).map f).flatten.Sublist (l.map g).flatten := by
  induction l with
  | nil => simp
  | cons x xs ih =>
    have ih' := ih (fun y hy => h y (by simp [hy]))
    by_cases hp : p x = true
    · rw [List.filter_cons_of_pos hp]
      simp only [List.map_cons, List.flatten_cons]
      exact List.Sublist.append (h x (by simp) hp) ih'
    · rw [List.filter_cons_of_neg hp]
      simp only [List.map_cons, List.flatten_cons]
      exact List.Sublist.trans ih' (List.sublist_append_right _ _)

-- ------------------------------------------------------------------ the two views agree

theorem filter_eq (d : Doc) (name : String) :
    ∀ fuel sels, Model.Lookahead.filter d name fuel sels = (selFields d fuel sels).filter (fun n => n.name = name) := by
  intro fuel
  induction fuel with
  | zero => intro sels; simp [Model.Lookahead.filter, selFields]
  | succ fuel ih =>
    intro sels
    simp only [Model.Lookahead.filter, selFields, List.filter_flatten, List.map_map]
    congr 1
    apply List.map_congr_left
    intro sel _
    cases sel with
    | field al n args ds ss pos =>
      by_cases hn : n = name <;> simp [hn]
    | spread n ds pos =>
      simp only [Function.comp]
      cases hf : d.frag? n with
      | none => simp
      | some f => simp [ih]
    | inline c ds ss pos => simp [ih]

-- ------------------------------------------------------------------ the executor's field collection is listed

/-- what identifies a field occurrence on both sides: response key, name, arguments,
    sub-selection, source position -/
def occCore (o : FieldOcc) : String × String × List (String × DValue) × List Sel × Pos :=
  (o.key, o.name, o.args, o.sels, o.pos)
def nodeCore (n : Node) : String × String × List (String × DValue) × List Sel × Pos :=
  (n.key, n.name, n.args, n.sels, n.pos)

theorem collect_sublist (c : Model.ExecStatic.Ctx) (rt : String) :
    ∀ fuel st sels, ((Model.ExecStatic.collect c rt fuel st sels).map occCore).Sublist
      ((selFields c.d fuel sels).map nodeCore) := by
  intro fuel
  induction fuel with
  | zero => intro st sels; simp [Model.ExecStatic.collect, selFields]
  | succ fuel ih =>
    intro st sels
    simp only [Model.ExecStatic.collect, selFields, List.map_flatten, List.map_map]
    apply sublist_flatten_map
    intro sel _
    cases sel with
    | field al n args ds ss pos =>
      simp [occCore, nodeCore, AGV.Spec.Exec.Sel.key, Node.key]
    | spread n ds pos =>
      simp only [Function.comp]
      cases hf : c.d.frag? n with
      | none => simp
      | some f =>
        simp only
        split
        · exact ih rt f.sels
        · split
          · exact ih st f.sels
          · simp
    | inline cond ds ss pos =>
      simp only [Function.comp]
      cases cond with
      | none => exact ih st ss
      | some t =>
        simp only
        split
        · exact ih rt ss
        · split
          · exact ih st ss
          · simp

theorem collect_listed (c : Model.ExecStatic.Ctx) (rt : String) (fuel : Nat) (st : String) (sels : List Sel)
    (occ : FieldOcc) (h : occ ∈ Model.ExecStatic.collect c rt fuel st sels) :
    ∃ n ∈ selFields c.d fuel sels, n.key = occ.key ∧ n.name = occ.name ∧ n.args = occ.args ∧ n.sels = occ.sels ∧
      n.pos = occ.pos := by
  have hm : occCore occ ∈ (Model.ExecStatic.collect c rt fuel st sels).map occCore := List.mem_map_of_mem h
  have hm' := (collect_sublist c rt fuel st sels).subset hm
  obtain ⟨n, hn, he⟩ := List.mem_map.mp hm'
  refine ⟨n, hn, ?_⟩
  simp only [nodeCore, occCore, Prod.mk.injEq] at he
  exact he

-- ------------------------------------------------------------------ the invocation log stays inside the views

theorem nnWrap_log (r : Res) : (nnWrap r).log = r.log := by
  unfold nnWrap; split
  · split <;> rfl
  · rfl

theorem itemWrap_log (D : Model.ExecStatic.Defects) (p : List PathSeg) (r : Res) : (itemWrap D p r).log = r.log := by
  unfold itemWrap; split <;> rfl

/-- completing a resolver result logs only what the recursive call on object values logs,
    and that call is always made with the field's own sub-selection -/
theorem resolveValue_log (c : Model.ExecStatic.Ctx) (rec : String → String → Nat → List Sel → List PathSeg → Res) :
    ∀ (t : TypeRef) (rv : RVal) (ss : List Sel) (path : List PathSeg) (pos : Pos) (inv : Inv),
      inv ∈ (resolveValue c rec t rv ss path pos).log → ∃ st rt id p, inv ∈ (rec st rt id ss p).log := by
  intro t
  induction t with
  | named n =>
    intro rv ss path pos inv h
    cases rv with
    | obj ty id =>
      simp only [resolveValue] at h
      split at h
      · refine ⟨n, ty, id, path, ?_⟩
        split at h <;> exact h
      · simp at h
    | leaf v =>
      simp only [resolveValue] at h
      split at h <;> simp at h
    | null => simp [resolveValue] at h
    | list xs => simp [resolveValue] at h
    | fail m => simp [resolveValue] at h
    | arg a => simp [resolveValue] at h
  | list t ih =>
    intro rv ss path pos inv h
    cases rv with
    | list xs =>
      simp only [resolveValue] at h
      have h' : inv ∈ ((joinAll (AGV.Spec.Exec.mapIdx (fun i x => fun (_ : Unit) =>
          itemWrap c.D (path ++ [PathSeg.idx i]) (resolveValue c rec t x ss (path ++ [PathSeg.idx i]) pos)) xs 0)).map
          (·.log)).flatten := by
        split at h <;> exact h
      obtain ⟨l, hl, hinv⟩ := List.mem_flatten.mp h'
      obtain ⟨r, hr, rfl⟩ := List.mem_map.mp hl
      obtain ⟨f, hf, rfl⟩ := AGV.Lemmas.ExecStatic.joinAll_mem _ r hr
      obtain ⟨j, x, rfl⟩ := AGV.Lemmas.ExecStatic.mapIdx_mem _ xs 0 f hf
      simp only [itemWrap_log] at hinv
      exact ih x ss _ pos inv hinv
    | null => simp [resolveValue] at h
    | obj ty id => simp [resolveValue] at h
    | leaf v => simp [resolveValue] at h
    | fail m => simp [resolveValue] at h
    | arg a => simp [resolveValue] at h
  | nonNull t ih =>
    intro rv ss path pos inv h
    by_cases hrv : rv = .null
    · subst hrv; simp [resolveValue] at h
    · rw [AGV.Lemmas.ExecStatic.resolveValue_nonNull c rec t rv ss path pos hrv, nnWrap_log] at h
      exact ih rv ss path pos inv h

/-- `inv` is a field that the views reach below `sels` (at some depth) -/
def Covered (d : Doc) (fuel : Nat) (sels : List Sel) (inv : Inv) : Prop :=
  ∃ n ∈ deep d fuel sels, n.name = inv.field ∧ n.key = inv.key

theorem log_covered (c : Model.ExecStatic.Ctx) :
    ∀ fuel st rt id sels path inv, inv ∈ (resolveContainer c fuel st rt id sels path).log → Covered c.d fuel sels inv := by
  intro fuel
  induction fuel with
  | zero => intro st rt id sels path inv h; simp [resolveContainer] at h
  | succ fuel ih =>
    intro st rt id sels path inv h
    simp only [resolveContainer] at h
    have h' : inv ∈ ((joinAll ((Model.ExecStatic.collect c rt (fuel + 1) st sels).map
        (fun occ => fun (_ : Unit) => runField c (resolveContainer c fuel) rt id path occ))).map (·.log)).flatten := by
      split at h <;> exact h
    obtain ⟨l, hl, hinv⟩ := List.mem_flatten.mp h'
    obtain ⟨r, hr, rfl⟩ := List.mem_map.mp hl
    obtain ⟨f, hf, rfl⟩ := AGV.Lemmas.ExecStatic.joinAll_mem _ r hr
    obtain ⟨occ, hocc, rfl⟩ := List.mem_map.mp hf
    obtain ⟨n, hn, hkey, hname, _, hsels, _⟩ := collect_listed c rt (fuel + 1) st sels occ hocc
    unfold runField at hinv
    split at hinv
    · simp at hinv
    · split at hinv
      · simp at hinv
      · rename_i fd _
        simp only [List.mem_cons] at hinv
        rcases hinv with hinv | hinv
        · refine ⟨n, ?_, ?_⟩
          · simp only [deep, List.mem_append]; exact Or.inl hn
          · subst hinv; exact ⟨hname, hkey⟩
        · have hsub : ∃ st' rt' id' p', inv ∈ (resolveContainer c fuel st' rt' id' occ.sels p').log := by
            unfold completeField at hinv
            split at hinv
            · split at hinv <;> split at hinv <;> simp at hinv
            · exact resolveValue_log c _ _ _ _ _ _ inv hinv
          obtain ⟨st', rt', id', p', hi⟩ := hsub
          obtain ⟨n', hn', hh⟩ := ih st' rt' id' occ.sels p' inv hi
          refine ⟨n', ?_, hh⟩
          simp only [deep, List.mem_append]
          refine Or.inr (List.mem_flatten.mpr ⟨deep c.d fuel n.sels, List.mem_map.mpr ⟨n, hn, rfl⟩, ?_⟩)
          rw [hsels]; exact hn'

-- ------------------------------------------------------------------ @skip / @include

/-- whatever the specification excludes, `remove_skipped_selection` removes (given the same
    variable values) -/
theorem excluded_isSkipped (vars : List (String × GValue)) :
    ∀ dirs, excluded vars dirs = true → isSkipped vars dirs = true := by
  intro dirs
  induction dirs with
  | nil => simp [excluded]
  | cons d rest ih =>
    intro h
    have ih' : excluded vars rest = true → isSkipped vars rest = true := ih
    simp only [excluded, List.any_cons, Bool.or_eq_true] at h
    simp only [excluded] at ih'
    unfold isSkipped
    rcases h with h | h
    · simp only [Bool.or_eq_true, Bool.and_eq_true, decide_eq_true_eq, beq_iff_eq] at h
      rcases h with ⟨hn, hv⟩ | ⟨hn, hv⟩
      · simp only [hn, true_or, if_true]
        unfold dirIf at hv
        split at hv
        · rename_i b heq
          simp only [Option.some.injEq] at hv; subst hv
          simp [heq]
        · rename_i n heq
          split at hv
          · rename_i b hb
            simp only [Option.some.injEq] at hv; subst hv
            simp [heq, hb]
          · simp at hv
        · simp at hv
      · simp only [hn, or_true, if_true]
        unfold dirIf at hv
        split at hv
        · rename_i b heq
          simp only [Option.some.injEq] at hv; subst hv
          simp [heq]
        · rename_i n heq
          split at hv
          · rename_i b hb
            simp only [Option.some.injEq] at hv; subst hv
            simp [heq, hb]
          · simp at hv
        · simp at hv
    · have hr := ih' h
      simp only [hr]
      split
      · split <;> simp
      · rfl

/-- what a view shows of a node apart from its sub-selection -/
def shownCore (n : Node) : Option String × String × List (String × DValue) × Pos := (n.alias, n.name, n.args, n.pos)

theorem frag?_pruned (d : Doc) (sv : List (String × GValue)) (M : Nat) (n : String) :
    Doc.frag? { ops := d.ops, frags := d.frags.map (fun f => { f with sels := prune sv M f.sels }) } n =
      (d.frag? n).map (fun f => { f with sels := prune sv M f.sels }) := by
  simp only [Doc.frag?, List.find?_map]
  rfl

/-- The views of the pruned document list only what the specification keeps. -/
theorem pruned_sublist (d d' : Doc) (sv : List (String × GValue)) (M : Nat)
    (hd : ∀ n, d'.frag? n = (d.frag? n).map (fun f => { f with sels := prune sv M f.sels })) :
    ∀ k m sels, k ≤ m → k ≤ M + 1 →
      ((selFields d' k (prune sv m sels)).map shownCore).Sublist ((visible sv d k sels).map shownCore) := by
  intro k
  induction k with
  | zero => intro m sels _ _; simp [selFields, visible]
  | succ k ih =>
    intro m sels hm hM
    obtain ⟨m', rfl⟩ : ∃ m', m = m' + 1 := ⟨m - 1, by omega⟩
    simp only [prune, selFields, visible, List.map_flatten, List.map_map]
    apply sublist_flatten_map_filter
    intro sel _ hp
    have hns : isSkipped sv (Model.ExecStatic.selDirs sel) = false := by simpa using hp
    have hne : excluded sv (dirsOf sel) = false := by
      cases he : excluded sv (dirsOf sel) with
      | false => rfl
      | true =>
        have hd' : dirsOf sel = Model.ExecStatic.selDirs sel := by cases sel <;> rfl
        rw [hd'] at he
        rw [excluded_isSkipped sv _ he] at hns
        exact absurd hns (by simp)
    simp only [Function.comp, hne]
    cases sel with
    | field al n args ds ss pos => simp [shownCore]
    | spread n ds pos =>
      simp only [hd n]
      cases hf : d.frag? n with
      | none => simp
      | some f =>
        simp only [Option.map_some]
        exact ih M f.sels (by omega) (by omega)
    | inline c ds ss pos =>
      simp only
      exact ih m' ss (by omega) (by omega)

end AGV.Lemmas.Lookahead
