/-
  Property C13: the repaired (non-atomic) `type_` rule read by the interpreter, as a token-level PEG
  (`qType`), and `parse_type` on the emitted pairs.
-/
import AGV.Lemmas.PegC13Dirs
import AGV.Lemmas.ParseC13
namespace AGV.Lemmas.PegX
open AGV.Model.Peg AGV.Model.BuildAst AGV.Spec.Lex AGV.Spec.Parse AGV.Core.PAst AGV.Lemmas.PegC13 AGV.Lemmas.SpecVal
open AGV.Lemmas.ParseC13 (typeDepth)

def nnRule : Rule := ⟨"non_null_mark", .normal, .str ['!']⟩
def typeRule : Rule := ⟨"type_", .normal,
  .seq (.choice (.ident "name") (.seq (.str ['[']) (.seq (.ident "type_") (.str [']'])))) (.opt (.ident "non_null_mark"))⟩

theorem type_rules : RuleOk "type_" typeRule ∧ RuleOk "non_null_mark" nnRule :=
  ⟨⟨by rfl, by decide, by decide, by rfl, rfl, by decide⟩, ⟨by rfl, by decide, by decide, by rfl, rfl, by decide⟩⟩

/-- `(name | "[" type "]") "!"?` on tokens -/
def qTypeBody (inner : Sim PType) : Sim PType :=
  tMap (fun x => x.1 x.2.isNone)
    (tSeq (tOr (tMap (fun n => PType.named n) pName)
               (tMap (fun x => PType.listOf x.2.1) (tSeq (tPunct '[') (tSeq inner (tPunct ']')))))
          (tOpt (tPunct '!')))

def qType : Nat → Sim PType
  | 0 => fun _ => none
  | n + 1 => qTypeBody (qType n)

def bType : Bld PType := fun s₀ ps ty =>
  ∃ pr, ps = [pr] ∧ pr.rule = "type_" ∧ ∀ bf, typeDepth ty < bf → buildTypePairs (envOf s₀) bf pr = .ok ty

/-- the first inner pair of a `type_` pair: a name, or the element type of a list -/
def bTypeAlt : Bld (Bool → PType) := fun s₀ ps mk =>
  ∃ c, ps = [c] ∧ ∀ f nl, typeDepth (mk nl) ≤ f →
    (if c.rule = "name" then Except.ok (PType.named (Env.asStr (envOf s₀) c) nl)
     else (buildTypePairs (envOf s₀) f c).map (fun t => PType.listOf t nl)) = .ok (mk nl)

theorem reads_type : ∀ L, Reads L (.ident "type_") 40 (qType L) bType := by
  intro L
  induction L with
  | zero => intro q t hL; exact absurd hL (Nat.not_lt_zero _)
  | succ L ih =>
    have hname : Reads (L + 1) (.ident "name") 8 (tMap (fun n => PType.named n) pName) bTypeAlt := by
      refine Reads.map _ (Reads.name (L + 1) 8 (Nat.le_refl _)) ?_
      rintro s₀ ps n ⟨a, b, rfl, hn⟩
      exact ⟨_, rfl, fun f nl _ => by simp [Pair.rule, hn]⟩
    have hlist : Reads (L + 1) (.seq (.str ['[']) (.seq (.ident "type_") (.str [']']))) 18
        (tMap (fun x => PType.listOf x.2.1) (tSeq (tPunct '[') (tSeq (qType L) (tPunct ']')))) bTypeAlt := by
      refine Reads.map _ (Reads.seqS (Reads.punct (L + 1) '[' (by decide) 1 (Nat.le_refl _)) (strict_punct '[')
        (Reads.seq ih (Reads.punct L ']' (by decide) 1 (Nat.le_refl _)) (K := 41) (by omega) (by omega) (by omega))
        (Nat.le_refl _) (K := 18) (by omega) (by omega) (by omega)) ?_
      rintro s₀ ps ⟨⟨⟩, ty, ⟨⟩⟩ ⟨ps1, ps2, rfl, h1, ps3, ps4, rfl, ⟨pr, rfl, hr, hb⟩, h4⟩
      simp only [bNil] at h1 h4
      subst h1 h4
      refine ⟨pr, rfl, fun f nl hf => ?_⟩
      have hne : ¬ pr.rule = "name" := by rw [hr]; decide
      simp only [hne, if_false]
      have hf' : typeDepth ty + 1 ≤ f := hf
      rw [hb f (show typeDepth ty < f by omega)]; rfl
    have hnn : Reads (L + 1) (.opt (.ident "non_null_mark")) 3 (tOpt (tPunct '!')) (bOpt (bRule "non_null_mark" bNil)) :=
      Reads.opt (Reads.rule type_rules.2 (r := nnRule) (Reads.punct (L + 1) '!' (by decide) 1 (Nat.le_refl _)) (K := 2)
        (by omega)) (by omega)
    have hbody := Reads.seq (Reads.choice hname hlist (K := 19) (by omega) (by omega)) hnn (K := 20) (by omega)
      (by omega) (by omega)
    have hrule := Reads.rule type_rules.1 (r := typeRule) hbody (K := 40) (by omega)
    show Reads (L + 1) (.ident "type_") 40 (qTypeBody (qType L)) bType
    unfold qTypeBody
    refine Reads.map _ hrule ?_
    rintro s₀ ps ⟨mk, o⟩ ⟨p, p1, inner, rfl, ps1, ps2, rfl, ⟨c, rfl, hc⟩, h2⟩
    refine ⟨_, rfl, rfl, fun bf hbf => ?_⟩
    obtain ⟨bf, rfl⟩ : ∃ k, bf = k + 1 := ⟨bf - 1, by omega⟩
    cases o with
    | none =>
      simp only [bOpt] at h2
      subst h2
      have hbf' : typeDepth (mk true) < bf + 1 := hbf
      have := hc bf true (show typeDepth (mk true) ≤ bf by omega)
      simp only [buildTypePairs, Pair.inner, List.cons_append, List.nil_append, List.isEmpty_nil, Option.isNone_none]
      exact this
    | some u =>
      obtain ⟨p', p1', inner', rfl, -⟩ := h2
      have hbf' : typeDepth (mk false) < bf + 1 := hbf
      have := hc bf false (show typeDepth (mk false) ≤ bf by omega)
      simp only [buildTypePairs, Pair.inner, List.cons_append, List.nil_append, List.isEmpty_cons, Option.isNone_some]
      exact this
end AGV.Lemmas.PegX
