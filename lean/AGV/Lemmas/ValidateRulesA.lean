/-
  C09 — per-rule equivalences, part A: the stateless rules (one callback at a time) of the toggle-free
  model against the reference rules of Spec/Validate.lean.
-/
import AGV.Lemmas.ValidateMachine
namespace AGV.Lemmas.ValidateRules
open AGV.Core AGV.Model.Validate AGV.Lemmas.ValidateWalk AGV.Lemmas.ValidateSpecNodes
open AGV.Spec.Validate (tyDef)

instance : LawfulBEq Core.Kind where
  rfl := by intro a; cases a <;> rfl
  eq_of_beq := by intro a b h; cases a <;> cases b <;> first | rfl | (exact absurd h (by decide))

instance : LawfulBEq OpType where
  rfl := by intro a; cases a <;> rfl
  eq_of_beq := by intro a b h; cases a <;> cases b <;> first | rfl | (exact absurd h (by decide))

section
variable (S : VSchema) (d : Doc)

/-- every operation of the document has a root type in the schema -/
def Served : Prop := ∀ o ∈ d.ops, (rootOf S o.ty).isSome = true

theorem rootOf_eq (t : OpType) : rootOf S t = Spec.Validate.rootType S t := by cases t <;> rfl

theorem served_iff : Served S d ↔ Spec.Validate.violates_OperationTypeExists S d = false := by
  simp [Served, Spec.Validate.violates_OperationTypeExists, rootOf_eq, Option.isSome_iff_ne_none]

theorem exists_docVisits_snd (Q : Sel → Prop) : (∃ v ∈ docVisits S d, Q v.2) ↔ ∃ s ∈ docSels S d, Q s := by
  rw [← docVisits_snd]
  simp only [List.mem_map]
  constructor
  · rintro ⟨v, hv, h⟩; exact ⟨v.2, ⟨v, hv, rfl⟩, h⟩
  · rintro ⟨s, ⟨v, hv, rfl⟩, h⟩; exact ⟨v, hv, h⟩

theorem mem_docSels (hs : Served S d) (s : Sel) :
    s ∈ docSels S d ↔ (∃ f ∈ d.frags, s ∈ flatSels f.sels) ∨ (∃ o ∈ d.ops, s ∈ flatSels o.sels) := by
  simp only [docSels, List.mem_append, List.mem_flatMap]
  constructor
  · rintro (h | ⟨o, ho, h⟩)
    · exact Or.inl h
    · refine Or.inr ⟨o, ho, ?_⟩
      cases hr : rootOf S o.ty <;> simp_all
  · rintro (h | ⟨o, ho, h⟩)
    · exact Or.inl h
    · refine Or.inr ⟨o, ho, ?_⟩
      have := hs o ho
      cases hr : rootOf S o.ty <;> simp_all

theorem docSels_served (hs : Served S d) (s : Sel) : s ∈ docSels S d ↔ s ∈ allSels d := by
  rw [mem_docSels S d hs]
  simp only [allSels, List.mem_append, List.mem_flatMap]
  exact Or.comm

/-- KnownFragmentNames = §5.5.2.1 -/
theorem rule_known_fragment_names (hs : Served S d) :
    Kind.unknownFragment ∈ (events S {} d).flatMap (stateless S {} d) ↔
      Spec.Validate.violates_FragmentSpreadTargetDefined d = true := by
  rw [mem_stateless_events]
  have h1 : ∀ f, Kind.unknownFragment ∉ fragOut S d f := by
    intro f; simp [fragOut, dirsOut, mem_stateless_enterFrag, mem_stateless_enterDir]
  have h2 : ∀ o, Kind.unknownFragment ∉ opOut S d o := by
    intro o; unfold opOut
    cases rootOf S o.ty <;> simp [dirsOut, mem_stateless_enterOp, mem_stateless_enterVar, mem_stateless_enterDir]
  have h3 : ∀ st s, Kind.unknownFragment ∈ nodeOut S d st s ↔ ∃ n ds p, s = .spread n ds p ∧ d.frag? n = none := by
    intro st s
    cases s <;> simp [nodeOut, dirsOut, mem_stateless_enterField, mem_stateless_enterSpread, mem_stateless_enterInline, mem_stateless_enterDir]
  simp only [h1, h2, h3, and_false, exists_false, false_or]
  rw [exists_docVisits_snd S d (fun s => ∃ n ds p, s = .spread n ds p ∧ d.frag? n = none)]
  simp only [mem_docSels S d hs, Spec.Validate.violates_FragmentSpreadTargetDefined, List.any_eq_true, List.mem_append,
    List.mem_flatMap, mem_spreadsOfL, Doc.frag?]
  have hf : ∀ n, (List.find? (fun x => decide (x.name = n)) d.frags = none) ↔ (!d.frags.any fun x_1 => decide (x_1.name = n)) = true := by
    intro n; simp
  constructor
  · rintro ⟨s, hs, n, ds, p, rfl, h⟩
    refine ⟨n, ?_, (hf n).mp h⟩
    rcases hs with ⟨f, hf, h⟩ | ⟨o, ho, h⟩
    · exact Or.inr ⟨f, hf, ds, p, h⟩
    · exact Or.inl ⟨o, ho, ds, p, h⟩
  · rintro ⟨n, hs, h⟩
    rcases hs with ⟨o, ho, ds, p, h'⟩ | ⟨f, hf', ds, p, h'⟩
    · exact ⟨_, Or.inr ⟨o, ho, h'⟩, n, ds, p, rfl, (hf n).mpr h⟩
    · exact ⟨_, Or.inl ⟨f, hf', h'⟩, n, ds, p, rfl, (hf n).mpr h⟩

/-- the walker's own report = "operation type not served" -/
theorem rule_not_configured :
    Kind.notConfigured ∈ (events S {} d).flatMap (stateless S {} d) ↔
      Spec.Validate.violates_OperationTypeExists S d = true := by
  rw [mem_stateless_events]
  have h1 : ∀ f, Kind.notConfigured ∉ fragOut S d f := by
    intro f; simp [fragOut, dirsOut, mem_stateless_enterFrag, mem_stateless_enterDir]
  have h2 : ∀ o, Kind.notConfigured ∈ opOut S d o ↔ rootOf S o.ty = none := by
    intro o; unfold opOut
    cases rootOf S o.ty <;> simp [dirsOut, mem_stateless_enterOp, mem_stateless_enterVar, mem_stateless_enterDir]
  have h3 : ∀ st s, Kind.notConfigured ∉ nodeOut S d st s := by
    intro st s
    cases s <;> simp [nodeOut, dirsOut, mem_stateless_enterField, mem_stateless_enterSpread, mem_stateless_enterInline, mem_stateless_enterDir]
  simp [h1, h2, h3, Spec.Validate.violates_OperationTypeExists, rootOf_eq]

theorem exists_eq_tyDef (n : String) : S.exists? n = (tyDef S n).isSome := rfl

/-- some variable of some operation has a type that is not in the schema -/
def varTypeUnknown : Prop := ∃ o ∈ d.ops, ∃ v ∈ o.vars, S.exists? v.ty.base = false

/-- KnownTypeNames = §5.5.1.2 (type conditions) + the existence half of §5.8.2 (variable types) -/
theorem rule_known_type_names (hs : Served S d) :
    Kind.unknownType ∈ (events S {} d).flatMap (stateless S {} d) ↔
      (Spec.Validate.violates_FragmentSpreadTypeExistence S d = true ∨ varTypeUnknown S d) := by
  rw [mem_stateless_events]
  have h1 : ∀ f, Kind.unknownType ∈ fragOut S d f ↔ S.exists? f.cond = false := by
    intro f; simp [fragOut, dirsOut, mem_stateless_enterFrag, mem_stateless_enterDir]
  have h2 : ∀ o ∈ d.ops, (Kind.unknownType ∈ opOut S d o ↔ ∃ v ∈ o.vars, S.exists? v.ty.base = false) := by
    intro o ho; unfold opOut
    have := hs o ho
    cases hr : rootOf S o.ty <;> simp_all [dirsOut, mem_stateless_enterOp, mem_stateless_enterVar, mem_stateless_enterDir]
  have h3 : ∀ st s, Kind.unknownType ∈ nodeOut S d st s ↔ ∃ t ds ss p, s = .inline (some t) ds ss p ∧ S.exists? t = false := by
    intro st s
    cases s <;> simp [nodeOut, dirsOut, mem_stateless_enterField, mem_stateless_enterSpread, mem_stateless_enterInline, mem_stateless_enterDir]
  simp only [h1, h3]
  rw [exists_docVisits_snd S d (fun s => ∃ t ds ss p, s = .inline (some t) ds ss p ∧ S.exists? t = false)]
  have hspec : Spec.Validate.violates_FragmentSpreadTypeExistence S d = true ↔
      (∃ f ∈ d.frags, S.exists? f.cond = false) ∨ ∃ s ∈ allSels d, ∃ t ds ss p, s = .inline (some t) ds ss p ∧ S.exists? t = false := by
    unfold Spec.Validate.violates_FragmentSpreadTypeExistence
    rw [any_allNodes_syntactic S d _ (fun s => match s with | .inline (some c) _ _ _ => (tyDef S c).isNone | _ => false)]
    · simp only [Bool.or_eq_true, List.any_eq_true, exists_eq_tyDef]
      apply or_congr
      · simp
      · apply exists_congr; intro s
        apply and_congr_right; intro _
        cases s with
        | inline c ds ss p => cases c <;> simp
        | _ => simp
    · intro p s
      cases s with
      | inline c ds ss p => cases c <;> simp [toNode]
      | _ => simp [toNode]
  rw [hspec]
  simp only [docSels_served S d hs, varTypeUnknown]
  constructor
  · rintro (h | ⟨o, ho, h⟩ | h)
    · exact Or.inl (Or.inl h)
    · exact Or.inr ⟨o, ho, (h2 o ho).mp h⟩
    · exact Or.inl (Or.inr h)
  · rintro ((h | h) | ⟨o, ho, h⟩)
    · exact Or.inl h
    · exact Or.inr (Or.inr h)
    · exact Or.inr (Or.inl ⟨o, ho, (h2 o ho).mpr h⟩)


theorem isInput_eq (n : String) : S.isInput n = Spec.Validate.inputType S n := by
  unfold VSchema.isInput VSchema.kindOf Spec.Validate.inputType Spec.Validate.kindIs
  show (match Option.map (·.kind) (tyDef S n) with | some .scalar | some .enum | some .input => true | _ => false) = _
  cases h : tyDef S n with
  | none => simp
  | some t => cases hk : t.kind <;> simp [hk]

/-- VariablesAreInputTypes (+ the variable half of KnownTypeNames) = §5.8.2 -/
theorem rule_variables_are_input_types (hs : Served S d) :
    (Kind.varNonInput ∈ (events S {} d).flatMap (stateless S {} d) ∨ varTypeUnknown S d) ↔
      Spec.Validate.violates_VariablesAreInputTypes S d = true := by
  rw [mem_stateless_events]
  have h1 : ∀ f, Kind.varNonInput ∉ fragOut S d f := by
    intro f; simp [fragOut, dirsOut, mem_stateless_enterFrag, mem_stateless_enterDir]
  have h2 : ∀ o ∈ d.ops, (Kind.varNonInput ∈ opOut S d o ↔ ∃ v ∈ o.vars, S.exists? v.ty.base = true ∧ S.isInput v.ty.base = false) := by
    intro o ho; unfold opOut
    have := hs o ho
    cases hr : rootOf S o.ty <;> simp_all [dirsOut, mem_stateless_enterOp, mem_stateless_enterVar, mem_stateless_enterDir]
  have h3 : ∀ st s, Kind.varNonInput ∉ nodeOut S d st s := by
    intro st s
    cases s <;> simp [nodeOut, dirsOut, mem_stateless_enterField, mem_stateless_enterSpread, mem_stateless_enterInline, mem_stateless_enterDir]
  simp only [h1, h3, and_false, exists_false, false_or, or_false, varTypeUnknown,
    Spec.Validate.violates_VariablesAreInputTypes, List.any_eq_true, ← isInput_eq]
  constructor
  · rintro (⟨o, ho, h⟩ | ⟨o, ho, v, hv, h⟩)
    · obtain ⟨v, hv, _, h⟩ := (h2 o ho).mp h
      exact ⟨o, ho, v, hv, by simp [h]⟩
    · refine ⟨o, ho, v, hv, ?_⟩
      have : S.isInput v.ty.base = false := by
        unfold VSchema.isInput VSchema.kindOf
        have : S.ty? v.ty.base = none := by simpa [VSchema.exists?] using h
        simp [this]
      simp [this]
  · rintro ⟨o, ho, v, hv, h⟩
    cases he : S.exists? v.ty.base
    · exact Or.inr ⟨o, ho, v, hv, he⟩
    · exact Or.inl ⟨o, ho, (h2 o ho).mpr ⟨v, hv, he, by simpa using h⟩⟩

/-- the unknown-type report of DefaultValuesOfCorrectType is subsumed by KnownTypeNames -/
theorem unknownTypeDefault_imp (hs : Served S d)
    (h : Kind.unknownTypeDefault ∈ (events S {} d).flatMap (stateless S {} d)) : varTypeUnknown S d := by
  rw [mem_stateless_events] at h
  have h1 : ∀ f, Kind.unknownTypeDefault ∉ fragOut S d f := by
    intro f; simp [fragOut, dirsOut, mem_stateless_enterFrag, mem_stateless_enterDir]
  have h3 : ∀ st s, Kind.unknownTypeDefault ∉ nodeOut S d st s := by
    intro st s
    cases s <;> simp [nodeOut, dirsOut, mem_stateless_enterField, mem_stateless_enterSpread, mem_stateless_enterInline, mem_stateless_enterDir]
  simp only [h1, h3, and_false, exists_false, false_or, or_false] at h
  obtain ⟨o, ho, h⟩ := h
  unfold opOut at h
  have := hs o ho
  cases hr : rootOf S o.ty with
  | none => simp_all
  | some r =>
    simp only [hr, List.mem_append, List.mem_flatMap, dirsOut, mem_stateless_enterOp, mem_stateless_enterVar, mem_stateless_enterDir] at h
    simp only [reduceCtorEq, false_and, or_false, false_or, exists_false, and_false, true_and] at h
    obtain ⟨v, hv, n, hn, he⟩ := h
    refine ⟨o, ho, v, hv, ?_⟩
    have : v.ty.base = n := by
      cases hv' : v.ty with
      | named m => simp_all [TypeRef.nullable, TypeRef.base]
      | list t => simp_all [TypeRef.nullable]
      | nonNull t => simp_all [TypeRef.nullable, TypeRef.base]
    rw [this]; exact he

/-- UploadFile = the documented restriction (when the schema has an `Upload` type at all) -/
theorem rule_upload :
    Kind.upload ∈ (events S {} d).flatMap (stateless S {} d) ↔
      (S.exists? "Upload" = true ∧ Spec.Validate.violates_UploadOnlyInMutations {} d = true) := by
  rw [mem_stateless_events]
  have h1 : ∀ f, Kind.upload ∉ fragOut S d f := by
    intro f; simp [fragOut, dirsOut, mem_stateless_enterFrag, mem_stateless_enterDir]
  have h2 : ∀ o, (Kind.upload ∈ opOut S d o ↔
      o.vars.any (fun v => S.exists? v.ty.base && o.ty != .mutation && v.ty.base == "Upload") = true) := by
    intro o; unfold opOut
    cases hr : rootOf S o.ty <;> simp [dirsOut, mem_stateless_enterOp, mem_stateless_enterVar, mem_stateless_enterDir]
  have h3 : ∀ st s, Kind.upload ∉ nodeOut S d st s := by
    intro st s
    cases s <;> simp [nodeOut, dirsOut, mem_stateless_enterField, mem_stateless_enterSpread, mem_stateless_enterInline, mem_stateless_enterDir]
  simp only [h1, h2, h3, and_false, exists_false, false_or, or_false, Spec.Validate.violates_UploadOnlyInMutations,
    List.any_eq_true, Bool.and_eq_true, beq_iff_eq, decide_eq_true_eq, Bool.true_and]
  constructor
  · rintro ⟨o, ho, v, hv, ⟨he, hm⟩, hu⟩
    exact ⟨hu ▸ he, o, ho, hm, v, hv, hu⟩
  · rintro ⟨he, o, ho, hm, v, hv, hu⟩
    exact ⟨o, ho, v, hv, ⟨hu ▸ he, hm⟩, hu⟩

end
-- ------------------------------------------------------------------ DirectivesUnique

section
variable (S : VSchema) (d : Doc)

/-- the non-repeatable directives among `ds` (by the schema's definition) -/
def nonRep (ds : List Dir) : List String :=
  (ds.filter (fun dr => match S.dirs.find? (·.name = dr.name) with | some dd => !dd.repeatable | none => false)).map (·.name)

theorem hasDupNonRepeatable_go (seen : List String) (ds : List Dir) :
    hasDupNonRepeatable.go S seen ds = true ↔ (∃ n ∈ nonRep S ds, n ∈ seen) ∨ Spec.Validate.hasDup (nonRep S ds) = true := by
  induction ds generalizing seen with
  | nil => simp [hasDupNonRepeatable.go, nonRep, Spec.Validate.hasDup]
  | cons dr ds ih =>
    have hn : nonRep S (dr :: ds) =
        (match S.dir? dr.name with | some dd => if dd.repeatable then nonRep S ds else dr.name :: nonRep S ds | none => nonRep S ds) := by
      simp only [nonRep, List.filter_cons, VSchema.dir?]
      cases h : S.dirs.find? (·.name = dr.name) with
      | none => simp
      | some dd => cases hr : dd.repeatable <;> simp [hr]
    rw [hn]
    unfold hasDupNonRepeatable.go
    cases h : S.dir? dr.name with
    | none => simp only [ih]
    | some dd =>
      cases hr : dd.repeatable
      · simp only [hr, Bool.false_eq_true, if_false, Spec.Validate.hasDup, List.mem_cons, exists_eq_or_imp, Bool.or_eq_true,
          List.contains_iff_mem]
        by_cases hs : dr.name ∈ seen
        · simp [hs]
        · simp only [hs, if_false, false_or, ih, List.mem_cons]
          constructor
          · rintro (⟨n, hn, rfl | hn'⟩ | h)
            · exact Or.inr (Or.inl hn)
            · exact Or.inl ⟨n, hn, hn'⟩
            · exact Or.inr (Or.inr h)
          · rintro (⟨n, hn, hn'⟩ | h | h)
            · exact Or.inl ⟨n, hn, Or.inr hn'⟩
            · exact Or.inl ⟨_, h, Or.inl rfl⟩
            · exact Or.inr h
      · simp only [hr, if_true, ih]

theorem hasDupNonRepeatable_eq (ds : List Dir) :
    hasDupNonRepeatable S ds = Spec.Validate.hasDup (nonRep S ds) := by
  rw [Bool.eq_iff_iff]
  unfold hasDupNonRepeatable
  simp [hasDupNonRepeatable_go]

def dirsOf : Sel → List Dir
  | .field _ _ _ ds _ _ => ds
  | .spread _ ds _ => ds
  | .inline _ ds _ _ => ds

def locOf : Sel → String
  | .field .. => "FIELD"
  | .spread .. => "FRAGMENT_SPREAD"
  | .inline .. => "INLINE_FRAGMENT"

def opLoc (o : OpDef) : String := match o.ty with | .query => "QUERY" | .mutation => "MUTATION" | .subscription => "SUBSCRIPTION"

theorem dirUses_eq : Spec.Validate.dirUses S d =
    (specDocVisits S d).map (fun v => (locOf v.2, dirsOf v.2)) ++ d.ops.map (fun o => (opLoc o, o.dirs))
      ++ d.frags.map (fun f => ("FRAGMENT_DEFINITION", f.dirs)) := by
  simp only [Spec.Validate.dirUses, allNodes_eq, List.map_map]
  congr 2
  congr 1
  funext v
  obtain ⟨p, s⟩ := v
  cases s <;> rfl

theorem spec_directivesUnique :
    Spec.Validate.violates_DirectivesUniquePerLocation S d = true ↔
      (∃ s ∈ allSels d, hasDupNonRepeatable S (dirsOf s) = true) ∨ (∃ o ∈ d.ops, hasDupNonRepeatable S o.dirs = true)
        ∨ (∃ f ∈ d.frags, hasDupNonRepeatable S f.dirs = true) := by
  have hu : Spec.Validate.violates_DirectivesUniquePerLocation S d
      = (Spec.Validate.dirUses S d).any (fun u => hasDupNonRepeatable S u.2) := by
    unfold Spec.Validate.violates_DirectivesUniquePerLocation
    congr 1; funext u; rw [hasDupNonRepeatable_eq]; rfl
  rw [← exists_specDocVisits_snd S d (fun s => hasDupNonRepeatable S (dirsOf s) = true)]
  simp only [hu, dirUses_eq, List.any_append, List.any_map,
    Bool.or_eq_true, List.any_eq_true, Function.comp_def, or_assoc]

/-- DirectivesUnique = §5.7.3 -/
theorem rule_directives_unique (hs : Served S d) :
    Kind.dupDirective ∈ (events S {} d).flatMap (stateless S {} d) ↔
      Spec.Validate.violates_DirectivesUniquePerLocation S d = true := by
  rw [mem_stateless_events, spec_directivesUnique]
  have h1 : ∀ f, Kind.dupDirective ∈ fragOut S d f ↔ hasDupNonRepeatable S f.dirs = true := by
    intro f; simp [fragOut, dirsOut, mem_stateless_enterFrag, mem_stateless_enterDir]
  have h2 : ∀ o, (Kind.dupDirective ∈ opOut S d o ↔ hasDupNonRepeatable S o.dirs = true) := by
    intro o; unfold opOut
    cases hr : rootOf S o.ty <;> simp [dirsOut, mem_stateless_enterOp, mem_stateless_enterVar, mem_stateless_enterDir]
  have h3 : ∀ st s, Kind.dupDirective ∈ nodeOut S d st s ↔ hasDupNonRepeatable S (dirsOf s) = true := by
    intro st s
    cases s <;> simp [nodeOut, dirsOut, dirsOf, mem_stateless_enterField, mem_stateless_enterSpread, mem_stateless_enterInline, mem_stateless_enterDir]
  simp only [h1, h2, h3]
  rw [exists_docVisits_snd S d (fun s => hasDupNonRepeatable S (dirsOf s) = true)]
  simp only [docSels_served S d hs]
  constructor
  · rintro (h | h | h)
    · exact Or.inr (Or.inr h)
    · exact Or.inr (Or.inl h)
    · exact Or.inl h
  · rintro (h | h | h)
    · exact Or.inr (Or.inr h)
    · exact Or.inr (Or.inl h)
    · exact Or.inl h

end
end AGV.Lemmas.ValidateRules
