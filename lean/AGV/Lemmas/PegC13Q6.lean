/-
  Property C13, token level, PEG side: `qSelection` unfolded by the shape of the first tokens.
-/
import AGV.Lemmas.PegC13Q5
namespace AGV.Lemmas.PegX
open AGV.Model.Peg AGV.Model.BuildAst AGV.Spec.Lex AGV.Spec.Parse AGV.Core.PAst AGV.Lemmas.PegC13 AGV.Lemmas.SpecVal

/-- `selection_set?`, the absent set as `[]` -/
def qOptSet (ss : Sim (List PSel)) : Sim (List PSel) := tMap (fun o => o.getD []) (tOpt ss)

def qFieldTail (ss : Sim (List PSel)) (al : Option Name) (n : Name) (r : List Tok) : Outc PSel :=
  obind (qOptArgs false r) (fun as r1 =>
    obind (qOptDirs false r1) (fun ds r2 =>
      obind (qOptSet ss r2) (fun sub r3 => some (.field al n as ds sub, r3))))

def qInlineTail (ss : Sim (List PSel)) (tc : Option Name) (r : List Tok) : Outc PSel :=
  obind (qOptDirs false r) (fun ds r2 => obind (ss r2) (fun sub r4 => some (.inline tc ds sub, r4)))

def qSpreadTail (n : Name) (r1 : List Tok) : Outc PSel :=
  obind (qOptDirs false r1) (fun ds r2 => some (.spread n ds, r2))

theorem fieldTail_eq (ss : Sim (List PSel)) (al : Option Name) (n : Name) (r : List Tok) :
    omap (fun x => mkField (al, n, x))
      (tSeq (tOpt (pArgsV false)) (tSeq (tOpt (qDirectives false)) (tOpt ss)) r) = qFieldTail ss al n r := by
  unfold qFieldTail qOptArgs qOptDirs qOptSet tMap tSeq omap obind
  cases tOpt (pArgsV false) r with
  | none => rfl
  | some x =>
    obtain ⟨oas, r1⟩ := x
    simp only [Option.map_some]
    cases tOpt (qDirectives false) r1 with
    | none => rfl
    | some y =>
      obtain ⟨ods, r2⟩ := y
      simp only [Option.map_some]
      cases tOpt ss r2 with
      | none => rfl
      | some z => rfl

theorem inlineTail_eq (ss : Sim (List PSel)) (tc : Option Name) (r : List Tok) :
    omap (fun x => mkInline ((), tc, x)) (tSeq (tOpt (qDirectives false)) ss r) = qInlineTail ss tc r := by
  unfold qInlineTail qOptDirs tMap tSeq omap obind
  cases tOpt (qDirectives false) r with
  | none => rfl
  | some y =>
    obtain ⟨ods, r2⟩ := y
    simp only [Option.map_some]
    cases ss r2 with
    | none => rfl
    | some z => rfl

theorem spreadTail_eq (n : Name) (r1 : List Tok) :
    omap (fun x => mkSpread ((), (), (), n, x)) (tOpt (qDirectives false) r1) = qSpreadTail n r1 := by
  unfold qSpreadTail qOptDirs tMap omap obind
  cases tOpt (qDirectives false) r1 with
  | none => rfl
  | some y => rfl

theorem tSeq_of_some {α β : Type} {qa : Sim α} {qb : Sim β} {ts r : List Tok} {x : α} (h : qa ts = some (x, r)) :
    tSeq qa qb ts = omap (fun y => (x, y)) (qb r) := by
  simp only [tSeq, h, omap]
  cases qb r <;> rfl

theorem tSeq_of_none {α β : Type} {qa : Sim α} {qb : Sim β} {ts : List Tok} (h : qa ts = none) :
    tSeq qa qb ts = none := by
  simp only [tSeq, h]

theorem tMap_eq {α β : Type} (f : α → β) (q : Sim α) (ts : List Tok) : tMap f q ts = omap f (q ts) := rfl

theorem tOpt_of_some {α : Type} {q : Sim α} {ts r : List Tok} {x : α} (h : q ts = some (x, r)) :
    tOpt q ts = some (some x, r) := by simp only [tOpt, h]

theorem tOpt_of_none {α : Type} {q : Sim α} {ts : List Tok} (h : q ts = none) : tOpt q ts = some (none, ts) := by
  simp only [tOpt, h]

theorem omap_omap {α β γ : Type} (f : α → β) (g : β → γ) (x : Outc α) : omap g (omap f x) = omap (fun a => g (f a)) x := by
  cases x <;> rfl

theorem omap_none {α β : Type} (f : α → β) : omap f (none : Outc α) = none := rfl

theorem pName_cons (n : Name) (r : List Tok) : pName (.name n :: r) = some (n, r) := rfl

-- ------------------------------------------------------------------ the parts on concrete heads

theorem qAlias_at (a : Name) (r : List Tok) : qAlias (.name a :: .punct ':' :: r) = some (a, r) := by
  simp [qAlias, tMap, tSeq, pName, tPunct_cons]

theorem qAlias_none (n : Name) (r : List Tok) (h : ∀ r', r ≠ .punct ':' :: r') : qAlias (.name n :: r) = none := by
  simp [qAlias, tMap, tSeq, pName, tPunct_eq, closeTok_none h]

theorem pName_none (ts : List Tok) (h : ∀ n r, ts ≠ .name n :: r) : pName ts = none := by
  unfold pName; split
  · rename_i n r; exact absurd rfl (h n r)
  · rfl

theorem qAlias_none' (ts : List Tok) (h : ∀ n r, ts ≠ .name n :: r) : qAlias ts = none := by
  simp [qAlias, tMap, tSeq, pName_none ts h]

theorem tSpread_none (ts : List Tok) (h : ∀ r, ts ≠ .spread :: r) : tSpread ts = none := by
  unfold tSpread; split
  · rename_i r; exact absurd rfl (h r)
  · rfl

theorem tKw_none (x : List Char) (ts : List Tok) (h : ∀ r, ts ≠ .name x :: r) : tKw x ts = none := by
  unfold tKw; split
  · rename_i n r
    split
    · rename_i e; subst e; exact absurd rfl (h r)
    · rfl
  · rfl

theorem qTypeCond_at (t : Name) (r2 : List Tok) : qTypeCond (.name onKw :: .name t :: r2) = some (t, r2) := by
  simp [qTypeCond, tMap, tSeq, tKw, pName]

theorem qTypeCond_none1 (ts : List Tok) (h : ∀ r, ts ≠ .name onKw :: r) : qTypeCond ts = none := by
  simp [qTypeCond, tMap, tSeq, tKw_none onKw ts h]

theorem qTypeCond_none2 (r1 : List Tok) (h : ∀ t r2, r1 ≠ .name t :: r2) : qTypeCond (.name onKw :: r1) = none := by
  simp [qTypeCond, tMap, tSeq, tKw, pName_none r1 h]

theorem onKw_eq : onKw = kw "on" := rfl

-- ------------------------------------------------------------------ fields

theorem qField_F1 (ss : Sim (List PSel)) (a n : Name) (r : List Tok) :
    qField ss (.name a :: .punct ':' :: .name n :: r) = qFieldTail ss (some a) n r := by
  rw [← fieldTail_eq]
  unfold qField
  rw [tMap_eq, tSeq_of_some (tOpt_of_some (qAlias_at a _)), tSeq_of_some (pName_cons n r), omap_omap, omap_omap]

theorem qField_F2 (ss : Sim (List PSel)) (n : Name) (r : List Tok) (h : ∀ r', r ≠ .punct ':' :: r') :
    qField ss (.name n :: r) = qFieldTail ss none n r := by
  rw [← fieldTail_eq]
  unfold qField
  rw [tMap_eq, tSeq_of_some (tOpt_of_none (qAlias_none n r h)), tSeq_of_some (pName_cons n r), omap_omap, omap_omap]

theorem qField_F3 (ss : Sim (List PSel)) (n : Name) (r' : List Tok) (h : ∀ n' r'', r' ≠ .name n' :: r'') :
    qField ss (.name n :: .punct ':' :: r') = none := by
  unfold qField
  rw [tMap_eq, tSeq_of_some (tOpt_of_some (qAlias_at n _)), tSeq_of_none (pName_none r' h)]
  rfl

theorem qField_none (ss : Sim (List PSel)) (ts : List Tok) (h : ∀ n r, ts ≠ .name n :: r) : qField ss ts = none := by
  unfold qField
  rw [tMap_eq, tSeq_of_some (tOpt_of_none (qAlias_none' ts h)), tSeq_of_none (pName_none ts h)]
  rfl

theorem qInline_none (ss : Sim (List PSel)) (ts : List Tok) (h : ∀ r, ts ≠ .spread :: r) : qInline ss ts = none := by
  unfold qInline
  rw [tMap_eq, tSeq_of_none (tSpread_none ts h)]
  rfl

theorem qSpread_none (ts : List Tok) (h : ∀ r, ts ≠ .spread :: r) : qSpread ts = none := by
  unfold qSpread
  rw [tMap_eq, tSeq_of_none (tSpread_none ts h)]
  rfl

/-- on a Name, a selection is a field -/
theorem qSelection_name (ss : Sim (List PSel)) (n : Name) (r : List Tok) :
    qSelection ss (.name n :: r) = qField ss (.name n :: r) := by
  unfold qSelection tOr
  rw [qInline_none ss _ (fun r' e => by cases e), qSpread_none _ (fun r' e => by cases e)]
  cases qField ss (.name n :: r) <;> rfl

-- ------------------------------------------------------------------ spreads and inline fragments

theorem tSpread_cons (r : List Tok) : tSpread (.spread :: r) = some ((), r) := rfl

theorem qInline_at (ss : Sim (List PSel)) (r : List Tok) :
    qInline ss (.spread :: r) = (match qTypeCond r with
      | some (t, r2) => qInlineTail ss (some t) r2
      | none => qInlineTail ss none r) := by
  unfold qInline
  rw [tMap_eq, tSeq_of_some (tSpread_cons r)]
  cases h : qTypeCond r with
  | none =>
    simp only []
    rw [tSeq_of_some (tOpt_of_none h), omap_omap, omap_omap, ← inlineTail_eq]
  | some x =>
    obtain ⟨t, r2⟩ := x
    simp only []
    rw [tSeq_of_some (tOpt_of_some h), omap_omap, omap_omap, ← inlineTail_eq]

theorem tNot_of_some {α : Type} {q : Sim α} {ts : List Tok} {x : α × List Tok} (h : q ts = some x) : tNot q ts = none := by
  simp only [tNot, h]

theorem tNot_of_none {α : Type} {q : Sim α} {ts : List Tok} (h : q ts = none) : tNot q ts = some ((), ts) := by
  simp only [tNot, h]

theorem qSpread_at (r : List Tok) :
    qSpread (.spread :: r) = (match qTypeCond r with
      | some _ => none
      | none => (match tKw onKw r with
        | some _ => none
        | none => (match pName r with
          | some (n, r1) => qSpreadTail n r1
          | none => none))) := by
  unfold qSpread
  rw [tMap_eq, tSeq_of_some (tSpread_cons r)]
  cases h1 : qTypeCond r with
  | some x =>
    simp only []
    rw [tSeq_of_none (tNot_of_some h1)]; rfl
  | none =>
    simp only []
    rw [tSeq_of_some (tNot_of_none h1)]
    cases h2 : tKw onKw r with
    | some y =>
      simp only []
      rw [tSeq_of_none (tNot_of_some h2)]; rfl
    | none =>
      simp only []
      rw [tSeq_of_some (tNot_of_none h2)]
      cases h3 : pName r with
      | none =>
        simp only []
        rw [tSeq_of_none h3]; rfl
      | some z =>
        obtain ⟨n, r1⟩ := z
        simp only []
        rw [tSeq_of_some h3, omap_omap, omap_omap, omap_omap, omap_omap, ← spreadTail_eq]

theorem qSelection_spread (ss : Sim (List PSel)) (r : List Tok) :
    qSelection ss (.spread :: r) = (match qInline ss (.spread :: r) with
      | some x => some x
      | none => qSpread (.spread :: r)) := by
  unfold qSelection tOr
  rw [qField_none ss _ (fun n r' e => by cases e)]
  cases qInline ss (.spread :: r) <;> rfl

/-- a reader of selection sets starts with `{` -/
def NeedsBrace (ss : Sim (List PSel)) : Prop := ∀ ts, (∀ r, ts ≠ .punct '{' :: r) → ss ts = none

theorem qOptDirs_name (c : Bool) (n : Name) (r : List Tok) : qOptDirs c (.name n :: r) = some ([], .name n :: r) :=
  qOptDirs_skip c _ (fun r' e => by cases e)

theorem qSel_I1 (ss : Sim (List PSel)) (t : Name) (r2 : List Tok) :
    qSelection ss (.spread :: .name onKw :: .name t :: r2) = qInlineTail ss (some t) r2 := by
  rw [qSelection_spread, qInline_at, qSpread_at, qTypeCond_at]
  simp only []
  cases qInlineTail ss (some t) r2 <;> rfl

theorem qSel_I2 (ss : Sim (List PSel)) (hss : NeedsBrace ss) (r1 : List Tok) (h : ∀ t r2, r1 ≠ .name t :: r2) :
    qSelection ss (.spread :: .name onKw :: r1) = none := by
  rw [qSelection_spread, qInline_at, qSpread_at, qTypeCond_none2 r1 h]
  simp only []
  have e1 : qInlineTail ss none (.name onKw :: r1) = none := by
    unfold qInlineTail
    rw [qOptDirs_name]
    simp only [obind, hss (.name onKw :: r1) (fun r e => by cases e)]
  have e2 : tKw onKw (.name onKw :: r1) = some ((), r1) := by simp [tKw]
  rw [e1, e2]

theorem qSel_Sp (ss : Sim (List PSel)) (hss : NeedsBrace ss) (n : Name) (r1 : List Tok) (hn : n ≠ onKw) :
    qSelection ss (.spread :: .name n :: r1) = qSpreadTail n r1 := by
  have hne : ∀ r, (Tok.name n :: r1) ≠ .name onKw :: r := by
    intro r e; cases e; exact hn rfl
  rw [qSelection_spread, qInline_at, qSpread_at, qTypeCond_none1 _ hne]
  simp only []
  have e1 : qInlineTail ss none (.name n :: r1) = none := by
    unfold qInlineTail
    rw [qOptDirs_name]
    simp only [obind, hss (.name n :: r1) (fun r e => by cases e)]
  rw [e1, tKw_none onKw _ hne]
  simp only [pName]

theorem qSel_I3 (ss : Sim (List PSel)) (r : List Tok) (h : ∀ n r1, r ≠ .name n :: r1) :
    qSelection ss (.spread :: r) = qInlineTail ss none r := by
  have hne : ∀ r', r ≠ .name onKw :: r' := fun r' e => h _ _ e
  rw [qSelection_spread, qInline_at, qSpread_at, qTypeCond_none1 _ hne]
  simp only []
  rw [tKw_none onKw _ hne, pName_none r h]
  cases qInlineTail ss none r <;> rfl

theorem qSel_other (ss : Sim (List PSel)) (ts : List Tok) (h1 : ∀ r, ts ≠ .spread :: r) (h2 : ∀ n r, ts ≠ .name n :: r) :
    qSelection ss ts = none := by
  unfold qSelection tOr
  rw [qField_none ss ts h2, qInline_none ss ts h1, qSpread_none ts h1]
end AGV.Lemmas.PegX
