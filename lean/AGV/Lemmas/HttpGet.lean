import AGV.Model.HttpGet

/-! Helper lemmas for C35 (Props/C35.lean). -/

namespace AGV.Lemmas.HttpGet
open AGV.Spec.HttpGet AGV.Model.HttpGet

theorem entryOf_not_mutation (v : Option Int) (ty : OpType) (f : Fld) (h : ty ≠ .mutation) :
    (entryOf v ty f).isMutation = false := by
  cases ty <;> cases f <;> simp_all [entryOf, Entry.isMutation]

/-- the operation a marked request is prepared with is never a mutation -/
theorem prepare_marked (g : GReq) (h : g.queryOnly = true) (o : Op) (hp : prepare g = some o) :
    o.ty ≠ .mutation := by
  unfold prepare at hp
  split at hp
  · simp at hp
  · split at hp
    · simp at hp
    · split at hp
      · simp at hp
      · split at hp
        · simp at hp
        · rename_i o' _
          split at hp
          · simp at hp
          · rename_i hg
            simp only [Option.some.injEq] at hp
            subst hp
            intro hm
            simp [h, hm] at hg

theorem executeOnce_log_not_mutation (v : Option Int) (o : Op) (h : o.ty ≠ .mutation) :
    (executeOnce v o).2.all (fun e => !e.isMutation) = true := by
  unfold executeOnce
  split
  · simp
  · simp only [List.all_map, List.all_eq_true]
    intro f _
    simp [entryOf_not_mutation v o.ty f h]

/-- executor level: a marked request never reaches a mutation resolver -/
theorem execute_marked_log (g : GReq) (h : g.queryOnly = true) :
    (execute g).2.all (fun e => !e.isMutation) = true := by
  unfold execute
  split
  · simp
  · rename_i o hp
    exact executeOnce_log_not_mutation g.v o (prepare_marked g h o hp)

/-- `prepare` of a marked request whose selected operation is a mutation fails -/
theorem prepare_marked_mutation (g : GReq) (l : List Op) (o : Op) (h : g.queryOnly = true)
    (hd : g.doc = .ops l) (hs : selectOp l g.opName = some o) (hm : o.ty = .mutation) :
    prepare g = none := by
  unfold prepare
  rw [hd]
  simp only
  split
  · rfl
  · split
    · rfl
    · rw [hs]
      simp [h, hm]

theorem selectOp_eq_selected (ops : List Op) (n : Option String) : selectOp ops n = selected ops n := by
  cases n with
  | none =>
    unfold selectOp selected
    match ops with
    | [] => simp
    | [o] => simp
    | _ :: _ :: _ => simp
  | some n =>
    simp only [selectOp, selected]
    match ops with
    | [] => simp [isSingleDoc]
    | [o] =>
      cases hn : o.name <;> simp [isSingleDoc, List.find?, hn]
    | _ :: _ :: _ => simp [isSingleDoc]

/-- without the mark the gate is the identity -/
theorem prepare_unmarked_of_not_mutation (d : Doc) (n : Option String) (v : Option Int) (q : Bool)
    (h : ∀ l o, d = .ops l → selectOp l n = some o → o.ty ≠ .mutation) :
    prepare ⟨d, n, v, q⟩ = prepare ⟨d, n, v, false⟩ := by
  unfold prepare
  cases d with
  | raw => rfl
  | ops l =>
    simp only
    split
    · rfl
    · split
      · rfl
      · split
        · rfl
        · rename_i o hs
          have := h l o rfl hs
          simp [this]

end AGV.Lemmas.HttpGet

namespace AGV.Lemmas.HttpGet
open AGV.Spec.HttpGet AGV.Model.HttpGet

theorem selectOp_mem (l : List Op) (n : Option String) (o : Op) (h : selectOp l n = some o) : o ∈ l := by
  cases n with
  | none =>
    match l, h with
    | [o'], h => simp [selectOp] at h; simp [h]
  | some n =>
    simp only [selectOp] at h
    split at h
    · simp at h
    · exact List.mem_of_find?_eq_some h

/-- what a successful `prepare` tells -/
theorem prepare_some_inv (g : GReq) (o : Op) (h : prepare g = some o) :
    ∃ l, g.doc = .ops l ∧ selectOp l g.opName = some o ∧ o.fields ≠ [] ∧ opValid o = true := by
  unfold prepare at h
  split at h
  · simp at h
  · rename_i l hd
    split at h
    · simp at h
    · rename_i hp
      split at h
      · simp at h
      · rename_i hv
        split at h
        · simp at h
        · rename_i o' hs
          split at h
          · simp at h
          · simp only [Option.some.injEq] at h
            subst h
            have hm := selectOp_mem l g.opName o' hs
            refine ⟨l, hd, hs, ?_, ?_⟩
            · have hp' : parses l = true := by simpa using hp
              simp only [parses, Bool.and_eq_true, List.all_eq_true] at hp'
              have := hp'.1.1.2 o' hm
              intro he; simp [he] at this
            · have hv' : l.all opValid = true := by simpa using hv
              exact List.all_eq_true.mp hv' o' hm

theorem entryOf_mutation (v : Option Int) (f : Fld) : (entryOf v .mutation f).isMutation = true := by
  cases f <;> rfl

end AGV.Lemmas.HttpGet
