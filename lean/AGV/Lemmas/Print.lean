/-
  Helper lemmas for C15: the escape written by `write_quoted` for one character, and how the
  parser's grammar scan (`scanStr`) and `string_value` (`stringValue`) treat it.
-/
import AGV.Lemmas.PrintTable
import AGV.Model.Json
import AGV.Spec.Literal

namespace AGV.Lemmas.Print
open AGV.Digits AGV.Core AGV.Model.Print AGV.Gen.WriteQuoted AGV.Lemmas.PrintTable

-- ------------------------------------------------------------------ finite tables

theorem isHex_lower : ∀ k, k < 16 → isHex (lowerDigit k) = true := by decide
theorem hexVal_lower : ∀ k, k < 16 → hexVal (lowerDigit k) = k := by decide

theorem isControl_lt {c : Char} (h : isControl c = true) : c.toNat < 160 := by
  simp [isControl] at h; omega

-- ------------------------------------------------------------------ escChar, by cases on the character

/-- the character classes `write_quoted` distinguishes -/
inductive EscKind (c : Char) : Prop where
  | cr (h : c = '\r') (e : escChar 16 c = ['\\', 'r'])
  | lf (h : c = '\n') (e : escChar 16 c = ['\\', 'n'])
  | tab (h : c = '\t') (e : escChar 16 c = ['\\', 't'])
  | quote (h : c = '"') (e : escChar 16 c = ['\\', '"'])
  | backslash (h : c = '\\') (e : escChar 16 c = ['\\', '\\'])
  | control (hlt : c.toNat < 160)
      (e : escChar 16 c = ['\\', 'u', '0', '0', lowerDigit (c.toNat / 16), lowerDigit (c.toNat % 16)])
  | plain (h1 : c ≠ '\r') (h2 : c ≠ '\n') (h4 : c ≠ '"') (h5 : c ≠ '\\') (e : escChar 16 c = [c])

theorem escKind (c : Char) : EscKind c := by
  have e13 : Char.ofNat 13 = '\r' := by decide
  have e10 : Char.ofNat 10 = '\n' := by decide
  have e9 : Char.ofNat 9 = '\t' := by decide
  have e34 : Char.ofNat 34 = '"' := by decide
  have e92 : Char.ofNat 92 = '\\' := by decide
  have e114 : Char.ofNat 114 = 'r' := by decide
  have e110 : Char.ofNat 110 = 'n' := by decide
  have e116 : Char.ofNat 116 = 't' := by decide
  have e117 : Char.ofNat 117 = 'u' := by decide
  by_cases h1 : c = '\r'
  · exact .cr h1 (by subst h1; decide)
  by_cases h2 : c = '\n'
  · exact .lf h2 (by subst h2; decide)
  by_cases h3 : c = '\t'
  · exact .tab h3 (by subst h3; decide)
  by_cases h4 : c = '"'
  · exact .quote h4 (by subst h4; decide)
  by_cases h5 : c = '\\'
  · exact .backslash h5 (by subst h5; decide)
  have b1 : (c == Char.ofNat 13) = false := by rw [e13]; simpa using h1
  have b2 : (c == Char.ofNat 10) = false := by rw [e10]; simpa using h2
  have b3 : (c == Char.ofNat 9) = false := by rw [e9]; simpa using h3
  have b4 : (c == Char.ofNat 34) = false := by rw [e34]; simpa using h4
  have b5 : (c == Char.ofNat 92) = false := by rw [e92]; simpa using h5
  have hl : escapes.lookup c = none := by
    simp only [escapes, List.lookup, b1, b2, b3, b4, b5]
  by_cases hc : isControl c = true
  · refine .control (isControl_lt hc) ?_
    simp only [escChar, hl, hc, if_true, escControl, ctl_digits16 _ (isControl_lt hc)]
    simp [controlPrefix]
  · exact .plain h1 h2 h4 h5 (by simp [escChar, hl, hc])

-- ------------------------------------------------------------------ one escape through the parser

/-- the grammar scan consumes exactly the escape written for one character -/
theorem scanStr_esc (c : Char) (tl : List Char) :
    scanStr (escChar 16 c ++ tl) = (scanStr tl).map (fun p => (escChar 16 c ++ p.1, p.2)) := by
  cases escKind c with
  | cr h e => rw [e, scanStr.eq_def]; simp [isSimpleEsc]; cases scanStr tl <;> rfl
  | lf h e => rw [e, scanStr.eq_def]; simp [isSimpleEsc]; cases scanStr tl <;> rfl
  | tab h e => rw [e, scanStr.eq_def]; simp [isSimpleEsc]; cases scanStr tl <;> rfl
  | quote h e => rw [e, scanStr.eq_def]; simp [isSimpleEsc]; cases scanStr tl <;> rfl
  | backslash h e => rw [e, scanStr.eq_def]; simp [isSimpleEsc]; cases scanStr tl <;> rfl
  | control hlt e =>
    rw [e, scanStr.eq_def]
    have a := isHex_lower (c.toNat / 16) (by omega)
    have b := isHex_lower (c.toNat % 16) (by omega)
    have z : isHex '0' = true := by decide
    simp [isSimpleEsc, hex4ok, a, b, z]
    cases scanStr tl <;> rfl
  | plain h1 h2 h4 h5 e =>
    rw [e, List.singleton_append, scanStr.eq_def]; simp [h1, h2, h4, h5]; cases scanStr tl <;> rfl

/-- `string_value` decodes the escape written for one character to that character -/
theorem stringValue_esc (c : Char) (tl : List Char) :
    stringValue (escChar 16 c ++ tl) = (stringValue tl).map (c :: ·) := by
  cases escKind c with
  | cr h e => rw [e, stringValue.eq_def]; subst h; simp
  | lf h e => rw [e, stringValue.eq_def]; subst h; simp
  | tab h e => rw [e, stringValue.eq_def]; subst h; simp
  | quote h e => rw [e, stringValue.eq_def]; subst h; simp
  | backslash h e => rw [e, stringValue.eq_def]; subst h; simp
  | control hlt e =>
    rw [e, stringValue.eq_def]
    have a := isHex_lower (c.toNat / 16) (by omega)
    have b := isHex_lower (c.toNat % 16) (by omega)
    have a' := hexVal_lower (c.toNat / 16) (by omega)
    have b' := hexVal_lower (c.toNat % 16) (by omega)
    have z : isHex '0' = true := by decide
    have z' : hexVal '0' = 0 := by decide
    have hn : c.toNat / 16 * 16 + c.toNat % 16 = c.toNat := by omega
    have hv : Nat.isValidChar c.toNat := c.valid
    simp [a, b, a', b', z, z', hn, hv]
  | plain h1 h2 h4 h5 e => rw [e, List.singleton_append, stringValue.eq_def]; simp [h5]

theorem scanStr_writeBody (s rest : List Char) :
    scanStr (writeBody 16 s ++ '"' :: rest) = some (writeBody 16 s, rest) := by
  induction s with
  | nil => rw [scanStr.eq_def]; simp [writeBody]
  | cons c r ih => simp [writeBody, List.append_assoc, scanStr_esc, ih]

theorem stringValue_writeBody (s : List Char) : stringValue (writeBody 16 s) = some s := by
  induction s with
  | nil => rw [stringValue.eq_def]; simp [writeBody]
  | cons c r ih => simp [writeBody, stringValue_esc, ih]

end AGV.Lemmas.Print
