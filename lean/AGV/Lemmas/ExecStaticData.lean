/-
  Lemmas for C01 (data equality of the executor model and the specification executor):
    * association lists / grouping with pairwise distinct keys (`createValueObject_nodup`, `group_nodup`);
    * `joinAll` versus index-wise completion; completion congruence `resolveValue_val_eq`
      (model `resolveValue` = spec `complete` on values, faults included);
    * `collect_agree`: the model's `add_set` collects the specification's field occurrences when no
      directive acts and no fragment name is spread twice in one selection set;
    * `container_val_eq` / `run_val_eq`: lock-step induction on fuel under `noRepeatedKeys`;
    * decidable sufficient conditions (`schemaWF`, `worldFloatOK`);
    * errors: `run_errs_sub` (every error of the model is an error of the specification) under the
      same hypotheses plus `deepEnough`; `Ex`: a non-trivial instance of the hypotheses.
-/
import AGV.Lemmas.ExecStatic

namespace AGV.Lemmas.ExecStaticData
open AGV.Core AGV.Model.ExecStatic AGV.Lemmas.ExecStatic
open AGV.Spec.Exec (FieldOcc complete execSet group mapIdx serializeLeaf doesApply excluded argValue)

-- ------------------------------------------------------------------ association lists with distinct keys

theorem insertKV_fresh (f : GValue → GValue → GValue) (m : List (String × GValue)) (k : String) (v : GValue)
    (h : k ∉ m.map (·.1)) : insertKV f m k v = m ++ [(k, v)] := by
  unfold insertKV
  rw [any_key]
  simp [h]

theorem foldl_insertKV_nodup (f : GValue → GValue → GValue) (kvs : List (String × GValue)) :
    ∀ m : List (String × GValue), (m.map (·.1) ++ kvs.map (·.1)).Nodup →
      kvs.foldl (fun m p => insertKV f m p.1 p.2) m = m ++ kvs := by
  induction kvs with
  | nil => intro m _; simp
  | cons p ps ih =>
    intro m h
    have hp : p.1 ∉ m.map (·.1) := by
      intro hm
      rw [List.nodup_append] at h
      exact h.2.2 _ hm _ (by simp) rfl
    rw [List.foldl_cons, insertKV_fresh f m p.1 p.2 hp, ih]
    · simp
    · simpa [List.append_assoc] using h

/-- with pairwise distinct keys `create_value_object` is the association list itself -/
theorem createValueObject_nodup (D : Defects) (fuel : Nat) (kvs : List (String × GValue)) (h : (kvs.map (·.1)).Nodup) :
    createValueObject D fuel kvs = .obj kvs := by
  unfold createValueObject
  rw [foldl_insertKV_nodup _ kvs [] (by simpa using h)]
  simp

theorem group_foldl_nodup (occs : List FieldOcc) :
    ∀ gs : List (String × List FieldOcc), (gs.map (·.1) ++ occs.map (·.key)).Nodup →
      occs.foldl (fun gs o =>
        if gs.any (·.1 = o.key) then gs.map (fun g => if g.1 = o.key then (g.1, g.2 ++ [o]) else g)
        else gs ++ [(o.key, [o])]) gs = gs ++ occs.map (fun o => (o.key, [o])) := by
  induction occs with
  | nil => intro gs _; simp
  | cons o os ih =>
    intro gs h
    have hp : o.key ∉ gs.map (·.1) := by
      intro hm
      rw [List.nodup_append] at h
      exact h.2.2 _ hm _ (by simp) rfl
    have hany : gs.any (fun g => decide (g.1 = o.key)) = false := by
      rw [Bool.eq_false_iff]
      intro hc
      simp only [List.any_eq_true, decide_eq_true_eq] at hc
      obtain ⟨g, hg, e⟩ := hc
      exact hp (by simp only [List.mem_map]; exact ⟨g, hg, e⟩)
    rw [List.foldl_cons, hany]
    simp only [Bool.false_eq_true, if_false]
    rw [ih]
    · simp
    · simpa [List.append_assoc] using h

/-- with pairwise distinct response keys every occurrence is its own group -/
theorem group_nodup (occs : List FieldOcc) (h : (occs.map (·.key)).Nodup) :
    group occs = occs.map (fun o => (o.key, [o])) := by
  unfold group
  rw [group_foldl_nodup occs [] (by simpa using h)]
  simp

-- ------------------------------------------------------------------ joinAll

theorem joinAll_all (fs : List (Unit → Res)) :
    (joinAll fs).all (·.val.isSome) = fs.all (fun f => (f ()).val.isSome) := by
  induction fs with
  | nil => simp [joinAll]
  | cons f rest ih =>
    cases hv : (f ()).val with
    | none => simp [joinAll, hv]
    | some v => simp [joinAll, hv, ih]

theorem joinAll_eq_of_all (fs : List (Unit → Res)) (h : fs.all (fun f => (f ()).val.isSome) = true) :
    joinAll fs = fs.map (fun f => f ()) := by
  induction fs with
  | nil => simp [joinAll]
  | cons f rest ih =>
    simp only [List.all_cons, Bool.and_eq_true] at h
    cases hv : (f ()).val with
    | none => simp [hv] at h
    | some v => simp [joinAll, hv, ih h.2]

theorem mapIdx_map {α β γ} (g : β → γ) (f : Nat → α → β) (xs : List α) :
    ∀ i, (mapIdx f xs i).map g = mapIdx (fun i x => g (f i x)) xs i := by
  induction xs with
  | nil => intro i; simp [mapIdx]
  | cons x xs ih => intro i; simp [mapIdx, ih]

theorem mapIdx_congr {α β} (f g : Nat → α → β) (xs : List α) (h : ∀ i, ∀ x ∈ xs, f i x = g i x) :
    ∀ i, mapIdx f xs i = mapIdx g xs i := by
  induction xs with
  | nil => intro i; simp [mapIdx]
  | cons x xs ih =>
    intro i
    simp only [mapIdx]
    rw [h i x (by simp), ih (fun i y hy => h i y (by simp [hy]))]


def builtinScalars : List String := ["Int", "Float", "String", "Boolean", "ID"]

theorem composite_not_enum (S : Schema) (n : String) (t : TypeDef) (h : S.find? n = some t) (hc : S.isComposite n = true) :
    (t.kind == Kind.enum) = false := by
  unfold Schema.isComposite Schema.kindOf at hc
  rw [h] at hc
  cases hk : t.kind <;> simp_all <;> rfl

theorem toValue_spec (D : Defects) (hD : D.nanNullInNonNull = false) (S : Schema) (n : String) (v v' : GValue)
    (hb : ∀ b ∈ builtinScalars, S.isComposite b = false) (hf : n = "Float" → ∀ i, v ≠ .int i) :
    toValue D S n v = some (some v') ↔ (S.isComposite n = false ∧ serializeLeaf S n v = some v') := by
  have h1 := hb "Int" (by simp [builtinScalars])
  have h2 := hb "Float" (by simp [builtinScalars])
  have h3 := hb "String" (by simp [builtinScalars])
  have h4 := hb "Boolean" (by simp [builtinScalars])
  have h5 := hb "ID" (by simp [builtinScalars])
  unfold toValue serializeLeaf
  split
  all_goals (try (simp_all; done))
  · rename_i t
    by_cases hn : (t = "NaN" ∨ t = "inf" ∨ t = "-inf") <;> simp [hn, hD, h2]
  · rename_i e
    have hs : serializeLeaf S n (GValue.enum e) = (match S.find? n with
        | some t => if (t.kind == Kind.enum && t.values.contains e) = true then some (GValue.str e) else none
        | none => none) := by
      unfold serializeLeaf
      split <;> simp_all
      rfl
    unfold serializeLeaf at hs
    rw [hs]
    cases hfind : S.find? n with
    | none => simp
    | some t =>
      cases hc : S.isComposite n with
      | true => simp [composite_not_enum S n t hfind hc]
      | false => by_cases hk : (t.kind == Kind.enum && t.values.contains e) = true <;> simp_all


theorem joinAll_vals (fs : List (Unit → Res)) :
    ∀ (B : List Res), fs.map (fun f => (f ()).val) = B.map (·.val) →
      (joinAll fs).all (·.val.isSome) = B.all (·.val.isSome) ∧
      (B.all (·.val.isSome) = true → (joinAll fs).filterMap (·.val) = B.filterMap (·.val)) := by
  induction fs with
  | nil => intro B h; cases B <;> simp_all [joinAll]
  | cons f rest ih =>
    intro B h
    cases B with
    | nil => simp at h
    | cons b B' =>
      simp only [List.map_cons, List.cons.injEq] at h
      obtain ⟨ih1, ih2⟩ := ih B' h.2
      cases hv : (f ()).val with
      | none =>
        have hb : b.val = none := by rw [← h.1, hv]
        simp [joinAll, hv, hb]
      | some v =>
        have hb : b.val = some v := by rw [← h.1, hv]
        simp only [joinAll, hv, List.all_cons, List.filterMap_cons, hb, Option.isSome_some, Bool.true_and, ih1]
        refine ⟨trivial, fun hall => ?_⟩
        rw [ih2 hall]


-- ------------------------------------------------------------------ completion: model = spec (values)

mutual
/-- no `Int` leaf anywhere in a resolver result (the spec serialises an `Int` leaf at a `Float`
    position, the Rust `f64::to_value` is never handed one) -/
def noIntLeaf : RVal → Bool
  | .leaf (.int _) => false
  | .list xs => noIntLeafs xs
  | _ => true
def noIntLeafs : List RVal → Bool
  | [] => true
  | x :: r => noIntLeaf x && noIntLeafs r
end

theorem noIntLeafs_mem : ∀ xs, noIntLeafs xs = true → ∀ x ∈ xs, noIntLeaf x = true := by
  intro xs
  induction xs with
  | nil => intro _ x hx; simp at hx
  | cons y ys ih =>
    intro h x hx
    simp only [noIntLeafs, Bool.and_eq_true] at h
    simp only [List.mem_cons] at hx
    rcases hx with rfl | hx
    · exact h.1
    · exact ih h.2 x hx

theorem complete_nonNull_val (S : Schema) (rec : String → Nat → List Sel → List PathSeg → Res)
    (t : TypeRef) (rv : RVal) (ss : List Sel) (path : List PathSeg) (pos : Pos) (h : rv ≠ .null) :
    ((complete S rec t rv ss path pos).val = some .null → (complete S rec (.nonNull t) rv ss path pos).val = none) ∧
    ((complete S rec t rv ss path pos).val ≠ some .null →
      (complete S rec (.nonNull t) rv ss path pos).val = (complete S rec t rv ss path pos).val) := by
  constructor
  · intro hv
    cases rv <;> simp_all [complete] <;> split <;> simp_all
  · intro hv
    cases rv <;> simp_all [complete] <;> split <;> simp_all

theorem resolveValue_val_eq (c : Model.ExecStatic.Ctx) (hD : c.D.nanNullInNonNull = false)
    (hb : ∀ b ∈ builtinScalars, c.S.isComposite b = false)
    (recM : String → String → Nat → List Sel → List PathSeg → Res) (hrec : RecOK recM)
    (recS : String → Nat → List Sel → List PathSeg → Res) (ss : List Sel) :
    ∀ (t : TypeRef),
      (∀ ty id p, (c.S.possibleTypes t.base).contains ty = true → (recM t.base ty id ss p).val = (recS ty id ss p).val) →
      ∀ (rv : RVal) (path : List PathSeg) (pos : Pos), (t.base = "Float" → noIntLeaf rv = true) →
      (resolveValue c recM t rv ss path pos).val = (complete c.S recS t rv ss path pos).val := by
  intro t
  induction t with
  | named n =>
    intro hr rv path pos hf
    cases rv with
    | null => simp [resolveValue, complete]
    | obj ty id =>
      simp only [resolveValue, complete]
      by_cases hp : (c.S.possibleTypes n).contains ty = true
      · have e := hr ty id path hp
        simp only [TypeRef.base] at e
        rw [if_pos hp, if_pos hp]
        cases h1 : (recM n ty id ss path).val <;> cases h2 : (recS ty id ss path).val <;> simp_all
      · rw [if_neg hp, if_neg hp]
    | leaf v =>
      simp only [resolveValue, complete]
      have hf' : n = "Float" → ∀ i, v ≠ .int i := by
        intro hn i hv
        subst hv
        have := hf hn
        simp [noIntLeaf] at this
      have key := fun v' => toValue_spec c.D hD c.S n v v' hb hf'
      cases hc : c.S.isComposite n with
      | true =>
        simp only [if_true]
        cases htv : toValue c.D c.S n v with
        | none => rfl
        | some o =>
          cases o with
          | none => rfl
          | some v' => have := (key v').1 htv; simp [hc] at this
      | false =>
        simp only [Bool.false_eq_true, if_false]
        cases hs : serializeLeaf c.S n v with
        | some v' => rw [(key v').2 ⟨hc, hs⟩]
        | none =>
          cases htv : toValue c.D c.S n v with
          | none => rfl
          | some o =>
            cases o with
            | none => rfl
            | some v' => have := (key v').1 htv; simp [hs] at this
    | list xs => simp [resolveValue, complete]
    | fail m => simp [resolveValue, complete]
    | arg a => simp [resolveValue, complete]
  | list t ih =>
    intro hr rv path pos hf
    cases rv with
    | null => simp [resolveValue, complete]
    | list xs =>
      simp only [resolveValue, complete]
      have hAB : (mapIdx (fun i x => fun (_ : Unit) =>
            itemWrap c.D (path ++ [PathSeg.idx i]) (resolveValue c recM t x ss (path ++ [PathSeg.idx i]) pos)) xs 0).map
            (fun f => (f ()).val) =
          (mapIdx (fun i x => complete c.S recS t x ss (path ++ [PathSeg.idx i]) pos) xs 0).map (·.val) := by
        rw [mapIdx_map, mapIdx_map]
        apply mapIdx_congr
        intro i x hx
        rw [itemWrap_val]
        apply ih hr
        intro hfl
        exact noIntLeafs_mem xs (by simpa [noIntLeaf] using hf hfl) x hx
      obtain ⟨h1, h2⟩ := joinAll_vals _ _ hAB
      rw [h1]
      split
      · rename_i hall
        simp only
        rw [h2 hall]
      · rfl
    | obj ty id => simp [resolveValue, complete]
    | leaf v => simp [resolveValue, complete]
    | fail m => simp [resolveValue, complete]
    | arg a => simp [resolveValue, complete]
  | nonNull t ih =>
    intro hr rv path pos hf
    by_cases hrv : rv = .null
    · subst hrv; simp [resolveValue, complete]
    · rw [resolveValue_nonNull c recM t rv ss path pos hrv]
      have e := ih hr rv path pos hf
      have h2 := (resolveValue_props c hD recM hrec t rv ss path pos).2
      obtain ⟨ca, cb⟩ := complete_nonNull_val c.S recS t rv ss path pos hrv
      cases hv : (complete c.S recS t rv ss path pos).val with
      | none =>
        rw [cb (by simp [hv]), hv]
        unfold nnWrap
        rw [hv] at e
        simp [e]
      | some v =>
        by_cases hnull : v = .null
        · subst hnull
          rw [ca hv]
          rw [hv] at e
          have hne := h2 e
          unfold nnWrap
          by_cases hemp : (resolveValue c recM t rv ss path pos).errs = []
          · exact absurd (hne hemp) hrv
          · simp [e, hemp]
        · rw [cb (by simp [hv, hnull]), hv]
          rw [hv] at e
          unfold nnWrap
          cases v <;> simp_all


/-- the specification-side context of a model context -/
def sc (c : Model.ExecStatic.Ctx) : AGV.Spec.Exec.Ctx := { S := c.S, d := c.d, vars := c.vars, w := c.w }

def dirsInert (vars : List (String × GValue)) (ds : List Dir) : Bool := !excluded vars ds && !isSkipped vars ds

mutual
def selInert (vars : List (String × GValue)) : Sel → Bool
  | .field _ _ _ ds ss _ => dirsInert vars ds && selsInert vars ss
  | .spread _ ds _ => dirsInert vars ds
  | .inline _ ds ss _ => dirsInert vars ds && selsInert vars ss
def selsInert (vars : List (String × GValue)) : List Sel → Bool
  | [] => true
  | s :: r => selInert vars s && selsInert vars r
end

def spreads (d : Doc) : Nat → List Sel → List String
  | 0, _ => []
  | fuel + 1, sels => (sels.map (fun sel =>
      match sel with
      | .field _ _ _ _ _ _ => []
      | .spread n _ _ => n :: (match d.frag? n with
          | none => []
          | some f => spreads d fuel f.sels)
      | .inline _ _ ss _ => spreads d fuel ss)).flatten

def IsObj (S : Schema) (rt : String) : Prop := ∃ o, S.find? rt = some o ∧ o.kind = .object

structure SchemaOK (S : Schema) : Prop where
  applies : ∀ rt, IsObj S rt → ∀ cond, appliesConcrete Defects.none S rt cond = doesApply S rt cond
  possible : ∀ n ty, ty ∈ S.possibleTypes n → IsObj S ty ∧ doesApply S ty n = true

def eraseSt (o : FieldOcc) : FieldOcc := { o with st := "" }

def specStep (c : AGV.Spec.Exec.Ctx) (rt : String) (fuel : Nat) (acc : List FieldOcc × List String) (sel : Sel) :
    List FieldOcc × List String :=
      match sel with
      | .field al n args dirs ss pos =>
        if excluded c.vars dirs then acc
        else (acc.1 ++ [{ key := AGV.Spec.Exec.Sel.key al n, name := n, args := args, sels := ss, pos := pos }], acc.2)
      | .spread n dirs _ =>
        if excluded c.vars dirs then acc
        else if acc.2.contains n then acc
        else
          let vis := n :: acc.2
          match c.d.frag? n with
          | none => (acc.1, vis)
          | some f =>
            if !doesApply c.S rt f.cond then (acc.1, vis)
            else
              let r := AGV.Spec.Exec.collect c rt fuel f.sels vis
              (acc.1 ++ r.1, r.2)
      | .inline cond dirs ss _ =>
        if excluded c.vars dirs then acc
        else
          match cond with
          | some t =>
            if !doesApply c.S rt t then acc
            else
              let r := AGV.Spec.Exec.collect c rt fuel ss acc.2
              (acc.1 ++ r.1, r.2)
          | none =>
            let r := AGV.Spec.Exec.collect c rt fuel ss acc.2
            (acc.1 ++ r.1, r.2)

theorem spec_collect_succ (c : AGV.Spec.Exec.Ctx) (rt : String) (fuel : Nat) (sels : List Sel) (vis : List String) :
    AGV.Spec.Exec.collect c rt (fuel + 1) sels vis = sels.foldl (specStep c rt fuel) ([], vis) := by
  rfl

theorem collect_cons (c : Model.ExecStatic.Ctx) (rt : String) (fuel : Nat) (st : String) (s : Sel) (r : List Sel) :
    Model.ExecStatic.collect c rt (fuel + 1) st (s :: r) =
      Model.ExecStatic.collect c rt (fuel + 1) st [s] ++ Model.ExecStatic.collect c rt (fuel + 1) st r := by
  simp [Model.ExecStatic.collect]

/-- `add_set` distributes over concatenation of selection sets (first step of the merge lemma) -/
theorem collect_append (c : Model.ExecStatic.Ctx) (rt : String) (fuel : Nat) (st : String) (a b : List Sel) :
    Model.ExecStatic.collect c rt fuel st (a ++ b) =
      Model.ExecStatic.collect c rt fuel st a ++ Model.ExecStatic.collect c rt fuel st b := by
  cases fuel with
  | zero => simp [Model.ExecStatic.collect]
  | succ fuel => simp [Model.ExecStatic.collect]

theorem spreads_cons (d : Doc) (fuel : Nat) (s : Sel) (r : List Sel) :
    spreads d (fuel + 1) (s :: r) = spreads d (fuel + 1) [s] ++ spreads d (fuel + 1) r := by
  simp [spreads]

@[simp] theorem sc_S (c : Model.ExecStatic.Ctx) : (sc c).S = c.S := rfl
@[simp] theorem sc_d (c : Model.ExecStatic.Ctx) : (sc c).d = c.d := rfl
@[simp] theorem sc_vars (c : Model.ExecStatic.Ctx) : (sc c).vars = c.vars := rfl
@[simp] theorem sc_w (c : Model.ExecStatic.Ctx) : (sc c).w = c.w := rfl

theorem doesApply_self (S : Schema) (rt : String) (h : IsObj S rt) : doesApply S rt rt = true := by
  obtain ⟨o, ho, hk⟩ := h
  simp [doesApply, ho, hk]

theorem frag_mem (d : Doc) (n : String) (f : FragDef) (h : d.frag? n = some f) : f ∈ d.frags := by
  unfold Doc.frag? at h
  exact List.mem_of_find?_eq_some h

/-- the induction hypothesis on fuel of `collect_agree` -/
def CollectAgree (c : Model.ExecStatic.Ctx) (rt : String) (fuel : Nat) : Prop :=
  ∀ st sels vis, doesApply c.S rt st = true → selsInert c.vars sels = true →
    (spreads c.d fuel sels).Nodup → (∀ n ∈ spreads c.d fuel sels, n ∉ vis) →
    (AGV.Spec.Exec.collect (sc c) rt fuel sels vis).1 = (Model.ExecStatic.collect c rt fuel st sels).map eraseSt ∧
    ∀ n ∈ (AGV.Spec.Exec.collect (sc c) rt fuel sels vis).2, n ∈ vis ∨ n ∈ spreads c.d fuel sels

theorem step_agree (c : Model.ExecStatic.Ctx) (hD : c.D = Defects.none) (hok : SchemaOK c.S) (rt : String)
    (hrt : IsObj c.S rt) (hfr : ∀ f ∈ c.d.frags, selsInert c.vars f.sels = true) (fuel : Nat)
    (ih : CollectAgree c rt fuel) (st : String) (hst : doesApply c.S rt st = true)
    (acc : List FieldOcc × List String) (sel : Sel) (hin : selInert c.vars sel = true)
    (hnd : (spreads c.d (fuel + 1) [sel]).Nodup) (hdis : ∀ n ∈ spreads c.d (fuel + 1) [sel], n ∉ acc.2) :
    (specStep (sc c) rt fuel acc sel).1 = acc.1 ++ (Model.ExecStatic.collect c rt (fuel + 1) st [sel]).map eraseSt ∧
    ∀ n ∈ (specStep (sc c) rt fuel acc sel).2, n ∈ acc.2 ∨ n ∈ spreads c.d (fuel + 1) [sel] := by
  have hApp : ∀ cond, appliesConcrete c.D c.S rt cond = doesApply c.S rt cond := by
    rw [hD]; exact hok.applies rt hrt
  have hstne : ∀ cond, doesApply c.S rt cond = false → ¬ st = cond := by
    intro cond h e; subst e; simp [hst] at h
  have hrtrt := doesApply_self c.S rt hrt
  cases sel with
  | field al n args ds ss pos =>
    simp only [selInert, dirsInert, Bool.and_eq_true, Bool.not_eq_true'] at hin
    simp [specStep, hin.1.1, Model.ExecStatic.collect, eraseSt]
    intro m hm; exact Or.inl hm
  | spread n ds pos =>
    simp only [selInert, dirsInert, Bool.and_eq_true, Bool.not_eq_true'] at hin
    have hn : n ∉ acc.2 := hdis n (by simp [spreads])
    cases hf : c.d.frag? n with
    | none =>
      simp [specStep, hin.1, hn, hf, Model.ExecStatic.collect, spreads]
      intro m hm; exact Or.inl hm
    | some f =>
      have hfin := hfr f (frag_mem c.d n f hf)
      simp only [spreads, hf, List.map_cons, List.map_nil, List.flatten_cons, List.flatten_nil, List.append_nil,
        List.nodup_cons] at hnd hdis
      cases ha : doesApply c.S rt f.cond with
      | true =>
        obtain ⟨i1, i2⟩ := ih rt f.sels (n :: acc.2) hrtrt hfin hnd.2 (by
          intro m hm
          simp only [List.mem_cons, not_or]
          exact ⟨fun e => hnd.1 (e ▸ hm), hdis m (by simp [hm])⟩)
        refine ⟨?_, ?_⟩
        · simp [specStep, hin.1, hn, hf, ha, Model.ExecStatic.collect, hApp, i1]
        · intro m hm
          have hm' : m ∈ (AGV.Spec.Exec.collect (sc c) rt fuel f.sels (n :: acc.2)).2 := by
            simpa [specStep, hin.1, hn, hf, ha] using hm
          have hs : spreads c.d (fuel + 1) [Sel.spread n ds pos] = n :: spreads c.d fuel f.sels := by
            simp [spreads, hf]
          rw [hs]
          rcases i2 m hm' with h | h
          · simp only [List.mem_cons] at h
            rcases h with h | h
            · right; simp [h]
            · left; exact h
          · right; simp [h]
      | false =>
        have hne := hstne f.cond ha
        simp [specStep, hin.1, hn, hf, ha, Model.ExecStatic.collect, hApp, hne]
        refine ⟨by simp [spreads, hf], fun m hm => Or.inl hm⟩
  | inline cond ds ss pos =>
    simp only [selInert, dirsInert, Bool.and_eq_true, Bool.not_eq_true'] at hin
    have hs : spreads c.d (fuel + 1) [Sel.inline cond ds ss pos] = spreads c.d fuel ss := by
      simp [spreads]
    rw [hs] at hnd hdis ⊢
    cases cond with
    | none =>
      obtain ⟨i1, i2⟩ := ih st ss acc.2 hst hin.2 hnd hdis
      refine ⟨?_, ?_⟩
      · simp [specStep, hin.1.1, Model.ExecStatic.collect, i1]
      · intro m hm
        have hm' : m ∈ (AGV.Spec.Exec.collect (sc c) rt fuel ss acc.2).2 := by
          simpa [specStep, hin.1.1] using hm
        exact i2 m hm'
    | some t =>
      cases ha : doesApply c.S rt t with
      | true =>
        obtain ⟨i1, i2⟩ := ih rt ss acc.2 hrtrt hin.2 hnd hdis
        refine ⟨?_, ?_⟩
        · simp [specStep, hin.1.1, ha, Model.ExecStatic.collect, hApp, i1]
        · intro m hm
          have hm' : m ∈ (AGV.Spec.Exec.collect (sc c) rt fuel ss acc.2).2 := by
            simpa [specStep, hin.1.1, ha] using hm
          exact i2 m hm'
      | false =>
        have hne := hstne t ha
        simp [specStep, hin.1.1, ha, Model.ExecStatic.collect, hApp, hne]
        intro m hm; exact Or.inl hm

theorem foldl_agree (c : Model.ExecStatic.Ctx) (hD : c.D = Defects.none) (hok : SchemaOK c.S) (rt : String)
    (hrt : IsObj c.S rt) (hfr : ∀ f ∈ c.d.frags, selsInert c.vars f.sels = true) (fuel : Nat)
    (ih : CollectAgree c rt fuel) (st : String) (hst : doesApply c.S rt st = true) :
    ∀ (sels : List Sel) (acc : List FieldOcc × List String), selsInert c.vars sels = true →
      (spreads c.d (fuel + 1) sels).Nodup → (∀ n ∈ spreads c.d (fuel + 1) sels, n ∉ acc.2) →
      (sels.foldl (specStep (sc c) rt fuel) acc).1 = acc.1 ++ (Model.ExecStatic.collect c rt (fuel + 1) st sels).map eraseSt ∧
      ∀ n ∈ (sels.foldl (specStep (sc c) rt fuel) acc).2, n ∈ acc.2 ∨ n ∈ spreads c.d (fuel + 1) sels := by
  intro sels
  induction sels with
  | nil => intro acc _ _ _; simp [Model.ExecStatic.collect]; exact fun n h => Or.inl h
  | cons s r ihr =>
    intro acc hin hnd hdis
    simp only [selsInert, Bool.and_eq_true] at hin
    rw [spreads_cons] at hnd hdis
    rw [List.nodup_append] at hnd
    obtain ⟨s1, s2⟩ := step_agree c hD hok rt hrt hfr fuel ih st hst acc s hin.1 hnd.1
      (fun n hn => hdis n (by simp [hn]))
    obtain ⟨r1, r2⟩ := ihr (specStep (sc c) rt fuel acc s) hin.2 hnd.2.1 (by
      intro n hn hmem
      rcases s2 n hmem with h | h
      · exact hdis n (by simp [hn]) h
      · exact hnd.2.2 n h n hn rfl)
    rw [List.foldl_cons, collect_cons, spreads_cons]
    refine ⟨?_, ?_⟩
    · rw [r1, s1]; simp
    · intro n hn
      rcases r2 n hn with h | h
      · rcases s2 n h with h' | h'
        · exact Or.inl h'
        · right; simp [h']
      · right; simp [h]

/-- CollectFields: under a repaired `add_set` (union conditions honoured), directives that do not act,
    a schema whose `implements`/`members` lists are consistent, and every fragment name spread at most
    once per selection set, the model collects exactly the specification's field occurrences -/
theorem collect_agree (c : Model.ExecStatic.Ctx) (hD : c.D = Defects.none) (hok : SchemaOK c.S) (rt : String)
    (hrt : IsObj c.S rt) (hfr : ∀ f ∈ c.d.frags, selsInert c.vars f.sels = true) :
    ∀ fuel, CollectAgree c rt fuel := by
  intro fuel
  induction fuel with
  | zero => intro st sels vis _ _ _ _; simp [AGV.Spec.Exec.collect, Model.ExecStatic.collect]; exact fun n h => Or.inl h
  | succ fuel ih =>
    intro st sels vis hst hin hnd hdis
    rw [spec_collect_succ]
    have := foldl_agree c hD hok rt hrt hfr fuel ih st hst sels ([], vis) hin hnd hdis
    simpa using this



abbrev Acc := List (String × GValue) × List GErr × List Inv × Bool

def specRVal (c : AGV.Spec.Exec.Ctx) (id : Nat) (fd : FieldDef) (occ : FieldOcc) : RVal :=
  match c.w.get id occ.name with
  | .arg a => .leaf (argValue c fd occ a)
  | rv => rv

def execStep (c : AGV.Spec.Exec.Ctx) (fuel : Nat) (rt : String) (id : Nat) (path : List PathSeg)
    (acc : Acc) (g : String × List FieldOcc) : Acc :=
      match g.2 with
      | [] => acc
      | occ :: _ =>
        if occ.name = "__typename" then (acc.1 ++ [(g.1, .str rt)], acc.2.1, acc.2.2.1, acc.2.2.2)
        else
          match c.S.field? rt occ.name with
          | none => acc
          | some fd =>
            let rv := specRVal c id fd occ
            let merged := (g.2.map (·.sels)).flatten
            let r := complete c.S (execSet c fuel) fd.ty rv merged (path ++ [.key g.1]) occ.pos
            let log := acc.2.2.1 ++ [⟨id, occ.name, g.1⟩] ++ r.log
            match r.val with
            | some v => (acc.1 ++ [(g.1, v)], acc.2.1 ++ r.errs, log, acc.2.2.2)
            | none => (acc.1, acc.2.1 ++ r.errs, log, true)

theorem execSet_succ (c : AGV.Spec.Exec.Ctx) (fuel : Nat) (rt : String) (id : Nat) (sels : List Sel) (path : List PathSeg) :
    execSet c (fuel + 1) rt id sels path =
      (let out := (group (AGV.Spec.Exec.collect c rt (fuel + 1) sels []).1).foldl (execStep c fuel rt id path) ([], [], [], false)
       if out.2.2.2 then { val := none, errs := out.2.1, log := out.2.2.1 }
       else { val := some (.obj out.1), errs := out.2.1, log := out.2.2.1 }) := by
  rfl

/-- the value the specification gives the (single-occurrence) field `occ` of object `(rt, id)` -/
def fieldVal (c : Model.ExecStatic.Ctx) (fuel : Nat) (rt : String) (id : Nat) (path : List PathSeg) (occ : FieldOcc) :
    Option GValue :=
  if occ.name = "__typename" then some (.str rt)
  else
    match c.S.field? rt occ.name with
    | none => none
    | some fd =>
      (complete c.S (execSet (sc c) fuel) fd.ty (fieldRVal c id fd occ) occ.sels (path ++ [.key occ.key]) occ.pos).val

def HasField (c : Model.ExecStatic.Ctx) (rt : String) (occ : FieldOcc) : Prop :=
  occ.name = "__typename" ∨ ∃ fd, c.S.field? rt occ.name = some fd

theorem argValue_erase (c : AGV.Spec.Exec.Ctx) (fd : FieldDef) (occ : FieldOcc) (a : String) :
    argValue c fd (eraseSt occ) a = argValue c fd occ a := by
  simp [argValue, eraseSt]

theorem execStep_single (c : Model.ExecStatic.Ctx) (fuel : Nat) (rt : String) (id : Nat) (path : List PathSeg)
    (acc : Acc) (occ : FieldOcc) (h : HasField c rt occ) :
    (execStep (sc c) fuel rt id path acc ((eraseSt occ).key, [eraseSt occ])).1 =
      acc.1 ++ ((fieldVal c fuel rt id path occ).map (fun v => (occ.key, v))).toList ∧
    (execStep (sc c) fuel rt id path acc ((eraseSt occ).key, [eraseSt occ])).2.2.2 =
      (acc.2.2.2 || (fieldVal c fuel rt id path occ).isNone) := by
  by_cases ht : occ.name = "__typename"
  · simp [execStep, fieldVal, eraseSt, ht]
  · rcases h with h | ⟨fd, hfd⟩
    · exact absurd h ht
    · have hrv : specRVal (sc c) id fd (eraseSt occ) = fieldRVal c id fd occ := by
        unfold fieldRVal specRVal
        simp only [argValue_erase]
        rfl
      have hn : (eraseSt occ).name = occ.name := rfl
      cases hv : (complete c.S (execSet (sc c) fuel) fd.ty (fieldRVal c id fd occ) occ.sels
          (path ++ [.key occ.key]) occ.pos).val with
      | none =>
        simp [execStep, fieldVal, hn, ht, hfd, hrv, hv]
        simp [eraseSt, hv]
      | some v =>
        simp [execStep, fieldVal, hn, ht, hfd, hrv, hv]
        simp [eraseSt, hv]

theorem execStep_fold (c : Model.ExecStatic.Ctx) (fuel : Nat) (rt : String) (id : Nat) (path : List PathSeg)
    (occs : List FieldOcc) (h : ∀ occ ∈ occs, HasField c rt occ) :
    ∀ acc : Acc,
      (((occs.map eraseSt).map (fun o => (o.key, [o]))).foldl (execStep (sc c) fuel rt id path) acc).1 =
        acc.1 ++ occs.filterMap (fun o => (fieldVal c fuel rt id path o).map (fun v => (o.key, v))) ∧
      (((occs.map eraseSt).map (fun o => (o.key, [o]))).foldl (execStep (sc c) fuel rt id path) acc).2.2.2 =
        (acc.2.2.2 || occs.any (fun o => (fieldVal c fuel rt id path o).isNone)) := by
  induction occs with
  | nil => intro acc; simp
  | cons o os ih =>
    intro acc
    obtain ⟨s1, s2⟩ := execStep_single c fuel rt id path acc o (h o (by simp))
    obtain ⟨r1, r2⟩ := ih (fun occ hocc => h occ (by simp [hocc]))
      (execStep (sc c) fuel rt id path acc ((eraseSt o).key, [eraseSt o]))
    simp only [List.map_cons, List.foldl_cons]
    refine ⟨?_, ?_⟩
    · rw [r1, s1]
      cases hv : fieldVal c fuel rt id path o <;> simp [hv]
    · rw [r2, s2]
      simp [Bool.or_assoc]

theorem complete_fail_val (S : Schema) (rec : String → Nat → List Sel → List PathSeg → Res) (m : String)
    (ss : List Sel) (path : List PathSeg) (pos : Pos) :
    ∀ t : TypeRef, (complete S rec t (.fail m) ss path pos).val = if t.isNonNull then none else some .null := by
  intro t
  induction t with
  | named n => simp [complete, TypeRef.isNonNull]
  | list t _ => simp [complete, TypeRef.isNonNull]
  | nonNull t ih =>
    obtain ⟨ca, cb⟩ := complete_nonNull_val S rec t (.fail m) ss path pos (by simp)
    simp only [TypeRef.isNonNull, if_true]
    by_cases hn : t.isNonNull = true
    · rw [hn] at ih
      simp only [if_true] at ih
      rw [cb (by simp [ih]), ih]
    · have hn' : t.isNonNull = false := by simpa using hn
      rw [hn'] at ih
      simp only [Bool.false_eq_true, if_false] at ih
      exact ca ih

theorem kvs_fold (R : FieldOcc → Res) (fv : FieldOcc → Option GValue) (occs : List FieldOcc)
    (h : ∀ o ∈ occs, (R o).val = (fv o).map (fun v => GValue.obj [(o.key, v)])) :
    ((occs.map R).filterMap (·.val)).filterMap singleKV = occs.filterMap (fun o => (fv o).map (fun v => (o.key, v))) := by
  induction occs with
  | nil => simp
  | cons o os ih =>
    have ho := h o (by simp)
    have ih' := ih (fun x hx => h x (by simp [hx]))
    cases hv : fv o with
    | none =>
      rw [hv] at ho
      simp only [List.map_cons, List.filterMap_cons, ho, Option.map_none, hv]
      exact ih'
    | some v =>
      rw [hv] at ho
      simp only [List.map_cons, List.filterMap_cons, ho, Option.map_some, hv, singleKV]
      rw [ih']

theorem keys_filterMap_sublist (fv : FieldOcc → Option GValue) (occs : List FieldOcc) :
    ((occs.filterMap (fun o => (fv o).map (fun v => (o.key, v)))).map (·.1)).Sublist (occs.map (·.key)) := by
  induction occs with
  | nil => simp
  | cons o os ih =>
    cases hv : fv o with
    | none => simp only [List.filterMap_cons, hv, Option.map_none, List.map_cons]; exact List.Sublist.cons _ ih
    | some v => simp only [List.filterMap_cons, hv, Option.map_some, List.map_cons]; exact List.Sublist.cons_cons _ ih

theorem all_congr_mem {α} (p q : α → Bool) (l : List α) (h : ∀ x ∈ l, p x = q x) : l.all p = l.all q := by
  induction l with
  | nil => rfl
  | cons x xs ih => simp only [List.all_cons]; rw [h x (by simp), ih (fun y hy => h y (by simp [hy]))]

theorem any_isNone_eq_not_all (fv : FieldOcc → Option GValue) (occs : List FieldOcc) :
    occs.any (fun o => (fv o).isNone) = !occs.all (fun o => (fv o).isSome) := by
  induction occs with
  | nil => simp
  | cons o os ih => cases hv : fv o <;> simp [hv, ih]

theorem collect_inert (c : Model.ExecStatic.Ctx) (rt : String)
    (hfr : ∀ f ∈ c.d.frags, selsInert c.vars f.sels = true) :
    ∀ (fuel : Nat) (st : String) (sels : List Sel), selsInert c.vars sels = true →
      ∀ occ ∈ Model.ExecStatic.collect c rt fuel st sels, selsInert c.vars occ.sels = true := by
  intro fuel
  induction fuel with
  | zero => intro st sels _ occ h; simp [Model.ExecStatic.collect] at h
  | succ fuel ih =>
    intro st sels
    induction sels with
    | nil => intro _ occ h; simp [Model.ExecStatic.collect] at h
    | cons s r ihr =>
      intro hin occ hocc
      simp only [selsInert, Bool.and_eq_true] at hin
      rw [collect_cons, List.mem_append] at hocc
      rcases hocc with hocc | hocc
      · cases s with
        | field al n args ds ss pos =>
          simp only [selInert, Bool.and_eq_true] at hin
          simp [Model.ExecStatic.collect] at hocc
          subst hocc
          exact hin.1.2
        | spread n ds pos =>
          cases hf : c.d.frag? n with
          | none => simp [Model.ExecStatic.collect, hf] at hocc
          | some f =>
            have hfin := hfr f (frag_mem c.d n f hf)
            simp only [Model.ExecStatic.collect, hf, List.map_cons, List.map_nil, List.flatten_cons, List.flatten_nil,
              List.append_nil] at hocc
            split at hocc
            · exact ih _ _ hfin occ hocc
            · split at hocc
              · exact ih _ _ hfin occ hocc
              · simp at hocc
        | inline cond ds ss pos =>
          simp only [selInert, Bool.and_eq_true] at hin
          cases cond with
          | none =>
            simp only [Model.ExecStatic.collect, List.map_cons, List.map_nil, List.flatten_cons, List.flatten_nil,
              List.append_nil] at hocc
            exact ih _ _ hin.1.2 occ hocc
          | some t =>
            simp only [Model.ExecStatic.collect, List.map_cons, List.map_nil, List.flatten_cons, List.flatten_nil,
              List.append_nil] at hocc
            split at hocc
            · exact ih _ _ hin.1.2 occ hocc
            · split at hocc
              · exact ih _ _ hin.1.2 occ hocc
              · simp at hocc
      · exact ihr hin.2 occ hocc

/-- `NoRepeatedKeys` (decidable, relative to the schema, for every possible runtime type): at every
    selection set that execution can reach, the collected response keys are pairwise distinct, no
    fragment name is spread twice, and every collected field exists on the runtime type -/
def noRepeatedKeys (c : Model.ExecStatic.Ctx) : Nat → String → String → List Sel → Bool
  | 0, _, _, _ => true
  | fuel + 1, st, rt, sels =>
    decide ((Model.ExecStatic.collect c rt (fuel + 1) st sels).map (·.key)).Nodup &&
    decide (spreads c.d (fuel + 1) sels).Nodup &&
    (Model.ExecStatic.collect c rt (fuel + 1) st sels).all (fun occ =>
      occ.name = "__typename" ||
      match c.S.field? rt occ.name with
      | none => false
      | some fd => (c.S.possibleTypes fd.ty.base).all (fun ty => noRepeatedKeys c fuel fd.ty.base ty occ.sels))

theorem noRepeatedKeys_succ (c : Model.ExecStatic.Ctx) (fuel : Nat) (st rt : String) (sels : List Sel)
    (h : noRepeatedKeys c (fuel + 1) st rt sels = true) :
    ((Model.ExecStatic.collect c rt (fuel + 1) st sels).map (·.key)).Nodup ∧
    (spreads c.d (fuel + 1) sels).Nodup ∧
    ∀ occ ∈ Model.ExecStatic.collect c rt (fuel + 1) st sels,
      occ.name = "__typename" ∨ ∃ fd, c.S.field? rt occ.name = some fd ∧
        ∀ ty ∈ c.S.possibleTypes fd.ty.base, noRepeatedKeys c fuel fd.ty.base ty occ.sels = true := by
  simp only [noRepeatedKeys, Bool.and_eq_true, decide_eq_true_eq, List.all_eq_true, Bool.or_eq_true] at h
  refine ⟨h.1.1, h.1.2, ?_⟩
  intro occ hocc
  rcases h.2 occ hocc with ht | hf
  · exact Or.inl ht
  · right
    cases hfd : c.S.field? rt occ.name with
    | none => rw [hfd] at hf; simp at hf
    | some fd =>
      rw [hfd] at hf
      exact ⟨fd, rfl, by simpa [List.all_eq_true] using hf⟩

theorem completeField_val_eq (c : Model.ExecStatic.Ctx) (hD : c.D = Defects.none)
    (hb : ∀ b ∈ builtinScalars, c.S.isComposite b = false)
    (recM : String → String → Nat → List Sel → List PathSeg → Res) (hrec : RecOK recM)
    (recS : String → Nat → List Sel → List PathSeg → Res) (fd : FieldDef) (rv : RVal) (occ : FieldOcc)
    (fpath : List PathSeg)
    (hr : ∀ ty id p, (c.S.possibleTypes fd.ty.base).contains ty = true →
      (recM fd.ty.base ty id occ.sels p).val = (recS ty id occ.sels p).val)
    (hf : fd.ty.base = "Float" → noIntLeaf rv = true) :
    (completeField c recM fd rv occ fpath).val = (complete c.S recS fd.ty rv occ.sels fpath occ.pos).val := by
  have hD' : c.D.nanNullInNonNull = false := by rw [hD]; rfl
  have hres := resolveValue_val_eq c hD' hb recM hrec recS occ.sels fd.ty hr rv fpath occ.pos hf
  cases rv with
  | fail m =>
    rw [complete_fail_val]
    have h1 : c.D.resolverErrPropagates = false := by rw [hD]; rfl
    simp only [completeField, h1, Bool.or_false]
    split <;> rfl
  | null => simpa [completeField] using hres
  | leaf v => simpa [completeField] using hres
  | obj ty id => simpa [completeField] using hres
  | list xs => simpa [completeField] using hres
  | arg a => simpa [completeField] using hres

theorem runField_val (c : Model.ExecStatic.Ctx) (hD : c.D = Defects.none)
    (hb : ∀ b ∈ builtinScalars, c.S.isComposite b = false) (fuel : Nat) (rt : String) (id : Nat)
    (path : List PathSeg) (occ : FieldOcc)
    (hr : ∀ fd, occ.name ≠ "__typename" → c.S.field? rt occ.name = some fd →
      ∀ ty id p, (c.S.possibleTypes fd.ty.base).contains ty = true →
      (resolveContainer c fuel fd.ty.base ty id occ.sels p).val = (execSet (sc c) fuel ty id occ.sels p).val)
    (hleaf : ∀ fd, c.S.field? rt occ.name = some fd → fd.ty.base = "Float" → noIntLeaf (fieldRVal c id fd occ) = true)
    (h : HasField c rt occ) :
    (runField c (resolveContainer c fuel) rt id path occ).val =
      (fieldVal c fuel rt id path occ).map (fun v => GValue.obj [(occ.key, v)]) := by
  have hD' : c.D.nanNullInNonNull = false := by rw [hD]; rfl
  by_cases ht : occ.name = "__typename"
  · simp [runField, fieldVal, ht]
  · rcases h with h | ⟨fd, hfd⟩
    · exact absurd h ht
    · have e := completeField_val_eq c hD hb (resolveContainer c fuel) (recOK_resolveContainer c hD' fuel)
        (execSet (sc c) fuel) fd (fieldRVal c id fd occ) occ (path ++ [PathSeg.key occ.key]) (hr fd ht hfd) (hleaf fd hfd)
      simp [runField, fieldVal, ht, hfd, e]

/-- hypotheses of the data theorem that concern schema, document and world as a whole -/
structure DataHyps (c : Model.ExecStatic.Ctx) : Prop where
  noDefect : c.D = Defects.none
  schema : SchemaOK c.S
  builtins : ∀ b ∈ builtinScalars, c.S.isComposite b = false
  frags : ∀ f ∈ c.d.frags, selsInert c.vars f.sels = true
  floats : ∀ rt id fd occ, c.S.field? rt occ.name = some fd → fd.ty.base = "Float" →
    noIntLeaf (fieldRVal c id fd occ) = true

theorem container_val_eq (c : Model.ExecStatic.Ctx) (H : DataHyps c) :
    ∀ (fuel : Nat) (st rt : String) (id : Nat) (sels : List Sel) (path : List PathSeg),
      IsObj c.S rt → doesApply c.S rt st = true → selsInert c.vars sels = true →
      noRepeatedKeys c fuel st rt sels = true →
      (resolveContainer c fuel st rt id sels path).val = (execSet (sc c) fuel rt id sels path).val := by
  intro fuel
  induction fuel with
  | zero => intro st rt id sels path _ _ _ _; simp [resolveContainer, execSet]
  | succ fuel ih =>
    intro st rt id sels path hrt hst hin hgood
    obtain ⟨hkeys, hspr, hoccs⟩ := noRepeatedKeys_succ c fuel st rt sels hgood
    have hcol := (collect_agree c H.noDefect H.schema rt hrt H.frags (fuel + 1) st sels [] hst hin hspr
      (by intro n _; simp)).1
    have hkeys' : ((((Model.ExecStatic.collect c rt (fuel + 1) st sels).map eraseSt)).map (·.key)).Nodup := by
      have : ((Model.ExecStatic.collect c rt (fuel + 1) st sels).map eraseSt).map (·.key) =
          (Model.ExecStatic.collect c rt (fuel + 1) st sels).map (·.key) := by
        rw [List.map_map]; rfl
      rw [this]; exact hkeys
    have hHF : ∀ occ ∈ Model.ExecStatic.collect c rt (fuel + 1) st sels, HasField c rt occ := by
      intro occ hocc
      rcases hoccs occ hocc with h | ⟨fd, hfd, _⟩
      · exact Or.inl h
      · exact Or.inr ⟨fd, hfd⟩
    have hRF : ∀ occ ∈ Model.ExecStatic.collect c rt (fuel + 1) st sels,
        (runField c (resolveContainer c fuel) rt id path occ).val =
          (fieldVal c fuel rt id path occ).map (fun v => GValue.obj [(occ.key, v)]) := by
      intro occ hocc
      apply runField_val c H.noDefect H.builtins fuel rt id path occ ?_ (fun fd hfd => H.floats rt id fd occ hfd) (hHF occ hocc)
      intro fd hnt hfd ty id' p hty
      rcases hoccs occ hocc with h | ⟨fd', hfd', hsub⟩
      · exact absurd h hnt
      · rw [hfd] at hfd'
        cases hfd'
        have hty' : ty ∈ c.S.possibleTypes fd.ty.base := by simpa using hty
        obtain ⟨hobj, happ⟩ := H.schema.possible _ _ hty'
        exact ih fd.ty.base ty id' occ.sels p hobj happ
          (collect_inert c rt H.frags (fuel + 1) st sels hin occ hocc) (hsub ty hty')
    rw [execSet_succ]
    simp only [resolveContainer]
    rw [hcol, group_nodup _ hkeys']
    obtain ⟨f1, f2⟩ := execStep_fold c fuel rt id path _ hHF ([], [], [], false)
    have hall : (joinAll ((Model.ExecStatic.collect c rt (fuel + 1) st sels).map
          (fun occ => fun (_ : Unit) => runField c (resolveContainer c fuel) rt id path occ))).all (·.val.isSome) =
        (Model.ExecStatic.collect c rt (fuel + 1) st sels).all (fun o => (fieldVal c fuel rt id path o).isSome) := by
      rw [joinAll_all, List.all_map]
      apply all_congr_mem
      intro o ho
      simp [hRF o ho]
    rw [hall, f2, any_isNone_eq_not_all, f1]
    cases hA : (Model.ExecStatic.collect c rt (fuel + 1) st sels).all (fun o => (fieldVal c fuel rt id path o).isSome) with
    | false => simp
    | true =>
      have hj := joinAll_eq_of_all ((Model.ExecStatic.collect c rt (fuel + 1) st sels).map
          (fun occ => fun (_ : Unit) => runField c (resolveContainer c fuel) rt id path occ)) (by
        rw [List.all_map]
        rw [← hA]
        apply all_congr_mem
        intro o ho
        simp [hRF o ho])
      rw [hj, List.map_map]
      have hk := kvs_fold (fun occ => runField c (resolveContainer c fuel) rt id path occ) (fieldVal c fuel rt id path)
        (Model.ExecStatic.collect c rt (fuel + 1) st sels) hRF
      have hcomp : ((fun f : Unit → Res => f ()) ∘ fun occ => fun (_ : Unit) => runField c (resolveContainer c fuel) rt id path occ) =
          (fun occ => runField c (resolveContainer c fuel) rt id path occ) := rfl
      rw [hcomp, hk, createValueObject_nodup _ _ _ (List.Nodup.sublist (keys_filterMap_sublist _ _) hkeys)]
      simp



theorem selsInert_mem (vars : List (String × GValue)) : ∀ ss, selsInert vars ss = true → ∀ s ∈ ss, selInert vars s = true := by
  intro ss
  induction ss with
  | nil => intro _ s hs; simp at hs
  | cons x xs ih =>
    intro h s hs
    simp only [selsInert, Bool.and_eq_true] at h
    simp only [List.mem_cons] at hs
    rcases hs with rfl | hs
    · exact h.1
    · exact ih h.2 s hs

/-- `remove_skipped_selection` leaves a selection set alone when no directive acts -/
theorem prune_inert (vars : List (String × GValue)) :
    ∀ (fuel : Nat) (ss : List Sel), selsInert vars ss = true → prune vars fuel ss = ss := by
  intro fuel
  induction fuel with
  | zero => intro ss _; rfl
  | succ fuel ih =>
    intro ss h
    have hm := selsInert_mem vars ss h
    simp only [prune]
    have hfilt : ss.filter (fun s => !isSkipped vars (selDirs s)) = ss := by
      rw [List.filter_eq_self]
      intro s hs
      have := hm s hs
      cases s <;> simp_all [selInert, dirsInert, selDirs]
    rw [hfilt]
    conv => rhs; rw [← List.map_id ss]
    apply List.map_congr_left
    intro s hs
    have := hm s hs
    cases s with
    | field al n as ds sub p =>
      simp only [selInert, Bool.and_eq_true] at this
      simp [ih sub this.2]
    | spread n ds p => rfl
    | inline cnd ds sub p =>
      simp only [selInert, Bool.and_eq_true] at this
      simp [ih sub this.2]

def rootOf (S : Schema) (op : OpDef) : String :=
  match op.ty with
  | .query => S.query
  | .mutation => S.mutation.getD ""
  | .subscription => S.subscription.getD ""

/-- the model context in which `run` executes operation `op` when no directive acts -/
def runCtx (S : Schema) (d : Doc) (op : OpDef) (raw : List (String × GValue)) (w : World) : Model.ExecStatic.Ctx :=
  { D := Defects.none, S := S, d := d, vars := AGV.Spec.Exec.coerceVars op.vars raw, w := w }

/-- hypotheses of `run_val_eq`, per selected operation -/
structure RunHyps (S : Schema) (d : Doc) (op : OpDef) (raw : List (String × GValue)) (w : World) (fuel : Nat) : Prop where
  root : IsObj S (rootOf S op)
  data : DataHyps (runCtx S d op raw w)
  opInert : selsInert (AGV.Spec.Exec.coerceVars op.vars raw) op.sels = true
  keys : noRepeatedKeys (runCtx S d op raw w) fuel (rootOf S op) (rootOf S op) op.sels = true

theorem run_val_eq (S : Schema) (d : Doc) (opName : Option String) (raw : List (String × GValue)) (w : World) (fuel : Nat)
    (H : ∀ op, AGV.Spec.Exec.selectOp d opName = some op → RunHyps S d op raw w fuel) :
    (Model.ExecStatic.run Defects.none S d opName raw w fuel).val = (AGV.Spec.Exec.run S d opName raw w fuel).val := by
  unfold Model.ExecStatic.run AGV.Spec.Exec.run
  cases hop : AGV.Spec.Exec.selectOp d opName with
  | none => rfl
  | some op =>
    have h := H op hop
    have hsv : skipVars Defects.none op.vars raw = AGV.Spec.Exec.coerceVars op.vars raw := rfl
    have hfr := h.data.frags
    have hd : ({ ops := d.ops, frags := d.frags.map (fun f =>
        { f with sels := prune (AGV.Spec.Exec.coerceVars op.vars raw) fuel f.sels }) } : Doc) = d := by
      have : d.frags.map (fun f => ({ f with sels := prune (AGV.Spec.Exec.coerceVars op.vars raw) fuel f.sels } : FragDef)) = d.frags := by
        conv => rhs; rw [← List.map_id d.frags]
        apply List.map_congr_left
        intro f hf
        have := prune_inert (AGV.Spec.Exec.coerceVars op.vars raw) fuel f.sels (hfr f hf)
        simp [this]
      rw [this]
    simp only [hsv, hd, prune_inert _ fuel op.sels h.opInert]
    exact container_val_eq (runCtx S d op raw w) h.data fuel (rootOf S op) (rootOf S op) 0 op.sels [] h.root
      (doesApply_self S _ h.root) h.opInert h.keys


-- ------------------------------------------------------------------ decidable sufficient conditions

/-- type names are unique, objects implement interfaces only, unions list object types only -/
def schemaWF (S : Schema) : Bool :=
  decide (S.types.map (·.name)).Nodup &&
  S.types.all (fun t =>
    (decide (t.kind ≠ .object) || t.implements.all (fun i => decide (S.kindOf i = some .interface))) &&
    (decide (t.kind ≠ .union) || t.members.all (fun m => decide (S.kindOf m = some .object))))

theorem find_of_nodup (l : List TypeDef) (h : (l.map (·.name)).Nodup) (o : TypeDef) (ho : o ∈ l) :
    l.find? (·.name = o.name) = some o := by
  induction l with
  | nil => simp at ho
  | cons x xs ih =>
    simp only [List.map_cons, List.nodup_cons] at h
    simp only [List.mem_cons] at ho
    rcases ho with rfl | ho
    · simp
    · have hne : ¬ x.name = o.name := by
        intro e
        exact h.1 (by rw [e]; exact List.mem_map_of_mem ho)
      simp [hne, ih h.2 ho]

theorem kind_beq (k k' : Kind) : (k == k') = decide (k = k') := by
  cases k <;> cases k' <;> rfl

theorem schemaOK_of_wf (S : Schema) (h : schemaWF S = true) : SchemaOK S := by
  simp only [schemaWF, Bool.and_eq_true, decide_eq_true_eq, List.all_eq_true, Bool.or_eq_true] at h
  obtain ⟨hnd, hall⟩ := h
  constructor
  · intro rt ⟨o, ho, hk⟩ cond
    have hom : o ∈ S.types := List.mem_of_find?_eq_some ho
    have himp : ∀ i ∈ o.implements, S.kindOf i = some .interface := by
      intro i hi
      rcases (hall o hom).1 with h1 | h1
      · exact absurd hk h1
      · exact h1 i hi
    unfold appliesConcrete doesApply
    simp only [ho, Defects.none, Bool.not_false, Bool.true_and]
    cases hc : S.find? cond with
    | none =>
      have h1 : ¬ cond = rt := by intro e; rw [e, ho] at hc; simp at hc
      have h2 : ¬ cond ∈ o.implements := by
        intro hcon
        have := himp cond hcon
        simp [Schema.kindOf, hc] at this
      simp [h1, h2]
    | some t =>
      have hkc : S.kindOf cond = some t.kind := by simp [Schema.kindOf, hc]
      have h2 : t.kind ≠ .interface → ¬ cond ∈ o.implements := by
        intro hne hcon
        have := himp cond hcon
        rw [hkc] at this
        exact hne (by simpa using this)
      have h1 : t.kind ≠ .object → ¬ cond = rt := by
        intro hne e
        rw [e, ho] at hc
        cases hc
        exact hne hk
      cases hkt : t.kind <;> simp_all [kind_beq]
  · intro n ty hty
    unfold Schema.possibleTypes at hty
    cases hn : S.find? n with
    | none => simp [hn] at hty
    | some t =>
      simp only [hn] at hty
      cases hkt : t.kind with
      | object =>
        simp only [hkt, List.mem_singleton] at hty
        subst hty
        exact ⟨⟨t, hn, hkt⟩, doesApply_self S _ ⟨t, hn, hkt⟩⟩
      | interface =>
        simp only [hkt, List.mem_map, List.mem_filter, Bool.and_eq_true] at hty
        obtain ⟨o, ⟨hom, hko, hcon⟩, rfl⟩ := hty
        have hko' : o.kind = .object := by simpa [kind_beq] using hko
        have hfo := find_of_nodup S.types hnd o hom
        refine ⟨⟨o, hfo, hko'⟩, ?_⟩
        unfold doesApply
        simp only [hn, hkt]
        unfold Schema.find?
        simp only [hfo, hcon]
      | union =>
        simp only [hkt] at hty
        have htm : t ∈ S.types := List.mem_of_find?_eq_some hn
        have hmem : S.kindOf ty = some .object := by
          rcases (hall t htm).2 with h1 | h1
          · exact absurd hkt h1
          · exact h1 ty hty
        unfold Schema.kindOf at hmem
        cases hfo : S.find? ty with
        | none => simp [hfo] at hmem
        | some o =>
          simp only [hfo, Option.map_some, Option.some.injEq] at hmem
          refine ⟨⟨o, hfo, hmem⟩, ?_⟩
          unfold doesApply
          simp [hn, hkt, hty]
      | scalar => simp [hkt] at hty
      | enum => simp [hkt] at hty
      | input => simp [hkt] at hty

def noFloatField (S : Schema) (f : String) : Bool :=
  S.types.all (fun t => t.fields.all (fun fd => decide (fd.name ≠ f) || decide (fd.ty.base ≠ "Float")))

def isArg : RVal → Bool
  | .arg _ => true
  | _ => false

/-- every world entry is free of `Int` leaves and argument echoes, or its field name is nowhere `Float`-typed -/
def worldFloatOK (S : Schema) (w : World) : Bool :=
  w.entries.all (fun e => (noIntLeaf e.2 && !isArg e.2) || noFloatField S e.1.2)

theorem floats_of_world (c : Model.ExecStatic.Ctx) (h : worldFloatOK c.S c.w = true) :
    ∀ rt id fd occ, c.S.field? rt occ.name = some fd → fd.ty.base = "Float" →
      noIntLeaf (fieldRVal c id fd occ) = true := by
  intro rt id fd occ hfd hfl
  unfold Schema.field? at hfd
  cases hrt : c.S.find? rt with
  | none => simp [hrt] at hfd
  | some t =>
    simp only [hrt] at hfd
    have htm : t ∈ c.S.types := List.mem_of_find?_eq_some hrt
    have hfm : fd ∈ t.fields := List.mem_of_find?_eq_some hfd
    have hfn : fd.name = occ.name := by simpa using List.find?_some hfd
    unfold fieldRVal World.get
    cases hfind : c.w.entries.find? (fun e => e.1.1 = id && e.1.2 = occ.name) with
    | none => simp [noIntLeaf]
    | some e =>
      have hem : e ∈ c.w.entries := List.mem_of_find?_eq_some hfind
      have hen : e.1.2 = occ.name := by
        have := List.find?_some hfind
        simp only [Bool.and_eq_true, decide_eq_true_eq] at this
        exact this.2
      simp only [worldFloatOK, List.all_eq_true, Bool.or_eq_true, Bool.and_eq_true] at h
      rcases h e hem with ⟨h1, h2⟩ | h3
      · simp only
        cases he : e.2 with
        | arg a => simp [he, isArg] at h2
        | null => simp [noIntLeaf]
        | leaf v => rw [he] at h1; exact h1
        | obj ty i => simp [noIntLeaf]
        | list xs => rw [he] at h1; exact h1
        | fail m => simp [noIntLeaf]
      · simp only [noFloatField, List.all_eq_true, Bool.or_eq_true, decide_eq_true_eq] at h3
        rcases h3 t htm fd hfm with h4 | h4
        · exact absurd (hfn.trans hen.symm) h4
        · exact absurd hfl h4



-- ------------------------------------------------------------------ errors: model ⊆ specification

theorem nnWrap_errs (r : Res) : (nnWrap r).errs = r.errs := by
  unfold nnWrap
  split
  · split <;> rfl
  · rfl

theorem itemWrap_none (D : Defects) (hD : D = Defects.none) (p : List PathSeg) (r : Res) : itemWrap D p r = r := by
  subst hD
  simp [itemWrap, Defects.none]

theorem complete_nonNull_errs (S : Schema) (rec : String → Nat → List Sel → List PathSeg → Res)
    (t : TypeRef) (rv : RVal) (ss : List Sel) (path : List PathSeg) (pos : Pos) (h : rv ≠ .null) :
    ((complete S rec t rv ss path pos).val = some .null → (complete S rec t rv ss path pos).errs ≠ [] →
      (complete S rec (.nonNull t) rv ss path pos).errs = (complete S rec t rv ss path pos).errs) ∧
    ((complete S rec t rv ss path pos).val ≠ some .null →
      (complete S rec (.nonNull t) rv ss path pos).errs = (complete S rec t rv ss path pos).errs) := by
  constructor
  · intro hv he
    cases rv <;> simp_all [complete] <;> split <;> simp_all
  · intro hv
    cases rv <;> simp_all [complete] <;> split <;> simp_all

theorem mapIdx_mem2 {α β γ} (g : Nat → α → β) (g' : Nat → α → γ) (xs : List α) :
    ∀ i, ∀ y ∈ mapIdx g xs i, ∃ j x, x ∈ xs ∧ y = g j x ∧ g' j x ∈ mapIdx g' xs i := by
  induction xs with
  | nil => intro i y h; simp [mapIdx] at h
  | cons x xs ih =>
    intro i y h
    simp only [mapIdx, List.mem_cons] at h
    rcases h with h | h
    · exact ⟨i, x, by simp, h, by simp [mapIdx]⟩
    · obtain ⟨j, x', hx', e, hm⟩ := ih (i + 1) y h
      exact ⟨j, x', by simp [hx'], e, by simp [mapIdx, hm]⟩

theorem resolveValue_errs_sub (c : Model.ExecStatic.Ctx) (hD : c.D = Defects.none)
    (hb : ∀ b ∈ builtinScalars, c.S.isComposite b = false)
    (recM : String → String → Nat → List Sel → List PathSeg → Res) (hrec : RecOK recM)
    (recS : String → Nat → List Sel → List PathSeg → Res) (ss : List Sel) :
    ∀ (t : TypeRef),
      (∀ ty id p, (c.S.possibleTypes t.base).contains ty = true →
        (recM t.base ty id ss p).val = (recS ty id ss p).val ∧
        ∀ e ∈ (recM t.base ty id ss p).errs, e ∈ (recS ty id ss p).errs) →
      ∀ (rv : RVal) (path : List PathSeg) (pos : Pos), (t.base = "Float" → noIntLeaf rv = true) →
      ∀ e ∈ (resolveValue c recM t rv ss path pos).errs, e ∈ (complete c.S recS t rv ss path pos).errs := by
  have hD' : c.D.nanNullInNonNull = false := by rw [hD]; rfl
  intro t
  induction t with
  | named n =>
    intro hr rv path pos hf
    cases rv with
    | null => simp [resolveValue, complete]
    | obj ty id =>
      simp only [resolveValue, complete]
      by_cases hp : (c.S.possibleTypes n).contains ty = true
      · have e := hr ty id path hp
        simp only [TypeRef.base] at e
        rw [if_pos hp, if_pos hp]
        intro x hx
        have hx' : x ∈ (recM n ty id ss path).errs := by
          revert hx
          cases (recM n ty id ss path).val <;> exact fun h => h
        have := e.2 x hx'
        cases (recS ty id ss path).val <;> exact this
      · rw [if_neg hp, if_neg hp]; intro x hx; exact hx
    | leaf v =>
      simp only [resolveValue, complete]
      have hf' : n = "Float" → ∀ i, v ≠ .int i := by
        intro hn i hv
        subst hv
        have := hf hn
        simp [noIntLeaf] at this
      have key := fun v' => toValue_spec c.D hD' c.S n v v' hb hf'
      cases hc : c.S.isComposite n with
      | true =>
        simp only [if_true]
        cases htv : toValue c.D c.S n v with
        | none => intro x hx; exact hx
        | some o =>
          cases o with
          | none => intro x hx; exact hx
          | some v' => have := (key v').1 htv; simp [hc] at this
      | false =>
        simp only [Bool.false_eq_true, if_false]
        cases hs : serializeLeaf c.S n v with
        | some v' => rw [(key v').2 ⟨hc, hs⟩]; intro x hx; exact hx
        | none =>
          cases htv : toValue c.D c.S n v with
          | none => intro x hx; exact hx
          | some o =>
            cases o with
            | none => intro x hx; exact hx
            | some v' => have := (key v').1 htv; simp [hs] at this
    | list xs => simp [resolveValue, complete]
    | fail m => simp [resolveValue, complete]
    | arg a => simp [resolveValue, complete]
  | list t ih =>
    intro hr rv path pos hf
    cases rv with
    | null => simp [resolveValue, complete]
    | list xs =>
      have hsub : ∀ x, x ∈ ((joinAll (mapIdx (fun i x => fun (_ : Unit) =>
            itemWrap c.D (path ++ [PathSeg.idx i]) (resolveValue c recM t x ss (path ++ [PathSeg.idx i]) pos)) xs 0)).map
            (·.errs)).flatten →
          x ∈ ((mapIdx (fun i x => complete c.S recS t x ss (path ++ [PathSeg.idx i]) pos) xs 0).map (·.errs)).flatten := by
        intro x hx
        simp only [List.mem_flatten, List.mem_map] at hx ⊢
        obtain ⟨l, ⟨r, hr', rfl⟩, hxl⟩ := hx
        obtain ⟨f, hf', rfl⟩ := joinAll_mem _ r hr'
        obtain ⟨j, y, hy, rfl, hm⟩ := mapIdx_mem2 _
          (fun i x => complete c.S recS t x ss (path ++ [PathSeg.idx i]) pos) xs 0 f hf'
        refine ⟨_, ⟨_, hm, rfl⟩, ?_⟩
        rw [itemWrap_none c.D hD] at hxl
        apply ih hr y _ pos _ x hxl
        intro hfl
        exact noIntLeafs_mem xs (by simpa [noIntLeaf] using hf hfl) y hy
      simp only [resolveValue, complete]
      intro x hx
      have hx' := hsub x (by split at hx <;> exact hx)
      split <;> exact hx'
    | obj ty id => simp [resolveValue, complete]
    | leaf v => simp [resolveValue, complete]
    | fail m => simp [resolveValue, complete]
    | arg a => simp [resolveValue, complete]
  | nonNull t ih =>
    intro hr rv path pos hf
    by_cases hrv : rv = .null
    · subst hrv; simp [resolveValue, complete]
    · rw [resolveValue_nonNull c recM t rv ss path pos hrv, nnWrap_errs]
      have hv := resolveValue_val_eq c hD' hb recM hrec recS ss t (fun ty id p h => (hr ty id p h).1) rv path pos hf
      have h2 := (resolveValue_props c hD' recM hrec t rv ss path pos).2
      have hsub := ih hr rv path pos hf
      obtain ⟨ca, cb⟩ := complete_nonNull_errs c.S recS t rv ss path pos hrv
      intro x hx
      have hx' := hsub x hx
      by_cases hnull : (complete c.S recS t rv ss path pos).val = some .null
      · rw [ca hnull (by intro he; rw [he] at hx'; simp at hx')]; exact hx'
      · rw [cb hnull]; exact hx'

theorem complete_fail_errs (S : Schema) (rec : String → Nat → List Sel → List PathSeg → Res) (m : String)
    (ss : List Sel) (path : List PathSeg) (pos : Pos) :
    ∀ t : TypeRef, (complete S rec t (.fail m) ss path pos).errs = [⟨path, pos⟩] := by
  intro t
  induction t with
  | named n => simp [complete]
  | list t _ => simp [complete]
  | nonNull t ih =>
    obtain ⟨ca, cb⟩ := complete_nonNull_errs S rec t (.fail m) ss path pos (by simp)
    by_cases hnull : (complete S rec t (.fail m) ss path pos).val = some .null
    · rw [ca hnull (by rw [ih]; simp), ih]
    · rw [cb hnull, ih]

theorem completeField_errs_sub (c : Model.ExecStatic.Ctx) (hD : c.D = Defects.none)
    (hb : ∀ b ∈ builtinScalars, c.S.isComposite b = false)
    (recM : String → String → Nat → List Sel → List PathSeg → Res) (hrec : RecOK recM)
    (recS : String → Nat → List Sel → List PathSeg → Res) (fd : FieldDef) (rv : RVal) (occ : FieldOcc)
    (fpath : List PathSeg)
    (hr : ∀ ty id p, (c.S.possibleTypes fd.ty.base).contains ty = true →
      (recM fd.ty.base ty id occ.sels p).val = (recS ty id occ.sels p).val ∧
      ∀ e ∈ (recM fd.ty.base ty id occ.sels p).errs, e ∈ (recS ty id occ.sels p).errs)
    (hf : fd.ty.base = "Float" → noIntLeaf rv = true) :
    ∀ e ∈ (completeField c recM fd rv occ fpath).errs, e ∈ (complete c.S recS fd.ty rv occ.sels fpath occ.pos).errs := by
  have hres := resolveValue_errs_sub c hD hb recM hrec recS occ.sels fd.ty hr rv fpath occ.pos hf
  cases rv with
  | fail m =>
    rw [complete_fail_errs]
    have h1 : c.D.ifaceErrNoPath = false := by rw [hD]; rfl
    simp only [completeField, h1, Bool.false_and]
    intro e he
    split at he <;> simpa using he
  | null => simpa [completeField] using hres
  | leaf v => simpa [completeField] using hres
  | obj ty id => simpa [completeField] using hres
  | list xs => simpa [completeField] using hres
  | arg a => simpa [completeField] using hres

/-- the errors the specification records for the (single-occurrence) field `occ` of object `(rt, id)` -/
def fieldErrs (c : Model.ExecStatic.Ctx) (fuel : Nat) (rt : String) (id : Nat) (path : List PathSeg) (occ : FieldOcc) :
    List GErr :=
  if occ.name = "__typename" then []
  else
    match c.S.field? rt occ.name with
    | none => []
    | some fd =>
      (complete c.S (execSet (sc c) fuel) fd.ty (fieldRVal c id fd occ) occ.sels (path ++ [.key occ.key]) occ.pos).errs

theorem execStep_single_errs (c : Model.ExecStatic.Ctx) (fuel : Nat) (rt : String) (id : Nat) (path : List PathSeg)
    (acc : Acc) (occ : FieldOcc) :
    (execStep (sc c) fuel rt id path acc ((eraseSt occ).key, [eraseSt occ])).2.1 =
      acc.2.1 ++ fieldErrs c fuel rt id path occ := by
  by_cases ht : occ.name = "__typename"
  · simp [execStep, fieldErrs, eraseSt, ht]
  · have hn : (eraseSt occ).name = occ.name := rfl
    cases hfd : c.S.field? rt occ.name with
    | none => simp [execStep, fieldErrs, hn, ht, hfd]
    | some fd =>
      have hrv : specRVal (sc c) id fd (eraseSt occ) = fieldRVal c id fd occ := by
        unfold fieldRVal specRVal
        simp only [argValue_erase]
        rfl
      cases hv : (complete c.S (execSet (sc c) fuel) fd.ty (fieldRVal c id fd occ) occ.sels
          (path ++ [.key occ.key]) occ.pos).val with
      | none =>
        simp [execStep, fieldErrs, hn, ht, hfd, hrv]
        simp [eraseSt, hv]
      | some v =>
        simp [execStep, fieldErrs, hn, ht, hfd, hrv]
        simp [eraseSt, hv]

theorem execStep_fold_errs (c : Model.ExecStatic.Ctx) (fuel : Nat) (rt : String) (id : Nat) (path : List PathSeg)
    (occs : List FieldOcc) :
    ∀ acc : Acc,
      (((occs.map eraseSt).map (fun o => (o.key, [o]))).foldl (execStep (sc c) fuel rt id path) acc).2.1 =
        acc.2.1 ++ (occs.map (fieldErrs c fuel rt id path)).flatten := by
  induction occs with
  | nil => intro acc; simp
  | cons o os ih =>
    intro acc
    simp only [List.map_cons, List.foldl_cons, List.flatten_cons]
    rw [ih, execStep_single_errs, List.append_assoc]

theorem runField_errs_sub (c : Model.ExecStatic.Ctx) (hD : c.D = Defects.none)
    (hb : ∀ b ∈ builtinScalars, c.S.isComposite b = false) (fuel : Nat) (rt : String) (id : Nat)
    (path : List PathSeg) (occ : FieldOcc)
    (hr : ∀ fd, occ.name ≠ "__typename" → c.S.field? rt occ.name = some fd →
      ∀ ty id p, (c.S.possibleTypes fd.ty.base).contains ty = true →
      (resolveContainer c fuel fd.ty.base ty id occ.sels p).val = (execSet (sc c) fuel ty id occ.sels p).val ∧
      ∀ e ∈ (resolveContainer c fuel fd.ty.base ty id occ.sels p).errs, e ∈ (execSet (sc c) fuel ty id occ.sels p).errs)
    (hleaf : ∀ fd, c.S.field? rt occ.name = some fd → fd.ty.base = "Float" → noIntLeaf (fieldRVal c id fd occ) = true) :
    ∀ e ∈ (runField c (resolveContainer c fuel) rt id path occ).errs, e ∈ fieldErrs c fuel rt id path occ := by
  have hD' : c.D.nanNullInNonNull = false := by rw [hD]; rfl
  by_cases ht : occ.name = "__typename"
  · simp [runField, ht]
  · cases hfd : c.S.field? rt occ.name with
    | none => simp [runField, ht, hfd]
    | some fd =>
      have e := completeField_errs_sub c hD hb (resolveContainer c fuel) (recOK_resolveContainer c hD' fuel)
        (execSet (sc c) fuel) fd (fieldRVal c id fd occ) occ (path ++ [PathSeg.key occ.key]) (hr fd ht hfd) (hleaf fd hfd)
      simpa [runField, fieldErrs, ht, hfd] using e

/-- the traversal of `noRepeatedKeys` never reaches fuel 0 (the model reports running out of fuel as
    an error, the specification executor does not) -/
def deepEnough (c : Model.ExecStatic.Ctx) : Nat → String → String → List Sel → Bool
  | 0, _, _, _ => false
  | fuel + 1, st, rt, sels =>
    (Model.ExecStatic.collect c rt (fuel + 1) st sels).all (fun occ =>
      match c.S.field? rt occ.name with
      | none => true
      | some fd => (c.S.possibleTypes fd.ty.base).all (fun ty => deepEnough c fuel fd.ty.base ty occ.sels))

theorem deepEnough_succ (c : Model.ExecStatic.Ctx) (fuel : Nat) (st rt : String) (sels : List Sel)
    (h : deepEnough c (fuel + 1) st rt sels = true) :
    ∀ occ ∈ Model.ExecStatic.collect c rt (fuel + 1) st sels, ∀ fd, c.S.field? rt occ.name = some fd →
      ∀ ty ∈ c.S.possibleTypes fd.ty.base, deepEnough c fuel fd.ty.base ty occ.sels = true := by
  simp only [deepEnough, List.all_eq_true] at h
  intro occ hocc fd hfd ty hty
  have := h occ hocc
  rw [hfd] at this
  simp only [List.all_eq_true] at this
  exact this ty hty

theorem container_errs_sub (c : Model.ExecStatic.Ctx) (H : DataHyps c) :
    ∀ (fuel : Nat) (st rt : String) (id : Nat) (sels : List Sel) (path : List PathSeg),
      IsObj c.S rt → doesApply c.S rt st = true → selsInert c.vars sels = true →
      noRepeatedKeys c fuel st rt sels = true → deepEnough c fuel st rt sels = true →
      ∀ e ∈ (resolveContainer c fuel st rt id sels path).errs, e ∈ (execSet (sc c) fuel rt id sels path).errs := by
  intro fuel
  induction fuel with
  | zero => intro st rt id sels path _ _ _ _ hde; simp [deepEnough] at hde
  | succ fuel ih =>
    intro st rt id sels path hrt hst hin hgood hdeep
    obtain ⟨hkeys, hspr, hoccs⟩ := noRepeatedKeys_succ c fuel st rt sels hgood
    have hde := deepEnough_succ c fuel st rt sels hdeep
    have hcol := (collect_agree c H.noDefect H.schema rt hrt H.frags (fuel + 1) st sels [] hst hin hspr
      (by intro n _; simp)).1
    have hkeys' : ((((Model.ExecStatic.collect c rt (fuel + 1) st sels).map eraseSt)).map (·.key)).Nodup := by
      have : ((Model.ExecStatic.collect c rt (fuel + 1) st sels).map eraseSt).map (·.key) =
          (Model.ExecStatic.collect c rt (fuel + 1) st sels).map (·.key) := by
        rw [List.map_map]; rfl
      rw [this]; exact hkeys
    have hRF : ∀ occ ∈ Model.ExecStatic.collect c rt (fuel + 1) st sels,
        ∀ e ∈ (runField c (resolveContainer c fuel) rt id path occ).errs, e ∈ fieldErrs c fuel rt id path occ := by
      intro occ hocc
      apply runField_errs_sub c H.noDefect H.builtins fuel rt id path occ ?_ (fun fd hfd => H.floats rt id fd occ hfd)
      intro fd hnt hfd ty id' p hty
      rcases hoccs occ hocc with h | ⟨fd', hfd', hsub⟩
      · exact absurd h hnt
      · rw [hfd] at hfd'
        cases hfd'
        have hty' : ty ∈ c.S.possibleTypes fd.ty.base := by simpa using hty
        obtain ⟨hobj, happ⟩ := H.schema.possible _ _ hty'
        have hi := collect_inert c rt H.frags (fuel + 1) st sels hin occ hocc
        exact ⟨container_val_eq c H fuel fd.ty.base ty id' occ.sels p hobj happ hi (hsub ty hty'),
          ih fd.ty.base ty id' occ.sels p hobj happ hi (hsub ty hty') (hde occ hocc fd hfd ty hty')⟩
    rw [execSet_succ]
    simp only [resolveContainer]
    rw [hcol, group_nodup _ hkeys']
    have f3 := execStep_fold_errs c fuel rt id path (Model.ExecStatic.collect c rt (fuel + 1) st sels) ([], [], [], false)
    intro e he
    have he' : e ∈ ((joinAll ((Model.ExecStatic.collect c rt (fuel + 1) st sels).map
        (fun occ => fun (_ : Unit) => runField c (resolveContainer c fuel) rt id path occ))).map (·.errs)).flatten := by
      split at he <;> exact he
    have hs : e ∈ ((Model.ExecStatic.collect c rt (fuel + 1) st sels).map (fieldErrs c fuel rt id path)).flatten := by
      simp only [List.mem_flatten, List.mem_map] at he' ⊢
      obtain ⟨l, ⟨r, hr', rfl⟩, hxl⟩ := he'
      obtain ⟨f, hf', rfl⟩ := joinAll_mem _ r hr'
      simp only [List.mem_map] at hf'
      obtain ⟨occ, hocc, rfl⟩ := hf'
      exact ⟨_, ⟨occ, hocc, rfl⟩, hRF occ hocc e hxl⟩
    simp only [] at f3
    split <;> (simp only []; rw [f3]; simpa using hs)

theorem run_errs_sub (S : Schema) (d : Doc) (opName : Option String) (raw : List (String × GValue)) (w : World) (fuel : Nat)
    (H : ∀ op, AGV.Spec.Exec.selectOp d opName = some op → RunHyps S d op raw w fuel ∧
      deepEnough (runCtx S d op raw w) fuel (rootOf S op) (rootOf S op) op.sels = true) :
    ∀ e ∈ (Model.ExecStatic.run Defects.none S d opName raw w fuel).errs, e ∈ (AGV.Spec.Exec.run S d opName raw w fuel).errs := by
  unfold Model.ExecStatic.run AGV.Spec.Exec.run
  cases hop : AGV.Spec.Exec.selectOp d opName with
  | none => intro e he; exact he
  | some op =>
    obtain ⟨h, hdeep⟩ := H op hop
    have hsv : skipVars Defects.none op.vars raw = AGV.Spec.Exec.coerceVars op.vars raw := rfl
    have hfr := h.data.frags
    have hd : ({ ops := d.ops, frags := d.frags.map (fun f =>
        { f with sels := prune (AGV.Spec.Exec.coerceVars op.vars raw) fuel f.sels }) } : Doc) = d := by
      have : d.frags.map (fun f => ({ f with sels := prune (AGV.Spec.Exec.coerceVars op.vars raw) fuel f.sels } : FragDef)) = d.frags := by
        conv => rhs; rw [← List.map_id d.frags]
        apply List.map_congr_left
        intro f hf
        have := prune_inert (AGV.Spec.Exec.coerceVars op.vars raw) fuel f.sels (hfr f hf)
        simp [this]
      rw [this]
    simp only [hsv, hd, prune_inert _ fuel op.sels h.opInert]
    exact container_errs_sub (runCtx S d op raw w) h.data fuel (rootOf S op) (rootOf S op) 0 op.sels [] h.root
      (doesApply_self S _ h.root) h.opInert h.keys hdeep


-- ------------------------------------------------------------------ towards the merge lemma: insert = group, then merge

/-- group key/value pairs by key, groups in order of first occurrence (mirror of `Spec.Exec.group`) -/
def groupKV (kvs : List (String × GValue)) : List (String × List GValue) :=
  kvs.foldl (fun gs p =>
    if gs.any (·.1 = p.1) then gs.map (fun g => if g.1 = p.1 then (g.1, g.2 ++ [p.2]) else g)
    else gs ++ [(p.1, [p.2])]) []

/-- left fold of the merge over the values of one key, in occurrence order -/
def mergeAll (f : GValue → GValue → GValue) : List GValue → GValue
  | [] => .null
  | v :: vs => vs.foldl f v

theorem mergeAll_snoc (f : GValue → GValue → GValue) (vs : List GValue) (v : GValue) (h : vs ≠ []) :
    mergeAll f (vs ++ [v]) = f (mergeAll f vs) v := by
  cases vs with
  | nil => exact absurd rfl h
  | cons v0 r => simp [mergeAll, List.foldl_append]

theorem insertKV_group_step (f : GValue → GValue → GValue) (gs : List (String × List GValue))
    (hne : ∀ g ∈ gs, g.2 ≠ []) (k : String) (v : GValue) :
    insertKV f (gs.map (fun g => (g.1, mergeAll f g.2))) k v =
      (if gs.any (·.1 = k) then gs.map (fun g => if g.1 = k then (g.1, g.2 ++ [v]) else g)
        else gs ++ [(k, [v])]).map (fun g => (g.1, mergeAll f g.2)) := by
  unfold insertKV
  have hany : (gs.map (fun g => (g.1, mergeAll f g.2))).any (fun p => decide (p.1 = k)) = gs.any (fun g => decide (g.1 = k)) := by
    rw [List.any_map]; rfl
  rw [hany]
  by_cases h : gs.any (fun g => decide (g.1 = k)) = true
  · rw [if_pos h, if_pos h, List.map_map, List.map_map]
    apply List.map_congr_left
    intro g hg
    by_cases hk : g.1 = k
    · simp [hk, mergeAll_snoc f g.2 v (hne g hg)]
    · simp [hk]
  · rw [if_neg h, if_neg h]
    simp [mergeAll]

theorem foldl_insertKV_group (f : GValue → GValue → GValue) (kvs : List (String × GValue)) :
    ∀ (gs : List (String × List GValue)), (∀ g ∈ gs, g.2 ≠ []) →
      kvs.foldl (fun m p => insertKV f m p.1 p.2) (gs.map (fun g => (g.1, mergeAll f g.2))) =
        (kvs.foldl (fun gs p =>
          if gs.any (·.1 = p.1) then gs.map (fun g => if g.1 = p.1 then (g.1, g.2 ++ [p.2]) else g)
          else gs ++ [(p.1, [p.2])]) gs).map (fun g => (g.1, mergeAll f g.2)) := by
  induction kvs with
  | nil => intro gs _; rfl
  | cons p ps ih =>
    intro gs hne
    rw [List.foldl_cons, List.foldl_cons, insertKV_group_step f gs hne]
    apply ih
    intro g hg
    split at hg
    · simp only [List.mem_map] at hg
      obtain ⟨g', hg', rfl⟩ := hg
      split
      · simp
      · exact hne g' hg'
    · simp only [List.mem_append, List.mem_singleton] at hg
      rcases hg with hg | rfl
      · exact hne g hg
      · simp

/-- `create_value_object` = group the field results by response key (first-occurrence order), then
    fold `merge_value` over each key's values in occurrence order — for every list of results -/
theorem createValueObject_group (D : Defects) (fuel : Nat) (kvs : List (String × GValue)) :
    createValueObject D fuel kvs =
      .obj ((groupKV kvs).map (fun g => (g.1, mergeAll (merge D.mergeKeepsPartialOnNull (4 * fuel)) g.2))) := by
  unfold createValueObject groupKV
  have := foldl_insertKV_group (merge D.mergeKeepsPartialOnNull (4 * fuel)) kvs [] (by simp)
  simpa using this

-- ------------------------------------------------------------------ validity for repeated response keys (open statements)

def listDepth : TypeRef → Nat
  | .named _ => 0
  | .list t => listDepth t + 1
  | .nonNull t => listDepth t

mutual
/-- structural equality of argument literals (the derived `BEq` of the nested inductive `DValue` is an
    opaque constant for the kernel: nothing can be proved from `a == b`) -/
def dvSame : DValue → DValue → Bool
  | .var a, .var b => decide (a = b)
  | .null, .null => true
  | .int a, .int b => decide (a = b)
  | .float a, .float b => decide (a = b)
  | .str a, .str b => decide (a = b)
  | .bool a, .bool b => decide (a = b)
  | .enum a, .enum b => decide (a = b)
  | .list a, .list b => dvSameL a b
  | .obj a, .obj b => argsSame a b
  | _, _ => false
def dvSameL : List DValue → List DValue → Bool
  | [], [] => true
  | x :: xs, y :: ys => dvSame x y && dvSameL xs ys
  | _, _ => false
/-- the same argument list: same names in the same order with structurally equal values -/
def argsSame : List (String × DValue) → List (String × DValue) → Bool
  | [], [] => true
  | (k, x) :: xs, (l, y) :: ys => decide (k = l) && dvSame x y && argsSame xs ys
  | _, _ => false
end

mutual
theorem dvSame_eq : ∀ (a b : DValue), dvSame a b = true → a = b
  | .var a, .var b, h => by simp [dvSame] at h; rw [h]
  | .null, .null, _ => rfl
  | .int a, .int b, h => by simp [dvSame] at h; rw [h]
  | .float a, .float b, h => by simp [dvSame] at h; rw [h]
  | .str a, .str b, h => by simp [dvSame] at h; rw [h]
  | .bool a, .bool b, h => by simp [dvSame] at h; rw [h]
  | .enum a, .enum b, h => by simp [dvSame] at h; rw [h]
  | .list a, .list b, h => by simp only [dvSame] at h; rw [dvSameL_eq a b h]
  | .obj a, .obj b, h => by simp only [dvSame] at h; rw [argsSame_eq a b h]
  | .var _, .null, h | .var _, .int _, h | .var _, .float _, h | .var _, .str _, h | .var _, .bool _, h
  | .var _, .enum _, h | .var _, .list _, h | .var _, .obj _, h => by simp [dvSame] at h
  | .null, .var _, h | .null, .int _, h | .null, .float _, h | .null, .str _, h | .null, .bool _, h
  | .null, .enum _, h | .null, .list _, h | .null, .obj _, h => by simp [dvSame] at h
  | .int _, .var _, h | .int _, .null, h | .int _, .float _, h | .int _, .str _, h | .int _, .bool _, h
  | .int _, .enum _, h | .int _, .list _, h | .int _, .obj _, h => by simp [dvSame] at h
  | .float _, .var _, h | .float _, .null, h | .float _, .int _, h | .float _, .str _, h | .float _, .bool _, h
  | .float _, .enum _, h | .float _, .list _, h | .float _, .obj _, h => by simp [dvSame] at h
  | .str _, .var _, h | .str _, .null, h | .str _, .int _, h | .str _, .float _, h | .str _, .bool _, h
  | .str _, .enum _, h | .str _, .list _, h | .str _, .obj _, h => by simp [dvSame] at h
  | .bool _, .var _, h | .bool _, .null, h | .bool _, .int _, h | .bool _, .float _, h | .bool _, .str _, h
  | .bool _, .enum _, h | .bool _, .list _, h | .bool _, .obj _, h => by simp [dvSame] at h
  | .enum _, .var _, h | .enum _, .null, h | .enum _, .int _, h | .enum _, .float _, h | .enum _, .str _, h
  | .enum _, .bool _, h | .enum _, .list _, h | .enum _, .obj _, h => by simp [dvSame] at h
  | .list _, .var _, h | .list _, .null, h | .list _, .int _, h | .list _, .float _, h | .list _, .str _, h
  | .list _, .bool _, h | .list _, .enum _, h | .list _, .obj _, h => by simp [dvSame] at h
  | .obj _, .var _, h | .obj _, .null, h | .obj _, .int _, h | .obj _, .float _, h | .obj _, .str _, h
  | .obj _, .bool _, h | .obj _, .enum _, h | .obj _, .list _, h => by simp [dvSame] at h
theorem dvSameL_eq : ∀ (a b : List DValue), dvSameL a b = true → a = b
  | [], [], _ => rfl
  | x :: xs, y :: ys, h => by
    simp only [dvSameL, Bool.and_eq_true] at h
    rw [dvSame_eq x y h.1, dvSameL_eq xs ys h.2]
  | [], _ :: _, h => by simp [dvSameL] at h
  | _ :: _, [], h => by simp [dvSameL] at h
theorem argsSame_eq : ∀ (a b : List (String × DValue)), argsSame a b = true → a = b
  | [], [], _ => rfl
  | (k, x) :: xs, (l, y) :: ys, h => by
    simp only [argsSame, Bool.and_eq_true, decide_eq_true_eq] at h
    rw [h.1.1, dvSame_eq x y h.1.2, argsSame_eq xs ys h.2]
  | [], _ :: _, h => by simp [argsSame] at h
  | _ :: _, [], h => by simp [argsSame] at h
end

example : argsSame [("a", .list [.int 1, .var "v"])] [("a", .list [.int 1, .var "v"])] = true := by decide

/-- like `noRepeatedKeys`, but a response key may repeat when all its occurrences name the same field
    with the same arguments (FieldsInSetCanMerge, per runtime type; "same arguments" = `argsSame`, the
    structural equality above — the derived `==` on `DValue` is opaque to the kernel, a hypothesis
    `o'.args == o.args` would say nothing); the sub-selections are then
    checked merged.  the model's `merge` is given four units of fuel per selection level, hence `listDepth ≤ 3`
    for repeated keys. -/
def mergeableKeys (c : Model.ExecStatic.Ctx) : Nat → String → String → List Sel → Bool
  | 0, _, _, _ => true
  | fuel + 1, st, rt, sels =>
    decide (spreads c.d (fuel + 1) sels).Nodup &&
    (AGV.Spec.Exec.group (Model.ExecStatic.collect c rt (fuel + 1) st sels)).all (fun g =>
      match g.2 with
      | [] => true
      | o :: rest =>
        rest.all (fun o' => o'.name = o.name && argsSame o'.args o.args) &&
        (o.name = "__typename" ||
          match c.S.field? rt o.name with
          | none => false
          | some fd =>
            (rest.isEmpty || decide (listDepth fd.ty ≤ 3)) &&
            (c.S.possibleTypes fd.ty.base).all (fun ty =>
              mergeableKeys c fuel fd.ty.base ty (g.2.map (·.sels)).flatten)))

-- ------------------------------------------------------------------ a non-trivial instance of the hypotheses

namespace Ex
def p0 : Pos := ⟨1, 1⟩
-- a non-trivial instance: interface, union, named + inline fragments, inert directives, a list,
-- a failing resolver and a non-finite float in a non-null position

def tQuery : TypeDef := { name := "Query", kind := .object, fields := [
  { name := "obj", ty := .named "O", args := [] }, { name := "node", ty := .named "I", args := [] },
  { name := "items", ty := .list (.nonNull (.named "O")), args := [] }] }
def S1 : Schema := { query := "Query", types := [
  tQuery,
  { name := "I", kind := .interface, fields := [{ name := "name", ty := .named "String", args := [] }] },
  { name := "O", kind := .object, implements := ["I"], fields := [
      { name := "name", ty := .named "String", args := [] }, { name := "a", ty := .named "Int", args := [] },
      { name := "f", ty := .nonNull (.named "Float"), args := [] }] },
  { name := "P", kind := .object, implements := ["I"], fields := [{ name := "name", ty := .named "String", args := [] }] },
  { name := "U", kind := .union, members := ["O", "P"] },
  { name := "Int", kind := .scalar }, { name := "Float", kind := .scalar }, { name := "String", kind := .scalar },
  { name := "Boolean", kind := .scalar }] }

def w1 : World := { entries := [
  ((0, "obj"), .obj "O" 1), ((0, "node"), .obj "P" 2), ((0, "items"), .list [.obj "O" 1, .obj "O" 3]),
  ((1, "name"), .leaf (.str "x")), ((1, "a"), .leaf (.int 5)), ((1, "f"), .leaf (.float "NaN")),
  ((2, "name"), .leaf (.str "p")), ((3, "a"), .fail "boom"), ((3, "f"), .leaf (.float "1.5"))] }

def dirOn : Dir := { name := "include", args := [("if", .bool true)] }
def dirOff : Dir := { name := "skip", args := [("if", .bool false)] }
def fragF : FragDef := { name := "F", cond := "I", dirs := [], sels := [
  Sel.field none "name" [] [] [] p0, Sel.inline none [dirOff] [Sel.field none "a" [] [] [] p0] p0] }
/-- `{ obj { ...F ... on U { f } } node { __typename ... on P { nm: name } ... on O { a } } items { a @include(if: true) } }` -/
def op1 : OpDef := { ty := .query, name := none, vars := [], dirs := [], sels := [
  Sel.field none "obj" [] [] [Sel.spread "F" [] p0, Sel.inline (some "U") [] [Sel.field none "f" [] [] [] p0] p0] p0,
  Sel.field none "node" [] [] [Sel.field none "__typename" [] [] [] p0,
    Sel.inline (some "P") [] [Sel.field (some "nm") "name" [] [] [] p0] p0,
    Sel.inline (some "O") [] [Sel.field none "a" [] [] [] p0] p0] p0,
  Sel.field none "items" [] [] [Sel.field none "a" [] [dirOn] [] p0] p0] }
def doc1 : Doc := { ops := [op1], frags := [fragF] }


/-- the hypotheses of `run_val_eq` / `run_errs_sub` hold for a document with fragments on an interface
    and a union, inert directives, a list, a failing resolver and a NaN in a `Float!` position -/
theorem runHyps : ∀ op, AGV.Spec.Exec.selectOp doc1 none = some op →
    RunHyps S1 doc1 op [] w1 10 ∧ deepEnough (runCtx S1 doc1 op [] w1) 10 (rootOf S1 op) (rootOf S1 op) op.sels = true := by
  intro op hop
  have : op = op1 := by simpa [AGV.Spec.Exec.selectOp, doc1] using hop.symm
  subst this
  refine ⟨{
    root := ⟨tQuery, rfl, rfl⟩
    data := {
      noDefect := rfl
      schema := schemaOK_of_wf _ (by decide)
      builtins := by decide
      frags := by decide
      floats := floats_of_world _ (by decide) }
    opInert := by decide
    keys := by decide }, by decide⟩
end Ex

end AGV.Lemmas.ExecStaticData
