/-
  Property C13: the whole statement — `parse_query` (PEG interpreter over the repaired grammar +
  tree builder) equals the specification's `parseDocument` on every text.
-/
import AGV.Lemmas.PegC13Q11
import AGV.Lemmas.PegC13STop
import AGV.Lemmas.PegC13SPrint
import AGV.Lemmas.PegC13SDepth
namespace AGV.Lemmas.PegX
open AGV.Model.Peg AGV.Model.BuildAst AGV.Spec.Lex AGV.Spec.Parse AGV.Core.PAst AGV.Lemmas.PegC13 AGV.Lemmas.SpecVal

/-- a definition read from tokens nests fewer levels than it has tokens -/
theorem qDefinition_depth (L : Nat) (ts : List Tok) (d : PDef) (r : List Tok) (h : qDefinition L ts = some (d, r)) :
    dDef d + r.length < ts.length := by
  unfold qDefinition at h
  rcases tOr_some h with h1 | ⟨-, h3⟩
  · rcases tOr_some h1 with hn | ⟨-, ha⟩
    · -- named operation
      obtain ⟨y, hy, rfl⟩ := tMap_some hn
      obtain ⟨ty, on, ovs, ods, ss⟩ := y
      obtain ⟨r1, m1, g1⟩ := mono_tSeq_some strict_qOpType.mono hy
      obtain ⟨r2, m2, g2⟩ := mono_tSeq_some (mono_opt strict_pName.mono) g1
      obtain ⟨r3, m3, g3⟩ := mono_tSeq_some (mono_opt (strict_qVarDefs L).mono) g2
      obtain ⟨r4, m4, g4⟩ := mono_tSeq_some (mono_opt (strict_rep1 (strict_qDirective false)).mono) g3
      have d1 : dSels ss + r.length + 2 < r4.length + 1 := qSelSet_depth _ _ _ _ g4
      show dSels ss + r.length < ts.length
      omega
    · obtain ⟨ss, hs, rfl⟩ := tMap_some ha
      have d1 := qSelSet_depth _ _ _ _ hs
      show dSels ss + r.length < ts.length
      omega
  · obtain ⟨y, hy, rfl⟩ := tMap_some h3
    obtain ⟨u1, u2, n, tc, ods, ss⟩ := y
    obtain ⟨r1, m1, g1⟩ := mono_tSeq_some (strict_kw kwFragment).mono hy
    obtain ⟨r2, m2, g2⟩ := mono_tSeq_some (mono_not _) g1
    obtain ⟨r3, m3, g3⟩ := mono_tSeq_some strict_pName.mono g2
    obtain ⟨r4, m4, g4⟩ := mono_tSeq_some strict_qTypeCond.mono g3
    obtain ⟨r5, m5, g5⟩ := mono_tSeq_some (mono_opt (strict_rep1 (strict_qDirective false)).mono) g4
    have d1 : dSels ss + r.length + 2 < r5.length + 1 := qSelSet_depth _ _ _ _ g5
    show dSels ss + r.length < ts.length
    omega

theorem qDocument_depth (L : Nat) (ts : List Tok) (defs : List PDef) (r : List Tok)
    (h : qDocument L ts = some (defs, r)) : ∀ d ∈ defs, dDef d < ts.length := by
  obtain ⟨y, hy, rfl⟩ := tMap_some h
  obtain ⟨r1, h1, -⟩ := tSeq_some hy
  simp only [tRep1] at h1
  cases hq : qDefinition L ts with
  | none => simp [hq] at h1
  | some x =>
    obtain ⟨d0, r0⟩ := x
    simp only [hq, Option.some.injEq, Prod.mk.injEq] at h1
    obtain ⟨e1, -⟩ := h1
    have hd0 := qDefinition_depth L ts d0 r0 hq
    have hm := manyF_measure dDef (qDefinition_depth L) r0.length r0
    intro d hd
    rw [← e1] at hd
    rcases List.mem_cons.1 hd with rfl | hd
    · omega
    · have := hm d hd; omega

theorem all_and {α : Type} (l : List α) (p q : α → Bool) : (l.all p && l.all q) = l.all (fun x => p x && q x) := by
  induction l with
  | nil => rfl
  | cons a l ih =>
    simp only [List.all_cons, ← ih]
    cases p a <;> cases q a <;> cases l.all p <;> cases l.all q <;> rfl

theorem all_congr {α : Type} (l : List α) (p q : α → Bool) (h : ∀ x ∈ l, p x = q x) : l.all p = l.all q := by
  induction l with
  | nil => rfl
  | cons a l ih =>
    simp only [List.all_cons]
    rw [h a (by simp), ih (fun x hx => h x (by simp [hx]))]

theorem maxDepth_eq : maxDepth = 64 := rfl

/-- the conditions the specification checks on the finished tree are the builder's -/
theorem okDef_eq (s : List Char) (defs : List PDef) (hd : ∀ d ∈ defs, dDef d ≤ s.length + 1) :
    (defs.all finDef && defs.all (fun d => decide (selDepth (s.length + 1) (defSels d) ≤ 64))) = defs.all okDef := by
  rw [all_and]
  refine all_congr _ _ _ (fun d hdm => ?_)
  have := hd d hdm
  unfold okDef
  rw [selDepth_eq _ _ this, maxDepth_eq]
  rfl

/-- the model parser with no defect and the specification parser agree on every text: same
    acceptance, same tree (as printed canonically) -/
theorem full (s : List Char) :
    (match parseQuery Defects.none s with
     | .ok d => some (sResult (.ok d))
     | .error _ => none) =
    (parseDocument {} s).map (fun d => sResult (.ok d)) := by
  have hpeg := parseQuery_peg s
  by_cases hb : bad ∈ toks s
  · rw [qDocument_bad _ _ hb] at hpeg
    simp only [] at hpeg
    rw [hpeg]
    have : parseDocument {} s = none := by
      unfold parseDocument
      rw [tokens_none s hb]
    rw [this]; rfl
  · have htok := tokens_some s hb
    have hlen := toks_length_le s.length s (Nat.le_refl _)
    rw [spec_top s (toks s) htok]
    have hq := qDocument_agree (toks s) (s.length + 1) (by omega)
    cases hp : pDefinitions P' ((toks s).length + 1) (toks s) with
    | none =>
      rw [hp] at hq
      rw [hq] at hpeg
      simp only [Option.map_none] at hpeg
      rw [hpeg]; rfl
    | some defs =>
      rw [hp] at hq
      simp only [Option.map_some] at hq
      have hdep := qDocument_depth _ _ _ _ hq
      rw [hq] at hpeg
      simp only [] at hpeg
      obtain ⟨hok, herr⟩ := hpeg
      have hc := okDef_eq s defs (fun d hd => by have := hdep d hd; omega)
      simp only []
      rw [hc]
      cases hall : defs.all okDef with
      | true =>
        rw [hok hall]
        refine (model_print defs).trans ?_
        simp only [Bool.true_and]
        cases validDefs {} defs <;> rfl
      | false =>
        obtain ⟨e, he⟩ := herr hall
        rw [he]
        rfl
end AGV.Lemmas.PegX
