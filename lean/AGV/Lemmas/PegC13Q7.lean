/-
  Property C13, token level: selection sets — the PEG reader `qSelSet` is the specification's
  `pSelectionSet` (every failure swallowed by an optional part resurfaces before the closing brace).
-/
import AGV.Lemmas.PegC13Q6
namespace AGV.Lemmas.PegX
open AGV.Model.Peg AGV.Model.BuildAst AGV.Spec.Lex AGV.Spec.Parse AGV.Core.PAst AGV.Lemmas.PegC13 AGV.Lemmas.SpecVal

def S4 : List Tok → Prop := HeadIn ['(', '@', '{']
def SBr : List Tok → Prop := HeadIn ['{']

theorem S2_S4 {r : List Tok} (h : S2 r) : S4 r := HeadIn.mono (by simp) h
theorem S1_S4 {r : List Tok} (h : S1 r) : S4 r := HeadIn.mono (by simp) h
theorem SBr_S4 {r : List Tok} (h : SBr r) : S4 r := HeadIn.mono (by simp) h

theorem qSelSet_at (L : Nat) (r : List Tok) :
    qSelSet (L + 1) (.punct '{' :: r) = tRepClose (qSelection (qSelSet L)) '}' r := by
  show qSelSetBody (qSelSet L) _ = _
  unfold qSelSetBody tRepClose
  rw [tMap_eq, tMap_eq, tSeq_of_some (tPunct_cons '{' r), omap_omap]

theorem qSelSet_needs (L : Nat) : NeedsBrace (qSelSet L) := by
  intro ts h
  cases L with
  | zero => rfl
  | succ L =>
    show qSelSetBody (qSelSet L) ts = none
    unfold qSelSetBody
    rw [tMap_eq, tSeq_of_none (by rw [tPunct_eq, closeTok_none h]; rfl)]
    rfl

/-- the induction hypothesis: shorter texts -/
def SelIH (n : Nat) : Prop := ∀ ts : List Tok, ts.length ≤ n → ∀ L f, ts.length < L → ts.length < f →
  tRepClose (qSelection (qSelSet L)) '}' ts = pSelections P' f ts

theorem selSet_of_IH {n : Nat} (ih : SelIH n) {r' : List Tok} (hn : r'.length ≤ n) {L f : Nat} (hL : r'.length + 1 < L)
    (hf : r'.length < f) : qSelSet L (.punct '{' :: r') = pSelections P' f r' := by
  obtain ⟨L, rfl⟩ : ∃ k, L = k + 1 := ⟨L - 1, by omega⟩
  rw [qSelSet_at]
  exact ih r' hn L f (by omega) hf

theorem optSet_agree {n : Nat} (ih : SelIH n) (r2 : List Tok) (hn : r2.length ≤ n + 1) {L f : Nat} (hL : r2.length < L)
    (hf : r2.length ≤ f) : Agree SBr (qOptSet (qSelSet L) r2) (pOptSet f r2) := by
  unfold qOptSet pOptSet
  rw [tMap_eq]
  cases hc : closeTok '{' r2 with
  | some r' =>
    have e := closeTok_some hc
    subst e
    simp only [List.length_cons] at hn hL hf
    simp only []
    have hq := selSet_of_IH ih (r' := r') (by omega) (L := L) (f := f) (by omega) (by omega)
    cases hp : pSelections P' f r' with
    | none =>
      rw [hp] at hq
      rw [tOpt_of_none hq]
      exact Or.inr ⟨BadO.stuck ⟨'{', r', rfl, by simp⟩, BadO.none⟩
    | some x =>
      obtain ⟨ss, r3⟩ := x
      rw [hp] at hq
      rw [tOpt_of_some hq]
      exact Or.inl rfl
  | none =>
    have hq : qSelSet L r2 = none := qSelSet_needs L r2 (fun r e => by rw [e] at hc; simp [closeTok] at hc)
    rw [tOpt_of_none hq]
    exact Or.inl rfl

theorem qOptSet_skip (L : Nat) (r : List Tok) (h : ∀ r', r ≠ .punct '{' :: r') : qOptSet (qSelSet L) r = some ([], r) := by
  unfold qOptSet
  rw [tMap_eq, tOpt_of_none (qSelSet_needs L r h)]; rfl

theorem pOptSet_skip (f : Nat) (r : List Tok) (h : ∀ r', r ≠ .punct '{' :: r') : pOptSet f r = some ([], r) := by
  unfold pOptSet
  rw [closeTok_none h]

theorem headIn_ne {cs : List Char} {r : List Tok} (hs : HeadIn cs r) (y : Char) (hy : y ∉ cs) : ∀ r', r ≠ .punct y :: r' := by
  obtain ⟨c, r0, rfl, hc⟩ := hs
  intro r' e
  cases e
  exact hy hc

theorem fieldTail_agree {n : Nat} (ih : SelIH n) (al : Option Name) (nm : Name) (r : List Tok) (hn : r.length ≤ n + 1)
    {L f : Nat} (hL : r.length < L) (hf : r.length ≤ f) :
    Agree S4 (qFieldTail (qSelSet L) al nm r) (pFieldTail f al nm r) := by
  unfold qFieldTail pFieldTail
  refine Agree.bind' (optArgs_agree false r) ?_ ?_ ?_
  · intro as r1 e1 _
    have l1 : r1.length ≤ r.length := by
      obtain ⟨as', r1', e', hl⟩ := qOptArgs_some false r
      rw [e1] at e'; cases e'; exact hl
    refine Agree.bind' (optDirs_agree false r1) ?_ ?_ ?_
    · intro ds r2 e2 _
      have l2 : r2.length ≤ r1.length := by
        obtain ⟨ds', r2', e', hl⟩ := qOptDirs_some false r1
        rw [e2] at e'; cases e'; exact hl
      refine Agree.bind' (optSet_agree ih r2 (by omega) (by omega) (by omega)) ?_ ?_ ?_
      · intro ss r3 _ _; exact Or.inl rfl
      · intro ss r3 _ hs; exact BadO.stuck (SBr_S4 hs)
      · intro ss r3 _ hs; exact BadO.stuck (SBr_S4 hs)
    · intro ds r2 _ hs
      rw [qOptSet_skip L r2 (headIn_ne hs '{' (by simp))]
      exact BadO.stuck (S2_S4 hs)
    · intro ds r2 _ hs
      rw [pOptSet_skip f r2 (headIn_ne hs '{' (by simp))]
      exact BadO.stuck (S2_S4 hs)
  · intro as r1 _ hs
    rw [qOptDirs_skip false r1 (headIn_ne hs '@' (by simp))]
    simp only [obind]
    rw [qOptSet_skip L r1 (headIn_ne hs '{' (by simp))]
    exact BadO.stuck (S1_S4 hs)
  · intro as r1 _ hs
    rw [pDirs_skip false r1 (headIn_ne hs '@' (by simp))]
    simp only [obind]
    rw [pOptSet_skip f r1 (headIn_ne hs '{' (by simp))]
    exact BadO.stuck (S1_S4 hs)

theorem inlineTail_agree {n : Nat} (ih : SelIH n) (tc : Option Name) (r : List Tok) (hn : r.length ≤ n + 1)
    {L f : Nat} (hL : r.length < L) (hf : r.length ≤ f) :
    qInlineTail (qSelSet L) tc r = pInlineTail f tc r := by
  unfold qInlineTail pInlineTail
  refine Agree.bind_eq' (optDirs_agree false r) ?_ ?_ ?_
  · intro ds r2 e2 _
    have l2 : r2.length ≤ r.length := by
      obtain ⟨ds', r2', e', hl⟩ := qOptDirs_some false r
      rw [e2] at e'; cases e'; exact hl
    cases hc : closeTok '{' r2 with
    | some r3 =>
      have e := closeTok_some hc
      subst e
      simp only [List.length_cons] at l2
      simp only []
      rw [selSet_of_IH ih (r' := r3) (by omega) (L := L) (f := f) (by omega) (by omega)]
    | none =>
      simp only []
      rw [qSelSet_needs L r2 (fun r e => by rw [e] at hc; simp [closeTok] at hc)]
      rfl
  · intro ds r2 _ hs
    rw [qSelSet_needs L r2 (headIn_ne hs '{' (by simp))]
    rfl
  · intro ds r2 _ hs
    rw [closeTok_none (headIn_ne hs '{' (by simp))]

theorem spreadTail_agree (nm : Name) (r1 : List Tok) : Agree S4 (qSpreadTail nm r1) (pSpreadTail nm r1) := by
  unfold qSpreadTail pSpreadTail
  refine Agree.bind' (optDirs_agree false r1) ?_ ?_ ?_
  · intro ds r2 _ _; exact Or.inl rfl
  · intro ds r2 _ hs; exact BadO.stuck (S2_S4 hs)
  · intro ds r2 _ hs; exact BadO.stuck (S2_S4 hs)

/-- the continuation after one selection on the PEG side -/
def qCont (L : Nat) (s : PSel) (r : List Tok) : Outc (List PSel) :=
  match closeTok '}' r with
  | some r' => some ([s], r')
  | none => omap (fun xs => s :: xs) (tRepClose (qSelection (qSelSet L)) '}' r)

theorem qSel_close (L : Nat) (r : List Tok) : qSelection (qSelSet L) (.punct '}' :: r) = none :=
  qSel_other _ _ (fun r' e => by cases e) (fun n r' e => by cases e)

theorem sel_unfold (L : Nat) (ts : List Tok) :
    tRepClose (qSelection (qSelSet L)) '}' ts = obind (qSelection (qSelSet L) ts) (qCont L) :=
  tRepClose_unfold (strict_qSelection _ (strict_qSelSet L).mono) '}' (qSel_close L) ts

theorem cont_eq {n : Nat} (ih : SelIH n) (L f : Nat) (s : PSel) (r : List Tok) (hn : r.length ≤ n) (hL : r.length < L)
    (hf : r.length < f) : qCont L s r = pCont f s r := by
  unfold qCont pCont
  rw [ih r hn L f hL hf]
  cases closeTok '}' r <;> rfl

theorem cont_stuck_q (L : Nat) (s : PSel) (r : List Tok) (hs : S4 r) : qCont L s r = none := by
  unfold qCont
  rw [closeTok_none (headIn_ne hs '}' (by simp)), sel_unfold]
  obtain ⟨c, r0, rfl, hc⟩ := hs
  rw [qSel_other _ _ (fun r' e => by cases e) (fun n r' e => by cases e)]
  rfl

theorem cont_stuck_p (f : Nat) (s : PSel) (r : List Tok) (hs : S4 r) : pCont f s r = none := by
  unfold pCont
  rw [closeTok_none (headIn_ne hs '}' (by simp))]
  obtain ⟨c, r0, rfl, hc⟩ := hs
  rw [pSel_other f _ (fun r' e => by cases e) (fun n r' e => by cases e)]
  rfl
end AGV.Lemmas.PegX
