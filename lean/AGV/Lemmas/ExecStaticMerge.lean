/-
  The MERGE LEMMA for C01/C03, part 1 (no executor yet):
    * `group` / `groupKV` = "keys in order of first occurrence" + `filter` (`group_char`, `groupKV_char`);
    * facts about `merge_value` (`merge`), `mergeO` (merge of optional results), the relation `Rel`
      between the results for two selection sets and for their union;
    * lists item by item (`lstVal_rel`), objects key by key (`seqObj_merge`: folding `insert_value`
      over a second object);
    * `MKP`: `mergeableKeys` as a proposition, `mkp_split` (mergeability of a union gives mergeability
      of the parts);
    * `complete_merge`: CompleteValue against `A ++ B` is the merge of the completions against `A`, `B`.
-/
import AGV.Lemmas.ExecStaticData

namespace AGV.Lemmas.ExecStaticMerge
open AGV.Core AGV.Model.ExecStatic AGV.Lemmas.ExecStatic AGV.Lemmas.ExecStaticData
open AGV.Spec.Exec (FieldOcc complete execSet group mapIdx serializeLeaf doesApply excluded argValue)

-- ------------------------------------------------------------------ grouping = dedup + filter

/-- keys in order of first occurrence -/
def dedup : List String → List String
  | [] => []
  | k :: ks => k :: (dedup ks).filter (fun x => decide (x ≠ k))

theorem mem_dedup (l : List String) (k : String) : k ∈ dedup l ↔ k ∈ l := by
  induction l with
  | nil => simp [dedup]
  | cons x xs ih =>
    simp only [dedup, List.mem_cons, List.mem_filter, decide_eq_true_eq, ih]
    by_cases h : k = x <;> simp [h]

theorem dedup_nodup (l : List String) : (dedup l).Nodup := by
  induction l with
  | nil => simp [dedup]
  | cons x xs ih =>
    simp only [dedup, List.nodup_cons, List.mem_filter, decide_eq_true_eq]
    exact ⟨fun h => h.2 rfl, List.Nodup.sublist List.filter_sublist ih⟩

theorem dedup_snoc (l : List String) (k : String) :
    dedup (l ++ [k]) = if k ∈ l then dedup l else dedup l ++ [k] := by
  induction l with
  | nil => simp [dedup]
  | cons x xs ih =>
    simp only [List.cons_append, dedup, ih, List.mem_cons]
    by_cases hx : k = x
    · subst hx
      by_cases hm : k ∈ xs <;> simp [hm, List.filter_append]
    · by_cases hm : k ∈ xs
      · simp [hm, hx]
      · simp [hm, hx, List.filter_append]

theorem dedup_append (a b : List String) :
    dedup (a ++ b) = dedup a ++ (dedup b).filter (fun k => decide (k ∉ a)) := by
  induction a with
  | nil =>
    simp only [dedup, List.nil_append, List.not_mem_nil, not_false_eq_true, decide_true]
    exact (List.filter_eq_self.2 (fun _ _ => rfl)).symm
  | cons x xs ih =>
    simp only [List.cons_append, dedup, ih, List.filter_append, List.filter_filter, List.cons.injEq, true_and,
      List.append_cancel_left_eq]
    apply List.filter_congr
    intro k _
    by_cases h1 : k = x <;> simp [h1]

/-- generic "group by key in order of first occurrence" fold (both `Spec.Exec.group` and `groupKV`) -/
def groupG {α β : Type} (key : α → String) (val : α → β) (l : List α) (gs : List (String × List β)) :
    List (String × List β) :=
  l.foldl (fun gs o =>
    if gs.any (·.1 = key o) then gs.map (fun g => if g.1 = key o then (g.1, g.2 ++ [val o]) else g)
    else gs ++ [(key o, [val o])]) gs

def charG {α β : Type} (key : α → String) (val : α → β) (l : List α) : List (String × List β) :=
  (dedup (l.map key)).map (fun k => (k, (l.filter (fun o => decide (key o = k))).map val))

theorem groupG_char {α β : Type} (key : α → String) (val : α → β) (l : List α) :
    ∀ pre : List α, groupG key val l (charG key val pre) = charG key val (pre ++ l) := by
  induction l with
  | nil => intro pre; simp [groupG]
  | cons o os ih =>
    intro pre
    have hstep : (if (charG key val pre).any (·.1 = key o) then (charG key val pre).map (fun g => if g.1 = key o then (g.1, g.2 ++ [val o]) else g)
        else charG key val pre ++ [(key o, [val o])]) = charG key val (pre ++ [o]) := by
      have hany : (charG key val pre).any (·.1 = key o) = decide (key o ∈ pre.map key) := by
        rw [Bool.eq_iff_iff]
        simp only [charG, List.any_map, List.any_eq_true, Function.comp, decide_eq_true_eq]
        constructor
        · rintro ⟨k, hk, rfl⟩; exact (mem_dedup _ _).1 hk
        · intro h; exact ⟨_, (mem_dedup _ _).2 h, rfl⟩
      rw [hany]
      unfold charG
      rw [List.map_append, List.map_singleton, dedup_snoc]
      by_cases hm : key o ∈ pre.map key
      · simp only [hm, decide_true, if_true, List.map_map]
        apply List.map_congr_left
        intro k _
        by_cases hk : k = key o
        · subst hk; simp [List.filter_append]
        · have hk' : ¬ key o = k := fun e => hk e.symm
          simp [List.filter_append, hk, hk']
      · simp only [hm, decide_false, Bool.false_eq_true, if_false, List.map_append, List.map_singleton]
        congr 1
        · apply List.map_congr_left
          intro k hk
          have : ¬ key o = k := by
            intro e; subst e; exact hm ((mem_dedup _ _).1 hk)
          simp [List.filter_append, this]
        · have : pre.filter (fun x => decide (key x = key o)) = [] := by
            rw [List.filter_eq_nil_iff]
            intro x hx
            simp only [decide_eq_true_eq]
            intro e
            exact hm (by rw [← e]; exact List.mem_map_of_mem hx)
          simp [List.filter_append, this]
    have := ih (pre ++ [o])
    rw [← hstep] at this
    simpa [groupG] using this

theorem group_char (occs : List FieldOcc) :
    group occs = (dedup (occs.map (·.key))).map (fun k => (k, occs.filter (fun o => decide (o.key = k)))) := by
  have h := groupG_char (fun o : FieldOcc => o.key) id occs []
  simp only [charG, List.map_nil, dedup, List.nil_append, List.map_id] at h
  rw [← h]
  rfl

theorem groupKV_char (kvs : List (String × GValue)) :
    groupKV kvs = (dedup (kvs.map (·.1))).map (fun k => (k, (kvs.filter (fun p => decide (p.1 = k))).map (·.2))) := by
  have h := groupG_char (fun p : String × GValue => p.1) (fun p => p.2) kvs []
  simp only [charG, List.map_nil, dedup, List.nil_append] at h
  rw [← h]
  rfl

-- ------------------------------------------------------------------ facts about `merge_value`

theorem merge_null_left (k : Bool) (N : Nat) (b : GValue) : merge k N .null b = .null := by
  cases N <;> cases b <;> rfl

theorem merge_obj_null (N : Nat) (o : List (String × GValue)) : merge false (N + 1) (.obj o) .null = .null := by
  rfl

theorem merge_list_null (N : Nat) (l : List GValue) : merge false (N + 1) (.list l) .null = .null := by
  rfl

theorem merge_list_list (k : Bool) (N : Nat) (a b : List GValue) :
    merge k (N + 1) (.list a) (.list b) = .list (zipMerge (merge k N) a b) := by
  rfl

theorem merge_obj_obj (k : Bool) (N : Nat) (a b : List (String × GValue)) :
    merge k (N + 1) (.obj a) (.obj b) = .obj (b.foldl (fun tm p => insertKV (merge k N) tm p.1 p.2) a) := by
  rfl

def isScalar : GValue → Bool
  | .list _ => false
  | .obj _ => false
  | _ => true

theorem merge_scalar (k : Bool) (N : Nat) (a b : GValue) (h : isScalar a = true) : merge k N a b = a := by
  cases N <;> cases a <;> cases b <;> first | rfl | (simp [isScalar] at h)

theorem merge_ne_null (k : Bool) (N : Nat) (a b : GValue) (ha : a ≠ .null) (hb : b ≠ .null) : merge k N a b ≠ .null := by
  cases N <;> cases a <;> cases b <;> simp_all [merge]

/-- merge of two optional results: a propagating error on either side propagates -/
def mergeO (N : Nat) : Option GValue → Option GValue → Option GValue
  | some a, some b => some (merge false N a b)
  | _, _ => none

theorem mergeO_none_left (N : Nat) (y : Option GValue) : mergeO N none y = none := by
  cases y <;> rfl

theorem mergeO_none_right (N : Nat) (x : Option GValue) : mergeO N x none = none := by
  cases x <;> rfl

theorem mergeO_isSome (N : Nat) (x y : Option GValue) : (mergeO N x y).isSome = (x.isSome && y.isSome) := by
  cases x <;> cases y <;> rfl

/-- how the value for the union of two selection sets relates to the values for the parts -/
def Rel (N : Nat) (x y z : Option GValue) : Prop :=
  z = mergeO N x y ∧ (y = some .null → z = none ∨ z = some .null)

theorem rel_same_scalar (N : Nat) (v : GValue) (h : isScalar v = true) : Rel N (some v) (some v) (some v) := by
  refine ⟨?_, fun h' => Or.inr h'⟩
  simp [mergeO, merge_scalar _ _ _ _ h]

theorem rel_none (N : Nat) : Rel N none none none := ⟨rfl, fun _ => Or.inl rfl⟩

-- ------------------------------------------------------------------ lists, item by item

/-- what `complete` / `resolve_list` make of the item results -/
def lstVal (l : List (Option GValue)) : Option GValue :=
  if l.all (·.isSome) then some (.list (l.filterMap id)) else some .null

inductive Rel3 (R : Option GValue → Option GValue → Option GValue → Prop) :
    List (Option GValue) → List (Option GValue) → List (Option GValue) → Prop
  | nil : Rel3 R [] [] []
  | cons {x y z xs ys zs} : R x y z → Rel3 R xs ys zs → Rel3 R (x :: xs) (y :: ys) (z :: zs)

theorem mapIdx_rel3 {α} (R : Option GValue → Option GValue → Option GValue → Prop)
    (f g h : Nat → α → Option GValue) (xs : List α) (H : ∀ i, ∀ x ∈ xs, R (f i x) (g i x) (h i x)) :
    ∀ i, Rel3 R (mapIdx f xs i) (mapIdx g xs i) (mapIdx h xs i) := by
  induction xs with
  | nil => intro i; exact Rel3.nil
  | cons x xs ih =>
    intro i
    exact Rel3.cons (H i x (by simp)) (ih (fun j y hy => H j y (by simp [hy])) (i + 1))

theorem rel3_lists (M : Nat) (xs ys zs : List (Option GValue)) (h : Rel3 (Rel M) xs ys zs) :
    zs.all (·.isSome) = (xs.all (·.isSome) && ys.all (·.isSome)) ∧
    (xs.all (·.isSome) = true → ys.all (·.isSome) = true →
      zs.filterMap id = zipMerge (merge false M) (xs.filterMap id) (ys.filterMap id)) := by
  induction h with
  | nil => simp [zipMerge]
  | @cons x y z xs ys zs hr _ ih =>
    obtain ⟨i1, i2⟩ := ih
    obtain ⟨hz, _⟩ := hr
    subst hz
    refine ⟨?_, ?_⟩
    · simp only [List.all_cons, i1, mergeO_isSome]
      cases x.isSome <;> cases y.isSome <;> simp
    · intro hx hy
      simp only [List.all_cons, Bool.and_eq_true] at hx hy
      cases x with
      | none => simp at hx
      | some a =>
        cases y with
        | none => simp at hy
        | some b =>
          simp only [mergeO, List.filterMap_cons, id, zipMerge, i2 hx.2 hy.2]

theorem lstVal_rel (M : Nat) (xs ys zs : List (Option GValue)) (h : Rel3 (Rel M) xs ys zs) :
    Rel (M + 1) (lstVal xs) (lstVal ys) (lstVal zs) := by
  obtain ⟨h1, h2⟩ := rel3_lists M xs ys zs h
  unfold lstVal
  rw [h1]
  cases hx : xs.all (·.isSome) with
  | false =>
    simp only [Bool.false_and, Bool.false_eq_true, if_false]
    refine ⟨?_, fun _ => Or.inr rfl⟩
    split <;> simp [mergeO, merge_null_left]
  | true =>
    cases hy : ys.all (·.isSome) with
    | false =>
      simp only [Bool.and_false, Bool.false_eq_true, if_false, if_true]
      exact ⟨by simp [mergeO, merge_list_null], fun _ => Or.inr rfl⟩
    | true =>
      simp only [Bool.and_true, if_true]
      refine ⟨?_, fun hc => by simp at hc⟩
      simp [mergeO, merge_list_list, h2 hx hy]

-- ------------------------------------------------------------------ objects, key by key

/-- the object (or the propagating error) made of per-key results -/
def seqObj (ks : List String) (x : String → Option GValue) : Option GValue :=
  if ks.all (fun k => (x k).isSome) then some (.obj (ks.filterMap (fun k => (x k).map (fun v => (k, v))))) else none

theorem filterMap_of_some (ks : List String) (x : String → Option GValue) (xv : String → GValue)
    (h : ∀ k ∈ ks, x k = some (xv k)) :
    ks.filterMap (fun k => (x k).map (fun v => (k, v))) = ks.map (fun k => (k, xv k)) := by
  induction ks with
  | nil => rfl
  | cons k ks ih =>
    simp only [List.filterMap_cons, h k (by simp), Option.map_some, List.map_cons]
    rw [ih (fun k' hk' => h k' (by simp [hk']))]

theorem insertKV_keys_mem (f : GValue → GValue → GValue) (ks : List String) (v : String → GValue) (k : String) (w : GValue)
    (hk : k ∈ ks) :
    insertKV f (ks.map (fun k' => (k', v k'))) k w = ks.map (fun k' => (k', if k' = k then f (v k') w else v k')) := by
  unfold insertKV
  have : (ks.map (fun k' => (k', v k'))).any (fun p => decide (p.1 = k)) = true := by
    simp only [List.any_map, List.any_eq_true, Function.comp, decide_eq_true_eq]
    exact ⟨k, hk, rfl⟩
  rw [if_pos this, List.map_map]
  apply List.map_congr_left
  intro k' _
  by_cases e : k' = k <;> simp [e]

theorem snoc_ind {α} {P : List α → Prop} (h0 : P []) (h1 : ∀ l a, P l → P (l ++ [a])) (l : List α) : P l := by
  have : ∀ r : List α, P r.reverse := by
    intro r
    induction r with
    | nil => simpa
    | cons a r ih => rw [List.reverse_cons]; exact h1 _ _ ih
  simpa using this l.reverse

/-- folding `insert_value` over the entries of a second object: keys of the first object keep their
    place (merged when the second object has them too), new keys are appended in order -/
theorem foldl_insertKV_objs (f : GValue → GValue → GValue) (Ka : List String) (xv yv : String → GValue) (Kb : List String)
    (hb : Kb.Nodup) :
    (Kb.map (fun k => (k, yv k))).foldl (fun m p => insertKV f m p.1 p.2) (Ka.map (fun k => (k, xv k))) =
      Ka.map (fun k => (k, if k ∈ Kb then f (xv k) (yv k) else xv k)) ++
        (Kb.filter (fun k => decide (k ∉ Ka))).map (fun k => (k, yv k)) := by
  induction Kb using snoc_ind with
  | h0 => simp
  | h1 Kb k ih =>
    have hnd : Kb.Nodup ∧ k ∉ Kb := by
      rw [List.nodup_append] at hb
      exact ⟨hb.1, fun hm => hb.2.2 k hm k (by simp) rfl⟩
    rw [List.map_append, List.foldl_append, ih hnd.1]
    simp only [List.map_cons, List.map_nil, List.foldl_cons, List.foldl_nil]
    by_cases hka : k ∈ Ka
    · -- merged into the existing entry
      have hfil : (Kb ++ [k]).filter (fun k => decide (k ∉ Ka)) = Kb.filter (fun k => decide (k ∉ Ka)) := by
        simp [List.filter_append, hka]
      rw [hfil]
      unfold insertKV
      have hany : (Ka.map (fun k' => (k', if k' ∈ Kb then f (xv k') (yv k') else xv k')) ++
          (Kb.filter (fun k => decide (k ∉ Ka))).map (fun k => (k, yv k))).any (fun p => decide (p.1 = k)) = true := by
        simp only [List.any_append, List.any_map, Bool.or_eq_true, List.any_eq_true, Function.comp, decide_eq_true_eq]
        exact Or.inl ⟨k, hka, rfl⟩
      rw [if_pos hany, List.map_append, List.map_map, List.map_map]
      congr 1
      · apply List.map_congr_left
        intro k' _
        by_cases e : k' = k
        · subst e; simp [hnd.2]
        · simp [e]
      · apply List.map_congr_left
        intro k' hk'
        have : ¬ k' = k := by
          intro e; subst e
          exact hnd.2 (List.mem_filter.1 hk').1
        simp [this]
    · have hfil : (Kb ++ [k]).filter (fun k => decide (k ∉ Ka)) = Kb.filter (fun k => decide (k ∉ Ka)) ++ [k] := by
        simp [List.filter_append, hka]
      rw [hfil]
      unfold insertKV
      have hany : (Ka.map (fun k' => (k', if k' ∈ Kb then f (xv k') (yv k') else xv k')) ++
          (Kb.filter (fun k => decide (k ∉ Ka))).map (fun k => (k, yv k))).any (fun p => decide (p.1 = k)) = false := by
        rw [Bool.eq_false_iff]
        intro hc
        simp only [List.any_append, List.any_map, Bool.or_eq_true, List.any_eq_true, Function.comp, decide_eq_true_eq] at hc
        rcases hc with ⟨k', hk', e⟩ | ⟨k', hk', e⟩
        · subst e; exact hka hk'
        · subst e; exact hnd.2 (List.mem_filter.1 hk').1
      rw [hany]
      simp only [Bool.false_eq_true, if_false, List.map_append, List.map_cons, List.map_nil, List.append_assoc]
      congr 1
      apply List.map_congr_left
      intro k' hk'
      have : ¬ k' = k := by intro e; subst e; exact hka hk'
      simp [this]

theorem seqObj_merge (N : Nat) (Ka Kb : List String) (hb : Kb.Nodup) (x y z : String → Option GValue)
    (h1 : ∀ k ∈ Ka, k ∈ Kb → z k = mergeO N (x k) (y k))
    (h2 : ∀ k ∈ Ka, k ∉ Kb → z k = x k)
    (h3 : ∀ k ∈ Kb, k ∉ Ka → z k = y k) :
    seqObj (Ka ++ Kb.filter (fun k => decide (k ∉ Ka))) z = mergeO (N + 1) (seqObj Ka x) (seqObj Kb y) := by
  by_cases hx : ∀ k ∈ Ka, (x k).isSome = true
  · by_cases hy : ∀ k ∈ Kb, (y k).isSome = true
    · -- both objects exist
      have hxa : Ka.all (fun k => (x k).isSome) = true := by simpa [List.all_eq_true] using hx
      have hyb : Kb.all (fun k => (y k).isSome) = true := by simpa [List.all_eq_true] using hy
      let xv : String → GValue := fun k => (x k).getD .null
      let yv : String → GValue := fun k => (y k).getD .null
      have hxv : ∀ k ∈ Ka, x k = some (xv k) := by
        intro k hk; have := hx k hk; cases h : x k <;> simp_all [xv]
      have hyv : ∀ k ∈ Kb, y k = some (yv k) := by
        intro k hk; have := hy k hk; cases h : y k <;> simp_all [yv]
      let zv : String → GValue := fun k => if k ∈ Ka then (if k ∈ Kb then merge false N (xv k) (yv k) else xv k) else yv k
      have hzv : ∀ k ∈ Ka ++ Kb.filter (fun k => decide (k ∉ Ka)), z k = some (zv k) := by
        intro k hk
        simp only [List.mem_append, List.mem_filter, decide_eq_true_eq] at hk
        by_cases hka : k ∈ Ka
        · by_cases hkb : k ∈ Kb
          · rw [h1 k hka hkb, hxv k hka, hyv k hkb]; simp [mergeO, zv, hka, hkb]
          · rw [h2 k hka hkb, hxv k hka]; simp [zv, hka, hkb]
        · rcases hk with hk | hk
          · exact absurd hk hka
          · rw [h3 k hk.1 hka, hyv k hk.1]; simp [zv, hka]
      have hza : (Ka ++ Kb.filter (fun k => decide (k ∉ Ka))).all (fun k => (z k).isSome) = true := by
        rw [List.all_eq_true]; intro k hk; rw [hzv k hk]; rfl
      unfold seqObj
      rw [if_pos hxa, if_pos hyb, if_pos hza, filterMap_of_some _ x xv hxv, filterMap_of_some _ y yv hyv,
        filterMap_of_some _ z zv hzv]
      simp only [mergeO, merge_obj_obj, Option.some.injEq, GValue.obj.injEq]
      rw [foldl_insertKV_objs _ Ka xv yv Kb hb, List.map_append]
      congr 1
      · apply List.map_congr_left
        intro k hk
        simp [zv, hk]
      · apply List.map_congr_left
        intro k hk
        have := (List.mem_filter.1 hk).2
        simp only [decide_eq_true_eq] at this
        simp [zv, this]
    · -- the second object does not exist
      have hyb : Kb.all (fun k => (y k).isSome) = false := by
        rw [Bool.eq_false_iff]; intro hc; exact hy (by simpa [List.all_eq_true] using hc)
      have : ∃ k ∈ Kb, y k = none := by
        obtain ⟨k, hk, hn⟩ := List.all_eq_false.1 hyb
        exact ⟨k, hk, by cases h : y k <;> simp_all⟩
      obtain ⟨k, hk, hn⟩ := this
      have hzk : z k = none := by
        by_cases hka : k ∈ Ka
        · rw [h1 k hka hk, hn, mergeO_none_right]
        · rw [h3 k hk hka, hn]
      have hza : (Ka ++ Kb.filter (fun k => decide (k ∉ Ka))).all (fun k => (z k).isSome) = false := by
        rw [Bool.eq_false_iff]; intro hc
        rw [List.all_eq_true] at hc
        have hmem : k ∈ Ka ++ Kb.filter (fun k => decide (k ∉ Ka)) := by
          simp only [List.mem_append, List.mem_filter, decide_eq_true_eq]
          by_cases hka : k ∈ Ka
          · exact Or.inl hka
          · exact Or.inr ⟨hk, hka⟩
        have := hc k hmem
        rw [hzk] at this; simp at this
      unfold seqObj
      rw [hza, hyb]
      simp [mergeO_none_right]
  · have hxa : Ka.all (fun k => (x k).isSome) = false := by
      rw [Bool.eq_false_iff]; intro hc; exact hx (by simpa [List.all_eq_true] using hc)
    have : ∃ k ∈ Ka, x k = none := by
      obtain ⟨k, hk, hn⟩ := List.all_eq_false.1 hxa
      exact ⟨k, hk, by cases h : x k <;> simp_all⟩
    obtain ⟨k, hk, hn⟩ := this
    have hzk : z k = none := by
      by_cases hkb : k ∈ Kb
      · rw [h1 k hk hkb, hn, mergeO_none_left]
      · rw [h2 k hk hkb, hn]
    have hza : (Ka ++ Kb.filter (fun k => decide (k ∉ Ka))).all (fun k => (z k).isSome) = false := by
      rw [Bool.eq_false_iff]; intro hc
      rw [List.all_eq_true] at hc
      have := hc k (by simp [hk])
      rw [hzk] at this; simp at this
    unfold seqObj
    rw [hza, hxa]
    simp [mergeO_none_left]

/-- `mergeableKeys` as a proposition: at every selection set reached, no fragment name is spread twice,
    and the occurrences `o :: rest` of each response key name one existing field (or `__typename`) with
    one argument list, of list depth ≤ 3 when the key repeats; recursively for the merged sub-selections -/
def MKP (c : Model.ExecStatic.Ctx) : Nat → String → String → List Sel → Prop
  | 0, _, _, _ => True
  | fuel + 1, st, rt, sels =>
    (spreads c.d (fuel + 1) sels).Nodup ∧
    ∀ g ∈ AGV.Spec.Exec.group (Model.ExecStatic.collect c rt (fuel + 1) st sels), ∀ o rest, g.2 = o :: rest →
      (∀ o' ∈ rest, o'.name = o.name ∧ o'.args = o.args) ∧
      (o.name = "__typename" ∨ ∃ fd, c.S.field? rt o.name = some fd ∧ (rest = [] ∨ listDepth fd.ty ≤ 3) ∧
        ∀ ty ∈ c.S.possibleTypes fd.ty.base, MKP c fuel fd.ty.base ty ((o :: rest).map (·.sels)).flatten)

theorem mkp_of_mergeableKeys (c : Model.ExecStatic.Ctx) :
    ∀ (fuel : Nat) (st rt : String) (sels : List Sel), mergeableKeys c fuel st rt sels = true → MKP c fuel st rt sels := by
  intro fuel
  induction fuel with
  | zero => intro st rt sels _; trivial
  | succ fuel ih =>
    intro st rt sels h
    simp only [mergeableKeys, Bool.and_eq_true, decide_eq_true_eq, List.all_eq_true] at h
    refine ⟨h.1, ?_⟩
    intro g hg o rest hgo
    have hg' := h.2 g hg
    rw [hgo] at hg'
    simp only [Bool.and_eq_true, List.all_eq_true, decide_eq_true_eq, Bool.or_eq_true] at hg'
    refine ⟨fun o' ho' => ⟨(hg'.1 o' ho').1, argsSame_eq _ _ (hg'.1 o' ho').2⟩, ?_⟩
    rcases hg'.2 with ht | hf
    · exact Or.inl ht
    · right
      cases hfd : c.S.field? rt o.name with
      | none => rw [hfd] at hf; simp at hf
      | some fd =>
        rw [hfd] at hf
        simp only [Bool.and_eq_true, Bool.or_eq_true, List.isEmpty_iff, decide_eq_true_eq, List.all_eq_true] at hf
        exact ⟨fd, rfl, hf.1, fun ty hty => ih _ _ _ (hf.2 ty hty)⟩

theorem spreads_append (d : Doc) (fuel : Nat) (a b : List Sel) :
    spreads d fuel (a ++ b) = spreads d fuel a ++ spreads d fuel b := by
  cases fuel with
  | zero => simp [spreads]
  | succ fuel => simp [spreads]

theorem selsInert_append (vars : List (String × GValue)) (a b : List Sel) :
    selsInert vars (a ++ b) = (selsInert vars a && selsInert vars b) := by
  induction a with
  | nil => simp [selsInert]
  | cons x xs ih => simp [selsInert, ih, Bool.and_assoc]

theorem selsInert_flatten (vars : List (String × GValue)) (ls : List (List Sel)) (h : ∀ l ∈ ls, selsInert vars l = true) :
    selsInert vars ls.flatten = true := by
  induction ls with
  | nil => simp [selsInert]
  | cons l ls ih =>
    rw [List.flatten_cons, selsInert_append, h l (by simp), ih (fun l' hl' => h l' (by simp [hl']))]
    rfl

/-- membership in `group`, by key -/
theorem mem_group (occs : List FieldOcc) (g : String × List FieldOcc) :
    g ∈ group occs ↔ g.1 ∈ occs.map (·.key) ∧ g.2 = occs.filter (fun o => decide (o.key = g.1)) := by
  rw [group_char]
  simp only [List.mem_map, mem_dedup]
  constructor
  · rintro ⟨k, ⟨o, ho, rfl⟩, rfl⟩
    exact ⟨⟨o, ho, rfl⟩, rfl⟩
  · rintro ⟨⟨o, ho, e⟩, h2⟩
    refine ⟨g.1, ⟨o, ho, e⟩, ?_⟩
    rw [← h2]

theorem filter_key_ne_nil (occs : List FieldOcc) (k : String) (h : k ∈ occs.map (·.key)) :
    occs.filter (fun o => decide (o.key = k)) ≠ [] := by
  simp only [List.mem_map] at h
  obtain ⟨o, ho, e⟩ := h
  intro hc
  rw [List.filter_eq_nil_iff] at hc
  exact hc o ho (by simpa using e)

/-- mergeability of a union of selection sets gives mergeability of the parts -/
theorem mkp_split (c : Model.ExecStatic.Ctx) :
    ∀ (fuel : Nat) (st rt : String) (a b : List Sel), MKP c fuel st rt (a ++ b) → MKP c fuel st rt a ∧ MKP c fuel st rt b := by
  intro fuel
  induction fuel with
  | zero => intro st rt a b _; exact ⟨trivial, trivial⟩
  | succ fuel ih =>
    intro st rt a b h
    obtain ⟨hsp, hg⟩ := h
    rw [spreads_append, List.nodup_append] at hsp
    rw [collect_append] at hg
    -- the merged group of a key
    have key : ∀ k, k ∈ (Model.ExecStatic.collect c rt (fuel + 1) st a ++ Model.ExecStatic.collect c rt (fuel + 1) st b).map (·.key) →
        ∀ o rest, (Model.ExecStatic.collect c rt (fuel + 1) st a).filter (fun o => decide (o.key = k)) ++
          (Model.ExecStatic.collect c rt (fuel + 1) st b).filter (fun o => decide (o.key = k)) = o :: rest → _ :=
      fun k hk o rest hgo => hg (k, _) ((mem_group _ _).2 ⟨hk, by simp [List.filter_append]⟩) o rest hgo
    refine ⟨⟨hsp.1, ?_⟩, ⟨hsp.2.1, ?_⟩⟩
    · intro g hgm o rest hgo
      obtain ⟨hk, hg2⟩ := (mem_group _ _).1 hgm
      rw [hgo] at hg2
      have := key g.1 (by simp only [List.map_append, List.mem_append]; exact Or.inl hk) o
        (rest ++ (Model.ExecStatic.collect c rt (fuel + 1) st b).filter (fun o => decide (o.key = g.1)))
        (by rw [← hg2]; rfl)
      obtain ⟨h1, h2⟩ := this
      refine ⟨fun o' ho' => h1 o' (by simp [ho']), ?_⟩
      rcases h2 with ht | ⟨fd, hfd, hld, hrec⟩
      · exact Or.inl ht
      · refine Or.inr ⟨fd, hfd, ?_, ?_⟩
        · rcases hld with he | hl
          · left
            have := congrArg List.length he
            simp only [List.length_append, List.length_nil] at this
            exact List.eq_nil_of_length_eq_zero (by omega)
          · exact Or.inr hl
        · intro ty hty
          have := hrec ty hty
          rw [← List.cons_append, List.map_append, List.flatten_append] at this
          exact (ih _ _ _ _ this).1
    · intro g hgm ob restb hgo
      obtain ⟨hk, hg2⟩ := (mem_group _ _).1 hgm
      rw [hgo] at hg2
      cases hfa : (Model.ExecStatic.collect c rt (fuel + 1) st a).filter (fun o => decide (o.key = g.1)) with
      | nil =>
        have := key g.1 (by simp only [List.map_append, List.mem_append]; exact Or.inr hk) ob restb
          (by rw [hfa, ← hg2]; rfl)
        exact this
      | cons oa resta =>
        have := key g.1 (by simp only [List.map_append, List.mem_append]; exact Or.inr hk) oa (resta ++ ob :: restb)
          (by rw [hfa, ← hg2]; rfl)
        obtain ⟨h1, h2⟩ := this
        have hob := h1 ob (by simp)
        refine ⟨fun o' ho' => ?_, ?_⟩
        · have := h1 o' (by simp [ho'])
          exact ⟨this.1.trans hob.1.symm, this.2.trans hob.2.symm⟩
        · rcases h2 with ht | ⟨fd, hfd, hld, hrec⟩
          · exact Or.inl (hob.1.trans ht)
          · refine Or.inr ⟨fd, by rw [hob.1]; exact hfd, ?_, ?_⟩
            · rcases hld with he | hl
              · simp at he
              · exact Or.inr hl
            · intro ty hty
              have := hrec ty hty
              rw [← List.cons_append, List.map_append, List.flatten_append] at this
              exact (ih _ _ _ _ this).2

theorem mkp_flatten_mem (c : Model.ExecStatic.Ctx) (fuel : Nat) (st rt : String) (ls : List (List Sel))
    (h : MKP c fuel st rt ls.flatten) : ∀ l ∈ ls, MKP c fuel st rt l := by
  induction ls with
  | nil => intro l hl; simp at hl
  | cons x xs ih =>
    intro l hl
    rw [List.flatten_cons] at h
    obtain ⟨h1, h2⟩ := mkp_split c fuel st rt _ _ h
    simp only [List.mem_cons] at hl
    rcases hl with rfl | hl
    · exact h1
    · exact ih h2 l hl

-- ------------------------------------------------------------------ CompleteValue on a union of selection sets

theorem lstVal_map (rs : List Res) :
    lstVal (rs.map (·.val)) = if rs.all (·.val.isSome) then some (.list (rs.filterMap (·.val))) else some .null := by
  simp [lstVal, List.all_map, List.filterMap_map, Function.comp_def]

theorem complete_list_val (S : Schema) (rec : String → Nat → List Sel → List PathSeg → Res) (t : TypeRef)
    (xs : List RVal) (ss : List Sel) (path : List PathSeg) (pos : Pos) :
    (complete S rec (.list t) (.list xs) ss path pos).val =
      lstVal (mapIdx (fun i x => (complete S rec t x ss (path ++ [.idx i]) pos).val) xs 0) := by
  rw [← mapIdx_map (fun r : Res => r.val), lstVal_map]
  simp only [complete]
  cases h : (mapIdx (fun i x => complete S rec t x ss (path ++ [PathSeg.idx i]) pos) xs 0).all (·.val.isSome) <;> simp

theorem serializeLeaf_scalar (S : Schema) (n : String) (v v' : GValue) (h : serializeLeaf S n v = some v') :
    isScalar v' = true := by
  unfold serializeLeaf at h
  repeat' (split at h)
  all_goals first | (simp at h; done) | (simp at h; subst h; rfl)

theorem rel_null (N : Nat) : Rel N (some .null) (some .null) (some .null) := rel_same_scalar N .null rfl

/-- CompleteValue for one resolver result against the union `A ++ B` of two selection sets is the
    `merge_value` of the completions against `A` and against `B`, provided the executor for object
    values (`rec`) has that property on `A`, `B` for the possible types -/
theorem complete_merge (S : Schema) (rec : String → Nat → List Sel → List PathSeg → Res) (A B : List Sel) (Nb : Nat)
    (n : String)
    (hobj : ∀ ty id p v, (rec ty id A p).val = some v → (∃ o, v = GValue.obj o) ∧ 1 ≤ Nb)
    (hnn : ∀ ty id p, (rec ty id B p).val ≠ some .null)
    (hmerge : ∀ ty ∈ S.possibleTypes n, ∀ id p N, Nb ≤ N →
      (rec ty id (A ++ B) p).val = mergeO N (rec ty id A p).val (rec ty id B p).val) :
    ∀ (t : TypeRef), t.base = n → ∀ (rv : RVal) (path : List PathSeg) (pa pb pab : Pos) (N : Nat), Nb + listDepth t ≤ N →
      Rel N (complete S rec t rv A path pa).val (complete S rec t rv B path pb).val
        (complete S rec t rv (A ++ B) path pab).val := by
  intro t
  induction t with
  | named m =>
    intro hm rv path pa pb pab N hN
    simp only [TypeRef.base] at hm
    subst hm
    cases rv with
    | null => simpa [complete] using rel_null N
    | fail e => simpa [complete] using rel_null N
    | list xs => simpa [complete] using rel_null N
    | arg a => simpa [complete] using rel_null N
    | leaf v =>
      simp only [complete]
      split
      · exact rel_null N
      · cases hs : serializeLeaf S m v with
        | none => exact rel_null N
        | some v' => exact rel_same_scalar N v' (serializeLeaf_scalar S m v v' hs)
    | obj ty id =>
      simp only [complete]
      by_cases hp : (S.possibleTypes m).contains ty = true
      · simp only [hp, if_true]
        have hty : ty ∈ S.possibleTypes m := by simpa using hp
        have hm' := hmerge ty hty id path N (by simp only [listDepth] at hN; omega)
        have ho := hobj ty id path
        have hn := hnn ty id path
        cases ha : (rec ty id A path).val with
        | none =>
          rw [ha, mergeO_none_left] at hm'
          rw [hm']
          cases hb : (rec ty id B path).val with
          | none => exact rel_null N
          | some vb => exact ⟨by simp [mergeO, merge_null_left], fun _ => Or.inr rfl⟩
        | some va =>
          obtain ⟨⟨o, rfl⟩, hN1⟩ := ho _ ha
          cases hb : (rec ty id B path).val with
          | none =>
            rw [ha, hb] at hm'
            rw [hm']
            dsimp only
            refine ⟨?_, fun _ => Or.inr rfl⟩
            obtain ⟨N', rfl⟩ : ∃ N', N = N' + 1 := ⟨N - 1, by simp only [listDepth] at hN; omega⟩
            simp [mergeO, merge_obj_null]
          | some vb =>
            rw [ha, hb] at hm'
            rw [hm']
            dsimp only [mergeO]
            refine ⟨rfl, fun hc => ?_⟩
            simp only [Option.some.injEq] at hc
            subst hc
            exact absurd hb hn
      · simp only [hp, Bool.false_eq_true, if_false]
        exact rel_null N
  | list t ih =>
    intro hb rv path pa pb pab N hN
    simp only [TypeRef.base] at hb
    cases rv with
    | null => simpa [complete] using rel_null N
    | fail e => simpa [complete] using rel_null N
    | obj ty id => simpa [complete] using rel_null N
    | arg a => simpa [complete] using rel_null N
    | leaf v => simpa [complete] using rel_null N
    | list xs =>
      rw [complete_list_val, complete_list_val, complete_list_val]
      obtain ⟨N', rfl⟩ : ∃ N', N = N' + 1 := ⟨N - 1, by simp only [listDepth] at hN; omega⟩
      apply lstVal_rel
      apply mapIdx_rel3
      intro i x _
      exact ih hb x _ pa pb pab N' (by simp only [listDepth] at hN; omega)
  | nonNull t ih =>
    intro hb rv path pa pb pab N hN
    simp only [TypeRef.base] at hb
    by_cases hrv : rv = .null
    · subst hrv
      simpa [complete] using rel_none N
    · obtain ⟨hz, hz2⟩ := ih hb rv path pa pb pab N (by simp only [listDepth] at hN; omega)
      obtain ⟨a1, a2⟩ := complete_nonNull_val S rec t rv A path pa hrv
      obtain ⟨b1, b2⟩ := complete_nonNull_val S rec t rv B path pb hrv
      obtain ⟨c1, c2⟩ := complete_nonNull_val S rec t rv (A ++ B) path pab hrv
      have nnNoNull : ∀ (ss : List Sel) (p : Pos), (complete S rec (.nonNull t) rv ss path p).val ≠ some .null := by
        intro ss p hc
        obtain ⟨d1, d2⟩ := complete_nonNull_val S rec t rv ss path p hrv
        by_cases hnull : (complete S rec t rv ss path p).val = some .null
        · rw [d1 hnull] at hc; simp at hc
        · rw [d2 hnull] at hc; exact hnull hc
      refine ⟨?_, fun hc => absurd hc (nnNoNull B pb)⟩
      cases hx : (complete S rec t rv A path pa).val with
      | none =>
        rw [hx, mergeO_none_left] at hz
        rw [a2 (by simp [hx]), c2 (by simp [hz]), hx, hz, mergeO_none_left]
      | some va =>
        by_cases hva : va = .null
        · subst hva
          rw [a1 hx, mergeO_none_left]
          cases hy : (complete S rec t rv B path pb).val with
          | none => rw [hx, hy, mergeO_none_right] at hz; rw [c2 (by simp [hz]), hz]
          | some vb =>
            rw [hx, hy] at hz
            simp only [mergeO, merge_null_left] at hz
            exact c1 hz
        · rw [a2 (by simp [hx, hva]), hx]
          cases hy : (complete S rec t rv B path pb).val with
          | none => rw [hx, hy, mergeO_none_right] at hz; rw [b2 (by simp [hy]), hy, c2 (by simp [hz]), hz, mergeO_none_right]
          | some vb =>
            by_cases hvb : vb = .null
            · subst hvb
              rw [b1 hy, mergeO_none_right]
              rcases hz2 hy with h | h
              · rw [c2 (by simp [h]), h]
              · exact c1 h
            · rw [b2 (by simp [hy, hvb]), hy]
              rw [hx, hy] at hz
              have hne : merge false N va vb ≠ .null := merge_ne_null _ _ _ _ hva hvb
              rw [c2 (by rw [hz]; simpa [mergeO] using hne), hz]

end AGV.Lemmas.ExecStaticMerge
