/-
  IEEE-754 binary64 as bit patterns, with exact (big-number) rounding — used by C13 for the value
  a FloatValue token denotes and for the arithmetic serde_json performs on it.  Core-only.

  A non-negative finite double is `bits < infBits`; `roundBits n d` is the double nearest to the
  rational `n / d` (`d > 0`), ties to even, `infBits` on overflow.
-/
namespace AGV.F64

def infBits : Nat := 0x7FF0000000000000
def signBit : Nat := 0x8000000000000000
def two52 : Nat := 0x10000000000000

/-- `⌊log2 (n / d)⌋` for `n, d > 0` -/
def floorLog2Ratio (n d : Nat) : Int :=
  let e0 : Int := (Nat.log2 n : Int) - (Nat.log2 d : Int)
  -- n/d ∈ [2^(e0-1), 2^(e0+1))
  let ge : Bool := if e0 ≥ 0 then n ≥ d * 2 ^ e0.toNat else n * 2 ^ (-e0).toNat ≥ d
  if ge then e0 else e0 - 1

/-- nearest double to `n / d`, ties to even (bit pattern of a non-negative double, or `infBits`) -/
def roundBits (n d : Nat) : Nat :=
  if n = 0 || d = 0 then 0
  else
    let e := floorLog2Ratio n d
    let E : Int := if e < -1022 then -1022 else e
    let q : Int := E - 52
    let num := if q ≥ 0 then n else n * 2 ^ (-q).toNat
    let den := if q ≥ 0 then d * 2 ^ q.toNat else d
    let k := num / den
    let r := num % den
    let k := if 2 * r > den || (2 * r = den && k % 2 = 1) then k + 1 else k
    let bits := (E + 1022).toNat * two52 + k
    if bits ≥ infBits then infBits else bits

/-- the value of a finite non-negative double as `(numerator, denominator)` -/
def toRat (b : Nat) : Nat × Nat :=
  let ex := b / two52
  let fr := b % two52
  if ex = 0 then (fr, 2 ^ 1074)
  else if ex ≥ 1075 then ((two52 + fr) * 2 ^ (ex - 1075), 1)
  else (two52 + fr, 2 ^ (1075 - ex))

/-- correctly rounded product / quotient of two finite non-negative doubles -/
def mul (a b : Nat) : Nat :=
  let (n1, d1) := toRat a
  let (n2, d2) := toRat b
  roundBits (n1 * n2) (d1 * d2)

def div (a b : Nat) : Nat :=
  let (n1, d1) := toRat a
  let (n2, d2) := toRat b
  roundBits (n1 * d2) (d1 * n2)

def ofNat (n : Nat) : Nat := roundBits n 1

/-- the double nearest to `m · 10^e` -/
def ofDecimal (m : Nat) (e : Int) : Nat :=
  if e ≥ 0 then roundBits (m * 10 ^ e.toNat) 1 else roundBits m (10 ^ (-e).toNat)

def neg (b : Nat) : Nat := b + signBit

end AGV.F64
