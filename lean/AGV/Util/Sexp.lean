/-
  S-expression wire format shared by the Rust harness and the Lean drivers.
  One case per line.  Import-free (core only) so drivers link as `lean_exe`.

  Grammar:  sexp := atom | string | '(' sexp* ')'
    atom    bare token without whitespace, parens or double quotes
    string  "…" with escapes  \\ \" \n \r \t \u{HEX}; the printer escapes everything
            outside 0x20..0x7E, so a printed line never contains a raw line break.
-/
namespace AGV

inductive Sexp where
  | atom (s : String)
  | str (cs : List Char)
  | list (xs : List Sexp)
  deriving Repr, Inhabited, BEq

namespace Sexp

def hexDigit (n : Nat) : Char :=
  if n < 10 then Char.ofNat (48 + n) else Char.ofNat (87 + n)

partial def toHex (n : Nat) : List Char :=
  if n < 16 then [hexDigit n] else toHex (n / 16) ++ [hexDigit (n % 16)]

def escapeChar (c : Char) : List Char :=
  if c = '\\' then ['\\', '\\']
  else if c = '"' then ['\\', '"']
  else if c = '\n' then ['\\', 'n']
  else if c = '\r' then ['\\', 'r']
  else if c = '\t' then ['\\', 't']
  else if c.toNat ≥ 0x20 ∧ c.toNat ≤ 0x7E then [c]
  else ['\\', 'u', '{'] ++ toHex c.toNat ++ ['}']

def quote (cs : List Char) : String :=
  String.ofList (['"'] ++ (cs.map escapeChar).flatten ++ ['"'])

partial def render : Sexp → String
  | .atom s => s
  | .str cs => quote cs
  | .list xs => "(" ++ " ".intercalate (xs.map render) ++ ")"

instance : ToString Sexp := ⟨render⟩

inductive Tok where
  | lp | rp
  | atom (s : String)
  | str (cs : List Char)
  deriving Repr, Inhabited

def hexVal (c : Char) : Option Nat :=
  if '0' ≤ c ∧ c ≤ '9' then some (c.toNat - 48)
  else if 'a' ≤ c ∧ c ≤ 'f' then some (c.toNat - 87)
  else if 'A' ≤ c ∧ c ≤ 'F' then some (c.toNat - 55)
  else none

/-- reads the inside of a quoted string; returns the decoded chars and the rest after the closing quote -/
partial def lexStr (acc : List Char) : List Char → Option (List Char × List Char)
  | [] => none
  | '"' :: rest => some (acc.reverse, rest)
  | '\\' :: 'n' :: rest => lexStr ('\n' :: acc) rest
  | '\\' :: 'r' :: rest => lexStr ('\r' :: acc) rest
  | '\\' :: 't' :: rest => lexStr ('\t' :: acc) rest
  | '\\' :: '\\' :: rest => lexStr ('\\' :: acc) rest
  | '\\' :: '"' :: rest => lexStr ('"' :: acc) rest
  | '\\' :: 'u' :: '{' :: rest =>
      let rec go (n : Nat) : List Char → Option (Nat × List Char)
        | '}' :: r => some (n, r)
        | c :: r => match hexVal c with
          | some d => go (n * 16 + d) r
          | none => none
        | [] => none
      match go 0 rest with
      | some (n, r) => lexStr (Char.ofNat n :: acc) r
      | none => none
  | '\\' :: _ => none
  | c :: rest => lexStr (c :: acc) rest

def isDelim (c : Char) : Bool := c = ' ' ∨ c = '(' ∨ c = ')' ∨ c = '"' ∨ c = '\n' ∨ c = '\r' ∨ c = '\t'

partial def lex (acc : List Tok) : List Char → Option (List Tok)
  | [] => some acc.reverse
  | '(' :: r => lex (.lp :: acc) r
  | ')' :: r => lex (.rp :: acc) r
  | '"' :: r => match lexStr [] r with
    | some (cs, r') => lex (.str cs :: acc) r'
    | none => none
  | c :: r =>
    if c = ' ' ∨ c = '\n' ∨ c = '\r' ∨ c = '\t' then lex acc r
    else
      let a := (c :: r).takeWhile (fun x => !isDelim x)
      lex (.atom (String.ofList a) :: acc) ((c :: r).dropWhile (fun x => !isDelim x))

/-- stack-based reader: `stack` holds the partially read enclosing lists (innermost first) -/
partial def build (stack : List (List Sexp)) (cur : List Sexp) : List Tok → Option (List Sexp)
  | [] => match stack with
    | [] => some cur.reverse
    | _ => none
  | .lp :: r => build (cur :: stack) [] r
  | .rp :: r => match stack with
    | [] => none
    | up :: st => build st (.list cur.reverse :: up) r
  | .atom s :: r => build stack (.atom s :: cur) r
  | .str cs :: r => build stack (.str cs :: cur) r

/-- parse one line holding exactly one S-expression -/
def parse (line : String) : Option Sexp :=
  match lex [] line.toList with
  | none => none
  | some toks => match build [] [] toks with
    | some [x] => some x
    | _ => none

/-- parse a line holding zero or more S-expressions -/
def parseMany (line : String) : Option (List Sexp) :=
  match lex [] line.toList with
  | none => none
  | some toks => build [] [] toks

-- accessors used by the drivers
def asNat? : Sexp → Option Nat
  | .atom s => s.toNat?
  | _ => none

def asInt? : Sexp → Option Int
  | .atom s => s.toInt?
  | _ => none

def asStr? : Sexp → Option (List Char)
  | .str cs => some cs
  | _ => none

def asAtom? : Sexp → Option String
  | .atom s => some s
  | _ => none

def asList? : Sexp → Option (List Sexp)
  | .list xs => some xs
  | _ => none

def ofNat (n : Nat) : Sexp := .atom (toString n)
def ofInt (n : Int) : Sexp := .atom (toString n)
def ofBool (b : Bool) : Sexp := .atom (if b then "true" else "false")
def ofString (s : String) : Sexp := .str s.toList

end Sexp
end AGV
