/-
  Decimal digits of naturals and integers as `List Char`, the inverse reading, and the lemmas
  that make them a round trip.  Import-free (core only): usable from Model/Spec/Drive files.

  `natDigits n` is what Rust's `itoa`/`Display for u64` prints, `intDigits i` what they print
  for signed integers (`-` followed by the digits of the magnitude).  Reusable (C15, C32, …):

    parseNat_natDigits      parseNat (natDigits n) = n
    parseInt_intDigits      parseInt (intDigits i) = i
    natDigits_all_digit     every character of natDigits n is an ASCII digit
    natDigits_ne_nil        natDigits n ≠ []
    natDigits_head_ne_zero  0 < n → the first digit is not '0'   (no leading zeros)
    natDigits_zero          natDigits 0 = ['0']
    natDigits_inj / intDigits_inj   printing is injective
-/
namespace AGV.Digits

def digitChar (d : Nat) : Char := Char.ofNat (48 + d)

def isDigit (c : Char) : Bool := 48 ≤ c.toNat && c.toNat ≤ 57

def digitVal (c : Char) : Nat := c.toNat - 48

/-- decimal digits, most significant first, no leading zero (`0` ↦ "0") -/
def natDigits (n : Nat) : List Char :=
  if n < 10 then [digitChar n] else natDigits (n / 10) ++ [digitChar (n % 10)]
decreasing_by omega

/-- value of a digit string (Horner); total: non-digits are read through `digitVal` -/
def parseNat (cs : List Char) : Nat := cs.foldl (fun a c => a * 10 + digitVal c) 0

def intDigits (i : Int) : List Char :=
  if i < 0 then '-' :: natDigits i.natAbs else natDigits i.toNat

def parseInt : List Char → Int
  | '-' :: ds => - (parseNat ds : Int)
  | ds => (parseNat ds : Int)

-- ------------------------------------------------------------------ digit characters

theorem digitChar_toNat : ∀ d, d < 10 → (digitChar d).toNat = 48 + d := by decide

theorem digitVal_digitChar (d : Nat) (h : d < 10) : digitVal (digitChar d) = d := by
  simp [digitVal, digitChar_toNat d h]

theorem isDigit_digitChar (d : Nat) (h : d < 10) : isDigit (digitChar d) = true := by
  simp [isDigit, digitChar_toNat d h]; omega

theorem digitChar_ne_zero : ∀ d, d < 10 → 0 < d → digitChar d ≠ '0' := by decide

theorem digitChar_ne_minus : ∀ d, d < 10 → digitChar d ≠ '-' := by decide

theorem digitChar_zero : digitChar 0 = '0' := by decide

-- ------------------------------------------------------------------ natDigits

theorem natDigits_zero : natDigits 0 = ['0'] := by
  rw [natDigits]; simp [digitChar_zero]

theorem natDigits_ne_nil (n : Nat) : natDigits n ≠ [] := by
  rw [natDigits]; split <;> simp

theorem natDigits_all_digit (n : Nat) : ∀ c ∈ natDigits n, isDigit c = true := by
  fun_induction natDigits n with
  | case1 n h => intro c hc; simp at hc; subst hc; exact isDigit_digitChar n h
  | case2 n h ih =>
    intro c hc
    simp at hc
    rcases hc with hc | hc
    · exact ih c hc
    · subst hc; exact isDigit_digitChar _ (Nat.mod_lt _ (by decide))

theorem natDigits_head_ne_zero (n : Nat) (hn : 0 < n) :
    ∃ c r, natDigits n = c :: r ∧ c ≠ '0' := by
  fun_induction natDigits n with
  | case1 n h => exact ⟨digitChar n, [], rfl, digitChar_ne_zero n h hn⟩
  | case2 n h ih =>
    obtain ⟨c, r, e, hc⟩ := ih (by omega)
    exact ⟨c, r ++ [digitChar (n % 10)], by simp [e], hc⟩

theorem parseNat_append_single (cs : List Char) (c : Char) :
    parseNat (cs ++ [c]) = parseNat cs * 10 + digitVal c := by
  simp [parseNat, List.foldl_append]

theorem parseNat_natDigits (n : Nat) : parseNat (natDigits n) = n := by
  fun_induction natDigits n with
  | case1 n h => simp [parseNat, digitVal_digitChar n h]
  | case2 n h ih =>
    rw [parseNat_append_single, ih, digitVal_digitChar _ (Nat.mod_lt _ (by decide))]
    omega

theorem natDigits_inj {a b : Nat} (h : natDigits a = natDigits b) : a = b := by
  rw [← parseNat_natDigits a, h, parseNat_natDigits]

/-- the digits never start with a minus sign -/
theorem natDigits_head_ne_minus (n : Nat) : ∃ c r, natDigits n = c :: r ∧ c ≠ '-' ∧ isDigit c = true := by
  cases h : natDigits n with
  | nil => exact absurd h (natDigits_ne_nil n)
  | cons c r =>
    have hd := natDigits_all_digit n c (by simp [h])
    refine ⟨c, r, rfl, ?_, hd⟩
    intro e; subst e; revert hd; decide

-- ------------------------------------------------------------------ integers

theorem parseInt_intDigits (i : Int) : parseInt (intDigits i) = i := by
  unfold intDigits
  split
  · simp [parseInt, parseNat_natDigits]; omega
  · obtain ⟨c, r, e, hc, _⟩ := natDigits_head_ne_minus i.toNat
    have : parseInt (natDigits i.toNat) = (parseNat (natDigits i.toNat) : Int) := by
      rw [e]; unfold parseInt; split
      · rename_i h; simp at h; exact absurd h.1 hc
      · rfl
    rw [this, parseNat_natDigits]; omega

theorem intDigits_inj {a b : Int} (h : intDigits a = intDigits b) : a = b := by
  rw [← parseInt_intDigits a, h, parseInt_intDigits]

end AGV.Digits
