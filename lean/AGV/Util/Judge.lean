/-
  Generic driver loop.  A property driver supplies

     judge : (known : List String) → (case : String) → (impl : String) → JudgeOut

  and `runJudge` reads  <cases file> <impl output file> <comma separated known-finding ids>,
  printing one verdict line per case:

     OK                     implementation output = model output and satisfies the spec
     KNOWN:<id>             implementation output = model under the listed defect toggle <id>
                            and differs from the spec (a listed finding manifests)
     TIE \t model \t spec   implementation output satisfies the spec/oracle but differs from the
                            model (the correspondence is broken, the property is not)
     VIOL \t model \t spec  implementation output violates the spec/oracle on this case
-/
namespace AGV

structure JudgeOut where
  verdict : String
  model : String := ""
  spec : String := ""

def JudgeOut.ok : JudgeOut := { verdict := "OK" }
def JudgeOut.known (id : String) (m s : String := "") : JudgeOut := { verdict := "KNOWN:" ++ id, model := m, spec := s }
def JudgeOut.tie (m s : String) : JudgeOut := { verdict := "TIE", model := m, spec := s }
def JudgeOut.viol (m s : String) : JudgeOut := { verdict := "VIOL", model := m, spec := s }

/-- The common triage when the model is a function of the case, indexed by the set of enabled
    defect toggles, and the spec is the model with no toggle:
    `outputs known` must list `(id, model output with exactly the toggles in ids…)`.
    * `spec`  : output required by the property
    * `modelK`: output of the model with all KNOWN toggles on
    * `attrib`: for each known id, output of the model with all KNOWN toggles on
                *except* that id (used to attribute a deviation to a finding)
    * `knownIds`: the ids of this property's toggles that are currently enabled (optional;
                used when only a combination of listed defects explains the deviation). -/
def triage (impl spec modelK : String) (attrib : List (String × String)) (knownIds : List String := []) : JudgeOut :=
  if impl = spec then
    if modelK = spec then .ok
    else
      -- a listed defect no longer manifests on this input (repaired): not an alarm
      { verdict := "OK", model := modelK, spec := spec }
  else if impl = modelK then
    -- deviation from the spec explained by listed findings: name the first toggle whose
    -- removal changes the model output on this case
    match attrib.find? (fun p => p.2 ≠ modelK) with
    | some (id, _) => .known id modelK spec
    | none =>
      -- several listed defects act together (removing any single one leaves the output
      -- unchanged): the deviation is still exactly the one the listed findings produce
      match knownIds with
      | id :: _ => .known id modelK spec
      | [] => .viol modelK spec
  else .viol modelK spec

def splitCsv (s : String) : List String :=
  (s.splitOn ",").filter (· ≠ "")

def runJudge (judge : List String → String → String → JudgeOut) (args : List String) : IO UInt32 := do
  match args with
  | casesPath :: implPath :: rest =>
    let known := match rest with
      | k :: _ => splitCsv k
      | [] => []
    let cases ← IO.FS.lines casesPath
    let impls ← IO.FS.lines implPath
    if cases.size ≠ impls.size then
      IO.eprintln s!"line count mismatch: {cases.size} cases, {impls.size} impl outputs"
      return 2
    let out ← IO.getStdout
    for i in [0:cases.size] do
      let r := judge known cases[i]! impls[i]!
      if r.verdict = "OK" then out.putStrLn "OK"
      else out.putStrLn (r.verdict ++ "\t" ++ r.model ++ "\t" ++ r.spec)
    return 0
  | _ =>
    IO.eprintln "usage: drv <cases> <impl.out> [known,ids]"
    return 2

end AGV
