import AGV.Props.C03
#print axioms AGV.Props.C03.c03_nullable_absorbs
#print axioms AGV.Props.C03.c03_resolver_error_once
#print axioms AGV.Props.C03.c03_list_item_isolation
#print axioms AGV.Props.C03.c03_nonnull_propagates_with_error
#print axioms AGV.Props.C03.c03_resolver_error_witness
#print axioms AGV.Props.C03.c03_list_path_witness
#print axioms AGV.Props.C03.c03_iface_path_witness
#print axioms AGV.Props.C03.c03_repeated_key_error_witness
#print axioms AGV.Props.C03.c03_full_needs_validity
#print axioms AGV.Props.C03.c03_repeated_key_error_repaired_example
#print axioms AGV.Props.C03.c03_partial_nodup
#print axioms AGV.Props.C03.c03_partial_nodup_example
#print axioms AGV.Props.C03.c03_mergeable_full_refuted
#print axioms AGV.Props.C03.c03_spec_errors_monotone
#print axioms AGV.Props.C03.c03_mergeable_paths_partial
#print axioms AGV.Props.C03.c03_mergeable_paths_example
#print axioms AGV.Props.C03.c03_fuelbound_full_refuted
