import AGV.Props.C07
#print axioms AGV.Props.C07.c07_int_table_complete
#print axioms AGV.Props.C07.c07_accept
#print axioms AGV.Props.C07.c07_reject_is_error
#print axioms AGV.Props.C07.c07_roundtrip
#print axioms AGV.Props.C07.c07_refines_spec
#print axioms AGV.Props.C07.c07_roundtrip_all
#print axioms AGV.Props.C07.c07_isvalid_complete
#print axioms AGV.Props.C07.c07_f64_accept
#print axioms AGV.Props.C07.c07_float_partial
#print axioms AGV.Props.C07.c07_nonfinite_not_roundtrip
#print axioms AGV.Props.C07.c07_id_large_uint_rejected
#print axioms AGV.Props.C07.c07_nonzero_unsigned_isvalid_rejects_domain
#print axioms AGV.Props.C07.c07_schema_accept
#print axioms AGV.Props.C07.c07_schema_reject
#print axioms AGV.Props.C07.c07_schema_pinned_exact
#print axioms AGV.Props.C07.c07_schema_first_registered_refuses_u64
#print axioms AGV.Props.C07.c07_schema_first_registered_refuses_i32
