import AGV.Props.C30
#print axioms AGV.Props.C30.c30_nesting_chain
#print axioms AGV.Props.C30.c30_nesting
#print axioms AGV.Props.C30.c30_nesting_family
#print axioms AGV.Props.C30.c30_transparent
#print axioms AGV.Props.C30.c30_transparent_family
#print axioms AGV.Props.C30.c30_lifecycle_stages
#print axioms AGV.Props.C30.c30_lifecycle
#print axioms AGV.Props.C30.c30_lifecycle_family
#print axioms AGV.Props.C30.c30_passthrough_needed
#print axioms AGV.Props.C30.c30_fast_unknown_field_witness
#print axioms AGV.Props.C30.c30_resolve_once_per_invocation
#print axioms AGV.Props.C30.c30_sites_balanced_exec
#print axioms AGV.Props.C30.c30_sites_balanced
#print axioms AGV.Props.C30.c30_resolve_once_family
