import AGV.Props.C26
#print axioms AGV.Props.C26.c26_closed
#print axioms AGV.Props.C26.c26_open
#print axioms AGV.Props.C26.c26_nothing_after_end
#print axioms AGV.Props.C26.c26_safe_of_no_cr
#print axioms AGV.Props.C26.c26_hypothesis_needed
#print axioms AGV.Props.C26.c26_reader_fuel
#print axioms AGV.Props.C26.c26_json_safe
