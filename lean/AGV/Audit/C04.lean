import AGV.Props.C04
#print axioms AGV.Props.C04.c04_events_within_lifetime
#print axioms AGV.Props.C04.c04_mutation_serial
#print axioms AGV.Props.C04.c04_mutation_root_uses_serial_join
#print axioms AGV.Props.C04.c04_once_violated_by_perOccurrence
#print axioms AGV.Props.C04.c04_once_repaired_on_witness
#print axioms AGV.Props.C04.c04_once
#print axioms AGV.Props.C04.c04_once_partial
