import AGV.Props.C15
#print axioms AGV.Props.C15.c15_string
#print axioms AGV.Props.C15.c15_string_spec
#print axioms AGV.Props.C15.c15_int
#print axioms AGV.Props.C15.c15_value
#print axioms AGV.Props.C15.c15_value_in_context
#print axioms AGV.Props.C15.c15_json
#print axioms AGV.Props.C15.c15_json_enum_free
#print axioms AGV.Props.C15.c15_source_control_arm
#print axioms AGV.Props.C15.c15_string_violated_by_decimal_escape
#print axioms AGV.Props.C15.c15_value_violated_by_decimal_escape
#print axioms AGV.Props.C15.c15_string_lexer_refines_spec
#print axioms AGV.Props.C15.c15_string_token_refines_spec
