import AGV.Props.C13
#print axioms AGV.Props.C13.c13_type
#print axioms AGV.Props.C13.c13_type_parse_type
#print axioms AGV.Props.C13.c13_block_lines
#print axioms AGV.Props.C13.c13_grammar_is_source
#print axioms AGV.Props.C13.c13_block_violated_by_blockEscapeKept
#print axioms AGV.Props.C13.c13_block_violated_by_shortBlankLineKept
#print axioms AGV.Props.C13.c13_number_violated_by_intAsFloat
#print axioms AGV.Props.C13.c13_number_violated_by_floatDoubleRounding
#print axioms AGV.Props.C13.c13_full_violated_by_numberDigitFollow
#print axioms AGV.Props.C13.c13_block
#print axioms AGV.Props.C13.c13_unique
#print axioms AGV.Props.C13.c13_depth_accept
#print axioms AGV.Props.C13.c13_depth_within
#print axioms AGV.Props.C13.c13_depth
#print axioms AGV.Props.C13.c13_depth_unrestricted_false
