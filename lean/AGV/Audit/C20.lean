import AGV.Props.C20
#print axioms AGV.Props.C20.c20_monoid
#print axioms AGV.Props.C20.c20_merge_tightens
#print axioms AGV.Props.C20.c20_policy_bounds_visited
#print axioms AGV.Props.C20.c20_batch_bounds_items
#print axioms AGV.Props.C20.c20_abstract_set_covers_runtime_types
#print axioms AGV.Props.C20.c20_abstract_field_covers_runtime_types
#print axioms AGV.Props.C20.c20_sound_partial
#print axioms AGV.Props.C20.c20_witness_abstract
#print axioms AGV.Props.C20.c20_witness_spread
#print axioms AGV.Props.C20.c20_exact_visited
#print axioms AGV.Props.C20.c20_batch_exact
#print axioms AGV.Props.C20.c20_inclusion
#print axioms AGV.Props.C20.c20_sound
#print axioms AGV.Props.C20.c20_exact
#print axioms AGV.Props.C20.c20_sound_unconditional_false
#print axioms AGV.Props.C20.c20_exact_unconditional_false
#print axioms AGV.Props.C20.c20_hypotheses_needed
