import AGV.Props.C33
#print axioms AGV.Props.C33.c33_subtype_is_spec_field_type
#print axioms AGV.Props.C33.c33_lookup_agrees
#print axioms AGV.Props.C33.c33_check_stages
#print axioms AGV.Props.C33.c33_safe
#print axioms AGV.Props.C33.c33_witness_subtype_reversed
#print axioms AGV.Props.C33.c33_witness_named_covariance
#print axioms AGV.Props.C33.c33_witness_nullable_arg
#print axioms AGV.Props.C33.c33_witness_arg_covariant
#print axioms AGV.Props.C33.c33_witness_extra_required_arg
#print axioms AGV.Props.C33.c33_witness_subscription_root
#print axioms AGV.Props.C33.c33_witness_subscription_fields
#print axioms AGV.Props.C33.c33_witness_fieldless_interface
#print axioms AGV.Props.C33.c33_repaired_on_witnesses
#print axioms AGV.Props.C33.c33_accept_sound
#print axioms AGV.Props.C33.c33_accept_complete
#print axioms AGV.Props.C33.c33_cycle_search_is_requires
#print axioms AGV.Props.C33.c33_requiresItself_is_requires
