import AGV.Props.C01
#print axioms AGV.Props.C01.c01_key_order
#print axioms AGV.Props.C01.c01_nonnull_position
#print axioms AGV.Props.C01.c01_errors_never_lost
#print axioms AGV.Props.C01.c01_union_condition_witness
#print axioms AGV.Props.C01.c01_union_condition_repaired_example
#print axioms AGV.Props.C01.c01_skip_default_witness
#print axioms AGV.Props.C01.c01_nan_nonnull_witness
#print axioms AGV.Props.C01.c01_data_full_needs_validity
#print axioms AGV.Props.C01.c01_repeated_key_error_witness
#print axioms AGV.Props.C01.c01_collect_partial
#print axioms AGV.Props.C01.c01_collect_spread_once
#print axioms AGV.Props.C01.c01_data_partial_nodup
#print axioms AGV.Props.C01.c01_data_partial_nodup_example
#print axioms AGV.Props.C01.c01_create_value_object_groups
#print axioms AGV.Props.C01.c01_repeated_key_error_repaired_example
