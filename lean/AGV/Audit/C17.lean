import AGV.Props.C17

#print axioms AGV.Props.C17.c17_strings_escape
#print axioms AGV.Props.C17.c17_strings_token
#print axioms AGV.Props.C17.c17_strings_reason
#print axioms AGV.Props.C17.c17_strings_tag
#print axioms AGV.Props.C17.c17_strings_description_quoted
#print axioms AGV.Props.C17.c17_description_style
#print axioms AGV.Props.C17.c17_witness_reason_quote
#print axioms AGV.Props.C17.c17_witness_single_line_backslash
#print axioms AGV.Props.C17.c17_witness_tag_backslash
#print axioms AGV.Props.C17.c17_witness_block_triple_quote
#print axioms AGV.Props.C17.c17_witness_interface_order
#print axioms AGV.Props.C17.c17_witness_dynamic_registration
#print axioms AGV.Props.C17.c17_strings_block
#print axioms AGV.Props.C17.c17_tokens_partial
#print axioms AGV.Props.C17.c17_tokens_false
#print axioms AGV.Props.C17.c17_tokens_deprecation
#print axioms AGV.Props.C17.c17_tokens_directives
#print axioms AGV.Props.C17.c17_tokens_default_value
#print axioms AGV.Props.C17.c17_tokens_directive_definition
#print axioms AGV.Props.C17.c17_tokens_plain
#print axioms AGV.Props.C17.c17_tokens_plain_doc
#print axioms AGV.Props.C17.c17_tokens_federation_order
#print axioms AGV.Props.C17.c17_tokens_wf
#print axioms AGV.Props.C17.c17_chars
