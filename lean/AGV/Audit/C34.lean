import AGV.Props.C34
#print axioms AGV.Props.C34.c34_verbatim
#print axioms AGV.Props.C34.c34_contained
#print axioms AGV.Props.C34.c34_title
#print axioms AGV.Props.C34.c34_page
#print axioms AGV.Props.C34.c34_members
#print axioms AGV.Props.C34.c34_violated_by_missingComma
#print axioms AGV.Props.C34.c34_violated_by_entitiesInScript
#print axioms AGV.Props.C34.c34_violated_by_backslashRaw
#print axioms AGV.Props.C34.c34_violated_by_controlsRaw
#print axioms AGV.Props.C34.c34_pinned_changes_value_silently
#print axioms AGV.Props.C34.c34_src_table
#print axioms AGV.Props.C34.c34_src_positions
