import AGV.Props.C02

#print axioms AGV.Props.C02.c02_key_order
#print axioms AGV.Props.C02.c02_type_condition
#print axioms AGV.Props.C02.c02_nonnull_position
#print axioms AGV.Props.C02.c02_errors_never_lost
#print axioms AGV.Props.C02.c02_builtin_leaf_checked
#print axioms AGV.Props.C02.c02_union_condition_witness
#print axioms AGV.Props.C02.c02_union_condition_repaired_example
#print axioms AGV.Props.C02.c02_skip_default_witness
#print axioms AGV.Props.C02.c02_builtin_scalar_witness
#print axioms AGV.Props.C02.c02_null_value_nonnull_witness
#print axioms AGV.Props.C02.c02_null_item_object_witness
#print axioms AGV.Props.C02.c02_nested_list_merge_witness
#print axioms AGV.Props.C02.c02_nested_list_merge_repaired_example
#print axioms AGV.Props.C02.c03dyn_no_capture_witness
#print axioms AGV.Props.C02.c03dyn_error_path_witness
#print axioms AGV.Props.C02.c02_data_full_needs_validity
#print axioms AGV.Props.C02.c02_data_full_needs_typed_world
#print axioms AGV.Props.C02.c02_collect_spread_once
#print axioms AGV.Props.C02.c02_data_partial_nodup
#print axioms AGV.Props.C02.c02_data_partial_nodup_example
