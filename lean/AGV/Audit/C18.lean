import AGV.Props.C18
#print axioms AGV.Props.C18.c18_wrappers
#print axioms AGV.Props.C18.c18_wrappers_fields
#print axioms AGV.Props.C18.c18_closed
#print axioms AGV.Props.C18.c18_hidden_type
#print axioms AGV.Props.C18.c18_hidden_elements
#print axioms AGV.Props.C18.c18_possible_interface
#print axioms AGV.Props.C18.c18_possible_union
#print axioms AGV.Props.C18.c18_probe_hidden
#print axioms AGV.Props.C18.c18_witness_hidden_type_referenced
#print axioms AGV.Props.C18.c18_witness_interfaces_null
#print axioms AGV.Props.C18.c18_witness_possible_lists_interfaces
#print axioms AGV.Props.C18.c18_witness_dyn_implements_dropped
#print axioms AGV.Props.C18.c18_visible_complete
#print axioms AGV.Props.C18.c18_visible_closed
#print axioms AGV.Props.C18.c18_roundtrip_wf
#print axioms AGV.Props.C18.c18_roundtrip_refuted
#print axioms AGV.Props.C18.c18_single_pass_differs
