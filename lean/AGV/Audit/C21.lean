import AGV.Props.C21

#print axioms AGV.Props.C21.c21_noninterference
#print axioms AGV.Props.C21.c21_noninterference_chunks
#print axioms AGV.Props.C21.c21_secret_position_redacted
#print axioms AGV.Props.C21.c21_relation_nontrivial
#print axioms AGV.Props.C21.c21_repaired_example
#print axioms AGV.Props.C21.c21_witness_inlineNoCondLosesType
#print axioms AGV.Props.C21.c21_witness_listNotRecursed
#print axioms AGV.Props.C21.c21_witness_varDefaultPrinted
#print axioms AGV.Props.C21.c21_nested_secret_redacted
#print axioms AGV.Props.C21.c21_nested_secret_redacted_args
#print axioms AGV.Props.C21.c21_nested_example
