import AGV.Props.C31
#print axioms AGV.Props.C31.c31_inv
#print axioms AGV.Props.C31.c31_exec
#print axioms AGV.Props.C31.c31_exec_history
#print axioms AGV.Props.C31.c31_hashonly
#print axioms AGV.Props.C31.c31_frame
#print axioms AGV.Props.C31.c31_registered_found
#print axioms AGV.Props.C31.c31_plain_untouched
#print axioms AGV.Props.C31.c31_accepted
#print axioms AGV.Props.C31.c31_supported_version
