import AGV.Props.C11
#print axioms AGV.Props.C11.c11_blowup
#print axioms AGV.Props.C11.c11_blowup_exceeds_bound
#print axioms AGV.Props.C11.c11_poly
#print axioms AGV.Props.C11.c11_poly_spec
#print axioms AGV.Props.C11.c11_overlap_poly
#print axioms AGV.Props.C11.c11_poly_partial
#print axioms AGV.Props.C11.c11_pinned_upper
#print axioms AGV.Props.C11.c11_poly_norepeat_anynames
#print axioms AGV.Props.C11.c11_poly_norepeat
