import AGV.Props.C11
#print axioms AGV.Props.C11.c11_blowup
#print axioms AGV.Props.C11.c11_blowup_exceeds_bound
#print axioms AGV.Props.C11.c11_poly
#print axioms AGV.Props.C11.c11_poly_spec
#print axioms AGV.Props.C11.c11_overlap_poly
#print axioms AGV.Props.C11.c11_poly_partial
#print axioms AGV.Props.C11.c11_pinned_upper
#print axioms AGV.Props.C11.c11_poly_norepeat_anynames
#print axioms AGV.Props.C11.c11_poly_norepeat
#print axioms AGV.Props.C11.c11_value_checks_linear
#print axioms AGV.Props.C11.c11_value_checks_doc
#print axioms AGV.Props.C11.c11_value_recheck_exponential
#print axioms AGV.Props.C11.c11_value_recheck_exceeds_bound
