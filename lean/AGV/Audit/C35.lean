import AGV.Props.C35
#print axioms AGV.Props.C35.c35_get_no_mutation_resolver
#print axioms AGV.Props.C35.c35_get_mutation_answered_with_error
#print axioms AGV.Props.C35.c35_get_safe
#print axioms AGV.Props.C35.c35_get_safe_unless_listed
#print axioms AGV.Props.C35.c35_marked_requests_in_a_batch
#print axioms AGV.Props.C35.c35_marked_mutation_response_failed
#print axioms AGV.Props.C35.c35_select_refines_spec
#print axioms AGV.Props.C35.c35_repair_conservative
#print axioms AGV.Props.C35.c35_post_control_runs_mutation
#print axioms AGV.Props.C35.c35_get_query_still_runs
#print axioms AGV.Props.C35.c35_witness_each_integration
#print axioms AGV.Props.C35.c35_pinned_runs_the_mutation
#print axioms AGV.Props.C35.c35_toggles_independent
#print axioms AGV.Props.C35.c35_src_get_branches
#print axioms AGV.Props.C35.c35_unmarked_unsafe_iff
