import AGV.Props.C24
#print axioms AGV.Props.C24.c24_limits
#print axioms AGV.Props.C24.c24_over_limit_rejected
#print axioms AGV.Props.C24.c24_missing
#print axioms AGV.Props.C24.c24_missing_rejected
#print axioms AGV.Props.C24.c24_bind_step
#print axioms AGV.Props.C24.c24_paths_all_resolve
#print axioms AGV.Props.C24.c24_unresolvable_rejected
#print axioms AGV.Props.C24.c24_limits_violated_by_byte_budget
#print axioms AGV.Props.C24.c24_bind_violated_by_ignored_path
#print axioms AGV.Props.C24.c24_frame
#print axioms AGV.Props.C24.c24_refines_spec_wf
#print axioms AGV.Props.C24.c24_refines_spec_false_duplicate_keys
#print axioms AGV.Props.C24.c24_refines_spec_false_marker
