import AGV.Props.C08
#print axioms AGV.Props.C08.c08
#print axioms AGV.Props.C08.c08_int_order_exact
#print axioms AGV.Props.C08.c08_unsignedWrap_witness
#print axioms AGV.Props.C08.c08_floatTrunc_witness
#print axioms AGV.Props.C08.c08_intToFloatRound_witness
#print axioms AGV.Props.C08.c08_strictGateI64_witness
#print axioms AGV.Props.C08.c08_first_failure_order
#print axioms AGV.Props.C08.c08_pinned_partial
