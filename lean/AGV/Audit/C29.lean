import AGV.Props.C29
#print axioms AGV.Props.C29.c29_refine
#print axioms AGV.Props.C29.c29_inv_init
#print axioms AGV.Props.C29.c29_inv_step
#print axioms AGV.Props.C29.c29_inv_reachable
#print axioms AGV.Props.C29.c29_history
#print axioms AGV.Props.C29.c29_history_from
#print axioms AGV.Props.C29.c29_total
#print axioms AGV.Props.C29.c29_total_history
#print axioms AGV.Props.C29.c29_toggle_scope
#print axioms AGV.Props.C29.c29_violated_by_enableCacheNeedsEntry
#print axioms AGV.Props.C29.c29_abs_exact
#print axioms AGV.Props.C29.c29_load_one
#print axioms AGV.Props.C29.c29_load_many
