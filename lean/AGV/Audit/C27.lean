import AGV.Props.C27
#print axioms AGV.Props.C27.c27_query_once
#print axioms AGV.Props.C27.c27_own_data
#print axioms AGV.Props.C27.c27_in_order
#print axioms AGV.Props.C27.c27_own_errors_repaired
#print axioms AGV.Props.C27.c27_repaired_owned
#print axioms AGV.Props.C27.c27_own_errors_single_root
#print axioms AGV.Props.C27.c27_single_root_owned
#print axioms AGV.Props.C27.c27_own_errors_violated_by_sharedErrList
#print axioms AGV.Props.C27.c27_witness_data_still_own
#print axioms AGV.Props.C27.c27_witness_sequential_schedule_ok
