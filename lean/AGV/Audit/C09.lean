import AGV.Props.C09

#print axioms AGV.Props.C09.c09_dispatch
#print axioms AGV.Props.C09.c09_dispatch_exact
#print axioms AGV.Props.C09.c09_dispatch_pinned_witness
#print axioms AGV.Props.C09.c09_strict_rules_known
#print axioms AGV.Props.C09.c09_fast_rules_subset
#print axioms AGV.Props.C09.c09_kind_table
#print axioms AGV.Props.C09.c09_located
#print axioms AGV.Props.C09.c09_before_exec_pre
#print axioms AGV.Props.C09.c09_rule_variable_subtype
#print axioms AGV.Props.C09.c09_subtype_defect_witness
#print axioms AGV.Props.C09.c09_witness_input_value_not_forwarded
#print axioms AGV.Props.C09.c09_witness_typename_not_visited
#print axioms AGV.Props.C09.c09_witness_overlap
#print axioms AGV.Props.C09.c09_witness_single_root
#print axioms AGV.Props.C09.c09_witness_input_object_literal
#print axioms AGV.Props.C09.c09_witness_enum_string
#print axioms AGV.Props.C09.c09_witness_int_range
#print axioms AGV.Props.C09.c09_witness_location_default
#print axioms AGV.Props.C09.c09_repaired_accepts_valid_example
