import AGV.Props.C05
#print axioms AGV.Props.C05.c05_sim
#print axioms AGV.Props.C05.c05_data
#print axioms AGV.Props.C05.c05_errors
#print axioms AGV.Props.C05.c05_fault_at_nullable_is_local
#print axioms AGV.Props.C05.c05_errors_violated_by_resolverErrPropagates
#print axioms AGV.Props.C05.c05_errors_repaired_on_witness
#print axioms AGV.Props.C05.c05_errors_static_unqualified_false
#print axioms AGV.Props.C05.c05_errors_static
#print axioms AGV.Props.C05.c05_errors_all_schedules
#print axioms AGV.Props.C05.c05_errors_static_example
