import AGV.Props.C14
#print axioms AGV.Props.C14.c14_chunking
#print axioms AGV.Props.C14.c14_step
#print axioms AGV.Props.C14.c14_syntax_error_pos
#print axioms AGV.Props.C14.c14_step_violated_by_crBug
#print axioms AGV.Props.C14.c14_pest_violated_by_crBug
#print axioms AGV.Props.C14.c14_bytes
#print axioms AGV.Props.C14.c14_step_bytes
#print axioms AGV.Props.C14.c14_bytes_nonascii_witness
