import AGV.Props.C16
#print axioms AGV.Props.C16.c16_roundtrip
#print axioms AGV.Props.C16.c16_null_under_option
#print axioms AGV.Props.C16.c16_some_none_lost
#print axioms AGV.Props.C16.c16_violated_by_null_under_option
#print axioms AGV.Props.C16.c16_nonfinite_float
#print axioms AGV.Props.C16.c16_wide_int_rejected
#print axioms AGV.Props.C16.c16_char_rejected
#print axioms AGV.Props.C16.c16_empty_tuple_variant
#print axioms AGV.Props.C16.c16_exact
