import AGV.Props.C22

#print axioms AGV.Props.C22.c22_complete
#print axioms AGV.Props.C22.c22_complete_log
#print axioms AGV.Props.C22.c22_complete_run
#print axioms AGV.Props.C22.c22_pruned
#print axioms AGV.Props.C22.c22_pruned_field
#print axioms AGV.Props.C22.c22_lookahead_eq_selection
#print axioms AGV.Props.C22.c22_lookahead_field_eq
#print axioms AGV.Props.C22.c22_args_agree
#print axioms AGV.Props.C22.c22_skip_default_witness
#print axioms AGV.Props.C22.c22_overlisting_example
#print axioms AGV.Props.C22.c22_source_walk
