import AGV.Props.C12
#print axioms AGV.Props.C12.c12_upload_total
#print axioms AGV.Props.C12.c12_upload_resolves_only_bound
#print axioms AGV.Props.C12.c12_upload_exact
#print axioms AGV.Props.C12.c12_upload_violated_by_parseUnwrap
#print axioms AGV.Props.C12.c12_upload_violated_by_valueIndex
#print axioms AGV.Props.C12.c12_depth_guard
#print axioms AGV.Props.C12.c12_depth_guard_needed
#print axioms AGV.Props.C12.c12_unbounded_nesting
#print axioms AGV.Props.C12.c12_unbounded_nesting_slope
#print axioms AGV.Props.C12.c12_spread_violated_by_spreadsExpanded
#print axioms AGV.Props.C12.c12_directives_walk_after_depth_check
#print axioms AGV.Props.C12.c12_prechecks_never_overflow
#print axioms AGV.Props.C12.c12_prechecks_order_needed
#print axioms AGV.Props.C12.c12_unbounded_nesting_document
#print axioms AGV.Props.C12.c12_unbounded_nesting_document_depth
#print axioms AGV.Props.C12.c12_parser_depth_unbounded
