import AGV.Props.C06
#print axioms AGV.Props.C06.c06_resolve_refines_subst
#print axioms AGV.Props.C06.c06_null
#print axioms AGV.Props.C06.c06_absent
#print axioms AGV.Props.C06.c06_scalar
#print axioms AGV.Props.C06.c06_enum
#print axioms AGV.Props.C06.c06_leaf
#print axioms AGV.Props.C06.c06_omission
#print axioms AGV.Props.C06.c06_explicit_null_argument
#print axioms AGV.Props.C06.c06_witness_omitted_variable_skips_default
#print axioms AGV.Props.C06.c06_witness_null_becomes_singleton_list
#print axioms AGV.Props.C06.c06_witness_variable_values_not_coerced
#print axioms AGV.Props.C06.c06_value_wf
#print axioms AGV.Props.C06.c06_typed_wf
#print axioms AGV.Props.C06.c06_value_false
#print axioms AGV.Props.C06.c06_typed_false
#print axioms AGV.Props.C06.c06_request_false
#print axioms AGV.Props.C06.c06_witness_literal_unchecked_beside_unsupplied_variable
