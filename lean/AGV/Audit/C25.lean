import AGV.Props.C25
#print axioms AGV.Props.C25.c25_conforms
#print axioms AGV.Props.C25.c25_closed_silent
#print axioms AGV.Props.C25.c25_codes
#print axioms AGV.Props.C25.c25_code_table_new
#print axioms AGV.Props.C25.c25_violated_by_dupIdReplaces
#print axioms AGV.Props.C25.c25_violated_by_preAck1011
#print axioms AGV.Props.C25.c25_violated_by_invalid1002
#print axioms AGV.Props.C25.c25_no_op_before_ack
#print axioms AGV.Props.C25.c25_single_ack
#print axioms AGV.Props.C25.c25_nothing_after_close
#print axioms AGV.Props.C25.c25_live
#print axioms AGV.Props.C25.c25_live_poll
#print axioms AGV.Props.C25.c25_complete_once_trace
#print axioms AGV.Props.C25.c25_complete_once_run
