import AGV.Props.C28
#print axioms AGV.Props.C28.c28_inv
#print axioms AGV.Props.C28.c28_batch
#print axioms AGV.Props.C28.c28_max_const
#print axioms AGV.Props.C28.c28_result
#print axioms AGV.Props.C28.c28_result_lookup
#print axioms AGV.Props.C28.c28_split_disjoint
#print axioms AGV.Props.C28.c28_load_split
#print axioms AGV.Props.C28.c28_live
