import AGV.Props.C10

#print axioms AGV.Props.C10.c10_complexity
#print axioms AGV.Props.C10.c10_depth
#print axioms AGV.Props.C10.c10_nesting
#print axioms AGV.Props.C10.c10_directives
#print axioms AGV.Props.C10.c10_inline_stable
#print axioms AGV.Props.C10.c10_decision
#print axioms AGV.Props.C10.c10_rejected_iff
#print axioms AGV.Props.C10.c10_limit_boundary
#print axioms AGV.Props.C10.c10_before_exec
#print axioms AGV.Props.C10.c10_witness_spread
#print axioms AGV.Props.C10.c10_witness_spread_executes
#print axioms AGV.Props.C10.c10_witness_typename
#print axioms AGV.Props.C10.c10_src_facts
