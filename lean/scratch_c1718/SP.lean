import AGV.Props.C18
namespace AGV.Props.C18
open AGV AGV.Core AGV.Model.Introspect AGV.Spec.Introspect AGV.Lemmas.Introspect

private def sQ : IType :=
  { name := "Q", kind := .object,
    fields := [{ name := "o", desc := none, ty := .named "O", dep := .no, vis := .always, args := [] }] }
private def sO : IType := { name := "O", kind := .object }
private def sA : IType := { name := "A", kind := .interface, possible := ["B"] }
private def sB : IType := { name := "B", kind := .interface, possible := ["O"] }
def chainRegistry : Registry := { types := [sA, sB, sO, sQ], dirs := [], query := "Q", mutation := none, subscription := none }

theorem sp1 : visibleSet { singlePass := true } chainRegistry 0 = ["B", "O", "Q"] := by
  simp [visibleSet, chainRegistry, rootNames, ifacePass, dfs, lookup, sA, sB, sO, sQ, children, fieldKids, inputKids,
    Vis.holds, TypeRef.base]

end AGV.Props.C18
