import AGV.Lemmas.Introspect
namespace AGV.Lemmas.Introspect
open AGV AGV.Core AGV.Model.Introspect AGV.Spec.Introspect

theorem dfs_mono (ts : List IType) (c : Nat) (st vis : List String) :
    ∀ n ∈ vis, n ∈ dfs ts c st vis := by
  fun_induction dfs ts c st vis with
  | case1 vis => exact fun n h => h
  | case2 n st vis hv ih => exact ih
  | case3 n st vis hv hl ih => exact ih
  | case4 n st vis hv t hl ht ih => exact fun m hm => ih m (List.mem_cons_of_mem _ hm)
  | case5 n st vis hv t hl ht ih => exact ih

/-- every stacked name that passes ends up visited -/
theorem dfs_stack (ts : List IType) (c : Nat) (st vis : List String) :
    ∀ n ∈ st, Passes ts c n → n ∈ dfs ts c st vis := by
  fun_induction dfs ts c st vis with
  | case1 vis => intro n h; cases h
  | case2 n st vis hv ih =>
    intro m hm hp
    rcases List.mem_cons.mp hm with rfl | hm
    · exact dfs_mono _ _ _ _ _ (by simpa using hv)
    · exact ih m hm hp
  | case3 n st vis hv hl ih =>
    intro m hm hp
    rcases List.mem_cons.mp hm with rfl | hm
    · obtain ⟨t, ht, _⟩ := hp; rw [hl] at ht; cases ht
    · exact ih m hm hp
  | case4 n st vis hv t hl ht ih =>
    intro m hm hp
    rcases List.mem_cons.mp hm with rfl | hm
    · exact dfs_mono _ _ _ _ _ (List.mem_cons_self)
    · exact ih m (List.mem_append_right _ hm) hp
  | case5 n st vis hv t hl ht ih =>
    intro m hm hp
    rcases List.mem_cons.mp hm with rfl | hm
    · obtain ⟨t', ht', hv'⟩ := hp; rw [hl] at ht'; cases ht'; rw [hv'] at ht; exact absurd rfl ht
    · exact ih m hm hp

/-- search invariant: every passing child of a visited type is visited or stacked -/
def Inv (ts : List IType) (c : Nat) (st vis : List String) : Prop :=
  ∀ n ∈ vis, ∀ t, lookup ts n = some t → ∀ m ∈ children c t, Passes ts c m → m ∈ vis ∨ m ∈ st

/-- closed under children -/
def ChildClosed (ts : List IType) (c : Nat) (vis : List String) : Prop :=
  ∀ n ∈ vis, ∀ t, lookup ts n = some t → ∀ m ∈ children c t, Passes ts c m → m ∈ vis

theorem dfs_closed (ts : List IType) (c : Nat) (st vis : List String) (h : Inv ts c st vis) :
    ChildClosed ts c (dfs ts c st vis) := by
  fun_induction dfs ts c st vis with
  | case1 vis =>
    intro n hn t hl m hm hp
    rcases h n hn t hl m hm hp with h | h
    · exact h
    · cases h
  | case2 n st vis hv ih =>
    apply ih
    intro n' hn' t hl m hm hp
    rcases h n' hn' t hl m hm hp with h | h
    · exact Or.inl h
    · rcases List.mem_cons.mp h with rfl | h
      · exact Or.inl (by simpa using hv)
      · exact Or.inr h
  | case3 n st vis hv hl ih =>
    apply ih
    intro n' hn' t hl' m hm hp
    rcases h n' hn' t hl' m hm hp with h | h
    · exact Or.inl h
    · rcases List.mem_cons.mp h with rfl | h
      · obtain ⟨t, ht, _⟩ := hp; rw [hl] at ht; cases ht
      · exact Or.inr h
  | case4 n st vis hv t hl ht ih =>
    apply ih
    intro n' hn' t' hl' m hm hp
    rcases List.mem_cons.mp hn' with rfl | hn'
    · rw [hl] at hl'; cases hl'
      exact Or.inr (List.mem_append_left _ hm)
    · rcases h n' hn' t' hl' m hm hp with h | h
      · exact Or.inl (List.mem_cons_of_mem _ h)
      · rcases List.mem_cons.mp h with rfl | h
        · exact Or.inl List.mem_cons_self
        · exact Or.inr (List.mem_append_right _ h)
  | case5 n st vis hv t hl ht ih =>
    apply ih
    intro n' hn' t' hl' m hm hp
    rcases h n' hn' t' hl' m hm hp with h | h
    · exact Or.inl h
    · rcases List.mem_cons.mp h with rfl | h
      · obtain ⟨t'', ht'', hv'⟩ := hp; rw [hl] at ht''; cases ht''; rw [hv'] at ht; exact absurd rfl ht
      · exact Or.inr h

theorem inv_of_closed {ts c vis} (st : List String) (h : ChildClosed ts c vis) : Inv ts c st vis :=
  fun n hn t hl m hm hp => Or.inl (h n hn t hl m hm hp)

end AGV.Lemmas.Introspect
