import AGV.Props.C17
open AGV.Spec.Lex
#check @lines.eq_3
#check @lines.eq_2
#check @lexBlock.eq_4
#check @lexBlock.eq_3
