import AGV.Spec.SdlParse
open AGV.Spec.Lex
def contTok (f : Nat) : Option (Tok × List Char) → Option (List Tok)
  | some (t, rest) => (lexAll f rest).map (t :: ·)
  | none => none
theorem lexAll_cons (f : Nat) (c : Char) (r : List Char) : lexAll (f+1) (c :: r) =
    if isIgnoredChar c then lexAll f r
    else if c = '#' then lexAll f (dropComment r)
    else contTok f (lexToken (c :: r)) := by
  show (match (f+1), (c :: r) with 
      | 0, _ => none
      | _ + 1, [] => some []
      | f + 1, c :: r =>
        if isIgnoredChar c then lexAll f r
        else if c = '#' then lexAll f (dropComment r)
        else
          match lexToken (c :: r) with
          | some (t, rest) => (lexAll f rest).map (t :: ·)
          | none => none) = _
  cases h : lexToken (c :: r) with
  | none => simp only [h, contTok]
  | some p => obtain ⟨t, rest⟩ := p; simp only [h, contTok]

theorem lexToken_punct (c : Char) (r : List Char) (h : isPunct c = true) : lexToken (c :: r) = some (.punct c, r) := by
  unfold lexToken
  simp only [h, if_true]

theorem lexToken_name (c : Char) (r : List Char) (h1 : isPunct c = false) (h2 : c ≠ '.') (h3 : AGV.Spec.Literal.nameStart c = true) :
    lexToken (c :: r) = some (.name (c :: (nameOf r).1), (nameOf r).2) := by
  unfold lexToken
  simp only [h1, h2, h3, if_true, if_false, Bool.false_eq_true]
