import AGV.Model.Sdl
import AGV.Spec.SdlParse
namespace AGV.Lemmas.SdlSkeleton
open AGV.Core AGV.Core.PAst AGV.Core.Sdl AGV.Model.Sdl AGV.Spec.Literal AGV.Spec.Lex AGV.Spec.Parse AGV.Spec.SdlParse

-- ------------------------------------------------------------------ tokens of the skeleton

def typeToks : PType → List Tok
  | .named n nl => .name n :: (if nl then [] else [.punct '!'])
  | .listOf t nl => .punct '[' :: typeToks t ++ .punct ']' :: (if nl then [] else [.punct '!'])

def typeDepth : PType → Nat
  | .named _ _ => 0
  | .listOf t _ => typeDepth t + 1

/-- what follows an item in the token stream of an exported skeleton: nothing, a Name, `)` or `}` -/
inductive TokEnd : List Tok → Prop
  | nil : TokEnd []
  | name (n r) : TokEnd (.name n :: r)
  | rpar (r) : TokEnd (.punct ')' :: r)
  | rbrace (r) : TokEnd (.punct '}' :: r)
  | rbrack (r) : TokEnd (.punct ']' :: r)

theorem pType_toks (t : PType) : ∀ (f : Nat) (rest : List Tok), typeDepth t < f → TokEnd rest →
    pType f (typeToks t ++ rest) = some (t, rest) := by
  induction t with
  | named n nl =>
    intro f rest hf h
    cases f with
    | zero => omega
    | succ f => cases nl <;> cases h <;> simp [typeToks, pType]
  | listOf t nl ih =>
    intro f rest hf h
    cases f with
    | zero => omega
    | succ f =>
      have := ih f (.punct ']' :: ((if nl then [] else [Tok.punct '!']) ++ rest)) (by simp [typeDepth] at hf; omega)
        (TokEnd.rbrack _)
      simp only [typeToks, List.cons_append, List.append_assoc, pType, this]
      cases nl <;> cases h <;> simp

theorem typeDepth_lt (t : PType) : typeDepth t < (typeToks t).length := by
  induction t with
  | named n nl => simp [typeDepth, typeToks]
  | listOf t nl ih => simp [typeDepth, typeToks]; omega


-- ------------------------------------------------------------------ the skeleton

/-- no description, no deprecation, no directive application -/
structure PlainAttrs (a : Attrs) : Prop where
  desc : a.desc = none
  dep : a.dep = .no
  dirs : a.dirs = []

def WfType : PType → Prop
  | .named n _ => isName n = true
  | .listOf t _ => WfType t

structure SkelIv (x : InputVal) : Prop where
  name : isName x.name = true
  ty : WfType x.ty
  default : x.default = none
  attrs : PlainAttrs x.a

def ivToks (x : InputVal) : List Tok := .name x.name :: .punct ':' :: typeToks x.ty

theorem dDirs_plain (o : Opts) (ho : o.federation = false) (a : Attrs) (h : PlainAttrs a) : dDirs o a = [] := by
  simp [dDirs, dDeprecated, dFed, ho, h.dep, h.dirs]

theorem constDirs_noAt (ts : List Tok) (h : ∀ r, ts ≠ .punct '@' :: r) : constDirs ts = some ([], ts) := by
  unfold constDirs pDirs
  unfold pDirectives
  split
  · rename_i n r; exact absurd rfl (h _)
  · rename_i r _; exact absurd rfl (h _)
  · rfl

theorem TokEnd.noAt {ts : List Tok} (h : TokEnd ts) : ∀ r, ts ≠ .punct '@' :: r := by
  intro r e; cases h <;> cases e

theorem pInputValue_toks (o : Opts) (ho : o.federation = false) (x : InputVal) (hx : SkelIv x) (rest : List Tok)
    (h : TokEnd rest) : pInputValue (ivToks x ++ rest) = some (dIv o x, rest) := by
  have ht := pType_toks x.ty ((typeToks x.ty ++ rest).length + 1) rest
    (by have := typeDepth_lt x.ty; simp; omega) h
  have hd := constDirs_noAt rest h.noAt
  simp only [pInputValue, pDesc, ivToks, List.cons_append, ht]
  cases h <;> simp [hd, dIv, hx.default, hx.attrs.desc, dDirs_plain o ho _ hx.attrs]


def ivsToks (xs : List InputVal) : List Tok := xs.flatMap ivToks

theorem ivToks_end (x : InputVal) (r : List Tok) : TokEnd (ivToks x ++ r) := TokEnd.name _ _

theorem ivsToks_end (xs : List InputVal) (r : List Tok) (h : TokEnd r) : TokEnd (ivsToks xs ++ r) := by
  cases xs with
  | nil => simpa [ivsToks] using h
  | cons x xs => simp only [ivsToks, List.flatMap_cons, List.append_assoc]; exact ivToks_end _ _

/-- `InputValueDefinition+` followed by the closing token -/
theorem pInputValues_toks (o : Opts) (ho : o.federation = false) (close : Char) (hc : close = ')' ∨ close = '}')
    (xs : List InputVal) (hne : xs ≠ []) (hxs : ∀ x ∈ xs, SkelIv x) (rest : List Tok) :
    ∀ g, xs.length ≤ g →
      pInputValues close g (ivsToks xs ++ .punct close :: rest) = some (xs.map (dIv o), rest) := by
  induction xs with
  | nil => exact absurd rfl hne
  | cons x xs ih =>
    intro g hg
    cases g with
    | zero => simp at hg
    | succ g =>
      have hcl : TokEnd (.punct close :: rest) := by
        rcases hc with rfl | rfl
        · exact TokEnd.rpar _
        · exact TokEnd.rbrace _
      have hiv := pInputValue_toks o ho x (hxs x List.mem_cons_self) (ivsToks xs ++ .punct close :: rest)
        (ivsToks_end xs _ hcl)
      simp only [ivsToks, List.flatMap_cons, List.append_assoc] at hiv ⊢
      rw [pInputValues, hiv]
      cases xs with
      | nil => simp
      | cons y ys =>
        have := ih (by simp) (fun z hz => hxs z (List.mem_cons_of_mem _ hz)) g (by simp at hg ⊢; omega)
        simp only [ivsToks, List.flatMap_cons, List.append_assoc, ivToks, List.cons_append, List.map_cons] at this
        simp [ivToks, this]

end AGV.Lemmas.SdlSkeleton
