import AGV.Lemmas.SdlSkeleton
namespace AGV.Lemmas.SdlSkeleton
open AGV.Core AGV.Core.PAst AGV.Core.Sdl AGV.Model.Sdl AGV.Spec.Literal AGV.Spec.Lex AGV.Spec.Parse AGV.Spec.SdlParse AGV.Lemmas.SdlLex

-- ------------------------------------------------------------------ enum values

structure SkelEnumVal (v : Text × Attrs) : Prop where
  name : isName v.1 = true
  notLit : v.1 ≠ kw "true" ∧ v.1 ≠ kw "false" ∧ v.1 ≠ kw "null"
  attrs : PlainAttrs v.2

def enumToks (vs : List (Text × Attrs)) : List Tok := vs.map (fun v => Tok.name v.1)

theorem pEnumValues_toks (o : Opts) (ho : o.federation = false) (vs : List (Text × Attrs)) (hne : vs ≠ [])
    (hvs : ∀ v ∈ vs, SkelEnumVal v) (rest : List Tok) :
    ∀ g, vs.length ≤ g →
      pEnumValues g (enumToks vs ++ .punct '}' :: rest) =
        some (vs.map (fun v => (⟨v.1, v.2.desc, dDirs o v.2⟩ : SEnumVal)), rest) := by
  induction vs with
  | nil => exact absurd rfl hne
  | cons v vs ih =>
    intro g hg
    cases g with
    | zero => simp at hg
    | succ g =>
      have hv := hvs v List.mem_cons_self
      have hdd := dDirs_plain o ho _ hv.attrs
      cases vs with
      | nil =>
        have hd := constDirs_noAt (.punct '}' :: rest) (by intro r e; cases e)
        simp [enumToks, pEnumValues, pDesc, hv.notLit.1, hv.notLit.2.1, hv.notLit.2.2, hd, hv.attrs.desc, hdd]
      | cons w ws =>
        have := ih (by simp) (fun z hz => hvs z (List.mem_cons_of_mem _ hz)) g (by simp at hg ⊢; omega)
        have hd := constDirs_noAt (enumToks (w :: ws) ++ .punct '}' :: rest) (by intro r e; cases e)
        simp only [enumToks, List.map_cons, List.cons_append] at this hd ⊢
        simp [pEnumValues, pDesc, hv.notLit.1, hv.notLit.2.1, hv.notLit.2.2, hd, hv.attrs.desc, hdd, this]


-- ------------------------------------------------------------------ type definitions

/-- a skeleton type definition: names are Names; no descriptions, directives, deprecations,
    default values, specifiedBy URL or @oneOf; the lists the grammar requires to be non-empty are
    non-empty; no field is an introspection field -/
def SkelType : TypeDef → Prop
  | .scalar n a url => isName n = true ∧ PlainAttrs a ∧ url = none
  | .object n a _ impls fs | .interface n a _ impls fs =>
    isName n = true ∧ PlainAttrs a ∧ (∀ i ∈ impls, isName i = true) ∧ fs ≠ [] ∧
      ∀ f ∈ fs, SkelField f ∧ startsWith2Underscores f.name = false
  | .union n a ms => isName n = true ∧ PlainAttrs a ∧ ms ≠ [] ∧ ∀ m ∈ ms, isName m = true
  | .enum n a vs => isName n = true ∧ PlainAttrs a ∧ vs ≠ [] ∧ ∀ v ∈ vs, SkelEnumVal v
  | .input n a oneof fs => isName n = true ∧ PlainAttrs a ∧ oneof = false ∧ fs ≠ [] ∧ ∀ f ∈ fs, SkelIv f

def defToks (o : Opts) : TypeDef → List Tok
  | .scalar n _ _ => if systemScalars.contains n then [] else [.name (kw "scalar"), .name n]
  | .object n _ _ impls fs =>
    .name (kw "type") :: .name n :: implToks impls ++
      .punct '{' :: fieldsToks o (sorted o.sortedFields (·.name) fs) ++ [.punct '}']
  | .interface n _ _ impls fs =>
    .name (kw "interface") :: .name n :: implToks impls ++
      .punct '{' :: fieldsToks o (sorted o.sortedFields (·.name) fs) ++ [.punct '}']
  | .union n _ ms => .name (kw "union") :: .name n :: .punct '=' :: sepToks '|' ms
  | .enum n _ vs => .name (kw "enum") :: .name n :: .punct '{' :: enumToks (sorted o.sortedEnum (·.1) vs) ++ [.punct '}']
  | .input n _ _ fs => .name (kw "input") :: .name n :: .punct '{' :: ivsToks (sorted o.sortedFields (·.name) fs) ++ [.punct '}']

/-- what follows a definition: the end of the document or the keyword of the next definition -/
inductive DefEnd : List Tok → Prop
  | nil : DefEnd []
  | name (n r) : DefEnd (.name n :: r)

theorem DefEnd.tokEnd {ts} (h : DefEnd ts) : TokEnd ts := by cases h <;> constructor

theorem systemScalars_builtin (n : Text) : systemScalars.contains n = builtinScalars.contains n := by
  simp only [systemScalars, builtinScalars, List.contains_eq_mem, List.mem_cons, List.map_cons, List.map_nil,
    List.mem_nil_iff, or_false, s]

theorem pDef_scalar (o : Opts) (n : Text) (a : Attrs) (url : Option Text)
    (hs : SkelType (.scalar n a url)) (hns : systemScalars.contains n = false) (rest : List Tok) (hr : DefEnd rest) :
    pDef (defToks o (.scalar n a url) ++ rest) = some (.type false n none [] .scalar, rest) := by
  obtain ⟨_, ha, hu⟩ := hs
  have hd := constDirs_noAt rest hr.tokEnd.noAt
  simp only [defToks, hns, Bool.false_eq_true, if_false, List.cons_append, List.nil_append, pDef, pDesc]
  have e1 : kw "scalar" ≠ kw "extend" := by decide
  have e2 : kw "scalar" ≠ kw "schema" := by decide
  have e3 : kw "scalar" ≠ kw "directive" := by decide
  simp only [e1, e2, e3, if_false, pTypeDef, if_true, hd, Option.map_some]


theorem kw_facts :
    kw "type" ≠ kw "extend" ∧ kw "type" ≠ kw "schema" ∧ kw "type" ≠ kw "directive" ∧
    kw "type" ≠ kw "scalar" ∧
    kw "interface" ≠ kw "extend" ∧ kw "interface" ≠ kw "schema" ∧
    kw "interface" ≠ kw "directive" ∧ kw "interface" ≠ kw "scalar" ∧
    kw "interface" ≠ kw "type" ∧
    kw "union" ≠ kw "extend" ∧ kw "union" ≠ kw "schema" ∧ kw "union" ≠ kw "directive" ∧
    kw "union" ≠ kw "scalar" ∧ kw "union" ≠ kw "type" ∧ kw "union" ≠ kw "interface" ∧
    kw "enum" ≠ kw "extend" ∧ kw "enum" ≠ kw "schema" ∧ kw "enum" ≠ kw "directive" ∧
    kw "enum" ≠ kw "scalar" ∧ kw "enum" ≠ kw "type" ∧ kw "enum" ≠ kw "interface" ∧
    kw "enum" ≠ kw "union" ∧
    kw "input" ≠ kw "extend" ∧ kw "input" ≠ kw "schema" ∧ kw "input" ≠ kw "directive" ∧
    kw "input" ≠ kw "scalar" ∧ kw "input" ≠ kw "type" ∧ kw "input" ≠ kw "interface" ∧
    kw "input" ≠ kw "union" ∧ kw "input" ≠ kw "enum" := by decide

theorem pDef_object (o : Opts) (ho : o.federation = false) (isObj : Bool) (n : Text) (impls : List Text)
    (fs : List FieldDef) (hfs : fs ≠ []) (hsk : ∀ f ∈ fs, SkelField f) (rest : List Tok) :
    pDef (.name (kw (if isObj then "type" else "interface")) :: .name n :: implToks impls ++
        .punct '{' :: fieldsToks o (sorted o.sortedFields (·.name) fs) ++ [.punct '}'] ++ rest) =
      some (.type false n none [] (if isObj then .object impls (dFields o fs) else .interface impls (dFields o fs)), rest) := by
  have himpl := pImplements_toks impls (fieldsToks o (sorted o.sortedFields (·.name) fs) ++ .punct '}' :: rest)
  have hd := constDirs_noAt (.punct '{' :: (fieldsToks o (sorted o.sortedFields (·.name) fs) ++ .punct '}' :: rest))
    (by intro r e; cases e)
  have hfl := pFields_toks o ho (sorted o.sortedFields (·.name) fs) (sorted_ne_nil _ _ _ hfs)
    (fun f hf => hsk f ((sorted_mem _ _ _ _).mp hf)) rest
    ((fieldsToks o (sorted o.sortedFields (·.name) fs) ++ .punct '}' :: rest).length + 1) (by
      have : (sorted o.sortedFields (·.name) fs).length ≤ (fieldsToks o (sorted o.sortedFields (·.name) fs)).length := by
        generalize sorted o.sortedFields (·.name) fs = l
        induction l with
        | nil => simp
        | cons x xs ih => simp [fieldsToks, fieldToks] at ih ⊢; omega
      simp; omega)
  obtain ⟨e1, e2, e3, e4, e5, e6, e7, e8, e9, _⟩ := kw_facts
  cases isObj
  · simp only [Bool.false_eq_true, if_false, List.cons_append, List.append_assoc, List.nil_append, pDef, pDesc,
      e5, e6, e7, e8, e9, pTypeDef, Bool.or_true, Bool.true_or, decide_true, decide_false, Bool.false_or, himpl, hd,
      pFieldsDef, hfl, Option.map_some, dFields]
    simp
  · simp only [if_true, List.cons_append, List.append_assoc, List.nil_append, pDef, pDesc,
      e1, e2, e3, e4, pTypeDef, Bool.or_true, Bool.true_or, decide_true, decide_false, Bool.false_or, himpl, hd,
      pFieldsDef, hfl, Option.map_some, dFields]
    simp


theorem pDef_union (n : Text) (ms : List Text) (hne : ms ≠ []) (rest : List Tok) (hr : DefEnd rest) :
    pDef (.name (kw "union") :: .name n :: .punct '=' :: sepToks '|' ms ++ rest) =
      some (.type false n none [] (.union ms), rest) := by
  have hd := constDirs_noAt (.punct '=' :: (sepToks '|' ms ++ rest)) (by intro r e; cases e)
  have hn := pNamesAfter_toks '|' ms hne rest (by intro r e; cases hr <;> cases e)
  obtain ⟨_, _, _, _, _, _, _, _, _, e1, e2, e3, e4, e5, e6, _⟩ := kw_facts
  simp only [List.cons_append, pDef, pDesc, e1, e2, e3, e4, e5, e6, pTypeDef, if_false, if_true, hd, hn,
    Option.map_some, Bool.or_self, Bool.false_eq_true, decide_false]

theorem pDef_enum (o : Opts) (ho : o.federation = false) (n : Text) (vs : List (Text × Attrs)) (hne : vs ≠ [])
    (hvs : ∀ v ∈ vs, SkelEnumVal v) (rest : List Tok) :
    pDef (.name (kw "enum") :: .name n :: .punct '{' :: enumToks (sorted o.sortedEnum (·.1) vs) ++ [.punct '}'] ++ rest) =
      some (.type false n none []
        (.enum ((sorted o.sortedEnum (·.1) vs).map (fun v => ⟨v.1, v.2.desc, dDirs o v.2⟩))), rest) := by
  have hd := constDirs_noAt (.punct '{' :: (enumToks (sorted o.sortedEnum (·.1) vs) ++ .punct '}' :: rest))
    (by intro r e; cases e)
  have hv := pEnumValues_toks o ho (sorted o.sortedEnum (·.1) vs) (sorted_ne_nil _ _ _ hne)
    (fun v hv => hvs v ((sorted_mem _ _ _ _).mp hv)) rest
    ((enumToks (sorted o.sortedEnum (·.1) vs) ++ .punct '}' :: rest).length + 1) (by simp [enumToks]; omega)
  obtain ⟨_, _, _, _, _, _, _, _, _, _, _, _, _, _, _, e1, e2, e3, e4, e5, e6, e7, _⟩ := kw_facts
  simp only [List.cons_append, List.append_assoc, List.nil_append, pDef, pDesc, e1, e2, e3, e4, e5, e6, e7, pTypeDef,
    if_false, if_true, hd, hv, Option.map_some, Bool.or_self, Bool.false_eq_true, decide_false]

theorem pDef_input (o : Opts) (ho : o.federation = false) (n : Text) (fs : List InputVal) (hne : fs ≠ [])
    (hfs : ∀ f ∈ fs, SkelIv f) (rest : List Tok) :
    pDef (.name (kw "input") :: .name n :: .punct '{' :: ivsToks (sorted o.sortedFields (·.name) fs) ++ [.punct '}'] ++ rest) =
      some (.type false n none [] (.input ((sorted o.sortedFields (·.name) fs).map (dIv o))), rest) := by
  have hd := constDirs_noAt (.punct '{' :: (ivsToks (sorted o.sortedFields (·.name) fs) ++ .punct '}' :: rest))
    (by intro r e; cases e)
  have hv := pInputValues_toks o ho '}' (Or.inr rfl) (sorted o.sortedFields (·.name) fs) (sorted_ne_nil _ _ _ hne)
    (fun v hv => hfs v ((sorted_mem _ _ _ _).mp hv)) rest
    ((ivsToks (sorted o.sortedFields (·.name) fs) ++ .punct '}' :: rest).length + 1)
    (by have := ivsToks_length (sorted o.sortedFields (·.name) fs); simp; omega)
  obtain ⟨_, _, _, _, _, _, _, _, _, _, _, _, _, _, _, _, _, _, _, _, _, _, e1, e2, e3, e4, e5, e6, e7, e8⟩ := kw_facts
  simp only [List.cons_append, List.append_assoc, List.nil_append, pDef, pDesc, e1, e2, e3, e4, e5, e6, e7, e8, pTypeDef,
    if_false, if_true, hd, hv, Option.map_some, Bool.or_self, Bool.false_eq_true, decide_false]

end AGV.Lemmas.SdlSkeleton
