import AGV.Props.C18
namespace AGV.Lemmas.Introspect
open AGV AGV.Core AGV.Model.Introspect AGV.Spec.Introspect

theorem dep_roundtrip (d : Dep) : (if d.is = true then Dep.yes d.reason else Dep.no) = d := by
  cases d <;> simp [Dep.is, Dep.reason]

theorem clientInput_inputT (ts : List IType) (a : IInput) :
    clientInput (inputT ts a) = { a with vis := .always } := by
  simp [clientInput, inputT, decodeRef_refT]
  exact dep_roundtrip _

theorem clientInputs_inputsT (ts : List IType) (vn : List String) (c : Nat) (as : List IInput) :
    (inputsT Defects.none ts vn c true as).map clientInput = restrictInputs vn c as := by
  simp only [inputsT, restrictInputs, List.map_map, tyListed, Defects.none, Bool.false_or, Bool.true_or, Bool.true_and]
  congr 1
  funext a
  exact clientInput_inputT ts a

theorem clientField_fieldT (ts : List IType) (vn : List String) (c : Nat) (f : IField) :
    clientField (fieldT Defects.none ts vn c true f) =
      { f with vis := .always, args := restrictInputs vn c f.args } := by
  simp [clientField, fieldT, decodeRef_refT, clientInputs_inputsT]
  exact dep_roundtrip _

theorem clientFields_fieldsT (ts : List IType) (vn : List String) (c : Nat) (fs : List IField) :
    (fieldsT Defects.none ts vn c true fs).map clientField = restrictFields vn c fs := by
  simp only [fieldsT, restrictFields, List.map_map, tyListed, Defects.none, Bool.false_or, Bool.true_or, Bool.and_true]
  congr 1
  funext f
  exact clientField_fieldT ts vn c f

theorem clientEnumVals (c : Nat) (vs : List IEnumVal) :
    (enumValsT c true vs).map (fun v =>
      ({ name := v.name, desc := v.desc, dep := if v.isDep then .yes v.reason else .no, vis := .always } : IEnumVal))
    = (vs.filter (fun v => v.vis.holds c)).map (fun v => { v with vis := .always }) := by
  simp only [enumValsT, List.map_map, Bool.true_or, Bool.and_true]
  congr 1
  funext v
  simp [dep_roundtrip]

theorem namedRefs_base (ts : List IType) (vn ns : List String) :
    (namedRefs ts vn ns).map refBase = ns.filter vn.contains := by
  simp [namedRefs, refBase_refT, TypeRef.base, Function.comp_def]

theorem clientKind_kindName (k : Kind) : clientKind (kindName k) = some k := by
  cases k <;> rfl

theorem mapM_some_of_forall {α β} (f : α → Option β) (g : α → β) (l : List α) (h : ∀ x ∈ l, f x = some (g x)) :
    l.mapM f = some (l.map g) := by
  induction l with
  | nil => rfl
  | cons a l ih =>
    simp [List.mapM_cons, h a List.mem_cons_self, ih (fun x hx => h x (List.mem_cons_of_mem _ hx))]

theorem lookup_of_nodup (ts : List IType) (h : (ts.map (·.name)).Nodup) (t : IType) (ht : t ∈ ts) :
    lookup ts t.name = some t := by
  induction ts with
  | nil => cases ht
  | cons a ts ih =>
    simp only [List.map_cons, List.nodup_cons] at h
    rcases List.mem_cons.mp ht with rfl | ht
    · simp [lookup]
    · have : a.name ≠ t.name := by
        intro e; exact h.1 (e ▸ List.mem_map_of_mem ht)
      have ih' := ih h.2 ht
      unfold lookup at ih' ⊢
      simp [this, ih']


-- ------------------------------------------------------------------ the registry built from a description

theorem register_name (D : Defects) (fl : Flavour) (all : List IType) (t : IType) :
    (register D fl all t).name = t.name := by
  unfold register; split <;> rfl

theorem register_kind (D : Defects) (fl : Flavour) (all : List IType) (t : IType) :
    (register D fl all t).kind = t.kind := by
  unfold register; split <;> simp_all

theorem mkRegistry_types (D : Defects) (fl : Flavour) (d : Desc) :
    (mkRegistry D fl d).types = (sortTypes (allTypes d)).map (register D fl (allTypes d)) := by
  simp only [mkRegistry, sortTypes]
  exact (List.map_mergeSort (fun a _ b _ => by simp [register_name])).symm

theorem lookup_mkRegistry (D : Defects) (fl : Flavour) (d : Desc)
    (hnd : ((allTypes d).map (·.name)).Nodup) (u : IType) (hu : u ∈ allTypes d) :
    lookup (mkRegistry D fl d).types u.name = some (register D fl (allTypes d) u) := by
  have hmem : register D fl (allTypes d) u ∈ (mkRegistry D fl d).types := by
    simp only [mkRegistry, sortTypes, List.mem_mergeSort]
    exact List.mem_map_of_mem hu
  have hn : ((mkRegistry D fl d).types.map (·.name)).Nodup := by
    have hp : (mkRegistry D fl d).types.Perm ((allTypes d).map (register D fl (allTypes d))) := by
      simp only [mkRegistry, sortTypes]; exact List.mergeSort_perm _ _
    rw [(hp.map _).nodup_iff, List.map_map]
    have : ((fun t : IType => t.name) ∘ register D fl (allTypes d)) = (fun t => t.name) := by
      funext t; simp [register_name]
    rw [this]; exact hnd
  have := lookup_of_nodup _ hn _ hmem
  rwa [register_name] at this

/-- all names resolve to OBJECT types of the registry -/
def ObjNames (ts : List IType) (ns : List String) : Prop :=
  ∀ n ∈ ns, ∃ u, lookup ts n = some u ∧ u.kind = .object

theorem namedRefs_objects (ts : List IType) (vn ns : List String) (h : ObjNames ts ns) :
    (namedRefs ts vn ns).any (fun r => refKind r != "OBJECT") = false := by
  rw [List.any_eq_false]
  intro r hr
  simp only [namedRefs, List.mem_map, List.mem_filter] at hr
  obtain ⟨n, ⟨hn, _⟩, rfl⟩ := hr
  obtain ⟨u, hl, hk⟩ := h n hn
  simp [refT, hl, hk, refKind, kindName]


/-- well-formed description: type names are unique in the registry (it is a map keyed by name) and
    union members name OBJECT types (enforced by the derive macro and by the dynamic builder) -/
def WellFormed (d : Desc) : Prop :=
  ((allTypes d).map (·.name)).Nodup ∧
    ∀ t ∈ allTypes d, t.kind = .union → ∀ m ∈ t.members, ∃ u ∈ allTypes d, u.name = m ∧ u.kind = .object

theorem kind_beq (a b : Kind) : (a == b) = decide (a = b) := by cases a <;> cases b <;> decide

/-- `buildClient`'s per-type decoder inverts the `__Type` resolver -/
theorem clientType_typeT (fl : Flavour) (d : Desc) (hwf : WellFormed d) (vn : List String) (c : Nat)
    (t : IType) (ht : t ∈ allTypes d) :
    clientType (typeT Defects.none (mkRegistry Defects.none fl d).types vn c true
        (register Defects.none fl (allTypes d) t)) = some (restrictType (allTypes d) vn c t) := by
  have hposs : ∀ ns, ObjNames (mkRegistry Defects.none fl d).types ns →
      (namedRefs (mkRegistry Defects.none fl d).types vn ns).any (fun r => refKind r != "OBJECT") = false :=
    fun ns h => namedRefs_objects _ vn ns h
  have hlk := lookup_mkRegistry Defects.none fl d hwf.1
  have n1 : Defects.none.interfacesNull = false := rfl
  have n2 : Defects.none.dynIfaceImplDropped = false := rfl
  have n3 : Defects.none.possibleListsInterfaces = false := rfl
  cases hk : t.kind
  case union =>
    have hobj : ObjNames (mkRegistry Defects.none fl d).types t.members := by
      intro m hm
      obtain ⟨u, hu, rfl, huk⟩ := hwf.2 t ht hk m hm
      exact ⟨_, hlk u hu, by rw [register_kind]; exact huk⟩
    simp [clientType, typeT, register, hk, kind_beq, restrictType, hposs _ hobj,
      namedRefs_base, kindName, clientKind]
  case interface =>
    have hobj : ObjNames (mkRegistry Defects.none fl d).types
        (sortNames (((allTypes d).filter (isPossibleOf Defects.none fl t.name)).map (·.name))) := by
      intro m hm
      simp only [sortNames, List.mem_mergeSort, List.mem_map, List.mem_filter] at hm
      obtain ⟨u, ⟨hu, hp⟩, rfl⟩ := hm
      refine ⟨_, hlk u hu, ?_⟩
      rw [register_kind]
      simp [isPossibleOf, n3, kind_beq] at hp
      exact hp.2
    have hfilt : (allTypes d).filter (isPossibleOf Defects.none fl t.name) =
        (allTypes d).filter (fun u => u.kind == .object && u.implements.contains t.name) := by
      congr 1; funext u; simp [isPossibleOf, n3, Bool.and_comm]
    rw [hfilt] at hobj
    have hp2 := hposs _ hobj
    simp only [List.any_eq_false, bne_iff_ne, ne_eq, Decidable.not_not, kind_beq] at hp2
    simp [clientType, typeT, register, hk, kind_beq, restrictType,
      namedRefs_base, kindName, clientKind, clientFields_fieldsT, n1, n2, implementors, hfilt]
    simpa using hp2
  all_goals
    simp [clientType, typeT, register, hk, kind_beq, restrictType,
      namedRefs_base, kindName, clientKind, clientFields_fieldsT, clientInputs_inputsT, clientEnumVals, n1]

end AGV.Lemmas.Introspect

namespace AGV.Props.C18
open AGV AGV.Core AGV.Model.Introspect AGV.Spec.Introspect AGV.Lemmas.Introspect

theorem builtin_listed (D : Defects) (fl : Flavour) (d : Desc) (c : Nat) (n : String) (hn : n ∈ builtinScalarNames) :
    n ∈ visibleNames D (mkRegistry D fl d) c := by
  simp only [visibleNames, List.mem_map, List.mem_filter]
  have hsys : isSystem n = true := by simp [isSystem, hn]
  have : ∃ t ∈ allTypes d, t.name = n := by
    by_cases h : d.types.any (·.name == n) = true
    · simp only [List.any_eq_true, beq_iff_eq] at h
      obtain ⟨t, ht, he⟩ := h
      exact ⟨t, by simp [allTypes, ht], he⟩
    · refine ⟨{ name := n, kind := .scalar }, ?_, rfl⟩
      simp only [allTypes, List.mem_append, List.mem_map, List.mem_filter]
      left; right
      exact ⟨n, ⟨hn, by simpa using h⟩, rfl⟩
  obtain ⟨t, ht, rfl⟩ := this
  refine ⟨register D fl (allTypes d) t, ⟨?_, ?_⟩, register_name _ _ _ _⟩
  · simp only [mkRegistry, sortTypes, List.mem_mergeSort]; exact List.mem_map_of_mem ht
  · simp [register_name, hsys]

theorem dir_refs (ts : List IType) :
    builtinDirectives.flatMap (fun d => inputRefs (dirArgsT ts true d.args)) = ["String", "Boolean", "Boolean", "String"] := by
  simp [builtinDirectives, inputRefs, dirArgsT, inputT, refBase_refT, nn]
  decide


/-- the round-trip law, for every flavour, every visibility rule and every context -/
theorem c18_roundtrip_wf (fl : Flavour) (d : Desc) (c : Nat) (hwf : WellFormed d)
    (hq : d.query ∈ visibleNames Defects.none (mkRegistry Defects.none fl d) c) :
    buildClient (introspect Defects.none (mkRegistry Defects.none fl d) c true) =
      some (restrict d (visibleNames Defects.none (mkRegistry Defects.none fl d) c) c) := by
  have hcl := c18_closed Defects.none rfl (mkRegistry Defects.none fl d) c true hq
  simp only at hcl
  obtain ⟨h1, h2, h3, h4⟩ := hcl
  have hclosed : closed (introspect Defects.none (mkRegistry Defects.none fl d) c true) = true := by
    simp only [closed, List.all_eq_true, List.contains_eq_mem, decide_eq_true_eq]
    intro n hn
    simp only [schemaRefs, List.mem_cons, List.mem_append, List.mem_map, Option.mem_toList,
      List.mem_flatMap] at hn
    rcases hn with ((rfl | hn | hn) | ⟨t, ht, hn⟩) | hn
    · exact h2
    · obtain ⟨r, hr, rfl⟩ := hn; exact h3 r hr
    · obtain ⟨r, hr, rfl⟩ := hn; exact h4 r hr
    · exact h1 t ht n hn
    · rw [mem_listed_introspect]
      have : n ∈ ["String", "Boolean", "Boolean", "String"] := by
        rw [← dir_refs (mkRegistry Defects.none fl d).types]
        simp only [List.mem_flatMap]
        simp only [introspect, List.mem_map] at hn
        obtain ⟨dt, ⟨d0, hd0, rfl⟩, hn⟩ := hn
        exact ⟨d0, hd0, hn⟩
      apply builtin_listed
      simp only [List.mem_cons, List.mem_nil_iff, or_false] at this
      rcases this with rfl | rfl | rfl | rfl <;> decide
  unfold buildClient
  rw [if_pos hclosed]
  generalize hvn : visibleNames Defects.none (mkRegistry Defects.none fl d) c = vn at *
  have htypes : (introspect Defects.none (mkRegistry Defects.none fl d) c true).types =
      ((sortTypes (allTypes d)).filter (fun t => vn.contains t.name)).map (fun t =>
        typeT Defects.none (mkRegistry Defects.none fl d).types vn c true (register Defects.none fl (allTypes d) t)) := by
    simp only [introspect, hvn]
    conv => lhs; arg 2; arg 2; rw [mkRegistry_types]
    rw [List.filter_map, List.map_map]
    congr 1
    · congr 1; funext t; simp [register_name]
  rw [htypes, List.mapM_map]
  rw [mapM_some_of_forall _ (restrictType (allTypes d) vn c)]
  · simp [restrict, introspect, hvn, rootRef, Option.map_map, Function.comp_def]
    simp [mkRegistry]
  · intro t ht
    simp only [List.mem_filter, sortTypes, List.mem_mergeSort] at ht
    exact clientType_typeT fl d hwf vn c t ht.1

end AGV.Props.C18
