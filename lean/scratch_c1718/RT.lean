import AGV.Lemmas.Introspect
namespace AGV.Lemmas.Introspect
open AGV AGV.Core AGV.Model.Introspect AGV.Spec.Introspect

theorem dep_roundtrip (d : Dep) : (if d.is = true then Dep.yes d.reason else Dep.no) = d := by
  cases d <;> simp [Dep.is, Dep.reason]

theorem clientInput_inputT (ts : List IType) (a : IInput) :
    clientInput (inputT ts a) = { a with vis := .always } := by
  simp [clientInput, inputT, decodeRef_refT]
  exact dep_roundtrip _

theorem clientInputs_inputsT (ts : List IType) (vn : List String) (c : Nat) (as : List IInput) :
    (inputsT Defects.none ts vn c true as).map clientInput = restrictInputs vn c as := by
  simp only [inputsT, restrictInputs, List.map_map, tyListed, Defects.none, Bool.false_or, Bool.true_or, Bool.true_and]
  congr 1
  funext a
  exact clientInput_inputT ts a

theorem clientField_fieldT (ts : List IType) (vn : List String) (c : Nat) (f : IField) :
    clientField (fieldT Defects.none ts vn c true f) =
      { f with vis := .always, args := restrictInputs vn c f.args } := by
  simp [clientField, fieldT, decodeRef_refT, clientInputs_inputsT]
  exact dep_roundtrip _

theorem clientFields_fieldsT (ts : List IType) (vn : List String) (c : Nat) (fs : List IField) :
    (fieldsT Defects.none ts vn c true fs).map clientField = restrictFields vn c fs := by
  simp only [fieldsT, restrictFields, List.map_map, tyListed, Defects.none, Bool.false_or, Bool.true_or, Bool.and_true]
  congr 1
  funext f
  exact clientField_fieldT ts vn c f

theorem clientEnumVals (c : Nat) (vs : List IEnumVal) :
    (enumValsT c true vs).map (fun v =>
      ({ name := v.name, desc := v.desc, dep := if v.isDep then .yes v.reason else .no, vis := .always } : IEnumVal))
    = (vs.filter (fun v => v.vis.holds c)).map (fun v => { v with vis := .always }) := by
  simp only [enumValsT, List.map_map, Bool.true_or, Bool.and_true]
  congr 1
  funext v
  simp [dep_roundtrip]

theorem namedRefs_base (ts : List IType) (vn ns : List String) :
    (namedRefs ts vn ns).map refBase = ns.filter vn.contains := by
  simp [namedRefs, refBase_refT, TypeRef.base, Function.comp_def]

theorem clientKind_kindName (k : Kind) : clientKind (kindName k) = some k := by
  cases k <;> rfl

theorem mapM_some_of_forall {α β} (f : α → Option β) (g : α → β) (l : List α) (h : ∀ x ∈ l, f x = some (g x)) :
    l.mapM f = some (l.map g) := by
  induction l with
  | nil => rfl
  | cons a l ih =>
    simp [List.mapM_cons, h a List.mem_cons_self, ih (fun x hx => h x (List.mem_cons_of_mem _ hx))]

theorem lookup_of_nodup (ts : List IType) (h : (ts.map (·.name)).Nodup) (t : IType) (ht : t ∈ ts) :
    lookup ts t.name = some t := by
  induction ts with
  | nil => cases ht
  | cons a ts ih =>
    simp only [List.map_cons, List.nodup_cons] at h
    rcases List.mem_cons.mp ht with rfl | ht
    · simp [lookup]
    · have : a.name ≠ t.name := by
        intro e; exact h.1 (e ▸ List.mem_map_of_mem ht)
      have ih' := ih h.2 ht
      unfold lookup at ih' ⊢
      simp [List.find?_cons, this, ih']

end AGV.Lemmas.Introspect
