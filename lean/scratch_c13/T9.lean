import AGV.Spec.Parse
open AGV.Spec.Parse
#check @pValue.items
#check @pValue.fields
#print axioms pValue
#check @pValue.eq_def
#check @pValue.items.eq_def
