/-
  Property C13: the rules of the repaired grammar (`grammarFor Defects.none`) the token lemmas read.
-/
import Scr.PegC13Str
namespace AGV.Lemmas.PegX
open AGV.Model.Peg AGV.Model.BuildAst AGV.Lemmas.PegC13

/-- the grammar the model interprets with every repair applied -/
abbrev G0 : Grammar := grammarFor Defects.none

theorem tokRules0 : TokRules G0 := ⟨by rfl, by rfl, by rfl, by rfl, by rfl⟩
theorem strRules0 : StrRules G0 := ⟨by rfl, by rfl, by rfl, by rfl, by rfl⟩
theorem number0 : findRule G0 "number" = some numberRuleP := by rfl
theorem string0 : findRule G0 "string" = some stringRuleP := by rfl

def kwList : List (List Char) :=
  ["query".toList, "mutation".toList, "subscription".toList, "fragment".toList, "on".toList,
   "true".toList, "false".toList, "null".toList]

set_option maxRecDepth 8000 in
theorem kw0 : ∀ x ∈ kwList, findRule G0 (kwRuleName x) = some (kwRule x) ∧
    kwRuleName x ≠ "SOI" ∧ kwRuleName x ≠ "EOI" ∧ charClass (kwRuleName x) = none := by
  intro x hx
  simp only [kwList, List.mem_cons, List.not_mem_nil, or_false] at hx
  rcases hx with rfl | rfl | rfl | rfl | rfl | rfl | rfl | rfl <;>
    exact ⟨by rfl, by decide, by decide, by rfl⟩
end AGV.Lemmas.PegX
