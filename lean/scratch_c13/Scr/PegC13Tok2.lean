/-
  Property C13: the grammar's literals (punctuators, `...`, keyword literals guarded by `&kw_x`) and
  the `number` rule against the specification's `lexToken`, with exact positions and pairs.
-/
import Scr.PegC13Lex
namespace AGV.Lemmas.PegX
open AGV.Model.Peg AGV.Model.BuildAst AGV.Spec.Lex AGV.Spec.Literal AGV.Lemmas.PegC13

-- ------------------------------------------------------------------ punctuators

theorem lexToken_punct (c : Char) (r : List Char) (h : isPunct c = true) : lexToken (c :: r) = some (.punct c, r) := by
  unfold lexToken
  simp only [h, if_true]

/-- a one-character literal that is a Punctuator matches exactly when the next token is it -/
theorem ev_punct (g : Grammar) (c : Ctx) (x : Char) (hx : isPunct x = true) (p : Nat) (s : List Char) :
    EvR g c (.str [x]) p s 1
      (match s with
       | ch :: r => if ch = x then .ok (p + 1) r [] else .fail
       | [] => .fail) := by
  refine (EvR.str1_cls g c x p s).cast ?_
  cases s with
  | nil => rfl
  | cons ch r => simp [clsRes]

def isNumTok : Tok → Bool
  | .int _ _ => true
  | .float _ _ _ _ _ => true
  | _ => false

theorem lexNumber_kind {s rest : List Char} {t : Tok} (h : lexNumber s = some (t, rest)) : isNumTok t = true := by
  rw [lexNumber_eq] at h
  simp only [lexNumber'] at h
  repeat' (split at h)
  all_goals try (simp only [Option.some.injEq, Prod.mk.injEq, reduceCtorEq] at h)
  all_goals (rcases h with ⟨h, -⟩; subst h; rfl)

theorem lexToken_punct_inv {s rest : List Char} {y : Char} (h : lexToken s = some (.punct y, rest)) :
    s = y :: rest ∧ isPunct y = true := by
  unfold lexToken at h
  repeat' (split at h)
  all_goals try (simp only [Option.some.injEq, Prod.mk.injEq, reduceCtorEq, Tok.punct.injEq, false_and] at h)
  · obtain ⟨rfl, rfl⟩ := h; exact ⟨rfl, by assumption⟩
  · have := lexNumber_kind h; simp [isNumTok] at this

theorem punct_lex (x : Char) (hx : isPunct x = true) (s : List Char) :
    (match s with
     | ch :: r => if ch = x then some r else none
     | [] => none) =
    (match lexToken s with
     | some (.punct y, rest) => if y = x then some rest else none
     | _ => none) := by
  cases s with
  | nil => rfl
  | cons ch r =>
    by_cases h : ch = x
    · subst h; simp [lexToken_punct _ _ hx]
    · simp only [h, if_false]
      split
      · rename_i y rest heq
        obtain ⟨e, -⟩ := lexToken_punct_inv heq
        cases e
        simp [h]
      · rfl
