/-
  Property C13: the token-level refinement statements (grammar rule run by the interpreter =
  specification lexer), packaged for `Props/C13.lean`.
-/
import Scr.PegC13Rules
namespace AGV.Lemmas.PegX
open AGV.Model.Peg AGV.Model.BuildAst AGV.Spec.Lex AGV.Spec.Literal AGV.Lemmas.PegC13

/-- the text a pair spans, when the input is `pre ++ s` and the pair starts where `s` starts -/
theorem asStr_anchor (D : AGV.Model.BuildAst.Defects) (pre s : List Char) (k : Nat) (r : String) (inner : List Pair) :
    Env.asStr ⟨D, (pre ++ s).toArray⟩ (Pair.mk r pre.length (pre.length + k) inner) = s.take k := by
  simp [Env.asStr, Pair.start, Pair.stop, Array.toList_extract, List.extract_eq_take_drop]

theorem asStr_anchor' (D : AGV.Model.BuildAst.Defects) (pre mid s : List Char) (k : Nat) (r : String) (inner : List Pair) :
    Env.asStr ⟨D, (pre ++ (mid ++ s)).toArray⟩ (Pair.mk r (pre.length + mid.length) (pre.length + mid.length + k) inner)
      = s.take k := by
  have := asStr_anchor D (pre ++ mid) s k r inner
  simpa [List.append_assoc] using this

def nameSpecRes (c : Ctx) (p : Nat) (s : List Char) : Res :=
  match lexToken s with
  | some (.name n, rest) => .ok (p + n.length) rest (if emits c then [Pair.mk "name" p (p + n.length) []] else [])
  | _ => .fail

theorem name_spec (c : Ctx) (p : Nat) (s : List Char) (f : Nat) (hf : s.length + 8 ≤ f) :
    eval G0 f c (.ident "name") p s = nameSpecRes c p s := by
  rw [ev_nameR tokRules0 c p s f hf, nameRes_tok, nameTok_lex, nameSpecRes]
  cases lexToken s with
  | none => rfl
  | some x => obtain ⟨tok, rest⟩ := x; cases tok <;> rfl

theorem punct_spec (g : Grammar) (c : Ctx) (x : Char) (hx : isPunct x = true) (p : Nat) (s : List Char) (f : Nat)
    (hf : 1 ≤ f) : eval g f c (.str [x]) p s = resOf (p + 1) (punctTok x s) := by
  rw [ev_punct g c x p s f hf, punct_lex x hx s]

/-- `...` -/
def spreadTok (s : List Char) : Option (List Char) :=
  match lexToken s with
  | some (.spread, rest) => some rest
  | _ => none

theorem lexToken_spread3 (r' : List Char) : lexToken ('.' :: '.' :: '.' :: r') = some (.spread, r') := by
  unfold lexToken
  have h1 : isPunct '.' = false := by decide
  simp only [h1, Bool.false_eq_true, if_false, if_true]

theorem lexToken_dot_other (r : List Char) (h : ∀ r', r ≠ '.' :: '.' :: r') : lexToken ('.' :: r) = none := by
  unfold lexToken
  have h1 : isPunct '.' = false := by decide
  simp only [h1, Bool.false_eq_true, if_false, if_true]

theorem lexToken_spread_inv {s rest : List Char} (h : lexToken s = some (.spread, rest)) : ∃ r, s = '.' :: r := by
  unfold lexToken at h
  repeat' (split at h)
  all_goals try (simp only [Option.some.injEq, Prod.mk.injEq, reduceCtorEq, false_and] at h)
  · subst_vars; exact ⟨_, rfl⟩
  · have := lexNumber_kind h; simp [isNumTok] at this

theorem spread_lex (s : List Char) : matchStr ['.', '.', '.'] s = spreadTok s := by
  unfold spreadTok
  cases s with
  | nil => rfl
  | cons c r =>
    by_cases hc : c = '.'
    · subst hc
      rcases r with _ | ⟨a, _ | ⟨b, r'⟩⟩
      · rw [lexToken_dot_other _ (fun r' e => by cases e)]; rfl
      · rw [lexToken_dot_other _ (fun r' e => by cases e)]
        simp [matchStr]
      · by_cases ha : a = '.'
        · subst ha
          by_cases hb : b = '.'
          · subst hb; rw [lexToken_spread3]; simp [matchStr]
          · have hb' : ¬ '.' = b := fun e => hb e.symm
            rw [lexToken_dot_other _ (fun r' e => by cases e; exact hb rfl)]
            simp [matchStr, hb']
        · have ha' : ¬ '.' = a := fun e => ha e.symm
          rw [lexToken_dot_other _ (fun r' e => by cases e; exact ha rfl)]
          simp [matchStr, ha']
    · have hc' : ¬ '.' = c := fun e => hc e.symm
      simp only [matchStr, hc', if_false]
      cases hl : lexToken (c :: r) with
      | none => rfl
      | some y =>
        obtain ⟨tok, rest⟩ := y
        cases tok with
        | spread => obtain ⟨r', e⟩ := lexToken_spread_inv hl; cases e; exact absurd rfl hc
        | _ => rfl

theorem spread_spec (g : Grammar) (c : Ctx) (p : Nat) (s : List Char) (f : Nat) (hf : 1 ≤ f) :
    eval g f c (.str ['.', '.', '.']) p s = resOf (p + 3) (spreadTok s) := by
  rw [EvR.str g c _ p s f hf, strRes, spread_lex]
  cases spreadTok s <;> rfl

theorem kwList_shape : ∀ x ∈ kwList, ∃ x0 xs, x = x0 :: xs ∧ pestNameStart x0 = true ∧
    ∀ c ∈ xs, pestNameCont c = true := by
  intro x hx
  simp only [kwList, List.mem_cons, List.not_mem_nil, or_false] at hx
  rcases hx with rfl | rfl | rfl | rfl | rfl | rfl | rfl | rfl <;>
    exact ⟨_, _, by simp; exact ⟨rfl, rfl⟩, by decide, by decide⟩

/-- a keyword literal `&kw_x ~ "x"` of the repaired grammar, where sequences skip, at the start of
    a token: matches exactly when the next token is the Name `x` -/
theorem keyword_spec (x : List Char) (hx : x ∈ kwList) (c : Ctx) (hc : c.atom = .non) (p : Nat) (s : List Char)
    (hs : TokStart s) (f : Nat) (hf : 2 * s.length + 19 ≤ f) :
    eval G0 f c (.seq (.pos (.ident (kwRuleName x))) (.str x)) p s = resOf (p + x.length) (kwTok x s) := by
  obtain ⟨k1, k2, k3, k4⟩ := kw0 x hx
  obtain ⟨x0, xs, rfl, h0, hall⟩ := kwList_shape x hx
  rw [ev_kwLit_skip tokRules0 _ k1 k2 k3 k4 c hc p s hs f hf, kwRes, kwMatch_lex x0 xs h0 hall]
  cases kwTok (x0 :: xs) s <;> rfl

/-- … and inside a compound-atomic rule (`enum_value`) -/
theorem keyword_spec_tight (x : List Char) (hx : x ∈ kwList) (c : Ctx) (hc : c.atom ≠ .non) (p : Nat)
    (s : List Char) (f : Nat) (hf : 10 ≤ f) :
    eval G0 f c (.seq (.pos (.ident (kwRuleName x))) (.str x)) p s = resOf (p + x.length) (kwTok x s) := by
  obtain ⟨k1, k2, k3, k4⟩ := kw0 x hx
  obtain ⟨x0, xs, rfl, h0, hall⟩ := kwList_shape x hx
  rw [ev_kwLit_tight _ k1 k2 k3 k4 c hc p s f hf, kwRes, kwMatch_lex x0 xs h0 hall]
  cases kwTok (x0 :: xs) s <;> rfl

-- ------------------------------------------------------------------ number

/-- the next token is an IntValue or FloatValue -/
def numTok (s : List Char) : Option (Tok × List Char) :=
  match lexToken s with
  | some (t, rest) => if isNumTok t then some (t, rest) else none
  | none => none

theorem lexNumber_nondigit (c : Char) (r : List Char) (h1 : c ≠ '-') (h2 : isDig c = false) :
    lexNumber (c :: r) = none := by
  rw [lexNumber_eq]
  simp only [lexNumber', List.head?_cons, Option.some.injEq, h1, decide_false, Bool.false_eq_true, if_false,
    digitsOf, h2, List.isEmpty_nil, Bool.true_or, if_true]

theorem lexNumber_tok (s : List Char) : lexNumber s = numTok s := by
  unfold numTok
  cases s with
  | nil => rfl
  | cons c r =>
    by_cases hc : c = '-' ∨ isDig c = true
    · obtain ⟨h1, h2, -, -, -, h6⟩ := numStart_cls c hc
      have hl : lexToken (c :: r) = lexNumber (c :: r) := by
        unfold lexToken
        have hb : (decide (c = '-') || isDig c) = true := by simpa using hc
        simp only [h1, h2, h6, hb, Bool.false_eq_true, if_false, if_true]
      rw [hl]
      cases hn : lexNumber (c :: r) with
      | none => rfl
      | some x => obtain ⟨t, rest⟩ := x; simp [lexNumber_kind hn]
    · simp only [not_or] at hc
      have h2 : isDig c = false := by simpa using hc.2
      rw [lexNumber_nondigit c r hc.1 h2]
      cases hl : lexToken (c :: r) with
      | none => rfl
      | some x =>
        obtain ⟨t, rest⟩ := x
        have hk : isNumTok t = false := by
          unfold lexToken at hl
          have hb : (decide (c = '-') || isDig c) = false := by simp [hc.1, h2]
          simp only [hb, Bool.false_eq_true, if_false] at hl
          repeat' (split at hl)
          all_goals try (simp only [Option.some.injEq, Prod.mk.injEq, reduceCtorEq, false_and] at hl)
          all_goals (obtain ⟨rfl, -⟩ := hl; rfl)
        simp [hk]

def numberSpecRes (c : Ctx) (p : Nat) (s : List Char) : Res :=
  match numTok s with
  | some (_, rest) =>
    .ok (p + (s.length - rest.length)) rest
      (if emits c then [Pair.mk "number" p (p + (s.length - rest.length)) []] else [])
  | none => .fail

theorem number_spec (c : Ctx) (p : Nat) (s : List Char) (f : Nat) (hf : s.length + 21 ≤ f) :
    eval G0 f c (.ident "number") p s = numberSpecRes c p s := by
  rw [ev_numberR numRules_none number0 c p s f hf, numberRes, numberSpecRes, lexNumber_tok]
  cases numTok s with
  | none => rfl
  | some x => rfl

-- ------------------------------------------------------------------ skipping

/-- implicit skipping stops at the start of the next token, consumes a prefix, and does not change
    what the specification's lexer sees -/
theorem skip_spec (c : Ctx) (hc : c.atom = .atomic) (p : Nat) (s : List Char) (f : Nat)
    (hf : 2 * s.length + 17 ≤ f) :
    eval G0 f c skipExpr p s = .ok (p + (s.length - (skipI s).length)) (skipI s) [] ∧
      TokStart (skipI s) ∧ toks (skipI s) = toks s ∧ tokens (skipI s) = tokens s ∧
      ∃ pre, s = pre ++ skipI s := by
  have h := ev_skipR tokRules0 c hc p s
  refine ⟨h f hf, tokStart_skipI s, toks_skipI s, ?_, ?_⟩
  · by_cases hb : bad ∈ toks s
    · rw [tokens_none s hb, tokens_none _ (by rw [toks_skipI]; exact hb)]
    · rw [tokens_some s hb, tokens_some _ (by rw [toks_skipI]; exact hb), toks_skipI]
  · obtain ⟨pre, h1, -⟩ := h.consumes
    exact ⟨pre, h1⟩

-- ------------------------------------------------------------------ string

theorem strTokOf_eq (s : List Char) : strTokOf s = strTok s := strTok_lex s

open AGV.Model.Print in
/-- what the grammar reads and what the tree builder makes of it is the specification's token -/
theorem stringInner_tok (pre s : List Char) :
    (∀ p1 rest q, stringInner pre.length s = some (p1, rest, q) →
      ∃ v, strTokOf s = some (v, rest) ∧ p1 = pre.length + (s.length - rest.length) ∧
        buildValue ⟨Defects.none, (pre ++ s).toArray⟩ 1
          (Pair.mk "value" pre.length p1 [Pair.mk "string" pre.length p1 [q]]) = .ok (.str v)) ∧
    (stringInner pre.length s = none → strTokOf s = none) := by
  unfold stringInner strTokOf
  cases hm : matchStr tq s with
  | some s1 =>
    simp only []
    have hs := matchStr_append _ _ _ hm
    cases hsp : splitBlock s1 with
    | none => exact ⟨fun _ _ _ h => (by cases h), fun _ => rfl⟩
    | some x =>
      obtain ⟨raw, rest⟩ := x
      refine ⟨?_, fun h => (by cases h)⟩
      intro p1 rest' q h
      simp only [Option.map_some, Option.some.injEq, Prod.mk.injEq] at h
      obtain ⟨rfl, rfl, rfl⟩ := h
      obtain ⟨-, e2⟩ := (blockScan s1.length s1 (Nat.le_refl _)).1 _ _ hsp
      refine ⟨_, rfl, ?_, ?_⟩
      · rw [hs, e2]; simp [tq]; omega
      · have ha : Env.asStr ⟨Defects.none, (pre ++ s).toArray⟩
            (Pair.mk "block_string_content" (pre.length + 3) (pre.length + 3 + raw.length) []) = raw := by
          have := asStr_anchor' Defects.none pre tq s1 raw.length "block_string_content" []
          rw [hs]
          simp only [tq, List.length_cons, List.length_nil] at this ⊢
          rw [this, e2]; simp [tq]
        simp [buildValue, Pair.inner, Pair.rule, ha]
        rfl
  | none =>
    simp only []
    cases hq : matchStr ['"'] s with
    | none => exact ⟨fun _ _ _ h => (by cases h), fun _ => rfl⟩
    | some s1 =>
      simp only []
      have hs := matchStr_append _ _ _ hq
      cases hsp : scanStr s1 with
      | none => exact ⟨fun _ _ _ h => (by cases h), fun _ => rfl⟩
      | some x =>
        obtain ⟨raw, rest⟩ := x
        refine ⟨?_, fun h => (by cases h)⟩
        intro p1 rest' q h
        simp only [Option.map_some, Option.some.injEq, Prod.mk.injEq] at h
        obtain ⟨rfl, rfl, rfl⟩ := h
        obtain ⟨-, e2⟩ := (strScan s1.length s1 (Nat.le_refl _)).1 _ _ hsp
        obtain ⟨v, hv⟩ := stringValue_total s1.length s1 raw rest (Nat.le_refl _) hsp
        refine ⟨v, by simp [hv], ?_, ?_⟩
        · rw [hs, e2]; simp; omega
        · have ha : Env.asStr ⟨Defects.none, (pre ++ s).toArray⟩
              (Pair.mk "string_content" (pre.length + 1) (pre.length + 1 + raw.length) []) = raw := by
            have := asStr_anchor' Defects.none pre ['"'] s1 raw.length "string_content" []
            rw [hs]
            simp only [List.length_cons, List.length_nil] at this ⊢
            rw [this, e2]; simp
          simp [buildValue, Pair.inner, Pair.rule, ha, hv]

def stringSpecOk (pre s : List Char) (r : Res) (v rest : List Char) : Prop :=
  ∃ q, r = .ok (pre.length + (s.length - rest.length)) rest
      [Pair.mk "string" pre.length (pre.length + (s.length - rest.length)) [q]] ∧
    buildValue ⟨Defects.none, (pre ++ s).toArray⟩ 1
      (Pair.mk "value" pre.length (pre.length + (s.length - rest.length))
        [Pair.mk "string" pre.length (pre.length + (s.length - rest.length)) [q]]) = .ok (.str v)

/-- the repaired `string` rule accepts exactly the specification's StringValue tokens (block and
    quoted), leaves the same rest, and the tree builder computes the token's value from its pair -/
theorem string_spec (pre s : List Char) (c : Ctx) (hl : c.look = false) (hna : c.atom ≠ .atomic) (f : Nat)
    (hf : s.length + 22 ≤ f) :
    match strTok s with
    | some (v, rest) => stringSpecOk pre s (eval G0 f c (.ident "string") pre.length s) v rest
    | none => eval G0 f c (.ident "string") pre.length s = .fail := by
  rw [ev_stringR tokRules0 strRules0 string0 c hl hna pre.length s f hf, stringRes, ← strTokOf_eq]
  obtain ⟨a1, a2⟩ := stringInner_tok pre s
  cases hi : stringInner pre.length s with
  | none => rw [a2 hi]
  | some x =>
    obtain ⟨p1, rest, q⟩ := x
    obtain ⟨v, e1, e2, e3⟩ := a1 _ _ _ hi
    rw [e1]
    subst e2
    exact ⟨q, rfl, e3⟩
