import AGV.Lemmas.ParseC13
open AGV.Model.Peg AGV.Model.BuildAst AGV.Gen.Grammar

def followPatched : Expr := .choice (.ident "name_start") (.choice (.ident "ASCII_DIGIT") (.str ['.']))

theorem f_int : findRule (grammarFor Defects.none) "int" = some r_int := by rfl
theorem f_float : findRule (grammarFor Defects.none) "float" = some r_float := by rfl
theorem f_frac : findRule (grammarFor Defects.none) "fractional" = some r_fractional := by rfl
theorem f_exp : findRule (grammarFor Defects.none) "exponent" = some r_exponent := by rfl
theorem f_ns : findRule (grammarFor Defects.none) "name_start" = some r_name_start := by rfl
theorem f_num : findRule (grammarFor Defects.none) "number" =
  some ⟨"number", .atomic, .seq (.choice (.ident "float") (.ident "int")) (.neg followPatched)⟩ := by rfl
