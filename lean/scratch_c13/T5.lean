import AGV.Model.Peg
import AGV.Lemmas.Literal
open AGV.Model.Peg AGV.Lemmas.Literal
theorem lower_d (h : Char) : (lowerAscii 'd' = lowerAscii h) ↔ (h = 'd' ∨ h = 'D') := by
  have e0 : lowerAscii 'd' = 'd' := by decide
  have key : ∀ k, k < 26 → (Char.ofNat (k + 65 + 32)).toNat = k + 65 + 32 := by decide
  have e1 : 'd'.toNat = 100 := by decide
  have e2 : 'D'.toNat = 68 := by decide
  rw [e0]
  unfold lowerAscii
  split
  · rename_i hu
    simp only [Bool.and_eq_true, decide_eq_true_eq] at hu
    have hk := key (h.toNat - 65) (by omega)
    have e : h.toNat - 65 + 65 = h.toNat := by omega
    rw [e] at hk
    rw [char_eq_iff, char_eq_iff h, char_eq_iff h, hk, e1, e2]
    omega
  · rename_i hu
    simp only [Bool.and_eq_true, decide_eq_true_eq] at hu
    rw [char_eq_iff, char_eq_iff h, char_eq_iff h, e1, e2]
    omega
