import AGV.Model.BuildAst
import AGV.Spec.Parse
open AGV.Core.PAst AGV.Model.BuildAst

mutual
def normV : PValue → PValue
  | .list xs => .list (normVs xs)
  | .obj fs => .obj (indexMapCollect (normFs fs))
  | v => v
def normVs : List PValue → List PValue
  | [] => []
  | x :: xs => normV x :: normVs xs
def normFs : List (Name × PValue) → List (Name × PValue)
  | [] => []
  | (k, v) :: fs => (k, normV v) :: normFs fs
end

mutual
def noFloatV : PValue → Bool
  | .float _ => false
  | .list xs => noFloatVs xs
  | .obj fs => noFloatFs fs
  | _ => true
def noFloatVs : List PValue → Bool
  | [] => true
  | x :: xs => noFloatV x && noFloatVs xs
def noFloatFs : List (Name × PValue) → Bool
  | [] => true
  | (_, v) :: fs => noFloatV v && noFloatFs fs
end
#print axioms normV
example : normV (.list [.int 1]) = .list [.int 1] := by simp [normV, normVs]
example : normV (.int 1) = .int 1 := by simp [normV]
