import Scr.PegC13Val2
namespace AGV.Lemmas.PegX
open AGV.Model.Peg AGV.Model.BuildAst AGV.Spec.Lex AGV.Spec.Parse AGV.Core.PAst AGV.Lemmas.PegC13

theorem spanDigits_append (ds r : List Char) (hd : ∀ c ∈ ds, isDig c = true) (hr : ∀ c r', r = c :: r' → isDig c = false) :
    spanDigits (ds ++ r) = (ds, r) := by
  induction ds with
  | nil =>
    cases r with
    | nil => rfl
    | cons c r' =>
      have : isDigitC c = false := hr c r' rfl
      simp [spanDigits, this]
  | cons c t ih =>
    have hc : isDigitC c = true := hd c (by simp)
    have := ih (fun d hd' => hd d (by simp [hd']))
    simp [spanDigits, hc, this]

/-- the model's value of a float token from its parts (correctly rounded path) -/
def modelFloat (neg : Bool) (ip fr : List Char) (exNeg : Bool) (ex : List Char) : Except PErr PValue :=
  let exv : Int := if exNeg then -(natOf ex : Int) else natOf ex
  let m := natOf (ip ++ fr)
  let e : Int := exv - fr.length
  let b := if e < -400 - ((ip.length + fr.length : Nat) : Int) then 0
    else if e > 400 && m ≠ 0 then AGV.F64.infBits else AGV.F64.ofDecimal m e
  if b ≥ AGV.F64.infBits then .error .number else .ok (.float (if neg then AGV.F64.neg b else b))

example (ip fr : List Char) (hip : ip ≠ []) (hd : ∀ c ∈ ip, isDig c = true) (hfr : ∀ c ∈ fr, isDig c = true) (hfrne : fr ≠ []) :
    parseNumber Defects.none (ip ++ '.' :: fr) = modelFloat false ip fr false [] := by
  obtain ⟨d, r, rfl⟩ := List.exists_cons_of_ne_nil hip
  have hd0 : isDig d = true := hd d (by simp)
  have hdm : d ≠ '-' := by intro e; subst e; revert hd0; decide
  have h1 : spanDigits ((d :: r) ++ '.' :: fr) = (d :: r, '.' :: fr) := spanDigits_append _ _ hd (by intro c r' e; cases e; decide)
  have h2 : spanDigits fr = (fr, []) := by simpa using spanDigits_append fr [] hfr (by intro c r' e; cases e)
  simp only [parseNumber, List.cons_append, List.head?_cons, Option.some.injEq, hdm, decide_false, Bool.false_eq_true, if_false]
  rw [show d :: (r ++ '.' :: fr) = (d :: r) ++ '.' :: fr from rfl, h1]
  simp only [h2]
  simp [Defects.none, modelFloat, decimalOf, natOf]
  sorry
end AGV.Lemmas.PegX
