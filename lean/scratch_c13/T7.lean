import Scr.PegC13Str
namespace AGV.Lemmas.PegX
open AGV.Model.Peg AGV.Model.BuildAst AGV.Lemmas.PegC13
abbrev G0 : Grammar := grammarFor Defects.none
set_option maxRecDepth 8000 in
theorem kwq : findRule G0 (kwRuleName "query".toList) = some (kwRule "query".toList) := by rfl
set_option maxRecDepth 8000 in
theorem kwq2 : findRule G0 (kwRuleName "null".toList) = some (kwRule "null".toList) := by decide
end AGV.Lemmas.PegX
