import Scr.PegC13Skip
import AGV.Lemmas.ParseC13Number
namespace AGV.Lemmas.PegX
open AGV.Model.Peg AGV.Spec.Lex AGV.Spec.Literal AGV.Lemmas.PegC13

theorem lexString_lt : ∀ (n : Nat) (r v rest : List Char), r.length ≤ n → lexString r = some (v, rest) → rest.length < r.length := by
  intro n
  induction n with
  | zero => intro r v rest hn h; cases r with
    | nil => simp [lexString] at h
    | cons _ _ => simp at hn
  | succ n ih =>
    intro r v rest hn h
    unfold lexString at h
    repeat' (split at h)
    all_goals try (simp only [Option.ite_none_right_eq_some, Option.some.injEq, Prod.mk.injEq, ite_self, reduceCtorEq] at h)
    all_goals try (rcases h with ⟨-, -, h⟩)
    all_goals try (rcases h with ⟨-, h⟩)
    all_goals try subst h
    all_goals simp only [List.length_cons] at hn ⊢
    all_goals try omega
    all_goals (rename_i hs; have := ih _ _ _ (by omega) hs; omega)
end AGV.Lemmas.PegX
