import Scr.PegC13Val2
namespace AGV.Lemmas.PegX
open AGV.Model.Peg AGV.Model.BuildAst AGV.Spec.Lex AGV.Spec.Parse AGV.Core.PAst AGV.Lemmas.PegC13

theorem digitsOf_split (b : List Char) : b = (digitsOf b).1 ++ (digitsOf b).2 ∧ ∀ c ∈ (digitsOf b).1, isDig c = true := by
  induction b with
  | nil => exact ⟨rfl, by simp [digitsOf]⟩
  | cons c r ih =>
    simp only [digitsOf]
    split
    · rename_i h
      refine ⟨by simp; exact ih.1, ?_⟩
      intro d hd
      simp at hd
      rcases hd with rfl | hd
      · exact h
      · exact ih.2 d hd
    · exact ⟨rfl, by simp⟩

theorem fracT_noFr (r1 : List Char) (h : (fracT r1).2.2 = false) : (fracT r1).2.1 = r1 := by
  unfold fracT at h ⊢
  split
  · split
    · rfl
    · rename_i h2; simp [h2] at h
  · rfl

theorem expT_noEx (r2 : List Char) (h : (expT r2).2.2.2 = false) : (expT r2).2.2.1 = r2 := by
  unfold expT at h ⊢
  repeat' split
  all_goals first | rfl | (simp_all)

theorem lexNumber_int_text {s rest ds : List Char} {neg : Bool} (h : lexNumber s = some (.int neg ds, rest)) :
    s = (if neg then ['-'] else []) ++ ds ++ rest ∧ ds ≠ [] ∧ (∀ c ∈ ds, isDig c = true) := by
  rw [lexNumber_eq] at h
  simp only [lexNumber'] at h
  have hs : s = (if decide (s.head? = some '-') then ['-'] else []) ++ (if s.head? = some '-' then s.tail else s) := by
    cases s with
    | nil => rfl
    | cons c r =>
      by_cases hc : c = '-'
      · subst hc; simp
      · simp [hc]
  generalize (if s.head? = some '-' then s.tail else s) = b at h hs
  have hb := digitsOf_split b
  by_cases hbad : ((digitsOf b).fst.isEmpty || decide ((digitsOf b).fst.head? = some '0') && decide ((digitsOf b).fst.length > 1)) = true
  · simp only [hbad, if_true] at h; cases h
  · simp only [hbad, if_false, Bool.false_eq_true] at h
    split at h
    · cases h
    · split at h
      · cases h
      · rename_i hfl
        simp only [Option.some.injEq, Prod.mk.injEq, Tok.int.injEq] at h
        obtain ⟨⟨h1, h2⟩, h3⟩ := h
        simp only [Bool.or_eq_true, not_or, Bool.not_eq_true] at hfl
        rw [expT_noEx _ hfl.2, fracT_noFr _ hfl.1] at h3
        subst h1 h2 h3
        refine ⟨?_, ?_, hb.2⟩
        · conv => lhs; rw [hs, hb.1]
          simp [List.append_assoc]
        · intro he
          simp [he] at hbad

theorem spanDigits_all (ds : List Char) (hd : ∀ c ∈ ds, isDig c = true) : spanDigits ds = (ds, []) := by
  induction ds with
  | nil => rfl
  | cons c r ih =>
    have hc : isDigitC c = true := hd c (by simp)
    have := ih (fun d hd' => hd d (by simp [hd']))
    simp [spanDigits, hc, this]

theorem parseNumber_int (neg : Bool) (ds : List Char) (hne : ds ≠ []) (hd : ∀ c ∈ ds, isDig c = true) :
    parseNumber Defects.none ((if neg then ['-'] else []) ++ ds) =
      .ok (.int (if neg then -(natOf ds : Int) else natOf ds)) := by
  have hsp := spanDigits_all ds hd
  cases neg with
  | true =>
    simp only [if_true, List.cons_append, List.nil_append, parseNumber, List.head?_cons, List.tail_cons, hsp]
    simp [Defects.none, natOf]
  | false =>
    obtain ⟨d, r, rfl⟩ := List.exists_cons_of_ne_nil hne
    have hd0 : isDig d = true := hd d (by simp)
    have hdm : d ≠ '-' := by
      intro e; subst e; revert hd0; decide
    simp only [Bool.false_eq_true, if_false, List.nil_append, parseNumber, List.head?_cons, Option.some.injEq, hdm,
      decide_false, hsp]
    simp [Defects.none, natOf]
end AGV.Lemmas.PegX
