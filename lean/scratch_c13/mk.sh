#!/bin/bash
# usage: mk.sh Name  -- compiles scratch_c13/Scr/Name.lean to olean
cd /verif/lean
LP=$(lake env printenv LEAN_PATH):/verif/lean/scratch_c13
LEAN_PATH=$LP lake env lean -o scratch_c13/Scr/$1.olean scratch_c13/Scr/$1.lean 2>&1 | head -${2:-60}
