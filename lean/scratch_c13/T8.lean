import Scr.PegC13Rep
namespace AGV.Lemmas.PegX
open AGV.Model.Peg AGV.Model.BuildAst AGV.Lemmas.PegC13
#eval (findRule G0 "variable").map (fun r => repr r.expr)
#eval (findRule G0 "boolean").map (fun r => repr r.expr)
#eval (findRule G0 "enum_value").map (fun r => repr r.expr)
#eval (findRule G0 "value").map (fun r => repr r.expr)
end AGV.Lemmas.PegX
