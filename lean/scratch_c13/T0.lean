import AGV.Model.BuildAst
import AGV.Spec.Parse
open AGV.Core.PAst AGV.Model.BuildAst
def cmp (s : String) : String × String × String :=
  (s, (match parseQuery Defects.none s.toList with | .ok d => sResult (.ok d) | .error e => sResult (.error e)),
   (match AGV.Spec.Parse.parseDocument {} s.toList with | some d => sResult (.ok d) | none => "(err)"))
def same (s : String) : Bool :=
  (match parseQuery Defects.none s.toList with | .ok d => some (sResult (.ok d)) | .error _ => none) ==
  (AGV.Spec.Parse.parseDocument {} s.toList).map (fun d => sResult (.ok d))
def tests : List String := [
  "{a(b:[\"\"\"\" \"\"])}",
  "{a(b:[\"\" \"\"])}",
  "{a(b:\"\"\"\")}",
  "{a(b:{x:1,x:2})}",
  "{a(b:1e999)}", "{a(b:-0.0)}", "{a(b:0e0)}", "{a(b:0.0e99999)}",
  "{a(b:\"\\uD800\")}", "{a(b:\"\\ud83d\\ude00\")}",
  "{a ...on}", "{...on on}", "{... on on{a}}", "{...on{a}}", "{...on T{a}}", "{...onT}",
  "fragment on on on{a} {a}", "fragment a on on{a} {a}",
  "query query{a}", "query($a:Int=1@d){a}", "query($a:[Int ! ] !){a}",
  "{a:b}", "{a:b:c}", "{a :b(x:$y)@d{c}}", "{true}", "{a(b:truex)}", "{a(b:true)}", "{a(b:nullx)}",
  "{a(b:$c)}", "query($a:Int=$b){a}", "query($a:Int @d(x:$y)){a}",
  "{a}{b}", "{a} query x{b}", "\uFEFF{a}", "{a}\uFEFF", "{a #c\n}", "{a #c", "#c\n{a}#d",
  "{a(b:.5)}", "{a(b:1.)}", "{a(b:-)}", "{a(b:0x)}", "{a(b:1_)}", "{a(b:\"\\q\")}", "{a(b:\"\n\")}",
  "{a(b:\"\"\"\\\"\"\"\"\"\")}", "{a(b:[])}", "{a(b:{})}", "{a()}", "query(){a}", "{}", "", "{a(b:[[[1]]])}",
  "{a(b:{c:{d:[1,{e:2}]}})}", "{a@d@e(x:1)}", "subscription{a}", "mutation m{a}", "queryx{a}", "query{a}",
  "{a(b:\"\"\"a\"\"\"\")}", "{a(b:\"\" \"\")}", "{a(b:1 c:2)}", "{a(b:1c:2)}", "{a(b:1e5c:2)}", "{a(b:1 e5:2)}",
  "{a(b: 1.5e-3)}", "{a ... b}", "{a ..b}", "{a . ..b}", "fragmentx on T{a}{a}", "fragment x onT{a}{a}", "fragment x on T@d{a}{a}",
  "{a(b:\"\\u00e9\")}", "{a(b:\"\\uDBFF\\uDFFF\")}", "{a(b:\"\\u{1F600}\")}", "{a(b:-01)}", "{a(b:00)}", "{a(b:-0)}",
  "{a(b:$true)}", "{a(b:$ c)}", "{a(b:enum)}", "{on}", "{fragment}", "{query:mutation}", "{a(on:on)}"
]
#eval tests.filter (fun s => !same s) |>.map cmp
#eval tests.length
