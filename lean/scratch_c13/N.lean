import AGV.Lemmas.ParseC13
namespace AGV.Lemmas.PegC13
open AGV.Model.Peg

/-- what a run of the interpreter decides, forgetting positions and pairs:
    `none` = out of fuel, `some none` = no match, `some (some r)` = matched, `r` remains -/
def out : Res → Option (Option (List Char))
  | .oof => none
  | .fail => some none
  | .ok _ r _ => some (some r)

/-- with any fuel ≥ `N` and at any position, `e` on `s` in context `c` decides `X` -/
def Ev (g : Grammar) (c : Ctx) (e : Expr) (s : List Char) (N : Nat) (X : Option (List Char)) : Prop :=
  ∀ f, N ≤ f → ∀ p, out (eval g f c e p s) = some X

theorem Ev.mono {g c e s N M X} (h : Ev g c e s N X) (hNM : N ≤ M) : Ev g c e s M X :=
  fun f hf p => h f (Nat.le_trans hNM hf) p

theorem out_ok {r : Res} {s1 : List Char} (h : out r = some (some s1)) : ∃ p ps, r = .ok p s1 ps := by
  cases r <;> simp [out] at h
  subst h; exact ⟨_, _, rfl⟩

theorem out_fail {r : Res} (h : out r = some none) : r = .fail := by
  cases r <;> simp [out] at h
  rfl

theorem Ev.str (g c l s) : Ev g c (.str l) s 1 (matchStr l s) := by
  intro f hf p
  obtain ⟨f, rfl⟩ : ∃ k, f = k + 1 := ⟨f - 1, by omega⟩
  simp only [eval]
  cases matchStr l s <;> rfl


def classStep (pred : Char → Bool) : List Char → Option (List Char)
  | ch :: r => if pred ch then some r else none
  | [] => none

theorem Ev.cls (g c n pred s) (h1 : n ≠ "SOI") (h2 : n ≠ "EOI") (hp : charClass n = some pred) :
    Ev g c (.ident n) s 1 (classStep pred s) := by
  intro f hf p
  obtain ⟨f, rfl⟩ : ∃ k, f = k + 1 := ⟨f - 1, by omega⟩
  simp only [eval, h1, h2, if_false, hp]
  cases s with
  | nil => rfl
  | cons ch r => simp only [classStep]; split <;> rfl

theorem Ev.seq {g c a b s N M K s1 X} (hc : c.atom = .atomic)
    (ha : Ev g c a s N (some s1)) (hb : Ev g c b s1 M X) (hN : N < K) (hM : M < K) :
    Ev g c (.seq a b) s K X := by
  intro f hf p
  obtain ⟨f, rfl⟩ : ∃ k, f = k + 1 := ⟨f - 1, by omega⟩
  obtain ⟨p1, ps1, h1⟩ := out_ok (ha f (by omega) p)
  have h2 := hb f (by omega) p1
  simp only [eval, h1, hc]
  cases hr : eval g f c b p1 s1 <;> simp [hr, out] at h2 ⊢ <;> exact h2

theorem Ev.seq_fail {g c a b s N K} (ha : Ev g c a s N none) (hN : N < K) :
    Ev g c (.seq a b) s K none := by
  intro f hf p
  obtain ⟨f, rfl⟩ : ∃ k, f = k + 1 := ⟨f - 1, by omega⟩
  have h1 := out_fail (ha f (by omega) p)
  simp only [eval, h1]; rfl

theorem Ev.choice_l {g c a b s N K s1} (ha : Ev g c a s N (some s1)) (hN : N < K) :
    Ev g c (.choice a b) s K (some s1) := by
  intro f hf p
  obtain ⟨f, rfl⟩ : ∃ k, f = k + 1 := ⟨f - 1, by omega⟩
  obtain ⟨p1, ps1, h1⟩ := out_ok (ha f (by omega) p)
  simp only [eval, h1]; rfl

theorem Ev.choice_r {g c a b s N M K X} (ha : Ev g c a s N none) (hb : Ev g c b s M X)
    (hN : N < K) (hM : M < K) : Ev g c (.choice a b) s K X := by
  intro f hf p
  obtain ⟨f, rfl⟩ : ∃ k, f = k + 1 := ⟨f - 1, by omega⟩
  have h1 := out_fail (ha f (by omega) p)
  simp only [eval, h1]
  exact hb f (by omega) p

theorem Ev.opt {g c a s N K X} (ha : Ev g c a s N X) (hN : N < K) :
    Ev g c (.opt a) s K (some (X.getD s)) := by
  intro f hf p
  obtain ⟨f, rfl⟩ : ∃ k, f = k + 1 := ⟨f - 1, by omega⟩
  cases X with
  | none => have h1 := out_fail (ha f (by omega) p); simp only [eval, h1]; rfl
  | some s1 => obtain ⟨p1, ps1, h1⟩ := out_ok (ha f (by omega) p); simp only [eval, h1]; rfl

def negOut (s : List Char) : Option (List Char) → Option (List Char)
  | some _ => none
  | none => some s

theorem Ev.neg {g c a s N K X} (ha : Ev g { c with look := true } a s N X) (hN : N < K) :
    Ev g c (.neg a) s K (negOut s X) := by
  intro f hf p
  obtain ⟨f, rfl⟩ : ∃ k, f = k + 1 := ⟨f - 1, by omega⟩
  cases X with
  | none => have h1 := out_fail (ha f (by omega) p); simp only [eval, h1]; rfl
  | some s1 => obtain ⟨p1, ps1, h1⟩ := out_ok (ha f (by omega) p); simp only [eval, h1]; rfl

theorem Ev.rule {g c n r s N K X} (h1 : n ≠ "SOI") (h2 : n ≠ "EOI") (hp : charClass n = none)
    (hr : findRule g n = some r) (hb : Ev g (bodyCtx c r) r.expr s N X) (hN : N < K) :
    Ev g c (.ident n) s K X := by
  intro f hf p
  obtain ⟨f, rfl⟩ : ∃ k, f = k + 1 := ⟨f - 1, by omega⟩
  have h := hb f (by omega) p
  simp only [eval, h1, h2, if_false, hp, hr]
  cases he : eval g f (bodyCtx c r) r.expr p s with
  | oof => simp [he, out] at h
  | fail => simpa [he] using h
  | ok p1 s1 ps =>
    rw [he] at h
    simp only []
    split
    · exact h
    · split <;> exact h

theorem classStep_dropWhile (pred : Char → Bool) (s : List Char) :
    s.dropWhile pred = ((classStep pred s).map (List.dropWhile pred)).getD s := by
  cases s with
  | nil => rfl
  | cons ch r => simp only [classStep, List.dropWhile_cons]; split <;> rfl

theorem Ev.repTail_cls {g c a pred Na} (hc : c.atom = .atomic)
    (ha : ∀ s, Ev g c a s Na (classStep pred s)) :
    ∀ s, Ev g c (.repTail a) s (s.length + Na + 1) (some (s.dropWhile pred)) := by
  intro s
  induction s with
  | nil =>
    intro f hf p
    obtain ⟨f, rfl⟩ : ∃ k, f = k + 1 := ⟨f - 1, by omega⟩
    have h1 := out_fail (ha [] f (by simp at hf; omega) p)
    simp only [eval, hc, reduceCtorEq, if_false, h1]; rfl
  | cons ch r ih =>
    intro f hf p
    obtain ⟨f, rfl⟩ : ∃ k, f = k + 1 := ⟨f - 1, by omega⟩
    have h := ha (ch :: r) f (by simp at hf; omega) p
    simp only [classStep] at h
    by_cases hp : pred ch = true
    · simp only [hp, if_true] at h
      obtain ⟨p1, ps1, h1⟩ := out_ok h
      have h2 := ih f (by simp at hf; omega) p1
      obtain ⟨p2, ps2, h3⟩ := out_ok h2
      simp only [eval, hc, reduceCtorEq, if_false, h1, h3, List.dropWhile_cons, hp, if_true]; rfl
    · simp only [hp, if_false] at h
      have h1 := out_fail h
      simp only [eval, hc, reduceCtorEq, if_false, h1, List.dropWhile_cons, hp]; rfl

theorem Ev.rep_cls {g c a pred Na} (hc : c.atom = .atomic)
    (ha : ∀ s, Ev g c a s Na (classStep pred s)) (s : List Char) :
    Ev g c (.rep a) s (s.length + Na + 2) (some (s.dropWhile pred)) := by
  intro f hf p
  obtain ⟨f, rfl⟩ : ∃ k, f = k + 1 := ⟨f - 1, by omega⟩
  have h := ha s f (by omega) p
  cases s with
  | nil => have h1 := out_fail h; simp only [eval, h1]; rfl
  | cons ch r =>
    simp only [classStep] at h
    by_cases hp : pred ch = true
    · simp only [hp, if_true] at h
      obtain ⟨p1, ps1, h1⟩ := out_ok h
      have h2 := Ev.repTail_cls hc ha r f (by simp at hf; omega) p1
      obtain ⟨p2, ps2, h3⟩ := out_ok h2
      simp only [eval, h1, h3, List.dropWhile_cons, hp, if_true]; rfl
    · simp only [hp, if_false] at h
      have h1 := out_fail h
      simp only [eval, h1, List.dropWhile_cons, hp, if_false]; rfl

theorem Ev.rep1_cls {g c a pred Na} (hc : c.atom = .atomic)
    (ha : ∀ s, Ev g c a s Na (classStep pred s)) (s : List Char) :
    Ev g c (.rep1 a) s (s.length + Na + 2) ((classStep pred s).map (List.dropWhile pred)) := by
  intro f hf p
  obtain ⟨f, rfl⟩ : ∃ k, f = k + 1 := ⟨f - 1, by omega⟩
  have h := ha s f (by omega) p
  cases s with
  | nil => have h1 := out_fail h; simp only [eval, h1]; rfl
  | cons ch r =>
    simp only [classStep] at h ⊢
    by_cases hp : pred ch = true
    · simp only [hp, if_true] at h ⊢
      obtain ⟨p1, ps1, h1⟩ := out_ok h
      have h2 := Ev.repTail_cls hc ha r f (by simp at hf; omega) p1
      obtain ⟨p2, ps2, h3⟩ := out_ok h2
      simp only [eval, h1, h3]; rfl
    · simp only [hp, if_false] at h ⊢
      have h1 := out_fail h
      simp only [eval, h1]; rfl

theorem Ev.cast {g c e s N X Y} (h : Ev g c e s N X) (hxy : X = Y) : Ev g c e s N Y := hxy ▸ h

theorem matchStr_len (l s r : List Char) (h : matchStr l s = some r) : r.length + l.length = s.length := by
  induction l generalizing s with
  | nil => simp [matchStr] at h; subst h; simp
  | cons a l ih =>
    cases s with
    | nil => simp [matchStr] at h
    | cons b s =>
      simp only [matchStr] at h
      split at h
      · have := ih s h; simp; omega
      · cases h

theorem classStep_len (pred s r) (h : classStep pred s = some r) : r.length + 1 = s.length := by
  cases s with
  | nil => simp [classStep] at h
  | cons ch t => simp only [classStep] at h; split at h <;> simp at h; subst h; simp

theorem dropWhile_len (pred : Char → Bool) (s : List Char) : (s.dropWhile pred).length ≤ s.length := by
  induction s with
  | nil => simp
  | cons a r ih => simp only [List.dropWhile_cons]; split <;> simp <;> omega

-- ------------------------------------------------------------------ the number rules, PEG-free

def digits1 (s : List Char) : Option (List Char) :=
  (classStep isAsciiDigit s).map (List.dropWhile isAsciiDigit)

def optStr (l s : List Char) : List Char := (matchStr l s).getD s

def intSpec (s : List Char) : Option (List Char) :=
  match matchStr ['0'] (optStr ['-'] s) with
  | some r => some r
  | none => (classStep isAsciiNonzeroDigit (optStr ['-'] s)).map (List.dropWhile isAsciiDigit)

def fracSpec (s : List Char) : Option (List Char) :=
  match matchStr ['.'] s with
  | some r => digits1 r
  | none => none

def expMark (s : List Char) : Option (List Char) :=
  match matchStr ['E'] s with
  | some r => some r
  | none => matchStr ['e'] s

def signOpt (s : List Char) : List Char :=
  match matchStr ['+'] s with
  | some r => r
  | none => optStr ['-'] s

def expSpec (s : List Char) : Option (List Char) :=
  match expMark s with
  | some r => digits1 (signOpt r)
  | none => none

def floatTail (r1 : List Char) : Option (List Char) :=
  match fracSpec r1 with
  | some r2 => (match expSpec r2 with | some r3 => some r3 | none => some r2)
  | none => expSpec r1

def floatSpec (s : List Char) : Option (List Char) :=
  match intSpec s with
  | some r1 => floatTail r1
  | none => none

def tokenSpec (s : List Char) : Option (List Char) :=
  match floatSpec s with
  | some r => some r
  | none => intSpec s

structure NumRules (g : Grammar) : Prop where
  int : findRule g "int" = some AGV.Gen.Grammar.r_int
  float : findRule g "float" = some AGV.Gen.Grammar.r_float
  frac : findRule g "fractional" = some AGV.Gen.Grammar.r_fractional
  exp : findRule g "exponent" = some AGV.Gen.Grammar.r_exponent
  nameStart : findRule g "name_start" = some AGV.Gen.Grammar.r_name_start

theorem ev_digit (g : Grammar) (c : Ctx) (s : List Char) :
    Ev g c (.ident "ASCII_DIGIT") s 1 (classStep isAsciiDigit s) :=
  Ev.cls g c _ _ s (by decide) (by decide) (by rfl)

theorem ev_nz (g : Grammar) (c : Ctx) (s : List Char) :
    Ev g c (.ident "ASCII_NONZERO_DIGIT") s 1 (classStep isAsciiNonzeroDigit s) :=
  Ev.cls g c _ _ s (by decide) (by decide) (by rfl)

theorem ev_alpha (g : Grammar) (c : Ctx) (s : List Char) :
    Ev g c (.ident "ASCII_ALPHA") s 1 (classStep isAsciiAlpha s) :=
  Ev.cls g c _ _ s (by decide) (by decide) (by rfl)

theorem optStr_len (l s : List Char) : (optStr l s).length ≤ s.length := by
  unfold optStr; cases h : matchStr l s with
  | none => simp
  | some r => have := matchStr_len _ _ _ h; simp at this ⊢; omega

theorem digits1_len (s r : List Char) (h : digits1 s = some r) : r.length ≤ s.length := by
  unfold digits1 at h
  cases hc : classStep isAsciiDigit s with
  | none => simp [hc] at h
  | some t =>
    simp [hc] at h; subst h
    have := classStep_len _ _ _ hc
    have := dropWhile_len isAsciiDigit t
    omega

theorem intSpec_len (s r : List Char) (h : intSpec s = some r) : r.length ≤ s.length := by
  unfold intSpec at h
  have hl := optStr_len ['-'] s
  cases h0 : matchStr ['0'] (optStr ['-'] s) with
  | some t => simp [h0] at h; subst h; have := matchStr_len _ _ _ h0; omega
  | none =>
    simp only [h0] at h
    cases hn : classStep isAsciiNonzeroDigit (optStr ['-'] s) with
    | none => simp [hn] at h
    | some t =>
      simp [hn] at h; subst h
      have := classStep_len _ _ _ hn
      have := dropWhile_len isAsciiDigit t
      omega

theorem fracSpec_len (s r : List Char) (h : fracSpec s = some r) : r.length ≤ s.length := by
  unfold fracSpec at h
  cases h0 : matchStr ['.'] s with
  | none => simp [h0] at h
  | some t =>
    simp only [h0] at h
    have := matchStr_len _ _ _ h0
    have := digits1_len _ _ h
    omega

theorem expMark_len (s r : List Char) (h : expMark s = some r) : r.length ≤ s.length := by
  unfold expMark at h
  cases h0 : matchStr ['E'] s with
  | some t => simp [h0] at h; subst h; have := matchStr_len _ _ _ h0; omega
  | none => simp only [h0] at h; have := matchStr_len _ _ _ h; omega

theorem signOpt_len (s : List Char) : (signOpt s).length ≤ s.length := by
  unfold signOpt
  cases h0 : matchStr ['+'] s with
  | some t => have := matchStr_len _ _ _ h0; simp; omega
  | none => exact optStr_len _ _

theorem expSpec_len (s r : List Char) (h : expSpec s = some r) : r.length ≤ s.length := by
  unfold expSpec at h
  cases h0 : expMark s with
  | none => simp [h0] at h
  | some t =>
    simp only [h0] at h
    have := expMark_len _ _ h0
    have := signOpt_len t
    have := digits1_len _ _ h
    omega

section
variable {g : Grammar} (G : NumRules g) {c : Ctx} (hc : c.atom = .atomic)
include G hc

theorem ev_digits1 (s : List Char) : Ev g c (.rep1 (.ident "ASCII_DIGIT")) s (s.length + 3) (digits1 s) :=
  Ev.rep1_cls hc (ev_digit g c) s

theorem ev_int (s : List Char) : Ev g c (.ident "int") s (s.length + 8) (intSpec s) := by
  refine Ev.rule (by decide) (by decide) (by rfl) G.int ?_ (Nat.lt_succ_self (s.length + 7))
  have hb : bodyCtx c AGV.Gen.Grammar.r_int = c := rfl
  rw [hb]
  have h1 : Ev g c (.opt (.str ['-'])) s 2 (some (optStr ['-'] s)) := Ev.opt (Ev.str g c _ s) (by omega)
  have hl := optStr_len ['-'] s
  refine Ev.seq hc h1 (M := s.length + 5) ?_ (by omega) (by omega)
  unfold intSpec
  cases h0 : matchStr ['0'] (optStr ['-'] s) with
  | some r => exact Ev.choice_l ((Ev.str g c _ _).cast h0) (by omega)
  | none =>
    refine Ev.choice_r ((Ev.str g c _ _).cast h0) (M := s.length + 4) ?_ (by omega) (by omega)
    cases hn : classStep isAsciiNonzeroDigit (optStr ['-'] s) with
    | none => exact Ev.seq_fail ((ev_nz g c _).cast hn) (by omega)
    | some r =>
      have := classStep_len _ _ _ hn
      exact Ev.seq hc ((ev_nz g c _).cast hn) (Ev.rep_cls hc (ev_digit g c) r) (by omega) (by omega)

theorem ev_frac (s : List Char) : Ev g c (.ident "fractional") s (s.length + 6) (fracSpec s) := by
  refine Ev.rule (by decide) (by decide) (by rfl) G.frac ?_ (Nat.lt_succ_self (s.length + 5))
  have hb : bodyCtx c AGV.Gen.Grammar.r_fractional = c := rfl
  rw [hb]
  unfold fracSpec
  cases h0 : matchStr ['.'] s with
  | none => exact Ev.seq_fail ((Ev.str g c _ _).cast h0) (by omega)
  | some r =>
    have := matchStr_len _ _ _ h0
    exact Ev.seq hc ((Ev.str g c _ _).cast h0) (ev_digits1 G hc r) (by omega) (by simp at this; omega)

theorem ev_exp (s : List Char) : Ev g c (.ident "exponent") s (s.length + 8) (expSpec s) := by
  refine Ev.rule (by decide) (by decide) (by rfl) G.exp ?_ (Nat.lt_succ_self (s.length + 7))
  have hb : bodyCtx c AGV.Gen.Grammar.r_exponent = c := rfl
  rw [hb]
  have hm : Ev g c (.choice (.str ['E']) (.str ['e'])) s 2 (expMark s) := by
    unfold expMark
    cases h0 : matchStr ['E'] s with
    | some r => exact Ev.choice_l ((Ev.str g c _ _).cast h0) (by omega)
    | none => exact Ev.choice_r ((Ev.str g c _ _).cast h0) (Ev.str g c _ _) (by omega) (by omega)
  unfold expSpec
  cases h0 : expMark s with
  | none => exact Ev.seq_fail (hm.cast h0) (by omega)
  | some r =>
    have hr := expMark_len _ _ h0
    refine Ev.seq hc (hm.cast h0) (M := s.length + 6) ?_ (by omega) (by omega)
    have hs : Ev g c (.opt (.choice (.str ['+']) (.str ['-']))) r 3 (some (signOpt r)) := by
      unfold signOpt optStr
      cases h1 : matchStr ['+'] r with
      | some t =>
        exact (Ev.opt (Ev.choice_l ((Ev.str g c _ _).cast h1) (Nat.lt_succ_self 1)) (Nat.lt_succ_self 2)).cast rfl
      | none =>
        exact (Ev.opt (Ev.choice_r ((Ev.str g c _ _).cast h1) (Ev.str g c _ _) (Nat.lt_succ_self 1)
          (Nat.lt_succ_self 1)) (Nat.lt_succ_self 2)).cast rfl
    have := signOpt_len r
    exact Ev.seq hc hs (ev_digits1 G hc _) (by omega) (by omega)

theorem ev_floatTail (r1 : List Char) :
    Ev g c (.choice (.seq (.ident "fractional") (.ident "exponent"))
      (.choice (.ident "fractional") (.ident "exponent"))) r1 (r1.length + 10) (floatTail r1) := by
  unfold floatTail
  have hf := ev_frac G hc r1
  have he1 := ev_exp G hc r1
  cases h1 : fracSpec r1 with
  | none =>
    rw [h1] at hf
    have a1 : Ev g c (.seq (.ident "fractional") (.ident "exponent")) r1 (r1.length + 7) none :=
      Ev.seq_fail hf (by omega)
    have a2 : Ev g c (.choice (.ident "fractional") (.ident "exponent")) r1 (r1.length + 9) (expSpec r1) :=
      Ev.choice_r hf he1 (by omega) (by omega)
    exact Ev.choice_r a1 a2 (by omega) (by omega)
  | some r2 =>
    rw [h1] at hf
    dsimp only
    have hr2 := fracSpec_len _ _ h1
    have he2 := ev_exp G hc r2
    have a1 : Ev g c (.seq (.ident "fractional") (.ident "exponent")) r1 (r1.length + 9) (expSpec r2) :=
      Ev.seq hc hf he2 (by omega) (by omega)
    cases h2 : expSpec r2 with
    | some r3 =>
      rw [h2] at a1
      exact Ev.choice_l a1 (by omega)
    | none =>
      rw [h2] at a1
      have a2 : Ev g c (.choice (.ident "fractional") (.ident "exponent")) r1 (r1.length + 7) (some r2) :=
        Ev.choice_l hf (by omega)
      exact Ev.choice_r a1 a2 (by omega) (by omega)

theorem ev_float (s : List Char) : Ev g c (.ident "float") s (s.length + 14) (floatSpec s) := by
  refine Ev.rule (by decide) (by decide) (by rfl) G.float ?_ (Nat.lt_succ_self (s.length + 13))
  have hb : bodyCtx c AGV.Gen.Grammar.r_float = c := rfl
  rw [hb]
  unfold floatSpec
  have hi := ev_int G hc s
  cases h0 : intSpec s with
  | none => rw [h0] at hi; exact Ev.seq_fail hi (by omega)
  | some r1 =>
    rw [h0] at hi
    have hr1 := intSpec_len _ _ h0
    exact Ev.seq hc hi (ev_floatTail G hc r1) (by omega) (by omega)

theorem ev_token (s : List Char) :
    Ev g c (.choice (.ident "float") (.ident "int")) s (s.length + 15) (tokenSpec s) := by
  unfold tokenSpec
  cases h0 : floatSpec s with
  | some r => exact Ev.choice_l ((ev_float G hc s).cast h0) (by omega)
  | none => exact Ev.choice_r ((ev_float G hc s).cast h0) (ev_int G hc s) (by omega) (by omega)
end

def nsSpec (r : List Char) : Option (List Char) :=
  match classStep isAsciiAlpha r with
  | some x => some x
  | none => matchStr ['_'] r

theorem ev_nameStart {g : Grammar} (G : NumRules g) (c : Ctx) (r : List Char) :
    Ev g c (.ident "name_start") r 3 (nsSpec r) := by
  refine Ev.rule (by decide) (by decide) (by rfl) G.nameStart ?_ (Nat.lt_succ_self 2)
  unfold nsSpec
  have ha := ev_alpha g (bodyCtx c AGV.Gen.Grammar.r_name_start) r
  cases h0 : classStep isAsciiAlpha r with
  | some x => rw [h0] at ha; exact Ev.choice_l ha (by omega)
  | none => rw [h0] at ha; exact Ev.choice_r ha (Ev.str _ _ _ _) (by omega) (by omega)

def followPatchedSpec (r : List Char) : Option (List Char) :=
  match nsSpec r with
  | some x => some x
  | none =>
    match classStep isAsciiDigit r with
    | some x => some x
    | none => matchStr ['.'] r

def followPatched : Expr := .choice (.ident "name_start") (.choice (.ident "ASCII_DIGIT") (.str ['.']))

theorem ev_followPatched {g : Grammar} (G : NumRules g) (c : Ctx) (r : List Char) :
    Ev g c followPatched r 5 (followPatchedSpec r) := by
  unfold followPatchedSpec followPatched
  have hn := ev_nameStart G c r
  cases h0 : nsSpec r with
  | some x => rw [h0] at hn; exact Ev.choice_l hn (by omega)
  | none =>
    rw [h0] at hn
    dsimp only
    have hd := ev_digit g c r
    have a2 : Ev g c (.choice (.ident "ASCII_DIGIT") (.str ['.'])) r 3
        (match classStep isAsciiDigit r with | some x => some x | none => matchStr ['.'] r) := by
      cases h1 : classStep isAsciiDigit r with
      | some x => rw [h1] at hd; exact Ev.choice_l hd (by omega)
      | none => rw [h1] at hd; exact Ev.choice_r hd (Ev.str _ _ _ _) (by omega) (by omega)
    exact Ev.choice_r hn a2 (by omega) (by omega)

/-- the `number` rule with follow restriction `!fe` -/
def numberSpec (follow : List Char → Option (List Char)) (s : List Char) : Option (List Char) :=
  match tokenSpec s with
  | some r => negOut r (follow r)
  | none => none

theorem floatSpec_len (s r : List Char) (h : floatSpec s = some r) : r.length ≤ s.length := by
  unfold floatSpec at h
  cases h0 : intSpec s with
  | none => simp [h0] at h
  | some r1 =>
    simp only [h0, floatTail] at h
    have := intSpec_len _ _ h0
    cases h1 : fracSpec r1 with
    | none => simp only [h1] at h; have := expSpec_len _ _ h; omega
    | some r2 =>
      simp only [h1] at h
      have := fracSpec_len _ _ h1
      cases h2 : expSpec r2 with
      | none => simp [h2] at h; subst h; omega
      | some r3 => simp [h2] at h; subst h; have := expSpec_len _ _ h2; omega

theorem tokenSpec_len (s r : List Char) (h : tokenSpec s = some r) : r.length ≤ s.length := by
  unfold tokenSpec at h
  cases h0 : floatSpec s with
  | some t => simp [h0] at h; subst h; exact floatSpec_len _ _ h0
  | none => simp only [h0] at h; exact intSpec_len _ _ h

theorem ev_number {g : Grammar} (G : NumRules g) (fe : Expr) (follow : List Char → Option (List Char))
    (hnum : findRule g "number" =
      some ⟨"number", .atomic, .seq (.choice (.ident "float") (.ident "int")) (.neg fe)⟩)
    (hfe : ∀ c r, Ev g c fe r 5 (follow r)) (c0 : Ctx) (s : List Char) :
    Ev g c0 (.ident "number") s (s.length + 20) (numberSpec follow s) := by
  refine Ev.rule (by decide) (by decide) (by rfl) hnum ?_ (Nat.lt_succ_self (s.length + 19))
  have hc : (bodyCtx c0 ⟨"number", .atomic, .seq (.choice (.ident "float") (.ident "int")) (.neg fe)⟩).atom = .atomic := rfl
  generalize bodyCtx c0 _ = c at hc ⊢
  dsimp only
  unfold numberSpec
  have ht := ev_token G hc s
  cases h0 : tokenSpec s with
  | none => rw [h0] at ht; exact Ev.seq_fail ht (by omega)
  | some r =>
    rw [h0] at ht
    dsimp only
    have hr := tokenSpec_len _ _ h0
    have hn : Ev g c (.neg fe) r 6 (negOut r (follow r)) :=
      Ev.neg (hfe { c with look := true } r) (by omega)
    exact Ev.seq hc ht hn (by omega) (by omega)
end AGV.Lemmas.PegC13
