import AGV.Model.BuildAst
import AGV.Spec.Parse
open AGV.Core.PAst AGV.Model.BuildAst
def same (s : List Char) : Bool :=
  (match parseQuery Defects.none s with | .ok d => some (sResult (.ok d)) | .error _ => none) ==
  (AGV.Spec.Parse.parseDocument {} s).map (fun d => sResult (.ok d))
def accepted (s : List Char) : Bool := (AGV.Spec.Parse.parseDocument {} s).isSome
/-- all words over alphabet of length ≤ n -/
def words (al : List (List Char)) : Nat → List (List Char)
  | 0 => [[]]
  | n+1 => [] :: (words al n).flatMap (fun w => al.map (fun a => a ++ w)) 
def run (pre post : String) (al : List String) (n : Nat) : IO Unit := do
  let ws := (words (al.map String.toList) n).eraseDups
  let mut bad := 0
  let mut acc := 0
  for w in ws do
    let s := pre.toList ++ w ++ post.toList
    if accepted s then acc := acc + 1
    if !same s then
      bad := bad + 1
      if bad < 15 then IO.println (String.ofList s).quote
  IO.println s!"{pre}…{post}: words {ws.length} accepted {acc} bad {bad}"
#eval run "{" "}" ["a", "...", "on", " ", "{", "}", "(", ")", ":", "@", "$", "1", "\"", "#", "\n", "."] 5
