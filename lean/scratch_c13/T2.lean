import Scr.PegC13Tok
namespace AGV.Lemmas.PegX
open AGV.Model.Peg AGV.Lemmas.PegMono AGV.Spec.Lex AGV.Spec.Literal

/-- one `WHITESPACE`: an ignored character (`\r\n` in one step) -/
def wsStep : List Char → Option (List Char)
  | '\r' :: '\n' :: r => some r
  | ch :: r => if isIgnoredChar ch then some r else none
  | [] => none

def stepRes (step : List Char → Option (List Char)) (p : Nat) (s : List Char) : Res :=
  match step s with
  | some r => .ok (p + (s.length - r.length)) r []
  | none => .fail

theorem ev_ws {g : Grammar} (G : TokRules g) (c : Ctx) (p : Nat) (s : List Char) :
    EvR g c (.ident "WHITESPACE") p s 8 (stepRes wsStep p s) := by
  apply EvR.of_eval
  · have h1 : ("WHITESPACE" = "SOI") = False := by decide
    have h2 : ("WHITESPACE" = "EOI") = False := by decide
    have h3 : charClass "WHITESPACE" = none := by rfl
    have h4 : ("line_terminator" = "SOI") = False := by decide
    have h5 : ("line_terminator" = "EOI") = False := by decide
    have h6 : charClass "line_terminator" = none := by rfl
    simp only [eval, h1, h2, h3, h4, h5, h6, if_false, G.ws, G.lt, AGV.Gen.Grammar.r_WHITESPACE, AGV.Gen.Grammar.r_line_terminator]
    trace_state
    sorry
  · sorry
end AGV.Lemmas.PegX
