import AGV.Model.BuildAst
open AGV.Model.BuildAst AGV.Model.Peg
#check @Array.toList_extract
#check @List.extract_eq_drop_take
#check @List.extract_eq_take_drop
example (pre tok rest : List Char) : ((pre ++ tok ++ rest).toArray.extract pre.length (pre.length + tok.length)).toList = tok := by
  simp [Array.toList_extract, List.extract_eq_drop_take]
