import AGV.Model.BuildAst
open AGV.Model.BuildAst AGV.Model.Peg
def showE : Expr → String
  | .str l => "\"" ++ String.ofList l ++ "\""
  | .insens l => "^\"" ++ String.ofList l ++ "\""
  | .range a b => s!"'{a}'..'{b}'"
  | .ident n => n
  | .seq a b => "(" ++ showE a ++ " ~ " ++ showE b ++ ")"
  | .choice a b => "(" ++ showE a ++ " | " ++ showE b ++ ")"
  | .opt a => showE a ++ "?"
  | .rep a => showE a ++ "*"
  | .rep1 a => showE a ++ "+"
  | .repN n a => showE a ++ "{" ++ toString n ++ "}"
  | .neg a => "!" ++ showE a
  | .pos a => "&" ++ showE a
  | .repTail a => "TAIL " ++ showE a
#eval (grammarFor Defects.none).filter (fun r => ["executable_document","executable_definition","operation_definition","named_operation_definition","variable_definitions","variable_definition","selection_set","selection","field","alias","fragment_spread","inline_fragment","fragment_definition","type_condition","operation_type","default_value","type_","const_value","value","variable","number","string","boolean","null","enum_value","const_list","list","const_object","object","const_object_field","object_field","const_directives","directives","const_directive","directive","const_arguments","arguments","const_argument","argument","non_null_mark","kw_on_only","kw_true","kw_on", "kw_fragment","kw_query"].contains r.name) |>.map (fun r => (r.name, repr r.ty, showE r.expr))
#eval (grammarFor Defects.none).length
