import Scr.R5

namespace AGV.Lemmas.Coerce
open AGV.Core
open AGV.Spec.Coerce
open AGV.Model.Coerce

-- ------------------------------------------------------------------ what a valid document provides

/-- every argument of every root field is a variable or a literal without variables -/
def flatOp (op : OpDef) : Bool := (rootFields op).all (fun r => r.2.2.all (fun a => flatArg a.2))

theorem docOk_vars (T : Table) (op : OpDef) (h : docOk T op = true) :
    nodupB (op.vars.map (·.name)) = true ∧
    ∀ vd ∈ op.vars, ∀ d, vd.default = some d →
      (∃ c, coerce T false vd.ty d = some c) ∧ distinctKeys d = true := by
  simp only [docOk, Bool.and_eq_true, List.all_eq_true] at h
  refine ⟨h.1.1, ?_⟩
  intro vd hvd d hd
  have := h.1.2 vd hvd
  simp only [hd] at this
  have := lit_coerce T [] (litOf d) vd.ty false this (litOf_const d).1
  rwa [(litOf_const d).2] at this

theorem docOk_root (T : Table) (op : OpDef) (h : docOk T op = true) :
    ∀ r ∈ rootFields op, ∃ sig, T.field? r.2.1 = some sig ∧
      (∀ p ∈ r.2.2, ∃ d, sig.args.find? (·.name = p.1) = some d ∧
        litOk T op.vars d.ty.gql d.default.isSome p.2 = true) ∧
      (∀ d ∈ sig.args, ((lookup r.2.2 d.name).isSome || !d.ty.gql.isNonNull || d.default.isSome) = true) := by
  simp only [docOk, Bool.and_eq_true, List.all_eq_true] at h
  intro r hr
  simp only [rootFields, List.mem_filterMap] at hr
  obtain ⟨s, hs, hsr⟩ := hr
  have := h.2 s hs
  cases s with
  | spread _ _ _ => cases hsr
  | inline _ _ _ _ => cases hsr
  | field al n args dirs sels pos =>
    simp only [Option.some.injEq] at hsr
    subst hsr
    simp only at this ⊢
    cases hf : T.field? n with
    | none => simp [hf] at this
    | some sig =>
      simp only [hf, Bool.and_eq_true, List.all_eq_true] at this
      refine ⟨sig, rfl, ?_, this.2⟩
      intro p hp
      have := this.1.2 p hp
      cases hfd : sig.args.find? (·.name = p.1) with
      | none => simp [hfd] at this
      | some d => exact ⟨d, rfl, by simpa [hfd] using this⟩


-- ------------------------------------------------------------------ the request

/-- hypotheses of the request-level theorem -/
structure ReqHyp (T : Table) (op : OpDef) (raw : List (String × GValue)) : Prop where
  hw : wfTable2 T = true
  hdf : fieldDefaultsOk T
  hda : ∀ sig ∈ T.fields, ∀ a ∈ sig.args, ∀ d, a.default = some d →
    parseD Defects.none T a.ty d = some (view T a.ty d)
  hdoc : docOk T op = true
  hflat : flatOp op = true
  hsmall : ∀ p ∈ raw, intsSmall p.2 = true
  hkeys : ∀ p ∈ raw, distinctKeys p.2 = true
  hhole : ∀ vd ∈ op.vars, ∀ v, lookup raw vd.name = some v → noHole T vd.ty v = true

theorem ReqHyp.varCtx {T : Table} {op : OpDef} {raw : List (String × GValue)} (H : ReqHyp T op raw)
    (vars : List (String × GValue)) (hcv : coerceVars T op.vars raw = some vars) :
    VarCtx T op.vars raw vars :=
  ⟨(docOk_vars T op H.hdoc).1, hcv, H.hkeys, fun vd hvd d hd => ((docOk_vars T op H.hdoc).2 vd hvd d hd).2⟩

/-- per argument of a root field of a valid flat document -/
theorem ReqHyp.arg {T : Table} {op : OpDef} {raw : List (String × GValue)} (H : ReqHyp T op raw)
    (r : Root) (hr : r ∈ rootFields op) (sig : FieldSig) (hsig : T.field? r.2.1 = some sig)
    (a : InField) (ha : a ∈ sig.args) :
    (∀ d, a.default = some d → parseD Defects.none T a.ty d = some (view T a.ty d)) ∧
    (lookup r.2.2 a.name = none → (!a.ty.gql.isNonNull || a.default.isSome) = true) ∧
    (∀ dv, lookup r.2.2 a.name = some dv →
      litOk T op.vars a.ty.gql a.default.isSome dv = true ∧ flatArg dv = true) := by
  obtain ⟨sig', hsig', hlit, hreq⟩ := docOk_root T op H.hdoc r hr
  rw [hsig] at hsig'; cases hsig'
  refine ⟨H.hda sig (List.mem_of_find?_eq_some hsig) a ha, ?_, ?_⟩
  · intro hl
    have := hreq a ha
    simpa [hl] using this
  · intro dv hl
    have hmem := lookup_mem _ _ _ hl
    obtain ⟨d, hd, hlk⟩ := hlit _ hmem
    have := find_self sig.args (wfTable2_args H.hw hsig) a ha
    simp only at hd
    rw [this] at hd; cases hd
    refine ⟨hlk, ?_⟩
    have := H.hflat
    simp only [flatOp, List.all_eq_true] at this
    exact this r hr _ hmem

theorem ReqHyp.root_eq {T : Table} {op : OpDef} {raw : List (String × GValue)} (H : ReqHyp T op raw)
    (vars : List (String × GValue)) (hcv : coerceVars T op.vars raw = some vars) :
    ∀ r ∈ rootFields op, implOf T op.vars raw r = specOf T vars r := by
  intro r hr
  obtain ⟨sig, hsig, _⟩ := docOk_root T op H.hdoc r hr
  simp only [implOf, specOf, hsig, Option.bind_some, fieldArgs]
  apply paramValues_eq T op.vars raw vars r.2.2 sig.args (wfTable2_args H.hw hsig)
  intro a ha
  obtain ⟨h1, _, h3⟩ := H.arg r hr sig hsig a ha
  exact paramValue_eq T H.hw H.hdf op.vars raw vars (H.varCtx vars hcv) r.2.2 a h1 h3

theorem ReqHyp.root_invalid {T : Table} {op : OpDef} {raw : List (String × GValue)} (H : ReqHyp T op raw)
    (vars : List (String × GValue)) (hcv : coerceVars T op.vars raw = some vars)
    (r : Root) (hr : r ∈ rootFields op) (sig : FieldSig) (hsig : T.field? r.2.1 = some sig)
    (hinv : fieldValid Defects.none T raw sig r.2.2 = false) : specOf T vars r = none := by
  simp only [fieldValid, List.all_eq_false] at hinv
  obtain ⟨a, ha, hbad⟩ := hinv
  obtain ⟨_, h2, h3⟩ := H.arg r hr sig hsig a ha
  have := argInvalid_coerceArg T H.hw op.vars raw vars (H.varCtx vars hcv) r.2.2 a h2 h3
    (by simp only [fieldValid, List.all_cons, List.all_nil, Bool.and_true]; exact Bool.eq_false_iff.mpr hbad)
  simp [specOf, hsig, fieldArgs, coerceArgs_none T vars r.2.2 sig.args a ha this]

theorem ReqHyp.defaultsValid {T : Table} {op : OpDef} {raw : List (String × GValue)} (H : ReqHyp T op raw) :
    varDefaultsValid T op.vars = true := by
  simp only [varDefaultsValid, List.all_eq_true]
  intro vd hvd
  cases hd : vd.default with
  | none => rfl
  | some d =>
    obtain ⟨⟨c, hc⟩, _⟩ := (docOk_vars T op H.hdoc).2 vd hvd d hd
    exact coerce_valid T H.hw d vd.ty c (coerce_mono T _ _ _ hc)

theorem ReqHyp.valuesValid {T : Table} {op : OpDef} {raw : List (String × GValue)} (H : ReqHyp T op raw)
    (vars : List (String × GValue)) (hcv : coerceVars T op.vars raw = some vars) :
    varValuesValid T op.vars raw = true := by
  simp only [varValuesValid, List.all_eq_true]
  intro vd hvd
  obtain ⟨h1, h2⟩ := coerceVars_some T raw op.vars vars hcv vd hvd
  cases hl : lookup raw vd.name with
  | some v =>
    obtain ⟨c, hc⟩ := h1 v hl
    exact coerce_valid T H.hw v vd.ty c hc
  | none =>
    cases hd : vd.default with
    | some d => simp
    | none => simp [h2 hl hd]

theorem ReqHyp.vars_exist {T : Table} {op : OpDef} {raw : List (String × GValue)} (H : ReqHyp T op raw)
    (hv : varValuesValid T op.vars raw = true) : ∃ vars, coerceVars T op.vars raw = some vars := by
  apply coerceVars_exists
  simp only [varValuesValid, List.all_eq_true] at hv
  intro vd hvd
  have := hv vd hvd
  refine ⟨?_, ?_, ?_⟩
  · intro v hl
    simp only [hl] at this
    exact valid_coerce T v vd.ty this (H.hsmall _ (lookup_mem _ _ _ hl)) (H.hhole vd hvd v hl)
  · intro _ d hd
    exact ((docOk_vars T op H.hdoc).2 vd hvd d hd).1
  · intro hl hd
    simpa [hl, hd] using this

end AGV.Lemmas.Coerce
