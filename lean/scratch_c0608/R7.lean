import Scr.R6

namespace AGV.Lemmas.Coerce
open AGV.Core
open AGV.Spec.Coerce
open AGV.Model.Coerce

theorem ReqHyp.request_none {T : Table} {op : OpDef} {raw : List (String × GValue)} (H : ReqHyp T op raw)
    (hcv : coerceVars T op.vars raw = none) :
    (run Defects.none T op raw).status = .reqerr ∧
    (run Defects.none T op raw).fields = (rootFields op).map (fun f => (f.1, Outcome.notInvoked)) := by
  have hC : varValuesValid T op.vars raw = false := by
    cases h : varValuesValid T op.vars raw with
    | false => rfl
    | true => obtain ⟨vars, hv⟩ := H.vars_exist h; rw [hv] at hcv; cases hcv
  have hD : Defects.none.varValueNotCoerced = false := rfl
  simp [run, hC, hD]

theorem ReqHyp.request_some {T : Table} {op : OpDef} {raw : List (String × GValue)} (H : ReqHyp T op raw)
    (vars : List (String × GValue)) (hcv : coerceVars T op.vars raw = some vars) :
    ((run Defects.none T op raw).status = .ok ↔
      ((rootFields op).map (fun r => (r.1, specOf T vars r))).all (·.2.isSome) = true) ∧
    ∀ p ∈ ((rootFields op).map (fun r => (r.1, specOf T vars r))).zip (run Defects.none T op raw).fields,
      p.1.1 = p.2.1 ∧
      (∀ args, p.1.2 = some args → p.2.2 = .seen args ∨
        (((rootFields op).map (fun r => (r.1, specOf T vars r))).any (·.2.isNone) = true ∧
          (p.2.2 = .err ∨ p.2.2 = .notInvoked))) ∧
      (p.1.2 = none → p.2.2 = .err ∨ p.2.2 = .notInvoked) := by
  have hD : Defects.none.varValueNotCoerced = false := rfl
  simp only [run, H.defaultsValid, H.valuesValid vars hcv, Bool.true_and, Bool.or_true, Bool.and_true]
  split
  · rename_i hbad
    simp only [Bool.not_eq_true', List.all_eq_false] at hbad
    obtain ⟨r, hr, hbad⟩ := hbad
    obtain ⟨sig, hsig, _⟩ := docOk_root T op H.hdoc r hr
    simp only [hsig] at hbad
    have hnone := H.root_invalid vars hcv r hr sig hsig (Bool.eq_false_iff.mpr hbad)
    have hany : ((rootFields op).map (fun r => (r.1, specOf T vars r))).any (·.2.isNone) = true := by
      simp only [List.any_map, List.any_eq_true]
      exact ⟨r, hr, by simp [hnone]⟩
    have hall : ((rootFields op).map (fun r => (r.1, specOf T vars r))).all (·.2.isSome) = false := by
      simp only [List.all_map, List.all_eq_false]
      exact ⟨r, hr, by simp [hnone]⟩
    refine ⟨by simp [hall], ?_⟩
    intro p hp
    simp only [List.zip_map', List.mem_map] at hp
    obtain ⟨r', _, rfl⟩ := hp
    exact ⟨rfl, fun args _ => Or.inr ⟨hany, Or.inr rfl⟩, fun _ => Or.inr rfl⟩
  · have hexec := exec_spec T op.vars raw vars (rootFields op) false (H.root_eq vars hcv)
    have key : ∀ (f : String × Outcome → Bool), (∀ o, f o = isSeen o.2) →
        (execFields Defects.none T op.vars raw (rootFields op) false).all f =
        (execFields Defects.none T op.vars raw (rootFields op) false).all (fun o => isSeen o.2) := by
      intro f hf; congr 1; funext o; exact hf o
    rw [key _ (by intro o; rcases o with ⟨k, _ | _ | _⟩ <;> rfl), hexec.2 rfl]
    refine ⟨?_, ?_⟩
    · have e : ((rootFields op).map (fun r => (r.1, specOf T vars r))).all (·.2.isSome) =
          (rootFields op).all (fun r => (specOf T vars r).isSome) := by rw [List.all_map]; rfl
      rw [e]
      cases (rootFields op).all (fun r => (specOf T vars r).isSome) <;> simp
    · intro p hp
      obtain ⟨h1, h2, h3⟩ := hexec.1 p hp
      refine ⟨h1, ?_, h3⟩
      intro args ha
      rcases h2 args ha with h2 | h2
      · exact Or.inl h2
      · right
        refine ⟨?_, h2.2⟩
        rcases h2.1 with h | h
        · cases h
        · rw [List.any_map]; exact h

end AGV.Lemmas.Coerce
