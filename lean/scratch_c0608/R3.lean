import Scr.R2

namespace AGV.Lemmas.Coerce
open AGV.Core
open AGV.Spec.Coerce
open AGV.Model.Coerce

-- ------------------------------------------------------------------ variables

/-- the value `var_value` finds for a declared variable: supplied, else the default -/
def effVal (vd : VarDef) (raw : List (String × GValue)) : Option GValue :=
  match lookup raw vd.name with
  | some v => some v
  | none => vd.default

theorem varValue_find (defs : List VarDef) (raw : List (String × GValue)) (n : String) (vd : VarDef)
    (h : defs.find? (·.name = n) = some vd) : varValue defs raw n = effVal vd raw := by
  have hn : vd.name = n := by simpa using List.find?_some h
  simp only [varValue, h, effVal, hn]
  cases lookup raw n <;> rfl

theorem coerceVars_keys (T : Table) (raw : List (String × GValue)) : ∀ (ds : List VarDef) (vars : List (String × GValue)),
    coerceVars T ds raw = some vars → ∀ kv ∈ vars, kv.1 ∈ ds.map (·.name)
  | [], vars, h => by simp [coerceVars] at h; subst h; simp
  | d :: ds, vars, h => by
    simp only [coerceVars] at h
    cases hr : coerceVars T ds raw with
    | none => simp [hr] at h
    | some rest =>
      have ih := coerceVars_keys T raw ds rest hr
      simp only [hr] at h
      have hcons : ∀ c, ∀ kv ∈ (d.name, c) :: rest, kv.1 ∈ (d :: ds).map (·.name) := by
        intro c kv hkv
        rcases List.mem_cons.mp hkv with rfl | hkv
        · simp
        · simp [ih kv hkv]
      split at h
      · split at h
        · simp only [Option.map_eq_some_iff] at h
          obtain ⟨c, _, rfl⟩ := h; exact hcons c
        · split at h
          · cases h
          · cases h; intro kv hkv; simp [ih kv hkv]
      · simp only [Option.map_eq_some_iff] at h
        obtain ⟨c, _, rfl⟩ := h; exact hcons c

/-- what CoerceVariableValues leaves in `coercedValues` for a declared variable -/
theorem coerceVars_lookup (T : Table) (raw : List (String × GValue)) : ∀ (ds : List VarDef) (vars : List (String × GValue)),
    nodupB (ds.map (·.name)) = true → coerceVars T ds raw = some vars →
    ∀ n vd, ds.find? (·.name = n) = some vd →
      (effVal vd raw = none → lookup vars n = none) ∧
      (∀ v, effVal vd raw = some v → ∃ c, coerce T true vd.ty v = some c ∧ lookup vars n = some c)
  | [], _, _, _ => by intro n vd h; simp at h
  | d :: ds, vars, hn, h => by
    intro n vd hfind
    simp only [List.map_cons, nodupB_cons] at hn
    simp only [coerceVars] at h
    cases hr : coerceVars T ds raw with
    | none => simp [hr] at h
    | some rest =>
      simp only [hr] at h
      by_cases hdn : d.name = n
      · have hvd : vd = d := by simpa [List.find?, hdn] using hfind.symm
        subst hvd
        have hrest : lookup rest n = none := by
          apply lookup_none_of_not_mem
          intro hm
          obtain ⟨kv, hkv, hk⟩ := List.mem_map.mp hm
          have := coerceVars_keys T raw ds rest hr kv hkv
          rw [hk, ← hdn] at this
          exact hn.1 this
        simp only [effVal]
        cases hl : lookup raw vd.name with
        | some v =>
          simp only [hl, Option.map_eq_some_iff] at h
          obtain ⟨c, hc, rfl⟩ := h
          refine ⟨by simp, ?_⟩
          intro v' hv'; cases hv'
          exact ⟨c, hc, by simp [lookup_cons, hdn]⟩
        | none =>
          simp only [hl] at h
          cases hdef : vd.default with
          | some dv =>
            simp only [hdef, Option.map_eq_some_iff] at h
            obtain ⟨c, hc, rfl⟩ := h
            refine ⟨by simp, ?_⟩
            intro v' hv'; cases hv'
            exact ⟨c, coerce_mono T _ _ _ hc, by simp [lookup_cons, hdn]⟩
          | none =>
            simp only [hdef] at h
            split at h
            · cases h
            · cases h
              exact ⟨fun _ => hrest, by intro v hv; cases hv⟩
      · have hfind' : ds.find? (·.name = n) = some vd := by
          simpa [List.find?, hdn] using hfind
        have ih := coerceVars_lookup T raw ds rest hn.2 hr n vd hfind'
        have hskip : ∀ c, lookup ((d.name, c) :: rest) n = lookup rest n := by
          intro c; rw [lookup_cons, if_neg hdn]
        split at h
        · split at h
          · simp only [Option.map_eq_some_iff] at h
            obtain ⟨c, _, rfl⟩ := h; simpa [hskip] using ih
          · split at h
            · cases h
            · cases h; exact ih
        · simp only [Option.map_eq_some_iff] at h
          obtain ⟨c, _, rfl⟩ := h; simpa [hskip] using ih

/-- CoerceVariableValues succeeds: every supplied value coerces, no required variable is missing -/
theorem coerceVars_some (T : Table) (raw : List (String × GValue)) : ∀ (ds : List VarDef) (vars : List (String × GValue)),
    coerceVars T ds raw = some vars →
    ∀ vd ∈ ds, (∀ v, lookup raw vd.name = some v → ∃ c, coerce T true vd.ty v = some c) ∧
      (lookup raw vd.name = none → vd.default = none → vd.ty.isNonNull = false)
  | [], _, _ => by intro vd h; simp at h
  | d :: ds, vars, h => by
    simp only [coerceVars] at h
    cases hr : coerceVars T ds raw with
    | none => simp [hr] at h
    | some rest =>
      simp only [hr] at h
      intro vd hvd
      rcases List.mem_cons.mp hvd with rfl | hvd
      · cases hl : lookup raw vd.name with
        | some v =>
          simp only [hl, Option.map_eq_some_iff] at h
          obtain ⟨c, hc, _⟩ := h
          exact ⟨by intro v' hv'; cases hv'; exact ⟨c, hc⟩, by simp⟩
        | none =>
          refine ⟨by simp, ?_⟩
          intro _ hdef
          simp only [hl, hdef] at h
          split at h
          · cases h
          · rename_i hnn; simpa using hnn
      · exact coerceVars_some T raw ds rest hr vd hvd

theorem coerceVars_exists (T : Table) (raw : List (String × GValue)) : ∀ (ds : List VarDef),
    (∀ vd ∈ ds, (∀ v, lookup raw vd.name = some v → ∃ c, coerce T true vd.ty v = some c) ∧
      (lookup raw vd.name = none → ∀ d, vd.default = some d → ∃ c, coerce T false vd.ty d = some c) ∧
      (lookup raw vd.name = none → vd.default = none → vd.ty.isNonNull = false)) →
    ∃ vars, coerceVars T ds raw = some vars
  | [], _ => ⟨[], rfl⟩
  | d :: ds, h => by
    obtain ⟨rest, hr⟩ := coerceVars_exists T raw ds (fun vd hvd => h vd (by simp [hvd]))
    obtain ⟨h1, h2, h3⟩ := h d (by simp)
    simp only [coerceVars, hr]
    cases hl : lookup raw d.name with
    | some v =>
      obtain ⟨c, hc⟩ := h1 v hl
      exact ⟨(d.name, c) :: rest, by simp [hc]⟩
    | none =>
      cases hdef : d.default with
      | some dv =>
        obtain ⟨c, hc⟩ := h2 hl dv hdef
        exact ⟨(d.name, c) :: rest, by simp [hc]⟩
      | none => exact ⟨rest, by simp [h3 hl hdef]⟩

end AGV.Lemmas.Coerce
