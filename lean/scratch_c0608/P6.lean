import AGV.Props.C06
import AGV.Lemmas.CoerceReqProof

namespace AGV.Props.C06
open AGV.Core
open AGV.Spec.Coerce
open AGV.Model.Coerce
open AGV.Lemmas.Coerce

/-- one struct, `f(x: Option<I>)` and an argument-less root field `g` -/
def T6 : Table :=
  { types := [("Int", .scalar), ("I", .input false [⟨"a", .opt (.named "Int"), none⟩])],
    fields := [⟨"f", [⟨"x", .opt (.named "I"), none⟩]⟩, ⟨"g", []⟩] }

/-- `query($v: I){ g f(x: $v) }` -/
def opHole : OpDef :=
  { ty := .query, name := none, vars := [⟨"v", .named "I", none⟩], dirs := [],
    sels := [.field none "g" [] [] [] ⟨0, 0⟩, .field none "f" [("x", .var "v")] [] [] ⟨0, 0⟩] }

theorem T6_defaults : defaultsOk T6 := by
  constructor
  · intro n o fs f d hfind hf hdef
    have hmem := find_mem hfind
    simp only [T6, List.mem_cons, Prod.mk.injEq, reduceCtorEq, and_false, false_or, List.mem_nil_iff, or_false,
      NDef.input.injEq] at hmem
    obtain ⟨rfl, rfl, rfl⟩ := hmem
    simp only [List.mem_cons, List.mem_nil_iff, or_false] at hf
    subst hf; cases hdef
  · intro sig hsig a ha d hdef
    simp only [T6, List.mem_cons, List.mem_nil_iff, or_false] at hsig
    rcases hsig with rfl | rfl
    · simp only [List.mem_cons, List.mem_nil_iff, or_false] at ha
      subst ha; cases hdef
    · simp at ha

theorem c06_request_wf_false : ¬ c06_request_wf := by
  intro h
  have h := h T6 opHole [("v", .int 5)] (by rfl) T6_defaults (by rfl) (by intro p hp; simp at hp; subst hp; rfl)
  have hreq : request T6 opHole [("v", .int 5)] = none := by rfl
  have hrun : (run Defects.none T6 opHole [("v", .int 5)]).fields = [("g", .seen []), ("f", .err)] := by rfl
  rw [hreq] at h
  simp only [hrun] at h
  have h := h.2 ("g", .seen []) (by simp)
  rcases h with h | h <;> cases h


/-- a oneof object whose variants are registered non-null (no derive macro produces it) -/
def T7 : Table :=
  { types := [("Int", .scalar), ("O", .input true [⟨"x", .named "Int", none⟩, ⟨"y", .named "Int", none⟩])],
    fields := [⟨"f", [⟨"p", .opt (.named "O"), none⟩]⟩] }

/-- `{ f(p: {x: 1}) }` -/
def opOneof : OpDef :=
  { ty := .query, name := none, vars := [], dirs := [],
    sels := [.field none "f" [("p", .obj [("x", .int 1)])] [] [] ⟨0, 0⟩] }

/-- second reason why `c06_request_wf` fails: `wfTable` lets a oneof variant be registered with a
    non-null type; `is_valid_input_value` then demands every variant as a required field and
    refuses `{x: 1}`, which the specification coerces.  The derive macro registers variants as
    `Option<T>` (`wfTable2`). -/
theorem c06_witness_oneof_variant_registered_nonnull :
    wfTable T7 = true ∧ docOk T7 opOneof = true ∧ wfTable2 T7 = false
    ∧ request T7 opOneof [] = some [("f", some [("p", .obj [("x", .int 1)])])]
    ∧ (run Defects.none T7 opOneof []).status = .reqerr := by
  refine ⟨rfl, rfl, rfl, rfl, rfl⟩

/-- **Request level, flat arguments.**  For every well-formed table (`wfTable2`: as `wfTable`, oneof
    variants registered nullable, argument names of a root field pairwise distinct) whose defaults
    denote the Rust defaults, every VALID query operation (`docOk`) in which every argument is a
    variable or a literal without variables (`flatOp`), and every assignment of variable values
    that are maps (`distinctKeys`), have 32-bit integers (`intsSmall`) and do not put a non-object
    where an input object is expected (`noHole`): if variable coercion fails nothing is invoked and
    the response has an error; otherwise a root field whose specified argument coercion succeeds is
    invoked with exactly the specified arguments — through list coercion of variable values and
    literals, input-object defaults, oneof objects, variable and argument defaults — unless some
    field of the request fails, and a field whose coercion fails is not invoked and the response
    has an error.  About the repaired model (all toggles off). -/
theorem c06_request_partial (T : Table) (op : OpDef) (raw : List (String × GValue))
    (hwf : wfTable2 T = true) (hdef : defaultsOk T) (hdoc : docOk T op = true) (hflat : flatOp op = true)
    (hsmall : ∀ p ∈ raw, intsSmall p.2 = true) (hkeys : ∀ p ∈ raw, distinctKeys p.2 = true)
    (hhole : ∀ vd ∈ op.vars, ∀ v, lookup raw vd.name = some v → noHole T vd.ty v = true) :
    match request T op raw with
    | none => (run Defects.none T op raw).status ≠ .ok ∧
        ∀ f ∈ (run Defects.none T op raw).fields, f.2 = .err ∨ f.2 = .notInvoked
    | some fs =>
      ((run Defects.none T op raw).status = .ok ↔ fs.all (·.2.isSome) = true) ∧
      ∀ p ∈ fs.zip (run Defects.none T op raw).fields,
        p.1.1 = p.2.1 ∧
        match p.1.2 with
        | some args => p.2.2 = .seen args ∨ (fs.any (·.2.isNone) ∧ (p.2.2 = .err ∨ p.2.2 = .notInvoked))
        | none => p.2.2 = .err ∨ p.2.2 = .notInvoked := by
  have H : ReqHyp T op raw := ⟨hwf, hdef.1, hdef.2, hdoc, hflat, hsmall, hkeys, hhole⟩
  cases hcv : coerceVars T op.vars raw with
  | none =>
    have hreq : request T op raw = none := by simp [request, hcv]
    obtain ⟨h1, h2⟩ := H.request_none hcv
    rw [hreq]
    simp only [h1, h2]
    refine ⟨by simp, ?_⟩
    intro f hf
    simp only [List.mem_map] at hf
    obtain ⟨r, _, rfl⟩ := hf
    exact Or.inr rfl
  | some vars =>
    obtain ⟨h1, h2⟩ := H.request_some vars hcv
    rw [request_eq T op raw vars hcv]
    refine ⟨h1, ?_⟩
    intro p hp
    obtain ⟨ha, hb, hc⟩ := h2 p hp
    refine ⟨ha, ?_⟩
    split
    · rename_i args hargs; exact hb args hargs
    · rename_i hnone; exact hc hnone

/-- the hypotheses are met by the table `T2` (struct with optional, defaulted and nested-list
    fields), `query($v: I, $n: Int = 3){ f(x: $v) k: f(x: {c: 1, a: 7}) }` and `v = {c: [2], b: 4}`:
    both resolvers are invoked, `c: [2]` arrives as `[[2]]`, `c: 1` as `[[1]]`, the missing `b` as 5 -/
def opFlat : OpDef :=
  { ty := .query, name := none, vars := [⟨"v", .named "I", none⟩, ⟨"n", .named "Int", some (.int 3)⟩], dirs := [],
    sels := [.field none "f" [("x", .var "v")] [] [] ⟨0, 0⟩,
             .field (some "k") "f" [("x", .obj [("c", .int 1), ("a", .int 7)])] [] [] ⟨0, 0⟩] }

theorem T2_defaultsOk : defaultsOk T2 := by
  refine ⟨T2_defaults, ?_⟩
  intro sig hsig a ha d hdef
  simp only [T2, List.mem_cons, List.mem_nil_iff, or_false] at hsig
  subst hsig
  simp only [List.mem_cons, List.mem_nil_iff, or_false] at ha
  subst ha; cases hdef

example : wfTable2 T2 = true ∧ defaultsOk T2 ∧ docOk T2 opFlat = true ∧ flatOp opFlat = true
    ∧ (∀ p ∈ [("v", GValue.obj [("c", .list [.int 2]), ("b", .int 4)])], intsSmall p.2 = true ∧ distinctKeys p.2 = true)
    ∧ (∀ vd ∈ opFlat.vars, ∀ v, lookup [("v", GValue.obj [("c", .list [.int 2]), ("b", .int 4)])] vd.name = some v →
        noHole T2 vd.ty v = true)
    ∧ (run Defects.none T2 opFlat [("v", .obj [("c", .list [.int 2]), ("b", .int 4)])]).fields =
        [("f", .seen [("x", .obj [("a", .null), ("b", .int 4), ("c", .list [.list [.int 2]])])]),
         ("k", .seen [("x", .obj [("a", .int 7), ("b", .int 5), ("c", .list [.list [.int 1]])])])] := by
  refine ⟨rfl, T2_defaultsOk, rfl, rfl, ?_, ?_, rfl⟩
  · intro p hp
    simp only [List.mem_cons, List.mem_nil_iff, or_false] at hp
    subst hp; exact ⟨rfl, rfl⟩
  · intro vd hvd v hl
    simp only [opFlat, List.mem_cons, List.mem_nil_iff, or_false] at hvd
    rcases hvd with rfl | rfl
    · have : v = .obj [("c", .list [.int 2]), ("b", .int 4)] := by
        simpa [lookup] using hl.symm
      subst this; rfl
    · simp [lookup] at hl

/-- **Request level, corrected** (OPEN — not proved): `c06_request_partial` without `flatOp`, i.e. also
    for variables INSIDE list and input-object literals.  There the code parses the literal with
    the RAW variable values substituted at the position's type, the specification coerces the
    literal with the variable values already COERCED at the variable's type substituted; equating
    the two needs "coercion commutes with substitution" up to `view` (the re-coercion of a coerced
    input object — defaults filled in, keys reordered — is the same Rust value), which is not
    proved. -/
def c06_request_valid : Prop :=
  ∀ (T : Table) (op : OpDef) (raw : List (String × GValue)),
    wfTable2 T = true → defaultsOk T → docOk T op = true →
    (∀ p ∈ raw, intsSmall p.2 = true) → (∀ p ∈ raw, distinctKeys p.2 = true) →
    (∀ vd ∈ op.vars, ∀ v, lookup raw vd.name = some v → noHole T vd.ty v = true) →
    match request T op raw with
    | none => (run Defects.none T op raw).status ≠ .ok ∧
        ∀ f ∈ (run Defects.none T op raw).fields, f.2 = .err ∨ f.2 = .notInvoked
    | some fs =>
      ((run Defects.none T op raw).status = .ok ↔ fs.all (·.2.isSome) = true) ∧
      ∀ p ∈ fs.zip (run Defects.none T op raw).fields,
        p.1.1 = p.2.1 ∧
        match p.1.2 with
        | some args => p.2.2 = .seen args ∨ (fs.any (·.2.isNone) ∧ (p.2.2 = .err ∨ p.2.2 = .notInvoked))
        | none => p.2.2 = .err ∨ p.2.2 = .notInvoked

end AGV.Props.C06
