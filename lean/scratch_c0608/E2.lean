import AGV.Props.C06
open AGV.Core AGV.Spec.Coerce AGV.Model.Coerce AGV.Lemmas.Coerce AGV.Props.C06

def T7 : Table :=
  { types := [("Int", .scalar), ("O", .input true [⟨"x", .named "Int", none⟩, ⟨"y", .named "Int", none⟩])],
    fields := [⟨"f", [⟨"p", .opt (.named "O"), none⟩]⟩] }
def op7 : OpDef :=
  { ty := .query, name := none, vars := [], dirs := [],
    sels := [.field none "f" [("p", .obj [("x", .int 1)])] [] [] ⟨0, 0⟩] }
#eval (wfTable T7, docOk T7 op7)
#eval request T7 op7 []
#eval run Defects.none T7 op7 []

-- nested variables, richer table
def T8 : Table :=
  { types := [("Int", .scalar), ("Float", .scalar), ("ID", .scalar), ("Color", .enum ["RED", "GREEN"]),
              ("I", .input false [⟨"a", .opt (.named "Int"), none⟩, ⟨"b", .named "Int", some (.int 5)⟩,
                                  ⟨"c", .opt (.vec (.vec (.named "Int"))), none⟩, ⟨"col", .opt (.named "Color"), none⟩,
                                  ⟨"fl", .opt (.named "Float"), none⟩, ⟨"id", .opt (.named "ID"), none⟩]),
              ("W", .input false [⟨"i", .opt (.named "I"), none⟩, ⟨"is", .opt (.vec (.named "I")), none⟩]),
              ("O", .input true [⟨"x", .opt (.named "Int"), none⟩, ⟨"y", .opt (.named "I"), none⟩])],
    fields := [⟨"f", [⟨"w", .opt (.named "W"), none⟩]⟩, ⟨"g", [⟨"o", .opt (.named "O"), none⟩]⟩,
               ⟨"h", [⟨"xs", .opt (.vec (.opt (.vec (.named "Int")))), none⟩]⟩] }
def mk (vars : List VarDef) (sels : List Sel) : OpDef := { ty := .query, name := none, vars := vars, dirs := [], sels := sels }
def fld (n : String) (args : List (String × DValue)) : Sel := .field none n args [] [] ⟨0,0⟩

def okOut : Option (List (String × RV)) → Outcome → Bool → Bool
  | some args, .seen a, _ => args == a
  | some _, _, anyNone => anyNone
  | none, .seen _, _ => false
  | none, _, _ => true
def chk (T : Table) (op : OpDef) (raw : List (String × GValue)) : Bool × Bool × Bool :=
  let r := run Defects.none T op raw
  (docOk T op, (request T op raw).isSome,
  match request T op raw with
  | none => r.status != .ok && r.fields.all (fun f => match f.2 with | .seen _ => false | _ => true)
  | some fs => ((r.status == .ok) == fs.all (·.2.isSome)) && fs.length == r.fields.length &&
      (fs.zip r.fields).all (fun p => p.1.1 == p.2.1 && okOut p.1.2 p.2.2 (fs.any (·.2.isNone))))

#eval chk T8 (mk [⟨"v", .named "I", none⟩] [fld "f" [("w", .obj [("i", .var "v")])]]) [("v", .obj [("col", .str "RED"), ("fl", .int 3), ("id", .int 7), ("c", .int 1)])]
#eval chk T8 (mk [⟨"v", .named "I", none⟩] [fld "f" [("w", .obj [("is", .var "v")])]]) [("v", .obj [])]
#eval chk T8 (mk [⟨"v", .list (.named "I"), none⟩] [fld "f" [("w", .obj [("is", .var "v")])]]) [("v", .obj [("a", .int 2)])]
#eval chk T8 (mk [⟨"v", .named "Int", some (.int 3)⟩] [fld "g" [("o", .obj [("x", .var "v")])]]) []
#eval chk T8 (mk [⟨"v", .named "Int", some (.int 3)⟩] [fld "g" [("o", .obj [("x", .var "v")])]]) [("v", .null)]
#eval chk T8 (mk [⟨"v", .list (.named "Int"), none⟩] [fld "h" [("xs", .list [.var "v", .null, .list [.int 1]])]]) [("v", .int 4)]
#eval chk T8 (mk [⟨"v", .list (.named "Int"), none⟩] [fld "h" [("xs", .list [.var "v", .null, .list [.int 1]])]]) []
#eval chk T8 (mk [⟨"v", .named "I", some (.obj [("b", .int 9), ("a", .int 1)])⟩] [fld "f" [("w", .obj [("i", .var "v")])]]) []
#eval chk T8 (mk [⟨"v", .named "I", none⟩] [fld "f" [("w", .obj [("i", .var "v")])]]) [("v", .obj [("b", .int 1), ("b", .int 2)])]

#eval chk T8 (mk [⟨"v", .named "Color", none⟩, ⟨"u", .named "Float", none⟩] [fld "f" [("w", .obj [("i", .obj [("col", .var "v"), ("fl", .var "u"), ("b", .int 2)])])]]) [("v", .str "GREEN"), ("u", .int 2)]
#eval chk T8 (mk [⟨"v", .named "I", none⟩] [fld "f" [("w", .obj [("is", .list [.var "v", .obj [("a", .null)]])])]]) [("v", .obj [("c", .list [.int 1, .list []])])]
#eval chk T8 (mk [⟨"v", .named "I", none⟩] [fld "g" [("o", .obj [("y", .var "v")])]]) [("v", .null)]
#eval chk T8 (mk [⟨"v", .nonNull (.named "I"), none⟩] [fld "g" [("o", .obj [("y", .var "v")])]]) [("v", .obj [])]
#eval chk T8 (mk [⟨"v", .named "Int", none⟩] [fld "f" [("w", .obj [("i", .obj [("b", .var "v")])])]]) []
#eval chk T8 (mk [⟨"v", .named "Int", none⟩] [fld "f" [("w", .obj [("i", .obj [("b", .var "v")])])]]) [("v", .null)]
#eval chk T8 (mk [⟨"v", .named "Int", none⟩] [fld "h" [], fld "f" [("w", .obj [("i", .obj [("b", .var "v")])])], fld "h" []]) [("v", .null)]
