import Scr.R4

namespace AGV.Lemmas.Coerce
open AGV.Core
open AGV.Spec.Coerce
open AGV.Model.Coerce

-- ------------------------------------------------------------------ the root fields in order

abbrev Root := String × String × List (String × DValue)

/-- what the specification requires of one root field -/
def specOf (T : Table) (vars : List (String × GValue)) (r : Root) : Option (List (String × RV)) :=
  (T.field? r.2.1).bind (fieldArgs T vars r.2.2)

/-- what the code computes for one root field -/
def implOf (T : Table) (defs : List VarDef) (raw : List (String × GValue)) (r : Root) :
    Option (List (String × RV)) :=
  (T.field? r.2.1).bind (fun sig => paramValues Defects.none T defs raw r.2.2 sig.args)

def isSeen : Outcome → Bool
  | .seen _ => true
  | _ => false

theorem request_eq (T : Table) (op : OpDef) (raw vars : List (String × GValue))
    (h : coerceVars T op.vars raw = some vars) :
    request T op raw = some ((rootFields op).map (fun r => (r.1, specOf T vars r))) := by
  simp only [request, h, rootFields, List.map_filterMap, Option.some.injEq]
  congr 1
  funext s
  cases s <;> rfl

theorem exec_true (T : Table) (defs : List VarDef) (raw : List (String × GValue)) : ∀ (R : List Root),
    execFields Defects.none T defs raw R true = R.map (fun r => (r.1, Outcome.notInvoked))
  | [] => rfl
  | (key, n, args) :: rest => by simp [execFields, exec_true T defs raw rest]

theorem exec_spec (T : Table) (defs : List VarDef) (raw vars : List (String × GValue)) :
    ∀ (R : List Root) (b : Bool),
    (∀ r ∈ R, implOf T defs raw r = specOf T vars r) →
    (∀ p ∈ (R.map (fun r => (r.1, specOf T vars r))).zip (execFields Defects.none T defs raw R b),
      p.1.1 = p.2.1 ∧
      (∀ args, p.1.2 = some args → p.2.2 = .seen args ∨
        ((b = true ∨ R.any (fun r => (specOf T vars r).isNone) = true) ∧ (p.2.2 = .err ∨ p.2.2 = .notInvoked))) ∧
      (p.1.2 = none → p.2.2 = .err ∨ p.2.2 = .notInvoked)) ∧
    (b = false → (execFields Defects.none T defs raw R b).all (fun o => isSeen o.2) =
      R.all (fun r => (specOf T vars r).isSome))
  | [], b, _ => by simp [execFields]
  | (key, n, args) :: rest, true, h => by
    have ih := exec_spec T defs raw vars rest true (fun r hr => h r (by simp [hr]))
    refine ⟨?_, by simp⟩
    intro p hp
    simp only [execFields, List.map_cons, List.zip_cons_cons, List.mem_cons] at hp
    rcases hp with rfl | hp
    · refine ⟨rfl, ?_, by simp⟩
      intro args _; right; simp
    · obtain ⟨h1, h2, h3⟩ := ih.1 p hp
      refine ⟨h1, ?_, h3⟩
      intro args ha
      rcases h2 args ha with h2 | h2
      · exact Or.inl h2
      · exact Or.inr ⟨Or.inl rfl, h2.2⟩
  | (key, n, args) :: rest, false, h => by
    have hhead := h (key, n, args) (by simp)
    simp only [implOf] at hhead
    cases hs : specOf T vars (key, n, args) with
    | some vs =>
      have ih := exec_spec T defs raw vars rest false (fun r hr => h r (by simp [hr]))
      rw [hs] at hhead
      simp only [execFields, hhead, List.map_cons, List.zip_cons_cons, List.mem_cons, List.any_cons,
        List.all_cons, hs]
      refine ⟨?_, ?_⟩
      · intro p hp
        rcases hp with rfl | hp
        · refine ⟨rfl, ?_, by simp⟩
          intro args ha; left; simp at ha; simp [ha]
        · obtain ⟨h1, h2, h3⟩ := ih.1 p hp
          refine ⟨h1, ?_, h3⟩
          intro args ha
          rcases h2 args ha with h2 | h2
          · exact Or.inl h2
          · right
            refine ⟨Or.inr ?_, h2.2⟩
            rcases h2.1 with h | h
            · cases h
            · simp [h]
      · intro _; rw [← ih.2 rfl]; rfl
    | none =>
      have ih := exec_spec T defs raw vars rest true (fun r hr => h r (by simp [hr]))
      rw [hs] at hhead
      simp only [execFields, hhead, List.map_cons, List.zip_cons_cons, List.mem_cons, List.any_cons,
        List.all_cons, hs]
      refine ⟨?_, ?_⟩
      · intro p hp
        rcases hp with rfl | hp
        · refine ⟨rfl, by simp, by simp⟩
        · obtain ⟨h1, h2, h3⟩ := ih.1 p hp
          refine ⟨h1, ?_, h3⟩
          intro args ha
          rcases h2 args ha with h2 | h2
          · exact Or.inl h2
          · exact Or.inr ⟨Or.inr (by simp), h2.2⟩
      · intro _; simp [isSeen]

end AGV.Lemmas.Coerce
