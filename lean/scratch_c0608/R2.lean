import Scr.R1

namespace AGV.Lemmas.Coerce
open AGV.Core
open AGV.Spec.Coerce
open AGV.Model.Coerce

-- ------------------------------------------------------------------ literals without variables

mutual
def noVars : DValue → Bool
  | .var _ => false
  | .list xs => noVarsList xs
  | .obj fs => noVarsFields fs
  | _ => true
def noVarsList : List DValue → Bool
  | [] => true
  | x :: xs => noVars x && noVarsList xs
def noVarsFields : List (String × DValue) → Bool
  | [] => true
  | (_, v) :: rest => noVars v && noVarsFields rest
end

mutual
/-- the constant a variable-free literal denotes (a variable reads as null; never used) -/
def constOf : DValue → GValue
  | .var _ => .null
  | .null => .null
  | .int i => .int i
  | .float t => .float t
  | .str s => .str s
  | .bool b => .bool b
  | .enum n => .enum n
  | .list xs => .list (constOfList xs)
  | .obj fs => .obj (constOfFields fs)
def constOfList : List DValue → List GValue
  | [] => []
  | x :: xs => constOf x :: constOfList xs
def constOfFields : List (String × DValue) → List (String × GValue)
  | [] => []
  | (k, v) :: rest => (k, constOf v) :: constOfFields rest
end

theorem constOfFields_keys : ∀ fs : List (String × DValue), (constOfFields fs).map (·.1) = fs.map (·.1)
  | [] => rfl
  | (k, v) :: rest => by simp [constOfFields, constOfFields_keys rest]

mutual
theorem subst_const (vars : List (String × GValue)) : ∀ dv : DValue, noVars dv = true →
    subst vars dv = some (constOf dv)
  | .var _, h => by simp [noVars] at h
  | .null, _ => by simp [subst, constOf]
  | .int _, _ => by simp [subst, constOf]
  | .float _, _ => by simp [subst, constOf]
  | .str _, _ => by simp [subst, constOf]
  | .bool _, _ => by simp [subst, constOf]
  | .enum _, _ => by simp [subst, constOf]
  | .list xs, h => by simp only [noVars] at h; simp [subst, constOf, substList_const vars xs h]
  | .obj fs, h => by simp only [noVars] at h; simp [subst, constOf, substFields_const vars fs h]
theorem substList_const (vars : List (String × GValue)) : ∀ xs : List DValue, noVarsList xs = true →
    substList vars xs = constOfList xs
  | [], _ => by simp [substList, constOfList]
  | x :: xs, h => by
    simp only [noVarsList, Bool.and_eq_true] at h
    simp [substList, constOfList, subst_const vars x h.1, substList_const vars xs h.2]
theorem substFields_const (vars : List (String × GValue)) : ∀ fs : List (String × DValue),
    noVarsFields fs = true → substFields vars fs = constOfFields fs
  | [], _ => by simp [substFields, constOfFields]
  | (k, v) :: rest, h => by
    simp only [noVarsFields, Bool.and_eq_true] at h
    simp [substFields, constOfFields, subst_const vars v h.1, substFields_const vars rest h.2]
end

mutual
theorem resolve_const (defs : List VarDef) (raw : List (String × GValue)) : ∀ dv : DValue, noVars dv = true →
    resolve defs raw dv = some (constOf dv)
  | .var _, h => by simp [noVars] at h
  | .null, _ => by simp [resolve, constOf]
  | .int _, _ => by simp [resolve, constOf]
  | .float _, _ => by simp [resolve, constOf]
  | .str _, _ => by simp [resolve, constOf]
  | .bool _, _ => by simp [resolve, constOf]
  | .enum _, _ => by simp [resolve, constOf]
  | .list xs, h => by simp only [noVars] at h; simp [resolve, constOf, resolveList_const defs raw xs h]
  | .obj fs, h => by simp only [noVars] at h; simp [resolve, constOf, resolveFields_const defs raw fs h]
theorem resolveList_const (defs : List VarDef) (raw : List (String × GValue)) : ∀ xs : List DValue,
    noVarsList xs = true → resolveList defs raw xs = constOfList xs
  | [], _ => by simp [resolveList, constOfList]
  | x :: xs, h => by
    simp only [noVarsList, Bool.and_eq_true] at h
    simp [resolveList, constOfList, resolve_const defs raw x h.1, resolveList_const defs raw xs h.2]
theorem resolveFields_const (defs : List VarDef) (raw : List (String × GValue)) : ∀ fs : List (String × DValue),
    noVarsFields fs = true → resolveFields defs raw fs = constOfFields fs
  | [], _ => by simp [resolveFields, constOfFields]
  | (k, v) :: rest, h => by
    simp only [noVarsFields, Bool.and_eq_true] at h
    simp [resolveFields, constOfFields, resolve_const defs raw v h.1, resolveFields_const defs raw rest h.2]
end

mutual
theorem toConst_const (raw : List (String × GValue)) : ∀ dv : DValue, noVars dv = true →
    toConst raw dv = some (constOf dv)
  | .var _, h => by simp [noVars] at h
  | .null, _ => by simp [toConst, constOf]
  | .int _, _ => by simp [toConst, constOf]
  | .float _, _ => by simp [toConst, constOf]
  | .str _, _ => by simp [toConst, constOf]
  | .bool _, _ => by simp [toConst, constOf]
  | .enum _, _ => by simp [toConst, constOf]
  | .list xs, h => by simp only [noVars] at h; simp [toConst, constOf, toConstList_const raw xs h]
  | .obj fs, h => by simp only [noVars] at h; simp [toConst, constOf, toConstFields_const raw fs h]
theorem toConstList_const (raw : List (String × GValue)) : ∀ xs : List DValue,
    noVarsList xs = true → toConstList raw xs = some (constOfList xs)
  | [], _ => by simp [toConstList, constOfList]
  | x :: xs, h => by
    simp only [noVarsList, Bool.and_eq_true] at h
    simp [toConstList, constOfList, toConst_const raw x h.1, toConstList_const raw xs h.2]
theorem toConstFields_const (raw : List (String × GValue)) : ∀ fs : List (String × DValue),
    noVarsFields fs = true → toConstFields raw fs = some (constOfFields fs)
  | [], _ => by simp [toConstFields, constOfFields]
  | (k, v) :: rest, h => by
    simp only [noVarsFields, Bool.and_eq_true] at h
    simp [toConstFields, constOfFields, toConst_const raw v h.1, toConstFields_const raw rest h.2]
end

mutual
theorem litOf_const : ∀ g : GValue, noVars (litOf g) = true ∧ constOf (litOf g) = g
  | .null => by simp [litOf, noVars, constOf]
  | .int _ => by simp [litOf, noVars, constOf]
  | .float _ => by simp [litOf, noVars, constOf]
  | .str _ => by simp [litOf, noVars, constOf]
  | .bool _ => by simp [litOf, noVars, constOf]
  | .enum _ => by simp [litOf, noVars, constOf]
  | .list xs => by simp [litOf, noVars, constOf, litOfList_const xs]
  | .obj fs => by simp [litOf, noVars, constOf, litOfFields_const fs]
theorem litOfList_const : ∀ xs : List GValue, noVarsList (litOfList xs) = true ∧ constOfList (litOfList xs) = xs
  | [] => by simp [litOfList, noVarsList, constOfList]
  | x :: xs => by simp [litOfList, noVarsList, constOfList, litOf_const x, litOfList_const xs]
theorem litOfFields_const : ∀ fs : List (String × GValue),
    noVarsFields (litOfFields fs) = true ∧ constOfFields (litOfFields fs) = fs
  | [] => by simp [litOfFields, noVarsFields, constOfFields]
  | (k, v) :: rest => by simp [litOfFields, noVarsFields, constOfFields, litOf_const v, litOfFields_const rest]
end


-- ------------------------------------------------------------------ valid constant literals coerce

theorem constOf_ne_null (T : Table) (ty : TypeRef) (vars : List VarDef) (hd : Bool) (v : DValue)
    (h : litOk T vars (.nonNull ty) hd v = true) (hn : noVars v = true) : constOf v ≠ .null := by
  cases v <;> simp_all [constOf, litOk, noVars, TypeRef.isNonNull]

theorem leaf_lit (T : Table) (ty : TypeRef) (w : GValue) (h : (coerceLeaf T false ty.base w).isSome = true) :
    ∃ c, (coerceLeaf T false ty.base w).map (wrap ty) = some c := by
  obtain ⟨a, ha⟩ := Option.isSome_iff_exists.mp h
  exact ⟨wrap ty a, by simp [ha]⟩

mutual
theorem lit_coerce (T : Table) (vars : List VarDef) : ∀ (dv : DValue) (ty : TypeRef) (hd : Bool),
    litOk T vars ty hd dv = true → noVars dv = true →
    (∃ c, coerce T false ty (constOf dv) = some c) ∧ distinctKeys (constOf dv) = true
  | .var _, _, _, _, hn => by simp [noVars] at hn
  | .null, ty, _, h, _ => by
    simp only [litOk] at h
    simp only [constOf, coerce, distinctKeys]
    cases hnn : ty.isNonNull <;> simp_all
  | .int i, ty, _, h, _ => by
    simp only [litOk] at h; simp only [constOf, coerce, distinctKeys]; exact ⟨leaf_lit T ty _ h, trivial⟩
  | .float i, ty, _, h, _ => by
    simp only [litOk] at h; simp only [constOf, coerce, distinctKeys]; exact ⟨leaf_lit T ty _ h, trivial⟩
  | .str i, ty, _, h, _ => by
    simp only [litOk] at h; simp only [constOf, coerce, distinctKeys]; exact ⟨leaf_lit T ty _ h, trivial⟩
  | .bool i, ty, _, h, _ => by
    simp only [litOk] at h; simp only [constOf, coerce, distinctKeys]; exact ⟨leaf_lit T ty _ h, trivial⟩
  | .enum i, ty, _, h, _ => by
    simp only [litOk] at h; simp only [constOf, coerce, distinctKeys]; exact ⟨leaf_lit T ty _ h, trivial⟩
  | .list xs, ty, _, h, hn => by
    simp only [litOk] at h
    simp only [noVars] at hn
    simp only [constOf, coerce, distinctKeys]
    split at h
    · rename_i t ht
      obtain ⟨⟨cs, hcs⟩, hdk⟩ := lit_coerceList T vars xs t h hn
      simp only [ht]
      exact ⟨⟨.list cs, by simp [hcs]⟩, hdk⟩
    · cases h
  | .obj fs, ty, _, h, hn => by
    simp only [litOk] at h
    simp only [noVars] at hn
    simp only [constOf, coerce, distinctKeys]
    cases hf : T.find? ty.base with
    | none => simp [hf] at h
    | some d =>
      cases d with
      | scalar => simp [hf] at h
      | enum vs => simp [hf] at h
      | input o fields =>
        simp only [hf, Bool.and_eq_true] at h ⊢
        obtain ⟨⟨h1, h2⟩, h3⟩ := h
        obtain ⟨⟨es, hes⟩, hdk⟩ := lit_coerceEntries T vars fs o fields h2 hn
        have hkeys := coerceEntries_keys T false fields _ es hes
        rw [constOfFields_keys] at hkeys
        simp only [hes, constOfFields_keys, h1, hdk, and_self, and_true]
        cases o with
        | false =>
          simp only [Bool.false_eq_true, if_false] at h3 ⊢
          have : (finishFields fields es).isSome = true := by
            rw [finishFields_some_iff]
            intro f hfm
            rw [lookup_isSome_keys es fs hkeys]
            have := (List.all_eq_true.mp h3) f hfm
            simp only [Bool.or_eq_true, Bool.not_eq_true'] at this
            rcases this with (h | h) | h <;> simp [h]
          obtain ⟨r, hr⟩ := Option.isSome_iff_exists.mp this
          exact ⟨wrap ty (.obj r), by simp [hr]⟩
        | true =>
          simp only [if_true, decide_eq_true_eq] at h3 ⊢
          cases fs with
          | nil => simp at h3
          | cons e rest =>
            obtain ⟨k, v⟩ := e
            cases rest with
            | cons _ _ => simp at h3
            | nil =>
              simp only [litOkEntries, Bool.and_true] at h2
              simp only [noVarsFields, Bool.and_true] at hn
              simp only [constOfFields, coerceEntries] at hes
              split at h2
              · rename_i f hff
                simp only [if_true] at h2
                have hv := constOf_ne_null T _ vars false v h2 hn
                simp only [hff] at hes
                cases hc : coerce T false f.ty.gql (constOf v) with
                | none => simp [hc] at hes
                | some a =>
                  simp [hc] at hes
                  subst hes
                  have hane := coerce_ne_null T false _ _ a hv hc
                  exact ⟨wrap ty (.obj [(k, a)]), by simp [finishOneOf_one k a hane]⟩
              · cases h2
theorem lit_coerceList (T : Table) (vars : List VarDef) : ∀ (xs : List DValue) (t : TypeRef),
    litOkList T vars t xs = true → noVarsList xs = true →
    (∃ cs, coerceList T false t (constOfList xs) = some cs) ∧ distinctKeysList (constOfList xs) = true
  | [], _, _, _ => by simp [constOfList, coerceList, distinctKeysList]
  | x :: xs, t, h, hn => by
    simp only [litOkList, noVarsList, Bool.and_eq_true] at h hn
    obtain ⟨⟨a, ha⟩, h1⟩ := lit_coerce T vars x t false h.1 hn.1
    obtain ⟨⟨b, hb⟩, h2⟩ := lit_coerceList T vars xs t h.2 hn.2
    exact ⟨⟨a :: b, by simp [constOfList, coerceList, ha, hb]⟩, by simp [constOfList, distinctKeysList, h1, h2]⟩
theorem lit_coerceEntries (T : Table) (vars : List VarDef) : ∀ (fs : List (String × DValue)) (o : Bool)
    (fields : List InField),
    litOkEntries T vars o fields fs = true → noVarsFields fs = true →
    (∃ es, coerceEntries T false fields (constOfFields fs) = some es) ∧
      distinctKeysFields (constOfFields fs) = true
  | [], _, _, _, _ => by simp [constOfFields, coerceEntries, distinctKeysFields]
  | (k, v) :: rest, o, fields, h, hn => by
    simp only [litOkEntries, noVarsFields, Bool.and_eq_true] at h hn
    obtain ⟨⟨b, hb⟩, h2⟩ := lit_coerceEntries T vars rest o fields h.2 hn.2
    cases hf : fields.find? (·.name = k) with
    | none => simp [hf] at h
    | some f =>
      simp only [hf] at h
      cases o with
      | false =>
        simp only [Bool.false_eq_true, if_false] at h
        obtain ⟨⟨a, ha⟩, h1⟩ := lit_coerce T vars v f.ty.gql _ h.1 hn.1
        exact ⟨⟨(k, a) :: b, by simp [constOfFields, coerceEntries, hf, ha, hb]⟩,
          by simp [constOfFields, distinctKeysFields, h1, h2]⟩
      | true =>
        simp only [if_true] at h
        obtain ⟨⟨a, ha⟩, h1⟩ := lit_coerce T vars v (.nonNull f.ty.gql.nullable) _ h.1 hn.1
        have hv := constOf_ne_null T _ vars false v h.1 hn.1
        rw [coerce_congr T false (.nonNull f.ty.gql.nullable) f.ty.gql _ hv (by simp [TypeRef.nullable])] at ha
        exact ⟨⟨(k, a) :: b, by simp [constOfFields, coerceEntries, hf, ha, hb]⟩,
          by simp [constOfFields, distinctKeysFields, h1, h2]⟩
end

end AGV.Lemmas.Coerce
