import Scr.R3

namespace AGV.Lemmas.Coerce
open AGV.Core
open AGV.Spec.Coerce
open AGV.Model.Coerce

-- ------------------------------------------------------------------ one argument

theorem c06_absent' (rty : RTy) :
    parseAbsent Defects.none rty = if rty.gql.isNonNull then none else some (viewAbsent rty) := by
  cases rty with
  | mu t => simp [parseAbsent, viewAbsent, RTy.gql, gql_nullable_not_nonNull]
  | opt t => simp [parseAbsent, viewAbsent, parseNull_repaired]
  | vec t => simp [parseAbsent, viewAbsent, parseNull_repaired]
  | named n => simp [parseAbsent, viewAbsent, parseNull_repaired]

theorem compat_not_nonNull (a l : TypeRef) (ha : ∀ x, a ≠ .nonNull x) (h : compatible a l = true) :
    ∀ x, l ≠ .nonNull x := by
  intro x e; subst e
  cases a with
  | nonNull y => exact ha y rfl
  | named n => simp [compatible] at h
  | list t => simp [compatible] at h

/-- §5.8.5: a non-null value that coerces at the variable's type coerces alike at the position -/
theorem usage_coerce (T : Table) (j : Bool) (vd : VarDef) (loc : TypeRef) (hd : Bool) (v c : GValue)
    (hu : usageAllowed vd loc hd = true) (hv : v ≠ .null) (h : coerce T j vd.ty v = some c) :
    coerce T j loc v = some c := by
  unfold usageAllowed at hu
  split at hu
  · exact compat_coerce T j v _ _ c hu h
  · rename_i _ l hnn
    simp only [Bool.and_eq_true] at hu
    have hl := compat_not_nonNull vd.ty l (fun x e => hnn x e) hu.2
    have := compat_coerce T j v _ _ c hu.2 h
    rw [coerce_congr T j (.nonNull l) l v hv (by cases l <;> simp_all [TypeRef.nullable])]
    exact this
  · exact compat_coerce T j v _ _ c hu h


/-- the field defaults of the table denote the Rust defaults -/
def fieldDefaultsOk (T : Table) : Prop :=
  ∀ n o fs f d, T.find? n = some (.input o fs) → f ∈ fs → f.default = some d →
    fieldDefault Defects.none T f d = some (view T f.ty d)

theorem parse_of_coerce (T : Table) (hw : wfTable2 T = true) (hdf : fieldDefaultsOk T) (rty : RTy)
    (v c : GValue) (hc : coerce T true rty.gql v = some c) (hdk : distinctKeys v = true) :
    parseD Defects.none T rty v = some (view T rty c) := by
  have := parse_value T (fieldDefault Defects.none T) (wfTable2_wf hw) hdf v rty
    (coerce_shapeOk T true v rty.gql c hc hdk)
  simp only [parseD, this, hc, Option.map_some]

/-- everything the request-level argument needs to know about the variables -/
structure VarCtx (T : Table) (defs : List VarDef) (raw vars : List (String × GValue)) : Prop where
  nodup : nodupB (defs.map (·.name)) = true
  cv : coerceVars T defs raw = some vars
  rawKeys : ∀ p ∈ raw, distinctKeys p.2 = true
  defKeys : ∀ vd ∈ defs, ∀ d, vd.default = some d → distinctKeys d = true

theorem effVal_keys {T : Table} {defs : List VarDef} {raw vars : List (String × GValue)}
    (C : VarCtx T defs raw vars) (vd : VarDef) (hvd : vd ∈ defs) (v : GValue) (h : effVal vd raw = some v) :
    distinctKeys v = true := by
  unfold effVal at h
  split at h
  · rename_i w hl
    cases h
    exact C.rawKeys _ (lookup_mem _ _ _ hl)
  · exact C.defKeys vd hvd v h

theorem absent_eq (T : Table) (a : InField)
    (hda : ∀ d, a.default = some d → parseD Defects.none T a.ty d = some (view T a.ty d)) :
    (match a.default with
      | some d => parseD Defects.none T a.ty d
      | none => parseAbsent Defects.none a.ty) =
    (match a.default with
      | some d => some (some d)
      | none => if a.ty.gql.isNonNull then none else some none).map (viewArg T a.ty) := by
  cases hdef : a.default with
  | some d => simp [hda d hdef, viewArg]
  | none =>
    have := c06_absent' a.ty
    by_cases hnn : a.ty.gql.isNonNull = true <;> simp [this, hnn, viewArg]

def flatArg : DValue → Bool
  | .var _ => true
  | dv => noVars dv


theorem null_parse (T : Table) (rty : RTy) :
    parseD Defects.none T rty .null = if rty.gql.isNonNull then none else some RV.null := by
  simp [parseD, parseWith, parseNull_repaired]

/-- **One argument**: `get_param_value` delivers the view of CoerceArgumentValues' entry -/
theorem paramValue_eq (T : Table) (hw : wfTable2 T = true) (hdf : fieldDefaultsOk T)
    (defs : List VarDef) (raw vars : List (String × GValue)) (C : VarCtx T defs raw vars)
    (provided : List (String × DValue)) (a : InField)
    (hda : ∀ d, a.default = some d → parseD Defects.none T a.ty d = some (view T a.ty d))
    (hlit : ∀ dv, lookup provided a.name = some dv →
      litOk T defs a.ty.gql a.default.isSome dv = true ∧ flatArg dv = true) :
    paramValue Defects.none T defs raw provided a = (coerceArg T vars provided a).map (viewArg T a.ty) := by
  have habs : ∀ (x : Option RV) (y : Option (Option GValue)),
      x = (match a.default with
        | some d => parseD Defects.none T a.ty d
        | none => parseAbsent Defects.none a.ty) →
      y = (match a.default with
        | some d => some (some d)
        | none => if a.ty.gql.isNonNull then none else some none) → x = y.map (viewArg T a.ty) := by
    intro x y hx hy; subst hx; subst hy
    cases hdef : a.default with
    | some d => simp [hda d hdef, viewArg]
    | none =>
      have := c06_absent' a.ty
      by_cases hnn : a.ty.gql.isNonNull = true <;> simp [this, hnn, viewArg]
  cases hl : lookup provided a.name with
  | none => simp only [paramValue, coerceArg, hl]; exact habs _ _ rfl rfl
  | some dv =>
    obtain ⟨hlk, hfl⟩ := hlit dv hl
    have constCase : noVars dv = true → (∀ n, dv ≠ .var n) →
        paramValue Defects.none T defs raw provided a = (coerceArg T vars provided a).map (viewArg T a.ty) := by
      intro hnv hne
      obtain ⟨⟨c, hc⟩, hdk⟩ := lit_coerce T defs dv a.ty.gql _ hlk hnv
      have hp := parse_of_coerce T hw hdf a.ty _ c (coerce_mono T _ _ _ hc) hdk
      have hr := resolve_const defs raw dv hnv
      have hs := subst_const vars dv hnv
      cases dv with
      | var n => exact absurd rfl (hne n)
      | _ => simp [paramValue, coerceArg, hl, hr, hs, hp, hc, viewArg]
    cases dv with
    | var n =>
      simp only [litOk] at hlk
      cases hfind : defs.find? (·.name = n) with
      | none => simp [hfind] at hlk
      | some vd =>
        simp only [hfind] at hlk
        have hvd : vd ∈ defs := List.mem_of_find?_eq_some hfind
        have hres : resolve defs raw (.var n) = effVal vd raw := by
          simp [resolve, varValue_find defs raw n vd hfind]
        obtain ⟨hnone, hsome⟩ := coerceVars_lookup T raw defs vars C.nodup C.cv n vd hfind
        cases hev : effVal vd raw with
        | none =>
          simp only [paramValue, coerceArg, hl, hres, hev, hnone hev]
          have hD : Defects.none.omittedVarSkipsArgDefault = false := rfl
          simp only [hD, Bool.false_eq_true, if_false]
          exact habs _ _ rfl rfl
        | some v =>
          obtain ⟨c, hc, hlv⟩ := hsome v hev
          by_cases hv : v = .null
          · subst hv
            have := coerce_null_inv T true _ c hc
            subst this
            simp only [paramValue, coerceArg, hl, hres, hev, hlv, null_parse]
            by_cases hnn : a.ty.gql.isNonNull = true <;> simp [hnn, viewArg, view]
          · have hcne := coerce_ne_null T true _ v c hv hc
            have hc' := usage_coerce T true vd a.ty.gql _ v c hlk hv hc
            have hp := parse_of_coerce T hw hdf a.ty v c hc' (effVal_keys C vd hvd v hev)
            simp only [paramValue, coerceArg, hl, hres, hev, hlv, hp]
            rfl
    | null => exact constCase hfl (by simp)
    | int i => exact constCase hfl (by simp)
    | float i => exact constCase hfl (by simp)
    | str i => exact constCase hfl (by simp)
    | bool i => exact constCase hfl (by simp)
    | enum i => exact constCase hfl (by simp)
    | list xs => exact constCase hfl (by simp)
    | obj fs => exact constCase hfl (by simp)


-- ------------------------------------------------------------------ one field

theorem paramValues_eq (T : Table) (defs : List VarDef) (raw vars : List (String × GValue))
    (provided : List (String × DValue)) : ∀ (as : List InField),
    nodupB (as.map (·.name)) = true →
    (∀ a ∈ as, paramValue Defects.none T defs raw provided a =
      (coerceArg T vars provided a).map (viewArg T a.ty)) →
    paramValues Defects.none T defs raw provided as =
      (coerceArgs T vars provided as).map (fun cs =>
        as.map (fun a => (a.name, viewArg T a.ty ((lookup cs a.name).getD none))))
  | [], _, _ => by simp [paramValues, coerceArgs]
  | a :: as, hn, h => by
    simp only [List.map_cons, nodupB_cons] at hn
    have ih := paramValues_eq T defs raw vars provided as hn.2 (fun a' ha' => h a' (by simp [ha']))
    simp only [paramValues, coerceArgs, h a (by simp), ih]
    cases h1 : coerceArg T vars provided a with
    | none => simp
    | some v =>
      cases h2 : coerceArgs T vars provided as with
      | none => simp
      | some rest =>
        simp only [Option.map_some, List.map_cons, lookup_cons, if_true, Option.getD_some]
        congr 2
        apply List.map_congr_left
        intro a' ha'
        have : a.name ≠ a'.name := fun e => hn.1 (e ▸ List.mem_map_of_mem ha')
        rw [if_neg this]

theorem coerceArgs_none (T : Table) (vars : List (String × GValue)) (provided : List (String × DValue)) :
    ∀ (as : List InField) (a : InField), a ∈ as → coerceArg T vars provided a = none →
      coerceArgs T vars provided as = none
  | [], _, h, _ => by simp at h
  | b :: as, a, h, hn => by
    simp only [coerceArgs]
    rcases List.mem_cons.mp h with rfl | h
    · simp [hn]
    · rw [coerceArgs_none T vars provided as a h hn]
      cases coerceArg T vars provided b <;> rfl

/-- ArgumentsOfCorrectType / ProvidedNonNullArguments refuse a valid flat argument only when
    CoerceArgumentValues fails on it (null for a non-null position through a variable) -/
theorem argInvalid_coerceArg (T : Table) (hw : wfTable2 T = true)
    (defs : List VarDef) (raw vars : List (String × GValue)) (C : VarCtx T defs raw vars)
    (provided : List (String × DValue)) (a : InField)
    (hreq : lookup provided a.name = none → (!a.ty.gql.isNonNull || a.default.isSome) = true)
    (hlit : ∀ dv, lookup provided a.name = some dv →
      litOk T defs a.ty.gql a.default.isSome dv = true ∧ flatArg dv = true)
    (hinv : fieldValid Defects.none T raw ⟨"", [a]⟩ provided = false) :
    coerceArg T vars provided a = none := by
  simp only [fieldValid, List.all_cons, List.all_nil, Bool.and_true] at hinv
  cases hl : lookup provided a.name with
  | none => simp [hl, hreq hl] at hinv
  | some dv =>
    obtain ⟨hlk, hfl⟩ := hlit dv hl
    simp only [hl] at hinv
    have constCase : noVars dv = true → False := by
      intro hnv
      obtain ⟨⟨c, hc⟩, _⟩ := lit_coerce T defs dv a.ty.gql _ hlk hnv
      have := coerce_valid T hw _ _ c (coerce_mono T _ _ _ hc)
      simp [toConst_const raw dv hnv, this] at hinv
    cases dv with
    | var n =>
      simp only [litOk] at hlk
      cases hfind : defs.find? (·.name = n) with
      | none => simp [hfind] at hlk
      | some vd =>
        simp only [hfind] at hlk
        have hname : vd.name = n := by simpa using List.find?_some hfind
        obtain ⟨_, hsome⟩ := coerceVars_lookup T raw defs vars C.nodup C.cv n vd hfind
        simp only [toConst] at hinv
        cases hr : lookup raw n with
        | none => simp [hr, isValidP] at hinv
        | some v =>
          simp only [hr] at hinv
          have hev : effVal vd raw = some v := by simp [effVal, hname, hr]
          obtain ⟨c, hc, hlv⟩ := hsome v hev
          by_cases hv : v = .null
          · subst hv
            have := coerce_null_inv T true _ c hc
            subst this
            simp only [isValid, Bool.not_eq_false'] at hinv
            simp [coerceArg, hl, hlv, hinv]
          · have hc' := usage_coerce T true vd a.ty.gql _ v c hlk hv hc
            have := coerce_valid T hw _ _ c hc'
            rw [this] at hinv; cases hinv
    | null => exact (constCase hfl).elim
    | int i => exact (constCase hfl).elim
    | float i => exact (constCase hfl).elim
    | str i => exact (constCase hfl).elim
    | bool i => exact (constCase hfl).elim
    | enum i => exact (constCase hfl).elim
    | list xs => exact (constCase hfl).elim
    | obj fs => exact (constCase hfl).elim

end AGV.Lemmas.Coerce
