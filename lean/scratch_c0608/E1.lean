import AGV.Props.C06
open AGV.Core AGV.Spec.Coerce AGV.Model.Coerce AGV.Lemmas.Coerce AGV.Props.C06

def T6 : Table :=
  { types := [("Int", .scalar), ("I", .input false [⟨"a", .opt (.named "Int"), none⟩])],
    fields := [⟨"f", [⟨"x", .opt (.named "I"), none⟩]⟩, ⟨"g", []⟩] }

def op6 : OpDef :=
  { ty := .query, name := none, vars := [⟨"v", .named "I", none⟩], dirs := [],
    sels := [.field none "g" [] [] [] ⟨0,0⟩, .field none "f" [("x", .var "v")] [] [] ⟨0, 0⟩] }

#eval wfTable T6
#eval docOk T6 op6
#eval request T6 op6 [("v", .int 5)]
#eval run Defects.none T6 op6 [("v", .int 5)]
#eval request T6 op6 [("v", .list [])]
#eval run Defects.none T6 op6 [("v", .list [])]
