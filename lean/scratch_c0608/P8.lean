import AGV.Lemmas.Validators

namespace AGV.Lemmas.Validators
open AGV.Spec.Validators AGV.Model.Validators

/-- a parsed scalar that is an integer in the `i64` range -/
def svI64 : Sv → Prop
  | .int i => i64Min ≤ i ∧ i ≤ i64Max
  | _ => False

/-- the bounds are integer literals -/
def intBounds (c : Cfg) : Prop :=
  (∀ x, c.multipleOf = some (.f x) → False) ∧ (∀ x, c.maximum = some (.f x) → False) ∧
  (∀ x, c.minimum = some (.f x) → False)

theorem wrap64_id (i : Int) (h : i64Min ≤ i ∧ i ≤ i64Max) : wrap64 i = i := by
  simp only [i64Min, i64Max] at h
  unfold wrap64
  simp only
  split <;> omega

theorem parseScalar_i64 (bits : Nat) (signed : Bool) (w : W) (sv : Sv)
    (hb : bitsOk (.num (.int bits signed))) (hs : signed = true ∨ bits ≤ 32)
    (h : parseScalar (.num (.int bits signed)) w = some sv) : svI64 sv := by
  cases w with
  | int i =>
    cases signed
    · have hb32 : bits = 8 ∨ bits = 16 ∨ bits = 32 := by
        rcases hs with hs | hs
        · cases hs
        · rcases hb with h | h | h | h <;> omega
      simp only [parseScalar] at h
      split at h
      · cases h
      · split at h
        · cases h
        · cases h
          simp only [svI64, i64Min, i64Max, u64Max] at *
          rcases hb32 with rfl | rfl | rfl <;> omega
    · simp only [parseScalar] at h
      split at h
      · cases h
      · split at h
        · cases h
        · cases h
          simp only [svI64, i64Min, i64Max] at *
          omega
  | _ => cases signed <;> simp [parseScalar] at h

theorem scalarValid_pinned_of_parse (bits : Nat) (signed : Bool) (w : W) (sv : Sv)
    (hb : bitsOk (.num (.int bits signed))) (hs : signed = true ∨ bits ≤ 32)
    (h : parseScalar (.num (.int bits signed)) w = some sv) :
    scalarValid Defects.pinned (.num (.int bits signed)) w = true := by
  have h64 := parseScalar_i64 bits signed w sv hb hs h
  cases w with
  | int i =>
    have : sv = .int i := by
      cases signed <;> simp only [parseScalar] at h <;> (repeat' split at h) <;> simp_all
    subst this
    simpa [scalarValid, Defects.pinned, svI64] using h64
  | _ => cases signed <;> simp [parseScalar] at h


theorem gateItem_gen (D : Defects) (e : Elem) (b : Bool) (w : W) (it : Item)
    (hsv : ∀ w sv, parseScalar e w = some sv → scalarValid D e w = true)
    (h : parseItem e b w = some it) : gateItem D e b w = true := by
  cases w <;> simp [parseItem] at h <;> simp [gateItem]
  all_goals first
    | exact h.1
    | (obtain ⟨sv, hs, _⟩ := h; exact hsv _ _ hs)

/-- `gate_of_parse` for any toggle set whose scalar pre-check accepts what the parser accepts -/
theorem gate_gen (D : Defects) (sh : Shape) (w : W) (v : Tv) (ha : Admissible sh w)
    (hsv : ∀ w sv, parseScalar sh.elem w = some sv → scalarValid D sh.elem w = true)
    (h : parse sh w = some v) : gate D sh w = true := by
  unfold parse at h
  cases w with
  | null =>
    simp only [gate]
    cases hl : sh.isList <;> cases ho : sh.opt <;> simp [hl, ho, parseItem] at h ⊢
    exact ha.2 ⟨rfl, hl, ho, h.1⟩
  | list xs =>
    simp only [gate]
    cases hl : sh.isList <;> simp [hl] at h ⊢
    · obtain ⟨sv, hs, _⟩ := h; exact hsv _ _ hs
    · obtain ⟨l, hm, _⟩ := h
      intro x hx
      obtain ⟨y, hy⟩ := mapM_some _ _ _ hm x hx
      exact gateItem_gen _ _ _ _ _ hsv hy
  | int i =>
    simp only [gate]
    cases hl : sh.isList <;> simp [hl, parseItem] at h <;>
      (obtain ⟨sv, hs, _⟩ := h; exact hsv _ _ hs)
  | float i =>
    simp only [gate]
    cases hl : sh.isList <;> simp [hl, parseItem] at h <;>
      (obtain ⟨sv, hs, _⟩ := h; exact hsv _ _ hs)
  | str i =>
    simp only [gate]
    cases hl : sh.isList <;> simp [hl, parseItem] at h <;>
      (obtain ⟨sv, hs, _⟩ := h; exact hsv _ _ hs)
  | other =>
    simp only [gate]
    cases hl : sh.isList <;> simp [hl, parseItem] at h <;>
      (obtain ⟨sv, hs, _⟩ := h; exact hsv _ _ hs)

-- ------------------------------------------------------------------ validators on i64-range integers

theorem toI64_pinned (sv : Sv) (h : svI64 sv) : toI64 Defects.pinned sv = toI64 Defects.none sv := by
  cases sv with
  | int i => simp [toI64, Defects.pinned, Defects.none, wrap64_id i h]
  | _ => cases h

theorem firstFail_append {α : Type} (a b : List (Kind × (α → Bool))) (x : α) :
    firstFail (a ++ b) x = (firstFail a x).or (firstFail b x) := by
  unfold firstFail
  rw [List.find?_append]
  cases List.find? (fun p => !p.2 x) a <;> simp

theorem elemValidators_pinned (re : List Char → List Char → Bool) (c : Cfg) (sv : Sv)
    (h : svI64 sv) (hc : intBounds c) :
    firstFail (elemValidators Defects.pinned re c) sv = firstFail (elemValidators Defects.none re c) sv := by
  obtain ⟨h1, h2, h3⟩ := hc
  unfold elemValidators
  simp only [firstFail_append]
  have e1 : firstFail (c.multipleOf.map (fun n => (Kind.multipleOf, fun v => multipleOfOk Defects.pinned v n))).toList sv
      = firstFail (c.multipleOf.map (fun n => (Kind.multipleOf, fun v => multipleOfOk Defects.none v n))).toList sv := by
    cases hm : c.multipleOf with
    | none => rfl
    | some n =>
      cases n with
      | f x => exact (h1 x hm).elim
      | i n => simp [firstFail, multipleOfOk, toI64_pinned sv h]
  have e2 : firstFail (c.maximum.map (fun n => (Kind.maximum, fun v => maximumOk Defects.pinned v n))).toList sv
      = firstFail (c.maximum.map (fun n => (Kind.maximum, fun v => maximumOk Defects.none v n))).toList sv := by
    cases hm : c.maximum with
    | none => rfl
    | some n =>
      cases n with
      | f x => exact (h2 x hm).elim
      | i n => simp [firstFail, maximumOk, toI64_pinned sv h]
  have e3 : firstFail (c.minimum.map (fun n => (Kind.minimum, fun v => minimumOk Defects.pinned v n))).toList sv
      = firstFail (c.minimum.map (fun n => (Kind.minimum, fun v => minimumOk Defects.none v n))).toList sv := by
    cases hm : c.minimum with
    | none => rfl
    | some n =>
      cases n with
      | f x => exact (h3 x hm).elim
      | i n => simp [firstFail, minimumOk, toI64_pinned sv h]
  rw [e1, e2, e3]

/-- every scalar inside the typed value is an integer in the `i64` range -/
def tvI64 : Tv → Prop
  | .scalar (some sv) => svI64 sv
  | .list (some xs) => ∀ sv, some sv ∈ xs → svI64 sv
  | _ => True

theorem validate_pinned (re : List Char → List Char → Bool) (sh : Shape) (c : Cfg) (v : Tv)
    (hf : formOk sh v) (h : tvI64 v) (hc : intBounds c) :
    validate Defects.pinned re sh c v = validate Defects.none re sh c v := by
  cases v with
  | scalar x =>
    cases x with
    | none => rw [(validate_null _ re sh c).1, (validate_null _ re sh c).1]
    | some sv =>
      rw [validate_scalar _ _ _ _ _ hf, validate_scalar _ _ _ _ _ hf]
      exact elemValidators_pinned re c sv h hc
  | list x =>
    cases x with
    | none => rw [(validate_null _ re sh c).2, (validate_null _ re sh c).2]
    | some xs =>
      rw [validate_list _ _ _ _ _ hf, validate_list _ _ _ _ _ hf]
      congr 1
      simp only [tvI64] at h
      clear hf
      induction xs with
      | nil => rfl
      | cons it xs ih =>
        simp only [List.findSome?_cons]
        have hit : itemFail (elemValidators Defects.pinned re c) it = itemFail (elemValidators Defects.none re c) it := by
          cases it with
          | none => rfl
          | some sv => exact elemValidators_pinned re c sv (h sv (by simp)) hc
        rw [hit, ih (fun sv hsv => h sv (List.mem_cons_of_mem _ hsv))]

theorem mapM_mem {α β : Type} (f : α → Option β) (xs : List α) (l : List β) (h : xs.mapM f = some l) :
    ∀ y ∈ l, ∃ x ∈ xs, f x = some y := by
  induction xs generalizing l with
  | nil => simp at h; subst h; simp
  | cons a xs ih =>
    simp only [List.mapM_cons] at h
    cases ha : f a with
    | none => simp [ha] at h
    | some y =>
      cases hr : xs.mapM f with
      | none => simp [ha, hr] at h
      | some l' =>
        simp [ha, hr] at h
        subst h
        intro z hz
        rcases List.mem_cons.mp hz with rfl | hz
        · exact ⟨a, by simp, ha⟩
        · obtain ⟨x, hx, hfx⟩ := ih l' hr z hz
          exact ⟨x, List.mem_cons_of_mem _ hx, hfx⟩

theorem parseItem_i64 (e : Elem) (b : Bool) (w : W) (sv : Sv)
    (hsv : ∀ w sv, parseScalar e w = some sv → svI64 sv)
    (h : parseItem e b w = some (some sv)) : svI64 sv := by
  cases w <;> simp [parseItem] at h
  all_goals exact hsv _ _ h

theorem parse_i64 (sh : Shape) (w : W) (v : Tv)
    (hsv : ∀ w sv, parseScalar sh.elem w = some sv → svI64 sv)
    (h : parse sh w = some v) : tvI64 v := by
  unfold parse at h
  cases hl : sh.isList <;> simp only [hl] at h
  · cases w <;> simp at h
    all_goals first
      | (obtain ⟨_, rfl⟩ := h; simp [tvI64])
      | (obtain ⟨sv, hs, rfl⟩ := h; exact hsv _ _ hs)
  · cases w with
    | null =>
      simp at h
      split at h
      · cases h; simp [tvI64]
      · simp [parseItem] at h
        obtain ⟨_, rfl⟩ := h
        simp [tvI64]
    | list xs =>
      simp at h
      obtain ⟨l, hm, rfl⟩ := h
      intro sv hmem
      obtain ⟨x, _, hx⟩ := mapM_mem _ _ _ hm _ hmem
      exact parseItem_i64 _ _ _ _ hsv hx
    | _ =>
      simp at h
      obtain ⟨it, hi, rfl⟩ := h
      intro sv hmem
      simp at hmem
      subst hmem
      exact parseItem_i64 _ _ _ _ hsv hi

/-- on the pinned model the resolver is reached exactly when it is on the repaired model, for
    signed integers (≤ 64 bits) / unsigned integers of at most 32 bits with integer-literal bounds -/
theorem run_pinned_reached (re : List Char → List Char → Bool) (mode : Mode) (sh : Shape) (c : Cfg) (w : W)
    (bits : Nat) (signed : Bool) (ha : Admissible sh w) (he : sh.elem = .num (.int bits signed))
    (hs : signed = true ∨ bits ≤ 32) (hc : intBounds c) :
    run Defects.pinned re mode sh c w = .reached ↔ run Defects.none re mode sh c w = .reached := by
  have hb : bitsOk (.num (.int bits signed)) := he ▸ ha.1
  unfold run
  cases hp : parse sh w with
  | none => simp; split <;> split <;> simp
  | some v =>
    have hg := gate_of_parse sh w v ha hp
    have hg' : gate Defects.pinned sh w = true :=
      gate_gen _ sh w v ha (by rw [he]; exact fun w sv h => scalarValid_pinned_of_parse bits signed w sv hb hs h) hp
    have hv : validate Defects.pinned re sh c v = validate Defects.none re sh c v :=
      validate_pinned re sh c v (parse_form sh w v hp)
        (parse_i64 sh w v (by rw [he]; exact fun w sv h => parseScalar_i64 bits signed w sv hb hs h) hp) hc
    simp only [hg, hg', hv]

end AGV.Lemmas.Validators
