import re,sys
SRC='/verif/lean/scratch_c09b/Scr/'
DST='/verif/lean/AGV/Lemmas/'
plan=[
 ('ValidateGraph',['G1','G2'],'AGV.Lemmas.ValidateSpreads',
  '''/-
  C09 — the graph rules, part 1: a generic worklist reachability function with fuel (`gReach`), of
  which the reference validator's `closure`, the parser-side `fragReach` and the model's `reach`
  are instances; with enough fuel it computes exactly the nodes reachable from the start list.
  `mem_usedFrags`: the reference validator's `usedFrags` = the defined fragments reachable through
  spreads (fragment names unique).
-/
'''),
 ('ValidateGraphTable',['G3','G4'],'AGV.Lemmas.ValidateGraph',
  '''/-
  C09 — the graph rules, part 2: the scope table the four graph rules and VariableInAllowedPosition
  build while walking (`scopeTable`) is, for documents with unique scopes, one record per fragment
  and per operation (`docTable`); the model's `reachable` is reachability in the recorded spread
  graph, which is the reference validator's fragment graph.
-/
'''),
 ('ValidateGraphRules',['G5','G6','G7'],'AGV.Lemmas.ValidateGraphTable',
  '''/-
  C09 — the graph rules, part 3: NoFragmentCycles = §5.5.2.2, NoUnusedFragments = §5.5.1.4,
  NoUndefinedVariables = §5.8.3, NoUnusedVariables = §5.8.4 (under `GraphHyp`: the parser's three
  uniqueness checks passed, every operation has a root type); which rule owns which kind
  (`strict_owner`); the parser's recursion guard fires only on a fragment cycle.
-/
'''),
 ('ValidateGraphUsages',['G8','G9','G10'],'AGV.Lemmas.ValidateGraphRules',
  '''/-
  C09 — the graph rules, part 4: VariableInAllowedPosition = §5.8.5 All Variable Usages Are Allowed.
  The variable usages the walker hands to `enter_input_value` are the reference validator's
  (`mem_usages`, typed correspondence), and the implementation's comparison is
  IsVariableUsageAllowed except for a variable whose default is the literal `null` (`judge_eq`).
-/
'''),
]
extra = sys.argv[1:]  # further plan entries appended by later scripts
for name,parts,imp,hdr in plan:
    out=hdr+'import '+imp+'\nset_option linter.unusedSectionVars false\nset_option linter.unusedSimpArgs false\n'
    for p in parts:
        s=open(SRC+p+'.lean').read()
        # drop leading comment block and import lines
        s=re.sub(r'\A/-.*?-/\n','',s,flags=re.S)
        s='\n'.join(l for l in s.split('\n') if not l.startswith('import '))
        out+=s.strip('\n')+'\n\n'
    open(DST+name+'.lean','w').write(out)
    print('wrote',name)
