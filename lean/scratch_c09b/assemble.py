import re,sys
SRC='/verif/lean/scratch_c09b/Scr/'
DST='/verif/lean/AGV/Lemmas/'
plan=[
 ('ValidateGraph',['G1','G2'],'AGV.Lemmas.ValidateSpreads',
  '''/-
  C09 — the graph rules, part 1: a generic worklist reachability function with fuel (`gReach`), of
  which the reference validator's `closure`, the parser-side `fragReach` and the model's `reach`
  are instances; with enough fuel it computes exactly the nodes reachable from the start list.
  `mem_usedFrags`: the reference validator's `usedFrags` = the defined fragments reachable through
  spreads (fragment names unique).
-/
'''),
 ('ValidateGraphTable',['G3','G4'],'AGV.Lemmas.ValidateGraph',
  '''/-
  C09 — the graph rules, part 2: the scope table the four graph rules and VariableInAllowedPosition
  build while walking (`scopeTable`) is, for documents with unique scopes, one record per fragment
  and per operation (`docTable`); the model's `reachable` is reachability in the recorded spread
  graph, which is the reference validator's fragment graph.
-/
'''),
 ('ValidateGraphRules',['G5','G6','G7'],'AGV.Lemmas.ValidateGraphTable',
  '''/-
  C09 — the graph rules, part 3: NoFragmentCycles = §5.5.2.2, NoUnusedFragments = §5.5.1.4,
  NoUndefinedVariables = §5.8.3, NoUnusedVariables = §5.8.4 (under `GraphHyp`: the parser's three
  uniqueness checks passed, every operation has a root type); which rule owns which kind
  (`strict_owner`); the parser's recursion guard fires only on a fragment cycle.
-/
'''),
 ('ValidateGraphUsages',['G8','G9','G10'],'AGV.Lemmas.ValidateGraphRules',
  '''/-
  C09 — the graph rules, part 4: VariableInAllowedPosition = §5.8.5 All Variable Usages Are Allowed.
  The variable usages the walker hands to `enter_input_value` are the reference validator's
  (`mem_usages`, typed correspondence), and the implementation's comparison is
  IsVariableUsageAllowed except for a variable whose default is the literal `null` (`judge_eq`).
-/
'''),
 ('ValidateKnownArgs',['K1','K2','K3'],'AGV.Lemmas.ValidateGraphUsages',
  '''/-
  C09 — KnownArgumentNames = §5.4.1 Argument Names.  `Machine.run_events_on`: the fold of a stateful
  rule over the walk when it is state-independent only on selections satisfying a predicate.  The
  rule keeps `current_args` across a field it does not know, so the equivalence is stated where every
  field carrying arguments is a field of its parent type (`ArgsOnKnownFields`) and `__typename`
  carries none.
-/
'''),
 ('ValidateValues',['D1','A1','A2','A3','F1'],'AGV.Lemmas.ValidateKnownArgs',
  '''/-
  C09 — the two value rules against §5.6 Values Of Correct Type: DefaultValuesOfCorrectType = its
  default-value half (relative to `DefaultsAgree`), ArgumentsOfCorrectType = its argument half for
  documents whose arguments are literals without variables (`DocVarFree`, relative to
  `ArgLiteralsAgree`: `is_valid_input_value` and §5.6.1 agree on the literals that occur).
-/
'''),
 ('ValidateOverlap',['O1','O2','O3','O4','O5','O6'],'AGV.Lemmas.ValidateValues',
  '''/-
  C09 — OverlappingFieldsCanBeMerged as implemented is SOUND for §5.3.2 Field Selection Merging on
  documents all of whose inline fragments carry a type condition (`overlap_sound`):
  `FindConflicts::find` files, one after the other, the fields the reference validator's
  `fieldsInSet` collects (`findConflicts_eq`, `flat_rel`: same recursion, same fuel, same visited
  set); a report means two collected fields with the same `on_type` and response key that differ in
  name or arguments (`errs_conf`), which the reference validator refuses to merge (`conf_spec`).
-/
'''),
 ('ValidateLiterals',['L1','L2','L3','L4','L5','L6'],'AGV.Lemmas.ValidateOverlap',
  '''/-
  C09 — `is_valid_input_value` (all value toggles off) against §5.6.1 Values Of Correct Type on
  constants: `valid_eq_lit` — they agree for every type and every constant whose object literals do
  not repeat a key, in registries where the five built-in scalar names are scalars and every
  input-object type has its definition with unique field names (`LitSchema`).  The implementation
  walks the declared fields and looks each up among the entries, the specification walks the
  entries and looks each up among the declared fields (`object_agree`).  Consequences:
  `defaultsAgree_of`, `argLiteralsAgree_of`.
-/
'''),
]
extra = sys.argv[1:]  # further plan entries appended by later scripts
for name,parts,imp,hdr in plan:
    out=hdr+'import '+imp+'\nset_option linter.unusedSectionVars false\nset_option linter.unusedSimpArgs false\n'
    for p in parts:
        s=open(SRC+p+'.lean').read()
        # drop leading comment block and import lines
        s=re.sub(r'\A/-.*?-/\n','',s,flags=re.S)
        s='\n'.join(l for l in s.split('\n') if not l.startswith('import '))
        out+=s.strip('\n')+'\n\n'
    open(DST+name+'.lean','w').write(out)
    print('wrote',name)
