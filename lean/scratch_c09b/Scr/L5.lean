import Scr.L4
namespace AGV.Lemmas.ValidateLiterals
open AGV.Core AGV.Model.Validate AGV.Lemmas.ValidateRules
open AGV.Spec.Validate (litOk litOf litOfL litOfF tyDef kindIs)

/-- `is_valid_input_value` (repaired) = §5.6.1 on constants whose object literals do not repeat keys,
    for registries with scalar built-ins and defined input objects -/
theorem valid_eq_lit (S : VSchema) (hS : LitSchema S) (fuel : Nat) :
    ∀ (t : TypeRef) (c : GValue), keysOk c = true → validInput S {} fuel t c = litOk S fuel t (litOf c) := by
  induction fuel with
  | zero => intro t c _; rfl
  | succ fuel ih =>
    intro t c hk
    cases t with
    | named n =>
      by_cases hin : S.kindOf n = some .input ∧ ∃ fs, c = .obj fs
      · obtain ⟨h1, fs, rfl⟩ := hin
        exact valid_eq_lit_obj S hS fuel n fs h1 hk ih
      · exact valid_eq_lit_simple S hS fuel n c (fun h fs hc => hin ⟨h, fs, hc⟩)
    | list t =>
      cases c with
      | list xs =>
        simp only [validInput, litOk, litOf, litOfL_eq, List.all_map]
        have := keysOkL_mem xs (by simpa [keysOk] using hk)
        rw [Bool.eq_iff_iff]
        simp only [List.all_eq_true, Function.comp]
        constructor
        · intro h x hx; rw [← ih t x (this x hx)]; exact h x hx
        · intro h x hx; rw [ih t x (this x hx)]; exact h x hx
      | null => simp [validInput, litOk, litOf]
      | int i => have := ih t (.int i) hk; simpa [validInput, litOk, litOf] using this
      | float f => have := ih t (.float f) hk; simpa [validInput, litOk, litOf] using this
      | str s => have := ih t (.str s) hk; simpa [validInput, litOk, litOf] using this
      | bool b => have := ih t (.bool b) hk; simpa [validInput, litOk, litOf] using this
      | enum e => have := ih t (.enum e) hk; simpa [validInput, litOk, litOf] using this
      | obj fs => have := ih t (.obj fs) hk; simpa [validInput, litOk, litOf] using this
    | nonNull t =>
      cases c with
      | null => simp [validInput, litOk, litOf]
      | list xs => have := ih t (.list xs) hk; simpa [validInput, litOk, litOf] using this
      | int i => have := ih t (.int i) hk; simpa [validInput, litOk, litOf] using this
      | float f => have := ih t (.float f) hk; simpa [validInput, litOk, litOf] using this
      | str s => have := ih t (.str s) hk; simpa [validInput, litOk, litOf] using this
      | bool b => have := ih t (.bool b) hk; simpa [validInput, litOk, litOf] using this
      | enum e => have := ih t (.enum e) hk; simpa [validInput, litOk, litOf] using this
      | obj fs => have := ih t (.obj fs) hk; simpa [validInput, litOk, litOf] using this

/-- no object literal inside a default value repeats a key -/
def DefaultKeysOk (d : Doc) : Prop := ∀ o ∈ d.ops, ∀ v ∈ o.vars, ∀ dv, v.default = some dv → keysOk dv = true

/-- `DefaultsAgree` from registry conditions and unique keys -/
theorem defaultsAgree_of (S : VSchema) (d : Doc) (hS : LitSchema S) (hK : DefaultKeysOk d) : DefaultsAgree S d :=
  fun o ho v hv dv hdv => valid_eq_lit S hS _ v.ty dv (hK o ho v hv dv hdv)

/-- no object literal inside an argument repeats a key -/
def ArgKeysOk (S : VSchema) (d : Doc) : Prop := ∀ s ∈ Spec.Validate.argSites S d, ∀ a ∈ s.2, keysOk (constOf a.2) = true

/-- `ArgLiteralsAgree` from registry conditions, unique keys and variable-free arguments -/
theorem argLiteralsAgree_of (S : VSchema) (d : Doc) (hS : LitSchema S) (hK : ArgKeysOk S d)
    (hV : ∀ s ∈ Spec.Validate.argSites S d, ∀ a ∈ s.2, Spec.Validate.varsIn a.2 = []) : ArgLiteralsAgree S d := by
  intro s hs a ha ad _
  have h := valid_eq_lit S hS Model.Validate.valueFuel ad.ty (constOf a.2) (hK s hs a ha)
  rw [(substVars_varFree [] a.2 (hV s hs a ha)).2] at h
  exact h

end AGV.Lemmas.ValidateLiterals
