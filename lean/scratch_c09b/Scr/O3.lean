import Scr.O2
namespace AGV.Lemmas.ValidateOverlap
open AGV.Core AGV.Model.Validate AGV.Lemmas.ValidateWalk
open AGV.Spec.Validate (dvEq argsEqual FInfo fieldsInSet setCanMerge)

theorem foldl_rel {α β γ : Type} (R : β → γ → Prop) (P : α → Prop) (f : β → α → β) (g : γ → α → γ)
    (hstep : ∀ b c a, P a → R b c → R (f b a) (g c a)) (l : List α) (hl : ∀ a ∈ l, P a) (b : β) (c : γ) (h : R b c) :
    R (l.foldl f b) (l.foldl g c) := by
  induction l generalizing b c with
  | nil => exact h
  | cons a l ih =>
    simp only [List.foldl_cons]
    exact ih (fun x hx => hl x (by simp [hx])) _ _ (hstep b c a (hl a (by simp)) h)

theorem mem_flatSels_of (ss : List Sel) (s x : Sel) (hs : s ∈ ss) (hx : x ∈ flatSel s) : x ∈ flatSels ss := by
  induction ss with
  | nil => cases hs
  | cons a as ih =>
    simp only [flatSels, List.mem_append]
    rcases List.mem_cons.mp hs with rfl | h
    · exact Or.inl hx
    · exact Or.inr (ih h)

/-- an inline fragment carries a type condition -/
def inlineTyped : Sel → Prop
  | .inline c _ _ _ => c.isSome = true
  | _ => True

/-- every inline fragment of the selections (at any depth) carries a type condition -/
def TypedInlines (ss : List Sel) : Prop := ∀ s ∈ flatSels ss, inlineTyped s

/-- a collected field of the implementation against one of the reference validator: same response
    key, name and arguments; filed under the `on_type` of the set and selected on its parent type, or
    filed under a type condition and selected on that type -/
def FRel (c0 p0 : Option String) (o : OutField) (f : FInfo) : Prop :=
  o.key = f.key ∧ o.name = f.name ∧ o.args = f.args ∧
    ((o.cond = c0 ∧ f.parent = p0) ∨ ∃ t, o.cond = some t ∧ f.parent = some t)

theorem FRel_lift (c0 p0 : Option String) (t : String) (o : OutField) (f : FInfo) (h : FRel (some t) (some t) o f) :
    FRel c0 p0 o f := by
  obtain ⟨h1, h2, h3, h4⟩ := h
  refine ⟨h1, h2, h3, Or.inr ?_⟩
  rcases h4 with ⟨h5, h6⟩ | h4
  · exact ⟨t, h5, h6⟩
  · exact h4

/-- the accumulators of the two folds -/
def AccRel (c0 p0 : Option String) (a : List OutField × List String) (b : List FInfo × List String) : Prop :=
  a.2 = b.2 ∧ ∀ o ∈ a.1, ∃ f ∈ b.1, FRel c0 p0 o f

theorem AccRel_append (c0 p0 : Option String) (a : List OutField × List String) (b : List FInfo × List String)
    (x : List OutField × List String) (y : List FInfo × List String)
    (h : AccRel c0 p0 a b) (hxy : x.2 = y.2 ∧ ∀ o ∈ x.1, ∃ f ∈ y.1, FRel c0 p0 o f) :
    AccRel c0 p0 (a.1 ++ x.1, x.2) (b.1 ++ y.1, y.2) := by
  refine ⟨hxy.1, ?_⟩
  intro o ho
  rcases List.mem_append.mp ho with ho | ho
  · obtain ⟨f, hf, hr⟩ := h.2 o ho; exact ⟨f, List.mem_append_left _ hf, hr⟩
  · obtain ⟨f, hf, hr⟩ := hxy.2 o ho; exact ⟨f, List.mem_append_right _ hf, hr⟩

/-- the implementation and the reference validator collect the same fields from a selection set -/
theorem flat_rel (S : VSchema) (d : Doc) (hd : ∀ f ∈ d.frags, TypedInlines f.sels) (fuel : Nat) :
    ∀ (c0 p0 : Option String) (sels : List Sel) (seen : List String), TypedInlines sels →
      AccRel c0 p0 (flatM d fuel c0 sels seen) (fieldsInSet S d fuel p0 sels seen) := by
  induction fuel with
  | zero => intro c0 p0 sels seen _; exact ⟨rfl, by intro o ho; simp [flatM] at ho⟩
  | succ fuel ih =>
    intro c0 p0 sels seen hT
    rw [flatM, fieldsInSet]
    apply foldl_rel (AccRel c0 p0) (fun s => ∀ x ∈ flatSel s, inlineTyped x)
    · intro a b s hs hab
      cases s with
      | field al n args ds ss p =>
        have := AccRel_append c0 p0 a b ([{ cond := c0, key := al.getD n, name := n, args := args }], a.2)
          ([{ key := al.getD n, parent := p0, name := n, args := args,
              ty := (p0.bind (fun p => Spec.Validate.fieldType S p n)).map (·.1), sels := ss }], b.2) hab
          ⟨hab.1, by
            intro o ho
            simp only [List.mem_singleton] at ho
            subst ho
            exact ⟨_, List.mem_singleton.mpr rfl, rfl, rfl, rfl, Or.inl ⟨rfl, rfl⟩⟩⟩
        exact this
      | inline c ds ss p =>
        have hc : inlineTyped (.inline c ds ss p) := hs _ (by simp [flatSel])
        cases c with
        | none => simp [inlineTyped] at hc
        | some t =>
          simp only []
          have hss : TypedInlines ss := fun x hx => hs x (by simp [flatSel, hx])
          have h := ih (some t) (some t) ss a.2 hss
          rw [hab.1] at h ⊢
          exact AccRel_append c0 p0 a b _ _ hab ⟨h.1, fun o ho => by
            obtain ⟨f, hf, hr⟩ := h.2 o ho; exact ⟨f, hf, FRel_lift c0 p0 t o f hr⟩⟩
      | spread n ds p =>
        simp only [Doc.frag?]
        rw [hab.1]
        cases hf : d.frags.find? (·.name = n) with
        | none =>
          simp only []
          split <;> exact ⟨by rw [← hab.1], hab.2⟩
        | some f =>
          simp only []
          by_cases hc : b.2.contains n = true
          · simp only [hc, if_true]; exact ⟨by rw [← hab.1], hab.2⟩
          · simp only [hc, Bool.false_eq_true, if_false]
            have hfs : TypedInlines f.sels := hd f (List.mem_of_find?_eq_some hf)
            have h := ih (some f.cond) (some f.cond) f.sels (n :: b.2) hfs
            exact AccRel_append c0 p0 a b _ _ hab ⟨h.1, fun o ho => by
              obtain ⟨g, hg, hr⟩ := h.2 o ho; exact ⟨g, hg, FRel_lift c0 p0 f.cond o g hr⟩⟩
    · intro s hs x hx
      exact hT x (mem_flatSels_of sels s x hs hx)
    · exact ⟨rfl, by intro o ho; cases ho⟩

end AGV.Lemmas.ValidateOverlap
