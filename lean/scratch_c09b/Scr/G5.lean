import Scr.G4
namespace AGV.Lemmas.ValidateGraph
open AGV.Core AGV.Model.Validate AGV.Lemmas.ValidateWalk AGV.Lemmas.ValidateMachine AGV.Lemmas.ValidateRules
open AGV.Spec.Validate (violates_OperationNameUniqueness violates_LoneAnonymousOperation violates_FragmentNameUniqueness
  violates_FragmentSpreadsMustNotFormCycles violates_FragmentsMustBeUsed usedFrags)

-- ------------------------------------------------------------------ unique scopes from the three uniqueness rules

theorem nodup_names (ops : List OpDef) (h1 : Spec.Validate.hasDup (ops.filterMap (·.name)) = false)
    (h2 : (decide (ops.length > 1) && ops.any (·.name.isNone)) = false) : (ops.map (·.name)).Nodup := by
  rw [hasDup_false_iff] at h1
  by_cases hany : ops.any (·.name.isNone) = true
  · have hlen : ¬ ops.length > 1 := by simpa [hany] using h2
    match ops, hlen with
    | [], _ => simp
    | [o], _ => simp
    | _ :: _ :: _, h => simp at h
  · have hall : ∀ o ∈ ops, ∃ n, o.name = some n := by
      intro o ho
      cases hn : o.name with
      | some n => exact ⟨n, rfl⟩
      | none => exact absurd (List.any_eq_true.mpr ⟨o, ho, by simp [hn]⟩) hany
    clear h2 hany
    induction ops with
    | nil => simp
    | cons o os ih =>
      obtain ⟨n, hn⟩ := hall o (by simp)
      simp only [List.filterMap_cons, hn, List.nodup_cons] at h1
      simp only [List.map_cons, List.nodup_cons, hn]
      refine ⟨?_, ih h1.2 (fun o' ho' => hall o' (by simp [ho']))⟩
      intro hmem
      apply h1.1
      simp only [List.mem_map] at hmem
      obtain ⟨o', ho', he⟩ := hmem
      exact List.mem_filterMap.mpr ⟨o', ho', he⟩

theorem scopesNodup_of_spec (d : Doc) (h1 : violates_OperationNameUniqueness d = false)
    (h2 : violates_LoneAnonymousOperation d = false) (h3 : violates_FragmentNameUniqueness d = false) : ScopesNodup d := by
  unfold ScopesNodup
  rw [List.nodup_append]
  refine ⟨?_, ?_, ?_⟩
  · have : (d.frags.map (·.name)).Nodup := (hasDup_false_iff _).mp h3
    have h : d.frags.map (fun f => Scope.frag f.name) = (d.frags.map (·.name)).map Scope.frag := by simp
    rw [h]
    exact List.Pairwise.map _ (fun a b hab he => hab (Scope.frag.inj he)) this
  · have := nodup_names d.ops h1 h2
    have h : d.ops.map (fun o => Scope.op o.name) = (d.ops.map (·.name)).map Scope.op := by simp
    rw [h]
    exact List.Pairwise.map _ (fun a b hab he => hab (Scope.op.inj he)) this
  · intro a ha b hb
    simp only [List.mem_map] at ha hb
    obtain ⟨f, _, rfl⟩ := ha
    obtain ⟨o, _, rfl⟩ := hb
    simp

/-- what the graph rules presuppose: §5.2.1.1, §5.2.2.1, §5.5.1.1 hold (the parser checks them
    first) and every operation has a root type -/
structure GraphHyp (S : VSchema) (d : Doc) : Prop where
  opNames : violates_OperationNameUniqueness d = false
  loneAnonymous : violates_LoneAnonymousOperation d = false
  fragNames : violates_FragmentNameUniqueness d = false
  served : Served S d

theorem GraphHyp.nodup {S : VSchema} {d : Doc} (h : GraphHyp S d) : ScopesNodup d :=
  scopesNodup_of_spec d h.opNames h.loneAnonymous h.fragNames

variable (S : VSchema) (d : Doc)

theorem isSome_nodeS_frag (f : FragDef) (hf : f ∈ d.frags) : (nodeS d f.name).isSome = true :=
  (nodeS_isSome d f.name).mpr ⟨f, hf, rfl⟩

/-- NoFragmentCycles = §5.5.2.2 Fragment Spreads Must Not Form Cycles -/
theorem rule_no_fragment_cycles (h : GraphHyp S d) (k : Model.Validate.Kind) :
    k ∈ ruleCycles d (docTable S d) ↔ (k = .cycle ∧ violates_FragmentSpreadsMustNotFormCycles d = true) := by
  have hn := h.nodup
  have hT : (scopes (docTable S d)).Nodup := by rw [scopes_docTable]; exact hn
  have key : d.frags.any (fun f => (recOf (docTable S d) (.frag f.name)).spreads.any (fun n =>
        (reachable (docTable S d) (.frag n)).contains (.frag f.name))) = violates_FragmentSpreadsMustNotFormCycles d := by
    rw [Bool.eq_iff_iff]
    simp only [violates_FragmentSpreadsMustNotFormCycles, List.any_eq_true, List.contains_iff_mem]
    constructor
    · rintro ⟨f, hf, n, hn', hr⟩
      refine ⟨f, hf, ?_⟩
      rw [recOf_frag S d hn f hf, recF_spreads] at hn'
      rw [mem_reachable _ hT, pathM_frag_iff S d hn] at hr
      exact (mem_usedFrags d (scopesNodup_frags d hn) f.sels (Or.inr ⟨f, hf, rfl⟩) f.name).mpr
        ⟨n, hn', hr, isSome_nodeS_frag d f hf⟩
    · rintro ⟨f, hf, hu⟩
      obtain ⟨t, ht, hp, _⟩ := (mem_usedFrags d (scopesNodup_frags d hn) f.sels (Or.inr ⟨f, hf, rfl⟩) f.name).mp hu
      refine ⟨f, hf, t, ?_, ?_⟩
      · rw [recOf_frag S d hn f hf, recF_spreads]; exact ht
      · rw [mem_reachable _ hT, pathM_frag_iff S d hn]; exact hp
  unfold ruleCycles
  rw [key]
  cases violates_FragmentSpreadsMustNotFormCycles d <;> simp

/-- NoUnusedFragments = §5.5.1.4 Fragments Must Be Used -/
theorem rule_no_unused_fragments (h : GraphHyp S d) (k : Model.Validate.Kind) :
    k ∈ ruleUnusedFrags d (docTable S d) ↔ (k = .unusedFragment ∧ violates_FragmentsMustBeUsed d = true) := by
  have hn := h.nodup
  have hT : (scopes (docTable S d)).Nodup := by rw [scopes_docTable]; exact hn
  have key : d.frags.any (fun f => !(d.ops.flatMap (fun o => reachable (docTable S d) (.op o.name))).contains (.frag f.name))
      = violates_FragmentsMustBeUsed d := by
    rw [Bool.eq_iff_iff]
    simp only [violates_FragmentsMustBeUsed, List.any_eq_true, List.contains_eq_mem,
      decide_eq_false_iff_not, List.mem_flatMap, not_exists, not_and, Bool.not_eq_eq_eq_not, Bool.not_true,
      List.any_eq_false, decide_eq_true_eq]
    have hiff : ∀ f ∈ d.frags, ∀ o ∈ d.ops, (Scope.frag f.name ∈ reachable (docTable S d) (.op o.name) ↔ f.name ∈ usedFrags d o.sels) := by
      intro f hf o ho
      rw [mem_reachable _ hT, pathM_op_iff S d hn o ho (h.served o ho),
        mem_usedFrags d (scopesNodup_frags d hn) o.sels (Or.inl ⟨o, ho, rfl⟩)]
      simp [isSome_nodeS_frag d f hf]
    constructor
    · rintro ⟨f, hf, hx⟩
      exact ⟨f, hf, fun o ho hu => hx o ho ((hiff f hf o ho).mpr hu)⟩
    · rintro ⟨f, hf, hx⟩
      exact ⟨f, hf, fun o ho hu => hx o ho ((hiff f hf o ho).mp hu)⟩
  unfold ruleUnusedFrags
  simp only []
  rw [key]
  cases violates_FragmentsMustBeUsed d <;> simp

end AGV.Lemmas.ValidateGraph
