import Scr.P2
namespace AGV.Props.C09
open AGV.Core AGV.Model.Validate

section final
open AGV.Lemmas.ValidateRules AGV.Lemmas.ValidateWalk AGV.Lemmas.ValidateGraph AGV.Lemmas.ValidateSpecNodes
open AGV.Spec.Validate
variable (S : VSchema) (d : Doc) (vars : List (String × GValue)) (o : Option String)

/-- every report of the implemented OverlappingFieldsCanBeMerged is a violation of §5.3.2 -/
def OverlapSound (S : VSchema) (d : Doc) : Prop :=
  ∀ k ∈ ruleOverlap d (events S {} d), violates_FieldSelectionMerging S d = true

/-- the hypotheses under which every rule of the toggle-free model has been tied to its reference rule -/
structure C09WF (S : VSchema) (d : Doc) : Prop where
  /-- well-formed registry -/
  schema : SchemaWF S
  abstract : AbstractInhabited S
  /-- no sub-selection and no arguments at `__typename` -/
  typenameSels : docOK d = true
  typenameArgs : ∀ s ∈ allSels d, typenameNoArgs s
  /-- no variable definition has the literal `null` as default -/
  nullDefaults : NoNullDefault d
  /-- a field that carries arguments is a field of its parent type -/
  argsKnown : ArgsOnKnownFields S d
  /-- arguments are literals without variables, on which `is_valid_input_value` and §5.6.1 agree; the same for defaults -/
  varFree : DocVarFree d
  literals : ArgLiteralsAgree S d
  defaults : DefaultsAgree S d
  /-- the implemented overlap rule reports only real conflicts -/
  overlap : OverlapSound S d

theorem exists_of_ne_nil {α} (l : List α) (h : l ≠ []) : ∃ x, x ∈ l := by
  cases l with
  | nil => exact absurd rfl h
  | cons x xs => exact ⟨x, List.mem_cons_self⟩

theorem not_valid_of (r : String) (h : r ∈ violations {} S d vars o) : ¬ Valid {} S d vars o := by
  intro hv; unfold Valid at hv; rw [hv] at h; cases h

theorem rejected_of_strict (k : Model.Validate.Kind) (h : k ∈ strictErrors S {} d vars o) :
    (checkRules S {} d vars o).isRejected = true := by
  rw [c09_before_exec_pre]
  right; intro hnil
  have : k ∈ strictErrors S {} d vars o ++ repairedErrors S {} d vars o := List.mem_append_left _ h
  rw [hnil] at this; cases this

theorem rejected_of_repaired (k : Model.Validate.Kind) (h : k ∈ repairedErrors S {} d vars o) :
    (checkRules S {} d vars o).isRejected = true := by
  rw [c09_before_exec_pre]
  right; intro hnil
  have : k ∈ strictErrors S {} d vars o ++ repairedErrors S {} d vars o := List.mem_append_right _ h
  rw [hnil] at this; cases this

theorem rejected_of_pre (k : PreKind) (h : k ∈ preErrors d) : (checkRules S {} d vars o).isRejected = true := by
  rw [c09_before_exec_pre]
  left; intro hnil; rw [hnil] at h; cases h

theorem repaired_only (k : Model.Validate.Kind) (h : k ∈ repairedErrors S {} d vars o) : k = .repaired := by
  unfold repairedErrors at h
  simp only [List.mem_append] at h
  rcases h with (h | h) | h <;> (split at h <;> simp_all)

theorem stateless_rest (k : Model.Validate.Kind) (h1 : k ∈ statelessKinds) (h2 : k ∉ provedKinds ++ typedKinds) :
    k = .invalidDefault := by
  cases k <;> simp_all [statelessKinds, provedKinds, typedKinds]

/-- THE CORRECTED STATEMENT, PROVED: under `C09WF` the repaired pipeline (parser checks, recursion
    guard, the 22 rules of `check_rules` as implemented, plus the three missing reference rules)
    rejects exactly the requests the reference validator calls invalid — for every schema, document,
    variables and operation name. -/
theorem c09_corrected_wf (H : C09WF S d) :
    (checkRules S {} d vars o).isRejected = true ↔ ¬ Valid {} S d vars o := by
  have hT := c09_partial_typed S d vars o H.schema H.abstract H.typenameSels
  have toSpec : ((∃ k ∈ preErrors d, k ∈ provedPre) ∨ (∃ k ∈ strictErrors S {} d vars o, k ∈ provedKinds ++ typedKinds)) →
      ¬ Valid {} S d vars o := by
    intro h; obtain ⟨r, hr, _⟩ := hT.mp h; exact not_valid_of S d vars o r hr
  have toModel : ∀ r, r ∈ violations {} S d vars o → r ∈ provedRules ++ typedRules →
      (checkRules S {} d vars o).isRejected = true := by
    intro r hr hp
    rcases hT.mpr ⟨r, hr, hp⟩ with ⟨k, hk, _⟩ | ⟨k, hk, _⟩
    · exact rejected_of_pre S d vars o k hk
    · exact rejected_of_strict S d vars o k hk
  have both : ∀ r, r ∈ violations {} S d vars o → r ∈ provedRules ++ typedRules →
      ((checkRules S {} d vars o).isRejected = true ↔ ¬ Valid {} S d vars o) :=
    fun r hr hp => ⟨fun _ => not_valid_of S d vars o r hr, fun _ => toModel r hr hp⟩
  -- the four structural rules: violated ⇒ both sides hold
  cases h1 : violates_OperationNameUniqueness d
  case true => exact both "5.2.1.1 Operation Name Uniqueness" ((mem_violations ..).mpr (by simp [h1])) (by decide)
  cases h2 : violates_LoneAnonymousOperation d
  case true => exact both "5.2.2.1 Lone Anonymous Operation" ((mem_violations ..).mpr (by simp [h2])) (by decide)
  cases h3 : violates_FragmentNameUniqueness d
  case true => exact both "5.5.1.1 Fragment Name Uniqueness" ((mem_violations ..).mpr (by simp [h3])) (by decide)
  cases hs : violates_OperationTypeExists S d
  case true => exact both "operation type not served" ((mem_violations ..).mpr (by simp [hs])) (by decide)
  have hG : GraphHyp S d := graphHyp_of S d h1 h2 h3 hs
  have c1 := c09_rule_no_fragment_cycles S d vars o hG
  have c2 := c09_rule_no_unused_fragments S d vars o hG
  have c3 := c09_rule_no_undefined_variables S d vars o hG
  have c4 := c09_rule_no_unused_variables S d vars o hG
  have c5 := c09_rule_variables_in_allowed_position S d vars o hG H.schema H.nullDefaults
  have c6 := c09_rule_known_argument_names S d vars o H.schema hs H.argsKnown H.typenameArgs
  have c7 := c09_rule_default_values S d vars o hs H.defaults
  have c8 := c09_rule_arguments_of_correct_type S d vars o H.schema hs H.varFree H.literals
  have c9 := c09_rule_repaired S d vars o
  have hsplit := c09_values_of_correct_type_split S d
  have nv : ∀ r, r ∈ violations {} S d vars o → ¬ Valid {} S d vars o := not_valid_of S d vars o
  constructor
  · rw [c09_before_exec_pre]
    rintro (hpre | hstrict)
    · obtain ⟨k, hk⟩ := exists_of_ne_nil _ hpre
      cases k with
      | dupOperation => exact toSpec (Or.inl ⟨_, hk, by simp [provedPre]⟩)
      | multipleAnonymous => exact toSpec (Or.inl ⟨_, hk, by simp [provedPre]⟩)
      | dupFragment => exact toSpec (Or.inl ⟨_, hk, by simp [provedPre]⟩)
      | recursionDepth =>
        exact nv "5.5.2.2 Fragment Spreads Must Not Form Cycles"
          ((mem_violations ..).mpr (by simp [c09_rule_recursion_guard d hk]))
    · obtain ⟨k, hk⟩ := exists_of_ne_nil _ hstrict
      rcases List.mem_append.mp hk with hk | hk
      · by_cases hk' : k ∈ provedKinds ++ typedKinds
        · exact toSpec (Or.inr ⟨k, hk, hk'⟩)
        · rcases strict_owner S d vars o k hk with ⟨hk1, _⟩ | ⟨hk1, _⟩ | ⟨hk1, _⟩ | ⟨hk1, _⟩ | ⟨hk1, _⟩ | ⟨hk1, _⟩
              | ⟨hk1, _⟩ | ⟨hk1, _⟩ | ⟨hk1, _⟩ | ⟨hk1, _⟩ | ⟨hk1, _⟩ | ⟨hk1, hov⟩
          · have := stateless_rest k hk1 hk'
            subst this
            rcases c7.mp (Or.inl hk) with h | h
            · exact nv "5.6 Values Of Correct Type" ((mem_violations ..).mpr (by simp [hsplit, h]))
            · have := (c09_rule_variables_are_input_types S d vars o hs).mp (Or.inr h)
              exact nv "5.8.2 Variables Are Input Types" ((mem_violations ..).mpr (by simp [this]))
          · subst hk1
            exact nv "5.6 Values Of Correct Type" ((mem_violations ..).mpr (by simp [hsplit, c8.mp hk]))
          · have : violates_ArgumentNames S d = true := by
              rcases hk1 with rfl | rfl
              · exact c6.mp (Or.inr hk)
              · exact c6.mp (Or.inl hk)
            exact nv "5.4.1 Argument Names" ((mem_violations ..).mpr (by simp [this]))
          · subst hk1; exact absurd (by decide) hk'
          · subst hk1; exact absurd (by decide) hk'
          · rcases hk1 with rfl | rfl <;> exact absurd (by decide) hk'
          · subst hk1
            exact nv "5.5.2.2 Fragment Spreads Must Not Form Cycles" ((mem_violations ..).mpr (by simp [c1.mp hk]))
          · subst hk1
            exact nv "5.5.1.4 Fragments Must Be Used" ((mem_violations ..).mpr (by simp [c2.mp hk]))
          · have : violates_AllVariableUsesDefined d = true := by
              rcases hk1 with rfl | rfl
              · exact c3.mp (Or.inl hk)
              · exact c3.mp (Or.inr hk)
            exact nv "5.8.3 All Variable Uses Defined" ((mem_violations ..).mpr (by simp [this]))
          · have : violates_AllVariablesUsed d = true := by
              rcases hk1 with rfl | rfl
              · exact c4.mp (Or.inl hk)
              · exact c4.mp (Or.inr hk)
            exact nv "5.8.4 All Variables Used" ((mem_violations ..).mpr (by simp [this]))
          · subst hk1
            exact nv "5.8.5 All Variable Usages Are Allowed" ((mem_violations ..).mpr (by simp [c5.mp hk]))
          · exact nv "5.3.2 Field Selection Merging" ((mem_violations ..).mpr (by simp [H.overlap k hov]))
      · have := repaired_only S d vars o k hk
        subst this
        rcases c9.mp hk with h | h | h
        · exact nv "5.3.2 Field Selection Merging" ((mem_violations ..).mpr (by simp [h]))
        · exact nv "5.2.3.1 Single Root Field" ((mem_violations ..).mpr (by simp [h]))
        · exact nv "6.1.2 Coercing Variable Values" ((mem_violations ..).mpr (by simp [h]))
  · intro hnv
    have hne : violations {} S d vars o ≠ [] := hnv
    obtain ⟨r, hr0⟩ := exists_of_ne_nil _ hne
    have hr := (mem_violations ..).mp hr0
    have rs := rejected_of_strict S d vars o
    have rr := rejected_of_repaired S d vars o
    rcases hr with ⟨rfl, h⟩ | ⟨rfl, h⟩ | ⟨rfl, h⟩ | ⟨rfl, h⟩ | ⟨rfl, h⟩ | ⟨rfl, h⟩ | ⟨rfl, h⟩ | ⟨rfl, h⟩ | ⟨rfl, h⟩ | ⟨rfl, h⟩
      | ⟨rfl, h⟩ | ⟨rfl, h⟩ | ⟨rfl, h⟩ | ⟨rfl, h⟩ | ⟨rfl, h⟩ | ⟨rfl, h⟩ | ⟨rfl, h⟩ | ⟨rfl, h⟩ | ⟨rfl, h⟩ | ⟨rfl, h⟩
      | ⟨rfl, h⟩ | ⟨rfl, h⟩ | ⟨rfl, h⟩ | ⟨rfl, h⟩ | ⟨rfl, h⟩ | ⟨rfl, h⟩ | ⟨rfl, h⟩ | ⟨rfl, h⟩
    · exact toModel _ hr0 (by decide)
    · exact toModel _ hr0 (by decide)
    · exact rr _ (c9.mpr (Or.inr (Or.inl h)))
    · exact toModel _ hr0 (by decide)
    · exact rr _ (c9.mpr (Or.inl h))
    · exact toModel _ hr0 (by decide)
    · rcases c6.mpr h with h | h <;> exact rs _ h
    · exact toModel _ hr0 (by decide)
    · exact toModel _ hr0 (by decide)
    · exact toModel _ hr0 (by decide)
    · exact toModel _ hr0 (by decide)
    · exact toModel _ hr0 (by decide)
    · exact rs _ (c2.mpr h)
    · exact toModel _ hr0 (by decide)
    · exact rs _ (c1.mpr h)
    · exact toModel _ hr0 (by decide)
    · rw [hsplit, Bool.or_eq_true] at h
      rcases h with h | h
      · exact rs _ (c8.mpr h)
      · rcases c7.mpr (Or.inl h) with h | h
        · exact rs _ h
        · exact rs _ ((c09_rule_known_type_names S d vars o hs).mpr (Or.inr h))
    · exact toModel _ hr0 (by decide)
    · exact toModel _ hr0 (by decide)
    · exact toModel _ hr0 (by decide)
    · exact toModel _ hr0 (by decide)
    · exact toModel _ hr0 (by decide)
    · rcases c3.mpr h with h | h <;> exact rs _ h
    · rcases c4.mpr h with h | h <;> exact rs _ h
    · exact rs _ (c5.mpr h)
    · exact toModel _ hr0 (by decide)
    · exact rr _ (c9.mpr (Or.inr (Or.inr h)))
    · exact toModel _ hr0 (by decide)

end final
end AGV.Props.C09
