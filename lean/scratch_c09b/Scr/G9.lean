import Scr.G8
namespace AGV.Lemmas.ValidateGraph
open AGV.Core AGV.Model.Validate AGV.Lemmas.ValidateWalk AGV.Lemmas.ValidateMachine AGV.Lemmas.ValidateRules
open AGV.Lemmas.ValidateSpecNodes
open AGV.Spec.Validate (usedFrags usagesIn siteUsages nodeUsages opNodes fragNodes tyDef fieldType usageAllowed typesCompatible
  violates_AllVariableUsagesAllowed)

theorem usage_walkSet (S : VSchema) (st ss) : (walkSet S {} st ss).flatMap evUsage = (walkSels S {} st ss).flatMap evUsage := by
  rw [walkSet_eq]; cases ss <;> simp [enterSetEv, exitSetEv, List.flatMap_append, evUsage, Model.Validate.mk]

variable (S : VSchema) (d : Doc)

theorem mem_recF_usages (hT : TypedSchema S) (f : FragDef) (u : String × TypeRef × Bool) :
    u ∈ (recF S f).usages ↔ u ∈ dirU S f.dirs ++ nodeUsages S (fragNodes S f) := by
  have h1 : (recF S f).usages = dirU S f.dirs ++ (walkSels S {} (fragSt S f) f.sels).flatMap evUsage := by
    simp [recF, ext, fragBody, List.flatMap_append, usage_walkDirs, usage_walkSet, evUsage, Model.Validate.mk]
  rw [h1, List.mem_append, List.mem_append, mem_usage_walkSels]
  apply or_congr_right
  rw [fragNodes, nodesOfL_eq, nodeUsages_eq, List.mem_flatMap]
  apply typed_exists_sels S hT (fun v => u ∈ selUsM S v) (fun w => u ∈ selUsS S w)
  · intro st parent s h; rw [usages_agree S hT st parent s h]
  · left
    simp only [fragSt, Stack.cur, exists_eq_tyDef]
    by_cases hx : (tyDef S f.cond).isSome = true <;> simp [hx]

theorem mem_recO_usages (hT : TypedSchema S) (o : OpDef) (hs : (rootOf S o.ty).isSome = true)
    (hr : ∀ r, rootOf S o.ty = some r → S.exists? r = true) (u : String × TypeRef × Bool) :
    u ∈ (recO S o).usages ↔ u ∈ dirU S o.dirs ++ nodeUsages S (opNodes S o) := by
  cases hroot : rootOf S o.ty with
  | none => simp [hroot] at hs
  | some r =>
    have h1 : (recO S o).usages = dirU S o.dirs ++ (walkSels S {} (opSt S r) o.sels).flatMap evUsage := by
      unfold recO opBody
      simp [hroot, ext, List.flatMap_append, usage_walkDirs, usage_walkSet, evUsage, Model.Validate.mk, List.flatMap_assoc]
    rw [h1, List.mem_append, List.mem_append, mem_usage_walkSels]
    apply or_congr_right
    rw [opNodes, nodesOfL_eq, nodeUsages_eq, List.mem_flatMap]
    apply typed_exists_sels S hT (fun v => u ∈ selUsM S v) (fun w => u ∈ selUsS S w)
    · intro st parent s h; rw [usages_agree S hT st parent s h]
    · left
      rw [← rootOf_eq, hroot]
      simp [opSt, Stack.cur, hr r hroot]

-- ------------------------------------------------------------------ the judgement of one usage

theorem isSubtype_compat (pos var : TypeRef) : isSubtype {} pos var = typesCompatible var pos := by
  induction pos generalizing var with
  | named p =>
    induction var with
    | named v => simp only [isSubtype, typesCompatible]; exact BEq.comm
    | list v _ => simp [isSubtype, typesCompatible]
    | nonNull v ih => simp [isSubtype, typesCompatible, ih]
  | list p ihp =>
    induction var with
    | named v => simp [isSubtype, typesCompatible]
    | list v _ => simp [isSubtype, typesCompatible, ihp]
    | nonNull v ih => simp [isSubtype, typesCompatible, ih]
  | nonNull p ihp =>
    cases var with
    | named v => simp [isSubtype, typesCompatible]
    | list v => simp [isSubtype, typesCompatible]
    | nonNull v => simp [isSubtype, typesCompatible, ihp]

/-- the type `VariableInAllowedPosition` compares the location with -/
def expectedTy (v : VarDef) (locDef : Bool) : TypeRef :=
  if !(false : Bool) && locDef && !v.ty.isNonNull then TypeRef.nonNull v.ty
  else (if !v.ty.isNonNull && v.default.isSome then TypeRef.nonNull v.ty else v.ty)

theorem compat_nonNull_left (t l : TypeRef) (ht : t.isNonNull = false) :
    typesCompatible (.nonNull t) l = typesCompatible t l.nullable := by
  cases l <;> cases t <;> simp_all [typesCompatible, TypeRef.nullable, TypeRef.isNonNull]

theorem compat_nullable_nonNull (t l : TypeRef) (ht : t.isNonNull = false) : typesCompatible t (.nonNull l) = false := by
  cases t <;> simp_all [typesCompatible, TypeRef.isNonNull]

/-- the implementation's comparison is IsVariableUsageAllowed, except for a variable whose default
    value is the literal `null` (the implementation counts it as a default, the specification does not) -/
theorem judge_eq (v : VarDef) (loc : TypeRef) (b : Bool) (hnull : v.default ≠ some .null) :
    isSubtype {} loc (expectedTy v b) = usageAllowed v loc b := by
  rw [isSubtype_compat]
  unfold expectedTy usageAllowed
  by_cases hv : v.ty.isNonNull = true
  · cases loc <;> simp [hv]
  · have hv' : v.ty.isNonNull = false := by simpa using hv
    cases loc with
    | nonNull l =>
      simp only [hv']
      cases hd : v.default with
      | none => cases b <;> simp [compat_nonNull_left _ _ hv', compat_nullable_nonNull _ _ hv', TypeRef.nullable]
      | some x =>
        rw [hd] at hnull
        cases x <;> cases b <;>
          simp_all [compat_nonNull_left _ _ hv', compat_nullable_nonNull _ _ hv', TypeRef.nullable]
    | named n =>
      simp only [hv']
      cases b <;> cases hd : v.default.isSome <;> simp [compat_nonNull_left _ _ hv', TypeRef.nullable]
    | list l =>
      simp only [hv']
      cases b <;> cases hd : v.default.isSome <;> simp [compat_nonNull_left _ _ hv', TypeRef.nullable]

end AGV.Lemmas.ValidateGraph
