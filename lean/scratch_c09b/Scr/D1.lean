import Scr.K3
namespace AGV.Lemmas.ValidateRules
open AGV.Core AGV.Model.Validate AGV.Lemmas.ValidateWalk AGV.Lemmas.ValidateMachine AGV.Lemmas.ValidateSpecNodes
open AGV.Spec.Validate (tyDef litOk litOf violates_ValuesOfCorrectType argSites)

/-- §5.6 at one argument site: some given argument is not a literal of the declared type -/
def siteBadValue (S : VSchema) (s : Option (List ArgDef) × List (String × DValue)) : Bool :=
  match s.1 with
  | some defs => s.2.any (fun a => match defs.find? (·.name = a.1) with
      | some ad => !(litOk S Spec.Validate.valueFuel ad.ty a.2)
      | none => false)
  | none => false

/-- §5.6 for the default value of one variable definition -/
def varBadDefault (S : VSchema) (v : VarDef) : Bool :=
  match v.default with
  | some dv => (tyDef S v.ty.base).isSome && !(litOk S Spec.Validate.valueFuel v.ty (litOf dv))
  | none => false

/-- §5.6 Values Of Correct Type = its argument half or its default-value half -/
theorem valuesOfCorrectType_eq (S : VSchema) (d : Doc) :
    violates_ValuesOfCorrectType S d =
      ((argSites S d).any (siteBadValue S) || d.ops.any (fun o => o.vars.any (varBadDefault S))) := by
  rfl

/-- the implementation's `is_valid_input_value` and §5.6.1 agree on the default values of the document -/
def DefaultsAgree (S : VSchema) (d : Doc) : Prop :=
  ∀ o ∈ d.ops, ∀ v ∈ o.vars, ∀ dv, v.default = some dv →
    validInput S {} Model.Validate.valueFuel v.ty dv = litOk S Spec.Validate.valueFuel v.ty (litOf dv)

theorem base_of_nullable_named (t : TypeRef) (n : String) (h : t.nullable = .named n) : t.base = n := by
  cases t with
  | named m => simp_all [TypeRef.nullable, TypeRef.base]
  | list t => simp_all [TypeRef.nullable]
  | nonNull t => cases t <;> simp_all [TypeRef.nullable, TypeRef.base]

/-- DefaultValuesOfCorrectType = the default-value half of §5.6 Values Of Correct Type, up to
    variables whose type does not exist (reported by KnownTypeNames / §5.8.2) -/
theorem rule_default_values (S : VSchema) (d : Doc) (hs : Served S d) (hD : DefaultsAgree S d) :
    (Kind.invalidDefault ∈ (events S {} d).flatMap (stateless S {} d) ∨ varTypeUnknown S d) ↔
      (d.ops.any (fun o => o.vars.any (varBadDefault S)) = true ∨ varTypeUnknown S d) := by
  rw [mem_stateless_events]
  have h1 : ∀ f, Kind.invalidDefault ∉ fragOut S d f := by
    intro f; simp [fragOut, dirsOut, mem_stateless_enterFrag, mem_stateless_enterDir]
  have h3 : ∀ st s, Kind.invalidDefault ∉ nodeOut S d st s := by
    intro st s
    cases s <;> simp [nodeOut, dirsOut, mem_stateless_enterField, mem_stateless_enterSpread, mem_stateless_enterInline, mem_stateless_enterDir]
  simp only [h1, h3, and_false, exists_false, false_or, or_false]
  have hop : ∀ o ∈ d.ops, (Kind.invalidDefault ∈ opOut S d o ↔
      ∃ v ∈ o.vars, (¬ ∃ n, v.ty.nullable = .named n ∧ S.exists? n = false)
          ∧ ∃ dv, v.default = some dv ∧ validInput S {} Model.Validate.valueFuel v.ty dv = false) := by
    intro o ho
    have := hs o ho
    unfold opOut
    cases hr : rootOf S o.ty with
    | none => simp_all
    | some r =>
      simp only [List.mem_append, List.mem_flatMap, dirsOut, mem_stateless_enterOp, mem_stateless_enterVar, mem_stateless_enterDir]
      simp only [reduceCtorEq, false_and, or_false, false_or, exists_false, and_false, true_and]
  constructor
  · rintro (⟨o, ho, h⟩ | h)
    · obtain ⟨v, hv, hno, dv, hdv, hbad⟩ := (hop o ho).mp h
      by_cases hex : S.exists? v.ty.base = true
      · left
        simp only [List.any_eq_true]
        refine ⟨o, ho, v, hv, ?_⟩
        have hx : (tyDef S v.ty.base).isSome = true := hex
        simp [varBadDefault, hdv, hx, ← hD o ho v hv dv hdv, hbad]
      · right
        exact ⟨o, ho, v, hv, by simpa using hex⟩
    · exact Or.inr h
  · rintro (h | h)
    · simp only [List.any_eq_true] at h
      obtain ⟨o, ho, v, hv, hb⟩ := h
      unfold varBadDefault at hb
      cases hdv : v.default with
      | none => simp [hdv] at hb
      | some dv =>
        simp only [hdv, Bool.and_eq_true, Bool.not_eq_true'] at hb
        left
        refine ⟨o, ho, (hop o ho).mpr ⟨v, hv, ?_, dv, hdv, by rw [hD o ho v hv dv hdv]; exact hb.2⟩⟩
        rintro ⟨n, hn, hex⟩
        have := base_of_nullable_named _ _ hn
        rw [this] at hb
        have hx : (tyDef S n).isSome = false := hex
        simp [hx] at hb
    · exact Or.inr h

end AGV.Lemmas.ValidateRules
