import Scr.L2
namespace AGV.Lemmas.ValidateLiterals
open AGV.Core AGV.Model.Validate
open AGV.Spec.Validate (litOk litOf litOfL litOfF tyDef kindIs)

theorem not_builtin (S : VSchema) (hS : LitSchema S) (n : String) (hk : S.kindOf n ≠ some .scalar) :
    n ≠ "Int" ∧ n ≠ "Float" ∧ n ≠ "String" ∧ n ≠ "Boolean" ∧ n ≠ "ID" := by
  refine ⟨?_, ?_, ?_, ?_, ?_⟩ <;> (intro h; subst h; exact hk (hS.builtins _ (by simp)))

theorem ty?_eq (S : VSchema) (n : String) : S.ty? n = tyDef S n := rfl

/-- everything but input objects -/
theorem valid_eq_lit_simple (S : VSchema) (hS : LitSchema S) (fuel : Nat) (n : String) (c : GValue)
    (hobj : S.kindOf n = some .input → ∀ fs, c ≠ .obj fs) :
    validInput S {} (fuel + 1) (.named n) c = litOk S (fuel + 1) (.named n) (litOf c) := by
  cases hk : S.kindOf n with
  | none =>
    obtain ⟨h1, h2, h3, h4, h5⟩ := not_builtin S hS n (by simp [hk])
    cases c <;> simp [validInput, litOk, litOf, hk, kindIs_of, h1, h2, h3, h4, h5]
  | some k =>
    cases k with
    | scalar =>
      cases c <;> simp [validInput, litOk, litOf, hk, kindIs_of, scalarValid, Model.Validate.i32Min, Model.Validate.i32Max,
        Spec.Validate.i32Min, Spec.Validate.i32Max] <;> first | rfl | congr
    | enum => cases c <;> simp [validInput, litOk, litOf, hk, kindIs_of, ty?_eq] <;> (cases tyDef S n <;> simp)
    | input =>
      cases c with
      | obj fs => exact absurd rfl (hobj hk fs)
      | _ => simp [validInput, litOk, litOf, hk, kindIs_of]
    | object =>
      obtain ⟨h1, h2, h3, h4, h5⟩ := not_builtin S hS n (by simp [hk])
      cases c <;> simp [validInput, litOk, litOf, hk, kindIs_of, h1, h2, h3, h4, h5]
    | interface =>
      obtain ⟨h1, h2, h3, h4, h5⟩ := not_builtin S hS n (by simp [hk])
      cases c <;> simp [validInput, litOk, litOf, hk, kindIs_of, h1, h2, h3, h4, h5]
    | union =>
      obtain ⟨h1, h2, h3, h4, h5⟩ := not_builtin S hS n (by simp [hk])
      cases c <;> simp [validInput, litOk, litOf, hk, kindIs_of, h1, h2, h3, h4, h5]

end AGV.Lemmas.ValidateLiterals
