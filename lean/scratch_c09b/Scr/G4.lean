import Scr.G3
namespace AGV.Lemmas.ValidateGraph
open AGV.Core AGV.Model.Validate AGV.Lemmas.ValidateWalk AGV.Lemmas.ValidateMachine AGV.Lemmas.ValidateRules

-- ------------------------------------------------------------------ looking a scope up

theorem recOf_mem (tbl : List ScopeRec) (hn : (scopes tbl).Nodup) (r : ScopeRec) (hr : r ∈ tbl) : recOf tbl r.scope = r := by
  unfold recOf
  induction tbl with
  | nil => cases hr
  | cons x xs ih =>
    simp only [scopes, List.map_cons, List.nodup_cons] at hn
    rcases List.mem_cons.mp hr with h | h
    · subst h; simp
    · have hne : x.scope ≠ r.scope := fun he => hn.1 (he ▸ List.mem_map_of_mem h)
      have := ih hn.2 h
      simpa [List.find?_cons, hne] using this

theorem recOf_not_mem (tbl : List ScopeRec) (s : Scope) (hs : s ∉ scopes tbl) : recOf tbl s = { scope := s } := by
  unfold recOf
  have : tbl.find? (·.scope == s) = none := by
    simp only [List.find?_eq_none, beq_iff_eq]
    intro x hx h
    exact hs (h ▸ List.mem_map_of_mem hx)
  simp [this]

theorem scopes_docTable (S : VSchema) (d : Doc) :
    scopes (docTable S d) = d.frags.map (fun f => Scope.frag f.name) ++ d.ops.map (fun o => Scope.op o.name) := by
  simp [scopes, docTable, recF, recO, ext_scope, Function.comp_def]

theorem recOf_frag (S : VSchema) (d : Doc) (hn : ScopesNodup d) (f : FragDef) (hf : f ∈ d.frags) :
    recOf (docTable S d) (.frag f.name) = recF S f := by
  have := recOf_mem (docTable S d) (by rw [scopes_docTable]; exact hn) (recF S f)
    (by simp only [docTable, List.mem_append, List.mem_map]; exact Or.inl ⟨f, hf, rfl⟩)
  simpa [recF, ext_scope] using this

theorem recOf_op (S : VSchema) (d : Doc) (hn : ScopesNodup d) (o : OpDef) (ho : o ∈ d.ops) :
    recOf (docTable S d) (.op o.name) = recO S o := by
  have := recOf_mem (docTable S d) (by rw [scopes_docTable]; exact hn) (recO S o)
    (by simp only [docTable, List.mem_append, List.mem_map]; exact Or.inr ⟨o, ho, rfl⟩)
  simpa [recO, ext_scope] using this

theorem recOf_undefined (S : VSchema) (d : Doc) (n : String) (h : ∀ f ∈ d.frags, f.name ≠ n) :
    recOf (docTable S d) (.frag n) = { scope := .frag n } := by
  apply recOf_not_mem
  rw [scopes_docTable]
  simp only [List.mem_append, List.mem_map, Scope.frag.injEq, reduceCtorEq, and_false, exists_false, or_false, not_exists, not_and]
  exact h

theorem scopesNodup_frags (d : Doc) (hn : ScopesNodup d) : FragsNodup d := by
  have := (List.nodup_append.mp hn).1
  unfold FragsNodup
  have h2 : d.frags.map (fun f => Scope.frag f.name) = (d.frags.map (·.name)).map Scope.frag := by simp
  rw [h2] at this
  exact List.Pairwise.of_map Scope.frag (fun a b h he => h (by rw [he])) this

-- ------------------------------------------------------------------ recorded spreads

theorem spread_walkArgs (S : VSchema) (st defs args) : (walkArgs S {} st defs args).flatMap evSpread = [] := by
  simp [walkArgs, List.flatMap_assoc, evSpread, Model.Validate.mk]
theorem spread_walkDirs (S : VSchema) (st ds) : (walkDirs S {} st ds).flatMap evSpread = [] := by
  induction ds with
  | nil => rfl
  | cons dr ds ih => rw [walkDirs_cons]; simp [List.flatMap_cons, List.flatMap_append, spread_walkArgs, ih, evSpread, Model.Validate.mk]

theorem spread_walkSet (S : VSchema) (st ss) : (walkSet S {} st ss).flatMap evSpread = (walkSels S {} st ss).flatMap evSpread := by
  rw [walkSet_eq]; cases ss <;> simp [enterSetEv, exitSetEv, List.flatMap_append, evSpread, Model.Validate.mk]

mutual
theorem spread_walkSel (S : VSchema) (st : Stack) : (s : Sel) → (walkSel S {} st s).flatMap evSpread = Spec.Validate.spreadsOf s
  | .field al n args ds ss p => by
    rw [walkSel_field]
    simp [List.flatMap_cons, List.flatMap_append, spread_walkArgs, spread_walkDirs, spread_walkSet, spread_walkSels S _ ss,
      evSpread, Model.Validate.mk, Spec.Validate.spreadsOf]
  | .spread n ds p => by
    rw [walkSel_spread]
    simp [List.flatMap_cons, List.flatMap_append, spread_walkDirs, evSpread, Model.Validate.mk, Spec.Validate.spreadsOf]
  | .inline c ds ss p => by
    rw [walkSel_inline]
    simp [List.flatMap_cons, List.flatMap_append, spread_walkDirs, spread_walkSet, spread_walkSels S _ ss,
      evSpread, Model.Validate.mk, Spec.Validate.spreadsOf]
theorem spread_walkSels (S : VSchema) (st : Stack) : (ss : List Sel) → (walkSels S {} st ss).flatMap evSpread = Spec.Validate.spreadsOfL ss
  | [] => by simp [walkSels, Spec.Validate.spreadsOfL]
  | s :: ss => by simp [walkSels, List.flatMap_append, spread_walkSel S st s, spread_walkSels S st ss, Spec.Validate.spreadsOfL]
end

theorem recF_spreads (S : VSchema) (f : FragDef) : (recF S f).spreads = Spec.Validate.spreadsOfL f.sels := by
  simp [recF, ext, fragBody, List.flatMap_append, spread_walkDirs, spread_walkSet, spread_walkSels, evSpread, Model.Validate.mk]

theorem recO_spreads (S : VSchema) (o : OpDef) (hs : (rootOf S o.ty).isSome = true) :
    (recO S o).spreads = Spec.Validate.spreadsOfL o.sels := by
  unfold recO opBody
  cases h : rootOf S o.ty with
  | none => simp [h] at hs
  | some r =>
    simp [ext, List.flatMap_append, spread_walkDirs, spread_walkSet, spread_walkSels, evSpread, Model.Validate.mk,
      List.flatMap_assoc]

-- ------------------------------------------------------------------ the model's `reach`

/-- the scope graph of a table -/
def nodeM (tbl : List ScopeRec) (s : Scope) : Option (List Scope) := some ((recOf tbl s).spreads.map Scope.frag)

theorem reach_eq (tbl : List ScopeRec) (fuel : Nat) (todo seen : List Scope) :
    reach tbl fuel todo seen = gReach (nodeM tbl) fuel todo seen := by
  induction fuel generalizing todo seen with
  | zero => cases todo <;> simp [reach, gReach]
  | succ fuel ih =>
    cases todo with
    | nil => simp [reach, gReach]
    | cons n todo =>
      rw [reach, gReach]
      split
      · exact ih _ _
      · simp [nodeM, ih]

theorem weightM_le (tbl : List ScopeRec) (hn : (scopes tbl).Nodup) :
    weight (nodeM tbl) (scopes tbl) [] ≤ (tbl.map (fun r => r.spreads.length + 1)).sum := by
  simp only [weight, scopes, List.map_map]
  apply sum_le_of_mem
  intro r hr
  simp [Function.comp, nodeM, recOf_mem tbl hn r hr]

theorem mem_reachable (tbl : List ScopeRec) (hn : (scopes tbl).Nodup) (s x : Scope) :
    x ∈ reachable tbl s ↔ Path (nodeM tbl) s x := by
  unfold reachable
  rw [reach_eq, gReach_iff (nodeM tbl) (scopes tbl)]
  · simp [nodeM]
  · intro n l h hl
    apply Classical.byContradiction
    intro hc
    simp [nodeM, recOf_not_mem tbl n hc] at h
    exact hl h
  · have := weightM_le tbl hn
    simp only [reachFuel, foldl_add, List.length_singleton]
    omega

-- ------------------------------------------------------------------ the two graphs

variable (S : VSchema) (d : Doc)

theorem nodeM_frag (hn : ScopesNodup d) (n : String) :
    nodeM (docTable S d) (.frag n) = some (((nodeS d n).getD []).map Scope.frag) := by
  by_cases h : ∃ f ∈ d.frags, f.name = n
  · obtain ⟨f, hf, rfl⟩ := h
    simp [nodeM, recOf_frag S d hn f hf, recF_spreads, nodeS_frag d (scopesNodup_frags d hn) f hf]
  · have h' : ∀ f ∈ d.frags, f.name ≠ n := by intro f hf he; exact h ⟨f, hf, he⟩
    have : nodeS d n = none := by
      cases hh : nodeS d n with
      | none => rfl
      | some l => exact absurd ((nodeS_isSome d n).mp (by simp [hh])) h
    simp [nodeM, recOf_undefined S d n h', this]

theorem pathS_to_M (hn : ScopesNodup d) (a b : String) (p : Path (nodeS d) a b) :
    Path (nodeM (docTable S d)) (.frag a) (.frag b) := by
  induction p with
  | refl => exact .refl _
  | step a b c l h hb _ ih =>
    exact .step _ (.frag b) _ _ (nodeM_frag S d hn a) (by simp [h]; exact hb) ih

theorem pathM_to_S (hn : ScopesNodup d) (x y : Scope) (p : Path (nodeM (docTable S d)) x y) :
    ∀ a b, x = .frag a → y = .frag b → Path (nodeS d) a b := by
  induction p with
  | refl => intro a b h1 h2; rw [h1] at h2; cases h2; exact .refl _
  | step x y z l h hb _ ih =>
    intro a b h1 h2
    subst h1
    rw [nodeM_frag S d hn a] at h
    cases h
    simp only [List.mem_map] at hb
    obtain ⟨m, hm, rfl⟩ := hb
    cases hl : nodeS d a with
    | none => simp [hl] at hm
    | some l' =>
      simp only [hl, Option.getD_some] at hm
      exact .step a m b l' hl hm (ih m b rfl h2)

theorem pathM_frag_iff (hn : ScopesNodup d) (a b : String) :
    Path (nodeM (docTable S d)) (.frag a) (.frag b) ↔ Path (nodeS d) a b :=
  ⟨fun p => pathM_to_S S d hn _ _ p a b rfl rfl, pathS_to_M S d hn a b⟩

/-- from an operation: through one of its spreads -/
theorem pathM_op_iff (hn : ScopesNodup d) (o : OpDef) (ho : o ∈ d.ops) (hs : (rootOf S o.ty).isSome = true) (b : String) :
    Path (nodeM (docTable S d)) (.op o.name) (.frag b) ↔
      ∃ t ∈ Spec.Validate.spreadsOfL o.sels, Path (nodeS d) t b := by
  constructor
  · intro p
    cases p with
    | step _ y _ l h hb p' =>
      simp only [nodeM, recOf_op S d hn o ho, recO_spreads S o hs, Option.some.injEq] at h
      subst h
      simp only [List.mem_map] at hb
      obtain ⟨t, ht, rfl⟩ := hb
      exact ⟨t, ht, (pathM_frag_iff S d hn t b).mp p'⟩
  · rintro ⟨t, ht, p⟩
    exact .step _ (.frag t) _ _ (by simp [nodeM, recOf_op S d hn o ho, recO_spreads S o hs])
      (List.mem_map_of_mem ht) (pathS_to_M S d hn t b p)

end AGV.Lemmas.ValidateGraph
