import Scr.D1
namespace AGV.Lemmas.ValidateRules
open AGV.Core AGV.Model.Validate AGV.Lemmas.ValidateWalk AGV.Lemmas.ValidateMachine AGV.Lemmas.ValidateSpecNodes
open AGV.Spec.Validate (tyDef fieldType litOk litOf litOfL litOfF varsIn varsInL varsInF argSites)

-- ------------------------------------------------------------------ variable-free literals

mutual
/-- the constant a variable-free literal denotes (`null` at a variable) -/
def constOf : DValue → GValue
  | .var _ => .null
  | .null => .null
  | .int i => .int i
  | .float t => .float t
  | .str s => .str s
  | .bool b => .bool b
  | .enum e => .enum e
  | .list xs => .list (constOfL xs)
  | .obj fs => .obj (constOfF fs)
def constOfL : List DValue → List GValue
  | [] => []
  | x :: xs => constOf x :: constOfL xs
def constOfF : List (String × DValue) → List (String × GValue)
  | [] => []
  | (k, x) :: xs => (k, constOf x) :: constOfF xs
end

mutual
/-- without variables, `into_const_with` returns the constant whatever the supplied variables are -/
theorem substVars_varFree (vars : List (String × GValue)) : (v : DValue) → varsIn v = [] →
    substVars vars v = some (constOf v) ∧ litOf (constOf v) = v
  | .var n => by simp [varsIn]
  | .null => by simp [substVars, constOf, litOf]
  | .int _ => by simp [substVars, constOf, litOf]
  | .float _ => by simp [substVars, constOf, litOf]
  | .str _ => by simp [substVars, constOf, litOf]
  | .bool _ => by simp [substVars, constOf, litOf]
  | .enum _ => by simp [substVars, constOf, litOf]
  | .list xs => by
    intro h
    have := substList_varFree vars xs (by simpa [varsIn] using h)
    simp [substVars, constOf, litOf, this.1, this.2]
  | .obj fs => by
    intro h
    have := substFields_varFree vars fs (by simpa [varsIn] using h)
    simp [substVars, constOf, litOf, this.1, this.2]
theorem substList_varFree (vars : List (String × GValue)) : (xs : List DValue) → varsInL xs = [] →
    substList vars xs = some (constOfL xs) ∧ litOfL (constOfL xs) = xs
  | [] => by simp [substList, constOfL, litOfL]
  | x :: xs => by
    intro h
    simp only [varsInL, List.append_eq_nil_iff] at h
    have h1 := substVars_varFree vars x h.1
    have h2 := substList_varFree vars xs h.2
    simp [substList, constOfL, litOfL, h1.1, h1.2, h2.1, h2.2]
theorem substFields_varFree (vars : List (String × GValue)) : (fs : List (String × DValue)) → varsInF fs = [] →
    substFields vars fs = some (constOfF fs) ∧ litOfF (constOfF fs) = fs
  | [] => by simp [substFields, constOfF, litOfF]
  | (k, x) :: fs => by
    intro h
    simp only [varsInF, List.append_eq_nil_iff] at h
    have h1 := substVars_varFree vars x h.1
    have h2 := substFields_varFree vars fs h.2
    simp [substFields, constOfF, litOfF, h1.1, h1.2, h2.1, h2.2]
end

def argsVarFree (args : List (String × DValue)) : Prop := ∀ a ∈ args, varsIn a.2 = []
def dirsVarFree (ds : List Dir) : Prop := ∀ dr ∈ ds, argsVarFree dr.args

/-- the arguments of the selection itself (not of its sub-selections) contain no variables -/
def selVarFree : Sel → Prop
  | .field _ _ args ds _ _ => argsVarFree args ∧ dirsVarFree ds
  | .spread _ ds _ => dirsVarFree ds
  | .inline _ ds _ _ => dirsVarFree ds

-- ------------------------------------------------------------------ the rule as a machine

abbrev ACState := Option (List ArgDef) × Bool

def acM (S : VSchema) (vars : List (String × GValue)) (opName : Option String) : Machine ACState where
  step st e := match e.ev with
    | .enterOp o => ((st.1, match opName, o.name with | some a, some b => a != b | _, _ => false), [])
    | .enterDir dr => (((S.dir? dr.name).map (·.args), st.2), [])
    | .exitDir _ => ((none, st.2), [])
    | .enterField _ n _ _ _ => (((e.par.bind (fun p => S.field? p n)).map (·.args), st.2), [])
    | .exitField => ((none, st.2), [])
    | .enterArg n v =>
      (st, match st.1.bind (fun ds => ds.find? (·.name = n)) with
        | some a =>
          (match substVars (if st.2 then [] else vars) v with
           | some c => if validInput S {} Model.Validate.valueFuel a.ty c then [] else [Kind.argInvalid]
           | none => [])
        | none => [])
    | _ => (st, [])

theorem ruleArgsCorrect_eq (S : VSchema) (vars opName) (cur unsel evs) :
    ruleArgsCorrect S {} vars opName cur unsel evs = (acM S vars opName).run (cur, unsel) evs := by
  induction evs generalizing cur unsel with
  | nil => simp [ruleArgsCorrect, Machine.run]
  | cons e es ih =>
    rcases e with ⟨ev, c, p⟩
    cases ev with
    | enterOp o =>
      simp only [ruleArgsCorrect, Machine.run_cons, ih]
      cases opName <;> cases h : o.name <;> simp [acM, h]
    | enterArg n v =>
      simp only [ruleArgsCorrect, Machine.run_cons, ih]
      cases h1 : cur.bind (fun ds => ds.find? (·.name = n)) with
      | none => simp [acM, h1]
      | some a => cases h2 : substVars (if unsel then [] else vars) v <;> simp [acM, h1, h2]
    | _ => simp [ruleArgsCorrect, Machine.run_cons, acM, ih]

/-- the verdict on the literal arguments of one site -/
def judgeVals (S : VSchema) (defs : Option (List ArgDef)) (args : List (String × DValue)) : List Model.Validate.Kind :=
  args.flatMap (fun a => match defs.bind (fun ds => ds.find? (·.name = a.1)) with
    | some ad => if validInput S {} Model.Validate.valueFuel ad.ty (constOf a.2) then [] else [Kind.argInvalid]
    | none => [])

theorem acM_args (S : VSchema) (vars opName) (st defs) (cur : Option (List ArgDef)) (u : Bool) (args : List (String × DValue))
    (hv : argsVarFree args) :
    (acM S vars opName).run (cur, u) (walkArgs S {} st defs args) = judgeVals S cur args
    ∧ (acM S vars opName).final (cur, u) (walkArgs S {} st defs args) = (cur, u) := by
  induction args with
  | nil => exact ⟨rfl, rfl⟩
  | cons a as ih =>
    have ih := ih (fun x hx => hv x (by simp [hx]))
    have hsub := (substVars_varFree (if u then [] else vars) a.2 (hv a (by simp))).1
    rw [walkArgs_cons]
    simp only [Machine.run_cons, Machine.final]
    have h1 : (acM S vars opName).step (cur, u) (mk st (.enterArg a.1 a.2)) =
        ((cur, u), match cur.bind (fun ds => ds.find? (·.name = a.1)) with
          | some ad => if validInput S {} Model.Validate.valueFuel ad.ty (constOf a.2) then [] else [Kind.argInvalid]
          | none => []) := by
      simp only [acM, mk, hsub]
    rw [h1]
    simp only []
    rw [show ∀ x, (acM S vars opName).step (cur, u) (mk st (.inputVars x)) = ((cur, u), []) from fun _ => rfl,
      show (acM S vars opName).step (cur, u) (mk st (.exitArg a.1)) = ((cur, u), []) from rfl]
    simp [ih.1, ih.2, judgeVals]

def dirsAC (S : VSchema) (ds : List Dir) : List Model.Validate.Kind :=
  ds.flatMap (fun dr => judgeVals S ((S.dir? dr.name).map (·.args)) dr.args)

theorem acM_dirs (S : VSchema) (vars opName) (st) (cur : Option (List ArgDef)) (u : Bool) (ds : List Dir) (hv : dirsVarFree ds) :
    (acM S vars opName).run (cur, u) (walkDirs S {} st ds) = dirsAC S ds
    ∧ ((acM S vars opName).final (cur, u) (walkDirs S {} st ds)).2 = u := by
  induction ds generalizing cur with
  | nil => exact ⟨rfl, rfl⟩
  | cons dr ds ih =>
    have ih := fun c => ih c (fun x hx => hv x (by simp [hx]))
    have ha := acM_args S vars opName st ((S.dir? dr.name).map (·.args)) ((S.dir? dr.name).map (·.args)) u dr.args (hv dr (by simp))
    rw [walkDirs_cons]
    simp only [Machine.run_cons, Machine.run_append, Machine.final, Machine.final_append, dirsAC, List.flatMap_cons]
    rw [show (acM S vars opName).step (cur, u) (mk st (.enterDir dr)) = (((S.dir? dr.name).map (·.args), u), []) from rfl]
    simp only [List.nil_append, ha.1, ha.2]
    rw [show (acM S vars opName).step ((S.dir? dr.name).map (·.args), u) (mk st (.exitDir dr)) = ((none, u), []) from rfl]
    simp only [List.nil_append]
    exact ⟨by rw [(ih none).1]; rfl, (ih none).2⟩


instance : DecidablePred argsVarFree := fun a => by unfold argsVarFree; infer_instance
instance : DecidablePred dirsVarFree := fun a => by unfold dirsVarFree; infer_instance
instance : DecidablePred selVarFree := fun s => by
  cases s <;> (unfold selVarFree; infer_instance)

end AGV.Lemmas.ValidateRules
