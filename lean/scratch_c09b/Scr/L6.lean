import Scr.L5
namespace AGV.Lemmas.ValidateLiterals
open AGV.Core AGV.Model.Validate AGV.Lemmas.ValidateRules AGV.Lemmas.ValidateSpecNodes AGV.Lemmas.ValidateWalk
open AGV.Spec.Validate (litOk litOf tyDef kindIs argSites)

theorem dirSites_varFree (S : VSchema) (ds : List Dir) (h : dirsVarFree ds) : ∀ s ∈ dirSites S ds, argsVarFree s.2 := by
  intro s hs
  simp only [dirSites, List.mem_map] at hs
  obtain ⟨dr, hdr, rfl⟩ := hs
  exact h dr hdr

/-- in a document without variables in arguments, no argument site has one -/
theorem argSites_varFree (S : VSchema) (d : Doc) (hV : DocVarFree d) : ∀ s ∈ argSites S d, ∀ a ∈ s.2, Spec.Validate.varsIn a.2 = [] := by
  intro s hs
  rw [argSites_eq] at hs
  simp only [List.mem_append, List.mem_flatMap] at hs
  rcases hs with (⟨w, hw, hs⟩ | ⟨o, ho, hs⟩) | ⟨f, hf, hs⟩
  · have hmem : w.2 ∈ allSels d := by rw [← specDocVisits_snd S d]; exact List.mem_map_of_mem hw
    have hsv := hV.sels w.2 hmem
    obtain ⟨p, sel⟩ := w
    cases sel with
    | field al n args ds ss q =>
      simp only [selSites, List.mem_cons] at hs
      rcases hs with rfl | hs
      · exact hsv.1
      · exact dirSites_varFree S ds hsv.2 s hs
    | spread n ds q => exact dirSites_varFree S ds hsv s hs
    | inline c ds ss q => exact dirSites_varFree S ds hsv s hs
  · exact dirSites_varFree S o.dirs (hV.ops o ho) s hs
  · exact dirSites_varFree S f.dirs (hV.frags f hf) s hs

/-- `LitSchema` as a check -/
def litSchemaB (S : VSchema) : Bool :=
  ["Int", "Float", "String", "Boolean", "ID"].all (fun n => S.kindOf n == some .scalar)
  && S.base.types.all (fun t => t.kind != .input ||
      (match S.input? t.name with
       | some idef => !(Spec.Validate.hasDup (idef.fields.map (·.name)))
       | none => false))

theorem litSchema_of_check (S : VSchema) (h : litSchemaB S = true) : LitSchema S := by
  simp only [litSchemaB, Bool.and_eq_true, List.all_eq_true, Bool.or_eq_true] at h
  refine ⟨fun n hn => by simpa using h.1 n hn, ?_⟩
  intro n hk
  simp only [VSchema.kindOf, VSchema.ty?, Schema.find?] at hk
  cases hf : S.base.types.find? (·.name = n) with
  | none => simp [hf] at hk
  | some t =>
    simp only [hf, Option.map_some, Option.some.injEq] at hk
    have hmem := List.mem_of_find?_eq_some hf
    have hname : t.name = n := by simpa using List.find?_some hf
    rcases h.2 t hmem with h1 | h1
    · simp [hk] at h1
    · rw [hname] at h1
      cases hi : S.input? n with
      | none => simp [hi] at h1
      | some idef =>
        simp only [hi, Bool.not_eq_true'] at h1
        exact ⟨idef, rfl, (AGV.Lemmas.ValidateGraph.hasDup_false_iff _).mp h1⟩

instance (d : Doc) : Decidable (DefaultKeysOk d) := by
  unfold DefaultKeysOk
  exact decidable_of_iff (∀ o ∈ d.ops, ∀ v ∈ o.vars, (match v.default with | some dv => keysOk dv | none => true) = true)
    ⟨fun h o ho v hv dv hdv => by have := h o ho v hv; simpa [hdv] using this,
     fun h o ho v hv => by cases hdv : v.default with | none => rfl | some dv => exact h o ho v hv dv hdv⟩
instance (S : VSchema) (d : Doc) : Decidable (ArgKeysOk S d) := by unfold ArgKeysOk; infer_instance

end AGV.Lemmas.ValidateLiterals
