import Scr.A1
namespace AGV.Lemmas.ValidateRules
open AGV.Core AGV.Model.Validate AGV.Lemmas.ValidateWalk AGV.Lemmas.ValidateMachine AGV.Lemmas.ValidateSpecNodes
open AGV.Spec.Validate (tyDef fieldType litOk litOf varsIn argSites)

def notACEv (e : Evt) : Bool := match e.ev with | .enterArg .. => false | _ => true
theorem acM_silent (S : VSchema) (vars opName) (s e) (h : notACEv e = true) : ((acM S vars opName).step s e).2 = [] := by
  rcases e with ⟨ev, c, p⟩
  cases ev <;> simp_all [acM, notACEv]

theorem notACEv_enterSet (st ss) : (enterSetEv st ss).all notACEv = true := by
  cases ss <;> simp [enterSetEv, notACEv, mk]
theorem notACEv_exitSet (st ss) : (exitSetEv st ss).all notACEv = true := by
  cases ss <;> simp [exitSetEv, notACEv, mk]
theorem notACEv_post (S : VSchema) (st sel) : (postEvents S st sel).all notACEv = true := by
  cases sel <;> simp [postEvents, notACEv_exitSet] <;> simp [notACEv, mk]

/-- what `ArgumentsOfCorrectType` reports at one selection whose own arguments are literals -/
def nodeAC (S : VSchema) (st : Stack) : Sel → List Model.Validate.Kind
  | .field _ n args ds _ _ => judgeVals S (fieldDefs S st n) args ++ dirsAC S ds
  | .spread _ ds _ => dirsAC S ds
  | .inline _ ds _ _ => dirsAC S ds

theorem acM_pre (S : VSchema) (vars opName) (s : ACState) (st sel) (hv : selVarFree sel) :
    (acM S vars opName).run s (preEvents S st sel) = nodeAC S st sel := by
  obtain ⟨c, u⟩ := s
  cases sel with
  | field al n args ds ss p =>
    simp only [preEvents, Machine.run_cons, Machine.run_append, nodeAC]
    rw [show (acM S vars opName).step (c, u) (mk st .enterSel) = ((c, u), []) from rfl]
    simp only [List.nil_append]
    rw [Machine.silent (acM S vars opName) notACEv (acM_silent S vars opName) _ (notACEv_enterSet _ _)]
    have hstep : (acM S vars opName).step (c, u) (mk (fieldTy S st n :: st) (.enterField al n args ds ss)) =
        ((fieldDefs S st n, u), []) := by
      simp only [acM, mk, par_cons, fieldDefs]
    rw [hstep]
    have ha := acM_args S vars opName (fieldTy S st n :: st) (fieldDefs S st n) (fieldDefs S st n) u args hv.1
    simp only [List.nil_append, ha.1, ha.2, List.append_nil]
    rw [(acM_dirs S vars opName _ _ u ds hv.2).1]
  | spread n ds p =>
    simp only [preEvents, Machine.run_cons, Machine.run_append, nodeAC, Machine.run_nil]
    rw [show (acM S vars opName).step (c, u) (mk st .enterSel) = ((c, u), []) from rfl]
    simp only [List.nil_append]
    rw [show (acM S vars opName).step (c, u) (mk st (.enterSpread n ds)) = ((c, u), []) from rfl]
    simp only [List.nil_append, (acM_dirs S vars opName _ _ u ds hv).1]
    simp [acM, mk]
  | inline cnd ds ss p =>
    simp only [preEvents, Machine.run_cons, Machine.run_append, nodeAC,
      Machine.silent (acM S vars opName) notACEv (acM_silent S vars opName) _ (notACEv_enterSet _ _)]
    rw [show (acM S vars opName).step (c, u) (mk st .enterSel) = ((c, u), []) from rfl]
    simp only [List.nil_append]
    rw [show (acM S vars opName).step (c, u) (mk (inlineSt S st cnd) (.enterInline cnd ds ss)) = ((c, u), []) from rfl]
    simp only [List.nil_append, (acM_dirs S vars opName _ _ u ds hv).1, List.append_nil]

/-- the arguments of the document (fields, directives everywhere) contain no variables -/
structure DocVarFree (d : Doc) : Prop where
  sels : ∀ s ∈ allSels d, selVarFree s
  frags : ∀ f ∈ d.frags, dirsVarFree f.dirs
  ops : ∀ o ∈ d.ops, dirsVarFree o.dirs

def opAC (S : VSchema) (o : OpDef) : List Model.Validate.Kind :=
  match rootOf S o.ty with
  | some _ => dirsAC S o.dirs
  | none => []

theorem ruleArgsCorrect_events (S : VSchema) (d : Doc) (vars opName) (hs : Served S d) (hV : DocVarFree d) :
    ruleArgsCorrect S {} vars opName none false (events S {} d) =
      d.frags.flatMap (fun f => dirsAC S f.dirs ++ (visitsSels S (fragSt S f) f.sels).flatMap (fun v => nodeAC S v.1 v.2))
      ++ d.ops.flatMap (fun o => opAC S o ++ (opVisits S o).flatMap (fun v => nodeAC S v.1 v.2)) := by
  rw [ruleArgsCorrect_eq,
    Machine.run_events_on (acM S vars opName) S d (fun _ sel => selVarFree sel) (nodeAC S) (fun f => dirsAC S f.dirs) (opAC S)
      (fun s st sel h => acM_pre S vars opName s st sel h)
      (fun s st sel => Machine.silent (acM S vars opName) notACEv (acM_silent S vars opName) _ (notACEv_post S st sel) s)]
  · intro s f hf
    obtain ⟨c, u⟩ := s
    simp only [fragPre, Machine.run_cons, Machine.run_append,
      Machine.silent (acM S vars opName) notACEv (acM_silent S vars opName) _ (notACEv_enterSet _ _)]
    rw [show (acM S vars opName).step (c, u) (mk (fragSt S f) (.enterFrag f)) = ((c, u), []) from rfl]
    simp only [List.nil_append, (acM_dirs S vars opName _ _ u f.dirs (hV.frags f hf)).1, List.append_nil]
  · intro s f
    exact Machine.silent (acM S vars opName) notACEv (acM_silent S vars opName) _ (by simp [fragPost, notACEv_exitSet]; simp [notACEv, mk]) s
  · intro s o ho
    obtain ⟨c, u⟩ := s
    unfold opPre opAC
    cases rootOf S o.ty with
    | none => simp [acM, mk]
    | some r =>
      simp only [Machine.run_cons, Machine.run_append, Machine.final_append,
        Machine.silent (acM S vars opName) notACEv (acM_silent S vars opName) _ (notACEv_enterSet _ _)]
      rw [Machine.silent (acM S vars opName) notACEv (acM_silent S vars opName) (varEvents _ _) (by simp [varEvents, List.all_flatMap, notACEv, mk])]
      have hst : ∃ c' u', (acM S vars opName).final ((acM S vars opName).step (c, u) (mk [] (.enterOp o))).1 (varEvents (opSt S r) o.vars) = (c', u') :=
        ⟨_, _, rfl⟩
      obtain ⟨c', u', hst⟩ := hst
      rw [hst, (acM_dirs S vars opName _ _ u' o.dirs (hV.ops o ho)).1]
      simp [acM, mk]
  · intro s o
    exact Machine.silent (acM S vars opName) notACEv (acM_silent S vars opName) _ (by unfold opPost; cases rootOf S o.ty <;> simp [notACEv_exitSet] <;> simp [notACEv, mk]) s
  · intro s; simp [acM, mk]
  · intro v hv
    apply hV.sels
    rw [← docSels_served S d hs, ← docVisits_snd]
    exact List.mem_map_of_mem hv

end AGV.Lemmas.ValidateRules
