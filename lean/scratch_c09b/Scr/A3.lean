import Scr.A2
namespace AGV.Lemmas.ValidateRules
open AGV.Core AGV.Model.Validate AGV.Lemmas.ValidateWalk AGV.Lemmas.ValidateMachine AGV.Lemmas.ValidateSpecNodes
open AGV.Spec.Validate (tyDef fieldType litOk litOf varsIn argSites)

/-- at this argument site `is_valid_input_value` and §5.6.1 agree on the (variable-free) literals given -/
def SiteAgree (S : VSchema) (s : Option (List ArgDef) × List (String × DValue)) : Prop :=
  ∀ a ∈ s.2, ∀ ad, s.1.bind (fun ds => ds.find? (·.name = a.1)) = some ad →
    validInput S {} Model.Validate.valueFuel ad.ty (constOf a.2) = litOk S Spec.Validate.valueFuel ad.ty a.2

theorem site_iff (S : VSchema) (defs : Option (List ArgDef)) (args : List (String × DValue)) (hA : SiteAgree S (defs, args)) :
    Kind.argInvalid ∈ judgeVals S defs args ↔ siteBadValue S (defs, args) = true := by
  simp only [judgeVals, List.mem_flatMap, siteBadValue]
  cases defs with
  | none => simp
  | some ds =>
    simp only [Option.bind_some, List.any_eq_true]
    constructor
    · rintro ⟨a, ha, h⟩
      refine ⟨a, ha, ?_⟩
      cases hf : ds.find? (·.name = a.1) with
      | none => simp [hf] at h
      | some ad =>
        simp only [hf] at h ⊢
        have := hA a ha ad (by simpa using hf)
        split at h
        · cases h
        · simp_all
    · rintro ⟨a, ha, h⟩
      refine ⟨a, ha, ?_⟩
      cases hf : ds.find? (·.name = a.1) with
      | none => simp [hf] at h
      | some ad =>
        simp only [hf] at h ⊢
        have := hA a ha ad (by simpa using hf)
        simp_all

theorem dirsAC_iff (S : VSchema) (ds : List Dir) (hA : ∀ s ∈ dirSites S ds, SiteAgree S s) :
    Kind.argInvalid ∈ dirsAC S ds ↔ (dirSites S ds).any (siteBadValue S) = true := by
  simp only [dirsAC, List.mem_flatMap, dirSites, List.any_map, List.any_eq_true, Function.comp]
  constructor
  · rintro ⟨dr, hdr, h⟩
    exact ⟨dr, hdr, (site_iff S _ _ (hA _ (by simp only [dirSites, List.mem_map]; exact ⟨dr, hdr, rfl⟩))).mp h⟩
  · rintro ⟨dr, hdr, h⟩
    exact ⟨dr, hdr, (site_iff S _ _ (hA _ (by simp only [dirSites, List.mem_map]; exact ⟨dr, hdr, rfl⟩))).mpr h⟩

theorem siteBadValue_nil (S : VSchema) (args) : siteBadValue S (some [], args) = false := by
  simp [siteBadValue]

theorem ac_agree (S : VSchema) (hT : TypedSchema S) (st : Stack) (parent : Option String) (s : Sel)
    (h : TyRel (Stack.cur st) parent) (hA : ∀ x ∈ selSites S (parent, s), SiteAgree S x) :
    Kind.argInvalid ∈ nodeAC S st s ↔ (selSites S (parent, s)).any (siteBadValue S) = true := by
  cases s with
  | spread n ds p => simp only [nodeAC, selSites] at hA ⊢; exact dirsAC_iff S ds hA
  | inline c ds ss p => simp only [nodeAC, selSites] at hA ⊢; exact dirsAC_iff S ds hA
  | field al n args ds ss p =>
    simp only [nodeAC, selSites, List.any_cons, Bool.or_eq_true, List.mem_append] at hA ⊢
    rw [dirsAC_iff S ds (fun x hx => hA x (List.mem_cons_of_mem _ hx))]
    apply or_congr_left
    have hA0 := hA _ List.mem_cons_self
    simp only [fieldDefs]
    by_cases hn' : n = "__typename"
    · subst hn'
      have h1 : ∀ c : Option String, c.bind (fun p => S.field? p "__typename") = none := by
        intro c; cases c <;> simp [hT.noTypenameField]
      rw [h1]
      cases parent with
      | none => simp [judgeVals, siteBadValue]
      | some p =>
        simp only [Option.bind_some, fieldType, if_true]
        by_cases hc : Spec.Validate.composite S p = true
        · simp [hc, judgeVals, siteBadValue]
        · simp [hc, judgeVals, siteBadValue]
    · rcases h with h | ⟨h1, h2⟩
      · rw [h]
        have hdefs : (parent.bind fun t => S.field? t n).map (·.args) = (parent.bind fun p => fieldType S p n).map (·.2) := by
          cases parent with
          | none => simp
          | some p =>
            simp only [Option.bind_some, ← field?_eq_fieldType S p n hn']
            cases S.field? p n <;> simp
        rw [hdefs]
        exact site_iff S _ _ hA0
      · rw [h1, h2]
        simp [hT.stringNoFields n, judgeVals, siteBadValue]

/-- `typed_exists_sels` with a correspondence that only holds at the selections of the list -/
theorem typed_exists_sels_mem (S : VSchema) (hT : TypedSchema S) (P : Stack × Sel → Prop) (Q : Option String × Sel → Prop)
    (st : Stack) (parent : Option String) (h : TyRel (Stack.cur st) parent) (ss : List Sel)
    (hPQ : ∀ st' parent' s, TyRel (Stack.cur st') parent' → (parent', s) ∈ specVisitsSels S parent ss → (P (st', s) ↔ Q (parent', s))) :
    (∃ v ∈ visitsSels S st ss, P v) ↔ (∃ w ∈ specVisitsSels S parent ss, Q w) := by
  have hmem : ∀ x ∈ pairSels S st parent ss, (x.2.1, x.2.2) ∈ specVisitsSels S parent ss := by
    intro x hx
    rw [← pairSels_right S st parent ss]
    exact List.mem_map_of_mem (f := fun x => x.2) hx
  rw [← pairSels_left S st parent ss, ← pairSels_right S st parent ss]
  simp only [List.mem_map]
  constructor
  · rintro ⟨v, ⟨x, hx, rfl⟩, hp⟩
    exact ⟨x.2, ⟨x, hx, rfl⟩, (hPQ x.1 x.2.1 x.2.2 (tyRel_pairSels S hT st parent h ss x hx) (hmem x hx)).mp hp⟩
  · rintro ⟨w, ⟨x, hx, rfl⟩, hq⟩
    exact ⟨(x.1, x.2.2), ⟨x, hx, rfl⟩, (hPQ x.1 x.2.1 x.2.2 (tyRel_pairSels S hT st parent h ss x hx) (hmem x hx)).mpr hq⟩

/-- `typed_exists` with a correspondence that only holds at the selections of the document -/
theorem typed_exists_mem (S : VSchema) (d : Doc) (hT : TypedSchema S) (hs : Served S d) (hr : RootsExist S d)
    (P : Stack × Sel → Prop) (Q : Option String × Sel → Prop)
    (hPQ : ∀ st parent s, TyRel (Stack.cur st) parent → (parent, s) ∈ specDocVisits S d → (P (st, s) ↔ Q (parent, s))) :
    (∃ v ∈ docVisits S d, P v) ↔ (∃ w ∈ specDocVisits S d, Q w) := by
  have hf : ∀ f ∈ d.frags, ((∃ v ∈ visitsSels S (fragSt S f) f.sels, P v) ↔
      (∃ w ∈ specVisitsSels S (if (tyDef S f.cond).isSome then some f.cond else none) f.sels, Q w)) := by
    intro f hfm
    apply typed_exists_sels_mem S hT P Q
    · left
      simp only [fragSt, Stack.cur, exists_eq_tyDef]
      by_cases hx : (tyDef S f.cond).isSome = true <;> simp [hx]
    · intro st' parent' s hty hm
      exact hPQ st' parent' s hty (by
        simp only [specDocVisits, List.mem_append, List.mem_flatMap]; exact Or.inr ⟨f, hfm, hm⟩)
  have ho : ∀ o ∈ d.ops, ((∃ v ∈ opVisits S o, P v) ↔ (∃ w ∈ specVisitsSels S (Spec.Validate.rootType S o.ty) o.sels, Q w)) := by
    intro o hom
    have h1 := hs o hom
    unfold opVisits
    cases hroot : rootOf S o.ty with
    | none => simp [hroot] at h1
    | some r =>
      simp only []
      apply typed_exists_sels_mem S hT P Q
      · left
        rw [← rootOf_eq, hroot]
        simp [opSt, Stack.cur, hr o hom r hroot]
      · intro st' parent' s hty hm
        exact hPQ st' parent' s hty (by
          simp only [specDocVisits, List.mem_append, List.mem_flatMap]; exact Or.inl ⟨o, hom, hm⟩)
  simp only [docVisits, specDocVisits, List.mem_append, List.mem_flatMap]
  constructor
  · rintro ⟨v, (⟨f, hf', hv⟩ | ⟨o, ho', hv⟩), hp⟩
    · obtain ⟨w, hw, hq⟩ := (hf f hf').mp ⟨v, hv, hp⟩
      exact ⟨w, Or.inr ⟨f, hf', hw⟩, hq⟩
    · obtain ⟨w, hw, hq⟩ := (ho o ho').mp ⟨v, hv, hp⟩
      exact ⟨w, Or.inl ⟨o, ho', hw⟩, hq⟩
  · rintro ⟨w, (⟨o, ho', hw⟩ | ⟨f, hf', hw⟩), hq⟩
    · obtain ⟨v, hv, hp⟩ := (ho o ho').mpr ⟨w, hw, hq⟩
      exact ⟨v, Or.inr ⟨o, ho', hv⟩, hp⟩
    · obtain ⟨v, hv, hp⟩ := (hf f hf').mpr ⟨w, hw, hq⟩
      exact ⟨v, Or.inl ⟨f, hf', hv⟩, hp⟩

/-- `is_valid_input_value` and §5.6.1 agree on every literal argument of the document -/
def ArgLiteralsAgree (S : VSchema) (d : Doc) : Prop := ∀ s ∈ argSites S d, SiteAgree S s

/-- ArgumentsOfCorrectType = the argument half of §5.6 Values Of Correct Type, for documents whose
    arguments are literals without variables -/
theorem rule_arguments_of_correct_type (S : VSchema) (d : Doc) (vars opName) (hT : TypedSchema S) (hs : Served S d)
    (hr : RootsExist S d) (hV : DocVarFree d) (hA : ArgLiteralsAgree S d) :
    Kind.argInvalid ∈ ruleArgsCorrect S {} vars opName none false (events S {} d) ↔
      (argSites S d).any (siteBadValue S) = true := by
  have hAsel : ∀ w ∈ specDocVisits S d, ∀ x ∈ selSites S w, SiteAgree S x := by
    intro w hw x hx
    apply hA
    rw [argSites_eq]
    simp only [List.mem_append, List.mem_flatMap]
    exact Or.inl (Or.inl ⟨w, hw, hx⟩)
  have hAop : ∀ o ∈ d.ops, ∀ x ∈ dirSites S o.dirs, SiteAgree S x := by
    intro o ho x hx
    apply hA; rw [argSites_eq]; simp only [List.mem_append, List.mem_flatMap]
    exact Or.inl (Or.inr ⟨o, ho, hx⟩)
  have hAfr : ∀ f ∈ d.frags, ∀ x ∈ dirSites S f.dirs, SiteAgree S x := by
    intro f hf x hx
    apply hA; rw [argSites_eq]; simp only [List.mem_append, List.mem_flatMap]
    exact Or.inr ⟨f, hf, hx⟩
  have hspec : (argSites S d).any (siteBadValue S) = true ↔
      (∃ w ∈ specDocVisits S d, (selSites S w).any (siteBadValue S) = true)
        ∨ (∃ o ∈ d.ops, (dirSites S o.dirs).any (siteBadValue S) = true)
        ∨ (∃ f ∈ d.frags, (dirSites S f.dirs).any (siteBadValue S) = true) := by
    simp only [argSites_eq, List.any_append, List.any_flatMap, Bool.or_eq_true, List.any_eq_true, or_assoc]
  rw [hspec, ← typed_exists_mem S d hT hs hr (fun v => Kind.argInvalid ∈ nodeAC S v.1 v.2)
    (fun w => (selSites S w).any (siteBadValue S) = true)
    (fun st parent s h hm => ac_agree S hT st parent s h (hAsel _ hm))]
  rw [ruleArgsCorrect_events S d vars opName hs hV, mem_folded (S := S) (d := d) (nodeAC S) (fun f => dirsAC S f.dirs) (opAC S)]
  have hop : ∀ o ∈ d.ops, opAC S o = dirsAC S o.dirs := by
    intro o ho
    have := hs o ho
    unfold opAC; cases hroot : rootOf S o.ty <;> simp_all
  constructor
  · rintro (⟨f, hf, h⟩ | ⟨o, ho, h⟩ | ⟨v, hv, h⟩)
    · exact Or.inr (Or.inr ⟨f, hf, (dirsAC_iff S f.dirs (hAfr f hf)).mp h⟩)
    · exact Or.inr (Or.inl ⟨o, ho, (dirsAC_iff S o.dirs (hAop o ho)).mp (hop o ho ▸ h)⟩)
    · exact Or.inl ⟨v, hv, h⟩
  · rintro (⟨v, hv, h⟩ | ⟨o, ho, h⟩ | ⟨f, hf, h⟩)
    · exact Or.inr (Or.inr ⟨v, hv, h⟩)
    · exact Or.inr (Or.inl ⟨o, ho, hop o ho ▸ (dirsAC_iff S o.dirs (hAop o ho)).mpr h⟩)
    · exact Or.inl ⟨f, hf, (dirsAC_iff S f.dirs (hAfr f hf)).mpr h⟩


/-- `SiteAgree` as a check -/
def siteAgreeB (S : VSchema) (s : Option (List ArgDef) × List (String × DValue)) : Bool :=
  s.2.all (fun a => match s.1.bind (fun ds => ds.find? (·.name = a.1)) with
    | some ad => validInput S {} Model.Validate.valueFuel ad.ty (constOf a.2) == litOk S Spec.Validate.valueFuel ad.ty a.2
    | none => true)

theorem siteAgreeB_iff (S : VSchema) (s : Option (List ArgDef) × List (String × DValue)) :
    siteAgreeB S s = true ↔ SiteAgree S s := by
  simp only [siteAgreeB, SiteAgree, List.all_eq_true]
  constructor
  · intro h a ha ad had
    have := h a ha
    simp only [had, beq_iff_eq] at this
    exact this
  · intro h a ha
    cases had : s.1.bind (fun ds => ds.find? (·.name = a.1)) with
    | none => rfl
    | some ad => simp only [beq_iff_eq]; exact h a ha ad had

instance (S : VSchema) (s : Option (List ArgDef) × List (String × DValue)) : Decidable (SiteAgree S s) :=
  decidable_of_iff _ (siteAgreeB_iff S s)
instance (S : VSchema) (d : Doc) : Decidable (ArgLiteralsAgree S d) := by unfold ArgLiteralsAgree; infer_instance

end AGV.Lemmas.ValidateRules
