import Scr.O1
namespace AGV.Lemmas.ValidateOverlap
open AGV.Core AGV.Model.Validate
open AGV.Spec.Validate (dvEq argsEqual FInfo fieldsInSet setCanMerge)

/-- what makes `add_output` report: same `on_type` and response key, and a different field name,
    a different number of arguments, or an argument of the first without an equal partner -/
def Conf (a b : OutField) : Prop :=
  a.cond = b.cond ∧ a.key = b.key ∧
    (a.name ≠ b.name ∨ a.args.length ≠ b.args.length
      ∨ a.args.any (fun x => match b.args.find? (·.1 = x.1) with | some y => !(dvEq x.2 y.2) | none => true) = true)

theorem addOne_inv (st : FCState) (o : OutField) (seenF : List OutField)
    (h1 : ∀ x ∈ st.outputs, x ∈ seenF) (h2 : st.errs ≠ [] → ∃ a ∈ seenF, ∃ b ∈ seenF, Conf a b) :
    (∀ x ∈ (addOne st o).outputs, x ∈ seenF ++ [o])
    ∧ ((addOne st o).errs ≠ [] → ∃ a ∈ seenF ++ [o], ∃ b ∈ seenF ++ [o], Conf a b) := by
  unfold addOne addOutput
  cases hf : st.outputs.find? (fun p => p.cond == o.cond && p.key == o.key) with
  | none =>
    simp only []
    refine ⟨?_, ?_⟩
    · intro x hx
      rcases List.mem_append.mp hx with hx | hx
      · exact List.mem_append_left _ (h1 x hx)
      · exact List.mem_append_right _ hx
    · intro he
      obtain ⟨a, ha, b, hb, hc⟩ := h2 he
      exact ⟨a, List.mem_append_left _ ha, b, List.mem_append_left _ hb, hc⟩
  | some prev =>
    simp only []
    have hprev : prev ∈ seenF := h1 prev (List.mem_of_find?_eq_some hf)
    have hkey : prev.cond = o.cond ∧ prev.key = o.key := by
      have := List.find?_some hf
      simpa using this
    refine ⟨fun x hx => List.mem_append_left _ (h1 x hx), ?_⟩
    intro he
    by_cases hold : st.errs = []
    · refine ⟨prev, List.mem_append_left _ hprev, o, List.mem_append_right _ (by simp), hkey.1, hkey.2, ?_⟩
      simp only [hold, List.nil_append] at he
      by_cases hn : prev.name = o.name
      · by_cases hl : prev.args.length = o.args.length
        · right; right
          simp only [hn, hl, bne_self_eq_false, Bool.false_eq_true, if_false, List.nil_append] at he
          split at he
          · assumption
          · exact absurd rfl he
        · exact Or.inr (Or.inl hl)
      · exact Or.inl hn
    · obtain ⟨a, ha, b, hb, hc⟩ := h2 hold
      exact ⟨a, List.mem_append_left _ ha, b, List.mem_append_left _ hb, hc⟩

theorem addAll_inv (fs : List OutField) (st : FCState) (seenF : List OutField)
    (h1 : ∀ x ∈ st.outputs, x ∈ seenF) (h2 : st.errs ≠ [] → ∃ a ∈ seenF, ∃ b ∈ seenF, Conf a b) :
    (addAll st fs).errs ≠ [] → ∃ a ∈ seenF ++ fs, ∃ b ∈ seenF ++ fs, Conf a b := by
  induction fs generalizing st seenF with
  | nil => simpa [addAll] using h2
  | cons o fs ih =>
    have := addOne_inv st o seenF h1 h2
    have h := ih (addOne st o) (seenF ++ [o]) this.1 this.2
    simpa [addAll, List.append_assoc] using h

/-- a report of the implemented rule on a selection set comes from two collected fields in conflict -/
theorem errs_conf (d : Doc) (fuel : Nat) (ss : List Sel) (k : Model.Validate.Kind)
    (hk : k ∈ (findConflicts d fuel none ss {}).errs) :
    ∃ a ∈ (flatM d fuel none ss []).1, ∃ b ∈ (flatM d fuel none ss []).1, Conf a b := by
  rw [findConflicts_eq] at hk
  have hne : (addAll {} (flatM d fuel none ss []).1).errs ≠ [] := by
    intro h; simp only [] at hk; rw [h] at hk; cases hk
  have := addAll_inv (flatM d fuel none ss []).1 {} [] (by intro x hx; cases hx) (by intro h; exact absurd rfl h) hne
  simpa using this

end AGV.Lemmas.ValidateOverlap
