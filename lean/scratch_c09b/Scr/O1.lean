import AGV.Lemmas.ValidateValues
namespace AGV.Lemmas.ValidateOverlap
open AGV.Core AGV.Model.Validate

/-- the fields `FindConflicts::find` meets, in order, with the `on_type` it files them under; the
    second component is the `visited` set afterwards -/
def flatM (d : Doc) : Nat → Option String → List Sel → List String → List OutField × List String
  | 0, _, _, seen => ([], seen)
  | fuel + 1, cond, sels, seen =>
    sels.foldl (fun acc s =>
      match s with
      | .field al n args _ _ _ => (acc.1 ++ [{ cond, key := al.getD n, name := n, args }], acc.2)
      | .inline c _ ss _ => (acc.1 ++ (flatM d fuel c ss acc.2).1, (flatM d fuel c ss acc.2).2)
      | .spread n _ _ =>
        match d.frag? n with
        | some f =>
          if acc.2.contains n then acc
          else (acc.1 ++ (flatM d fuel (some f.cond) f.sels (n :: acc.2)).1, (flatM d fuel (some f.cond) f.sels (n :: acc.2)).2)
        | none => acc) ([], seen)

def addOne (st : FCState) (o : OutField) : FCState := addOutput st o.cond o.key o.name o.args
def addAll (st : FCState) (fs : List OutField) : FCState := fs.foldl addOne st

theorem addOutput_visited (st : FCState) (v : List String) (c k n a) :
    addOutput { st with visited := v } c k n a = { addOutput st c k n a with visited := v } := by
  unfold addOutput
  simp only []
  split <;> rfl

theorem addAll_visited (st : FCState) (v : List String) (fs : List OutField) :
    addAll { st with visited := v } fs = { addAll st fs with visited := v } := by
  induction fs generalizing st with
  | nil => rfl
  | cons o fs ih =>
    simp only [addAll, List.foldl_cons, addOne] at ih ⊢
    rw [addOutput_visited, ih]

theorem addOutput_visited_eq (st : FCState) (c k n a) : (addOutput st c k n a).visited = st.visited := by
  unfold addOutput; split <;> rfl

theorem addAll_visited_eq (st : FCState) (fs : List OutField) : (addAll st fs).visited = st.visited := by
  induction fs generalizing st with
  | nil => rfl
  | cons o fs ih => simp only [addAll, List.foldl_cons, addOne] at ih ⊢; rw [ih, addOutput_visited_eq]

theorem addAll_append (st : FCState) (a b : List OutField) : addAll st (a ++ b) = addAll (addAll st a) b := by
  simp [addAll, List.foldl_append]

/-- the state after the fields `acc.1` were filed and `acc.2` fragments visited -/
def after (st0 : FCState) (acc : List OutField × List String) : FCState := { addAll st0 acc.1 with visited := acc.2 }

theorem after_visited (st0 acc) : (after st0 acc).visited = acc.2 := rfl

/-- `FindConflicts::find` files the fields of `flatM` one after the other -/
theorem findConflicts_eq (d : Doc) (fuel : Nat) (cond : Option String) (sels : List Sel) (st : FCState) :
    findConflicts d fuel cond sels st =
      { addAll st (flatM d fuel cond sels st.visited).1 with visited := (flatM d fuel cond sels st.visited).2 } := by
  induction fuel generalizing cond sels st with
  | zero => simp [findConflicts, flatM, addAll]
  | succ fuel ih =>
    rw [findConflicts, flatM]
    -- generalise the accumulators
    suffices h : ∀ (st' : FCState) (acc : List OutField × List String), st' = after st acc →
        sels.foldl (fun st s =>
          match s with
          | .field al n args _ _ _ => addOutput st cond (al.getD n) n args
          | .inline c _ ss _ => findConflicts d fuel c ss st
          | .spread n _ _ =>
            match d.frag? n with
            | some f =>
              if st.visited.contains n then st
              else findConflicts d fuel (some f.cond) f.sels { st with visited := n :: st.visited }
            | none => st) st' =
        after st (sels.foldl (fun acc s =>
          match s with
          | .field al n args _ _ _ => (acc.1 ++ [{ cond, key := al.getD n, name := n, args }], acc.2)
          | .inline c _ ss _ => (acc.1 ++ (flatM d fuel c ss acc.2).1, (flatM d fuel c ss acc.2).2)
          | .spread n _ _ =>
            match d.frag? n with
            | some f =>
              if acc.2.contains n then acc
              else (acc.1 ++ (flatM d fuel (some f.cond) f.sels (n :: acc.2)).1, (flatM d fuel (some f.cond) f.sels (n :: acc.2)).2)
            | none => acc) acc) by
      exact h st ([], st.visited) (by simp [after, addAll])
    induction sels with
    | nil => intro st' acc h; simpa using h
    | cons s sels ihs =>
      intro st' acc h
      simp only [List.foldl_cons]
      apply ihs
      subst h
      cases s with
      | field al n args ds ss p =>
        simp only [after, addAll_append]
        simp only [addAll, List.foldl_cons, List.foldl_nil, addOne]
        rw [addOutput_visited]
      | inline c ds ss p =>
        simp only []
        rw [ih]
        simp only [after, addAll_append, addAll_visited]
      | spread n ds p =>
        simp only []
        cases hf : d.frag? n with
        | none => rfl
        | some f =>
          simp only [after_visited]
          by_cases hc : n ∈ acc.2
          · simp [hc]
          · simp only [List.contains_eq_mem, hc, decide_false, Bool.false_eq_true, if_false]
            rw [ih]
            simp only [after, addAll_append, addAll_visited]

end AGV.Lemmas.ValidateOverlap
