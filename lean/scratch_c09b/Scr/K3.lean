import Scr.K2
namespace AGV.Lemmas.ValidateRules
open AGV.Core AGV.Model.Validate AGV.Lemmas.ValidateWalk AGV.Lemmas.ValidateMachine AGV.Lemmas.ValidateSpecNodes
open AGV.Spec.Validate (tyDef fieldType violates_ArgumentNames argSites)

/-- §5.4.1 at one argument site -/
def siteUnknown (s : Option (List ArgDef) × List (String × DValue)) : Bool :=
  match s.1 with
  | some defs => s.2.any (fun a => !(defs.any (·.name = a.1)))
  | none => false

theorem argumentNames_eq (S : VSchema) (d : Doc) : violates_ArgumentNames S d = (argSites S d).any siteUnknown := by
  unfold violates_ArgumentNames
  congr 1

/-- some argument is reported -/
def hasKA (l : List Model.Validate.Kind) : Prop := Kind.unknownArgField ∈ l ∨ Kind.unknownArgDir ∈ l

theorem hasKA_append (a b) : hasKA (a ++ b) ↔ hasKA a ∨ hasKA b := by
  simp only [hasKA, List.mem_append]; constructor <;> (intro h; rcases h with (h|h)|(h|h) <;> simp [h])

theorem hasKA_judgeArgs (defs : Option (List ArgDef)) (b : Bool) (args : List (String × DValue)) :
    hasKA (judgeArgs (defs.map (fun a => (a, b))) args) ↔ siteUnknown (defs, args) = true := by
  cases defs with
  | none => simp [hasKA, judgeArgs, judgeArg, siteUnknown]
  | some ds =>
    simp only [hasKA, judgeArgs, judgeArg, siteUnknown, Option.map_some, List.mem_flatMap, List.any_eq_true,
      Bool.not_eq_true']
    constructor
    · rintro (⟨a, ha, h⟩ | ⟨a, ha, h⟩)
      · split at h
        · cases h
        · rename_i hne; exact ⟨a, ha, by simpa using hne⟩
      · split at h
        · cases h
        · rename_i hne; exact ⟨a, ha, by simpa using hne⟩
    · rintro ⟨a, ha, h⟩
      have hne : ¬ ∃ x, x ∈ ds ∧ decide (x.name = a.1) = true := by simpa using h
      cases b
      · left; exact ⟨a, ha, by rw [if_neg hne]; simp⟩
      · right; exact ⟨a, ha, by rw [if_neg hne]; simp⟩

theorem hasKA_dirsKA (S : VSchema) (ds : List Dir) : hasKA (dirsKA S ds) ↔ (dirSites S ds).any siteUnknown = true := by
  induction ds with
  | nil => simp [hasKA, dirsKA, dirSites]
  | cons dr ds ih =>
    have h1 : dirsKA S (dr :: ds) = judgeArgs (((S.dir? dr.name).map (·.args)).map (fun a => (a, true))) dr.args ++ dirsKA S ds := by
      simp [dirsKA, Option.map_map, Function.comp_def]
    rw [h1, hasKA_append, hasKA_judgeArgs, ih]
    simp [dirSites, VSchema.dir?]

/-- `__typename` carries no arguments -/
def typenameNoArgs : Sel → Prop
  | .field _ n args _ _ _ => n = "__typename" → args = []
  | _ => True

theorem ka_agree (S : VSchema) (hT : TypedSchema S) (st : Stack) (parent : Option String) (s : Sel)
    (h : TyRel (Stack.cur st) parent) (hn : typenameNoArgs s) :
    hasKA (nodeKA S st s) ↔ (selSites S (parent, s)).any siteUnknown = true := by
  cases s with
  | spread n ds p => simp [nodeKA, selSites, hasKA_dirsKA]
  | inline c ds ss p => simp [nodeKA, selSites, hasKA_dirsKA]
  | field al n args ds ss p =>
    simp only [nodeKA, selSites, List.any_cons, Bool.or_eq_true, hasKA_append, hasKA_dirsKA, hasKA_judgeArgs]
    apply or_congr_left
    simp only [fieldDefs]
    by_cases hn' : n = "__typename"
    · have ha := hn hn'
      subst ha
      simp only [siteUnknown, List.any_nil]
      cases (Option.map (fun x => x.2) (parent.bind fun p => fieldType S p n)) <;>
        cases (Option.map (fun x => x.args) ((Stack.cur st).bind fun t => S.field? t n)) <;> simp
    · rcases h with h | ⟨h1, h2⟩
      · rw [h]
        cases parent with
        | none => simp
        | some p =>
          simp only [Option.bind_some, ← field?_eq_fieldType S p n hn']
          cases S.field? p n <;> simp
      · rw [h1, h2]
        simp [hT.stringNoFields n]

/-- every visited field that carries arguments is a field of the walker's current type -/
def ArgsOnKnownFields (S : VSchema) (d : Doc) : Prop := ∀ v ∈ docVisits S d, ArgsKnown S v.1 v.2

/-- KnownArgumentNames = §5.4.1 Argument Names, where `current_args` cannot go stale
    (`ArgsOnKnownFields`) and `__typename` carries no arguments -/
theorem rule_known_argument_names (S : VSchema) (d : Doc) (hT : TypedSchema S) (hs : Served S d) (hr : RootsExist S d)
    (hG : ArgsOnKnownFields S d) (hTn : ∀ s ∈ allSels d, typenameNoArgs s) :
    hasKA (ruleKnownArgs S none (events S {} d)) ↔ violates_ArgumentNames S d = true := by
  have hspec : violates_ArgumentNames S d = true ↔
      (∃ w ∈ specDocVisits S d, typenameNoArgs w.2 ∧ (selSites S w).any siteUnknown = true)
        ∨ (∃ o ∈ d.ops, (dirSites S o.dirs).any siteUnknown = true)
        ∨ (∃ f ∈ d.frags, (dirSites S f.dirs).any siteUnknown = true) := by
    simp only [argumentNames_eq, argSites_eq, List.any_append, List.any_flatMap, Bool.or_eq_true, List.any_eq_true, or_assoc]
    apply or_congr_left
    constructor
    · rintro ⟨w, hw, h⟩
      refine ⟨w, hw, hTn w.2 ?_, h⟩
      rw [← specDocVisits_snd]; exact List.mem_map_of_mem hw
    · rintro ⟨w, hw, _, h⟩; exact ⟨w, hw, h⟩
  rw [hspec, ← typed_exists S d hT hs hr (fun v => typenameNoArgs v.2 ∧ hasKA (nodeKA S v.1 v.2))
    (fun w => typenameNoArgs w.2 ∧ (selSites S w).any siteUnknown = true)
    (fun st parent s h => and_congr_right (fun hn => ka_agree S hT st parent s h hn))]
  rw [ruleKnownArgs_events S d hG]
  have hmem : ∀ k, k ∈ (d.frags.flatMap (fun f => dirsKA S f.dirs ++ (visitsSels S (fragSt S f) f.sels).flatMap (fun v => nodeKA S v.1 v.2))
      ++ d.ops.flatMap (fun o => opKA S o ++ (opVisits S o).flatMap (fun v => nodeKA S v.1 v.2))) ↔ _ :=
    fun k => mem_folded (S := S) (d := d) (nodeKA S) (fun f => dirsKA S f.dirs) (opKA S) k
  have hop : ∀ o ∈ d.ops, opKA S o = dirsKA S o.dirs := by
    intro o ho
    have := hs o ho
    unfold opKA; cases hroot : rootOf S o.ty <;> simp_all
  have hvis : ∀ v ∈ docVisits S d, typenameNoArgs v.2 := by
    intro v hv
    apply hTn
    rw [← docSels_served S d hs, ← docVisits_snd]
    exact List.mem_map_of_mem hv
  unfold hasKA
  rw [hmem, hmem]
  constructor
  · rintro ((⟨f, hf, h⟩ | ⟨o, ho, h⟩ | ⟨v, hv, h⟩) | (⟨f, hf, h⟩ | ⟨o, ho, h⟩ | ⟨v, hv, h⟩))
    · exact Or.inr (Or.inr ⟨f, hf, (hasKA_dirsKA S f.dirs).mp (Or.inl h)⟩)
    · exact Or.inr (Or.inl ⟨o, ho, (hasKA_dirsKA S o.dirs).mp (Or.inl (hop o ho ▸ h))⟩)
    · exact Or.inl ⟨v, hv, hvis v hv, Or.inl h⟩
    · exact Or.inr (Or.inr ⟨f, hf, (hasKA_dirsKA S f.dirs).mp (Or.inr h)⟩)
    · exact Or.inr (Or.inl ⟨o, ho, (hasKA_dirsKA S o.dirs).mp (Or.inr (hop o ho ▸ h))⟩)
    · exact Or.inl ⟨v, hv, hvis v hv, Or.inr h⟩
  · rintro (⟨v, hv, _, h | h⟩ | ⟨o, ho, h⟩ | ⟨f, hf, h⟩)
    · exact Or.inl (Or.inr (Or.inr ⟨v, hv, h⟩))
    · exact Or.inr (Or.inr (Or.inr ⟨v, hv, h⟩))
    · rcases (hasKA_dirsKA S o.dirs).mpr h with h | h
      · exact Or.inl (Or.inr (Or.inl ⟨o, ho, hop o ho ▸ h⟩))
      · exact Or.inr (Or.inr (Or.inl ⟨o, ho, hop o ho ▸ h⟩))
    · rcases (hasKA_dirsKA S f.dirs).mpr h with h | h
      · exact Or.inl (Or.inl ⟨f, hf, h⟩)
      · exact Or.inr (Or.inl ⟨f, hf, h⟩)


instance : DecidablePred typenameNoArgs := fun s => by
  cases s <;> (unfold typenameNoArgs; infer_instance)
instance (S : VSchema) (st : Stack) : DecidablePred (ArgsKnown S st) := fun s => by
  cases s <;> (unfold ArgsKnown; infer_instance)
instance (S : VSchema) (d : Doc) : Decidable (ArgsOnKnownFields S d) := by unfold ArgsOnKnownFields; infer_instance

end AGV.Lemmas.ValidateRules
