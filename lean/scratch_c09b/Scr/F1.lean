import AGV.Lemmas.ValidateValues
namespace AGV.Lemmas.ValidateRules
open AGV.Core AGV.Spec.Validate

section viol
variable (P : Params) (S : VSchema) (d : Doc) (vars : List (String × GValue)) (o : Option String)

theorem v_opNames (h : violates_OperationNameUniqueness d = true) : "5.2.1.1 Operation Name Uniqueness" ∈ violations P S d vars o :=
  (mem_violations ..).mpr (Or.inl ⟨rfl, h⟩)
theorem v_loneAnonymous (h : violates_LoneAnonymousOperation d = true) : "5.2.2.1 Lone Anonymous Operation" ∈ violations P S d vars o :=
  (mem_violations ..).mpr (Or.inr (Or.inl ⟨rfl, h⟩))
theorem v_singleRoot (h : violates_SingleRootField d (closureFuel d) = true) : "5.2.3.1 Single Root Field" ∈ violations P S d vars o :=
  (mem_violations ..).mpr (Or.inr (Or.inr (Or.inl ⟨rfl, h⟩)))
theorem v_merging (h : violates_FieldSelectionMerging S d = true) : "5.3.2 Field Selection Merging" ∈ violations P S d vars o :=
  (mem_violations ..).mpr (Or.inr (Or.inr (Or.inr (Or.inr (Or.inl ⟨rfl, h⟩)))))
theorem v_argNames (h : violates_ArgumentNames S d = true) : "5.4.1 Argument Names" ∈ violations P S d vars o :=
  (mem_violations ..).mpr (Or.inr (Or.inr (Or.inr (Or.inr (Or.inr (Or.inr (Or.inl ⟨rfl, h⟩)))))))
theorem v_fragNames (h : violates_FragmentNameUniqueness d = true) : "5.5.1.1 Fragment Name Uniqueness" ∈ violations P S d vars o :=
  (mem_violations ..).mpr (Or.inr (Or.inr (Or.inr (Or.inr (Or.inr (Or.inr (Or.inr (Or.inr (Or.inr (Or.inl ⟨rfl, h⟩))))))))))
theorem v_fragsUsed (h : violates_FragmentsMustBeUsed d = true) : "5.5.1.4 Fragments Must Be Used" ∈ violations P S d vars o :=
  (mem_violations ..).mpr (Or.inr (Or.inr (Or.inr (Or.inr (Or.inr (Or.inr (Or.inr (Or.inr (Or.inr (Or.inr (Or.inr (Or.inr (Or.inl ⟨rfl, h⟩)))))))))))))
theorem v_cycles (h : violates_FragmentSpreadsMustNotFormCycles d = true) :
    "5.5.2.2 Fragment Spreads Must Not Form Cycles" ∈ violations P S d vars o :=
  (mem_violations ..).mpr (Or.inr (Or.inr (Or.inr (Or.inr (Or.inr (Or.inr (Or.inr (Or.inr (Or.inr (Or.inr (Or.inr (Or.inr (Or.inr (Or.inr (Or.inl ⟨rfl, h⟩)))))))))))))))
theorem v_values (h : violates_ValuesOfCorrectType S d = true) : "5.6 Values Of Correct Type" ∈ violations P S d vars o :=
  (mem_violations ..).mpr (Or.inr (Or.inr (Or.inr (Or.inr (Or.inr (Or.inr (Or.inr (Or.inr (Or.inr (Or.inr (Or.inr (Or.inr (Or.inr (Or.inr (Or.inr (Or.inr (Or.inl ⟨rfl, h⟩)))))))))))))))))
theorem v_varsInput (h : violates_VariablesAreInputTypes S d = true) : "5.8.2 Variables Are Input Types" ∈ violations P S d vars o :=
  (mem_violations ..).mpr (Or.inr (Or.inr (Or.inr (Or.inr (Or.inr (Or.inr (Or.inr (Or.inr (Or.inr (Or.inr (Or.inr (Or.inr (Or.inr (Or.inr (Or.inr (Or.inr (Or.inr (Or.inr (Or.inr (Or.inr (Or.inr (Or.inl ⟨rfl, h⟩))))))))))))))))))))))
theorem v_usesDefined (h : violates_AllVariableUsesDefined d = true) : "5.8.3 All Variable Uses Defined" ∈ violations P S d vars o :=
  (mem_violations ..).mpr (Or.inr (Or.inr (Or.inr (Or.inr (Or.inr (Or.inr (Or.inr (Or.inr (Or.inr (Or.inr (Or.inr (Or.inr (Or.inr (Or.inr (Or.inr (Or.inr (Or.inr (Or.inr (Or.inr (Or.inr (Or.inr (Or.inr (Or.inl ⟨rfl, h⟩)))))))))))))))))))))))
theorem v_varsUsed (h : violates_AllVariablesUsed d = true) : "5.8.4 All Variables Used" ∈ violations P S d vars o :=
  (mem_violations ..).mpr (Or.inr (Or.inr (Or.inr (Or.inr (Or.inr (Or.inr (Or.inr (Or.inr (Or.inr (Or.inr (Or.inr (Or.inr (Or.inr (Or.inr (Or.inr (Or.inr (Or.inr (Or.inr (Or.inr (Or.inr (Or.inr (Or.inr (Or.inr (Or.inl ⟨rfl, h⟩))))))))))))))))))))))))
theorem v_usagesAllowed (h : violates_AllVariableUsagesAllowed S d = true) :
    "5.8.5 All Variable Usages Are Allowed" ∈ violations P S d vars o :=
  (mem_violations ..).mpr (Or.inr (Or.inr (Or.inr (Or.inr (Or.inr (Or.inr (Or.inr (Or.inr (Or.inr (Or.inr (Or.inr (Or.inr (Or.inr (Or.inr (Or.inr (Or.inr (Or.inr (Or.inr (Or.inr (Or.inr (Or.inr (Or.inr (Or.inr (Or.inr (Or.inl ⟨rfl, h⟩)))))))))))))))))))))))))
theorem v_varValues (h : violates_VariableValues S d vars o = true) : "6.1.2 Coercing Variable Values" ∈ violations P S d vars o :=
  (mem_violations ..).mpr (Or.inr (Or.inr (Or.inr (Or.inr (Or.inr (Or.inr (Or.inr (Or.inr (Or.inr (Or.inr (Or.inr (Or.inr (Or.inr (Or.inr (Or.inr (Or.inr (Or.inr (Or.inr (Or.inr (Or.inr (Or.inr (Or.inr (Or.inr (Or.inr (Or.inr (Or.inr (Or.inl ⟨rfl, h⟩)))))))))))))))))))))))))))
theorem v_notServed (h : violates_OperationTypeExists S d = true) : "operation type not served" ∈ violations P S d vars o :=
  (mem_violations ..).mpr (Or.inr (Or.inr (Or.inr (Or.inr (Or.inr (Or.inr (Or.inr (Or.inr (Or.inr (Or.inr (Or.inr (Or.inr (Or.inr (Or.inr (Or.inr (Or.inr (Or.inr (Or.inr (Or.inr (Or.inr (Or.inr (Or.inr (Or.inr (Or.inr (Or.inr (Or.inr (Or.inr (⟨rfl, h⟩))))))))))))))))))))))))))))

end viol
end AGV.Lemmas.ValidateRules
