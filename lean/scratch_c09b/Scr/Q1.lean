import AGV.Props.C09
import AGV.Lemmas.ValidateLiterals
namespace AGV.Props.C09
open AGV.Core AGV.Model.Validate

section literals
open AGV.Lemmas.ValidateRules AGV.Lemmas.ValidateWalk AGV.Lemmas.ValidateGraph AGV.Lemmas.ValidateSpecNodes
open AGV.Lemmas.ValidateLiterals AGV.Lemmas.ValidateOverlap
open AGV.Spec.Validate
variable (S : VSchema) (d : Doc)

/-- `is_valid_input_value` with the value toggles off = §5.6.1 Values Of Correct Type, for every type
    and every constant whose object literals do not repeat a key (`LitSchema`: the five built-in
    scalar names are scalars, input-object types have their definition with unique field names) -/
theorem c09_rule_is_valid_input_value (hL : LitSchema S) (fuel : Nat) (t : TypeRef) (c : GValue) (hk : keysOk c = true) :
    validInput S {} fuel t c = litOk S fuel t (litOf c) :=
  valid_eq_lit S hL fuel t c hk

/-- the two agreement hypotheses of `C09WF` from registry conditions and unique keys -/
theorem c09_literals_agree (hL : LitSchema S) (hV : DocVarFree d) (hA : ArgKeysOk S d) (hD : DefaultKeysOk d) :
    ArgLiteralsAgree S d ∧ DefaultsAgree S d :=
  ⟨argLiteralsAgree_of S d hL hA (argSites_varFree S d hV), defaultsAgree_of S d hL hD⟩

/-- `C09WF` from conditions on the registry and on the syntax of the document only -/
theorem c09_wf_of_schema (hW : SchemaWF S) (hAb : AbstractInhabited S) (hL : LitSchema S)
    (hD : docOK d = true) (hT : ∀ s ∈ allSels d, typenameNoArgs s) (hN : NoNullDefault d) (hK : ArgsOnKnownFields S d)
    (hV : DocVarFree d) (hAk : ArgKeysOk S d) (hDk : DefaultKeysOk d) (hI : DocTypedInlines d) : C09WF S d where
  schema := hW
  abstract := hAb
  typenameSels := hD
  typenameArgs := hT
  nullDefaults := hN
  argsKnown := hK
  varFree := hV
  literals := (c09_literals_agree S d hL hV hAk hDk).1
  defaults := (c09_literals_agree S d hL hV hAk hDk).2
  typedInlines := hI

/-- the witness schema with the fifth built-in scalar -/
def S0F : VSchema := { S0 with base := { S0.base with types := S0.base.types ++ [ty "Float" .scalar] } }

/-- the registry conditions hold of it, and the key conditions of the two example documents -/
example : LitSchema S0F ∧ ArgKeysOk S0F dWF ∧ DefaultKeysOk dWF ∧ ArgKeysOk S0F dWFbad ∧ DefaultKeysOk dWFbad :=
  ⟨litSchema_of_check S0F (by decide), by decide +kernel, by decide, by decide +kernel, by decide⟩

end literals
end AGV.Props.C09
