import Scr.G5
namespace AGV.Lemmas.ValidateGraph
open AGV.Core AGV.Model.Validate AGV.Lemmas.ValidateWalk AGV.Lemmas.ValidateMachine AGV.Lemmas.ValidateRules
open AGV.Spec.Validate (usedFrags opVars dirVars selVars selsVars varsIn varsInL varsInF
  violates_AllVariableUsesDefined violates_AllVariablesUsed)

mutual
theorem refVars_eq : (v : DValue) → refVars v = varsIn v
  | .var n => by simp [refVars, varsIn]
  | .null => by simp [refVars, varsIn]
  | .int _ => by simp [refVars, varsIn]
  | .float _ => by simp [refVars, varsIn]
  | .str _ => by simp [refVars, varsIn]
  | .bool _ => by simp [refVars, varsIn]
  | .enum _ => by simp [refVars, varsIn]
  | .list xs => by simp [refVars, varsIn, refVarsList_eq xs]
  | .obj fs => by simp [refVars, varsIn, refVarsFields_eq fs]
theorem refVarsList_eq : (xs : List DValue) → refVarsList xs = varsInL xs
  | [] => by simp [refVarsList, varsInL]
  | x :: xs => by simp [refVarsList, varsInL, refVars_eq x, refVarsList_eq xs]
theorem refVarsFields_eq : (fs : List (String × DValue)) → refVarsFields fs = varsInF fs
  | [] => by simp [refVarsFields, varsInF]
  | (_, x) :: fs => by simp [refVarsFields, varsInF, refVars_eq x, refVarsFields_eq fs]
end

-- ------------------------------------------------------------------ recorded variable references

def argVars (args : List (String × DValue)) : List String := args.flatMap (fun a => varsIn a.2)

theorem used_walkArgs (S : VSchema) (st defs args) : (walkArgs S {} st defs args).flatMap evUsed = argVars args := by
  induction args with
  | nil => rfl
  | cons a as ih =>
    rw [walkArgs_cons]
    simp [List.flatMap_cons, ih, evUsed, Model.Validate.mk, argVars, refVars_eq]

theorem used_walkDirs (S : VSchema) (st ds) : (walkDirs S {} st ds).flatMap evUsed = dirVars ds := by
  induction ds with
  | nil => rfl
  | cons dr ds ih =>
    rw [walkDirs_cons]
    simp only [List.flatMap_cons, List.flatMap_append, used_walkArgs, ih, evUsed, Model.Validate.mk, dirVars, argVars]
    simp

theorem used_walkSet (S : VSchema) (st ss) : (walkSet S {} st ss).flatMap evUsed = (walkSels S {} st ss).flatMap evUsed := by
  rw [walkSet_eq]; cases ss <;> simp [enterSetEv, exitSetEv, List.flatMap_append, evUsed, Model.Validate.mk]

mutual
theorem used_walkSel (S : VSchema) (st : Stack) : (s : Sel) → (walkSel S {} st s).flatMap evUsed = selVars s
  | .field al n args ds ss p => by
    rw [walkSel_field]
    simp [List.flatMap_cons, List.flatMap_append, used_walkArgs, used_walkDirs, used_walkSet, used_walkSels S _ ss,
      evUsed, Model.Validate.mk, selVars, argVars]
  | .spread n ds p => by
    rw [walkSel_spread]
    simp [List.flatMap_cons, List.flatMap_append, used_walkDirs, evUsed, Model.Validate.mk, selVars]
  | .inline c ds ss p => by
    rw [walkSel_inline]
    simp [List.flatMap_cons, List.flatMap_append, used_walkDirs, used_walkSet, used_walkSels S _ ss,
      evUsed, Model.Validate.mk, selVars]
theorem used_walkSels (S : VSchema) (st : Stack) : (ss : List Sel) → (walkSels S {} st ss).flatMap evUsed = selsVars ss
  | [] => by simp [walkSels, selsVars]
  | s :: ss => by simp [walkSels, List.flatMap_append, used_walkSel S st s, used_walkSels S st ss, selsVars]
end

theorem recF_used (S : VSchema) (f : FragDef) : (recF S f).used = dirVars f.dirs ++ selsVars f.sels := by
  simp [recF, ext, fragBody, List.flatMap_append, used_walkDirs, used_walkSet, used_walkSels, evUsed, Model.Validate.mk]

theorem recO_used (S : VSchema) (o : OpDef) (hs : (rootOf S o.ty).isSome = true) :
    (recO S o).used = dirVars o.dirs ++ selsVars o.sels := by
  unfold recO opBody
  cases h : rootOf S o.ty with
  | none => simp [h] at hs
  | some r =>
    simp [ext, List.flatMap_append, used_walkDirs, used_walkSet, used_walkSels, evUsed, Model.Validate.mk,
      List.flatMap_assoc]

-- ------------------------------------------------------------------ what an operation reaches

variable (S : VSchema) (d : Doc)

/-- a path in the scope graph that starts at an operation ends at that operation or at a fragment name -/
theorem pathM_from_op (x y : Scope) (p : Path (nodeM (docTable S d)) x y) :
    y = x ∨ ∃ b, y = .frag b := by
  induction p with
  | refl => exact Or.inl rfl
  | step a b c l h hb p ih =>
    right
    rcases ih with rfl | h'
    · simp only [nodeM, Option.some.injEq] at h
      subst h
      simp only [List.mem_map] at hb
      obtain ⟨m, _, rfl⟩ := hb
      exact ⟨m, rfl⟩
    · exact h'

/-- a property of the records an operation reaches: its own record, and those of the defined
    fragments it uses -/
theorem exists_reachable (h : GraphHyp S d) (o : OpDef) (ho : o ∈ d.ops) (P : ScopeRec → Prop)
    (hP : ∀ s, ¬ P { scope := s }) :
    (∃ s ∈ reachable (docTable S d) (.op o.name), P (recOf (docTable S d) s)) ↔
      (P (recO S o) ∨ ∃ f ∈ d.frags, f.name ∈ usedFrags d o.sels ∧ P (recF S f)) := by
  have hn := h.nodup
  have hT : (scopes (docTable S d)).Nodup := by rw [scopes_docTable]; exact hn
  constructor
  · rintro ⟨s, hs, hp⟩
    rw [mem_reachable _ hT] at hs
    rcases pathM_from_op S d _ _ hs with rfl | ⟨b, rfl⟩
    · rw [recOf_op S d hn o ho] at hp; exact Or.inl hp
    · by_cases hb : ∃ f ∈ d.frags, f.name = b
      · obtain ⟨f, hf, rfl⟩ := hb
        rw [recOf_frag S d hn f hf] at hp
        refine Or.inr ⟨f, hf, ?_, hp⟩
        rw [mem_usedFrags d (scopesNodup_frags d hn) o.sels (Or.inl ⟨o, ho, rfl⟩)]
        obtain ⟨t, ht, hpth⟩ := (pathM_op_iff S d hn o ho (h.served o ho) f.name).mp hs
        exact ⟨t, ht, hpth, isSome_nodeS_frag d f hf⟩
      · rw [recOf_undefined S d b (fun f hf he => hb ⟨f, hf, he⟩)] at hp
        exact absurd hp (hP _)
  · rintro (hp | ⟨f, hf, hu, hp⟩)
    · exact ⟨.op o.name, (mem_reachable _ hT _ _).mpr (.refl _), by rw [recOf_op S d hn o ho]; exact hp⟩
    · refine ⟨.frag f.name, ?_, by rw [recOf_frag S d hn f hf]; exact hp⟩
      rw [mem_reachable _ hT, pathM_op_iff S d hn o ho (h.served o ho)]
      obtain ⟨t, ht, hpth, _⟩ := (mem_usedFrags d (scopesNodup_frags d hn) o.sels (Or.inl ⟨o, ho, rfl⟩) f.name).mp hu
      exact ⟨t, ht, hpth⟩

/-- the reference validator's variables of an operation, in the same terms -/
theorem mem_opVars (hn : FragsNodup d) (o : OpDef) (v : String) :
    v ∈ opVars d o ↔
      (v ∈ dirVars o.dirs ++ selsVars o.sels ∨ ∃ f ∈ d.frags, f.name ∈ usedFrags d o.sels ∧ v ∈ dirVars f.dirs ++ selsVars f.sels) := by
  unfold opVars
  simp only [List.mem_append, List.mem_flatMap]
  constructor
  · rintro ((h | h) | ⟨n, hnm, hv⟩)
    · exact Or.inl (Or.inl h)
    · exact Or.inl (Or.inr h)
    · split at hv
      · rename_i f hf
        have hmem := List.mem_of_find?_eq_some hf
        have hname : f.name = n := by simpa using List.find?_some hf
        exact Or.inr ⟨f, hmem, hname ▸ hnm, List.mem_append.mp hv⟩
      · cases hv
  · rintro ((h | h) | ⟨f, hf, hu, hv⟩)
    · exact Or.inl (Or.inl h)
    · exact Or.inl (Or.inr h)
    · refine Or.inr ⟨f.name, hu, ?_⟩
      rw [find_frag d hn f hf]
      exact List.mem_append.mpr hv

/-- the variables the model collects for an operation are the reference validator's -/
theorem mem_used (h : GraphHyp S d) (o : OpDef) (ho : o ∈ d.ops) (v : String) :
    v ∈ (reachable (docTable S d) (.op o.name)).flatMap (fun s => (recOf (docTable S d) s).used) ↔ v ∈ opVars d o := by
  rw [List.mem_flatMap, exists_reachable S d h o ho (fun r => v ∈ r.used) (by intro s; simp),
    mem_opVars d (scopesNodup_frags d h.nodup), recO_used S o (h.served o ho)]
  simp only [recF_used]

/-- NoUndefinedVariables = §5.8.3 All Variable Uses Defined -/
theorem rule_no_undefined_variables (h : GraphHyp S d) :
    (∃ k ∈ ruleUndefinedVars d (docTable S d), k = .undefVarOp ∨ k = .undefVar) ↔ violates_AllVariableUsesDefined d = true := by
  unfold ruleUndefinedVars violates_AllVariableUsesDefined
  simp only [List.mem_flatMap, List.any_eq_true, Bool.not_eq_true', List.any_eq_false, decide_eq_true_eq]
  constructor
  · rintro ⟨k, ⟨o, ho, hk⟩, _⟩
    split at hk
    · rename_i hc
      simp only [List.any_eq_true, Bool.not_eq_true', List.any_eq_false, decide_eq_true_eq] at hc
      obtain ⟨v, hv, hnd⟩ := hc
      exact ⟨o, ho, v, (mem_used S d h o ho v).mp hv, hnd⟩
    · cases hk
  · rintro ⟨o, ho, v, hv, hnd⟩
    have hc : ((reachable (docTable S d) (.op o.name)).flatMap (fun s => (recOf (docTable S d) s).used)).any
        (fun v => !(o.vars.any (·.name = v))) = true := by
      simp only [List.any_eq_true, Bool.not_eq_true', List.any_eq_false, decide_eq_true_eq]
      exact ⟨v, (mem_used S d h o ho v).mpr hv, hnd⟩
    refine ⟨(if o.name.isSome then Kind.undefVarOp else Kind.undefVar), ⟨o, ho, ?_⟩, ?_⟩
    · rw [if_pos hc]; exact List.mem_singleton.mpr rfl
    · cases o.name <;> simp

/-- NoUnusedVariables = §5.8.4 All Variables Used -/
theorem rule_no_unused_variables (h : GraphHyp S d) :
    (∃ k ∈ ruleUnusedVars d (docTable S d), k = .unusedVarOp ∨ k = .unusedVar) ↔ violates_AllVariablesUsed d = true := by
  have hspec : violates_AllVariablesUsed d = true ↔ ∃ o ∈ d.ops, ∃ v ∈ o.vars, v.name ∉ opVars d o := by
    simp [violates_AllVariablesUsed]
  rw [hspec]
  unfold ruleUnusedVars
  simp only [List.mem_flatMap]
  constructor
  · rintro ⟨k, ⟨o, ho, hk⟩, _⟩
    split at hk
    · rename_i hc
      simp only [List.any_eq_true, Bool.not_eq_true', List.contains_eq_mem, decide_eq_false_iff_not] at hc
      obtain ⟨v, hv, hnd⟩ := hc
      exact ⟨o, ho, v, hv, fun hm => hnd ((mem_used S d h o ho v.name).mpr hm)⟩
    · cases hk
  · rintro ⟨o, ho, v, hv, hnd⟩
    have hc : o.vars.any (fun v => !((reachable (docTable S d) (.op o.name)).flatMap (fun s => (recOf (docTable S d) s).used)).contains v.name) = true := by
      simp only [List.any_eq_true, Bool.not_eq_true', List.contains_eq_mem, decide_eq_false_iff_not]
      exact ⟨v, hv, fun hm => hnd ((mem_used S d h o ho v.name).mp hm)⟩
    refine ⟨(if o.name.isSome then Kind.unusedVarOp else Kind.unusedVar), ⟨o, ho, ?_⟩, ?_⟩
    · rw [if_pos hc]; exact List.mem_singleton.mpr rfl
    · cases o.name <;> simp

end AGV.Lemmas.ValidateGraph
