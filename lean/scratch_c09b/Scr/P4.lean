import Scr.P3
namespace AGV.Props.C09
open AGV.Core AGV.Model.Validate
open AGV.Lemmas.ValidateRules AGV.Lemmas.ValidateWalk AGV.Lemmas.ValidateGraph AGV.Lemmas.ValidateSpecNodes

/-- `{ n(x: 1) color(c: RED) pet @skip(if: true) { ... on Dog { id } ...F __typename } }
     fragment F on Pet { ... on Cat { name } }` -/
def dWF : Doc :=
  { ops := [{ ty := .query, name := none, vars := [], dirs := [],
              sels := [fld "n" [("x", .int 1)], fld "color" [("c", .enum "RED")],
                       fld "pet" [] [.inline (some "Dog") [] [fld "id"] p0, .spread "F" [] p0, fld "__typename"] none
                         [{ name := "skip", args := [("if", .bool true)] }]] }],
    frags := [{ name := "F", cond := "Pet", dirs := [], sels := [.inline (some "Cat") [] [fld "name"] p0] }] }

/-- the same with a string for `x: Int!`, an undefined fragment and an unused variable -/
def dWFbad : Doc :=
  { ops := [{ ty := .query, name := none, vars := [{ name := "u", ty := .named "Int", default := none }], dirs := [],
              sels := [fld "n" [("x", .str "s")], .spread "Nope" [] p0] }],
    frags := dWF.frags }

theorem c09_wf_example (d : Doc) (hd : d = dWF ∨ d = dWFbad) : C09WF S0 d where
  schema := c09_witness_schema_wellformed
  abstract := c09_witness_schema_abstract_inhabited
  typenameSels := by rcases hd with rfl | rfl <;> decide
  typenameArgs := by rcases hd with rfl | rfl <;> decide
  nullDefaults := by
    rcases hd with rfl | rfl <;> intro o ho v hv <;> simp [dWF, dWFbad] at ho <;> subst ho <;> simp at hv
    subst hv; simp
  argsKnown := by rcases hd with rfl | rfl <;> decide +kernel
  varFree := by rcases hd with rfl | rfl <;> exact ⟨by decide, by decide, by decide⟩
  literals := by rcases hd with rfl | rfl <;> decide +kernel
  defaults := by
    rcases hd with rfl | rfl <;> intro o ho v hv dv hdv <;> simp [dWF, dWFbad] at ho <;> subst ho <;> simp at hv
    subst hv; simp at hdv
  overlap := by
    rcases hd with rfl | rfl
    · intro k hk
      have : ruleOverlap dWF (events S0 {} dWF) = [] := by decide +kernel
      rw [this] at hk; cases hk
    · intro k hk
      have : ruleOverlap dWFbad (events S0 {} dWFbad) = [] := by decide +kernel
      rw [this] at hk; cases hk

/-- both sides of `c09_corrected_wf` on the two examples: accepted and valid; rejected and invalid -/
example :
    rejects {} dWF = false ∧ specInvalid dWF = false ∧ rejects {} dWFbad = true
    ∧ Spec.Validate.violations {} S0 dWFbad [] none =
        ["5.5.1.4 Fragments Must Be Used", "5.5.2.1 Fragment Spread Target Defined", "5.6 Values Of Correct Type", "5.8.4 All Variables Used"] := by
  decide +kernel

end AGV.Props.C09
