import Scr.G1
namespace AGV.Lemmas.ValidateGraph
open AGV.Core AGV.Model.Validate

-- ------------------------------------------------------------------ small facts

mutual
theorem spreadsOf_eq : (s : Sel) → Model.Validate.spreadsOf s = Spec.Validate.spreadsOf s
  | .field _ _ _ _ ss _ => by simp [Model.Validate.spreadsOf, Spec.Validate.spreadsOf, spreadsOfL_eq ss]
  | .spread _ _ _ => by simp [Model.Validate.spreadsOf, Spec.Validate.spreadsOf]
  | .inline _ _ ss _ => by simp [Model.Validate.spreadsOf, Spec.Validate.spreadsOf, spreadsOfL_eq ss]
theorem spreadsOfL_eq : (ss : List Sel) → Model.Validate.spreadsOfL ss = Spec.Validate.spreadsOfL ss
  | [] => by simp [Model.Validate.spreadsOfL, Spec.Validate.spreadsOfL]
  | s :: ss => by simp [Model.Validate.spreadsOfL, Spec.Validate.spreadsOfL, spreadsOf_eq s, spreadsOfL_eq ss]
end

mutual
theorem spreadsOf_le : (s : Sel) → (Spec.Validate.spreadsOf s).length ≤ Spec.Validate.selSize s
  | .field _ _ _ _ ss _ => by have := spreadsOfL_le ss; simp [Spec.Validate.spreadsOf, Spec.Validate.selSize]; omega
  | .spread _ _ _ => by simp [Spec.Validate.spreadsOf, Spec.Validate.selSize]
  | .inline _ _ ss _ => by have := spreadsOfL_le ss; simp [Spec.Validate.spreadsOf, Spec.Validate.selSize]; omega
theorem spreadsOfL_le : (ss : List Sel) → (Spec.Validate.spreadsOfL ss).length ≤ Spec.Validate.selsSize ss
  | [] => by simp [Spec.Validate.spreadsOfL, Spec.Validate.selsSize]
  | s :: ss => by
    have := spreadsOf_le s; have := spreadsOfL_le ss
    simp [Spec.Validate.spreadsOfL, Spec.Validate.selsSize]; omega
end

theorem hasDup_false_iff (l : List String) : Spec.Validate.hasDup l = false ↔ l.Nodup := by
  induction l with
  | nil => simp [Spec.Validate.hasDup]
  | cons x xs ih => simp [Spec.Validate.hasDup, ih]

theorem foldl_add {α} (g : α → Nat) (l : List α) (n : Nat) :
    l.foldl (fun n x => n + g x + 1) n = n + (l.map (fun x => g x + 1)).sum := by
  induction l generalizing n with
  | nil => simp
  | cons x xs ih => simp [List.foldl_cons, ih]; omega

theorem docFuel_eq (d : Doc) :
    Spec.Validate.docFuel d = 2 + (d.frags.map (fun f => Spec.Validate.selsSize f.sels + 1)).sum
      + (d.ops.map (fun o => Spec.Validate.selsSize o.sels + 1)).sum := by
  simp [Spec.Validate.docFuel, foldl_add]

theorem sum_le_of_mem {α} (g h : α → Nat) (l : List α) (hle : ∀ x ∈ l, g x ≤ h x) : (l.map g).sum ≤ (l.map h).sum := by
  induction l with
  | nil => simp
  | cons x xs ih =>
    have := hle x (by simp)
    have := ih (fun y hy => hle y (by simp [hy]))
    simp; omega

theorem le_sum_of_mem {α} (g : α → Nat) (l : List α) (x : α) (hx : x ∈ l) : g x ≤ (l.map g).sum := by
  induction l with
  | nil => cases hx
  | cons y ys ih =>
    rcases List.mem_cons.mp hx with h | h
    · subst h; simp
    · have := ih h; simp; omega

-- ------------------------------------------------------------------ the reference validator's closure

/-- the fragment graph: a defined fragment with the names it spreads -/
def nodeS (d : Doc) (n : String) : Option (List String) :=
  (d.frags.find? (·.name = n)).map (fun f => Spec.Validate.spreadsOfL f.sels)

theorem closure_eq (d : Doc) (fuel : Nat) (todo seen : List String) :
    Spec.Validate.closure d fuel todo seen = gReach (nodeS d) fuel todo seen := by
  induction fuel generalizing todo seen with
  | zero => cases todo <;> simp [Spec.Validate.closure, gReach]
  | succ fuel ih =>
    cases todo with
    | nil => simp [Spec.Validate.closure, gReach]
    | cons n todo =>
      rw [Spec.Validate.closure, gReach]
      split
      · exact ih _ _
      · cases h : d.frags.find? (·.name = n) with
        | none => simp [nodeS, h, ih]
        | some f => simp [nodeS, h, ih]

theorem fragReach_eq (d : Doc) (fuel : Nat) (todo seen : List String) :
    Model.Validate.fragReach d fuel todo seen = Spec.Validate.closure d fuel todo seen := by
  induction fuel generalizing todo seen with
  | zero => cases todo <;> simp [Model.Validate.fragReach, Spec.Validate.closure]
  | succ fuel ih =>
    cases todo with
    | nil => simp [Model.Validate.fragReach, Spec.Validate.closure]
    | cons n todo =>
      rw [Model.Validate.fragReach, Spec.Validate.closure]
      split
      · exact ih _ _
      · simp only [Doc.frag?]
        cases h : d.frags.find? (·.name = n) with
        | none => simp [ih]
        | some f => simp [ih, spreadsOfL_eq]

/-- fragment names are not repeated -/
def FragsNodup (d : Doc) : Prop := (d.frags.map (·.name)).Nodup

theorem find_of_nodup (l : List FragDef) (hn : (l.map (·.name)).Nodup) (f : FragDef) (hf : f ∈ l) :
    l.find? (·.name = f.name) = some f := by
  induction l with
  | nil => cases hf
  | cons g gs ih =>
    simp only [List.map_cons, List.nodup_cons] at hn
    rcases List.mem_cons.mp hf with h | h
    · subst h; simp
    · have hne : g.name ≠ f.name := by
        intro he; exact hn.1 (he ▸ List.mem_map_of_mem h)
      simp [List.find?_cons, hne, ih hn.2 h]

theorem find_frag (d : Doc) (hn : FragsNodup d) (f : FragDef) (hf : f ∈ d.frags) :
    d.frags.find? (·.name = f.name) = some f := find_of_nodup d.frags hn f hf

theorem nodeS_frag (d : Doc) (hn : FragsNodup d) (f : FragDef) (hf : f ∈ d.frags) :
    nodeS d f.name = some (Spec.Validate.spreadsOfL f.sels) := by simp [nodeS, find_frag d hn f hf]

theorem nodeS_isSome (d : Doc) (n : String) : (nodeS d n).isSome = true ↔ ∃ f ∈ d.frags, f.name = n := by
  simp only [nodeS, Option.isSome_map, List.find?_isSome, decide_eq_true_eq]

theorem nodeS_mem (d : Doc) (n : String) (l : List String) (h : nodeS d n = some l) : n ∈ d.frags.map (·.name) := by
  have : (nodeS d n).isSome = true := by simp [h]
  obtain ⟨f, hf, rfl⟩ := (nodeS_isSome d n).mp this
  exact List.mem_map_of_mem hf

theorem weightS_le (d : Doc) (hn : FragsNodup d) :
    weight (nodeS d) (d.frags.map (·.name)) [] ≤ (d.frags.map (fun f => Spec.Validate.selsSize f.sels + 1)).sum := by
  simp only [weight, List.map_map]
  apply sum_le_of_mem
  intro f hf
  simp only [Function.comp, List.contains_nil, Bool.false_eq_true, if_false, nodeS_frag d hn f hf, Option.getD_some]
  have := spreadsOfL_le f.sels
  omega

/-- the selection sets the closure is started from: an operation's or a fragment's -/
def RootSels (d : Doc) (ss : List Sel) : Prop := (∃ o ∈ d.ops, o.sels = ss) ∨ (∃ f ∈ d.frags, f.sels = ss)

theorem rootSels_le (d : Doc) (ss : List Sel) (h : RootSels d ss) :
    Spec.Validate.selsSize ss + 2 ≤ Spec.Validate.docFuel d := by
  rw [docFuel_eq]
  rcases h with ⟨o, ho, rfl⟩ | ⟨f, hf, rfl⟩
  · have := le_sum_of_mem (fun o : OpDef => Spec.Validate.selsSize o.sels + 1) d.ops o ho
    omega
  · have := le_sum_of_mem (fun f : FragDef => Spec.Validate.selsSize f.sels + 1) d.frags f hf
    omega

/-- `usedFrags` of a root selection set = the defined fragments reachable from its spreads -/
theorem mem_usedFrags (d : Doc) (hn : FragsNodup d) (ss : List Sel) (hr : RootSels d ss) (x : String) :
    x ∈ Spec.Validate.usedFrags d ss ↔
      ∃ t ∈ Spec.Validate.spreadsOfL ss, Path (nodeS d) t x ∧ (nodeS d x).isSome = true := by
  unfold Spec.Validate.usedFrags
  rw [closure_eq]
  apply gReach_iff (nodeS d) (d.frags.map (·.name)) (fun n l h _ => nodeS_mem d n l h)
  have h1 := weightS_le d hn
  have h2 := rootSels_le d ss hr
  have h3 := spreadsOfL_le ss
  have h4 := docFuel_eq d
  simp only [Spec.Validate.closureFuel]
  omega

end AGV.Lemmas.ValidateGraph
