import Scr.G6
namespace AGV.Lemmas.ValidateGraph
open AGV.Core AGV.Model.Validate AGV.Lemmas.ValidateWalk AGV.Lemmas.ValidateMachine AGV.Lemmas.ValidateRules
open AGV.Lemmas.ValidateRanges

/-- every strict-mode report comes from the rule that owns its kind -/
theorem strict_owner (S : VSchema) (d : Doc) (vars opName) (k : Model.Validate.Kind)
    (h : k ∈ strictErrors S {} d vars opName) :
    (k ∈ statelessKinds ∧ k ∈ (events S {} d).flatMap (stateless S {} d))
    ∨ (k = .argInvalid ∧ k ∈ ruleArgsCorrect S {} vars opName none false (events S {} d))
    ∨ ((k = .unknownArgDir ∨ k = .unknownArgField) ∧ k ∈ ruleKnownArgs S none (events S {} d))
    ∨ (k = .dupArg ∧ k ∈ ruleUniqueArgs [] (events S {} d))
    ∨ (k = .dupVar ∧ k ∈ ruleUniqueVars [] (events S {} d))
    ∨ ((k = .dirMisplaced ∨ k = .unknownDirective) ∧ k ∈ ruleKnownDirs S [] (events S {} d))
    ∨ (k = .cycle ∧ k ∈ ruleCycles d (scopeTable none [] (events S {} d)))
    ∨ (k = .unusedFragment ∧ k ∈ ruleUnusedFrags d (scopeTable none [] (events S {} d)))
    ∨ ((k = .undefVarOp ∨ k = .undefVar) ∧ k ∈ ruleUndefinedVars d (scopeTable none [] (events S {} d)))
    ∨ ((k = .unusedVarOp ∨ k = .unusedVar) ∧ k ∈ ruleUnusedVars d (scopeTable none [] (events S {} d)))
    ∨ (k = .varPosition ∧ k ∈ ruleVarPositions {} d (scopeTable none [] (events S {} d)))
    ∨ ((k = .conflictFields ∨ k = .conflictArgsLen ∨ k = .conflictArgsVal) ∧ k ∈ ruleOverlap d (events S {} d)) := by
  rw [mem_strictErrors] at h
  rcases h with h | h | h | h | h | h | h | h | h | h | h | h
  · exact Or.inl ⟨range_stateless _ _ _ h, h⟩
  · exact Or.inr (Or.inl ⟨range_argsCorrect _ _ _ _ _ _ _ h, h⟩)
  · exact Or.inr (Or.inr (Or.inl ⟨range_knownArgs _ _ _ _ h, h⟩))
  · exact Or.inr (Or.inr (Or.inr (Or.inl ⟨range_uniqueArgs _ _ _ h, h⟩)))
  · exact Or.inr (Or.inr (Or.inr (Or.inr (Or.inl ⟨range_uniqueVars _ _ _ h, h⟩))))
  · exact Or.inr (Or.inr (Or.inr (Or.inr (Or.inr (Or.inl ⟨range_knownDirs _ _ _ _ h, h⟩)))))
  · exact Or.inr (Or.inr (Or.inr (Or.inr (Or.inr (Or.inr (Or.inl ⟨range_cycles _ _ _ h, h⟩))))))
  · exact Or.inr (Or.inr (Or.inr (Or.inr (Or.inr (Or.inr (Or.inr (Or.inl ⟨range_unusedFrags _ _ _ h, h⟩)))))))
  · exact Or.inr (Or.inr (Or.inr (Or.inr (Or.inr (Or.inr (Or.inr (Or.inr (Or.inl ⟨range_undefinedVars _ _ _ h, h⟩))))))))
  · exact Or.inr (Or.inr (Or.inr (Or.inr (Or.inr (Or.inr (Or.inr (Or.inr (Or.inr (Or.inl ⟨range_unusedVars _ _ _ h, h⟩)))))))))
  · exact Or.inr (Or.inr (Or.inr (Or.inr (Or.inr (Or.inr (Or.inr (Or.inr (Or.inr (Or.inr (Or.inl ⟨range_varPositions _ _ _ _ h, h⟩))))))))))
  · exact Or.inr (Or.inr (Or.inr (Or.inr (Or.inr (Or.inr (Or.inr (Or.inr (Or.inr (Or.inr (Or.inr ⟨range_overlap _ _ _ h, h⟩))))))))))

section
variable (S : VSchema) (d : Doc) (vars : List (String × GValue)) (opName : Option String)

theorem strict_cycle : Kind.cycle ∈ strictErrors S {} d vars opName ↔ Kind.cycle ∈ ruleCycles d (scopeTable none [] (events S {} d)) := by
  constructor
  · intro h
    rcases strict_owner S d vars opName _ h with ⟨hk, h⟩ | ⟨hk, h⟩ | ⟨hk, h⟩ | ⟨hk, h⟩ | ⟨hk, h⟩ | ⟨hk, h⟩ | ⟨hk, h⟩ | ⟨hk, h⟩ | ⟨hk, h⟩ | ⟨hk, h⟩ | ⟨hk, h⟩ | ⟨hk, h⟩
    all_goals first | (simp [statelessKinds] at hk; done) | exact h
  · intro h; rw [mem_strictErrors]; simp [h]

theorem strict_unusedFragment :
    Kind.unusedFragment ∈ strictErrors S {} d vars opName ↔ Kind.unusedFragment ∈ ruleUnusedFrags d (scopeTable none [] (events S {} d)) := by
  constructor
  · intro h
    rcases strict_owner S d vars opName _ h with ⟨hk, h⟩ | ⟨hk, h⟩ | ⟨hk, h⟩ | ⟨hk, h⟩ | ⟨hk, h⟩ | ⟨hk, h⟩ | ⟨hk, h⟩ | ⟨hk, h⟩ | ⟨hk, h⟩ | ⟨hk, h⟩ | ⟨hk, h⟩ | ⟨hk, h⟩
    all_goals first | (simp [statelessKinds] at hk; done) | exact h
  · intro h; rw [mem_strictErrors]; simp [h]

theorem strict_undefVar (k : Model.Validate.Kind) (hk : k = .undefVarOp ∨ k = .undefVar) :
    k ∈ strictErrors S {} d vars opName ↔ k ∈ ruleUndefinedVars d (scopeTable none [] (events S {} d)) := by
  constructor
  · intro h
    rcases strict_owner S d vars opName _ h with ⟨hk', h⟩ | ⟨hk', h⟩ | ⟨hk', h⟩ | ⟨hk', h⟩ | ⟨hk', h⟩ | ⟨hk', h⟩ | ⟨hk', h⟩ | ⟨hk', h⟩ | ⟨hk', h⟩ | ⟨hk', h⟩ | ⟨hk', h⟩ | ⟨hk', h⟩
    all_goals first | ((rcases hk with rfl | rfl <;> simp [statelessKinds] at hk'); done) | exact h
  · intro h; rw [mem_strictErrors]; simp [h]

theorem strict_unusedVar (k : Model.Validate.Kind) (hk : k = .unusedVarOp ∨ k = .unusedVar) :
    k ∈ strictErrors S {} d vars opName ↔ k ∈ ruleUnusedVars d (scopeTable none [] (events S {} d)) := by
  constructor
  · intro h
    rcases strict_owner S d vars opName _ h with ⟨hk', h⟩ | ⟨hk', h⟩ | ⟨hk', h⟩ | ⟨hk', h⟩ | ⟨hk', h⟩ | ⟨hk', h⟩ | ⟨hk', h⟩ | ⟨hk', h⟩ | ⟨hk', h⟩ | ⟨hk', h⟩ | ⟨hk', h⟩ | ⟨hk', h⟩
    all_goals first | ((rcases hk with rfl | rfl <;> simp [statelessKinds] at hk'); done) | exact h
  · intro h; rw [mem_strictErrors]; simp [h]

theorem strict_varPosition :
    Kind.varPosition ∈ strictErrors S {} d vars opName ↔ Kind.varPosition ∈ ruleVarPositions {} d (scopeTable none [] (events S {} d)) := by
  constructor
  · intro h
    rcases strict_owner S d vars opName _ h with ⟨hk, h⟩ | ⟨hk, h⟩ | ⟨hk, h⟩ | ⟨hk, h⟩ | ⟨hk, h⟩ | ⟨hk, h⟩ | ⟨hk, h⟩ | ⟨hk, h⟩ | ⟨hk, h⟩ | ⟨hk, h⟩ | ⟨hk, h⟩ | ⟨hk, h⟩
    all_goals first | (simp [statelessKinds] at hk; done) | exact h
  · intro h; rw [mem_strictErrors]; simp [h]

theorem strict_knownArgs (k : Model.Validate.Kind) (hk : k = .unknownArgDir ∨ k = .unknownArgField) :
    k ∈ strictErrors S {} d vars opName ↔ k ∈ ruleKnownArgs S none (events S {} d) := by
  constructor
  · intro h
    rcases strict_owner S d vars opName _ h with ⟨hk', h⟩ | ⟨hk', h⟩ | ⟨hk', h⟩ | ⟨hk', h⟩ | ⟨hk', h⟩ | ⟨hk', h⟩ | ⟨hk', h⟩ | ⟨hk', h⟩ | ⟨hk', h⟩ | ⟨hk', h⟩ | ⟨hk', h⟩ | ⟨hk', h⟩
    all_goals first | ((rcases hk with rfl | rfl <;> simp [statelessKinds] at hk'); done) | exact h
  · intro h; rw [mem_strictErrors]; simp [h]

theorem strict_argInvalid :
    Kind.argInvalid ∈ strictErrors S {} d vars opName ↔ Kind.argInvalid ∈ ruleArgsCorrect S {} vars opName none false (events S {} d) := by
  constructor
  · intro h
    rcases strict_owner S d vars opName _ h with ⟨hk, h⟩ | ⟨hk, h⟩ | ⟨hk, h⟩ | ⟨hk, h⟩ | ⟨hk, h⟩ | ⟨hk, h⟩ | ⟨hk, h⟩ | ⟨hk, h⟩ | ⟨hk, h⟩ | ⟨hk, h⟩ | ⟨hk, h⟩ | ⟨hk, h⟩
    all_goals first | (simp [statelessKinds] at hk; done) | exact h
  · intro h; rw [mem_strictErrors]; simp [h]

theorem strict_overlap (k : Model.Validate.Kind) (hk : k = .conflictFields ∨ k = .conflictArgsLen ∨ k = .conflictArgsVal) :
    k ∈ strictErrors S {} d vars opName ↔ k ∈ ruleOverlap d (events S {} d) := by
  constructor
  · intro h
    rcases strict_owner S d vars opName _ h with ⟨hk', h⟩ | ⟨hk', h⟩ | ⟨hk', h⟩ | ⟨hk', h⟩ | ⟨hk', h⟩ | ⟨hk', h⟩ | ⟨hk', h⟩ | ⟨hk', h⟩ | ⟨hk', h⟩ | ⟨hk', h⟩ | ⟨hk', h⟩ | ⟨hk', h⟩
    all_goals first | ((rcases hk with rfl | rfl | rfl <;> simp [statelessKinds] at hk'); done) | exact h
  · intro h; rw [mem_strictErrors]; simp [h]
end

-- ------------------------------------------------------------------ the recursion guard before validation

mutual
theorem selSize_eq : (s : Sel) → Model.Validate.selSize s = Spec.Validate.selSize s
  | .field _ _ _ _ ss _ => by simp [Model.Validate.selSize, Spec.Validate.selSize, selsSize_eq ss]
  | .spread _ _ _ => by simp [Model.Validate.selSize, Spec.Validate.selSize]
  | .inline _ _ ss _ => by simp [Model.Validate.selSize, Spec.Validate.selSize, selsSize_eq ss]
theorem selsSize_eq : (ss : List Sel) → Model.Validate.selsSize ss = Spec.Validate.selsSize ss
  | [] => by simp [Model.Validate.selsSize, Spec.Validate.selsSize]
  | s :: ss => by simp [Model.Validate.selsSize, Spec.Validate.selsSize, selSize_eq s, selsSize_eq ss]
end

theorem docFuel_model_eq (d : Doc) : Model.Validate.docFuel d = Spec.Validate.docFuel d := by
  simp [Model.Validate.docFuel, Spec.Validate.docFuel, selsSize_eq]

/-- the recursion guard of the parser fires only on a fragment cycle (§5.5.2.2) -/
theorem pre_recursionDepth (d : Doc) (h : PreKind.recursionDepth ∈ preErrors d) :
    Spec.Validate.violates_FragmentSpreadsMustNotFormCycles d = true := by
  unfold preErrors at h
  dsimp only at h
  by_cases h1 : Model.Validate.hasDup (d.ops.filterMap (·.name)) = true
  · rw [if_pos h1] at h; simp at h
  rw [if_neg h1] at h
  by_cases h2 : (decide (d.ops.length > 1) && d.ops.any (·.name.isNone)) = true
  · rw [if_pos h2] at h; simp at h
  rw [if_neg h2] at h
  by_cases h3 : Model.Validate.hasDup (d.frags.map (·.name)) = true
  · rw [if_pos h3] at h; simp at h
  rw [if_neg h3] at h
  split at h
  · rename_i hc
    simp only [List.any_eq_true] at hc
    obtain ⟨n, _, hn⟩ := hc
    split at hn
    · rename_i f hf
      have hmem := List.mem_of_find?_eq_some hf
      have hname : f.name = n := by simpa using List.find?_some hf
      simp only [Spec.Validate.violates_FragmentSpreadsMustNotFormCycles, List.any_eq_true]
      refine ⟨f, hmem, ?_⟩
      rw [fragReach_eq, spreadsOfL_eq, docFuel_model_eq] at hn
      rw [hname]
      exact hn
    · cases hn
  · simp at h

end AGV.Lemmas.ValidateGraph
