import Scr.P1
namespace AGV.Props.C09
open AGV.Core AGV.Model.Validate
open AGV.Lemmas.ValidateRules AGV.Lemmas.ValidateWalk AGV.Lemmas.ValidateGraph AGV.Lemmas.ValidateSpecNodes

-- ------------------------------------------------------------------ where the repaired model still differs from the reference

/-- the witness schema with one more field on `Dog` and two more on `Query` -/
def S1 : VSchema := { S0 with base := { S0.base with types := S0.base.types.map (fun t =>
  if t.name = "Dog" then { t with fields := t.fields ++ [{ name := "nick", ty := .named "String", args := [] }] }
  else if t.name = "Query" then { t with fields := t.fields ++ [
     { name := "petx", ty := .named "Pet", args := [{ name := "x", ty := .named "Int", default := none }] },
     { name := "lst", ty := .named "Int", args := [{ name := "xs", ty := .list (.named "Int"), default := none }] }] }
  else t) } }

def rejects1 (d : Doc) (vars : List (String × GValue) := []) : Bool := (checkRules S1 {} d vars none).isRejected
def violations1 (d : Doc) (vars : List (String × GValue) := []) : List String := Spec.Validate.violations {} S1 d vars none

/-- `{ pet { ... on Dog { ... { k: nick } } ... on Cat { ... { k: name } } } }`: both fields are of
    type `String` and can never apply to the same object, so §5.3.2 allows them; the implemented
    `OverlappingFieldsCanBeMerged` keys an inline fragment WITHOUT type condition by `None`, finds
    two different fields under (None, "k") and reports a conflict — which a repair that only ADDS the
    missing comparisons keeps reporting -/
def dOverlapUntyped : Doc :=
  q [] [fld "pet" [] [.inline (some "Dog") [] [.inline none [] [fld "nick" [] [] (some "k")] p0] p0,
                      .inline (some "Cat") [] [.inline none [] [fld "name" [] [] (some "k")] p0] p0]]

theorem c09_counterexample_overlap_untyped_inline :
    rejects1 dOverlapUntyped = true ∧ violations1 dOverlapUntyped = []
    ∧ Kind.conflictFields ∈ strictErrors S1 {} dOverlapUntyped [] none := by
  decide +kernel

/-- `query($v: Int = null){ n(x: $v) }` (x: Int!): IsVariableUsageAllowed does not count a `null`
    default, `VariableInAllowedPosition` counts every default -/
def dNullDefault : Doc := q [{ name := "v", ty := .named "Int", default := some .null }] [fld "n" [("x", .var "v")]]
theorem c09_counterexample_null_default :
    rejects1 dNullDefault = false ∧ violations1 dNullDefault = ["5.8.5 All Variable Usages Are Allowed"] := by
  decide +kernel

/-- `{ __typename(x: 1) }` and `{ petx(x: 1) { __typename(x: 1) } }`: `KnownArgumentNames` looks the
    field up with `field_by_name`, which does not know `__typename`; at the top level it has no
    `current_args`, below `petx` it still has the arguments of `petx` -/
def dTypenameArg : Doc := q [] [fld "__typename" [("x", .int 1)]]
def dStaleArgs : Doc := q [] [fld "petx" [("x", .int 1)] [fld "__typename" [("x", .int 1)]]]
theorem c09_counterexample_typename_arguments :
    rejects1 dTypenameArg = false ∧ violations1 dTypenameArg = ["5.4.1 Argument Names"]
    ∧ rejects1 dStaleArgs = false ∧ violations1 dStaleArgs = ["5.4.1 Argument Names"] := by
  decide +kernel

/-- `query($v: Int){ lst(xs: [$v, "bad"]) }` without a value for `$v`: `ArgumentsOfCorrectType`
    judges the argument after substituting the supplied variables and gives up when one is missing -/
def dVarInList : Doc := q [{ name := "v", ty := .named "Int", default := none }] [fld "lst" [("xs", .list [.var "v", .str "bad"])]]
theorem c09_counterexample_variable_in_list :
    rejects1 dVarInList = false ∧ violations1 dVarInList = ["5.6 Values Of Correct Type"] := by
  decide +kernel

/-- `query($c: Color!){ color(c: $c) }` with `{"c": "RED"}`: a variable VALUE for an enum arrives as a
    string (§3.9 input coercion), `ArgumentsOfCorrectType` judges it with the rule for literals once
    `enumAcceptsString` is off -/
def dEnumVar : Doc := q [{ name := "c", ty := .nonNull (.named "Color"), default := none }] [fld "color" [("c", .var "c")]]
theorem c09_counterexample_enum_variable :
    rejects1 dEnumVar [("c", .str "RED")] = true ∧ violations1 dEnumVar [("c", .str "RED")] = [] := by
  decide +kernel

/-- `S1` with the first document satisfies every exclusion of `C09Hyp` -/
theorem c09_counterexample_hyp : C09Hyp S1 dOverlapUntyped [] none where
  selected := by decide
  defaults := by simp [dOverlapUntyped, q]
  roots := by intro t r h; cases t <;> simp [Spec.Validate.rootType, S1, S0] at h <;> subst h <;> decide
  fields := by decide
  string := by decide
  inputs := by decide
  members := by decide

/-- `c09_corrected` is FALSE of the model: the toggle-free model keeps the implemented
    OverlappingFieldsCanBeMerged, which rejects a document the reference validator accepts. -/
theorem c09_corrected_refuted : ¬ c09_corrected := by
  intro h
  have h1 := (h S1 dOverlapUntyped [] none c09_counterexample_hyp).mp
    (by have := c09_counterexample_overlap_untyped_inline.1; exact this)
  exact h1 (by
    unfold Spec.Validate.Valid
    exact c09_counterexample_overlap_untyped_inline.2.1)

end AGV.Props.C09
