import Scr.G9
namespace AGV.Lemmas.ValidateGraph
open AGV.Core AGV.Model.Validate AGV.Lemmas.ValidateWalk AGV.Lemmas.ValidateMachine AGV.Lemmas.ValidateRules
open AGV.Lemmas.ValidateSpecNodes
open AGV.Spec.Validate (usedFrags usagesIn siteUsages nodeUsages opNodes fragNodes tyDef fieldType usageAllowed typesCompatible
  violates_AllVariableUsagesAllowed)

/-- the implementation's verdict on one usage -/
def judgeM (vars : List VarDef) (u : String × TypeRef × Bool) : Bool :=
  match vars.find? (·.name = u.1) with
  | some v => !(isSubtype {} u.2.1 (expectedTy v u.2.2))
  | none => false

/-- the reference validator's verdict on one usage -/
def judgeS (vars : List VarDef) (u : String × TypeRef × Bool) : Bool :=
  match vars.find? (·.name = u.1) with
  | some v => !(usageAllowed v u.2.1 u.2.2)
  | none => false

theorem judge_agree (vars : List VarDef) (hn : ∀ v ∈ vars, v.default ≠ some .null) (u) : judgeM vars u = judgeS vars u := by
  unfold judgeM judgeS
  cases h : vars.find? (·.name = u.1) with
  | none => rfl
  | some v => simp only []; rw [judge_eq v _ _ (hn v (List.mem_of_find?_eq_some h))]

theorem ruleVarPositions_eq (d : Doc) (tbl : List ScopeRec) :
    ruleVarPositions {} d tbl = d.ops.flatMap (fun o =>
      if o.vars.isEmpty then [] else
      if ((reachable tbl (.op o.name)).flatMap (fun s => (recOf tbl s).usages)).any (judgeM o.vars) then [Kind.varPosition] else []) := by
  rfl

/-- the usages the reference validator collects for an operation -/
def specUs (S : VSchema) (d : Doc) (o : OpDef) : List (String × TypeRef × Bool) :=
  dirU S o.dirs ++ nodeUsages S (opNodes S o)
    ++ (usedFrags d o.sels).flatMap (fun n => match d.frags.find? (·.name = n) with
        | some f => dirU S f.dirs ++ nodeUsages S (fragNodes S f) | none => [])

theorem allowed_eq (S : VSchema) (d : Doc) :
    violates_AllVariableUsagesAllowed S d = d.ops.any (fun o => (specUs S d o).any (judgeS o.vars)) := by
  rfl


theorem mem_specUs (S : VSchema) (d : Doc) (hn : FragsNodup d) (o : OpDef) (u : String × TypeRef × Bool) :
    u ∈ specUs S d o ↔
      (u ∈ dirU S o.dirs ++ nodeUsages S (opNodes S o)
        ∨ ∃ f ∈ d.frags, f.name ∈ usedFrags d o.sels ∧ u ∈ dirU S f.dirs ++ nodeUsages S (fragNodes S f)) := by
  unfold specUs
  simp only [List.mem_append, List.mem_flatMap]
  constructor
  · rintro ((h | h) | ⟨n, hnm, hv⟩)
    · exact Or.inl (Or.inl h)
    · exact Or.inl (Or.inr h)
    · split at hv
      · rename_i f hf
        have hmem := List.mem_of_find?_eq_some hf
        have hname : f.name = n := by simpa using List.find?_some hf
        exact Or.inr ⟨f, hmem, hname ▸ hnm, List.mem_append.mp hv⟩
      · cases hv
  · rintro ((h | h) | ⟨f, hf, hu, hv⟩)
    · exact Or.inl (Or.inl h)
    · exact Or.inl (Or.inr h)
    · refine Or.inr ⟨f.name, hu, ?_⟩
      rw [find_frag d hn f hf]
      exact List.mem_append.mpr hv

/-- no variable definition has the literal `null` as its default value -/
def NoNullDefault (d : Doc) : Prop := ∀ o ∈ d.ops, ∀ v ∈ o.vars, v.default ≠ some .null

/-- the usages the model collects for an operation are the reference validator's -/
theorem mem_usages (S : VSchema) (d : Doc) (h : GraphHyp S d) (hT : TypedSchema S) (hr : RootsExist S d)
    (o : OpDef) (ho : o ∈ d.ops) (u : String × TypeRef × Bool) :
    u ∈ (reachable (docTable S d) (.op o.name)).flatMap (fun s => (recOf (docTable S d) s).usages) ↔ u ∈ specUs S d o := by
  rw [List.mem_flatMap, exists_reachable S d h o ho (fun r => u ∈ r.usages) (by intro s; simp),
    mem_specUs S d (scopesNodup_frags d h.nodup), mem_recO_usages S hT o (h.served o ho) (hr o ho)]
  simp only [mem_recF_usages S hT]

/-- VariableInAllowedPosition = §5.8.5 All Variable Usages Are Allowed (no `null` defaults) -/
theorem rule_variables_in_allowed_position (S : VSchema) (d : Doc) (h : GraphHyp S d) (hT : TypedSchema S) (hr : RootsExist S d)
    (hnull : NoNullDefault d) :
    Kind.varPosition ∈ ruleVarPositions {} d (docTable S d) ↔ violates_AllVariableUsagesAllowed S d = true := by
  rw [ruleVarPositions_eq, allowed_eq]
  simp only [List.mem_flatMap, List.any_eq_true]
  constructor
  · rintro ⟨o, ho, hk⟩
    split at hk
    · cases hk
    · split at hk
      · rename_i hc
        obtain ⟨u, hu, hj⟩ := List.any_eq_true.mp hc
        exact ⟨o, ho, u, (mem_usages S d h hT hr o ho u).mp hu, by rw [← judge_agree _ (hnull o ho)]; exact hj⟩
      · cases hk
  · rintro ⟨o, ho, u, hu, hj⟩
    refine ⟨o, ho, ?_⟩
    have hne : o.vars.isEmpty = false := by
      cases hv : o.vars with
      | nil => simp [judgeS, hv] at hj
      | cons _ _ => rfl
    have hc : ((reachable (docTable S d) (.op o.name)).flatMap (fun s => (recOf (docTable S d) s).usages)).any (judgeM o.vars) = true :=
      List.any_eq_true.mpr ⟨u, (mem_usages S d h hT hr o ho u).mpr hu, by rw [judge_agree _ (hnull o ho)]; exact hj⟩
    simp [hne, hc]

end AGV.Lemmas.ValidateGraph
