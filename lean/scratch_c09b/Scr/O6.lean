import Scr.O5
namespace AGV.Lemmas.ValidateOverlap
open AGV.Core AGV.Model.Validate AGV.Lemmas.ValidateWalk AGV.Lemmas.ValidateSpecNodes AGV.Lemmas.ValidateRules
open AGV.Lemmas.ValidateGraph
open AGV.Spec.Validate (FInfo fieldsInSet setCanMerge Node allNodes fieldType rootType violates_FieldSelectionMerging)

theorem notSet_walkArgs (S : VSchema) (st defs args) (e : Evt) (he : e ∈ walkArgs S {} st defs args) (ss : List Sel) :
    e.ev ≠ .enterSet ss := by
  rw [mem_walkArgs] at he
  obtain ⟨a, _, rfl | rfl | rfl⟩ := he <;> simp [Model.Validate.mk]

theorem notSet_walkDirs (S : VSchema) (st ds) (e : Evt) (he : e ∈ walkDirs S {} st ds) (ss : List Sel) :
    e.ev ≠ .enterSet ss := by
  rw [mem_walkDirs] at he
  obtain ⟨dr, _, rfl | h | rfl⟩ := he
  · simp [Model.Validate.mk]
  · exact notSet_walkArgs S _ _ _ e h ss
  · simp [Model.Validate.mk]

theorem set_of_setEvents (st : Stack) (ss' ss : List Sel) (e : Evt) (he : e ∈ setEvents st ss') (h : e.ev = .enterSet ss) :
    ss = ss' ∧ ss' ≠ [] := by
  cases ss' with
  | nil => simp [setEvents] at he
  | cons x xs =>
    simp only [setEvents, List.mem_cons, List.not_mem_nil, or_false] at he
    rcases he with rfl | rfl
    · simp only [Model.Validate.mk, Ev.enterSet.injEq] at h; exact ⟨h.symm, by simp⟩
    · simp [Model.Validate.mk] at h

/-- the selection sets `enter_selection_set` is called with: the root set of a fragment or of an
    operation, or the non-empty sub-selection of a visited field or inline fragment -/
theorem enterSet_cases (S : VSchema) (d : Doc) (e : Evt) (he : e ∈ events S {} d) (ss : List Sel) (h : e.ev = .enterSet ss) :
    (∃ f ∈ d.frags, ss = f.sels) ∨ (∃ o ∈ d.ops, ss = o.sels)
    ∨ (∃ v ∈ docVisits S d, ss ≠ [] ∧ ((∃ al n args ds p, v.2 = .field al n args ds ss p) ∨ (∃ c ds p, v.2 = .inline c ds ss p))) := by
  rw [mem_events] at he
  rcases he with rfl | rfl | ⟨f, hf, he⟩ | ⟨o, ho, he⟩ | ⟨v, hv, he⟩
  · simp [Model.Validate.mk] at h
  · simp [Model.Validate.mk] at h
  · left
    simp only [fragLocal, List.mem_cons, List.mem_append, List.not_mem_nil, or_false] at he
    rcases he with rfl | (he | he) | rfl
    · simp [Model.Validate.mk] at h
    · exact absurd h (notSet_walkDirs S _ _ e he ss)
    · exact ⟨f, hf, (set_of_setEvents _ _ _ e he h).1⟩
    · simp [Model.Validate.mk] at h
  · right; left
    unfold opLocal at he
    cases hroot : rootOf S o.ty with
    | none =>
      simp only [hroot, List.mem_cons, List.mem_append, List.not_mem_nil, or_false] at he
      rcases he with rfl | rfl | rfl <;> simp [Model.Validate.mk] at h
    | some r =>
      simp only [hroot, List.mem_cons, List.mem_append, List.mem_flatMap, List.not_mem_nil, or_false] at he
      rcases he with rfl | ((⟨v, _, rfl | rfl⟩ | he) | he) | rfl
      · simp [Model.Validate.mk] at h
      · simp [Model.Validate.mk] at h
      · simp [Model.Validate.mk] at h
      · exact absurd h (notSet_walkDirs S _ _ e he ss)
      · exact ⟨o, ho, (set_of_setEvents _ _ _ e he h).1⟩
      · simp [Model.Validate.mk] at h
  · right; right
    refine ⟨v, hv, ?_⟩
    obtain ⟨st, sel⟩ := v
    cases sel with
    | field al n args ds ss' p =>
      simp only [localEvents, List.mem_cons, List.mem_append, List.not_mem_nil, or_false] at he
      rcases he with rfl | rfl | ((he | he) | he) | rfl | rfl
      · simp [Model.Validate.mk] at h
      · simp [Model.Validate.mk] at h
      · exact absurd h (notSet_walkArgs S _ _ _ e he ss)
      · exact absurd h (notSet_walkDirs S _ _ e he ss)
      · obtain ⟨h1, h2⟩ := set_of_setEvents _ _ _ e he h
        subst h1
        exact ⟨h2, Or.inl ⟨al, n, args, ds, p, rfl⟩⟩
      · simp [Model.Validate.mk] at h
      · simp [Model.Validate.mk] at h
    | spread n ds p =>
      simp only [localEvents, List.mem_cons, List.mem_append, List.not_mem_nil, or_false] at he
      rcases he with rfl | rfl | he | rfl | rfl
      · simp [Model.Validate.mk] at h
      · simp [Model.Validate.mk] at h
      · exact absurd h (notSet_walkDirs S _ _ e he ss)
      · simp [Model.Validate.mk] at h
      · simp [Model.Validate.mk] at h
    | inline c ds ss' p =>
      simp only [localEvents, List.mem_cons, List.mem_append, List.not_mem_nil, or_false] at he
      rcases he with rfl | rfl | (he | he) | rfl | rfl
      · simp [Model.Validate.mk] at h
      · simp [Model.Validate.mk] at h
      · exact absurd h (notSet_walkDirs S _ _ e he ss)
      · obtain ⟨h1, h2⟩ := set_of_setEvents _ _ _ e he h
        subst h1
        exact ⟨h2, Or.inr ⟨c, ds, p, rfl⟩⟩
      · simp [Model.Validate.mk] at h
      · simp [Model.Validate.mk] at h

/-- every inline fragment of the document carries a type condition -/
def DocTypedInlines (d : Doc) : Prop := ∀ s ∈ allSels d, inlineTyped s

instance : DecidablePred inlineTyped := fun s => by cases s <;> (unfold inlineTyped; infer_instance)
instance (d : Doc) : Decidable (DocTypedInlines d) := by unfold DocTypedInlines; infer_instance

theorem typed_of_mem (d : Doc) (hd : DocTypedInlines d) (ss : List Sel) (h : ∀ x ∈ flatSels ss, x ∈ allSels d) : TypedInlines ss :=
  fun x hx => hd x (h x hx)

theorem allSels_frag (d : Doc) (f : FragDef) (hf : f ∈ d.frags) : ∀ x ∈ flatSels f.sels, x ∈ allSels d := by
  intro x hx; simp only [allSels, List.mem_append, List.mem_flatMap]; exact Or.inr ⟨f, hf, hx⟩
theorem allSels_op (d : Doc) (o : OpDef) (ho : o ∈ d.ops) : ∀ x ∈ flatSels o.sels, x ∈ allSels d := by
  intro x hx; simp only [allSels, List.mem_append, List.mem_flatMap]; exact Or.inl ⟨o, ho, hx⟩

theorem allSels_trans (d : Doc) (y : Sel) (hy : y ∈ allSels d) (x : Sel) (hx : x ∈ flatSel y) : x ∈ allSels d := by
  simp only [allSels, List.mem_append, List.mem_flatMap] at hy ⊢
  rcases hy with ⟨o, ho, hy⟩ | ⟨f, hf, hy⟩
  · exact Or.inl ⟨o, ho, flatSels_trans _ y hy x hx⟩
  · exact Or.inr ⟨f, hf, flatSels_trans _ y hy x hx⟩

/-- OverlappingFieldsCanBeMerged is SOUND w.r.t. §5.3.2 Field Selection Merging on documents all of
    whose inline fragments carry a type condition: whatever it reports is a conflict for the
    reference validator too (the converse is the defect `overlapKeyedByCondition`). -/
theorem overlap_sound (S : VSchema) (d : Doc) (hs : Served S d) (hd : DocTypedInlines d) (k : Model.Validate.Kind)
    (hk : k ∈ ruleOverlap d (events S {} d)) : violates_FieldSelectionMerging S d = true := by
  obtain ⟨fuel, hfuel⟩ : ∃ f, Spec.Validate.docFuel d = f + 1 := by
    rw [docFuel_eq]
    exact ⟨1 + (d.frags.map (fun f => Spec.Validate.selsSize f.sels + 1)).sum + (d.ops.map (fun o => Spec.Validate.selsSize o.sels + 1)).sum, by omega⟩
  have hdf : ∀ f ∈ d.frags, TypedInlines f.sels := fun f hf => typed_of_mem d hd _ (allSels_frag d f hf)
  unfold ruleOverlap at hk
  obtain ⟨e, he, hk⟩ := List.mem_flatMap.mp hk
  split at hk
  · rename_i ss hev
    rw [docFuel_model_eq, hfuel] at hk
    have key : ∀ p0, TypedInlines ss → specCheck S d p0 ss = true := by
      intro p0 hss
      unfold specCheck
      rw [hfuel, report_spec S d hdf fuel p0 ss hss k hk]; rfl
    rw [merging_eq]
    simp only [Bool.or_eq_true, List.any_eq_true]
    rcases enterSet_cases S d e he ss hev with ⟨f, hf, rfl⟩ | ⟨o, ho, rfl⟩ | ⟨v, hv, hne, hsel⟩
    · exact Or.inl (Or.inr ⟨f, hf, key _ (hdf f hf)⟩)
    · exact Or.inl (Or.inl ⟨o, ho, key _ (typed_of_mem d hd _ (allSels_op d o ho))⟩)
    · right
      have hmem : v.2 ∈ allSels d := by
        rw [← docSels_served S d hs, ← docVisits_snd]; exact List.mem_map_of_mem hv
      obtain ⟨w, hw, hw2⟩ := (exists_specDocVisits_snd S d (fun s => s = v.2)).mpr ⟨v.2, hmem, rfl⟩
      refine ⟨toNode w, by rw [allNodes_eq]; exact List.mem_map_of_mem hw, ?_⟩
      obtain ⟨p, s⟩ := w
      simp only at hw2
      subst hw2
      have hsub : TypedInlines ss := by
        apply typed_of_mem d hd
        intro x hx
        apply allSels_trans d v.2 hmem x
        rcases hsel with ⟨al, n, args, ds, q, h⟩ | ⟨c, ds, q, h⟩ <;> rw [h] <;> simp [flatSel, hx]
      rcases hsel with ⟨al, n, args, ds, q, h⟩ | ⟨c, ds, q, h⟩
      · rw [h]
        simp only [toNode, nodeCheck, Bool.and_eq_true, Bool.not_eq_true', List.isEmpty_eq_false_iff]
        exact ⟨hne, key _ hsub⟩
      · rw [h]
        simp only [toNode, nodeCheck]
        exact key _ hsub
  · cases hk

end AGV.Lemmas.ValidateOverlap
