import Scr.K1
namespace AGV.Lemmas.ValidateRules
open AGV.Core AGV.Model.Validate AGV.Lemmas.ValidateWalk AGV.Lemmas.ValidateMachine AGV.Lemmas.ValidateSpecNodes
open AGV.Spec.Validate (tyDef fieldType)

abbrev KAState := Option (List ArgDef × Bool)

/-- `KnownArgumentNames` as a machine: `current_args` survives an unknown field -/
def kaM (S : VSchema) : Machine KAState where
  step cur e := match e.ev with
    | .enterDir dr => ((S.dir? dr.name).map (fun dd => (dd.args, true)), [])
    | .exitDir _ => (none, [])
    | .enterField _ n _ _ _ =>
      (match e.par.bind (fun p => S.field? p n) with
       | some f => (some (f.args, false), [])
       | none => (cur, []))
    | .exitField => (none, [])
    | .enterArg n _ =>
      (cur, match cur with
        | some (defs, isDir) => if defs.any (·.name = n) then [] else [if isDir then Kind.unknownArgDir else Kind.unknownArgField]
        | none => [])
    | _ => (cur, [])

theorem ruleKnownArgs_eq (S : VSchema) (cur evs) : ruleKnownArgs S cur evs = (kaM S).run cur evs := by
  induction evs generalizing cur with
  | nil => simp [ruleKnownArgs, Machine.run]
  | cons e es ih =>
    rcases e with ⟨ev, c, p⟩
    cases ev with
    | enterField al n args ds ss =>
      cases h : p.bind (fun q => S.field? q n) <;> simp [ruleKnownArgs, Machine.run_cons, kaM, ih, h]
    | enterArg n v => rcases cur with _ | ⟨defs, isDir⟩ <;> simp [ruleKnownArgs, Machine.run_cons, kaM, ih]
    | _ => simp [ruleKnownArgs, Machine.run_cons, kaM, ih]

/-- the verdict on one argument name against the current definitions -/
def judgeArg (cur : KAState) (n : String) : List Model.Validate.Kind :=
  match cur with
  | some (defs, isDir) => if defs.any (·.name = n) then [] else [if isDir then Kind.unknownArgDir else Kind.unknownArgField]
  | none => []

def judgeArgs (cur : KAState) (args : List (String × DValue)) : List Model.Validate.Kind := args.flatMap (fun a => judgeArg cur a.1)

theorem kaM_args (S : VSchema) (st defs) (cur : KAState) (args : List (String × DValue)) :
    (kaM S).run cur (walkArgs S {} st defs args) = judgeArgs cur args ∧ (kaM S).final cur (walkArgs S {} st defs args) = cur := by
  induction args with
  | nil => exact ⟨rfl, rfl⟩
  | cons a as ih =>
    rw [walkArgs_cons]
    simp only [Machine.run_cons, Machine.final]
    rw [show (kaM S).step cur (mk st (.enterArg a.1 a.2)) = (cur, judgeArg cur a.1) from rfl]
    simp only []
    rw [show ∀ x, (kaM S).step cur (mk st (.inputVars x)) = (cur, []) from fun _ => rfl,
      show (kaM S).step cur (mk st (.exitArg a.1)) = (cur, []) from rfl]
    simp [ih.1, ih.2, judgeArgs]

def dirsKA (S : VSchema) (ds : List Dir) : List Model.Validate.Kind :=
  ds.flatMap (fun dr => judgeArgs ((S.dir? dr.name).map (fun dd => (dd.args, true))) dr.args)

theorem kaM_dirs (S : VSchema) (st) (cur : KAState) (ds : List Dir) :
    (kaM S).run cur (walkDirs S {} st ds) = dirsKA S ds := by
  induction ds generalizing cur with
  | nil => rfl
  | cons dr ds ih =>
    rw [walkDirs_cons]
    simp only [Machine.run_cons, Machine.run_append, dirsKA, List.flatMap_cons] at ih ⊢
    rw [show (kaM S).step cur (mk st (.enterDir dr)) = ((S.dir? dr.name).map (fun dd => (dd.args, true)), []) from rfl]
    simp only [List.nil_append, (kaM_args S st _ _ dr.args).1, (kaM_args S st _ _ dr.args).2]
    rw [show ∀ s, (kaM S).step s (mk st (.exitDir dr)) = (none, []) from fun _ => rfl]
    simp [ih]

def notKAEv (e : Evt) : Bool := match e.ev with | .enterArg .. => false | _ => true
theorem kaM_silent (S : VSchema) (s e) (h : notKAEv e = true) : ((kaM S).step s e).2 = [] := by
  rcases e with ⟨ev, c, p⟩
  cases ev <;> simp_all [kaM, notKAEv]
  split <;> rfl

theorem notKAEv_enterSet (st ss) : (enterSetEv st ss).all notKAEv = true := by
  cases ss <;> simp [enterSetEv, notKAEv, mk]
theorem notKAEv_exitSet (st ss) : (exitSetEv st ss).all notKAEv = true := by
  cases ss <;> simp [exitSetEv, notKAEv, mk]
theorem notKAEv_post (S : VSchema) (st sel) : (postEvents S st sel).all notKAEv = true := by
  cases sel <;> simp [postEvents, notKAEv_exitSet] <;> simp [notKAEv, mk]

/-- the field is a field of the walker's current type, or it carries no arguments -/
def ArgsKnown (S : VSchema) (st : Stack) : Sel → Prop
  | .field _ n args _ _ _ => (fieldDefs S st n).isSome = true ∨ args = []
  | _ => True

/-- what `KnownArgumentNames` reports at one selection (when `ArgsKnown`) -/
def nodeKA (S : VSchema) (st : Stack) : Sel → List Model.Validate.Kind
  | .field _ n args ds _ _ => judgeArgs ((fieldDefs S st n).map (fun a => (a, false))) args ++ dirsKA S ds
  | .spread _ ds _ => dirsKA S ds
  | .inline _ ds _ _ => dirsKA S ds

theorem kaM_pre (S : VSchema) (s st sel) (hG : ArgsKnown S st sel) : (kaM S).run s (preEvents S st sel) = nodeKA S st sel := by
  cases sel with
  | field al n args ds ss p =>
    simp only [preEvents, Machine.run_cons, Machine.run_append, kaM_dirs, nodeKA]
    rw [show (kaM S).step s (mk st .enterSel) = (s, []) from rfl]
    simp only [List.nil_append]
    rw [Machine.silent (kaM S) notKAEv (kaM_silent S) _ (notKAEv_enterSet _ _)]
    simp only [List.append_nil]
    have hstep : (kaM S).step s (mk (fieldTy S st n :: st) (.enterField al n args ds ss)) =
        ((match (Stack.cur st).bind (fun p => S.field? p n) with | some f => some (f.args, false) | none => s), []) := by
      simp only [kaM, mk, par_cons]
      cases (Stack.cur st).bind (fun p => S.field? p n) <;> rfl
    rw [hstep]
    simp only [List.nil_append, (kaM_args S _ _ _ args).1]
    rcases hG with hG | hG
    · simp only [fieldDefs] at hG ⊢
      cases h : (Stack.cur st).bind (fun p => S.field? p n) with
      | none => simp [h] at hG
      | some f => simp
    · subst hG; simp [judgeArgs]
  | spread n ds p =>
    simp only [preEvents, Machine.run_cons, Machine.run_append, kaM_dirs, nodeKA, Machine.run_nil]
    simp [kaM, mk]
  | inline c ds ss p =>
    simp only [preEvents, Machine.run_cons, Machine.run_append, kaM_dirs, nodeKA,
      Machine.silent (kaM S) notKAEv (kaM_silent S) _ (notKAEv_enterSet _ _)]
    simp [kaM, mk]

def opKA (S : VSchema) (o : OpDef) : List Model.Validate.Kind :=
  match rootOf S o.ty with
  | some _ => dirsKA S o.dirs
  | none => []

theorem ruleKnownArgs_events (S : VSchema) (d : Doc) (hG : ∀ v ∈ docVisits S d, ArgsKnown S v.1 v.2) :
    ruleKnownArgs S none (events S {} d) =
      d.frags.flatMap (fun f => dirsKA S f.dirs ++ (visitsSels S (fragSt S f) f.sels).flatMap (fun v => nodeKA S v.1 v.2))
      ++ d.ops.flatMap (fun o => opKA S o ++ (opVisits S o).flatMap (fun v => nodeKA S v.1 v.2)) := by
  rw [ruleKnownArgs_eq,
    Machine.run_events_on (kaM S) S d (ArgsKnown S) (nodeKA S) (fun f => dirsKA S f.dirs) (opKA S)
      (fun s st sel h => kaM_pre S s st sel h)
      (fun s st sel => Machine.silent (kaM S) notKAEv (kaM_silent S) _ (notKAEv_post S st sel) s)]
  · intro s f _
    simp only [fragPre, Machine.run_cons, Machine.run_append, kaM_dirs,
      Machine.silent (kaM S) notKAEv (kaM_silent S) _ (notKAEv_enterSet _ _)]
    simp [kaM, mk]
  · intro s f
    exact Machine.silent (kaM S) notKAEv (kaM_silent S) _ (by simp [fragPost, notKAEv_exitSet]; simp [notKAEv, mk]) s
  · intro s o _
    unfold opPre opKA
    cases rootOf S o.ty with
    | none => simp [kaM, mk]
    | some r =>
      simp only [Machine.run_cons, Machine.run_append, kaM_dirs,
        Machine.silent (kaM S) notKAEv (kaM_silent S) _ (notKAEv_enterSet _ _)]
      rw [Machine.silent (kaM S) notKAEv (kaM_silent S) (varEvents _ _) (by simp [varEvents, List.all_flatMap, notKAEv, mk])]
      simp [kaM, mk]
  · intro s o
    exact Machine.silent (kaM S) notKAEv (kaM_silent S) _ (by unfold opPost; cases rootOf S o.ty <;> simp [notKAEv_exitSet] <;> simp [notKAEv, mk]) s
  · intro s; simp [kaM, mk]
  · exact hG

end AGV.Lemmas.ValidateRules
