import AGV.Props.C09
import AGV.Lemmas.ValidateValues
namespace AGV.Props.C09
open AGV.Core AGV.Model.Validate

section rules2
open AGV.Lemmas.ValidateRules AGV.Lemmas.ValidateWalk AGV.Lemmas.ValidateGraph AGV.Lemmas.ValidateSpecNodes
open AGV.Spec.Validate
variable (S : VSchema) (d : Doc) (vars : List (String × GValue)) (o : Option String)

/-- what the graph rules presuppose, from the reference rules: §5.2.1.1, §5.2.2.1, §5.5.1.1 hold
    (the parser checks them before validation) and every operation has a root type -/
theorem graphHyp_of (h1 : violates_OperationNameUniqueness d = false) (h2 : violates_LoneAnonymousOperation d = false)
    (h3 : violates_FragmentNameUniqueness d = false) (hs : violates_OperationTypeExists S d = false) : GraphHyp S d :=
  ⟨h1, h2, h3, served_of S d hs⟩

/-- NoFragmentCycles = §5.5.2.2 Fragment Spreads Must Not Form Cycles -/
theorem c09_rule_no_fragment_cycles (hG : GraphHyp S d) :
    Kind.cycle ∈ strictErrors S {} d vars o ↔ violates_FragmentSpreadsMustNotFormCycles d = true := by
  rw [strict_cycle, scopeTable_events S d hG.nodup, rule_no_fragment_cycles S d hG]; simp

/-- NoUnusedFragments = §5.5.1.4 Fragments Must Be Used -/
theorem c09_rule_no_unused_fragments (hG : GraphHyp S d) :
    Kind.unusedFragment ∈ strictErrors S {} d vars o ↔ violates_FragmentsMustBeUsed d = true := by
  rw [strict_unusedFragment, scopeTable_events S d hG.nodup, rule_no_unused_fragments S d hG]; simp

/-- NoUndefinedVariables = §5.8.3 All Variable Uses Defined -/
theorem c09_rule_no_undefined_variables (hG : GraphHyp S d) :
    (Kind.undefVarOp ∈ strictErrors S {} d vars o ∨ Kind.undefVar ∈ strictErrors S {} d vars o) ↔
      violates_AllVariableUsesDefined d = true := by
  rw [strict_undefVar S d vars o _ (Or.inl rfl), strict_undefVar S d vars o _ (Or.inr rfl), scopeTable_events S d hG.nodup,
    ← rule_no_undefined_variables S d hG]
  constructor
  · rintro (h | h)
    · exact ⟨_, h, Or.inl rfl⟩
    · exact ⟨_, h, Or.inr rfl⟩
  · rintro ⟨k, hk, rfl | rfl⟩
    · exact Or.inl hk
    · exact Or.inr hk

/-- NoUnusedVariables = §5.8.4 All Variables Used -/
theorem c09_rule_no_unused_variables (hG : GraphHyp S d) :
    (Kind.unusedVarOp ∈ strictErrors S {} d vars o ∨ Kind.unusedVar ∈ strictErrors S {} d vars o) ↔
      violates_AllVariablesUsed d = true := by
  rw [strict_unusedVar S d vars o _ (Or.inl rfl), strict_unusedVar S d vars o _ (Or.inr rfl), scopeTable_events S d hG.nodup,
    ← rule_no_unused_variables S d hG]
  constructor
  · rintro (h | h)
    · exact ⟨_, h, Or.inl rfl⟩
    · exact ⟨_, h, Or.inr rfl⟩
  · rintro ⟨k, hk, rfl | rfl⟩
    · exact Or.inl hk
    · exact Or.inr hk

/-- the recursion guard that runs before validation fires only on a fragment cycle (§5.5.2.2) -/
theorem c09_rule_recursion_guard (h : PreKind.recursionDepth ∈ preErrors d) :
    violates_FragmentSpreadsMustNotFormCycles d = true := pre_recursionDepth d h

/-- VariableInAllowedPosition = §5.8.5 All Variable Usages Are Allowed (well-formed registry; no
    variable with the literal `null` as default, see `c09_counterexample_null_default`) -/
theorem c09_rule_variables_in_allowed_position (hG : GraphHyp S d) (hW : SchemaWF S) (hN : NoNullDefault d) :
    Kind.varPosition ∈ strictErrors S {} d vars o ↔ violates_AllVariableUsagesAllowed S d = true := by
  rw [strict_varPosition, scopeTable_events S d hG.nodup]
  exact rule_variables_in_allowed_position S d hG hW.block.typed (hW.roots d).exist hN

/-- KnownArgumentNames = §5.4.1 Argument Names, where the rule's `current_args` cannot go stale
    (every field that carries arguments is a field of its parent type) and `__typename` carries no
    arguments (see `c09_counterexample_typename_arguments`) -/
theorem c09_rule_known_argument_names (hW : SchemaWF S) (hs : violates_OperationTypeExists S d = false)
    (hK : ArgsOnKnownFields S d) (hT : ∀ s ∈ allSels d, typenameNoArgs s) :
    (Kind.unknownArgField ∈ strictErrors S {} d vars o ∨ Kind.unknownArgDir ∈ strictErrors S {} d vars o) ↔
      violates_ArgumentNames S d = true := by
  rw [strict_knownArgs S d vars o _ (Or.inr rfl), strict_knownArgs S d vars o _ (Or.inl rfl)]
  exact rule_known_argument_names S d hW.block.typed (served_of S d hs) (hW.roots d).exist hK hT

/-- §5.6 Values Of Correct Type = its argument half or its default-value half -/
theorem c09_values_of_correct_type_split :
    violates_ValuesOfCorrectType S d = ((argSites S d).any (siteBadValue S) || d.ops.any (fun o => o.vars.any (varBadDefault S))) :=
  valuesOfCorrectType_eq S d

/-- DefaultValuesOfCorrectType = the default-value half of §5.6, up to variables of unknown type
    (reported by KnownTypeNames / §5.8.2), where `is_valid_input_value` and §5.6.1 agree on the defaults -/
theorem c09_rule_default_values (hs : violates_OperationTypeExists S d = false) (hD : DefaultsAgree S d) :
    (Kind.invalidDefault ∈ strictErrors S {} d vars o ∨ ∃ op ∈ d.ops, ∃ v ∈ op.vars, S.exists? v.ty.base = false) ↔
      (d.ops.any (fun o => o.vars.any (varBadDefault S)) = true ∨ ∃ op ∈ d.ops, ∃ v ∈ op.vars, S.exists? v.ty.base = false) := by
  rw [strict_stateless S d vars o _ (by decide)]
  exact rule_default_values S d (served_of S d hs) hD

/-- ArgumentsOfCorrectType = the argument half of §5.6, for documents whose arguments are literals
    without variables, where `is_valid_input_value` and §5.6.1 agree on these literals -/
theorem c09_rule_arguments_of_correct_type (hW : SchemaWF S) (hs : violates_OperationTypeExists S d = false)
    (hV : DocVarFree d) (hA : ArgLiteralsAgree S d) :
    Kind.argInvalid ∈ strictErrors S {} d vars o ↔ (argSites S d).any (siteBadValue S) = true := by
  rw [strict_argInvalid]
  exact rule_arguments_of_correct_type S d vars o hW.block.typed (served_of S d hs) (hW.roots d).exist hV hA

/-- the three reference rules the pinned tree has no (working) rule for are what a repaired
    implementation reports in addition: §5.3.2, §5.2.3.1, §6.1.2 -/
theorem c09_rule_repaired :
    Kind.repaired ∈ repairedErrors S {} d vars o ↔
      (violates_FieldSelectionMerging S d = true ∨ violates_SingleRootField d (closureFuel d) = true
        ∨ violates_VariableValues S d vars o = true) := by
  unfold repairedErrors
  simp only [List.mem_append]
  cases violates_FieldSelectionMerging S d <;> cases violates_SingleRootField d (closureFuel d)
    <;> cases violates_VariableValues S d vars o <;> simp

end rules2
end AGV.Props.C09
