import Scr.G2
namespace AGV.Lemmas.ValidateGraph
open AGV.Core AGV.Model.Validate AGV.Lemmas.ValidateWalk AGV.Lemmas.ValidateMachine

theorem scope_beq (a b : Scope) : (a == b) = decide (a = b) := by
  rw [Bool.eq_iff_iff]
  cases a <;> cases b <;> simp [BEq.beq, instBEqScope.beq]
  rename_i x y
  show (x == y) = true ↔ x = y
  simp
instance : LawfulBEq Scope where
  rfl := by intro a; simp [scope_beq]
  eq_of_beq := by intro a b h; simpa [scope_beq] using h

-- ------------------------------------------------------------------ what one callback records

def evSpread (e : Evt) : List String := match e.ev with | .enterSpread n _ => [n] | _ => []
def evUsed (e : Evt) : List String := match e.ev with | .enterArg _ v => refVars v | _ => []
def evUsage (e : Evt) : List (String × TypeRef × Bool) := match e.ev with | .inputVars us => us | _ => []
/-- not the start of a new scope -/
def bodyEv (e : Evt) : Bool := match e.ev with | .enterOp _ | .enterFrag _ => false | _ => true

/-- the record of a scope after the callbacks `L` -/
def ext (r : ScopeRec) (L : List Evt) : ScopeRec :=
  { r with spreads := r.spreads ++ L.flatMap evSpread, used := r.used ++ L.flatMap evUsed, usages := r.usages ++ L.flatMap evUsage }

theorem ext_scope (r L) : (ext r L).scope = r.scope := rfl
theorem ext_nil (r) : ext r [] = r := by simp [ext]
theorem ext_append (r A B) : ext r (A ++ B) = ext (ext r A) B := by simp [ext, List.flatMap_append]

def scopes (tbl : List ScopeRec) : List Scope := tbl.map (·.scope)

theorem updRec_last (tbl : List ScopeRec) (r : ScopeRec) (s : Scope) (g : ScopeRec → ScopeRec)
    (hs : r.scope = s) (hn : s ∉ scopes tbl) : updRec (tbl ++ [r]) s g = tbl ++ [g r] := by
  unfold updRec
  have h1 : (tbl ++ [r]).any (·.scope == s) = true := by simp [hs]
  rw [if_pos h1]
  have hmap : tbl.map (fun x => if x.scope == s then g x else x) = tbl := by
    conv => rhs; rw [← List.map_id tbl]
    apply List.map_congr_left
    intro x hx
    have : x.scope ≠ s := fun h => hn (h ▸ List.mem_map_of_mem hx)
    simp [this]
  simp only [List.map_append, List.map_cons, List.map_nil, hs, beq_self_eq_true, if_true, hmap]

theorem updRec_new (tbl : List ScopeRec) (s : Scope) (g : ScopeRec → ScopeRec) (hn : s ∉ scopes tbl) :
    updRec tbl s g = tbl ++ [g { scope := s }] := by
  unfold updRec
  have h1 : tbl.any (·.scope == s) = false := by
    simp only [List.any_eq_false, beq_iff_eq]
    intro x hx h
    exact hn (h ▸ List.mem_map_of_mem hx)
  simp [h1]

/-- inside a scope, the walk only extends the record of that scope -/
theorem scopeTable_body (L : List Evt) (hL : L.all bodyEv = true) (tbl : List ScopeRec) (r : ScopeRec) (s : Scope)
    (hs : r.scope = s) (hn : s ∉ scopes tbl) (rest : List Evt) :
    scopeTable (some s) (tbl ++ [r]) (L ++ rest) = scopeTable (some s) (tbl ++ [ext r L]) rest := by
  induction L generalizing r with
  | nil => simp [ext_nil]
  | cons e L ih =>
    simp only [List.all_cons, Bool.and_eq_true] at hL
    have hb := hL.1
    rw [List.cons_append, scopeTable]
    have hext : ∀ r' : ScopeRec, r' = ext r [e] → r'.scope = s ∧ ext r' L = ext r (e :: L) := by
      intro r' h; subst h
      exact ⟨hs, by rw [← ext_append]; rfl⟩
    cases hev : e.ev <;> simp only [bodyEv, hev] at hb <;> try cases hb
    all_goals first
      | (simp only [updRec_last tbl r s _ hs hn]
         obtain ⟨h1, h2⟩ := hext _ (by simp [ext, evSpread, evUsed, evUsage, hev]; rfl)
         rw [ih hL.2 _ h1, h2])
      | (have h2 : ext r (e :: L) = ext r L := by
           simp [ext, List.flatMap_cons, evSpread, evUsed, evUsage, hev]
         rw [ih hL.2 r hs, h2])


theorem body_walkArgs (S : VSchema) (st defs args) : (walkArgs S {} st defs args).all bodyEv = true := by
  simp [walkArgs, bodyEv, Model.Validate.mk]
theorem body_walkDirs (S : VSchema) (st ds) : (walkDirs S {} st ds).all bodyEv = true := by
  simp only [walkDirs, List.all_flatMap, List.all_append, body_walkArgs]; simp [bodyEv, Model.Validate.mk]

theorem all_iff_mem {α} (l : List α) (p : α → Bool) : l.all p = true ↔ ∀ x ∈ l, p x = true := by simp

theorem body_localEvents (S : VSchema) (st s) : (localEvents S st s).all bodyEv = true := by
  rw [all_iff_mem]
  intro e he
  have hA := fun st defs args => (all_iff_mem _ _).mp (body_walkArgs S st defs args)
  have hD := fun st ds => (all_iff_mem _ _).mp (body_walkDirs S st ds)
  cases s with
  | field al n args ds ss p =>
    simp only [localEvents, List.mem_cons, List.mem_append, List.not_mem_nil, or_false] at he
    rcases he with rfl | rfl | ((h | h) | h) | rfl | rfl <;> try rfl
    · exact hA _ _ _ e h
    · exact hD _ _ e h
    · cases ss <;> simp [setEvents] at h; rcases h with rfl | rfl <;> rfl
  | spread n ds p =>
    simp only [localEvents, List.mem_cons, List.mem_append, List.not_mem_nil, or_false] at he
    rcases he with rfl | rfl | h | rfl | rfl <;> try rfl
    exact hD _ _ e h
  | inline c ds ss p =>
    simp only [localEvents, List.mem_cons, List.mem_append, List.not_mem_nil, or_false] at he
    rcases he with rfl | rfl | (h | h) | rfl | rfl <;> try rfl
    · exact hD _ _ e h
    · cases ss <;> simp [setEvents] at h; rcases h with rfl | rfl <;> rfl

/-- the callbacks of a fragment definition after `enter_fragment_definition` -/
def fragBody (S : VSchema) (f : FragDef) : List Evt :=
  walkDirs S {} (fragSt S f) f.dirs ++ walkSet S {} (fragSt S f) f.sels ++ [mk (fragSt S f) (.exitFrag f)]
theorem walkFrag_body (S : VSchema) (f : FragDef) : walkFrag S {} f = mk (fragSt S f) (.enterFrag f) :: fragBody S f := by
  simp [walkFrag, fragBody, fragSt]

/-- the callbacks of an operation after `enter_operation_definition` -/
def opBody (S : VSchema) (o : OpDef) : List Evt :=
  (match rootOf S o.ty with
   | some r =>
     o.vars.flatMap (fun v => [mk (opSt S r) (.enterVar v), mk (opSt S r) (.exitVar v)])
      ++ walkDirs S {} (opSt S r) o.dirs ++ walkSet S {} (opSt S r) o.sels
   | none => [mk [] (.report .notConfigured)]) ++ [mk [] (.exitOp o)]
theorem walkOp_body (S : VSchema) (o : OpDef) : walkOp S {} o = mk [] (.enterOp o) :: opBody S o := by
  unfold walkOp opBody
  cases rootOf S o.ty <;> simp [opSt]

theorem body_walkSels (S : VSchema) (st ss) : (walkSels S {} st ss).all bodyEv = true := by
  rw [all_iff_mem]
  intro e he
  obtain ⟨v, _, hv⟩ := (mem_walkSels S st e ss).mp he
  exact (all_iff_mem _ _).mp (body_localEvents S v.1 v.2) e hv

theorem body_walkSet (S : VSchema) (st ss) : (walkSet S {} st ss).all bodyEv = true := by
  rw [walkSet_eq]
  simp only [List.all_append, body_walkSels, Bool.and_true, Bool.and_eq_true]
  cases ss <;> simp [enterSetEv, exitSetEv, bodyEv, Model.Validate.mk]

theorem body_fragBody (S : VSchema) (f) : (fragBody S f).all bodyEv = true := by
  simp [fragBody, body_walkDirs, body_walkSet, bodyEv, Model.Validate.mk]

theorem body_opBody (S : VSchema) (o) : (opBody S o).all bodyEv = true := by
  unfold opBody
  cases rootOf S o.ty <;> simp [body_walkDirs, body_walkSet, bodyEv, Model.Validate.mk]

/-- the record of a fragment / of an operation in the final table -/
def recF (S : VSchema) (f : FragDef) : ScopeRec := ext { scope := .frag f.name } (fragBody S f)
def recO (S : VSchema) (o : OpDef) : ScopeRec := ext { scope := .op o.name } (opBody S o)

theorem scopeTable_frags (S : VSchema) (fs : List FragDef) (cur : Option Scope) (tbl : List ScopeRec) (rest : List Evt)
    (hn : (scopes tbl ++ fs.map (fun f => Scope.frag f.name)).Nodup) :
    ∃ cur', scopeTable cur tbl (fs.flatMap (walkFrag S {}) ++ rest) = scopeTable cur' (tbl ++ fs.map (recF S)) rest := by
  induction fs generalizing cur tbl with
  | nil => exact ⟨cur, by simp⟩
  | cons f fs ih =>
    have hnf : Scope.frag f.name ∉ scopes tbl := by
      intro h
      have := (List.nodup_append.mp hn).2.2 _ h (Scope.frag f.name) (by simp)
      exact this rfl
    have hn' : (scopes (tbl ++ [recF S f]) ++ fs.map (fun f => Scope.frag f.name)).Nodup := by
      have : scopes (tbl ++ [recF S f]) = scopes tbl ++ [Scope.frag f.name] := by simp [scopes, recF, ext_scope]
      rw [this]; simpa [List.append_assoc] using hn
    obtain ⟨cur', h⟩ := ih (some (.frag f.name)) (tbl ++ [recF S f]) hn'
    refine ⟨cur', ?_⟩
    rw [List.flatMap_cons, walkFrag_body, List.cons_append, List.cons_append, List.append_assoc, scopeTable]
    simp only [Model.Validate.mk]
    rw [updRec_new tbl _ id hnf, id, scopeTable_body _ (body_fragBody S f) tbl { scope := .frag f.name } (.frag f.name) rfl hnf]
    simpa [recF, List.append_assoc] using h

theorem scopeTable_ops (S : VSchema) (os : List OpDef) (cur : Option Scope) (tbl : List ScopeRec) (rest : List Evt)
    (hn : (scopes tbl ++ os.map (fun o => Scope.op o.name)).Nodup) :
    ∃ cur', scopeTable cur tbl (os.flatMap (walkOp S {}) ++ rest) = scopeTable cur' (tbl ++ os.map (recO S)) rest := by
  induction os generalizing cur tbl with
  | nil => exact ⟨cur, by simp⟩
  | cons o os ih =>
    have hnf : Scope.op o.name ∉ scopes tbl := by
      intro h
      have := (List.nodup_append.mp hn).2.2 _ h (Scope.op o.name) (by simp)
      exact this rfl
    have hn' : (scopes (tbl ++ [recO S o]) ++ os.map (fun o => Scope.op o.name)).Nodup := by
      have : scopes (tbl ++ [recO S o]) = scopes tbl ++ [Scope.op o.name] := by simp [scopes, recO, ext_scope]
      rw [this]; simpa [List.append_assoc] using hn
    obtain ⟨cur', h⟩ := ih (some (.op o.name)) (tbl ++ [recO S o]) hn'
    refine ⟨cur', ?_⟩
    rw [List.flatMap_cons, walkOp_body, List.cons_append, List.cons_append, List.append_assoc, scopeTable]
    simp only [Model.Validate.mk]
    rw [updRec_new tbl _ id hnf, id, scopeTable_body _ (body_opBody S o) tbl { scope := .op o.name } (.op o.name) rfl hnf]
    simpa [recO, List.append_assoc] using h

/-- scopes are not repeated: fragment names are unique, operation names are unique and at most
    one operation is anonymous -/
def ScopesNodup (d : Doc) : Prop :=
  (d.frags.map (fun f => Scope.frag f.name) ++ d.ops.map (fun o => Scope.op o.name)).Nodup

/-- the table of the four graph rules after the walk -/
def docTable (S : VSchema) (d : Doc) : List ScopeRec := d.frags.map (recF S) ++ d.ops.map (recO S)

theorem scopeTable_events (S : VSchema) (d : Doc) (hn : ScopesNodup d) :
    scopeTable none [] (events S {} d) = docTable S d := by
  unfold events
  simp only [List.cons_append, List.nil_append, List.append_assoc]
  rw [scopeTable]
  simp only [Model.Validate.mk]
  obtain ⟨c1, h1⟩ := scopeTable_frags S d.frags none [] (d.ops.flatMap (walkOp S {}) ++ [⟨.exitDoc, Stack.cur [], Stack.par []⟩])
    (by simpa [scopes] using (List.nodup_append.mp hn).1)
  rw [h1]
  obtain ⟨c2, h2⟩ := scopeTable_ops S d.ops c1 ([] ++ d.frags.map (recF S)) [⟨.exitDoc, Stack.cur [], Stack.par []⟩]
    (by
      have : scopes ([] ++ d.frags.map (recF S)) = d.frags.map (fun f => Scope.frag f.name) := by
        simp [scopes, recF, ext_scope, Function.comp_def]
      rw [this]; exact hn)
  rw [h2]
  simp [scopeTable, docTable]

end AGV.Lemmas.ValidateGraph
