import Scr.G10
namespace AGV.Lemmas.ValidateMachine
open AGV.Core AGV.Model.Validate AGV.Lemmas.ValidateWalk

namespace Machine
variable {σ : Type} (M : Machine σ)

theorem run_flatMap_mem {α} (g : α → List Evt) (out : α → List Model.Validate.Kind) (l : List α)
    (h : ∀ s, ∀ x ∈ l, M.run s (g x) = out x) (s : σ) : M.run s (l.flatMap g) = l.flatMap out := by
  induction l generalizing s with
  | nil => simp
  | cons x l ih =>
    simp only [List.flatMap_cons, run_append]
    rw [h s x (by simp), ih (fun s y hy => h s y (by simp [hy]))]

mutual
/-- `run_walkSel` for a rule that is state-independent only on the selections satisfying `G` -/
theorem run_walkSel_on (S : VSchema) (G : Stack → Sel → Prop) (out : Stack → Sel → List Model.Validate.Kind)
    (hpre : ∀ s st sel, G st sel → M.run s (preEvents S st sel) = out st sel)
    (hpost : ∀ s st sel, M.run s (postEvents S st sel) = []) (s : σ) (st : Stack) :
    (sel : Sel) → (∀ v ∈ visitsSel S st sel, G v.1 v.2) →
      M.run s (walkSel S {} st sel) = (visitsSel S st sel).flatMap (fun v => out v.1 v.2)
  | .field al n args ds ss p => by
    intro hG
    have h0 : G st (.field al n args ds ss p) := hG (st, .field al n args ds ss p) (by simp [visitsSel])
    rw [walkSel_eq, run_append, run_append, hpre _ _ _ h0, hpost]
    simp only [childSt, childrenOf, visitsSel, List.flatMap_cons, List.append_nil]
    rw [run_walkSels_on S G out hpre hpost _ _ ss (fun v hv => hG v (by simp [visitsSel, hv]))]
  | .spread n ds p => by
    intro hG
    have h0 : G st (.spread n ds p) := hG (st, .spread n ds p) (by simp [visitsSel])
    rw [walkSel_eq, run_append, run_append, hpre _ _ _ h0, hpost]
    simp [childSt, childrenOf, visitsSel, walkSels]
  | .inline c ds ss p => by
    intro hG
    have h0 : G st (.inline c ds ss p) := hG (st, .inline c ds ss p) (by simp [visitsSel])
    rw [walkSel_eq, run_append, run_append, hpre _ _ _ h0, hpost]
    simp only [childSt, childrenOf, visitsSel, List.flatMap_cons, List.append_nil]
    rw [run_walkSels_on S G out hpre hpost _ _ ss (fun v hv => hG v (by simp [visitsSel, hv]))]
theorem run_walkSels_on (S : VSchema) (G : Stack → Sel → Prop) (out : Stack → Sel → List Model.Validate.Kind)
    (hpre : ∀ s st sel, G st sel → M.run s (preEvents S st sel) = out st sel)
    (hpost : ∀ s st sel, M.run s (postEvents S st sel) = []) (s : σ) (st : Stack) :
    (ss : List Sel) → (∀ v ∈ visitsSels S st ss, G v.1 v.2) →
      M.run s (walkSels S {} st ss) = (visitsSels S st ss).flatMap (fun v => out v.1 v.2)
  | [] => by intro _; simp [walkSels, visitsSels]
  | x :: xs => by
    intro hG
    simp only [walkSels, visitsSels, run_append, List.flatMap_append]
    rw [run_walkSel_on S G out hpre hpost _ _ x (fun v hv => hG v (by simp [visitsSels, hv])),
      run_walkSels_on S G out hpre hpost _ _ xs (fun v hv => hG v (by simp [visitsSels, hv]))]
end

theorem run_events_on (S : VSchema) (d : Doc) (G : Stack → Sel → Prop) (out : Stack → Sel → List Model.Validate.Kind)
    (fout : FragDef → List Model.Validate.Kind) (oout : OpDef → List Model.Validate.Kind)
    (hpre : ∀ s st sel, G st sel → M.run s (preEvents S st sel) = out st sel)
    (hpost : ∀ s st sel, M.run s (postEvents S st sel) = [])
    (hfpre : ∀ s, ∀ f ∈ d.frags, M.run s (fragPre S f) = fout f) (hfpost : ∀ s f, M.run s (fragPost S f) = [])
    (hopre : ∀ s, ∀ o ∈ d.ops, M.run s (opPre S o) = oout o) (hopost : ∀ s o, M.run s (opPost S o) = [])
    (hdoc : ∀ s, (M.step s (Model.Validate.mk [] .enterDoc)).2 = [] ∧ (M.step s (Model.Validate.mk [] .exitDoc)).2 = [])
    (hG : ∀ v ∈ docVisits S d, G v.1 v.2) (s : σ) :
    M.run s (events S {} d) =
      d.frags.flatMap (fun f => fout f ++ (visitsSels S (fragSt S f) f.sels).flatMap (fun v => out v.1 v.2))
      ++ d.ops.flatMap (fun o => oout o ++ (opVisits S o).flatMap (fun v => out v.1 v.2)) := by
  have hf : ∀ s, ∀ f ∈ d.frags, M.run s (walkFrag S {} f) = fout f ++ (visitsSels S (fragSt S f) f.sels).flatMap (fun v => out v.1 v.2) := by
    intro s f hfm
    rw [walkFrag_eq, run_append, run_append, hfpre _ f hfm, hfpost,
      run_walkSels_on M S G out hpre hpost _ _ _ (fun v hv => hG v (by
        simp only [docVisits, List.mem_append, List.mem_flatMap]; exact Or.inl ⟨f, hfm, hv⟩))]
    simp
  have ho : ∀ s, ∀ o ∈ d.ops, M.run s (walkOp S {} o) = oout o ++ (opVisits S o).flatMap (fun v => out v.1 v.2) := by
    intro s o hom
    have hGo : ∀ v ∈ opVisits S o, G v.1 v.2 := fun v hv => hG v (by
      simp only [docVisits, List.mem_append, List.mem_flatMap]; exact Or.inr ⟨o, hom, hv⟩)
    rw [walkOp_eq, run_append, run_append, hopre _ o hom, hopost]
    have : M.run (M.final s (opPre S o)) (opWalk S o) = (opVisits S o).flatMap (fun v => out v.1 v.2) := by
      unfold opWalk
      unfold opVisits at hGo ⊢
      cases hroot : rootOf S o.ty with
      | none => simp
      | some r =>
        simp only [hroot] at hGo ⊢
        exact run_walkSels_on M S G out hpre hpost _ _ _ hGo
    rw [this]; simp
  simp only [events, run_append, run_cons, run_nil, (hdoc _).1, (hdoc _).2, List.nil_append, List.append_nil,
    run_flatMap_mem M _ _ _ hf, run_flatMap_mem M _ _ _ ho]

end Machine
end AGV.Lemmas.ValidateMachine
