import Scr.O4
namespace AGV.Lemmas.ValidateOverlap
open AGV.Core AGV.Model.Validate AGV.Lemmas.ValidateWalk AGV.Lemmas.ValidateSpecNodes AGV.Lemmas.ValidateRules
open AGV.Spec.Validate (FInfo fieldsInSet setCanMerge Node allNodes fieldType rootType violates_FieldSelectionMerging)

mutual
theorem flatSel_trans : (s : Sel) → ∀ y ∈ flatSel s, ∀ x ∈ flatSel y, x ∈ flatSel s
  | .field al n args ds ss p => by
    intro y hy x hx
    simp only [flatSel, List.mem_cons] at hy ⊢
    rcases hy with rfl | hy
    · simpa [flatSel] using hx
    · exact Or.inr (flatSels_trans ss y hy x hx)
  | .spread n ds p => by
    intro y hy x hx
    simp only [flatSel, List.mem_singleton] at hy
    subst hy; exact hx
  | .inline c ds ss p => by
    intro y hy x hx
    simp only [flatSel, List.mem_cons] at hy ⊢
    rcases hy with rfl | hy
    · simpa [flatSel] using hx
    · exact Or.inr (flatSels_trans ss y hy x hx)
theorem flatSels_trans : (ss : List Sel) → ∀ y ∈ flatSels ss, ∀ x ∈ flatSel y, x ∈ flatSels ss
  | [] => by intro y hy; simp [flatSels] at hy
  | s :: ss => by
    intro y hy x hx
    simp only [flatSels, List.mem_append] at hy ⊢
    rcases hy with hy | hy
    · exact Or.inl (flatSel_trans s y hy x hx)
    · exact Or.inr (flatSels_trans ss y hy x hx)
end

/-- §5.3.2 for one selection set under a parent type -/
def specCheck (S : VSchema) (d : Doc) (parent : Option String) (ss : List Sel) : Bool :=
  !(setCanMerge S d (Spec.Validate.docFuel d) true (fieldsInSet S d (Spec.Validate.docFuel d) parent ss []).1)

/-- §5.3.2 for the sub-selection of one node -/
def nodeCheck (S : VSchema) (d : Doc) (n : Node) : Bool :=
  match n with
  | .field p _ f _ _ ss => !ss.isEmpty && specCheck S d ((p.bind (fun p => fieldType S p f)).map (·.1.base)) ss
  | .inline p c _ ss => specCheck S d (match c with | some t => some t | none => p) ss
  | _ => false

theorem merging_eq (S : VSchema) (d : Doc) :
    violates_FieldSelectionMerging S d =
      (d.ops.any (fun o => specCheck S d (rootType S o.ty) o.sels) || d.frags.any (fun f => specCheck S d (some f.cond) f.sels)
        || (allNodes S d).any (nodeCheck S d)) := by
  rfl

end AGV.Lemmas.ValidateOverlap
