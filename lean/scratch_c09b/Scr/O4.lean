import Scr.O3
namespace AGV.Lemmas.ValidateOverlap
open AGV.Core AGV.Model.Validate AGV.Lemmas.ValidateWalk
open AGV.Spec.Validate (dvEq argsEqual FInfo fieldsInSet setCanMerge)

theorem argsEqual_false_of (a b : List (String × DValue))
    (h : a.length ≠ b.length
      ∨ a.any (fun x => match b.find? (·.1 = x.1) with | some y => !(dvEq x.2 y.2) | none => true) = true) :
    argsEqual a b = false := by
  unfold argsEqual
  rcases h with h | h
  · simp [h]
  · obtain ⟨x, hx, hm⟩ := List.any_eq_true.mp h
    rw [Bool.and_eq_false_iff]
    right
    rw [List.all_eq_false]
    refine ⟨x, hx, ?_⟩
    cases hf : b.find? (·.1 = x.1) with
    | none => simp
    | some y => simp only [hf] at hm ⊢; simpa using hm

theorem setCanMerge_false (S : VSchema) (d : Doc) (fuel : Nat) (L : List FInfo) (fa fb : FInfo) (ha : fa ∈ L) (hb : fb ∈ L)
    (hk : fa.key = fb.key) (hp : fa.parent = fb.parent) (hne : (fa.name == fb.name && argsEqual fa.args fb.args) = false) :
    setCanMerge S d (fuel + 1) true L = false := by
  unfold setCanMerge
  rw [List.all_eq_false]
  refine ⟨fa, ha, ?_⟩
  rw [Bool.not_eq_true, List.all_eq_false]
  refine ⟨fb, hb, ?_⟩
  simp only [hk, bne_self_eq_false, Bool.false_eq_true, if_false, hp, beq_self_eq_true, Bool.true_or, Bool.and_true,
    Bool.not_true, Bool.false_or, hne, Bool.and_false, Bool.false_and]
  simp

/-- two collected fields in conflict are two fields the reference validator refuses to merge -/
theorem conf_spec (S : VSchema) (d : Doc) (fuel : Nat) (p0 : Option String) (L : List FInfo) (a b : OutField)
    (hc : Conf a b) (ha : ∃ f ∈ L, FRel none p0 a f) (hb : ∃ f ∈ L, FRel none p0 b f) :
    setCanMerge S d (fuel + 1) true L = false := by
  obtain ⟨fa, hfa, ka, na, aa, pa⟩ := ha
  obtain ⟨fb, hfb, kb, nb, ab, pb⟩ := hb
  obtain ⟨hcond, hkey, hdiff⟩ := hc
  have hp : fa.parent = fb.parent := by
    rcases pa with ⟨c1, p1⟩ | ⟨t, c1, p1⟩ <;> rcases pb with ⟨c2, p2⟩ | ⟨t', c2, p2⟩
    · rw [p1, p2]
    · rw [c1, c2] at hcond; cases hcond
    · rw [c1, c2] at hcond; cases hcond
    · rw [c1, c2] at hcond; cases hcond; rw [p1, p2]
  apply setCanMerge_false S d fuel L fa fb hfa hfb (by rw [← ka, ← kb, hkey]) hp
  rw [← na, ← nb, ← aa, ← ab]
  rcases hdiff with h | h | h
  · simp [h]
  · simp [argsEqual_false_of _ _ (Or.inl h)]
  · simp [argsEqual_false_of _ _ (Or.inr h)]

/-- a report of the implemented rule at a selection set makes the reference validator refuse the
    same set, whatever parent type it is checked under (all inline fragments typed) -/
theorem report_spec (S : VSchema) (d : Doc) (hd : ∀ f ∈ d.frags, TypedInlines f.sels) (fuel : Nat) (p0 : Option String)
    (ss : List Sel) (hss : TypedInlines ss) (k : Model.Validate.Kind) (hk : k ∈ (findConflicts d (fuel + 1) none ss {}).errs) :
    setCanMerge S d (fuel + 1) true (fieldsInSet S d (fuel + 1) p0 ss []).1 = false := by
  obtain ⟨a, ha, b, hb, hc⟩ := errs_conf d (fuel + 1) ss k hk
  have hrel := flat_rel S d hd (fuel + 1) none p0 ss [] hss
  exact conf_spec S d fuel p0 _ a b hc (hrel.2 a ha) (hrel.2 b hb)

end AGV.Lemmas.ValidateOverlap
