import Scr.L3
namespace AGV.Lemmas.ValidateLiterals
open AGV.Core AGV.Model.Validate
open AGV.Spec.Validate (litOk litOf litOfL litOfF tyDef kindIs)

theorem oneof_agree (fs : List (String × GValue)) :
    (fs.length == 1 && (match fs with | [(_, .null)] => false | _ => true)) =
      ((litOfF fs).length == 1 && (litOfF fs).all (fun p => match p.2 with | .null => false | _ => true)) := by
  cases fs with
  | nil => simp [litOfF]
  | cons p rest =>
    obtain ⟨k, v⟩ := p
    cases rest with
    | nil => cases v <;> simp [litOfF, litOf]
    | cons q rest => obtain ⟨k', v'⟩ := q; simp [litOfF]

theorem keys_litOfF (fs : List (String × GValue)) : (litOfF fs).map (·.1) = fs.map (·.1) := by
  rw [litOfF_eq]; simp [List.map_map, Function.comp_def]

/-- the input-object case, given the comparison for the values of the entries -/
theorem valid_eq_lit_obj (S : VSchema) (hS : LitSchema S) (fuel : Nat) (n : String) (fs : List (String × GValue))
    (hin : S.kindOf n = some .input) (hk : keysOk (.obj fs) = true)
    (ih : ∀ t c, keysOk c = true → validInput S {} fuel t c = litOk S fuel t (litOf c)) :
    validInput S {} (fuel + 1) (.named n) (.obj fs) = litOk S (fuel + 1) (.named n) (litOf (.obj fs)) := by
  obtain ⟨idef, hidef, hnames⟩ := hS.inputs n hin
  have hidef' : S.inputs.find? (·.name = n) = some idef := hidef
  simp only [keysOk, Bool.and_eq_true, Bool.not_eq_true'] at hk
  have hkeys : (fs.map (·.1)).Nodup := (AGV.Lemmas.ValidateGraph.hasDup_false_iff _).mp hk.1
  have hvals := keysOkF_mem fs hk.2
  simp only [validInput, litOk, litOf, hin, kindIs_of, hidef, hidef']
  have e1 : (Core.Kind.input == Core.Kind.enum) = false := by decide
  have e2 : (Core.Kind.input == Core.Kind.input) = true := by decide
  simp only [e1, e2, Bool.false_eq_true, if_false, if_true, keys_litOfF, hk.1, Bool.not_false, Bool.and_true]
  rw [Bool.eq_iff_iff]
  simp only [Bool.and_eq_true, Bool.or_eq_true, Bool.not_eq_true', List.all_eq_true, List.any_eq_true, decide_eq_true_eq]
  have hv : ∀ p ∈ fs, ∀ t, validInput S {} fuel t p.2 = litOk S fuel t (litOf p.2) := fun p hp t => ih t p.2 (hvals p hp)
  have hOA := object_agree idef.fields hnames fs hkeys (fun f => f.ty.isNonNull && f.default.isNone)
    (validInput S {} fuel) (litOk S fuel) hv
  have hmem : ∀ x : String × DValue, x ∈ litOfF fs ↔ ∃ p ∈ fs, x = (p.1, litOf p.2) := by
    intro x; rw [litOfF_eq, List.mem_map]
    constructor
    · rintro ⟨p, hp, rfl⟩; exact ⟨p, hp, rfl⟩
    · rintro ⟨p, hp, rfl⟩; exact ⟨p, hp, rfl⟩
  constructor
  · rintro ⟨⟨hO, hB⟩, hC⟩
    have hPB : ∀ f ∈ idef.fields, (∀ p, fs.find? (·.1 = f.name) = some p → validInput S {} fuel f.ty p.2 = true)
        ∧ (fs.find? (·.1 = f.name) = none → (f.ty.isNonNull && f.default.isNone) = false) := by
      intro f hf
      have := hB f hf
      refine ⟨fun p hp => ?_, fun hn => ?_⟩
      · simp only [hp] at this; exact this
      · simp only [hn] at this; exact (Bool.not_eq_true' _).mp this
    obtain ⟨QA, QC⟩ := hOA.mp ⟨hPB, hC⟩
    refine ⟨⟨?_, ?_⟩, ?_⟩
    · intro x hx
      obtain ⟨p, hp, rfl⟩ := (hmem x).mp hx
      obtain ⟨f, hf, hval⟩ := QA p hp
      simp only [hf]; exact hval
    · intro f hf
      rcases QC f hf with h | ⟨p, hp, hname⟩
      · exact Or.inl h
      · exact Or.inr ⟨(p.1, litOf p.2), (hmem _).mpr ⟨p, hp, rfl⟩, hname⟩
    · cases ho : idef.oneof with
      | false => exact Or.inl rfl
      | true =>
        right
        simp only [ho, if_true] at hO
        match fs, hO with
        | [], hO => simp at hO
        | [(k, v)], hO => cases v <;> simp [litOfF, litOf] at hO ⊢
        | _ :: _ :: _, hO => simp at hO
  · rintro ⟨⟨hA, hC⟩, hO⟩
    have hQA : ∀ p ∈ fs, ∃ f, idef.fields.find? (·.name = p.1) = some f ∧ litOk S fuel f.ty (litOf p.2) = true := by
      intro p hp
      have := hA (p.1, litOf p.2) ((hmem _).mpr ⟨p, hp, rfl⟩)
      cases hfind : idef.fields.find? (·.name = p.1) with
      | none => simp [hfind] at this
      | some f => simp only [hfind] at this; exact ⟨f, rfl, this⟩
    have hQC : ∀ f ∈ idef.fields, (f.ty.isNonNull && f.default.isNone) = false ∨ ∃ p ∈ fs, p.1 = f.name := by
      intro f hf
      rcases hC f hf with h | ⟨x, hx, hname⟩
      · exact Or.inl h
      · obtain ⟨p, hp, rfl⟩ := (hmem x).mp hx
        exact Or.inr ⟨p, hp, hname⟩
    obtain ⟨PB, PC⟩ := hOA.mpr ⟨hQA, hQC⟩
    refine ⟨⟨?_, ?_⟩, PC⟩
    · cases ho : idef.oneof with
      | false => simp
      | true =>
        simp only [if_true]
        rcases hO with h | ⟨h1, h2⟩
        · rw [ho] at h; cases h
        · match fs, h1, h2 with
          | [], h1, _ => simp [litOfF] at h1
          | [(k, v)], _, h2 => cases v <;> simp [litOfF, litOf] at h2 ⊢
          | _ :: _ :: _, h1, _ => simp [litOfF] at h1
    · intro f hf
      obtain ⟨h1, h2⟩ := PB f hf
      cases hfind : fs.find? (·.1 = f.name) with
      | none => simp only []; exact (Bool.not_eq_true' _).mpr (h2 hfind)
      | some p => simp only []; exact h1 p hfind

end AGV.Lemmas.ValidateLiterals
