import Scr.L1
namespace AGV.Lemmas.ValidateLiterals
open AGV.Core AGV.Model.Validate
open AGV.Spec.Validate (litOk litOf litOfL litOfF tyDef kindIs)

mutual
/-- no object literal inside the constant repeats a key -/
def keysOk : GValue → Bool
  | .list xs => keysOkL xs
  | .obj fs => !(Spec.Validate.hasDup (fs.map (·.1))) && keysOkF fs
  | _ => true
def keysOkL : List GValue → Bool
  | [] => true
  | x :: xs => keysOk x && keysOkL xs
def keysOkF : List (String × GValue) → Bool
  | [] => true
  | (_, x) :: xs => keysOk x && keysOkF xs
end

theorem keysOkL_mem (xs : List GValue) (h : keysOkL xs = true) : ∀ x ∈ xs, keysOk x = true := by
  induction xs with
  | nil => intro x hx; cases hx
  | cons a as ih =>
    simp only [keysOkL, Bool.and_eq_true] at h
    intro x hx
    rcases List.mem_cons.mp hx with rfl | hx
    · exact h.1
    · exact ih h.2 x hx

theorem keysOkF_mem (fs : List (String × GValue)) (h : keysOkF fs = true) : ∀ p ∈ fs, keysOk p.2 = true := by
  induction fs with
  | nil => intro x hx; cases hx
  | cons a as ih =>
    obtain ⟨k, v⟩ := a
    simp only [keysOkF, Bool.and_eq_true] at h
    intro x hx
    rcases List.mem_cons.mp hx with rfl | hx
    · exact h.1
    · exact ih h.2 x hx

theorem litOfL_eq (xs : List GValue) : litOfL xs = xs.map litOf := by
  induction xs with
  | nil => rfl
  | cons a as ih => simp [litOfL, ih]

theorem litOfF_eq (fs : List (String × GValue)) : litOfF fs = fs.map (fun p => (p.1, litOf p.2)) := by
  induction fs with
  | nil => rfl
  | cons a as ih => obtain ⟨k, v⟩ := a; simp [litOfF, ih]

theorem kindIs_of (S : VSchema) (n : String) (k : Core.Kind) :
    kindIs S n k = (match S.kindOf n with | some k' => k' == k | none => false) := by
  simp only [kindIs, VSchema.kindOf, VSchema.ty?, Schema.find?, tyDef]
  cases S.base.types.find? (·.name = n) <;> rfl

/-- registry conditions under which `is_valid_input_value` and §5.6.1 can be compared -/
structure LitSchema (S : VSchema) : Prop where
  /-- the five built-in scalar names are scalars of the schema -/
  builtins : ∀ n ∈ ["Int", "Float", "String", "Boolean", "ID"], S.kindOf n = some .scalar
  /-- every input-object type has its definition, with unique field names -/
  inputs : ∀ n, S.kindOf n = some .input → ∃ idef, S.input? n = some idef ∧ (idef.fields.map (·.name)).Nodup

theorem litOf_not_var (c : GValue) : ∀ n, litOf c ≠ .var n := by
  intro n; cases c <;> simp [litOf]

end AGV.Lemmas.ValidateLiterals
