import AGV.Lemmas.ValidateOverlap
namespace AGV.Lemmas.ValidateLiterals
open AGV.Core AGV.Model.Validate
open AGV.Spec.Validate (litOk litOf litOfL litOfF tyDef kindIs)

theorem find_key_of_nodup {β : Type} (fs : List (String × β)) (hn : (fs.map (·.1)).Nodup) (p : String × β) (hp : p ∈ fs) :
    fs.find? (·.1 = p.1) = some p := by
  induction fs with
  | nil => cases hp
  | cons q qs ih =>
    simp only [List.map_cons, List.nodup_cons] at hn
    rcases List.mem_cons.mp hp with rfl | h
    · simp
    · have hne : q.1 ≠ p.1 := fun he => hn.1 (he ▸ List.mem_map_of_mem h)
      simp [List.find?_cons, hne, ih hn.2 h]

theorem find_name_of_nodup (fields : List ArgDef) (hn : (fields.map (·.name)).Nodup) (f : ArgDef) (hf : f ∈ fields) :
    fields.find? (·.name = f.name) = some f := by
  induction fields with
  | nil => cases hf
  | cons q qs ih =>
    simp only [List.map_cons, List.nodup_cons] at hn
    rcases List.mem_cons.mp hf with rfl | h
    · simp
    · have hne : q.name ≠ f.name := fun he => hn.1 (he ▸ List.mem_map_of_mem h)
      simp [List.find?_cons, hne, ih hn.2 h]

/-- the field-by-field comparison of an input object: the implementation walks the declared fields and
    looks each one up among the given entries, the specification walks the entries and looks each
    one up among the declared fields; with unique keys and unique field names the two agree -/
theorem object_agree (fields : List ArgDef) (hF : (fields.map (·.name)).Nodup)
    (fs : List (String × GValue)) (hK : (fs.map (·.1)).Nodup) (req : ArgDef → Bool)
    (vM : TypeRef → GValue → Bool) (vS : TypeRef → DValue → Bool)
    (hv : ∀ p ∈ fs, ∀ t, vM t p.2 = vS t (litOf p.2)) :
    ((∀ f ∈ fields, (∀ p, fs.find? (·.1 = f.name) = some p → vM f.ty p.2 = true)
        ∧ (fs.find? (·.1 = f.name) = none → req f = false))
      ∧ (∀ p ∈ fs, ∃ f ∈ fields, f.name = p.1)) ↔
    ((∀ p ∈ fs, ∃ f, fields.find? (·.name = p.1) = some f ∧ vS f.ty (litOf p.2) = true)
      ∧ (∀ f ∈ fields, req f = false ∨ ∃ p ∈ fs, p.1 = f.name)) := by
  constructor
  · rintro ⟨hB, hC⟩
    refine ⟨?_, ?_⟩
    · intro p hp
      obtain ⟨f, hf, hname⟩ := hC p hp
      refine ⟨f, by rw [← hname]; exact find_name_of_nodup fields hF f hf, ?_⟩
      have := (hB f hf).1 p (by rw [hname]; exact find_key_of_nodup fs hK p hp)
      rw [← hv p hp]; exact this
    · intro f hf
      cases hfind : fs.find? (·.1 = f.name) with
      | none => exact Or.inl ((hB f hf).2 hfind)
      | some p => exact Or.inr ⟨p, List.mem_of_find?_eq_some hfind, by simpa using List.find?_some hfind⟩
  · rintro ⟨hA, hC⟩
    refine ⟨?_, ?_⟩
    · intro f hf
      refine ⟨?_, ?_⟩
      · intro p hfind
        have hp := List.mem_of_find?_eq_some hfind
        have hname : p.1 = f.name := by simpa using List.find?_some hfind
        obtain ⟨g, hg, hval⟩ := hA p hp
        rw [hname, find_name_of_nodup fields hF f hf] at hg
        cases hg
        rw [hv p hp]; exact hval
      · intro hnone
        rcases hC f hf with h | ⟨p, hp, hname⟩
        · exact h
        · have := List.find?_eq_none.mp hnone p hp
          simp [hname] at this
    · intro p hp
      obtain ⟨f, hf, _⟩ := hA p hp
      exact ⟨f, List.mem_of_find?_eq_some hf, by simpa using List.find?_some hf⟩

end AGV.Lemmas.ValidateLiterals
