import Scr.G7
namespace AGV.Lemmas.ValidateGraph
open AGV.Core AGV.Model.Validate AGV.Lemmas.ValidateWalk AGV.Lemmas.ValidateMachine AGV.Lemmas.ValidateRules
open AGV.Lemmas.ValidateSpecNodes
open AGV.Spec.Validate (usedFrags usagesIn siteUsages nodeUsages opNodes fragNodes tyDef fieldType usageAllowed typesCompatible
  violates_AllVariableUsagesAllowed)

-- ------------------------------------------------------------------ usages of one value

theorem unwrapNN_eq (t : TypeRef) : unwrapNN t = t.nullable := by cases t <;> rfl

theorem inputUsages_none (S : VSchema) (fuel : Nat) (b : Bool) (v : DValue) : inputUsages S fuel none b v = [] := by
  cases fuel with
  | zero => rfl
  | succ f => cases v <;> simp [inputUsages]

theorem inputUsages_some (S : VSchema) (fuel : Nat) (t : TypeRef) (b : Bool) (v : DValue) :
    inputUsages S fuel (some t) b v = usagesIn S fuel t b v := by
  induction fuel generalizing t b v with
  | zero => rfl
  | succ f ih =>
    cases v with
    | var n => simp [inputUsages, usagesIn]
    | list xs =>
      simp only [inputUsages, usagesIn, Option.map_some, unwrapNN_eq]
      cases t.nullable with
      | list t' => simp only []; congr 1; funext x; exact ih _ _ _
      | named _ => rfl
      | nonNull _ => rfl
    | obj fs =>
      simp only [inputUsages, usagesIn, Option.map_some, unwrapNN_eq]
      cases t.nullable with
      | named n =>
        simp only [VSchema.input?]
        cases S.inputs.find? (·.name = n) with
        | none => rfl
        | some idef =>
          simp only []
          congr 1; funext p
          cases idef.fields.find? (·.name = p.1) <;> simp [ih]
      | list _ => rfl
      | nonNull _ => rfl
    | null => simp [inputUsages, usagesIn]
    | int _ => simp [inputUsages, usagesIn]
    | float _ => simp [inputUsages, usagesIn]
    | str _ => simp [inputUsages, usagesIn]
    | bool _ => simp [inputUsages, usagesIn]
    | enum _ => simp [inputUsages, usagesIn]

theorem siteUsages_eq (S : VSchema) (defs : Option (List ArgDef)) (args : List (String × DValue)) :
    args.flatMap (argUsages S defs) = siteUsages S defs args := by
  cases defs with
  | none =>
    have : argUsages S none = fun _ => [] := by
      funext a; simp [argUsages, inputUsages_none]
    rw [this]
    simp [siteUsages]
  | some ds =>
    simp only [siteUsages]
    congr 1; funext a
    simp only [argUsages, Option.bind_some]
    cases ds.find? (·.name = a.1) <;> simp [inputUsages_none, inputUsages_some, Model.Validate.valueFuel, Spec.Validate.valueFuel]

/-- usages in the arguments of directives -/
def dirU (S : VSchema) (ds : List Dir) : List (String × TypeRef × Bool) :=
  ds.flatMap (fun dr => siteUsages S ((S.dirs.find? (·.name = dr.name)).map (·.args)) dr.args)

theorem usage_walkArgs (S : VSchema) (st defs args) : (walkArgs S {} st defs args).flatMap evUsage = siteUsages S defs args := by
  rw [← siteUsages_eq]
  induction args with
  | nil => rfl
  | cons a as ih =>
    rw [walkArgs_cons]
    simp [List.flatMap_cons, ih, evUsage, Model.Validate.mk]

theorem usage_walkDirs (S : VSchema) (st ds) : (walkDirs S {} st ds).flatMap evUsage = dirU S ds := by
  induction ds with
  | nil => rfl
  | cons dr ds ih =>
    rw [walkDirs_cons]
    simp only [List.flatMap_cons, List.flatMap_append, usage_walkArgs, ih, evUsage, Model.Validate.mk, dirU, VSchema.dir?]
    simp

/-- what the model records at a visited selection -/
def selUsM (S : VSchema) : Stack × Sel → List (String × TypeRef × Bool)
  | (st, .field _ n args ds _ _) => siteUsages S (fieldDefs S st n) args ++ dirU S ds
  | (_, .spread _ ds _) => dirU S ds
  | (_, .inline _ ds _ _) => dirU S ds

/-- what the reference validator collects at a selection -/
def selUsS (S : VSchema) : Option String × Sel → List (String × TypeRef × Bool)
  | (p, .field _ n args ds _ _) => siteUsages S ((p.bind (fun p => fieldType S p n)).map (·.2)) args ++ dirU S ds
  | (_, .spread _ ds _) => dirU S ds
  | (_, .inline _ ds _ _) => dirU S ds

theorem usage_setEvents (st ss) : (setEvents st ss).flatMap evUsage = [] := by
  cases ss <;> simp [setEvents, evUsage, Model.Validate.mk]

theorem usage_localEvents (S : VSchema) (st s) : (localEvents S st s).flatMap evUsage = selUsM S (st, s) := by
  cases s <;>
    simp [localEvents, List.flatMap_cons, List.flatMap_append, usage_walkArgs, usage_walkDirs, usage_setEvents, evUsage,
      Model.Validate.mk, selUsM]

theorem mem_usage_walkSels (S : VSchema) (st ss) (u : String × TypeRef × Bool) :
    u ∈ (walkSels S {} st ss).flatMap evUsage ↔ ∃ v ∈ visitsSels S st ss, u ∈ selUsM S v := by
  simp only [List.mem_flatMap, mem_walkSels]
  constructor
  · rintro ⟨e, ⟨v, hv, he⟩, hu⟩
    exact ⟨v, hv, by rw [← usage_localEvents]; exact List.mem_flatMap.mpr ⟨e, he, hu⟩⟩
  · rintro ⟨v, hv, hu⟩
    rw [show v = (v.1, v.2) from rfl, ← usage_localEvents] at hu
    obtain ⟨e, he, hu⟩ := List.mem_flatMap.mp hu
    exact ⟨e, ⟨v, hv, he⟩, hu⟩

theorem nodeUsages_eq (S : VSchema) (l : List (Option String × Sel)) : nodeUsages S (l.map toNode) = l.flatMap (selUsS S) := by
  simp only [nodeUsages, List.flatMap_map]
  congr 1; funext w
  obtain ⟨p, s⟩ := w
  cases s <;> rfl

theorem usages_agree (S : VSchema) (hT : TypedSchema S) (st : Stack) (parent : Option String) (s : Sel)
    (h : TyRel (Stack.cur st) parent) : selUsM S (st, s) = selUsS S (parent, s) := by
  cases s with
  | spread n ds p => rfl
  | inline c ds ss p => rfl
  | field al n args ds ss p =>
    simp only [selUsM, selUsS, fieldDefs]
    congr 1
    by_cases hn : n = "__typename"
    · subst hn
      have h1 : ∀ c : Option String, c.bind (fun p => S.field? p "__typename") = none := by
        intro c; cases c <;> simp [hT.noTypenameField]
      rw [h1]
      cases parent with
      | none => simp
      | some p =>
        simp only [Option.bind_some, fieldType, if_true]
        by_cases hc : Spec.Validate.composite S p = true
        · simp only [hc, if_true, Option.map_some, Option.map_none, siteUsages]
          simp [flatMap_const_nil]
        · simp [hc]
    · rcases h with h | ⟨h1, h2⟩
      · rw [h]
        cases parent with
        | none => simp
        | some p =>
          simp only [Option.bind_some, ← field?_eq_fieldType S p n hn]
          cases S.field? p n <;> simp
      · rw [h1, h2]
        simp [hT.stringNoFields n]

end AGV.Lemmas.ValidateGraph
