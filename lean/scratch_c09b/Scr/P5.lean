import Scr.P4
namespace AGV.Props.C09
open AGV.Core AGV.Model.Validate

section partial3
open AGV.Lemmas.ValidateRules AGV.Lemmas.ValidateWalk AGV.Lemmas.ValidateGraph AGV.Lemmas.ValidateSpecNodes
open AGV.Spec.Validate
variable (S : VSchema) (d : Doc) (vars : List (String × GValue)) (o : Option String)

/-- the kinds and reference rules added by the graph rules -/
def graphKinds : List Model.Validate.Kind :=
  [.cycle, .unusedFragment, .undefVarOp, .undefVar, .unusedVarOp, .unusedVar, .varPosition]
def graphRules : List String :=
  ["5.5.1.4 Fragments Must Be Used", "5.5.2.2 Fragment Spreads Must Not Form Cycles", "5.8.3 All Variable Uses Defined",
   "5.8.4 All Variables Used", "5.8.5 All Variable Usages Are Allowed"]

/-- PARTIAL c09, third stage: with the five graph rules (NoFragmentCycles and the parser's
    recursion guard, NoUnusedFragments, NoUndefinedVariables, NoUnusedVariables,
    VariableInAllowedPosition) the equivalence covers 18 of the 22 rule structs (+ walker + all four
    parser checks) against 23 of the 28 reference rules; variables may occur anywhere.  Extra
    hypothesis: no variable has the literal `null` as default. -/
theorem c09_partial_graph (hW : SchemaWF S) (hA : AbstractInhabited S) (hD : docOK d = true) (hN : NoNullDefault d) :
    ((∃ k ∈ preErrors d, k ∈ provedPre ++ [PreKind.recursionDepth])
      ∨ (∃ k ∈ strictErrors S {} d vars o, k ∈ provedKinds ++ typedKinds ++ graphKinds)) ↔
      (∃ r ∈ violations {} S d vars o, r ∈ provedRules ++ typedRules ++ graphRules) := by
  have hT := c09_partial_typed S d vars o hW hA hD
  have up : ((∃ k ∈ preErrors d, k ∈ provedPre) ∨ (∃ k ∈ strictErrors S {} d vars o, k ∈ provedKinds ++ typedKinds)) →
      ((∃ k ∈ preErrors d, k ∈ provedPre ++ [PreKind.recursionDepth])
        ∨ (∃ k ∈ strictErrors S {} d vars o, k ∈ provedKinds ++ typedKinds ++ graphKinds)) := by
    rintro (⟨k, hk, hp⟩ | ⟨k, hk, hp⟩)
    · exact Or.inl ⟨k, hk, List.mem_append_left _ hp⟩
    · exact Or.inr ⟨k, hk, List.mem_append_left _ hp⟩
  have upR : (∃ r ∈ violations {} S d vars o, r ∈ provedRules ++ typedRules) →
      (∃ r ∈ violations {} S d vars o, r ∈ provedRules ++ typedRules ++ graphRules) := by
    rintro ⟨r, hr, hp⟩; exact ⟨r, hr, List.mem_append_left _ hp⟩
  have both : ∀ r, r ∈ violations {} S d vars o → r ∈ provedRules ++ typedRules →
      (((∃ k ∈ preErrors d, k ∈ provedPre ++ [PreKind.recursionDepth])
        ∨ (∃ k ∈ strictErrors S {} d vars o, k ∈ provedKinds ++ typedKinds ++ graphKinds)) ↔
      (∃ r ∈ violations {} S d vars o, r ∈ provedRules ++ typedRules ++ graphRules)) :=
    fun r hr hp => ⟨fun _ => upR ⟨r, hr, hp⟩, fun _ => up (hT.mpr ⟨r, hr, hp⟩)⟩
  cases h1 : violates_OperationNameUniqueness d
  case true => exact both "5.2.1.1 Operation Name Uniqueness" ((mem_violations ..).mpr (by simp [h1])) (by decide)
  cases h2 : violates_LoneAnonymousOperation d
  case true => exact both "5.2.2.1 Lone Anonymous Operation" ((mem_violations ..).mpr (by simp [h2])) (by decide)
  cases h3 : violates_FragmentNameUniqueness d
  case true => exact both "5.5.1.1 Fragment Name Uniqueness" ((mem_violations ..).mpr (by simp [h3])) (by decide)
  cases hs : violates_OperationTypeExists S d
  case true => exact both "operation type not served" ((mem_violations ..).mpr (by simp [hs])) (by decide)
  have hG : GraphHyp S d := graphHyp_of S d h1 h2 h3 hs
  have c1 := c09_rule_no_fragment_cycles S d vars o hG
  have c2 := c09_rule_no_unused_fragments S d vars o hG
  have c3 := c09_rule_no_undefined_variables S d vars o hG
  have c4 := c09_rule_no_unused_variables S d vars o hG
  have c5 := c09_rule_variables_in_allowed_position S d vars o hG hW hN
  have mk : ∀ r, r ∈ violations {} S d vars o → r ∈ graphRules →
      (∃ r ∈ violations {} S d vars o, r ∈ provedRules ++ typedRules ++ graphRules) :=
    fun r hr hp => ⟨r, hr, List.mem_append_right _ hp⟩
  have mkK : ∀ k, k ∈ strictErrors S {} d vars o → k ∈ graphKinds →
      ((∃ k ∈ preErrors d, k ∈ provedPre ++ [PreKind.recursionDepth])
        ∨ (∃ k ∈ strictErrors S {} d vars o, k ∈ provedKinds ++ typedKinds ++ graphKinds)) :=
    fun k hk hp => Or.inr ⟨k, hk, List.mem_append_right _ hp⟩
  constructor
  · rintro (⟨k, hk, hp⟩ | ⟨k, hk, hp⟩)
    · rcases List.mem_append.mp hp with hp | hp
      · exact upR (hT.mp (Or.inl ⟨k, hk, hp⟩))
      · simp only [List.mem_singleton] at hp
        subst hp
        exact mk "5.5.2.2 Fragment Spreads Must Not Form Cycles"
          ((mem_violations ..).mpr (by simp [c09_rule_recursion_guard d hk])) (by decide)
    · rcases List.mem_append.mp hp with hp | hp
      · exact upR (hT.mp (Or.inr ⟨k, hk, hp⟩))
      · simp only [graphKinds, List.mem_cons, List.not_mem_nil, or_false] at hp
        rcases hp with rfl | rfl | rfl | rfl | rfl | rfl | rfl
        · exact mk "5.5.2.2 Fragment Spreads Must Not Form Cycles" ((mem_violations ..).mpr (by simp [c1.mp hk])) (by decide)
        · exact mk "5.5.1.4 Fragments Must Be Used" ((mem_violations ..).mpr (by simp [c2.mp hk])) (by decide)
        · exact mk "5.8.3 All Variable Uses Defined" ((mem_violations ..).mpr (by simp [c3.mp (Or.inl hk)])) (by decide)
        · exact mk "5.8.3 All Variable Uses Defined" ((mem_violations ..).mpr (by simp [c3.mp (Or.inr hk)])) (by decide)
        · exact mk "5.8.4 All Variables Used" ((mem_violations ..).mpr (by simp [c4.mp (Or.inl hk)])) (by decide)
        · exact mk "5.8.4 All Variables Used" ((mem_violations ..).mpr (by simp [c4.mp (Or.inr hk)])) (by decide)
        · exact mk "5.8.5 All Variable Usages Are Allowed" ((mem_violations ..).mpr (by simp [c5.mp hk])) (by decide)
  · rintro ⟨r, hr, hp⟩
    rcases List.mem_append.mp hp with hp | hp
    · exact up (hT.mpr ⟨r, hr, hp⟩)
    · rw [mem_violations] at hr
      simp only [graphRules, List.mem_cons, List.not_mem_nil, or_false] at hp
      rcases hp with rfl | rfl | rfl | rfl | rfl <;> simp at hr
      · exact mkK _ (c2.mpr hr) (by decide)
      · exact mkK _ (c1.mpr hr) (by decide)
      · rcases c3.mpr hr with h | h <;> exact mkK _ h (by decide)
      · rcases c4.mpr hr with h | h <;> exact mkK _ h (by decide)
      · exact mkK _ (c5.mpr hr) (by decide)

/-- the hypotheses of the graph rules hold of the non-trivial valid example (two variables, both used) -/
example : GraphHyp S0 dValid ∧ NoNullDefault dValid :=
  ⟨graphHyp_of S0 dValid (by decide) (by decide) (by decide) (by decide),
   by intro o ho v hv; simp [dValid, q] at ho; subst ho; simp at hv; rcases hv with rfl | rfl <;> simp⟩

end partial3
end AGV.Props.C09
