#!/bin/bash
# usage: c.sh G2   (compiles Scr/G2.lean to olean)
cd /verif/lean
LP=$(lake env printenv LEAN_PATH):/verif/lean/scratch_c09b
if [ -f scratch_c09b/Scr/$1.lean ]; then
LEAN_PATH=$LP timeout 600 lean -o scratch_c09b/Scr/$1.olean scratch_c09b/Scr/$1.lean 2>&1 | grep -v "^consider\|^Note: This linter\|^  omit\|^$\|unused in theorem\|^  \[BEq\|^  \[Lawful" 
else
LEAN_PATH=$LP timeout 600 lean scratch_c09b/$1.lean 2>&1
fi
