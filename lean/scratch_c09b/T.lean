#check @List.Forall₂
