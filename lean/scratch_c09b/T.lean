open List in
#check @List.Nodup.of_map
#check @List.Pairwise.of_map
#check @List.pairwise_map
#check @List.nodup_iff_pairwise_ne
