/-
  C09 — strict validation rejects exactly the documents the GraphQL spec calls invalid.

  Per-rule equivalences PROVED (toggle-free model `strictErrors S {} …` = reference rule, for all
  schemas / documents; `c09_rule_*`, hypothesis where stated: every operation has a root type):
    walker "not configured"      = operation type not served                      (no hypothesis)
    KnownFragmentNames           = 5.5.2.1 Fragment Spread Target Defined
    UniqueVariableNames          = 5.8.1 Variable Uniqueness
    UniqueArgumentNames          = 5.4.2 Argument Uniqueness
    KnownDirectives              = 5.7.1 Directives Are Defined + 5.7.2 Directives Are In Valid Locations
    DirectivesUnique             = 5.7.3 Directives Are Unique Per Location
    KnownTypeNames               = 5.5.1.2 Fragment Spread Type Existence + "variable type exists"
    VariablesAreInputTypes       = 5.8.2 Variables Are Input Types (with the variable half of KnownTypeNames)
    UploadFile                   = the documented Upload restriction               (no hypothesis)
    parser uniqueness checks     = 5.2.1.1, 5.2.2.1, 5.5.1.1                       (no hypothesis)
  `c09_partial`: restricted to these, rejected ↔ invalid, with no hypothesis at all.
  Type-dependent rules PROVED for well-formed registries (`SchemaWF`: String not composite, no field
  called `__typename`, output fields not of input-object type, root types composite):
    ProvidedNonNullArguments     = 5.4.2.1 Required Arguments
    FieldsOnCorrectType + ScalarLeafs + FragmentsOnCompositeTypes
                                 = 5.3.1 Field Selections + 5.3.3 Leaf Field Selections + 5.5.1.3 Fragments
                                   On Composite Types  (as a block only; documents with `docOK`: no
                                   sub-selection below `__typename`)
    PossibleFragmentSpreads      = 5.5.2.3 Fragment Spread Is Possible  (on top of the block; abstract types
                                   have at least one possible type)
  `c09_partial_typed`: with these hypotheses, rejected ↔ invalid restricted to 13 of the 22 rule structs
  (+ walker + parser checks) and 18 of the 28 reference rules.
  NOT proved per rule: KnownArgumentNames (stale `current_args`),
  ArgumentsOfCorrectType, DefaultValuesOfCorrectType, NoFragmentCycles, NoUnusedFragments,
  NoUndefinedVariables, NoUnusedVariables, VariableInAllowedPosition, OverlappingFieldsCanBeMerged
  (+ the recursion guard).

  The two statements that were OPEN are FALSE of the model as stated and are refuted by witnesses
  (`c09_refuted`, `c09_rule_equivalences_refuted`); `c09_rule_equivalences_served` is the corrected,
  proved form of the second; `c09_corrected` is the corrected form of the first and stays OPEN.
  Two earlier counterexamples are no longer counterexamples of the toggle-free model:
  the `ifdef` exemption of FieldsOnCorrectType is a defect of the pinned tree (toggle
  `ifdefSkipsUnknownField`, finding C09-ifdef-skips-unknown-field, `c09_witness_ifdef`), and the
  reference validator now judges variable DEFAULT values as the literals they are (§5.6.1: an enum
  default needs an enum token), so the string default for an enum variable is one more witness of
  `enumAcceptsString` (`c09_witness_enum_default`).

  OBLIGATION c09_dispatch
  OBLIGATION c09_dispatch_exact
  OBLIGATION c09_dispatch_pinned_witness
  OBLIGATION c09_strict_rules_known
  OBLIGATION c09_fast_rules_subset
  OBLIGATION c09_kind_table
  OBLIGATION c09_located
  OBLIGATION c09_before_exec_pre
  OBLIGATION c09_rule_variable_subtype
  OBLIGATION c09_subtype_defect_witness
  OBLIGATION c09_witness_input_value_not_forwarded
  OBLIGATION c09_witness_typename_not_visited
  OBLIGATION c09_witness_overlap
  OBLIGATION c09_witness_single_root
  OBLIGATION c09_witness_input_object_literal
  OBLIGATION c09_witness_enum_string
  OBLIGATION c09_witness_int_range
  OBLIGATION c09_witness_location_default
  OBLIGATION c09_repaired_accepts_valid_example
  OBLIGATION c09_rule_not_configured
  OBLIGATION c09_rule_known_fragment_names
  OBLIGATION c09_rule_unique_variable_names
  OBLIGATION c09_rule_unique_argument_names
  OBLIGATION c09_rule_known_directives
  OBLIGATION c09_rule_directives_unique
  OBLIGATION c09_rule_known_type_names
  OBLIGATION c09_rule_variables_are_input_types
  OBLIGATION c09_rule_upload_file
  OBLIGATION c09_rule_pre_checks
  OBLIGATION c09_partial
  OBLIGATION c09_rule_provided_non_null_arguments
  OBLIGATION c09_rule_fields_leafs_composites
  OBLIGATION c09_rule_possible_fragment_spreads
  OBLIGATION c09_partial_typed
  OBLIGATION c09_witness_schema_wellformed
  OBLIGATION c09_witness_schema_abstract_inhabited
  OBLIGATION c09_counterexample_two_operations
  OBLIGATION c09_witness_ifdef
  OBLIGATION c09_witness_enum_default
  OBLIGATION c09_default_literal_enum
  OBLIGATION c09_refuted
  OBLIGATION c09_rule_equivalences_refuted
  OBLIGATION c09_rule_equivalences_served
  OPEN c09_corrected
-/
import AGV.Model.Validate
import AGV.Spec.Validate
import AGV.Gen.Rules
import AGV.Lemmas.ValidateSpreads

namespace AGV.Props.C09
open AGV.Core AGV.Model.Validate
open AGV.Gen.Rules (strictRules fastChain callbacksOf forwardedByCons callbacks messages)

-- ------------------------------------------------------------------ source-derived: dispatch

def callbacksOfRule (r : String) : List String :=
  match callbacksOf.find? (·.1 = r) with
  | some p => p.2
  | none => []

/-- the two callbacks the pinned `VisitorCons` is known not to forward -/
def inputValueCallbacks : List String := ["enter_input_value", "exit_input_value"]

/-- Every callback a strict-mode rule overrides reaches the rule through the composite visitor,
    EXCEPT possibly the two input-value callbacks (finding C09-input-value-not-forwarded).  Holds on
    the pinned and on the repaired tree; any other dropped callback breaks it. -/
theorem c09_dispatch :
    ∀ r ∈ strictRules, ∀ c ∈ callbacksOfRule r, c ∈ forwardedByCons ∨ c ∈ inputValueCallbacks := by
  decide

/-- is the composite visitor of THIS tree complete for the input-value callbacks? -/
def inputValueForwarded : Bool := inputValueCallbacks.all (fun c => forwardedByCons.contains c)

/-- The dispatch obligation proper, `∀ r ∈ strictRules, callbacksOf r ⊆ forwardedByCons`, holds
    exactly when the two input-value callbacks are forwarded. -/
theorem c09_dispatch_exact :
    (∀ r ∈ strictRules, ∀ c ∈ callbacksOfRule r, c ∈ forwardedByCons) ↔ inputValueForwarded = true := by
  decide

/-- On a tree that does not forward them, a strict-mode rule is deaf to one of its callbacks —
    and that rule is `VariableInAllowedPosition`, the only one overriding `enter_input_value`. -/
theorem c09_dispatch_pinned_witness :
    inputValueForwarded = false →
      "VariableInAllowedPosition" ∈ strictRules ∧
      "enter_input_value" ∈ callbacksOfRule "VariableInAllowedPosition" ∧
      "enter_input_value" ∉ forwardedByCons ∧
      ∀ r ∈ strictRules, "enter_input_value" ∈ callbacksOfRule r → r = "VariableInAllowedPosition" := by
  decide

/-- every rule `check_rules` installs in strict mode is a rule struct with a callback table, every
    callback it overrides is declared by `trait Visitor`, and the model implements that rule -/
def modelledRules : List String :=
  ["ArgumentsOfCorrectType", "DefaultValuesOfCorrectType", "FieldsOnCorrectType", "FragmentsOnCompositeTypes",
   "KnownArgumentNames", "NoFragmentCycles", "KnownFragmentNames", "KnownTypeNames", "NoUndefinedVariables",
   "NoUnusedFragments", "NoUnusedVariables", "UniqueArgumentNames", "UniqueVariableNames", "VariablesAreInputTypes",
   "VariableInAllowedPosition", "ScalarLeafs", "PossibleFragmentSpreads", "ProvidedNonNullArguments",
   "KnownDirectives", "DirectivesUnique", "OverlappingFieldsCanBeMerged", "UploadFile"]

theorem c09_strict_rules_known :
    strictRules = modelledRules ∧
    (∀ r ∈ strictRules, (callbacksOf.find? (·.1 = r)).isSome) ∧
    (∀ p ∈ callbacksOf, ∀ c ∈ p.2, c ∈ callbacks) := by
  decide

/-- fast mode runs a subset of the strict rules (plus the calculators) -/
theorem c09_fast_rules_subset : ∀ p ∈ fastChain, p.1 = "rules" → p.2 ∈ strictRules := by decide

-- ------------------------------------------------------------------ source-derived: messages and locations

/-- Every message kind of the model is a row of the table extracted from the `report_error` /
    `RuleError::new` calls: same rule struct, and the call passes at least one location. -/
theorem c09_kind_table (k : Model.Validate.Kind) (h : k ≠ .repaired) :
    ∃ row, messages[k.idx]? = some row ∧ row.1 = k.rule ∧ row.2.2 ≥ 1 := by
  cases k <;> first | (exact absurd rfl h) | decide

/-- every report in the rule files and in the walker carries at least one location -/
theorem c09_located : ∀ row ∈ messages, row.2.2 ≥ 1 := by decide

/-- a request rejected before validation (parser, recursion guard) never reaches the rules, and a
    request the model rejects is not accepted: the outcome is a function of the two error lists -/
theorem c09_before_exec_pre (S : VSchema) (D : Defects) (d : Doc) (vars : List (String × GValue)) (o : Option String) :
    (checkRules S D d vars o).isRejected = true ↔
      (preErrors d ≠ [] ∨ strictErrors S D d vars o ++ repairedErrors S D d vars o ≠ []) := by
  unfold checkRules
  cases h1 : preErrors d with
  | nil =>
    cases h2 : strictErrors S D d vars o ++ repairedErrors S D d vars o with
    | nil => simp [Outcome.isRejected]
    | cons a as => simp [Outcome.isRejected]
  | cons a as => simp [Outcome.isRejected]

-- ------------------------------------------------------------------ rule equivalences (model = spec)

/-- `MetaTypeName::is_subtype` with the (List, NonNull) arm restored is exactly the specification's
    AreTypesCompatible(variableType, locationType). -/
theorem c09_rule_variable_subtype (pos var : TypeRef) :
    isSubtype {} pos var = Spec.Validate.typesCompatible var pos := by
  induction pos generalizing var with
  | named p =>
    induction var with
    | named v => simp only [isSubtype, Spec.Validate.typesCompatible]; exact BEq.comm
    | list v _ => simp [isSubtype, Spec.Validate.typesCompatible]
    | nonNull v ih => simp [isSubtype, Spec.Validate.typesCompatible, ih]
  | list p ihp =>
    induction var with
    | named v => simp [isSubtype, Spec.Validate.typesCompatible]
    | list v _ => simp [isSubtype, Spec.Validate.typesCompatible, ihp]
    | nonNull v ih => simp [isSubtype, Spec.Validate.typesCompatible, ih]
  | nonNull p ihp =>
    cases var with
    | named v => simp [isSubtype, Spec.Validate.typesCompatible]
    | list v => simp [isSubtype, Spec.Validate.typesCompatible]
    | nonNull v => simp [isSubtype, Spec.Validate.typesCompatible, ihp]

/-- the pinned `is_subtype` refuses a `[Int]!` variable where `[Int]` is expected -/
theorem c09_subtype_defect_witness :
    isSubtype { subtypeListNonNull := true } (.list (.named "Int")) (.nonNull (.list (.named "Int"))) = false ∧
    Spec.Validate.typesCompatible (.nonNull (.list (.named "Int"))) (.list (.named "Int")) = true := by
  decide

-- ------------------------------------------------------------------ a small schema for the witnesses

def ty (n : String) (k : Core.Kind) (fs : List FieldDef := []) (ms : List String := []) (vs : List String := []) : TypeDef :=
  { name := n, kind := k, fields := fs, members := ms, values := vs }

def S0 : VSchema :=
  { base :=
      { types :=
          [ty "Query" .object
             [{ name := "n", ty := .named "Int", args := [{ name := "x", ty := .nonNull (.named "Int"), default := none }] },
              { name := "def", ty := .named "Int", args := [{ name := "x", ty := .nonNull (.named "Int"), default := some (.int 7) }] },
              { name := "one", ty := .named "Int", args := [{ name := "o", ty := .nonNull (.named "One"), default := none }] },
              { name := "color", ty := .named "Int", args := [{ name := "c", ty := .nonNull (.named "Color"), default := none }] },
              { name := "pet", ty := .named "Pet", args := [] }],
           ty "Dog" .object [{ name := "id", ty := .nonNull (.named "ID"), args := [] }, { name := "name", ty := .named "String", args := [] }],
           ty "Cat" .object [{ name := "id", ty := .nonNull (.named "ID"), args := [] }, { name := "name", ty := .named "String", args := [] }],
           ty "Pet" .union [] ["Cat", "Dog"],
           ty "Sub" .object [{ name := "names", ty := .named "String", args := [] }],
           ty "Color" .enum [] [] ["RED"],
           ty "One" .input,
           ty "Int" .scalar, ty "String" .scalar, ty "ID" .scalar, ty "Boolean" .scalar],
        query := "Query", mutation := none, subscription := some "Sub" },
    dirs := [{ name := "skip", repeatable := false, locs := ["FIELD", "FRAGMENT_SPREAD", "INLINE_FRAGMENT"],
               args := [{ name := "if", ty := .nonNull (.named "Boolean"), default := none }] }],
    inputs := [{ name := "One", oneof := true, fields := [{ name := "a", ty := .named "Int", default := none }] }] }

def p0 : Core.Pos := { line := 0, col := 0 }
def fld (n : String) (args : List (String × DValue) := []) (sels : List Sel := []) (al : Option String := none) (ds : List Dir := []) : Sel :=
  .field al n args ds sels p0
def q (vars : List VarDef) (sels : List Sel) : Doc := { ops := [{ ty := .query, name := none, vars := vars, dirs := [], sels := sels }], frags := [] }

def rejects (D : Defects) (d : Doc) (vars : List (String × GValue) := []) : Bool := (checkRules S0 D d vars none).isRejected
def specInvalid (d : Doc) (vars : List (String × GValue) := []) : Bool := !(Spec.Validate.violations {} S0 d vars none).isEmpty

/-- `query($v: String){ n(x: $v) }` — accepted when the input-value callbacks are dropped -/
def dVarPos : Doc := q [{ name := "v", ty := .named "String", default := none }] [fld "n" [("x", .var "v")]]
theorem c09_witness_input_value_not_forwarded :
    rejects { inputValueNotForwarded := true } dVarPos = false ∧ rejects {} dVarPos = true ∧ specInvalid dVarPos = true := by
  decide +kernel

/-- `{ __typename @nope }` -/
def dTypename : Doc := q [] [fld "__typename" [] [] none [{ name := "nope", args := [] }]]
theorem c09_witness_typename_not_visited :
    rejects { typenameNotVisited := true } dTypename = false ∧ rejects {} dTypename = true ∧ specInvalid dTypename = true := by
  decide

/-- `{ pet { ... on Dog { k: id } ... on Cat { k: name } } }` — `ID!` against `String` -/
def dOverlap : Doc :=
  q [] [fld "pet" [] [.inline (some "Dog") [] [fld "id" [] [] (some "k")] p0, .inline (some "Cat") [] [fld "name" [] [] (some "k")] p0]]
theorem c09_witness_overlap :
    rejects { overlapKeyedByCondition := true } dOverlap = false ∧ rejects {} dOverlap = true ∧ specInvalid dOverlap = true := by
  decide

/-- `subscription { names second: names }` -/
def dSub : Doc := { ops := [{ ty := .subscription, name := none, vars := [], dirs := [], sels := [fld "names", fld "names" [] [] (some "second")] }], frags := [] }
theorem c09_witness_single_root :
    rejects { noSingleRootSubscription := true } dSub = false ∧ rejects {} dSub = true ∧ specInvalid dSub = true := by
  decide

/-- `{ one(o: "s") }` -/
def dInputLit : Doc := q [] [fld "one" [("o", .str "s")]]
theorem c09_witness_input_object_literal :
    rejects { inputObjectAnyValue := true } dInputLit = false ∧ rejects {} dInputLit = true ∧ specInvalid dInputLit = true := by
  decide +kernel

/-- `{ color(c: "RED") }` -/
def dEnumStr : Doc := q [] [fld "color" [("c", .str "RED")]]
theorem c09_witness_enum_string :
    rejects { enumAcceptsString := true } dEnumStr = false ∧ rejects {} dEnumStr = true ∧ specInvalid dEnumStr = true := by
  decide +kernel

/-- `{ n(x: 3000000000) }` -/
def dIntRange : Doc := q [] [fld "n" [("x", .int 3000000000)]]
theorem c09_witness_int_range :
    rejects { intRangeNotChecked := true } dIntRange = false ∧ rejects {} dIntRange = true ∧ specInvalid dIntRange = true := by
  decide +kernel

/-- `query($v: Int){ def(x: $v) }` where `x: Int! = 7`: allowed by the specification (the location
    has a default), refused by a `VariableInAllowedPosition` that ignores it -/
def dLocDefault : Doc := q [{ name := "v", ty := .named "Int", default := none }] [fld "def" [("x", .var "v")]]
theorem c09_witness_location_default :
    rejects { locationDefaultIgnored := true } dLocDefault = true ∧ rejects {} dLocDefault = false ∧ specInvalid dLocDefault = false := by
  decide +kernel

/-- non-trivial input for the positive direction: a valid document with a variable, a directive
    and an inline fragment is accepted by the repaired model and valid by the reference -/
def dValid : Doc :=
  q [{ name := "v", ty := .nonNull (.named "Int"), default := none }, { name := "b", ty := .nonNull (.named "Boolean"), default := none }]
    [fld "n" [("x", .var "v")], fld "pet" [] [.inline (some "Dog") [{ name := "skip", args := [("if", .var "b")] }] [fld "id"] p0, fld "__typename"]]
theorem c09_repaired_accepts_valid_example :
    rejects {} dValid [("v", .int 1), ("b", .bool true)] = false ∧ specInvalid dValid [("v", .int 1), ("b", .bool true)] = false := by
  decide +kernel

-- ------------------------------------------------------------------ per-rule equivalences over the walk (toggle-free model)

section rules
open AGV.Lemmas.ValidateRules AGV.Lemmas.ValidateWalk
open AGV.Spec.Validate
variable (S : VSchema) (d : Doc) (vars : List (String × GValue)) (o : Option String)

theorem served_of (hs : violates_OperationTypeExists S d = false) : Served S d := (served_iff S d).mpr hs

/-- the walker's own report: an operation whose root type the schema does not have -/
theorem c09_rule_not_configured :
    Kind.notConfigured ∈ strictErrors S {} d vars o ↔ violates_OperationTypeExists S d = true := by
  rw [strict_stateless S d vars o _ (by decide)]; exact rule_not_configured S d

/-- KnownFragmentNames = §5.5.2.1 Fragment Spread Target Defined -/
theorem c09_rule_known_fragment_names (hs : violates_OperationTypeExists S d = false) :
    Kind.unknownFragment ∈ strictErrors S {} d vars o ↔ violates_FragmentSpreadTargetDefined d = true := by
  rw [strict_stateless S d vars o _ (by decide)]; exact rule_known_fragment_names S d (served_of S d hs)

/-- UniqueVariableNames = §5.8.1 Variable Uniqueness -/
theorem c09_rule_unique_variable_names (hs : violates_OperationTypeExists S d = false) :
    Kind.dupVar ∈ strictErrors S {} d vars o ↔ violates_VariableUniqueness d = true := by
  rw [strict_dupVar, rule_unique_variable_names S d (served_of S d hs)]; simp

/-- UniqueArgumentNames = §5.4.2 Argument Uniqueness -/
theorem c09_rule_unique_argument_names (hs : violates_OperationTypeExists S d = false) :
    Kind.dupArg ∈ strictErrors S {} d vars o ↔ violates_ArgumentUniqueness S d = true := by
  rw [strict_dupArg, rule_unique_argument_names S d (served_of S d hs)]; simp

/-- KnownDirectives = §5.7.1 Directives Are Defined + §5.7.2 Directives Are In Valid Locations -/
theorem c09_rule_known_directives (hs : violates_OperationTypeExists S d = false) :
    (Kind.unknownDirective ∈ strictErrors S {} d vars o ↔ violates_DirectivesAreDefined S d = true)
    ∧ (Kind.dirMisplaced ∈ strictErrors S {} d vars o ↔ violates_DirectivesInValidLocations S d = true) := by
  constructor
  · rw [strict_knownDirs S d vars o _ (Or.inl rfl)]; exact rule_known_directives_defined S d (served_of S d hs)
  · rw [strict_knownDirs S d vars o _ (Or.inr rfl)]; exact rule_known_directives_location S d (served_of S d hs)

/-- DirectivesUnique = §5.7.3 Directives Are Unique Per Location -/
theorem c09_rule_directives_unique (hs : violates_OperationTypeExists S d = false) :
    Kind.dupDirective ∈ strictErrors S {} d vars o ↔ violates_DirectivesUniquePerLocation S d = true := by
  rw [strict_stateless S d vars o _ (by decide)]; exact rule_directives_unique S d (served_of S d hs)

/-- KnownTypeNames = §5.5.1.2 Fragment Spread Type Existence + "the type of a variable exists" -/
theorem c09_rule_known_type_names (hs : violates_OperationTypeExists S d = false) :
    Kind.unknownType ∈ strictErrors S {} d vars o ↔
      (violates_FragmentSpreadTypeExistence S d = true ∨ ∃ op ∈ d.ops, ∃ v ∈ op.vars, S.exists? v.ty.base = false) := by
  rw [strict_stateless S d vars o _ (by decide)]; exact rule_known_type_names S d (served_of S d hs)

/-- VariablesAreInputTypes (with the variable half of KnownTypeNames) = §5.8.2 Variables Are Input Types -/
theorem c09_rule_variables_are_input_types (hs : violates_OperationTypeExists S d = false) :
    (Kind.varNonInput ∈ strictErrors S {} d vars o ∨ ∃ op ∈ d.ops, ∃ v ∈ op.vars, S.exists? v.ty.base = false) ↔
      violates_VariablesAreInputTypes S d = true := by
  rw [strict_stateless S d vars o _ (by decide)]; exact rule_variables_are_input_types S d (served_of S d hs)

/-- UploadFile = the documented restriction, in schemas that have an `Upload` type -/
theorem c09_rule_upload_file :
    Kind.upload ∈ strictErrors S {} d vars o ↔
      (S.exists? "Upload" = true ∧ violates_UploadOnlyInMutations {} d = true) := by
  rw [strict_stateless S d vars o _ (by decide)]; exact rule_upload S d

/-- the parser's uniqueness checks = §5.2.1.1, §5.2.2.1, §5.5.1.1 (reported one at a time, in this order) -/
theorem c09_rule_pre_checks :
    (PreKind.dupOperation ∈ preErrors d ↔ violates_OperationNameUniqueness d = true)
    ∧ (PreKind.multipleAnonymous ∈ preErrors d ↔
        (violates_OperationNameUniqueness d = false ∧ violates_LoneAnonymousOperation d = true))
    ∧ (PreKind.dupFragment ∈ preErrors d ↔
        (violates_OperationNameUniqueness d = false ∧ violates_LoneAnonymousOperation d = false
          ∧ violates_FragmentNameUniqueness d = true)) :=
  ⟨pre_dupOperation d, pre_multipleAnonymous d, pre_dupFragment d⟩

/-- ProvidedNonNullArguments = §5.4.2.1 Required Arguments (well-formed registry) -/
theorem c09_rule_provided_non_null_arguments (hW : SchemaWF S) (hs : violates_OperationTypeExists S d = false) :
    (Kind.fieldArgMissing ∈ strictErrors S {} d vars o ∨ Kind.dirArgMissing ∈ strictErrors S {} d vars o) ↔
      violates_RequiredArguments S d = true := by
  rw [strict_stateless S d vars o _ (by decide), strict_stateless S d vars o _ (by decide)]
  exact rule_provided_non_null_arguments S d hW.block.typed (served_of S d hs) (hW.roots d).exist

/-- FieldsOnCorrectType + ScalarLeafs + FragmentsOnCompositeTypes
    = §5.3.1 Field Selections + §5.3.3 Leaf Field Selections + §5.5.1.3 Fragments On Composite Types.
    The three only correspond as a block (e.g. `__typename` below a scalar is §5.3.1 for the reference
    and `ScalarLeafs` for the implementation); well-formed registry, no sub-selection below
    `__typename`. -/
theorem c09_rule_fields_leafs_composites (hW : SchemaWF S) (hD : docOK d = true)
    (hs : violates_OperationTypeExists S d = false) :
    (Kind.unknownField ∈ strictErrors S {} d vars o ∨ Kind.leafWithSel ∈ strictErrors S {} d vars o
      ∨ Kind.compositeNoSel ∈ strictErrors S {} d vars o ∨ Kind.fragNonComposite ∈ strictErrors S {} d vars o
      ∨ Kind.inlineNonComposite ∈ strictErrors S {} d vars o) ↔
    (violates_FieldSelections S d = true ∨ violates_LeafFieldSelections S d = true
      ∨ violates_FragmentsOnCompositeTypes S d = true) := by
  rw [strict_stateless S d vars o _ (by decide), strict_stateless S d vars o _ (by decide),
    strict_stateless S d vars o _ (by decide), strict_stateless S d vars o _ (by decide),
    strict_stateless S d vars o _ (by decide)]
  exact rule_block S d hW.block (served_of S d hs) (hW.roots d) (docOK_selOK d hD)

/-- PossibleFragmentSpreads = §5.5.2.3 Fragment Spread Is Possible, on top of the block (the rule
    presupposes composite types on both sides, which is what the block rules establish); abstract
    types with at least one possible type -/
theorem c09_rule_possible_fragment_spreads (hW : SchemaWF S) (hA : AbstractInhabited S) (hD : docOK d = true)
    (hs : violates_OperationTypeExists S d = false) :
    ((Kind.unknownField ∈ strictErrors S {} d vars o ∨ Kind.leafWithSel ∈ strictErrors S {} d vars o
      ∨ Kind.compositeNoSel ∈ strictErrors S {} d vars o ∨ Kind.fragNonComposite ∈ strictErrors S {} d vars o
      ∨ Kind.inlineNonComposite ∈ strictErrors S {} d vars o)
      ∨ (Kind.spreadImpossible ∈ strictErrors S {} d vars o ∨ Kind.inlineImpossible ∈ strictErrors S {} d vars o)) ↔
    ((violates_FieldSelections S d = true ∨ violates_LeafFieldSelections S d = true
      ∨ violates_FragmentsOnCompositeTypes S d = true) ∨ violates_FragmentSpreadIsPossible S d = true) := by
  rw [strict_stateless S d vars o _ (by decide), strict_stateless S d vars o _ (by decide),
    strict_stateless S d vars o _ (by decide), strict_stateless S d vars o _ (by decide),
    strict_stateless S d vars o _ (by decide), strict_stateless S d vars o _ (by decide),
    strict_stateless S d vars o _ (by decide)]
  exact rule_block_spreads S d hW.block hA (served_of S d hs) (hW.roots d) (docOK_selOK d hD)

-- the rules proved so far, on both sides

/-- message kinds of the rules proved above -/
def provedKinds : List Model.Validate.Kind :=
  [.notConfigured, .unknownFragment, .dupVar, .dupArg, .unknownDirective, .dirMisplaced, .dupDirective, .unknownType,
   .unknownTypeDefault, .varNonInput, .upload]
def provedPre : List PreKind := [.dupOperation, .multipleAnonymous, .dupFragment]
/-- the reference rules they correspond to -/
def provedRules : List String :=
  ["5.2.1.1 Operation Name Uniqueness", "5.2.2.1 Lone Anonymous Operation", "5.5.1.1 Fragment Name Uniqueness",
   "operation type not served", "5.5.2.1 Fragment Spread Target Defined", "5.8.1 Variable Uniqueness",
   "5.4.2 Argument Uniqueness", "5.7.1 Directives Are Defined", "5.7.2 Directives Are In Valid Locations",
   "5.7.3 Directives Are Unique Per Location", "5.5.1.2 Fragment Spread Type Existence", "5.8.2 Variables Are Input Types",
   "async-graphql: Upload only in mutations"]

/-- PARTIAL c09: restricted to the rules proved (8 rule structs of `check_rules`, the walker's own
    report and the parser's three uniqueness checks on one side, 13 reference rules on the other),
    the repaired pipeline rejects exactly the invalid requests — for every schema, document,
    variables and operation name, no hypotheses. -/
theorem c09_partial :
    ((∃ k ∈ preErrors d, k ∈ provedPre) ∨ (∃ k ∈ strictErrors S {} d vars o, k ∈ provedKinds)) ↔
      (∃ r ∈ violations {} S d vars o, r ∈ provedRules) := by
  have hV : (∃ r ∈ violations {} S d vars o, r ∈ provedRules) ↔
      (violates_OperationNameUniqueness d = true ∨ violates_LoneAnonymousOperation d = true
        ∨ violates_FragmentNameUniqueness d = true ∨ violates_OperationTypeExists S d = true
        ∨ violates_FragmentSpreadTargetDefined d = true ∨ violates_VariableUniqueness d = true
        ∨ violates_ArgumentUniqueness S d = true ∨ violates_DirectivesAreDefined S d = true
        ∨ violates_DirectivesInValidLocations S d = true ∨ violates_DirectivesUniquePerLocation S d = true
        ∨ violates_FragmentSpreadTypeExistence S d = true ∨ violates_VariablesAreInputTypes S d = true
        ∨ violates_UploadOnlyInMutations {} d = true) := by
    constructor
    · rintro ⟨r, hr, hp⟩
      rw [mem_violations] at hr
      simp only [provedRules, List.mem_cons, List.not_mem_nil, or_false] at hp
      rcases hp with rfl | rfl | rfl | rfl | rfl | rfl | rfl | rfl | rfl | rfl | rfl | rfl | rfl <;> simp at hr <;> simp [hr]
    · intro h
      rcases h with h | h | h | h | h | h | h | h | h | h | h | h | h
      · exact ⟨"5.2.1.1 Operation Name Uniqueness", (mem_violations ..).mpr (by simp [h]), by decide⟩
      · exact ⟨"5.2.2.1 Lone Anonymous Operation", (mem_violations ..).mpr (by simp [h]), by decide⟩
      · exact ⟨"5.5.1.1 Fragment Name Uniqueness", (mem_violations ..).mpr (by simp [h]), by decide⟩
      · exact ⟨"operation type not served", (mem_violations ..).mpr (by simp [h]), by decide⟩
      · exact ⟨"5.5.2.1 Fragment Spread Target Defined", (mem_violations ..).mpr (by simp [h]), by decide⟩
      · exact ⟨"5.8.1 Variable Uniqueness", (mem_violations ..).mpr (by simp [h]), by decide⟩
      · exact ⟨"5.4.2 Argument Uniqueness", (mem_violations ..).mpr (by simp [h]), by decide⟩
      · exact ⟨"5.7.1 Directives Are Defined", (mem_violations ..).mpr (by simp [h]), by decide⟩
      · exact ⟨"5.7.2 Directives Are In Valid Locations", (mem_violations ..).mpr (by simp [h]), by decide⟩
      · exact ⟨"5.7.3 Directives Are Unique Per Location", (mem_violations ..).mpr (by simp [h]), by decide⟩
      · exact ⟨"5.5.1.2 Fragment Spread Type Existence", (mem_violations ..).mpr (by simp [h]), by decide⟩
      · exact ⟨"5.8.2 Variables Are Input Types", (mem_violations ..).mpr (by simp [h]), by decide⟩
      · exact ⟨"async-graphql: Upload only in mutations", (mem_violations ..).mpr (by simp [h]), by decide⟩
  rw [hV]
  have hpre := c09_rule_pre_checks d
  by_cases hOT : violates_OperationTypeExists S d = true
  · -- an unserved operation: both sides hold
    constructor
    · intro _; exact Or.inr (Or.inr (Or.inr (Or.inl hOT)))
    · intro _; exact Or.inr ⟨.notConfigured, (c09_rule_not_configured S d vars o).mpr hOT, by decide⟩
  · have hs : violates_OperationTypeExists S d = false := by simpa using hOT
    have hvt : (∃ op ∈ d.ops, ∃ v ∈ op.vars, S.exists? v.ty.base = false) → violates_VariablesAreInputTypes S d = true :=
      fun h => (c09_rule_variables_are_input_types S d vars o hs).mp (Or.inr h)
    constructor
    · rintro (⟨k, hk, hp⟩ | ⟨k, hk, hp⟩)
      · simp only [provedPre, List.mem_cons, List.not_mem_nil, or_false] at hp
        rcases hp with rfl | rfl | rfl
        · exact Or.inl (hpre.1.mp hk)
        · exact Or.inr (Or.inl (hpre.2.1.mp hk).2)
        · exact Or.inr (Or.inr (Or.inl (hpre.2.2.mp hk).2.2))
      · simp only [provedKinds, List.mem_cons, List.not_mem_nil, or_false] at hp
        rcases hp with rfl | rfl | rfl | rfl | rfl | rfl | rfl | rfl | rfl | rfl | rfl
        · exact absurd ((c09_rule_not_configured S d vars o).mp hk) hOT
        · exact Or.inr (Or.inr (Or.inr (Or.inr (Or.inl ((c09_rule_known_fragment_names S d vars o hs).mp hk)))))
        · exact Or.inr (Or.inr (Or.inr (Or.inr (Or.inr (Or.inl ((c09_rule_unique_variable_names S d vars o hs).mp hk))))))
        · exact Or.inr (Or.inr (Or.inr (Or.inr (Or.inr (Or.inr (Or.inl ((c09_rule_unique_argument_names S d vars o hs).mp hk)))))))
        · exact Or.inr (Or.inr (Or.inr (Or.inr (Or.inr (Or.inr (Or.inr (Or.inl ((c09_rule_known_directives S d vars o hs).1.mp hk))))))))
        · exact Or.inr (Or.inr (Or.inr (Or.inr (Or.inr (Or.inr (Or.inr (Or.inr (Or.inl ((c09_rule_known_directives S d vars o hs).2.mp hk)))))))))
        · exact Or.inr (Or.inr (Or.inr (Or.inr (Or.inr (Or.inr (Or.inr (Or.inr (Or.inr (Or.inl ((c09_rule_directives_unique S d vars o hs).mp hk))))))))))
        · rcases (c09_rule_known_type_names S d vars o hs).mp hk with h | h
          · exact Or.inr (Or.inr (Or.inr (Or.inr (Or.inr (Or.inr (Or.inr (Or.inr (Or.inr (Or.inr (Or.inl h))))))))))
          · exact Or.inr (Or.inr (Or.inr (Or.inr (Or.inr (Or.inr (Or.inr (Or.inr (Or.inr (Or.inr (Or.inr (Or.inl (hvt h))))))))))))
        · have h := unknownTypeDefault_imp S d (served_of S d hs) ((strict_stateless S d vars o _ (by decide)).mp hk)
          exact Or.inr (Or.inr (Or.inr (Or.inr (Or.inr (Or.inr (Or.inr (Or.inr (Or.inr (Or.inr (Or.inr (Or.inl (hvt h))))))))))))
        · have h := (c09_rule_variables_are_input_types S d vars o hs).mp (Or.inl hk)
          exact Or.inr (Or.inr (Or.inr (Or.inr (Or.inr (Or.inr (Or.inr (Or.inr (Or.inr (Or.inr (Or.inr (Or.inl h)))))))))))
        · have h := ((c09_rule_upload_file S d vars o).mp hk).2
          exact Or.inr (Or.inr (Or.inr (Or.inr (Or.inr (Or.inr (Or.inr (Or.inr (Or.inr (Or.inr (Or.inr (Or.inr h)))))))))))
    · intro h
      have strict : ∀ k, k ∈ strictErrors S {} d vars o → k ∈ provedKinds →
          (∃ k ∈ preErrors d, k ∈ provedPre) ∨ (∃ k ∈ strictErrors S {} d vars o, k ∈ provedKinds) :=
        fun k hk hp => Or.inr ⟨k, hk, hp⟩
      have unknownTy : (∃ op ∈ d.ops, ∃ v ∈ op.vars, S.exists? v.ty.base = false) →
          (∃ k ∈ preErrors d, k ∈ provedPre) ∨ (∃ k ∈ strictErrors S {} d vars o, k ∈ provedKinds) :=
        fun h => strict _ ((c09_rule_known_type_names S d vars o hs).mpr (Or.inr h)) (by decide)
      rcases h with h | h | h | h | h | h | h | h | h | h | h | h | h
      · exact Or.inl ⟨_, hpre.1.mpr h, by simp [provedPre]⟩
      · cases h1 : violates_OperationNameUniqueness d
        · exact Or.inl ⟨_, hpre.2.1.mpr ⟨h1, h⟩, by simp [provedPre]⟩
        · exact Or.inl ⟨_, hpre.1.mpr h1, by simp [provedPre]⟩
      · cases h1 : violates_OperationNameUniqueness d
        · cases h2 : violates_LoneAnonymousOperation d
          · exact Or.inl ⟨_, hpre.2.2.mpr ⟨h1, h2, h⟩, by simp [provedPre]⟩
          · exact Or.inl ⟨_, hpre.2.1.mpr ⟨h1, h2⟩, by simp [provedPre]⟩
        · exact Or.inl ⟨_, hpre.1.mpr h1, by simp [provedPre]⟩
      · exact absurd h hOT
      · exact strict _ ((c09_rule_known_fragment_names S d vars o hs).mpr h) (by decide)
      · exact strict _ ((c09_rule_unique_variable_names S d vars o hs).mpr h) (by decide)
      · exact strict _ ((c09_rule_unique_argument_names S d vars o hs).mpr h) (by decide)
      · exact strict _ ((c09_rule_known_directives S d vars o hs).1.mpr h) (by decide)
      · exact strict _ ((c09_rule_known_directives S d vars o hs).2.mpr h) (by decide)
      · exact strict _ ((c09_rule_directives_unique S d vars o hs).mpr h) (by decide)
      · exact strict _ ((c09_rule_known_type_names S d vars o hs).mpr (Or.inl h)) (by decide)
      · rcases (c09_rule_variables_are_input_types S d vars o hs).mpr h with h | h
        · exact strict _ h (by decide)
        · exact unknownTy h
      · cases hU : S.exists? "Upload"
        · apply unknownTy
          simp only [violates_UploadOnlyInMutations, Bool.and_eq_true, List.any_eq_true, decide_eq_true_eq] at h
          obtain ⟨_, op, hop, _, v, hv, hb⟩ := h
          exact ⟨op, hop, v, hv, hb ▸ hU⟩
        · exact strict _ ((c09_rule_upload_file S d vars o).mpr ⟨hU, h⟩) (by decide)

/-- the kinds and reference rules added by the type-dependent theorems -/
def typedKinds : List Model.Validate.Kind :=
  [.fieldArgMissing, .dirArgMissing, .unknownField, .leafWithSel, .compositeNoSel, .fragNonComposite, .inlineNonComposite,
   .spreadImpossible, .inlineImpossible]
def typedRules : List String :=
  ["5.4.2.1 Required Arguments", "5.3.1 Field Selections", "5.3.3 Leaf Field Selections", "5.5.1.3 Fragments On Composite Types",
   "5.5.2.3 Fragment Spread Is Possible"]

/-- PARTIAL c09, second stage: for well-formed registries and documents without sub-selections
    below `__typename`, the equivalence extends to 13 of the 22 rule
    structs (+ walker + parser checks) against 18 of the 28 reference rules. -/
theorem c09_partial_typed (hW : SchemaWF S) (hA : AbstractInhabited S) (hD : docOK d = true) :
    ((∃ k ∈ preErrors d, k ∈ provedPre) ∨ (∃ k ∈ strictErrors S {} d vars o, k ∈ provedKinds ++ typedKinds)) ↔
      (∃ r ∈ violations {} S d vars o, r ∈ provedRules ++ typedRules) := by
  have h0 := c09_partial S d vars o
  by_cases hOT : violates_OperationTypeExists S d = true
  · constructor
    · intro _
      exact ⟨"operation type not served", (mem_violations ..).mpr (by simp [hOT]), by decide⟩
    · intro _
      exact Or.inr ⟨.notConfigured, (c09_rule_not_configured S d vars o).mpr hOT, by decide⟩
  · have hs : violates_OperationTypeExists S d = false := by simpa using hOT
    have hA1 := c09_rule_provided_non_null_arguments S d vars o hW hs
    have hB1 := c09_rule_possible_fragment_spreads S d vars o hW hA hD hs
    have hK : (∃ k ∈ strictErrors S {} d vars o, k ∈ typedKinds) ↔
        (violates_RequiredArguments S d = true ∨ ((violates_FieldSelections S d = true ∨ violates_LeafFieldSelections S d = true
          ∨ violates_FragmentsOnCompositeTypes S d = true) ∨ violates_FragmentSpreadIsPossible S d = true)) := by
      rw [← hA1, ← hB1]
      simp only [typedKinds, List.mem_cons, List.not_mem_nil, or_false]
      constructor
      · rintro ⟨k, hk, (rfl | rfl | rfl | rfl | rfl | rfl | rfl | rfl | rfl)⟩
        · exact Or.inl (Or.inl hk)
        · exact Or.inl (Or.inr hk)
        · exact Or.inr (Or.inl (Or.inl hk))
        · exact Or.inr (Or.inl (Or.inr (Or.inl hk)))
        · exact Or.inr (Or.inl (Or.inr (Or.inr (Or.inl hk))))
        · exact Or.inr (Or.inl (Or.inr (Or.inr (Or.inr (Or.inl hk)))))
        · exact Or.inr (Or.inl (Or.inr (Or.inr (Or.inr (Or.inr hk)))))
        · exact Or.inr (Or.inr (Or.inl hk))
        · exact Or.inr (Or.inr (Or.inr hk))
      · rintro ((h | h) | ((h | h | h | h | h) | (h | h)))
        · exact ⟨_, h, Or.inl rfl⟩
        · exact ⟨_, h, Or.inr (Or.inl rfl)⟩
        · exact ⟨_, h, Or.inr (Or.inr (Or.inl rfl))⟩
        · exact ⟨_, h, Or.inr (Or.inr (Or.inr (Or.inl rfl)))⟩
        · exact ⟨_, h, Or.inr (Or.inr (Or.inr (Or.inr (Or.inl rfl))))⟩
        · exact ⟨_, h, Or.inr (Or.inr (Or.inr (Or.inr (Or.inr (Or.inl rfl)))))⟩
        · exact ⟨_, h, Or.inr (Or.inr (Or.inr (Or.inr (Or.inr (Or.inr (Or.inl rfl))))))⟩
        · exact ⟨_, h, Or.inr (Or.inr (Or.inr (Or.inr (Or.inr (Or.inr (Or.inr (Or.inl rfl)))))))⟩
        · exact ⟨_, h, Or.inr (Or.inr (Or.inr (Or.inr (Or.inr (Or.inr (Or.inr (Or.inr rfl)))))))⟩
    have hR : (∃ r ∈ violations {} S d vars o, r ∈ typedRules) ↔
        (violates_RequiredArguments S d = true ∨ ((violates_FieldSelections S d = true ∨ violates_LeafFieldSelections S d = true
          ∨ violates_FragmentsOnCompositeTypes S d = true) ∨ violates_FragmentSpreadIsPossible S d = true)) := by
      constructor
      · rintro ⟨r, hr, hp⟩
        rw [mem_violations] at hr
        simp only [typedRules, List.mem_cons, List.not_mem_nil, or_false] at hp
        rcases hp with rfl | rfl | rfl | rfl | rfl <;> simp at hr <;> simp [hr]
      · rintro (h | ((h | h | h) | h))
        · exact ⟨"5.4.2.1 Required Arguments", (mem_violations ..).mpr (by simp [h]), by decide⟩
        · exact ⟨"5.3.1 Field Selections", (mem_violations ..).mpr (by simp [h]), by decide⟩
        · exact ⟨"5.3.3 Leaf Field Selections", (mem_violations ..).mpr (by simp [h]), by decide⟩
        · exact ⟨"5.5.1.3 Fragments On Composite Types", (mem_violations ..).mpr (by simp [h]), by decide⟩
        · exact ⟨"5.5.2.3 Fragment Spread Is Possible", (mem_violations ..).mpr (by simp [h]), by decide⟩
    have split1 : (∃ k ∈ strictErrors S {} d vars o, k ∈ provedKinds ++ typedKinds) ↔
        ((∃ k ∈ strictErrors S {} d vars o, k ∈ provedKinds) ∨ (∃ k ∈ strictErrors S {} d vars o, k ∈ typedKinds)) := by
      simp only [List.mem_append]
      constructor
      · rintro ⟨k, hk, h | h⟩
        · exact Or.inl ⟨k, hk, h⟩
        · exact Or.inr ⟨k, hk, h⟩
      · rintro (⟨k, hk, h⟩ | ⟨k, hk, h⟩)
        · exact ⟨k, hk, Or.inl h⟩
        · exact ⟨k, hk, Or.inr h⟩
    have split2 : (∃ r ∈ violations {} S d vars o, r ∈ provedRules ++ typedRules) ↔
        ((∃ r ∈ violations {} S d vars o, r ∈ provedRules) ∨ (∃ r ∈ violations {} S d vars o, r ∈ typedRules)) := by
      simp only [List.mem_append]
      constructor
      · rintro ⟨k, hk, h | h⟩
        · exact Or.inl ⟨k, hk, h⟩
        · exact Or.inr ⟨k, hk, h⟩
      · rintro (⟨k, hk, h⟩ | ⟨k, hk, h⟩)
        · exact ⟨k, hk, Or.inl h⟩
        · exact ⟨k, hk, Or.inr h⟩
    rw [split1, split2, ← or_assoc, h0, hK, hR]

end rules

/-- the hypothesis of the per-rule theorems holds of the non-trivial valid example, and of documents the rules fire on -/
example : Spec.Validate.violates_OperationTypeExists S0 dValid = false ∧ Spec.Validate.violates_OperationTypeExists S0 dTypename = false
    ∧ Spec.Validate.violates_OperationTypeExists S0 dSub = false := by decide

open AGV.Lemmas.ValidateRules in
/-- the witness schema is a well-formed registry -/
theorem c09_witness_schema_wellformed : SchemaWF S0 where
  stringNotComposite := by decide
  noTypenameField := by decide
  fieldsOutput := by decide
  rootsComposite := by intro t r h; cases t <;> simp [rootOf, S0] at h <;> subst h <;> decide

open AGV.Lemmas.ValidateRules in
/-- the hypotheses of the type-dependent theorems hold of the non-trivial valid example and of the
    documents of the witnesses (`dOverlap`: inline fragments below a union) -/
example : docOK dValid = true ∧ docOK dOverlap = true ∧ docOK dVarPos = true := by decide

open AGV.Lemmas.ValidateRules in
/-- the union of the witness schema has possible types -/
theorem c09_witness_schema_abstract_inhabited : AbstractInhabited S0 := by
  unfold AbstractInhabited; decide

-- ------------------------------------------------------------------ the two original open statements are false

/-- the property as first stated: the repaired pipeline rejects exactly the invalid requests -/
def c09 : Prop :=
  ∀ (S : VSchema) (d : Doc) (vars : List (String × GValue)) (o : Option String),
    (checkRules S {} d vars o).isRejected = true ↔ ¬ Spec.Validate.Valid {} S d vars o

/-- per-rule equivalences as first stated (no hypothesis on the operations' root types) -/
def c09_rule_equivalences : Prop :=
  ∀ (S : VSchema) (d : Doc),
    ((events S {} d).any (fun e => (stateless S {} d e).contains .unknownFragment) = Spec.Validate.violates_FragmentSpreadTargetDefined d)
    ∧ ((ruleUniqueVars [] (events S {} d)).isEmpty = !Spec.Validate.violates_VariableUniqueness d)

def namedOp (n : String) (vars : List VarDef) (sels : List Sel) : OpDef := { ty := .query, name := some n, vars := vars, dirs := [], sels := sels }

/-- `query A($v: Int){ def(x: $v) }  query B { pet { __typename } }`, variables `{"v": "bad"}`, no
    operation name: `ArgumentsOfCorrectType` substitutes the supplied variables into EVERY operation
    that is not deselected by name and reports the string; the reference validator coerces the
    variables of the selected operation only, and none is selected. -/
def dTwoOps : Doc :=
  { ops := [namedOp "A" [{ name := "v", ty := .named "Int", default := none }] [fld "def" [("x", .var "v")]],
            namedOp "B" [] [fld "pet" [] [fld "__typename"]]], frags := [] }

theorem c09_counterexample_two_operations :
    rejects {} dTwoOps [("v", .str "bad")] = true ∧ specInvalid dTwoOps [("v", .str "bad")] = false := by
  decide +kernel

/-- `c09` is FALSE of the model, on the well-formed witness schema `S0`. -/
theorem c09_refuted : ¬ c09 := by
  intro h
  have h1 := h S0 dTwoOps [("v", .str "bad")] none
  revert h1
  decide +kernel

/-- a schema with a user-defined directive called `ifdef` on fields -/
def Sifdef : VSchema := { S0 with dirs := S0.dirs ++ [{ name := "ifdef", repeatable := false, locs := ["FIELD"], args := [] }] }
/-- `{ nope @ifdef }`: the pinned `FieldsOnCorrectType` skips every field carrying a directive NAMED
    `ifdef` (src/validation/rules/fields_on_correct_type.rs:28-32), so an unknown field is accepted
    when the schema registers a directive of that name -/
def dIfdef : Doc := q [] [fld "nope" [] [] none [{ name := "ifdef", args := [] }]]

/-- witness of `ifdefSkipsUnknownField`: the pinned model accepts, the repaired model rejects,
    and the reference validator reports exactly §5.3.1 -/
theorem c09_witness_ifdef :
    (checkRules Sifdef { ifdefSkipsUnknownField := true } dIfdef [] none).isRejected = false
    ∧ (checkRules Sifdef {} dIfdef [] none).isRejected = true
    ∧ Spec.Validate.violations {} Sifdef dIfdef [] none = ["5.3.1 Field Selections"] := by
  decide +kernel

/-- the same document with a KNOWN field is valid for everybody: the directive itself is legal -/
example :
    (checkRules Sifdef { ifdefSkipsUnknownField := true } (q [] [fld "pet" [] [fld "__typename"] none [{ name := "ifdef", args := [] }]]) [] none).isRejected = false
    ∧ Spec.Validate.violations {} Sifdef (q [] [fld "pet" [] [fld "__typename"] none [{ name := "ifdef", args := [] }]]) [] none = [] := by
  decide +kernel

/-- `query($c: Color! = "RED"){ color(c: $c) }`: a default value is a literal of the document, so
    §5.6.1 wants an enum token; the repaired model (`is_valid_input_value` on the default) and the
    reference validator refuse the string, the pinned `is_valid_input_value` takes it -/
def dEnumDefault : Doc := q [{ name := "c", ty := .nonNull (.named "Color"), default := some (.str "RED") }] [fld "color" [("c", .var "c")]]

theorem c09_witness_enum_default :
    rejects { enumAcceptsString := true } dEnumDefault = false ∧ rejects {} dEnumDefault = true
    ∧ specInvalid dEnumDefault = true := by
  decide +kernel

/-- The reference validator on enum-typed defaults, for every schema and every default: a string or
    any other non-enum, non-null constant is refused, an enum token is accepted exactly when it is a
    value of the type — while the SAME string supplied as a variable VALUE coerces (§3.9 input
    coercion of enums takes the name as a string in the transport format). -/
theorem c09_default_literal_enum (S : VSchema) (n : String) (td : TypeDef)
    (ht : Spec.Validate.tyDef S n = some td) (hk : td.kind = .enum) (e : String) :
    Spec.Validate.litOk S Spec.Validate.valueFuel (.named n) (Spec.Validate.litOf (.str e)) = false
    ∧ Spec.Validate.litOk S Spec.Validate.valueFuel (.named n) (Spec.Validate.litOf (.enum e)) = td.values.contains e
    ∧ Spec.Validate.coerceOk S Spec.Validate.valueFuel (.named n) (.str e) = td.values.contains e := by
  have hkind : Spec.Validate.kindIs S n .enum = true := by simp [Spec.Validate.kindIs, ht, hk]
  refine ⟨?_, ?_, ?_⟩ <;>
    simp [Spec.Validate.litOk, Spec.Validate.coerceOk, Spec.Validate.litOf, Spec.Validate.valueFuel, hkind, ht]

/-- `mutation($a: Int, $a: Int){ ...Nope }` against a schema without a mutation type: the walker
    reports "not configured" and does not descend, so neither rule sees the operation -/
def dUnserved : Doc :=
  { ops := [{ ty := .mutation, name := none, vars := [{ name := "a", ty := .named "Int", default := none }, { name := "a", ty := .named "Int", default := none }],
              dirs := [], sels := [.spread "Nope" [] p0] }], frags := [] }

/-- `c09_rule_equivalences` is FALSE of the model: both conjuncts fail on an operation whose root
    type the schema does not have. -/
theorem c09_rule_equivalences_refuted : ¬ c09_rule_equivalences := by
  intro h
  have h1 := (h S0 dUnserved).1
  revert h1
  decide +kernel

section
open AGV.Lemmas.ValidateRules AGV.Lemmas.ValidateWalk

/-- the corrected statement: the two equivalences hold for every schema and every document all
    of whose operations have a root type in the schema -/
theorem c09_rule_equivalences_served (S : VSchema) (d : Doc) (hs : Spec.Validate.violates_OperationTypeExists S d = false) :
    ((events S {} d).any (fun e => (stateless S {} d e).contains .unknownFragment) = Spec.Validate.violates_FragmentSpreadTargetDefined d)
    ∧ ((ruleUniqueVars [] (events S {} d)).isEmpty = !Spec.Validate.violates_VariableUniqueness d) := by
  have hS := served_of S d hs
  constructor
  · rw [Bool.eq_iff_iff, ← rule_known_fragment_names S d hS]
    simp [List.mem_flatMap]
  · have h := rule_unique_variable_names S d hS
    cases hv : Spec.Validate.violates_VariableUniqueness d
    · simp only [Bool.not_false, List.isEmpty_iff]
      apply List.eq_nil_iff_forall_not_mem.mpr
      intro k hk
      simpa [hv] using (h k).mp hk
    · simp only [Bool.not_true, List.isEmpty_eq_false_iff]
      intro hnil
      have := (h .dupVar).mpr ⟨rfl, hv⟩
      simp [hnil] at this
end

-- ------------------------------------------------------------------ OPEN

/-- what the counterexample and the per-rule analysis show must be excluded -/
structure C09Hyp (S : VSchema) (d : Doc) (vars : List (String × GValue)) (o : Option String) : Prop where
  /-- the request selects an operation (else `ArgumentsOfCorrectType` judges the variables of all of them) -/
  selected : (Spec.Validate.selectedOp d o).isSome = true
  /-- defaults of variable definitions: `is_valid_input_value` and §5.6.1 agree on them (the
      implementation does not look for repeated input-object field names) -/
  defaults : ∀ op ∈ d.ops, ∀ v ∈ op.vars, ∀ dv, v.default = some dv →
    validInput S {} valueFuel v.ty dv = Spec.Validate.litOk S Spec.Validate.valueFuel v.ty (Spec.Validate.litOf dv)
  /-- registry well-formedness: root types are object types of the schema -/
  roots : ∀ t r, Spec.Validate.rootType S t = some r → Spec.Validate.kindIs S r .object = true
  /-- field types exist and are output types; `String` is a scalar -/
  fields : ∀ t ∈ S.base.types, ∀ f ∈ t.fields, S.exists? f.ty.base = true ∧ Spec.Validate.kindIs S f.ty.base .input = false
  string : Spec.Validate.kindIs S "String" .scalar = true
  /-- every input-object type has its definition in `inputs`, and members of abstract types are object types -/
  inputs : ∀ t ∈ S.base.types, t.kind = .input → (S.input? t.name).isSome = true
  members : ∀ t ∈ S.base.types, ∀ m ∈ t.members, Spec.Validate.kindIs S m .object = true

/-- CONJECTURED corrected form of `c09` (not proved, not known to be true): under the exclusions
    above the repaired pipeline rejects exactly the invalid requests.  What is proved of it is
    `c09_partial` (13 of the 28 reference rules, without any of these hypotheses). -/
def c09_corrected : Prop :=
  ∀ (S : VSchema) (d : Doc) (vars : List (String × GValue)) (o : Option String), C09Hyp S d vars o →
    ((checkRules S {} d vars o).isRejected = true ↔ ¬ Spec.Validate.Valid {} S d vars o)

/-- the exclusions are satisfiable: the witness schema with the non-trivial valid example -/
example : C09Hyp S0 dValid [("v", .int 1), ("b", .bool true)] none where
  selected := by decide
  defaults := by simp [dValid, q]
  roots := by intro t r h; cases t <;> simp [Spec.Validate.rootType, S0] at h <;> subst h <;> decide
  fields := by decide
  string := by decide
  inputs := by decide
  members := by decide

end AGV.Props.C09
