import AGV.Props.C09
open AGV.Core AGV.Model.Validate AGV.Props.C09

def S1 : VSchema := { S0 with base := { S0.base with types := S0.base.types.map (fun t =>
  if t.name = "Dog" then { t with fields := t.fields ++ [{ name := "nick", ty := .named "String", args := [] }] } else t) } }

def dOv : Doc := q [] [fld "pet" [] [.inline (some "Dog") [] [.inline none [] [fld "nick" [] [] (some "k")] p0] p0,
                                   .inline (some "Cat") [] [.inline none [] [fld "name" [] [] (some "k")] p0] p0]]
#eval (strictErrors S1 {} dOv [] none).map (·.idx)
#eval AGV.Spec.Validate.violations {} S1 dOv [] none
#eval (checkRules S1 {} dOv [] none).isRejected
