import AGV.Props.C09
open AGV.Core AGV.Model.Validate AGV.Props.C09

def S2 : VSchema := { S0 with base := { S0.base with types := S0.base.types.map (fun t =>
  if t.name = "Query" then { t with fields := t.fields ++ [
     { name := "petx", ty := .named "Pet", args := [{ name := "x", ty := .named "Int", default := none }] },
     { name := "lst", ty := .named "Int", args := [{ name := "xs", ty := .list (.named "Int"), default := none }] },
     { name := "str", ty := .named "Int", args := [{ name := "s", ty := .named "String", default := none }] }] } else t) } }
def shw (S : VSchema) (d : Doc) (vars : List (String × GValue) := []) (o : Option String := none) :=
  ((preErrors d).length, (strictErrors S {} d vars o).map (·.idx), (repairedErrors S {} d vars o).length, AGV.Spec.Validate.violations {} S d vars o)

-- null default
#eval shw S2 (q [{ name := "v", ty := .named "Int", default := some .null }] [fld "n" [("x", .var "v")]])
-- typename args top level
#eval shw S2 (q [] [fld "__typename" [("x", .int 1)]])
-- stale args
#eval shw S2 (q [] [fld "petx" [("x", .int 1)] [fld "__typename" [("x", .int 1)]]])
-- var inside list, unsupplied
#eval shw S2 (q [{ name := "v", ty := .named "Int", default := none }] [fld "lst" [("xs", .list [.var "v", .str "bad"])]])
-- enum var as string
#eval shw S2 (q [{ name := "c", ty := .nonNull (.named "Color"), default := none }] [fld "color" [("c", .var "c")]]) [("c", .str "RED")]
#eval shw S2 (q [{ name := "c", ty := .nonNull (.named "Color"), default := none }] [fld "color" [("c", .var "c")]]) [("c", .enum "RED")]
-- fragment judged with other op's variables
#eval shw S2 { ops := [namedOp "A" [{ name := "v", ty := .named "Int", default := none }] [fld "n" [("x", .int 1)], fld "lst" [("xs", .var "v")]],
                        namedOp "B" [{ name := "v", ty := .named "String", default := none }] [.spread "F" [] p0]],
                frags := [{ name := "F", cond := "Query", dirs := [], sels := [fld "str" [("s", .var "v")]] }] } [("v", .int 5)] (some "A")
