import AGV.Lemmas.HostileNum
namespace AGV.Lemmas.HostileNum
open AGV.Gen.IntScalars AGV.Model.Scalars AGV.Model.HostileNum AGV.Lemmas.Scalars
open AGV.Spec.Scalars (GValue inIntDomain)

theorem numAnswer_id (n : Int) :
    numAnswer .id n = if i64Min ≤ n ∧ n ≤ u64Max then .data (.int n) else .error := by
  by_cases hb : i64Min ≤ n ∧ n ≤ u64Max
  · have : readable .i64 n ∨ (Defects.none.idRejectsLargeUint = false ∧ readable .u64 n) := by
      simp only [readable, Defects.none, i64Min, i64Max, u64Max, true_and] at *; omega
    simp [numAnswer, lexNumber, hb, answerValue, parseId, this]
  · simp [numAnswer, lexNumber, hb, answerValue, parseId]

theorem numAnswer_float (n : Int) : numAnswer .float n = .data .float := by
  by_cases hb : i64Min ≤ n ∧ n ≤ u64Max <;> simp [numAnswer, lexNumber, hb, answerValue, parseF64]

end AGV.Lemmas.HostileNum
