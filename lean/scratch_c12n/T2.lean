import AGV.Model.HostileNum
import AGV.Lemmas.Scalars

namespace AGV.Lemmas.HostileNum2
open AGV.Gen.IntScalars AGV.Model.Scalars AGV.Model.HostileNum AGV.Lemmas.Scalars
open AGV.Spec.Scalars (GValue inIntDomain)

theorem registered_i64 : registeredIntValidator = .i64 := by decide

theorem readable_bounds (a : Acc) (n : Int) (h : readable a n) : i64Min ≤ n ∧ n ≤ u64Max := by
  cases a <;> simp [readable, i64Min, i64Max, u64Max] at * <;> omega

theorem parseInt_ok_readable (t : Entry) (n r : Int) (h : parseInt t (.int n) = .ok r) : readable t.accessor n := by
  by_cases hr : readable t.accessor n
  · exact hr
  · simp [parseInt, hr] at h

theorem lexNumber_int (n : Int) (h : i64Min ≤ n ∧ n ≤ u64Max) : lexNumber n = .int n := by
  simp [lexNumber, h]

theorem answerInt_float (t : Entry) (b : Nat) : answerInt t (.float b) = .error := by
  simp [answerInt, validNumber]

/-- accepted: exactly the integers of the type's range that the registered `Int` validator lets through -/
theorem numAnswer_int_accept (t : Entry) (ht : t ∈ table) (n : Int) (hd : inIntDomain t.name n) (hv : n ≤ i64Max) :
    numAnswer (.int t) n = .data (.int n) := by
  have hp := parseInt_in t ht n hd
  have hb := readable_bounds _ _ (parseInt_ok_readable t n n hp)
  simp only [numAnswer, answerValue, lexNumber_int n hb, answerInt, registered_i64, validNumber, hp]
  simp [readable, hb.1, hv]

theorem numAnswer_int_reject (t : Entry) (ht : t ∈ table) (n : Int) (h : ¬ (inIntDomain t.name n ∧ n ≤ i64Max)) :
    numAnswer (.int t) n = .error := by
  by_cases hb : i64Min ≤ n ∧ n ≤ u64Max
  · simp only [numAnswer, answerValue, lexNumber_int n hb, answerInt, registered_i64, validNumber]
    by_cases hv : n ≤ i64Max
    · have hd : ¬ inIntDomain t.name n := fun hd => h ⟨hd, hv⟩
      obtain ⟨e, he⟩ := parseInt_out t ht n hd
      rw [he]; simp
    · simp [readable, hv]
  · simp only [numAnswer, answerValue, lexNumber, hb, if_false]
    exact answerInt_float t 0

end AGV.Lemmas.HostileNum2
