import AGV.Model.HostileNum
import AGV.Lemmas.Scalars

namespace AGV.Lemmas.HostileNum
open AGV.Gen.IntScalars AGV.Model.Scalars AGV.Model.HostileNum AGV.Lemmas.Scalars
open AGV.Spec.Scalars (GValue inIntDomain)

theorem registered_i64 : registeredIntValidator = .i64 := by decide

/-- no value of any kind makes an integer scalar of the source panic -/
theorem parseInt_ne_panic (t : Entry) (ht : t ∈ table) (v : GValue) : parseInt t v ≠ .panic := by
  by_cases hx : ∃ i, v = .int i
  · obtain ⟨i, rfl⟩ := hx
    by_cases hd : inIntDomain t.name i
    · rw [parseInt_in t ht i hd]; simp
    · obtain ⟨e, he⟩ := parseInt_out t ht i hd
      rw [he]; simp
  · obtain ⟨e, he⟩ := parseInt_other t v (fun i hi => hx ⟨i, hi⟩)
    rw [he]; simp

theorem answerInt_ne_crash (t : Entry) (ht : t ∈ table) (v : GValue) : answerInt t v ≠ .crash := by
  unfold answerInt
  split
  · simp
  · have := parseInt_ne_panic t ht v
    split <;> simp_all

theorem answerValue_ne_crash (ty : NTy) (h : ty.fromSource) (v : GValue) : answerValue ty v ≠ .crash := by
  cases ty with
  | int t => exact answerInt_ne_crash t h v
  | float => cases v <;> simp [answerValue, parseF64]
  | id =>
    have hp : parseId .none v ≠ .panic := by
      cases v <;> simp [parseId]
      split <;> simp
    simp only [answerValue]
    split <;> simp_all

end AGV.Lemmas.HostileNum
