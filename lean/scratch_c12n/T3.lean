import AGV.Model.HostileNum
namespace T3
open AGV.Gen.IntScalars AGV.Model.Scalars AGV.Model.HostileNum
open AGV.Spec.Scalars (GValue)

theorem w1 : (rowOf seededTable "NonZeroU16").map (fun t => numAnswer (.int t) 65536) = some .crash := by decide
theorem w2 : (rowOf table "NonZeroU16").map (fun t => numAnswer (.int t) 65536) = some .error := by decide
theorem w3 : (rowOf seededTable "NonZeroU16").map (fun t => numAnswer (.int t) 65537) = some (.data (.int 1)) := by decide
theorem w4 : (rowOf seededTable "NonZeroU16").map (fun t => numAnswer (.int t) 4294901760) = some .crash := by decide
#eval (allTypeNames, tyOfName "f32" |>.isSome, tyOfName "ID" |>.isSome, tyOfName "x" |>.isSome)
#eval numAnswer .id 18446744073709551615
#eval numAnswer .id 18446744073709551616
#eval numAnswer .float 18446744073709551616
end T3
