import AGV.Lemmas.PegC13Val7
open AGV.Model.Peg AGV.Model.BuildAst AGV.Lemmas.PegX
def names := ["executable_document","executable_definition","operation_definition","named_operation_definition","variable_definitions","variable_definition","selection_set","selection","field","alias","fragment_spread","inline_fragment","fragment_definition","type_condition","operation_type","default_value","type_","non_null_mark","directives","const_directives","directive","const_directive","kw_on_only"]
#eval names.map (fun n => (findRule G0 n).map (fun r => (r.name, repr r.ty, repr r.expr)))
