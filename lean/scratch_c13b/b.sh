#!/bin/bash
# usage: b.sh Name   (compiles scratch_c13b/Name.lean to Name.olean, imports other scratch modules by bare name)
cd /verif/lean
export LEAN_PATH=/verif/lean/.lake/build/lib/lean:/opt/veriftools/lean-4.33.0-linux/lib/lean:/verif/lean/scratch_c13b
/usr/bin/time -f "time %es" /opt/veriftools/lean-4.33.0-linux/bin/lean -o scratch_c13b/$1.olean scratch_c13b/$1.lean 2>&1
