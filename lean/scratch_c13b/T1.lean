import Doc
open AGV.Lemmas.PegX
#check @parseQuery_peg
#print axioms parseQuery_peg
#print axioms reads_definition
