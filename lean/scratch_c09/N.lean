import AGV.Lemmas.ValidateWalk
namespace AGV.Lemmas.ValidateSpecNodes
open AGV.Core AGV.Lemmas.ValidateWalk
open AGV.Spec.Validate

/-- the type the reference validator assigns to the sub-selections of field `n` under `parent` -/
def childTy (S : VSchema) (parent : Option String) (n : String) : Option String :=
  (parent.bind (fun p => fieldType S p n)).bind (fun ft => if (tyDef S ft.1.base).isSome then some ft.1.base else none)

def inlineTy (S : VSchema) (parent : Option String) : Option String → Option String
  | some t => if (tyDef S t).isSome then some t else none
  | none => parent

mutual
/-- the selections below a selection set with the parent type the reference validator assigns -/
def specVisitsSel (S : VSchema) (parent : Option String) : Sel → List (Option String × Sel)
  | .field al n args ds ss p => (parent, .field al n args ds ss p) :: specVisitsSels S (childTy S parent n) ss
  | .spread n ds p => [(parent, .spread n ds p)]
  | .inline c ds ss p => (parent, .inline c ds ss p) :: specVisitsSels S (inlineTy S parent c) ss
def specVisitsSels (S : VSchema) (parent : Option String) : List Sel → List (Option String × Sel)
  | [] => []
  | s :: ss => specVisitsSel S parent s ++ specVisitsSels S parent ss
end

def toNode : Option String × Sel → Node
  | (p, .field al n args ds ss _) => .field p al n args ds ss
  | (p, .spread n ds _) => .spread p n ds
  | (p, .inline c ds ss _) => .inline p c ds ss

mutual
theorem nodesOf_eq (S : VSchema) (parent : Option String) : (s : Sel) → nodesOf S parent s = (specVisitsSel S parent s).map toNode
  | .field al n args ds ss p => by simp [nodesOf, specVisitsSel, toNode, childTy, nodesOfL_eq S _ ss]
  | .spread n ds p => by simp [nodesOf, specVisitsSel, toNode]
  | .inline c ds ss p => by
    cases c <;> simp [nodesOf, specVisitsSel, toNode, inlineTy, nodesOfL_eq S _ ss]
theorem nodesOfL_eq (S : VSchema) (parent : Option String) : (ss : List Sel) → nodesOfL S parent ss = (specVisitsSels S parent ss).map toNode
  | [] => by simp [nodesOfL, specVisitsSels]
  | s :: ss => by simp [nodesOfL, specVisitsSels, nodesOf_eq S parent s, nodesOfL_eq S parent ss]
end

mutual
theorem specVisitsSel_snd (S : VSchema) (p : Option String) : (s : Sel) → (specVisitsSel S p s).map Prod.snd = flatSel s
  | .field al n args ds ss q => by simp [specVisitsSel, flatSel, specVisitsSels_snd S _ ss]
  | .spread n ds q => by simp [specVisitsSel, flatSel]
  | .inline c ds ss q => by simp [specVisitsSel, flatSel, specVisitsSels_snd S _ ss]
theorem specVisitsSels_snd (S : VSchema) (p : Option String) : (ss : List Sel) → (specVisitsSels S p ss).map Prod.snd = flatSels ss
  | [] => by simp [specVisitsSels, flatSels]
  | s :: ss => by simp [specVisitsSels, flatSels, specVisitsSel_snd S p s, specVisitsSels_snd S p ss]
end

/-- all selections of the document with the reference validator's parent types -/
def specDocVisits (S : VSchema) (d : Doc) : List (Option String × Sel) :=
  d.ops.flatMap (fun o => specVisitsSels S (rootType S o.ty) o.sels)
  ++ d.frags.flatMap (fun f => specVisitsSels S (if (tyDef S f.cond).isSome then some f.cond else none) f.sels)

theorem allNodes_eq (S : VSchema) (d : Doc) : allNodes S d = (specDocVisits S d).map toNode := by
  have h1 : opNodes S = fun o => (specVisitsSels S (rootType S o.ty) o.sels).map toNode := by
    funext o; simp [opNodes, nodesOfL_eq]
  have h2 : fragNodes S = fun f => (specVisitsSels S (if (tyDef S f.cond).isSome then some f.cond else none) f.sels).map toNode := by
    funext f; simp [fragNodes, nodesOfL_eq]
  simp [allNodes, specDocVisits, h1, h2, List.map_flatMap]

/-- all selections of the document -/
def allSels (d : Doc) : List Sel := d.ops.flatMap (fun o => flatSels o.sels) ++ d.frags.flatMap (fun f => flatSels f.sels)

theorem specDocVisits_snd (S : VSchema) (d : Doc) : (specDocVisits S d).map Prod.snd = allSels d := by
  simp [specDocVisits, allSels, List.map_flatMap, specVisitsSels_snd]

/-- a rule of the reference validator that does not look at the parent type is a predicate on selections -/
theorem any_allNodes_syntactic (S : VSchema) (d : Doc) (P : Node → Bool) (Q : Sel → Bool)
    (h : ∀ p s, P (toNode (p, s)) = Q s) : (allNodes S d).any P = (allSels d).any Q := by
  rw [allNodes_eq, ← specDocVisits_snd S d, List.any_map, List.any_map]
  congr 1; funext v; exact h v.1 v.2

end AGV.Lemmas.ValidateSpecNodes
