import AGV.Lemmas.ValidateMachine
import AGV.Lemmas.ValidateSpecNodes
namespace AGV.Lemmas.ValidateRules
open AGV.Core AGV.Model.Validate AGV.Lemmas.ValidateWalk AGV.Lemmas.ValidateMachine AGV.Lemmas.ValidateSpecNodes

-- ------------------------------------------------------------------ UniqueArgumentNames

def uaM : Machine (List String) where
  step seen e := match e.ev with
    | .enterDir _ => ([], [])
    | .enterField .. => ([], [])
    | .enterArg n _ => (n :: seen, if seen.contains n then [Kind.dupArg] else [])
    | _ => (seen, [])

theorem ruleUniqueArgs_eq (seen evs) : ruleUniqueArgs seen evs = uaM.run seen evs := by
  fun_induction ruleUniqueArgs seen evs <;> simp_all [Machine.run, uaM]

def notArgEv (e : Evt) : Bool := match e.ev with | .enterDir _ | .enterField .. | .enterArg .. => false | _ => true

theorem uaM_silent (s e) (h : notArgEv e = true) : (uaM.step s e).2 = [] := by
  rcases e with ⟨ev, c, p⟩; cases ev <;> simp_all [uaM, notArgEv]
theorem uaM_keep (s e) (h : notArgEv e = true) : (uaM.step s e).1 = s := by
  rcases e with ⟨ev, c, p⟩; cases ev <;> simp_all [uaM, notArgEv]

/-- the repeated names of a list, given the names already seen -/
def nameDups : List String → List String → List Model.Validate.Kind
  | _, [] => []
  | seen, n :: ns => (if seen.contains n then [Kind.dupArg] else []) ++ nameDups (n :: seen) ns

theorem uaM_args (S : VSchema) (st defs) (seen : List String) (args : List (String × DValue)) :
    uaM.run seen (walkArgs S {} st defs args) = nameDups seen (args.map (·.1)) := by
  induction args generalizing seen with
  | nil => rfl
  | cons a as ih =>
    rw [walkArgs_cons]
    simp only [Machine.run_cons, List.map_cons, nameDups]
    rw [show uaM.step seen (mk st (.enterArg a.1 a.2)) = (a.1 :: seen, if seen.contains a.1 then [Kind.dupArg] else []) from rfl]
    simp only []
    rw [show ∀ x, uaM.step (a.1 :: seen) (mk st (.inputVars x)) = (a.1 :: seen, []) from fun _ => rfl,
      show uaM.step (a.1 :: seen) (mk st (.exitArg a.1)) = (a.1 :: seen, []) from rfl]
    simp [ih]

def dirsDups (ds : List Dir) : List Model.Validate.Kind := ds.flatMap (fun dr => nameDups [] (dr.args.map (·.1)))

theorem uaM_dirs (S : VSchema) (st) (seen : List String) (ds : List Dir) :
    uaM.run seen (walkDirs S {} st ds) = dirsDups ds := by
  induction ds generalizing seen with
  | nil => rfl
  | cons dr ds ih =>
    rw [walkDirs_cons]
    simp only [Machine.run_cons, Machine.run_append, uaM_args, dirsDups, List.flatMap_cons] at ih ⊢
    rw [show uaM.step seen (mk st (.enterDir dr)) = ([], []) from rfl]
    simp only [List.nil_append]
    rw [show ∀ s, uaM.step s (mk st (.exitDir dr)) = (s, []) from fun _ => rfl]
    simp [ih]


theorem notArgEv_enterSet (st ss) : (enterSetEv st ss).all notArgEv = true := by
  cases ss <;> simp [enterSetEv, notArgEv, mk]
theorem notArgEv_exitSet (st ss) : (exitSetEv st ss).all notArgEv = true := by
  cases ss <;> simp [exitSetEv, notArgEv, mk]
theorem notArgEv_post (S : VSchema) (st sel) : (postEvents S st sel).all notArgEv = true := by
  cases sel <;> simp [postEvents, notArgEv_exitSet] <;> simp [notArgEv, mk]

/-- what `UniqueArgumentNames` reports at one selection -/
def nodeUA : Sel → List Model.Validate.Kind
  | .field _ _ args ds _ _ => nameDups [] (args.map (·.1)) ++ dirsDups ds
  | .spread _ ds _ => dirsDups ds
  | .inline _ ds _ _ => dirsDups ds

theorem uaM_pre (S : VSchema) (s st sel) : uaM.run s (preEvents S st sel) = nodeUA sel := by
  cases sel with
  | field al n args ds ss p =>
    simp only [preEvents, Machine.run_cons, Machine.run_append, uaM_dirs, nodeUA]
    rw [show uaM.step s (mk st .enterSel) = (s, []) from rfl]
    simp only []
    rw [show uaM.step s (mk (fieldTy S st n :: st) (.enterField al n args ds ss)) = ([], []) from rfl]
    simp only [uaM_args, Machine.silent uaM notArgEv uaM_silent _ (notArgEv_enterSet _ _)]
    simp
  | spread n ds p =>
    simp only [preEvents, Machine.run_cons, Machine.run_append, uaM_dirs, nodeUA, Machine.run_nil]
    simp [uaM, mk]
  | inline c ds ss p =>
    simp only [preEvents, Machine.run_cons, Machine.run_append, uaM_dirs, nodeUA,
      Machine.silent uaM notArgEv uaM_silent _ (notArgEv_enterSet _ _)]
    simp [uaM, mk]

def opUA (S : VSchema) (o : OpDef) : List Model.Validate.Kind :=
  match rootOf S o.ty with
  | some _ => dirsDups o.dirs
  | none => []

theorem ruleUniqueArgs_events (S : VSchema) (d : Doc) :
    ruleUniqueArgs [] (events S {} d) =
      d.frags.flatMap (fun f => dirsDups f.dirs ++ (visitsSels S (fragSt S f) f.sels).flatMap (fun v => nodeUA v.2))
      ++ d.ops.flatMap (fun o => opUA S o ++ (opVisits S o).flatMap (fun v => nodeUA v.2)) := by
  rw [ruleUniqueArgs_eq,
    Machine.run_events uaM S d (fun _ sel => nodeUA sel) (fun f => dirsDups f.dirs) (opUA S)
      (uaM_pre S)
      (fun s st sel => Machine.silent uaM notArgEv uaM_silent _ (notArgEv_post S st sel) s)]
  · intro s f
    simp only [fragPre, Machine.run_cons, Machine.run_append, uaM_dirs,
      Machine.silent uaM notArgEv uaM_silent _ (notArgEv_enterSet _ _)]
    simp [uaM, mk]
  · intro s f
    exact Machine.silent uaM notArgEv uaM_silent _ (by simp [fragPost, notArgEv_exitSet]; simp [notArgEv, mk]) s
  · intro s o
    unfold opPre opUA
    cases rootOf S o.ty with
    | none => simp [uaM, mk]
    | some r =>
      simp only [Machine.run_cons, Machine.run_append, uaM_dirs,
        Machine.silent uaM notArgEv uaM_silent _ (notArgEv_enterSet _ _)]
      rw [Machine.silent uaM notArgEv uaM_silent (varEvents _ _) (by simp [varEvents, List.all_flatMap, notArgEv, mk])]
      simp [uaM, mk]
  · intro s o
    exact Machine.silent uaM notArgEv uaM_silent _ (by unfold opPost; cases rootOf S o.ty <;> simp [notArgEv_exitSet] <;> simp [notArgEv, mk]) s
  · intro s; simp [uaM, mk]


theorem mem_nameDups (k : Model.Validate.Kind) (seen ns : List String) :
    k ∈ nameDups seen ns ↔ k = .dupArg ∧ ((∃ n ∈ ns, n ∈ seen) ∨ Spec.Validate.hasDup ns = true) := by
  induction ns generalizing seen with
  | nil => simp [nameDups, Spec.Validate.hasDup]
  | cons n ns ih =>
    simp only [nameDups, List.mem_append, ih, Spec.Validate.hasDup, List.mem_cons, Bool.or_eq_true,
      List.contains_iff_mem, exists_eq_or_imp]
    constructor
    · rintro (h | ⟨rfl, (⟨w, hw, hw' | hw'⟩ | h)⟩)
      · split at h
        · simp at h; exact ⟨h, Or.inl (Or.inl (by assumption))⟩
        · simp at h
      · subst hw'; exact ⟨rfl, Or.inr (Or.inl hw)⟩
      · exact ⟨rfl, Or.inl (Or.inr ⟨w, hw, hw'⟩)⟩
      · exact ⟨rfl, Or.inr (Or.inr h)⟩
    · rintro ⟨rfl, ((h | ⟨w, hw, hw'⟩) | (h | h))⟩
      · left; simp [h]
      · exact Or.inr ⟨rfl, Or.inl ⟨w, hw, Or.inr hw'⟩⟩
      · exact Or.inr ⟨rfl, Or.inl ⟨n, h, Or.inl rfl⟩⟩
      · exact Or.inr ⟨rfl, Or.inr h⟩

theorem mem_dirsDups (k : Model.Validate.Kind) (ds : List Dir) :
    k ∈ dirsDups ds ↔ k = .dupArg ∧ ∃ dr ∈ ds, Spec.Validate.hasDup (dr.args.map (·.1)) = true := by
  simp only [dirsDups, List.mem_flatMap, mem_nameDups, List.not_mem_nil, and_false, exists_false, false_or]
  constructor
  · rintro ⟨dr, h, rfl, h'⟩; exact ⟨rfl, dr, h, h'⟩
  · rintro ⟨rfl, dr, h, h'⟩; exact ⟨dr, h, rfl, h'⟩

theorem spec_argumentUniqueness (S : VSchema) (d : Doc) :
    Spec.Validate.violates_ArgumentUniqueness S d = true ↔
      (∃ s ∈ allSels d, Kind.dupArg ∈ nodeUA s) ∨ (∃ o ∈ d.ops, Kind.dupArg ∈ dirsDups o.dirs)
        ∨ (∃ f ∈ d.frags, Kind.dupArg ∈ dirsDups f.dirs) := by
  have key : ∀ v : Option String × Sel,
      ((selSites S v).any (fun s => Spec.Validate.hasDup (s.2.map (·.1)))) = true ↔ Kind.dupArg ∈ nodeUA v.2 := by
    rintro ⟨p, s⟩
    cases s <;> simp [selSites, dirSites, nodeUA, mem_nameDups, mem_dirsDups]
  have hd : ∀ ds : List Dir, (dirSites S ds).any (fun s => Spec.Validate.hasDup (s.2.map (·.1)))
      = ds.any (fun dr => Spec.Validate.hasDup (dr.args.map (·.1))) := by
    intro ds; simp [dirSites, List.any_map, Function.comp_def]
  rw [← exists_specDocVisits_snd S d (fun s => Kind.dupArg ∈ nodeUA s)]
  simp only [Spec.Validate.violates_ArgumentUniqueness, argSites_eq, List.any_append, List.any_flatMap, hd,
    Bool.or_eq_true, List.any_eq_true, mem_dirsDups, or_assoc, ← key, true_and]


end AGV.Lemmas.ValidateRules
