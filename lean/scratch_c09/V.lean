import AGV.Lemmas.ValidateRulesC
namespace AGV.Lemmas.ValidateRules
open AGV.Core AGV.Spec.Validate

theorem mem_violations (P : Params) (S : VSchema) (d : Doc) (vars opName) (r : String) :
    r ∈ violations P S d vars opName ↔
      (r = "5.2.1.1 Operation Name Uniqueness" ∧ violates_OperationNameUniqueness d = true)
      ∨ (r = "5.2.2.1 Lone Anonymous Operation" ∧ violates_LoneAnonymousOperation d = true)
      ∨ (r = "5.2.3.1 Single Root Field" ∧ violates_SingleRootField d (closureFuel d) = true)
      ∨ (r = "5.3.1 Field Selections" ∧ violates_FieldSelections S d = true)
      ∨ (r = "5.3.2 Field Selection Merging" ∧ violates_FieldSelectionMerging S d = true)
      ∨ (r = "5.3.3 Leaf Field Selections" ∧ violates_LeafFieldSelections S d = true)
      ∨ (r = "5.4.1 Argument Names" ∧ violates_ArgumentNames S d = true)
      ∨ (r = "5.4.2 Argument Uniqueness" ∧ violates_ArgumentUniqueness S d = true)
      ∨ (r = "5.4.2.1 Required Arguments" ∧ violates_RequiredArguments S d = true)
      ∨ (r = "5.5.1.1 Fragment Name Uniqueness" ∧ violates_FragmentNameUniqueness d = true)
      ∨ (r = "5.5.1.2 Fragment Spread Type Existence" ∧ violates_FragmentSpreadTypeExistence S d = true)
      ∨ (r = "5.5.1.3 Fragments On Composite Types" ∧ violates_FragmentsOnCompositeTypes S d = true)
      ∨ (r = "5.5.1.4 Fragments Must Be Used" ∧ violates_FragmentsMustBeUsed d = true)
      ∨ (r = "5.5.2.1 Fragment Spread Target Defined" ∧ violates_FragmentSpreadTargetDefined d = true)
      ∨ (r = "5.5.2.2 Fragment Spreads Must Not Form Cycles" ∧ violates_FragmentSpreadsMustNotFormCycles d = true)
      ∨ (r = "5.5.2.3 Fragment Spread Is Possible" ∧ violates_FragmentSpreadIsPossible S d = true)
      ∨ (r = "5.6 Values Of Correct Type" ∧ violates_ValuesOfCorrectType S d = true)
      ∨ (r = "5.7.1 Directives Are Defined" ∧ violates_DirectivesAreDefined S d = true)
      ∨ (r = "5.7.2 Directives Are In Valid Locations" ∧ violates_DirectivesInValidLocations S d = true)
      ∨ (r = "5.7.3 Directives Are Unique Per Location" ∧ violates_DirectivesUniquePerLocation S d = true)
      ∨ (r = "5.8.1 Variable Uniqueness" ∧ violates_VariableUniqueness d = true)
      ∨ (r = "5.8.2 Variables Are Input Types" ∧ violates_VariablesAreInputTypes S d = true)
      ∨ (r = "5.8.3 All Variable Uses Defined" ∧ violates_AllVariableUsesDefined d = true)
      ∨ (r = "5.8.4 All Variables Used" ∧ violates_AllVariablesUsed d = true)
      ∨ (r = "5.8.5 All Variable Usages Are Allowed" ∧ violates_AllVariableUsagesAllowed S d = true)
      ∨ (r = "async-graphql: Upload only in mutations" ∧ violates_UploadOnlyInMutations P d = true)
      ∨ (r = "6.1.2 Coercing Variable Values" ∧ violates_VariableValues S d vars opName = true)
      ∨ (r = "operation type not served" ∧ violates_OperationTypeExists S d = true) := by
  have hr : ∀ (name : String) (b : Bool), r ∈ (if b then [name] else []) ↔ (r = name ∧ b = true) := by
    intro name b; cases b <;> simp
  unfold violations
  simp only [List.mem_append, hr, or_assoc]

end AGV.Lemmas.ValidateRules
