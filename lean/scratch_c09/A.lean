import AGV.Lemmas.ValidateStateless
namespace AGV.Lemmas.ValidateRules
open AGV.Core AGV.Model.Validate AGV.Lemmas.ValidateWalk
open AGV.Spec.Validate (tyDef)

section
variable (S : VSchema) (d : Doc)

/-- every operation of the document has a root type in the schema -/
def Served : Prop := ∀ o ∈ d.ops, (rootOf S o.ty).isSome = true

theorem rootOf_eq (t : OpType) : rootOf S t = Spec.Validate.rootType S t := by cases t <;> rfl

theorem served_iff : Served S d ↔ Spec.Validate.violates_OperationTypeExists S d = false := by
  simp [Served, Spec.Validate.violates_OperationTypeExists, rootOf_eq, Option.isSome_iff_ne_none]

theorem exists_docVisits_snd (Q : Sel → Prop) : (∃ v ∈ docVisits S d, Q v.2) ↔ ∃ s ∈ docSels S d, Q s := by
  rw [← docVisits_snd]
  simp only [List.mem_map]
  constructor
  · rintro ⟨v, hv, h⟩; exact ⟨v.2, ⟨v, hv, rfl⟩, h⟩
  · rintro ⟨s, ⟨v, hv, rfl⟩, h⟩; exact ⟨v, hv, h⟩

theorem mem_docSels (hs : Served S d) (s : Sel) :
    s ∈ docSels S d ↔ (∃ f ∈ d.frags, s ∈ flatSels f.sels) ∨ (∃ o ∈ d.ops, s ∈ flatSels o.sels) := by
  simp only [docSels, List.mem_append, List.mem_flatMap]
  constructor
  · rintro (h | ⟨o, ho, h⟩)
    · exact Or.inl h
    · refine Or.inr ⟨o, ho, ?_⟩
      cases hr : rootOf S o.ty <;> simp_all
  · rintro (h | ⟨o, ho, h⟩)
    · exact Or.inl h
    · refine Or.inr ⟨o, ho, ?_⟩
      have := hs o ho
      cases hr : rootOf S o.ty <;> simp_all

/-- KnownFragmentNames = §5.5.2.1 -/
theorem rule_known_fragment_names (hs : Served S d) :
    Kind.unknownFragment ∈ (events S {} d).flatMap (stateless S {} d) ↔
      Spec.Validate.violates_FragmentSpreadTargetDefined d = true := by
  rw [mem_stateless_events]
  have h1 : ∀ f, Kind.unknownFragment ∉ fragOut S d f := by
    intro f; simp [fragOut, dirsOut, mem_stateless_enterFrag, mem_stateless_enterDir]
  have h2 : ∀ o, Kind.unknownFragment ∉ opOut S d o := by
    intro o; unfold opOut
    cases rootOf S o.ty <;> simp [dirsOut, mem_stateless_enterOp, mem_stateless_enterVar, mem_stateless_enterDir]
  have h3 : ∀ st s, Kind.unknownFragment ∈ nodeOut S d st s ↔ ∃ n ds p, s = .spread n ds p ∧ d.frag? n = none := by
    intro st s
    cases s <;> simp [nodeOut, dirsOut, mem_stateless_enterField, mem_stateless_enterSpread, mem_stateless_enterInline, mem_stateless_enterDir]
  simp only [h1, h2, h3, and_false, exists_false, false_or]
  rw [exists_docVisits_snd S d (fun s => ∃ n ds p, s = .spread n ds p ∧ d.frag? n = none)]
  simp only [mem_docSels S d hs, Spec.Validate.violates_FragmentSpreadTargetDefined, List.any_eq_true, List.mem_append,
    List.mem_flatMap, mem_spreadsOfL, Doc.frag?]
  have hf : ∀ n, (List.find? (fun x => decide (x.name = n)) d.frags = none) ↔ (!d.frags.any fun x_1 => decide (x_1.name = n)) = true := by
    intro n; simp
  constructor
  · rintro ⟨s, hs, n, ds, p, rfl, h⟩
    refine ⟨n, ?_, (hf n).mp h⟩
    rcases hs with ⟨f, hf, h⟩ | ⟨o, ho, h⟩
    · exact Or.inr ⟨f, hf, ds, p, h⟩
    · exact Or.inl ⟨o, ho, ds, p, h⟩
  · rintro ⟨n, hs, h⟩
    rcases hs with ⟨o, ho, ds, p, h'⟩ | ⟨f, hf', ds, p, h'⟩
    · exact ⟨_, Or.inr ⟨o, ho, h'⟩, n, ds, p, rfl, (hf n).mpr h⟩
    · exact ⟨_, Or.inl ⟨f, hf', h'⟩, n, ds, p, rfl, (hf n).mpr h⟩
end
end AGV.Lemmas.ValidateRules
