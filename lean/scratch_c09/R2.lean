import AGV.Lemmas.ValidateWalk
namespace AGV.Lemmas.ValidateRules
open AGV.Core AGV.Model.Validate AGV.Lemmas.ValidateWalk
variable (S : VSchema) (d : Doc)

theorem mem_stateless_enterVar (k : Model.Validate.Kind) (st : Stack) (v : VarDef) :
    k ∈ stateless S {} d (mk st (.enterVar v)) ↔
      (k = .unknownTypeDefault ∧ ∃ n, v.ty.nullable = .named n ∧ S.exists? n = false)
      ∨ (k = .invalidDefault ∧ (¬ ∃ n, v.ty.nullable = .named n ∧ S.exists? n = false)
          ∧ ∃ dv, v.default = some dv ∧ validInput S {} valueFuel v.ty dv = false)
      ∨ (k = .unknownType ∧ S.exists? v.ty.base = false)
      ∨ (k = .varNonInput ∧ S.exists? v.ty.base = true ∧ S.isInput v.ty.base = false) := by
  simp only [stateless, mk, List.mem_append]
  grind


theorem mem_stateless_enterOp (k : Model.Validate.Kind) (st : Stack) (o : OpDef) :
    k ∈ stateless S {} d (mk st (.enterOp o)) ↔
      (k = .dupDirective ∧ hasDupNonRepeatable S o.dirs = true)
      ∨ (k = .upload ∧ o.vars.any (fun v => S.exists? v.ty.base && o.ty != .mutation && v.ty.base == "Upload") = true) := by
  simp only [stateless, mk, List.mem_append]
  grind

theorem mem_stateless_enterFrag (k : Model.Validate.Kind) (st : Stack) (f : FragDef) :
    k ∈ stateless S {} d (mk st (.enterFrag f)) ↔
      (k = .dupDirective ∧ hasDupNonRepeatable S f.dirs = true)
      ∨ (k = .fragNonComposite ∧ ∃ t, Stack.cur st = some t ∧ S.isComposite t = false)
      ∨ (k = .unknownType ∧ S.exists? f.cond = false) := by
  simp only [stateless, mk, List.mem_append]
  grind

theorem mem_stateless_enterDir (k : Model.Validate.Kind) (st : Stack) (dr : Dir) :
    k ∈ stateless S {} d (mk st (.enterDir dr)) ↔
      k = .dirArgMissing ∧ ∃ dd, S.dir? dr.name = some dd ∧ missingArgs dd.args dr.args = true := by
  simp only [stateless, mk, List.mem_append]
  grind

theorem mem_stateless_enterField (k : Model.Validate.Kind) (st : Stack) al n args ds ss :
    k ∈ stateless S {} d (mk st (.enterField al n args ds ss)) ↔
      (k = .unknownField ∧ ∃ p, Stack.par st = some p ∧ n ≠ "__typename" ∧ S.field? p n = none ∧ ds.any (·.name = "ifdef") = false)
      ∨ (k = .leafWithSel ∧ ∃ t, ((Stack.par st).bind (fun p => S.field? p n)).bind (fun f => S.concrete f.ty) = some t
            ∧ S.isLeaf t = true ∧ ss ≠ [])
      ∨ (k = .compositeNoSel ∧ ∃ t, ((Stack.par st).bind (fun p => S.field? p n)).bind (fun f => S.concrete f.ty) = some t
            ∧ S.isLeaf t = false ∧ ss = [])
      ∨ (k = .fieldArgMissing ∧ ∃ f, (Stack.par st).bind (fun p => S.field? p n) = some f ∧ missingArgs f.args args = true)
      ∨ (k = .dupDirective ∧ hasDupNonRepeatable S ds = true) := by
  simp only [stateless, mk, List.mem_append]
  grind

theorem mem_stateless_enterSpread (k : Model.Validate.Kind) (st : Stack) n ds :
    k ∈ stateless S {} d (mk st (.enterSpread n ds)) ↔
      (k = .unknownFragment ∧ d.frag? n = none)
      ∨ (k = .spreadImpossible ∧ ∃ f c, d.frag? n = some f ∧ Stack.cur st = some c ∧ S.exists? f.cond = true ∧ S.overlap c f.cond = false)
      ∨ (k = .dupDirective ∧ hasDupNonRepeatable S ds = true) := by
  simp only [stateless, mk, List.mem_append]
  grind

theorem mem_stateless_enterInline (k : Model.Validate.Kind) (st : Stack) c ds ss :
    k ∈ stateless S {} d (mk st (.enterInline c ds ss)) ↔
      (k = .inlineNonComposite ∧ ∃ t, Stack.cur st = some t ∧ S.isComposite t = false)
      ∨ (k = .unknownType ∧ ∃ t, c = some t ∧ S.exists? t = false)
      ∨ (k = .inlineImpossible ∧ ∃ p t, Stack.par st = some p ∧ c = some t ∧ S.exists? t = true ∧ S.overlap p t = false)
      ∨ (k = .dupDirective ∧ hasDupNonRepeatable S ds = true) := by
  simp only [stateless, mk, List.mem_append]
  grind

end AGV.Lemmas.ValidateRules
