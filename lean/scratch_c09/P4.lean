import AGV.Lemmas.ValidateWalk
namespace AGV.Lemmas.ValidateRules
open AGV.Core AGV.Model.Validate AGV.Lemmas.ValidateWalk
variable (S : VSchema) (d : Doc)

theorem mem_stateless_enterField (k : Model.Validate.Kind) (st : Stack) al n args ds ss :
    k ∈ stateless S {} d (mk st (.enterField al n args ds ss)) ↔
      (k = .unknownField ∧ ∃ p, Stack.par st = some p ∧ n ≠ "__typename" ∧ S.field? p n = none ∧ ds.any (·.name = "ifdef") = false)
      ∨ (k = .leafWithSel ∧ ∃ t, ((Stack.par st).bind (fun p => S.field? p n)).bind (fun f => S.concrete f.ty) = some t
            ∧ S.isLeaf t = true ∧ ss ≠ [])
      ∨ (k = .compositeNoSel ∧ ∃ t, ((Stack.par st).bind (fun p => S.field? p n)).bind (fun f => S.concrete f.ty) = some t
            ∧ S.isLeaf t = false ∧ ss = [])
      ∨ (k = .fieldArgMissing ∧ ∃ f, (Stack.par st).bind (fun p => S.field? p n) = some f ∧ missingArgs f.args args = true)
      ∨ (k = .dupDirective ∧ hasDupNonRepeatable S ds = true) := by
  simp only [stateless, mk, List.mem_append]
  cases hp : Stack.par st with
  | none => simp; grind
  | some p =>
    simp only [Option.bind_some]
    cases hf : S.field? p n with
    | none => simp; grind
    | some f =>
      simp only [Option.bind_some]
      cases hc : S.concrete f.ty <;> simp <;> grind

end AGV.Lemmas.ValidateRules
