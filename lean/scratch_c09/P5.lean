import AGV.Lemmas.ValidateWalk
namespace AGV.Lemmas.ValidateRules
open AGV.Core AGV.Model.Validate AGV.Lemmas.ValidateWalk
variable (S : VSchema) (d : Doc)

theorem mem_stateless_enterSpread (k : Model.Validate.Kind) (st : Stack) n ds :
    k ∈ stateless S {} d (mk st (.enterSpread n ds)) ↔
      (k = .unknownFragment ∧ d.frag? n = none)
      ∨ (k = .spreadImpossible ∧ ∃ f c, d.frag? n = some f ∧ Stack.cur st = some c ∧ S.exists? f.cond = true ∧ S.overlap c f.cond = false)
      ∨ (k = .dupDirective ∧ hasDupNonRepeatable S ds = true) := by
  simp only [stateless, mk, List.mem_append]
  cases h : d.frag? n <;> cases hc : Stack.cur st <;> simp <;> grind

end AGV.Lemmas.ValidateRules
