import AGV.Lemmas.ValidateWalk
namespace AGV.Lemmas.ValidateRules
open AGV.Core AGV.Model.Validate AGV.Lemmas.ValidateWalk
variable (S : VSchema) (d : Doc)

theorem mem_stateless_enterOp (k : Model.Validate.Kind) (st : Stack) (o : OpDef) :
    k ∈ stateless S {} d (mk st (.enterOp o)) ↔
      (k = .dupDirective ∧ hasDupNonRepeatable S o.dirs = true)
      ∨ (k = .upload ∧ o.vars.any (fun v => S.exists? v.ty.base && o.ty != .mutation && v.ty.base == "Upload") = true) := by
  simp only [stateless, mk, List.mem_append]
  grind

end AGV.Lemmas.ValidateRules
