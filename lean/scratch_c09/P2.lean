import AGV.Lemmas.ValidateWalk
namespace AGV.Lemmas.ValidateRules
open AGV.Core AGV.Model.Validate AGV.Lemmas.ValidateWalk
variable (S : VSchema) (d : Doc)

theorem mem_stateless_enterFrag (k : Model.Validate.Kind) (st : Stack) (f : FragDef) :
    k ∈ stateless S {} d (mk st (.enterFrag f)) ↔
      (k = .dupDirective ∧ hasDupNonRepeatable S f.dirs = true)
      ∨ (k = .fragNonComposite ∧ ∃ t, Stack.cur st = some t ∧ S.isComposite t = false)
      ∨ (k = .unknownType ∧ S.exists? f.cond = false) := by
  simp only [stateless, mk, List.mem_append]
  grind

end AGV.Lemmas.ValidateRules
