import AGV.Props.C09
open AGV.Core AGV.Model.Validate AGV.Props.C09
namespace T
def d5 : Doc := q [{ name := "c", ty := .named "Color", default := some (.str "RED") }] [fld "color" [("c", .var "c")]]
#eval (checkRules S0 {} d5 [] none) |> fun o => match o with | .rejected ks => repr ks | _ => "other"
#eval AGV.Spec.Validate.violations {} S0 d5 [] none
def d6 : Doc := q [{ name := "c", ty := .nonNull (.named "Color"), default := some (.str "RED") }] [fld "color" [("c", .var "c")]]
#eval (checkRules S0 {} d6 [] none) |> fun o => match o with | .rejected ks => repr ks | _ => "other"
#eval AGV.Spec.Validate.violations {} S0 d6 [] none
end T
