import AGV.Lemmas.ValidateWalk
namespace AGV.Lemmas.ValidateMachine
open AGV.Core AGV.Model.Validate AGV.Lemmas.ValidateWalk

/-- a rule with state across callbacks -/
structure Machine (σ : Type) where
  step : σ → Evt → σ × List Model.Validate.Kind

namespace Machine
variable {σ : Type} (M : Machine σ)

def run : σ → List Evt → List Model.Validate.Kind
  | _, [] => []
  | s, e :: es => (M.step s e).2 ++ run (M.step s e).1 es

def final : σ → List Evt → σ
  | s, [] => s
  | s, e :: es => final (M.step s e).1 es

theorem run_append (s : σ) (a b : List Evt) : M.run s (a ++ b) = M.run s a ++ M.run (M.final s a) b := by
  induction a generalizing s with
  | nil => simp [run, final]
  | cons e a ih => simp [run, final, ih]

theorem final_append (s : σ) (a b : List Evt) : M.final s (a ++ b) = M.final (M.final s a) b := by
  induction a generalizing s with
  | nil => simp [final]
  | cons e a ih => simp [final, ih]

@[simp] theorem run_nil (s : σ) : M.run s [] = [] := rfl
@[simp] theorem run_cons (s : σ) (e es) : M.run s (e :: es) = (M.step s e).2 ++ M.run (M.step s e).1 es := rfl

/-- pieces whose output does not depend on the state they are entered with can be concatenated -/
theorem run_flatMap {α} (g : α → List Evt) (out : α → List Model.Validate.Kind)
    (h : ∀ s x, M.run s (g x) = out x) (s : σ) (l : List α) : M.run s (l.flatMap g) = l.flatMap out := by
  induction l generalizing s with
  | nil => simp
  | cons x l ih => simp [List.flatMap_cons, run_append, h, ih]

end Machine
end AGV.Lemmas.ValidateMachine
