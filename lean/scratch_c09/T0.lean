import AGV.Props.C09
open AGV.Core AGV.Model.Validate AGV.Props.C09
namespace T
-- candidate counterexamples
def Sifdef : VSchema := { S0 with dirs := S0.dirs ++ [{ name := "ifdef", repeatable := false, locs := ["FIELD"], args := [] }] }
def dIf : Doc := q [] [fld "nope" [] [] none [{ name := "ifdef", args := [] }]]
#eval (checkRules Sifdef {} dIf [] none).isRejected
#eval AGV.Spec.Validate.violations {} Sifdef dIf [] none
-- unserved mutation
def dMut : Doc := { ops := [{ ty := .mutation, name := none, vars := [{name:="a", ty:=.named "Int", default:=none},{name:="a", ty:=.named "Int", default:=none}], dirs := [], sels := [.spread "Nope" [] p0] }], frags := [] }
#eval (events S0 {} dMut).any (fun e => (stateless S0 {} dMut e).contains .unknownFragment)
#eval AGV.Spec.Validate.violates_FragmentSpreadTargetDefined dMut
#eval (ruleUniqueVars [] (events S0 {} dMut)).isEmpty
#eval AGV.Spec.Validate.violates_VariableUniqueness dMut
end T
