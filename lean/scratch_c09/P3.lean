import AGV.Lemmas.ValidateWalk
namespace AGV.Lemmas.ValidateRules
open AGV.Core AGV.Model.Validate AGV.Lemmas.ValidateWalk
variable (S : VSchema) (d : Doc)

theorem mem_stateless_enterDir (k : Model.Validate.Kind) (st : Stack) (dr : Dir) :
    k ∈ stateless S {} d (mk st (.enterDir dr)) ↔
      k = .dirArgMissing ∧ ∃ dd, S.dir? dr.name = some dd ∧ missingArgs dd.args dr.args = true := by
  simp only [stateless, mk, List.mem_append]
  grind

end AGV.Lemmas.ValidateRules
