import AGV.Lemmas.ValidateWalk
namespace AGV.Lemmas.ValidateRules
open AGV.Core AGV.Model.Validate AGV.Lemmas.ValidateWalk
variable (S : VSchema) (d : Doc)

theorem mem_stateless_enterInline (k : Model.Validate.Kind) (st : Stack) c ds ss :
    k ∈ stateless S {} d (mk st (.enterInline c ds ss)) ↔
      (k = .inlineNonComposite ∧ ∃ t, Stack.cur st = some t ∧ S.isComposite t = false)
      ∨ (k = .unknownType ∧ ∃ t, c = some t ∧ S.exists? t = false)
      ∨ (k = .inlineImpossible ∧ ∃ p t, Stack.par st = some p ∧ c = some t ∧ S.exists? t = true ∧ S.overlap p t = false)
      ∨ (k = .dupDirective ∧ hasDupNonRepeatable S ds = true) := by
  simp only [stateless, mk, List.mem_append]
  grind


end AGV.Lemmas.ValidateRules
