import AGV.Lemmas.ValidateRulesA
namespace AGV.Lemmas.ValidateRules
open AGV.Core AGV.Model.Validate AGV.Lemmas.ValidateWalk AGV.Lemmas.ValidateSpecNodes
open AGV.Spec.Validate (tyDef)
section
variable (S : VSchema) (d : Doc)

/-- the non-repeatable directives among `ds` (by the schema's definition) -/
def nonRep (ds : List Dir) : List String :=
  (ds.filter (fun dr => match S.dirs.find? (·.name = dr.name) with | some dd => !dd.repeatable | none => false)).map (·.name)

theorem hasDupNonRepeatable_go (seen : List String) (ds : List Dir) :
    hasDupNonRepeatable.go S seen ds = true ↔ (∃ n ∈ nonRep S ds, n ∈ seen) ∨ Spec.Validate.hasDup (nonRep S ds) = true := by
  induction ds generalizing seen with
  | nil => simp [hasDupNonRepeatable.go, nonRep, Spec.Validate.hasDup]
  | cons dr ds ih =>
    have hn : nonRep S (dr :: ds) =
        (match S.dir? dr.name with | some dd => if dd.repeatable then nonRep S ds else dr.name :: nonRep S ds | none => nonRep S ds) := by
      simp only [nonRep, List.filter_cons, VSchema.dir?]
      cases h : S.dirs.find? (·.name = dr.name) with
      | none => simp
      | some dd => cases hr : dd.repeatable <;> simp [hr]
    rw [hn]
    unfold hasDupNonRepeatable.go
    cases h : S.dir? dr.name with
    | none => simp only [ih]
    | some dd =>
      cases hr : dd.repeatable
      · simp only [hr, Bool.false_eq_true, if_false, ih, Spec.Validate.hasDup, List.mem_cons, exists_eq_or_imp, Bool.or_eq_true,
          List.contains_iff_mem]
        by_cases hs : dr.name ∈ seen
        · simp [hs]
        · simp only [hs, if_false, false_or, ih, List.mem_cons]
          constructor
          · rintro (⟨n, hn, rfl | hn'⟩ | h)
            · exact Or.inr (Or.inl hn)
            · exact Or.inl ⟨n, hn, hn'⟩
            · exact Or.inr (Or.inr h)
          · rintro (⟨n, hn, hn'⟩ | h | h)
            · exact Or.inl ⟨n, hn, Or.inr hn'⟩
            · exact Or.inl ⟨_, h, Or.inl rfl⟩
            · exact Or.inr h
      · simp only [hr, if_true, ih]

theorem hasDupNonRepeatable_eq (ds : List Dir) :
    hasDupNonRepeatable S ds = Spec.Validate.hasDup (nonRep S ds) := by
  rw [Bool.eq_iff_iff]
  unfold hasDupNonRepeatable
  simp [hasDupNonRepeatable_go]

def dirsOf : Sel → List Dir
  | .field _ _ _ ds _ _ => ds
  | .spread _ ds _ => ds
  | .inline _ ds _ _ => ds

def locOf : Sel → String
  | .field .. => "FIELD"
  | .spread .. => "FRAGMENT_SPREAD"
  | .inline .. => "INLINE_FRAGMENT"

def opLoc (o : OpDef) : String := match o.ty with | .query => "QUERY" | .mutation => "MUTATION" | .subscription => "SUBSCRIPTION"

theorem dirUses_eq : Spec.Validate.dirUses S d =
    (specDocVisits S d).map (fun v => (locOf v.2, dirsOf v.2)) ++ d.ops.map (fun o => (opLoc o, o.dirs))
      ++ d.frags.map (fun f => ("FRAGMENT_DEFINITION", f.dirs)) := by
  simp only [Spec.Validate.dirUses, allNodes_eq, List.map_map]
  congr 2
  congr 1
  funext v
  obtain ⟨p, s⟩ := v
  cases s <;> rfl

theorem spec_directivesUnique :
    Spec.Validate.violates_DirectivesUniquePerLocation S d = true ↔
      (∃ s ∈ allSels d, hasDupNonRepeatable S (dirsOf s) = true) ∨ (∃ o ∈ d.ops, hasDupNonRepeatable S o.dirs = true)
        ∨ (∃ f ∈ d.frags, hasDupNonRepeatable S f.dirs = true) := by
  have hu : Spec.Validate.violates_DirectivesUniquePerLocation S d
      = (Spec.Validate.dirUses S d).any (fun u => hasDupNonRepeatable S u.2) := by
    unfold Spec.Validate.violates_DirectivesUniquePerLocation
    congr 1; funext u; rw [hasDupNonRepeatable_eq]; rfl
  rw [← exists_specDocVisits_snd S d (fun s => hasDupNonRepeatable S (dirsOf s) = true)]
  simp only [hu, dirUses_eq, List.any_append, List.any_map,
    Bool.or_eq_true, List.any_eq_true, Function.comp_def, or_assoc]

/-- DirectivesUnique = §5.7.3 -/
theorem rule_directives_unique (hs : Served S d) :
    Kind.dupDirective ∈ (events S {} d).flatMap (stateless S {} d) ↔
      Spec.Validate.violates_DirectivesUniquePerLocation S d = true := by
  rw [mem_stateless_events, spec_directivesUnique]
  have h1 : ∀ f, Kind.dupDirective ∈ fragOut S d f ↔ hasDupNonRepeatable S f.dirs = true := by
    intro f; simp [fragOut, dirsOut, mem_stateless_enterFrag, mem_stateless_enterDir]
  have h2 : ∀ o, (Kind.dupDirective ∈ opOut S d o ↔ hasDupNonRepeatable S o.dirs = true) := by
    intro o; unfold opOut
    cases hr : rootOf S o.ty <;> simp [dirsOut, mem_stateless_enterOp, mem_stateless_enterVar, mem_stateless_enterDir]
  have h3 : ∀ st s, Kind.dupDirective ∈ nodeOut S d st s ↔ hasDupNonRepeatable S (dirsOf s) = true := by
    intro st s
    cases s <;> simp [nodeOut, dirsOut, dirsOf, mem_stateless_enterField, mem_stateless_enterSpread, mem_stateless_enterInline, mem_stateless_enterDir]
  simp only [h1, h2, h3]
  rw [exists_docVisits_snd S d (fun s => hasDupNonRepeatable S (dirsOf s) = true)]
  simp only [docSels_served S d hs]
  constructor
  · rintro (h | h | h)
    · exact Or.inr (Or.inr h)
    · exact Or.inr (Or.inl h)
    · exact Or.inl h
  · rintro (h | h | h)
    · exact Or.inr (Or.inr h)
    · exact Or.inr (Or.inl h)
    · exact Or.inl h

end
end AGV.Lemmas.ValidateRules
