import AGV.Lemmas.ValidateRulesA
namespace AGV.Lemmas.ValidateRules
open AGV.Core AGV.Model.Validate AGV.Lemmas.ValidateWalk AGV.Lemmas.ValidateMachine AGV.Lemmas.ValidateSpecNodes

-- ------------------------------------------------------------------ KnownDirectives

def judgeDir (S : VSchema) (stk : List String) (dr : Dir) : List Model.Validate.Kind :=
  match S.dir? dr.name with
  | some dd => (match stk with
     | loc :: _ => if dd.locs.contains loc then [] else [Kind.dirMisplaced]
     | [] => [])
  | none => [Kind.unknownDirective]

def kdM (S : VSchema) : Machine (List String) where
  step stk e := match e.ev with
    | .enterOp o => (opLoc o :: stk, [])
    | .exitOp _ => (stk.tail, [])
    | .enterFrag _ => ("FRAGMENT_DEFINITION" :: stk, [])
    | .exitFrag _ => (stk.tail, [])
    | .enterField .. => ("FIELD" :: stk, [])
    | .exitField => (stk.tail, [])
    | .enterSpread .. => ("FRAGMENT_SPREAD" :: stk, [])
    | .exitSpread => (stk.tail, [])
    | .enterInline .. => ("INLINE_FRAGMENT" :: stk, [])
    | .exitInline => (stk.tail, [])
    | .enterDir dr => (stk, judgeDir S stk dr)
    | _ => (stk, [])

theorem ruleKnownDirs_eq (S : VSchema) (stk evs) : ruleKnownDirs S stk evs = (kdM S).run stk evs := by
  fun_induction ruleKnownDirs S stk evs <;> simp_all [Machine.run, kdM, opLoc, judgeDir]
  all_goals rfl


/-- events that neither push nor pop a location -/
def keepKD (e : Evt) : Bool :=
  match e.ev with
  | .enterOp _ | .exitOp _ | .enterFrag _ | .exitFrag _ | .enterField .. | .exitField | .enterSpread .. | .exitSpread
  | .enterInline .. | .exitInline => false
  | _ => true

def notDirEv (e : Evt) : Bool := match e.ev with | .enterDir _ => false | _ => true

theorem kdM_keep (S : VSchema) (s e) (h : keepKD e = true) : ((kdM S).step s e).1 = s := by
  rcases e with ⟨ev, c, p⟩; cases ev <;> simp_all [kdM, keepKD]
theorem kdM_silent (S : VSchema) (s e) (h : notDirEv e = true) : ((kdM S).step s e).2 = [] := by
  rcases e with ⟨ev, c, p⟩; cases ev <;> simp_all [kdM, notDirEv]

theorem kdM_run_keep (S : VSchema) (s : List String) (L : List Evt) (h : L.all keepKD = true) :
    (kdM S).run s L = L.flatMap (fun e => ((kdM S).step s e).2) := by
  induction L with
  | nil => rfl
  | cons e L ih =>
    simp only [List.all_cons, Bool.and_eq_true] at h
    simp [Machine.run_cons, kdM_keep S s e h.1, ih h.2]

/-- what `KnownDirectives` reports for the directives at a location -/
def dirsKD (S : VSchema) (loc : String) (ds : List Dir) : List Model.Validate.Kind :=
  ds.flatMap (fun dr => judgeDir S [loc] dr)

theorem judgeDir_top (S : VSchema) (loc stk dr) : judgeDir S (loc :: stk) dr = judgeDir S [loc] dr := by
  unfold judgeDir; cases S.dir? dr.name <;> rfl

theorem keepKD_walkArgs (S : VSchema) (st defs args) : (walkArgs S {} st defs args).all keepKD = true := by
  simp [walkArgs, keepKD, mk]
theorem keepKD_walkDirs (S : VSchema) (st ds) : (walkDirs S {} st ds).all keepKD = true := by
  simp [walkDirs, List.all_flatMap, keepKD_walkArgs]; simp [keepKD, mk]
theorem keepKD_enterSet (st ss) : (enterSetEv st ss).all keepKD = true := by
  cases ss <;> simp [enterSetEv, keepKD, mk]
theorem notDirEv_walkArgs (S : VSchema) (st defs args) : (walkArgs S {} st defs args).all notDirEv = true := by
  simp [walkArgs, notDirEv, mk]
theorem notDirEv_enterSet (st ss) : (enterSetEv st ss).all notDirEv = true := by
  cases ss <;> simp [enterSetEv, notDirEv, mk]
theorem notDirEv_exitSet (st ss) : (exitSetEv st ss).all notDirEv = true := by
  cases ss <;> simp [exitSetEv, notDirEv, mk]

theorem out_silent (S : VSchema) (s : List String) (L : List Evt) (h : L.all notDirEv = true) :
    L.flatMap (fun e => ((kdM S).step s e).2) = [] := by
  induction L with
  | nil => rfl
  | cons e L ih =>
    simp only [List.all_cons, Bool.and_eq_true] at h
    simp [kdM_silent S s e h.1, ih h.2]

theorem out_walkDirs (S : VSchema) (st) (loc : String) (stk : List String) (ds : List Dir) :
    (walkDirs S {} st ds).flatMap (fun e => ((kdM S).step (loc :: stk) e).2) = dirsKD S loc ds := by
  induction ds with
  | nil => rfl
  | cons dr ds ih =>
    rw [walkDirs_cons]
    simp only [List.flatMap_cons, List.flatMap_append, out_silent S _ _ (notDirEv_walkArgs S _ _ _), ih, dirsKD]
    rw [show ((kdM S).step (loc :: stk) (mk st (.enterDir dr))).2 = judgeDir S (loc :: stk) dr from rfl,
      show ((kdM S).step (loc :: stk) (mk st (.exitDir dr))).2 = [] from rfl, judgeDir_top]
    simp

theorem kdM_dirs_then (S : VSchema) (st) (loc : String) (stk : List String) (ds : List Dir) (L : List Evt)
    (hk : L.all keepKD = true) (hd : L.all notDirEv = true) :
    (kdM S).run (loc :: stk) (walkDirs S {} st ds ++ L) = dirsKD S loc ds := by
  rw [kdM_run_keep S _ _ (by simp [keepKD_walkDirs, hk]), List.flatMap_append, out_walkDirs, out_silent S _ _ hd]
  simp


theorem kdM_block (S : VSchema) (st) (loc : String) (stk : List String) (ds : List Dir) (A L : List Evt)
    (hak : A.all keepKD = true) (had : A.all notDirEv = true)
    (hk : L.all keepKD = true) (hd : L.all notDirEv = true) :
    (kdM S).run (loc :: stk) (A ++ walkDirs S {} st ds ++ L) = dirsKD S loc ds := by
  rw [kdM_run_keep S _ _ (by simp [keepKD_walkDirs, hk, hak]), List.flatMap_append, List.flatMap_append, out_walkDirs,
    out_silent S _ _ hd, out_silent S _ _ had]
  simp

theorem notDirEv_post (S : VSchema) (st sel) : (postEvents S st sel).all notDirEv = true := by
  cases sel <;> simp [postEvents, notDirEv_exitSet] <;> simp [notDirEv, mk]

theorem kdM_pre (S : VSchema) (s st sel) : (kdM S).run s (preEvents S st sel) = dirsKD S (locOf sel) (dirsOf sel) := by
  cases sel with
  | field al n args ds ss p =>
    simp only [preEvents, Machine.run_cons, locOf, dirsOf]
    rw [show (kdM S).step s (mk st .enterSel) = (s, []) from rfl]
    simp only []
    rw [show (kdM S).step s (mk (fieldTy S st n :: st) (.enterField al n args ds ss)) = ("FIELD" :: s, []) from rfl]
    simp only [List.nil_append]
    exact kdM_block S _ _ _ _ _ _ (keepKD_walkArgs S _ _ _) (notDirEv_walkArgs S _ _ _) (keepKD_enterSet _ _) (notDirEv_enterSet _ _)
  | spread n ds p =>
    simp only [preEvents, Machine.run_cons, locOf, dirsOf]
    rw [show (kdM S).step s (mk st .enterSel) = (s, []) from rfl]
    simp only []
    rw [show (kdM S).step s (mk st (.enterSpread n ds)) = ("FRAGMENT_SPREAD" :: s, []) from rfl]
    simp only [List.nil_append]
    rw [Machine.run_append, Machine.silent (kdM S) notDirEv (kdM_silent S) [mk st .exitSpread, mk st .exitSel] rfl]
    have := kdM_block S st "FRAGMENT_SPREAD" s ds [] [] rfl rfl rfl rfl
    simpa using this
  | inline c ds ss p =>
    simp only [preEvents, Machine.run_cons, locOf, dirsOf]
    rw [show (kdM S).step s (mk st .enterSel) = (s, []) from rfl]
    simp only []
    rw [show (kdM S).step s (mk (inlineSt S st c) (.enterInline c ds ss)) = ("INLINE_FRAGMENT" :: s, []) from rfl]
    simp only [List.nil_append]
    exact kdM_block S _ _ _ _ [] _ rfl rfl (keepKD_enterSet _ _) (notDirEv_enterSet _ _)


def opKD (S : VSchema) (o : OpDef) : List Model.Validate.Kind :=
  match rootOf S o.ty with
  | some _ => dirsKD S (opLoc o) o.dirs
  | none => []

theorem ruleKnownDirs_events (S : VSchema) (d : Doc) :
    ruleKnownDirs S [] (events S {} d) =
      d.frags.flatMap (fun f => dirsKD S "FRAGMENT_DEFINITION" f.dirs
          ++ (visitsSels S (fragSt S f) f.sels).flatMap (fun v => dirsKD S (locOf v.2) (dirsOf v.2)))
      ++ d.ops.flatMap (fun o => opKD S o ++ (opVisits S o).flatMap (fun v => dirsKD S (locOf v.2) (dirsOf v.2))) := by
  rw [ruleKnownDirs_eq,
    Machine.run_events (kdM S) S d (fun _ sel => dirsKD S (locOf sel) (dirsOf sel)) (fun f => dirsKD S "FRAGMENT_DEFINITION" f.dirs)
      (opKD S) (kdM_pre S)
      (fun s st sel => Machine.silent (kdM S) notDirEv (kdM_silent S) _ (notDirEv_post S st sel) s)]
  · intro s f
    simp only [fragPre, Machine.run_cons]
    rw [show (kdM S).step s (mk (fragSt S f) (.enterFrag f)) = ("FRAGMENT_DEFINITION" :: s, []) from rfl]
    simp only [List.nil_append]
    exact kdM_block S _ _ _ _ [] _ rfl rfl (keepKD_enterSet _ _) (notDirEv_enterSet _ _)
  · intro s f
    exact Machine.silent (kdM S) notDirEv (kdM_silent S) _ (by simp [fragPost, notDirEv_exitSet]; simp [notDirEv, mk]) s
  · intro s o
    unfold opPre opKD
    cases rootOf S o.ty with
    | none => simp [kdM, mk]
    | some r =>
      simp only [Machine.run_cons]
      rw [show (kdM S).step s (mk [] (.enterOp o)) = (opLoc o :: s, []) from rfl]
      simp only [List.nil_append]
      exact kdM_block S _ _ _ _ _ _ (by simp [varEvents, List.all_flatMap, keepKD, mk]) (by simp [varEvents, List.all_flatMap, notDirEv, mk])
        (keepKD_enterSet _ _) (notDirEv_enterSet _ _)
  · intro s o
    exact Machine.silent (kdM S) notDirEv (kdM_silent S) _ (by unfold opPost; cases rootOf S o.ty <;> simp [notDirEv_exitSet] <;> simp [notDirEv, mk]) s
  · intro s; simp [kdM, mk]


def undefinedDir (S : VSchema) (dr : Dir) : Bool := (S.dir? dr.name).isNone
def misplacedDir (S : VSchema) (loc : String) (dr : Dir) : Bool :=
  match S.dir? dr.name with
  | some dd => !(dd.locs.contains loc)
  | none => false

theorem mem_dirsKD (S : VSchema) (k : Model.Validate.Kind) (loc : String) (ds : List Dir) :
    k ∈ dirsKD S loc ds ↔
      (k = .unknownDirective ∧ ds.any (undefinedDir S) = true) ∨ (k = .dirMisplaced ∧ ds.any (misplacedDir S loc) = true) := by
  simp only [dirsKD, List.mem_flatMap, List.any_eq_true, judgeDir, undefinedDir, misplacedDir]
  constructor
  · rintro ⟨dr, hdr, h⟩
    cases hd : S.dir? dr.name with
    | none => simp [hd] at h; exact Or.inl ⟨h, dr, hdr, by simp [hd]⟩
    | some dd =>
      simp only [hd] at h
      split at h
      · simp at h
      · simp at h; exact Or.inr ⟨h, dr, hdr, by simp_all⟩
  · rintro (⟨rfl, dr, hdr, h⟩ | ⟨rfl, dr, hdr, h⟩)
    · refine ⟨dr, hdr, ?_⟩
      cases hd : S.dir? dr.name <;> simp_all
    · refine ⟨dr, hdr, ?_⟩
      cases hd : S.dir? dr.name <;> simp_all

/-- what the two §5.7 rules look at: every directive list with its location -/
theorem any_dirUses (S : VSchema) (d : Doc) (P : String → List Dir → Bool) :
    (Spec.Validate.dirUses S d).any (fun u => P u.1 u.2) = true ↔
      (∃ s ∈ allSels d, P (locOf s) (dirsOf s) = true) ∨ (∃ o ∈ d.ops, P (opLoc o) o.dirs = true)
        ∨ (∃ f ∈ d.frags, P "FRAGMENT_DEFINITION" f.dirs = true) := by
  rw [← exists_specDocVisits_snd S d (fun s => P (locOf s) (dirsOf s) = true)]
  simp only [dirUses_eq, List.any_append, List.any_map, Bool.or_eq_true, List.any_eq_true, Function.comp_def, or_assoc]

theorem mem_knownDirs_events (S : VSchema) (d : Doc) (hs : Served S d) (k : Model.Validate.Kind) :
    k ∈ ruleKnownDirs S [] (events S {} d) ↔
      (∃ s ∈ allSels d, k ∈ dirsKD S (locOf s) (dirsOf s)) ∨ (∃ o ∈ d.ops, k ∈ dirsKD S (opLoc o) o.dirs)
        ∨ (∃ f ∈ d.frags, k ∈ dirsKD S "FRAGMENT_DEFINITION" f.dirs) := by
  rw [ruleKnownDirs_events, mem_folded (fun _ sel => dirsKD S (locOf sel) (dirsOf sel)),
    exists_docVisits_snd S d (fun s => k ∈ dirsKD S (locOf s) (dirsOf s))]
  simp only [docSels_served S d hs]
  have ho : ∀ o ∈ d.ops, opKD S o = dirsKD S (opLoc o) o.dirs := by
    intro o ho
    have := hs o ho
    unfold opKD; cases hr : rootOf S o.ty <;> simp_all
  constructor
  · rintro (h | ⟨o, ho', h⟩ | h)
    · exact Or.inr (Or.inr h)
    · exact Or.inr (Or.inl ⟨o, ho', ho o ho' ▸ h⟩)
    · exact Or.inl h
  · rintro (h | ⟨o, ho', h⟩ | h)
    · exact Or.inr (Or.inr h)
    · exact Or.inr (Or.inl ⟨o, ho', (ho o ho').symm ▸ h⟩)
    · exact Or.inl h

/-- KnownDirectives (unknown directive) = §5.7.1 -/
theorem rule_known_directives_defined (S : VSchema) (d : Doc) (hs : Served S d) :
    Kind.unknownDirective ∈ ruleKnownDirs S [] (events S {} d) ↔ Spec.Validate.violates_DirectivesAreDefined S d = true := by
  have hu : Spec.Validate.violates_DirectivesAreDefined S d
      = (Spec.Validate.dirUses S d).any (fun u => (fun (_ : String) ds => ds.any (undefinedDir S)) u.1 u.2) := by
    unfold Spec.Validate.violates_DirectivesAreDefined
    congr 1; funext u; congr 1; funext dr
    simp only [undefinedDir, VSchema.dir?]
    rw [Bool.eq_iff_iff]; simp
  rw [hu, any_dirUses S d (fun _ ds => ds.any (undefinedDir S)), mem_knownDirs_events S d hs]
  simp [mem_dirsKD]

/-- KnownDirectives (misplaced directive) = §5.7.2 -/
theorem rule_known_directives_location (S : VSchema) (d : Doc) (hs : Served S d) :
    Kind.dirMisplaced ∈ ruleKnownDirs S [] (events S {} d) ↔ Spec.Validate.violates_DirectivesInValidLocations S d = true := by
  have hu : Spec.Validate.violates_DirectivesInValidLocations S d
      = (Spec.Validate.dirUses S d).any (fun u => (fun loc ds => ds.any (misplacedDir S loc)) u.1 u.2) := by
    unfold Spec.Validate.violates_DirectivesInValidLocations
    congr 1
  rw [hu, any_dirUses S d (fun loc ds => ds.any (misplacedDir S loc)), mem_knownDirs_events S d hs]
  simp [mem_dirsKD]

end AGV.Lemmas.ValidateRules
