import AGV.Lemmas.ValidateMachine
import AGV.Lemmas.ValidateStateless
namespace AGV.Lemmas.ValidateRules
open AGV.Core AGV.Model.Validate AGV.Lemmas.ValidateWalk AGV.Lemmas.ValidateMachine

-- ------------------------------------------------------------------ UniqueVariableNames

def uvM : Machine (List String) where
  step seen e := match e.ev with
    | .enterOp _ => ([], [])
    | .enterVar v => (v.name :: seen, if seen.contains v.name then [Kind.dupVar] else [])
    | _ => (seen, [])

theorem ruleUniqueVars_eq (seen evs) : ruleUniqueVars seen evs = uvM.run seen evs := by
  fun_induction ruleUniqueVars seen evs <;> simp_all [Machine.run, uvM]


/-- not `enter_operation_definition`, not `enter_variable_definition` -/
def notOpVar (e : Evt) : Bool := match e.ev with | .enterOp _ | .enterVar _ => false | _ => true

theorem uvM_silent (s e) (h : notOpVar e = true) : (uvM.step s e).2 = [] := by
  rcases e with ⟨ev, c, p⟩; cases ev <;> simp_all [uvM, notOpVar]

theorem notOpVar_walkArgs (S : VSchema) (st defs args) : (walkArgs S {} st defs args).all notOpVar = true := by
  simp [walkArgs, notOpVar, mk]
theorem notOpVar_walkDirs (S : VSchema) (st ds) : (walkDirs S {} st ds).all notOpVar = true := by
  simp [walkDirs, List.all_flatMap, notOpVar_walkArgs]; simp [notOpVar, mk]
theorem notOpVar_enterSet (st ss) : (enterSetEv st ss).all notOpVar = true := by
  cases ss <;> simp [enterSetEv, notOpVar, mk]
theorem notOpVar_exitSet (st ss) : (exitSetEv st ss).all notOpVar = true := by
  cases ss <;> simp [exitSetEv, notOpVar, mk]

theorem notOpVar_pre (S : VSchema) (st sel) : (preEvents S st sel).all notOpVar = true := by
  cases sel <;> simp [preEvents, notOpVar_walkArgs, notOpVar_walkDirs, notOpVar_enterSet] <;> simp [notOpVar, mk]
theorem notOpVar_post (S : VSchema) (st sel) : (postEvents S st sel).all notOpVar = true := by
  cases sel <;> simp [postEvents, notOpVar_exitSet] <;> simp [notOpVar, mk]

/-- the duplicates among the variable definitions of one operation -/
def varDups : List String → List VarDef → List Model.Validate.Kind
  | _, [] => []
  | seen, v :: vs => (if seen.contains v.name then [Kind.dupVar] else []) ++ varDups (v.name :: seen) vs

theorem uvM_vars (st : Stack) (seen vs) : uvM.run seen (varEvents st vs) = varDups seen vs := by
  induction vs generalizing seen with
  | nil => rfl
  | cons v vs ih =>
    simp only [varEvents, List.flatMap_cons, List.cons_append, List.nil_append, Machine.run_cons, varDups] at ih ⊢
    rw [show uvM.step seen (mk st (.enterVar v)) = (v.name :: seen, if seen.contains v.name then [Kind.dupVar] else []) from rfl,
      show uvM.step (v.name :: seen) (mk st (.exitVar v)) = (v.name :: seen, []) from rfl]
    simp [ih]

def opVarDups (S : VSchema) (o : OpDef) : List Model.Validate.Kind :=
  match rootOf S o.ty with
  | some _ => varDups [] o.vars
  | none => []

theorem ruleUniqueVars_events (S : VSchema) (d : Doc) :
    ruleUniqueVars [] (events S {} d) = d.ops.flatMap (opVarDups S) := by
  rw [ruleUniqueVars_eq,
    Machine.run_events uvM S d (fun _ _ => []) (fun _ => []) (opVarDups S)
      (fun s st sel => Machine.silent uvM notOpVar uvM_silent _ (notOpVar_pre S st sel) s)
      (fun s st sel => Machine.silent uvM notOpVar uvM_silent _ (notOpVar_post S st sel) s)]
  · simp [flatMap_const_nil]
  · intro s f
    exact Machine.silent uvM notOpVar uvM_silent _ (by simp [fragPre, notOpVar_walkDirs, notOpVar_enterSet]; simp [notOpVar, mk]) s
  · intro s f
    exact Machine.silent uvM notOpVar uvM_silent _ (by simp [fragPost, notOpVar_exitSet]; simp [notOpVar, mk]) s
  · intro s o
    unfold opPre opVarDups
    cases rootOf S o.ty with
    | none => simp [uvM, mk]
    | some r =>
      simp only [Machine.run_cons, Machine.run_append, uvM_vars]
      rw [Machine.silent uvM notOpVar uvM_silent _ (notOpVar_walkDirs S _ _), Machine.silent uvM notOpVar uvM_silent _ (notOpVar_enterSet _ _)]
      simp [uvM, mk]
  · intro s o
    exact Machine.silent uvM notOpVar uvM_silent _ (by unfold opPost; cases rootOf S o.ty <;> simp [notOpVar_exitSet] <;> simp [notOpVar, mk]) s
  · intro s; simp [uvM, mk]


theorem mem_varDups (k : Model.Validate.Kind) (seen : List String) (vs : List VarDef) :
    k ∈ varDups seen vs ↔ k = .dupVar ∧ ((∃ v ∈ vs, v.name ∈ seen) ∨ Spec.Validate.hasDup (vs.map (·.name)) = true) := by
  induction vs generalizing seen with
  | nil => simp [varDups, Spec.Validate.hasDup]
  | cons v vs ih =>
    simp only [varDups, List.mem_append, ih, List.map_cons, Spec.Validate.hasDup, List.mem_cons, Bool.or_eq_true,
      List.contains_iff_mem, List.mem_map, exists_eq_or_imp]
    constructor
    · rintro (h | ⟨rfl, (⟨w, hw, hw' | hw'⟩ | h)⟩)
      · split at h
        · simp at h; exact ⟨h, Or.inl (Or.inl (by assumption))⟩
        · simp at h
      · exact ⟨rfl, Or.inr (Or.inl ⟨w, hw, hw'⟩)⟩
      · exact ⟨rfl, Or.inl (Or.inr ⟨w, hw, hw'⟩)⟩
      · exact ⟨rfl, Or.inr (Or.inr h)⟩
    · rintro ⟨rfl, ((h | ⟨w, hw, hw'⟩) | (⟨w, hw, hw'⟩ | h))⟩
      · left; simp [h]
      · exact Or.inr ⟨rfl, Or.inl ⟨w, hw, Or.inr hw'⟩⟩
      · exact Or.inr ⟨rfl, Or.inl ⟨w, hw, Or.inl hw'⟩⟩
      · exact Or.inr ⟨rfl, Or.inr h⟩

/-- UniqueVariableNames = §5.8.1 (for documents all of whose operations are served) -/
theorem rule_unique_variable_names (S : VSchema) (d : Doc) (hs : ∀ o ∈ d.ops, (rootOf S o.ty).isSome = true) (k : Model.Validate.Kind) :
    k ∈ ruleUniqueVars [] (events S {} d) ↔ k = .dupVar ∧ Spec.Validate.violates_VariableUniqueness d = true := by
  rw [ruleUniqueVars_events]
  simp only [List.mem_flatMap, Spec.Validate.violates_VariableUniqueness, List.any_eq_true]
  constructor
  · rintro ⟨o, ho, h⟩
    have := hs o ho
    unfold opVarDups at h
    cases hr : rootOf S o.ty <;> simp_all [mem_varDups]
    exact ⟨o, ho, h.2⟩
  · rintro ⟨rfl, o, ho, h⟩
    refine ⟨o, ho, ?_⟩
    have := hs o ho
    unfold opVarDups
    cases hr : rootOf S o.ty <;> simp_all [mem_varDups]

end AGV.Lemmas.ValidateRules
