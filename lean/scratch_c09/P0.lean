import AGV.Lemmas.ValidateWalk
namespace AGV.Lemmas.ValidateRules
open AGV.Core AGV.Model.Validate AGV.Lemmas.ValidateWalk
variable (S : VSchema) (d : Doc)

theorem mem_stateless_enterVar (k : Model.Validate.Kind) (st : Stack) (v : VarDef) :
    k ∈ stateless S {} d (mk st (.enterVar v)) ↔
      (k = .unknownTypeDefault ∧ ∃ n, v.ty.nullable = .named n ∧ S.exists? n = false)
      ∨ (k = .invalidDefault ∧ (¬ ∃ n, v.ty.nullable = .named n ∧ S.exists? n = false)
          ∧ ∃ dv, v.default = some dv ∧ validInput S {} valueFuel v.ty dv = false)
      ∨ (k = .unknownType ∧ S.exists? v.ty.base = false)
      ∨ (k = .varNonInput ∧ S.exists? v.ty.base = true ∧ S.isInput v.ty.base = false) := by
  simp only [stateless, mk, List.mem_append]
  grind


end AGV.Lemmas.ValidateRules
