import AGV.Model.Validate
import AGV.Spec.Validate
