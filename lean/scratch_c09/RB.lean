import AGV.Lemmas.ValidateRulesA
namespace AGV.Lemmas.ValidateRules
open AGV.Core AGV.Model.Validate AGV.Lemmas.ValidateWalk AGV.Lemmas.ValidateMachine AGV.Lemmas.ValidateSpecNodes

-- ------------------------------------------------------------------ UniqueVariableNames

def uvM : Machine (List String) where
  step seen e := match e.ev with
    | .enterOp _ => ([], [])
    | .enterVar v => (v.name :: seen, if seen.contains v.name then [Kind.dupVar] else [])
    | _ => (seen, [])

theorem ruleUniqueVars_eq (seen evs) : ruleUniqueVars seen evs = uvM.run seen evs := by
  fun_induction ruleUniqueVars seen evs <;> simp_all [Machine.run, uvM]


/-- not `enter_operation_definition`, not `enter_variable_definition` -/
def notOpVar (e : Evt) : Bool := match e.ev with | .enterOp _ | .enterVar _ => false | _ => true

theorem uvM_silent (s e) (h : notOpVar e = true) : (uvM.step s e).2 = [] := by
  rcases e with ⟨ev, c, p⟩; cases ev <;> simp_all [uvM, notOpVar]

theorem notOpVar_walkArgs (S : VSchema) (st defs args) : (walkArgs S {} st defs args).all notOpVar = true := by
  simp [walkArgs, notOpVar, mk]
theorem notOpVar_walkDirs (S : VSchema) (st ds) : (walkDirs S {} st ds).all notOpVar = true := by
  simp [walkDirs, List.all_flatMap, notOpVar_walkArgs]; simp [notOpVar, mk]
theorem notOpVar_enterSet (st ss) : (enterSetEv st ss).all notOpVar = true := by
  cases ss <;> simp [enterSetEv, notOpVar, mk]
theorem notOpVar_exitSet (st ss) : (exitSetEv st ss).all notOpVar = true := by
  cases ss <;> simp [exitSetEv, notOpVar, mk]

theorem notOpVar_pre (S : VSchema) (st sel) : (preEvents S st sel).all notOpVar = true := by
  cases sel <;> simp [preEvents, notOpVar_walkArgs, notOpVar_walkDirs, notOpVar_enterSet] <;> simp [notOpVar, mk]
theorem notOpVar_post (S : VSchema) (st sel) : (postEvents S st sel).all notOpVar = true := by
  cases sel <;> simp [postEvents, notOpVar_exitSet] <;> simp [notOpVar, mk]

/-- the duplicates among the variable definitions of one operation -/
def varDups : List String → List VarDef → List Model.Validate.Kind
  | _, [] => []
  | seen, v :: vs => (if seen.contains v.name then [Kind.dupVar] else []) ++ varDups (v.name :: seen) vs

theorem uvM_vars (st : Stack) (seen vs) : uvM.run seen (varEvents st vs) = varDups seen vs := by
  induction vs generalizing seen with
  | nil => rfl
  | cons v vs ih =>
    simp only [varEvents, List.flatMap_cons, List.cons_append, List.nil_append, Machine.run_cons, varDups] at ih ⊢
    rw [show uvM.step seen (mk st (.enterVar v)) = (v.name :: seen, if seen.contains v.name then [Kind.dupVar] else []) from rfl,
      show uvM.step (v.name :: seen) (mk st (.exitVar v)) = (v.name :: seen, []) from rfl]
    simp [ih]

def opVarDups (S : VSchema) (o : OpDef) : List Model.Validate.Kind :=
  match rootOf S o.ty with
  | some _ => varDups [] o.vars
  | none => []

theorem ruleUniqueVars_events (S : VSchema) (d : Doc) :
    ruleUniqueVars [] (events S {} d) = d.ops.flatMap (opVarDups S) := by
  rw [ruleUniqueVars_eq,
    Machine.run_events uvM S d (fun _ _ => []) (fun _ => []) (opVarDups S)
      (fun s st sel => Machine.silent uvM notOpVar uvM_silent _ (notOpVar_pre S st sel) s)
      (fun s st sel => Machine.silent uvM notOpVar uvM_silent _ (notOpVar_post S st sel) s)]
  · simp [flatMap_const_nil]
  · intro s f
    exact Machine.silent uvM notOpVar uvM_silent _ (by simp [fragPre, notOpVar_walkDirs, notOpVar_enterSet]; simp [notOpVar, mk]) s
  · intro s f
    exact Machine.silent uvM notOpVar uvM_silent _ (by simp [fragPost, notOpVar_exitSet]; simp [notOpVar, mk]) s
  · intro s o
    unfold opPre opVarDups
    cases rootOf S o.ty with
    | none => simp [uvM, mk]
    | some r =>
      simp only [Machine.run_cons, Machine.run_append, uvM_vars]
      rw [Machine.silent uvM notOpVar uvM_silent _ (notOpVar_walkDirs S _ _), Machine.silent uvM notOpVar uvM_silent _ (notOpVar_enterSet _ _)]
      simp [uvM, mk]
  · intro s o
    exact Machine.silent uvM notOpVar uvM_silent _ (by unfold opPost; cases rootOf S o.ty <;> simp [notOpVar_exitSet] <;> simp [notOpVar, mk]) s
  · intro s; simp [uvM, mk]


theorem mem_varDups (k : Model.Validate.Kind) (seen : List String) (vs : List VarDef) :
    k ∈ varDups seen vs ↔ k = .dupVar ∧ ((∃ v ∈ vs, v.name ∈ seen) ∨ Spec.Validate.hasDup (vs.map (·.name)) = true) := by
  induction vs generalizing seen with
  | nil => simp [varDups, Spec.Validate.hasDup]
  | cons v vs ih =>
    simp only [varDups, List.mem_append, ih, List.map_cons, Spec.Validate.hasDup, List.mem_cons, Bool.or_eq_true,
      List.contains_iff_mem, List.mem_map, exists_eq_or_imp]
    constructor
    · rintro (h | ⟨rfl, (⟨w, hw, hw' | hw'⟩ | h)⟩)
      · split at h
        · simp at h; exact ⟨h, Or.inl (Or.inl (by assumption))⟩
        · simp at h
      · exact ⟨rfl, Or.inr (Or.inl ⟨w, hw, hw'⟩)⟩
      · exact ⟨rfl, Or.inl (Or.inr ⟨w, hw, hw'⟩)⟩
      · exact ⟨rfl, Or.inr (Or.inr h)⟩
    · rintro ⟨rfl, ((h | ⟨w, hw, hw'⟩) | (⟨w, hw, hw'⟩ | h))⟩
      · left; simp [h]
      · exact Or.inr ⟨rfl, Or.inl ⟨w, hw, Or.inr hw'⟩⟩
      · exact Or.inr ⟨rfl, Or.inl ⟨w, hw, Or.inl hw'⟩⟩
      · exact Or.inr ⟨rfl, Or.inr h⟩

/-- UniqueVariableNames = §5.8.1 (for documents all of whose operations are served) -/
theorem rule_unique_variable_names (S : VSchema) (d : Doc) (hs : ∀ o ∈ d.ops, (rootOf S o.ty).isSome = true) (k : Model.Validate.Kind) :
    k ∈ ruleUniqueVars [] (events S {} d) ↔ k = .dupVar ∧ Spec.Validate.violates_VariableUniqueness d = true := by
  rw [ruleUniqueVars_events]
  simp only [List.mem_flatMap, Spec.Validate.violates_VariableUniqueness, List.any_eq_true]
  constructor
  · rintro ⟨o, ho, h⟩
    have := hs o ho
    unfold opVarDups at h
    cases hr : rootOf S o.ty <;> simp_all [mem_varDups]
    exact ⟨o, ho, h.2⟩
  · rintro ⟨rfl, o, ho, h⟩
    refine ⟨o, ho, ?_⟩
    have := hs o ho
    unfold opVarDups
    cases hr : rootOf S o.ty <;> simp_all [mem_varDups]

-- ------------------------------------------------------------------ UniqueArgumentNames

def uaM : Machine (List String) where
  step seen e := match e.ev with
    | .enterDir _ => ([], [])
    | .enterField .. => ([], [])
    | .enterArg n _ => (n :: seen, if seen.contains n then [Kind.dupArg] else [])
    | _ => (seen, [])

theorem ruleUniqueArgs_eq (seen evs) : ruleUniqueArgs seen evs = uaM.run seen evs := by
  fun_induction ruleUniqueArgs seen evs <;> simp_all [Machine.run, uaM]

def notArgEv (e : Evt) : Bool := match e.ev with | .enterDir _ | .enterField .. | .enterArg .. => false | _ => true

theorem uaM_silent (s e) (h : notArgEv e = true) : (uaM.step s e).2 = [] := by
  rcases e with ⟨ev, c, p⟩; cases ev <;> simp_all [uaM, notArgEv]
theorem uaM_keep (s e) (h : notArgEv e = true) : (uaM.step s e).1 = s := by
  rcases e with ⟨ev, c, p⟩; cases ev <;> simp_all [uaM, notArgEv]

/-- the repeated names of a list, given the names already seen -/
def nameDups : List String → List String → List Model.Validate.Kind
  | _, [] => []
  | seen, n :: ns => (if seen.contains n then [Kind.dupArg] else []) ++ nameDups (n :: seen) ns

theorem uaM_args (S : VSchema) (st defs) (seen : List String) (args : List (String × DValue)) :
    uaM.run seen (walkArgs S {} st defs args) = nameDups seen (args.map (·.1)) := by
  induction args generalizing seen with
  | nil => rfl
  | cons a as ih =>
    rw [walkArgs_cons]
    simp only [Machine.run_cons, List.map_cons, nameDups]
    rw [show uaM.step seen (mk st (.enterArg a.1 a.2)) = (a.1 :: seen, if seen.contains a.1 then [Kind.dupArg] else []) from rfl]
    simp only []
    rw [show ∀ x, uaM.step (a.1 :: seen) (mk st (.inputVars x)) = (a.1 :: seen, []) from fun _ => rfl,
      show uaM.step (a.1 :: seen) (mk st (.exitArg a.1)) = (a.1 :: seen, []) from rfl]
    simp [ih]

def dirsDups (ds : List Dir) : List Model.Validate.Kind := ds.flatMap (fun dr => nameDups [] (dr.args.map (·.1)))

theorem uaM_dirs (S : VSchema) (st) (seen : List String) (ds : List Dir) :
    uaM.run seen (walkDirs S {} st ds) = dirsDups ds := by
  induction ds generalizing seen with
  | nil => rfl
  | cons dr ds ih =>
    rw [walkDirs_cons]
    simp only [Machine.run_cons, Machine.run_append, uaM_args, dirsDups, List.flatMap_cons] at ih ⊢
    rw [show uaM.step seen (mk st (.enterDir dr)) = ([], []) from rfl]
    simp only [List.nil_append]
    rw [show ∀ s, uaM.step s (mk st (.exitDir dr)) = (s, []) from fun _ => rfl]
    simp [ih]


theorem notArgEv_enterSet (st ss) : (enterSetEv st ss).all notArgEv = true := by
  cases ss <;> simp [enterSetEv, notArgEv, mk]
theorem notArgEv_exitSet (st ss) : (exitSetEv st ss).all notArgEv = true := by
  cases ss <;> simp [exitSetEv, notArgEv, mk]
theorem notArgEv_post (S : VSchema) (st sel) : (postEvents S st sel).all notArgEv = true := by
  cases sel <;> simp [postEvents, notArgEv_exitSet] <;> simp [notArgEv, mk]

/-- what `UniqueArgumentNames` reports at one selection -/
def nodeUA : Sel → List Model.Validate.Kind
  | .field _ _ args ds _ _ => nameDups [] (args.map (·.1)) ++ dirsDups ds
  | .spread _ ds _ => dirsDups ds
  | .inline _ ds _ _ => dirsDups ds

theorem uaM_pre (S : VSchema) (s st sel) : uaM.run s (preEvents S st sel) = nodeUA sel := by
  cases sel with
  | field al n args ds ss p =>
    simp only [preEvents, Machine.run_cons, Machine.run_append, uaM_dirs, nodeUA]
    rw [show uaM.step s (mk st .enterSel) = (s, []) from rfl]
    simp only []
    rw [show uaM.step s (mk (fieldTy S st n :: st) (.enterField al n args ds ss)) = ([], []) from rfl]
    simp only [uaM_args, Machine.silent uaM notArgEv uaM_silent _ (notArgEv_enterSet _ _)]
    simp
  | spread n ds p =>
    simp only [preEvents, Machine.run_cons, Machine.run_append, uaM_dirs, nodeUA, Machine.run_nil]
    simp [uaM, mk]
  | inline c ds ss p =>
    simp only [preEvents, Machine.run_cons, Machine.run_append, uaM_dirs, nodeUA,
      Machine.silent uaM notArgEv uaM_silent _ (notArgEv_enterSet _ _)]
    simp [uaM, mk]

def opUA (S : VSchema) (o : OpDef) : List Model.Validate.Kind :=
  match rootOf S o.ty with
  | some _ => dirsDups o.dirs
  | none => []

theorem ruleUniqueArgs_events (S : VSchema) (d : Doc) :
    ruleUniqueArgs [] (events S {} d) =
      d.frags.flatMap (fun f => dirsDups f.dirs ++ (visitsSels S (fragSt S f) f.sels).flatMap (fun v => nodeUA v.2))
      ++ d.ops.flatMap (fun o => opUA S o ++ (opVisits S o).flatMap (fun v => nodeUA v.2)) := by
  rw [ruleUniqueArgs_eq,
    Machine.run_events uaM S d (fun _ sel => nodeUA sel) (fun f => dirsDups f.dirs) (opUA S)
      (uaM_pre S)
      (fun s st sel => Machine.silent uaM notArgEv uaM_silent _ (notArgEv_post S st sel) s)]
  · intro s f
    simp only [fragPre, Machine.run_cons, Machine.run_append, uaM_dirs,
      Machine.silent uaM notArgEv uaM_silent _ (notArgEv_enterSet _ _)]
    simp [uaM, mk]
  · intro s f
    exact Machine.silent uaM notArgEv uaM_silent _ (by simp [fragPost, notArgEv_exitSet]; simp [notArgEv, mk]) s
  · intro s o
    unfold opPre opUA
    cases rootOf S o.ty with
    | none => simp [uaM, mk]
    | some r =>
      simp only [Machine.run_cons, Machine.run_append, uaM_dirs,
        Machine.silent uaM notArgEv uaM_silent _ (notArgEv_enterSet _ _)]
      rw [Machine.silent uaM notArgEv uaM_silent (varEvents _ _) (by simp [varEvents, List.all_flatMap, notArgEv, mk])]
      simp [uaM, mk]
  · intro s o
    exact Machine.silent uaM notArgEv uaM_silent _ (by unfold opPost; cases rootOf S o.ty <;> simp [notArgEv_exitSet] <;> simp [notArgEv, mk]) s
  · intro s; simp [uaM, mk]


theorem mem_nameDups (k : Model.Validate.Kind) (seen ns : List String) :
    k ∈ nameDups seen ns ↔ k = .dupArg ∧ ((∃ n ∈ ns, n ∈ seen) ∨ Spec.Validate.hasDup ns = true) := by
  induction ns generalizing seen with
  | nil => simp [nameDups, Spec.Validate.hasDup]
  | cons n ns ih =>
    simp only [nameDups, List.mem_append, ih, Spec.Validate.hasDup, List.mem_cons, Bool.or_eq_true,
      List.contains_iff_mem, exists_eq_or_imp]
    constructor
    · rintro (h | ⟨rfl, (⟨w, hw, hw' | hw'⟩ | h)⟩)
      · split at h
        · simp at h; exact ⟨h, Or.inl (Or.inl (by assumption))⟩
        · simp at h
      · subst hw'; exact ⟨rfl, Or.inr (Or.inl hw)⟩
      · exact ⟨rfl, Or.inl (Or.inr ⟨w, hw, hw'⟩)⟩
      · exact ⟨rfl, Or.inr (Or.inr h)⟩
    · rintro ⟨rfl, ((h | ⟨w, hw, hw'⟩) | (h | h))⟩
      · left; simp [h]
      · exact Or.inr ⟨rfl, Or.inl ⟨w, hw, Or.inr hw'⟩⟩
      · exact Or.inr ⟨rfl, Or.inl ⟨n, h, Or.inl rfl⟩⟩
      · exact Or.inr ⟨rfl, Or.inr h⟩

theorem mem_dirsDups (k : Model.Validate.Kind) (ds : List Dir) :
    k ∈ dirsDups ds ↔ k = .dupArg ∧ ∃ dr ∈ ds, Spec.Validate.hasDup (dr.args.map (·.1)) = true := by
  simp only [dirsDups, List.mem_flatMap, mem_nameDups, List.not_mem_nil, and_false, exists_false, false_or]
  constructor
  · rintro ⟨dr, h, rfl, h'⟩; exact ⟨rfl, dr, h, h'⟩
  · rintro ⟨rfl, dr, h, h'⟩; exact ⟨dr, h, rfl, h'⟩

theorem spec_argumentUniqueness (S : VSchema) (d : Doc) :
    Spec.Validate.violates_ArgumentUniqueness S d = true ↔
      (∃ s ∈ allSels d, Kind.dupArg ∈ nodeUA s) ∨ (∃ o ∈ d.ops, Kind.dupArg ∈ dirsDups o.dirs)
        ∨ (∃ f ∈ d.frags, Kind.dupArg ∈ dirsDups f.dirs) := by
  have key : ∀ v : Option String × Sel,
      ((selSites S v).any (fun s => Spec.Validate.hasDup (s.2.map (·.1)))) = true ↔ Kind.dupArg ∈ nodeUA v.2 := by
    rintro ⟨p, s⟩
    cases s <;> simp [selSites, dirSites, nodeUA, mem_nameDups, mem_dirsDups]
  have hd : ∀ ds : List Dir, (dirSites S ds).any (fun s => Spec.Validate.hasDup (s.2.map (·.1)))
      = ds.any (fun dr => Spec.Validate.hasDup (dr.args.map (·.1))) := by
    intro ds; simp [dirSites, List.any_map, Function.comp_def]
  rw [← exists_specDocVisits_snd S d (fun s => Kind.dupArg ∈ nodeUA s)]
  simp only [Spec.Validate.violates_ArgumentUniqueness, argSites_eq, List.any_append, List.any_flatMap, hd,
    Bool.or_eq_true, List.any_eq_true, mem_dirsDups, or_assoc, ← key, true_and]



/-- UniqueArgumentNames = §5.4.2 -/
theorem rule_unique_argument_names (S : VSchema) (d : Doc) (hs : Served S d) (k : Model.Validate.Kind) :
    k ∈ ruleUniqueArgs [] (events S {} d) ↔ k = .dupArg ∧ Spec.Validate.violates_ArgumentUniqueness S d = true := by
  constructor
  · intro h
    have hk := AGV.Lemmas.ValidateRanges.range_uniqueArgs _ _ _ h
    subst hk
    refine ⟨rfl, ?_⟩
    rw [ruleUniqueArgs_events, mem_folded (fun _ sel => nodeUA sel)] at h
    rw [spec_argumentUniqueness]
    rcases h with ⟨f, hf, h⟩ | ⟨o, ho, h⟩ | h
    · exact Or.inr (Or.inr ⟨f, hf, h⟩)
    · refine Or.inr (Or.inl ⟨o, ho, ?_⟩)
      unfold opUA at h; cases hr : rootOf S o.ty <;> simp_all
    · rw [exists_docVisits_snd S d (fun s => Kind.dupArg ∈ nodeUA s)] at h
      simp only [docSels_served S d hs] at h
      exact Or.inl h
  · rintro ⟨rfl, h⟩
    rw [ruleUniqueArgs_events, mem_folded (fun _ sel => nodeUA sel)]
    rw [spec_argumentUniqueness] at h
    rcases h with h | ⟨o, ho, h⟩ | ⟨f, hf, h⟩
    · refine Or.inr (Or.inr ?_)
      rw [exists_docVisits_snd S d (fun s => Kind.dupArg ∈ nodeUA s)]
      simp only [docSels_served S d hs]
      exact h
    · refine Or.inr (Or.inl ⟨o, ho, ?_⟩)
      have := hs o ho
      unfold opUA; cases hr : rootOf S o.ty <;> simp_all
    · exact Or.inl ⟨f, hf, h⟩

end AGV.Lemmas.ValidateRules
