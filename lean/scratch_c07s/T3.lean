import AGV.Props.C07
open AGV.Gen.IntScalars AGV.Model.Scalars AGV.Spec.Scalars AGV.Lemmas.Scalars AGV.Props.C07

theorem schemaValid_none (order : List Entry) (t : Entry) (v : GValue) :
    schemaValid .none order t v = isValidInt .none t v := by
  simp [schemaValid, Defects.none]

theorem c07_schema_accept (order : List Entry) (t : Entry) (ht : t ∈ table) (x : GValue) (r : Int) :
    schemaAnswer .none order t x = .accepted r ↔ ∃ i, x = .int i ∧ r = i ∧ inIntDomain t.name i := by
  rw [← c07_accept t ht x r]
  unfold schemaAnswer
  constructor
  · intro h
    split at h
    · cases h
    · split at h <;> simp_all
  · intro h
    have hv := c07_isvalid_complete t ht x r h
    simp [schemaValid_none, hv, h]

theorem c07_schema_reject (order : List Entry) (t : Entry) (ht : t ∈ table) (x : GValue)
    (h : ¬ ∃ i, x = .int i ∧ inIntDomain t.name i) : ∃ s, schemaAnswer .none order t x = .rejected s := by
  obtain ⟨e, he⟩ := c07_reject_is_error t ht x h
  unfold schemaAnswer
  split
  · exact ⟨_, rfl⟩
  · simp [he]


theorem c07_schema_first_registered_refuses_u64 :
    ∃ f ∈ table, ∃ t ∈ table, f.name = "i32" ∧ t.name = "u64" ∧
      inIntDomain t.name 18446744073709551615 ∧
      schemaAnswer { intValidatorOfFirstRegistered := true } [f, t] t (.int 18446744073709551615)
        = .rejected .validation := by
  refine ⟨table[2], List.getElem_mem _, table[7], List.getElem_mem _, by decide, by decide, by decide, by decide⟩

theorem c07_schema_first_registered_refuses_i32 :
    ∃ f ∈ table, ∃ t ∈ table, f.name = "u64" ∧ t.name = "i32" ∧
      inIntDomain t.name (-5) ∧
      schemaAnswer { intValidatorOfFirstRegistered := true } [f, t] t (.int (-5)) = .rejected .validation := by
  refine ⟨table[7], List.getElem_mem _, table[2], List.getElem_mem _, by decide, by decide, by decide, by decide⟩

/-- pinned behaviour, exactly: with the toggle on, a value is accepted iff it is in the type's domain AND the
    64-bit view of the first registered type can read it -/
theorem c07_schema_pinned_exact (f : Entry) (rest : List Entry) (t : Entry) (ht : t ∈ table) (i r : Int) :
    schemaAnswer { intValidatorOfFirstRegistered := true } (f :: rest) t (.int i) = .accepted r ↔
      (r = i ∧ inIntDomain t.name i ∧ readable f.accessor i) := by
  have hacc := c07_accept t ht (.int i) r
  unfold schemaAnswer
  simp only [schemaValid, List.headD_cons, if_true, pinnedValidInt]
  have hb : readableB f.accessor i = true ↔ readable f.accessor i := by
    cases f.accessor <;> simp [readableB, readable]
  by_cases hr : readable f.accessor i
  · simp only [hb.mpr hr, Bool.true_eq_false, if_false]
    constructor
    · intro h
      split at h <;> try cases h
      rename_i r' hp
      obtain ⟨j, hj, rfl, hd⟩ := (c07_accept t ht (.int i) _).mp hp
      cases hj; exact ⟨rfl, hd, hr⟩
    · rintro ⟨rfl, hd, _⟩
      rw [parseInt_in t ht _ hd]
  · have : readableB f.accessor i = false := by
      cases hx : readableB f.accessor i
      · rfl
      · exact absurd (hb.mp hx) hr
    simp [this, hr]
