import AGV.Model.Scalars
open AGV.Gen.IntScalars AGV.Model.Scalars AGV.Spec.Scalars

def tableF : List Entry := [
  { name := "i8", nonZero := false, accessor := .i64,
    reject := [(.lt, -128), (.gt, 127)],
    cast := ⟨8, true⟩, toValueAs := .i64, isValid := .i64, isValidOr := [.u64] },
  { name := "i16", nonZero := false, accessor := .i64,
    reject := [(.lt, -32768), (.gt, 32767)],
    cast := ⟨16, true⟩, toValueAs := .i64, isValid := .i64, isValidOr := [.u64] },
  { name := "i32", nonZero := false, accessor := .i64,
    reject := [(.lt, -2147483648), (.gt, 2147483647)],
    cast := ⟨32, true⟩, toValueAs := .i64, isValid := .i64, isValidOr := [.u64] },
  { name := "i64", nonZero := false, accessor := .i64,
    reject := [],
    cast := ⟨64, true⟩, toValueAs := .i64, isValid := .i64, isValidOr := [.u64] },
  { name := "u8", nonZero := false, accessor := .u64,
    reject := [(.gt, 255)],
    cast := ⟨8, false⟩, toValueAs := .u64, isValid := .i64, isValidOr := [.u64] },
  { name := "u16", nonZero := false, accessor := .u64,
    reject := [(.gt, 65535)],
    cast := ⟨16, false⟩, toValueAs := .u64, isValid := .i64, isValidOr := [.u64] },
  { name := "u32", nonZero := false, accessor := .u64,
    reject := [(.gt, 4294967295)],
    cast := ⟨32, false⟩, toValueAs := .u64, isValid := .i64, isValidOr := [.u64] },
  { name := "u64", nonZero := false, accessor := .u64,
    reject := [],
    cast := ⟨64, false⟩, toValueAs := .u64, isValid := .i64, isValidOr := [.u64] },
  { name := "usize", nonZero := false, accessor := .u64,
    reject := [(.gt, 18446744073709551615)],
    cast := ⟨64, false⟩, toValueAs := .u64, isValid := .i64, isValidOr := [.u64] },
  { name := "isize", nonZero := false, accessor := .i64,
    reject := [(.lt, -9223372036854775808), (.gt, 9223372036854775807)],
    cast := ⟨64, true⟩, toValueAs := .i64, isValid := .i64, isValidOr := [.u64] },
  { name := "NonZeroI8", nonZero := true, accessor := .i64,
    reject := [(.lt, -128), (.gt, 127), (.eq, 0)],
    cast := ⟨8, true⟩, toValueAs := .i64, isValid := .i64, isValidOr := [.u64] },
  { name := "NonZeroI16", nonZero := true, accessor := .i64,
    reject := [(.lt, -32768), (.gt, 32767), (.eq, 0)],
    cast := ⟨16, true⟩, toValueAs := .i64, isValid := .i64, isValidOr := [.u64] },
  { name := "NonZeroI32", nonZero := true, accessor := .i64,
    reject := [(.lt, -2147483648), (.gt, 2147483647), (.eq, 0)],
    cast := ⟨32, true⟩, toValueAs := .i64, isValid := .i64, isValidOr := [.u64] },
  { name := "NonZeroI64", nonZero := true, accessor := .i64,
    reject := [(.eq, 0)],
    cast := ⟨64, true⟩, toValueAs := .i64, isValid := .i64, isValidOr := [.u64] },
  { name := "NonZeroIsize", nonZero := true, accessor := .i64,
    reject := [(.lt, -9223372036854775808), (.gt, 9223372036854775807), (.eq, 0)],
    cast := ⟨64, true⟩, toValueAs := .i64, isValid := .i64, isValidOr := [.u64] },
  { name := "NonZeroU8", nonZero := true, accessor := .u64,
    reject := [(.gt, 255), (.eq, 0)],
    cast := ⟨8, false⟩, toValueAs := .u64, isValid := .i64, isValidOr := [.u64] },
  { name := "NonZeroU16", nonZero := true, accessor := .u64,
    reject := [(.gt, 65535), (.eq, 0)],
    cast := ⟨16, false⟩, toValueAs := .u64, isValid := .i64, isValidOr := [.u64] },
  { name := "NonZeroU32", nonZero := true, accessor := .u64,
    reject := [(.gt, 4294967295), (.eq, 0)],
    cast := ⟨32, false⟩, toValueAs := .u64, isValid := .i64, isValidOr := [.u64] },
  { name := "NonZeroU64", nonZero := true, accessor := .u64,
    reject := [(.eq, 0)],
    cast := ⟨64, false⟩, toValueAs := .u64, isValid := .i64, isValidOr := [.u64] },
  { name := "NonZeroUsize", nonZero := true, accessor := .u64,
    reject := [(.gt, 18446744073709551615), (.eq, 0)],
    cast := ⟨64, false⟩, toValueAs := .u64, isValid := .i64, isValidOr := [.u64] }
]


macro "isvalid_tac" : tactic => `(tactic| (
    simp only [isValidInt, Defects.none, readableB, List.any_cons, List.any_nil,
      Bool.or_false, Bool.or_eq_true, Bool.and_eq_true, decide_eq_true_eq, Bool.false_eq_true, and_false, if_false, reduceCtorEq]
    simp only [i64Min, i64Max, u64Max]
    omega))

theorem isValidInt_in' (t : Entry) (ht : t ∈ table) (i : Int) (h : inIntDomain t.name i) :
    isValidInt .none t (.int i) = true := by
  simp only [table, List.mem_cons, List.not_mem_nil, or_false] at ht
  rcases ht with rfl | rfl | rfl | rfl | rfl | rfl | rfl | rfl | rfl | rfl | rfl | rfl | rfl | rfl | rfl | rfl | rfl | rfl | rfl | rfl <;>
  · simp [inIntDomain, intKind, minOf, maxOf] at h
    isvalid_tac

theorem isValidInt_inF (t : Entry) (ht : t ∈ tableF) (i : Int) (h : inIntDomain t.name i) :
    isValidInt .none t (.int i) = true := by
  simp only [tableF, List.mem_cons, List.not_mem_nil, or_false] at ht
  rcases ht with rfl | rfl | rfl | rfl | rfl | rfl | rfl | rfl | rfl | rfl | rfl | rfl | rfl | rfl | rfl | rfl | rfl | rfl | rfl | rfl <;>
  · simp [inIntDomain, intKind, minOf, maxOf] at h
    isvalid_tac
