import AGV.Model.Scalars
open AGV.Gen.IntScalars AGV.Model.Scalars AGV.Spec.Scalars
example (i : Int) (h : -128 ≤ i ∧ i ≤ 127) : isValidInt .none table[0] (.int i) = true := by
  simp [table, isValidInt, Defects.none, readableB, i64Min, i64Max, u64Max]
  trace_state
  omega
example (i : Int) (h : 1 ≤ i ∧ i ≤ 255) : isValidInt .none table[15] (.int i) = true := by
  simp [table, isValidInt, Defects.none, readableB, i64Min, i64Max, u64Max]
  trace_state
  omega
