import AGV.Util.Judge
import AGV.Util.Sexp
import AGV.Model.Pos
import AGV.Spec.Pos
import AGV.Lemmas.Pos
import AGV.Props.C14
