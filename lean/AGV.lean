import AGV.Util.Judge
import AGV.Util.Sexp
