import AGV.Util.Digits
import AGV.Util.Judge
import AGV.Util.Sexp
import AGV.Core.LValue
import AGV.Core.Types
