import AGV.Util.Digits
import AGV.Util.F64
import AGV.Util.Judge
import AGV.Util.Sexp
import AGV.Core.Cache
import AGV.Core.LValue
import AGV.Core.PAst
import AGV.Core.Types
