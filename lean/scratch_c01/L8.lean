import Scr.Data

namespace AGV.Lemmas.ExecStaticData
open AGV.Core AGV.Model.ExecStatic AGV.Lemmas.ExecStatic
open AGV.Spec.Exec (FieldOcc complete execSet group mapIdx serializeLeaf doesApply excluded argValue)

-- ------------------------------------------------------------------ errors: model ⊆ specification

theorem nnWrap_errs (r : Res) : (nnWrap r).errs = r.errs := by
  unfold nnWrap
  split
  · split <;> rfl
  · rfl

theorem itemWrap_none (D : Defects) (hD : D = Defects.none) (p : List PathSeg) (r : Res) : itemWrap D p r = r := by
  subst hD
  simp [itemWrap, Defects.none]

theorem complete_nonNull_errs (S : Schema) (rec : String → Nat → List Sel → List PathSeg → Res)
    (t : TypeRef) (rv : RVal) (ss : List Sel) (path : List PathSeg) (pos : Pos) (h : rv ≠ .null) :
    ((complete S rec t rv ss path pos).val = some .null → (complete S rec t rv ss path pos).errs ≠ [] →
      (complete S rec (.nonNull t) rv ss path pos).errs = (complete S rec t rv ss path pos).errs) ∧
    ((complete S rec t rv ss path pos).val ≠ some .null →
      (complete S rec (.nonNull t) rv ss path pos).errs = (complete S rec t rv ss path pos).errs) := by
  constructor
  · intro hv he
    cases rv <;> simp_all [complete] <;> split <;> simp_all
  · intro hv
    cases rv <;> simp_all [complete] <;> split <;> simp_all

theorem mapIdx_mem2 {α β γ} (g : Nat → α → β) (g' : Nat → α → γ) (xs : List α) :
    ∀ i, ∀ y ∈ mapIdx g xs i, ∃ j x, x ∈ xs ∧ y = g j x ∧ g' j x ∈ mapIdx g' xs i := by
  induction xs with
  | nil => intro i y h; simp [mapIdx] at h
  | cons x xs ih =>
    intro i y h
    simp only [mapIdx, List.mem_cons] at h
    rcases h with h | h
    · exact ⟨i, x, by simp, h, by simp [mapIdx]⟩
    · obtain ⟨j, x', hx', e, hm⟩ := ih (i + 1) y h
      exact ⟨j, x', by simp [hx'], e, by simp [mapIdx, hm]⟩

theorem resolveValue_errs_sub (c : Model.ExecStatic.Ctx) (hD : c.D = Defects.none)
    (hb : ∀ b ∈ builtinScalars, c.S.isComposite b = false)
    (recM : String → String → Nat → List Sel → List PathSeg → Res) (hrec : RecOK recM)
    (recS : String → Nat → List Sel → List PathSeg → Res) (ss : List Sel) :
    ∀ (t : TypeRef),
      (∀ ty id p, (c.S.possibleTypes t.base).contains ty = true →
        (recM t.base ty id ss p).val = (recS ty id ss p).val ∧
        ∀ e ∈ (recM t.base ty id ss p).errs, e ∈ (recS ty id ss p).errs) →
      ∀ (rv : RVal) (path : List PathSeg) (pos : Pos), (t.base = "Float" → noIntLeaf rv = true) →
      ∀ e ∈ (resolveValue c recM t rv ss path pos).errs, e ∈ (complete c.S recS t rv ss path pos).errs := by
  have hD' : c.D.nanNullInNonNull = false := by rw [hD]; rfl
  intro t
  induction t with
  | named n =>
    intro hr rv path pos hf
    cases rv with
    | null => simp [resolveValue, complete]
    | obj ty id =>
      simp only [resolveValue, complete]
      by_cases hp : (c.S.possibleTypes n).contains ty = true
      · have e := hr ty id path hp
        simp only [TypeRef.base] at e
        rw [if_pos hp, if_pos hp]
        intro x hx
        have hx' : x ∈ (recM n ty id ss path).errs := by
          revert hx
          cases (recM n ty id ss path).val <;> exact fun h => h
        have := e.2 x hx'
        cases (recS ty id ss path).val <;> exact this
      · rw [if_neg hp, if_neg hp]; intro x hx; exact hx
    | leaf v =>
      simp only [resolveValue, complete]
      have hf' : n = "Float" → ∀ i, v ≠ .int i := by
        intro hn i hv
        subst hv
        have := hf hn
        simp [noIntLeaf] at this
      have key := fun v' => toValue_spec c.D hD' c.S n v v' hb hf'
      cases hc : c.S.isComposite n with
      | true =>
        simp only [if_true]
        cases htv : toValue c.D c.S n v with
        | none => intro x hx; exact hx
        | some o =>
          cases o with
          | none => intro x hx; exact hx
          | some v' => have := (key v').1 htv; simp [hc] at this
      | false =>
        simp only [Bool.false_eq_true, if_false]
        cases hs : serializeLeaf c.S n v with
        | some v' => rw [(key v').2 ⟨hc, hs⟩]; intro x hx; exact hx
        | none =>
          cases htv : toValue c.D c.S n v with
          | none => intro x hx; exact hx
          | some o =>
            cases o with
            | none => intro x hx; exact hx
            | some v' => have := (key v').1 htv; simp [hs] at this
    | list xs => simp [resolveValue, complete]
    | fail m => simp [resolveValue, complete]
    | arg a => simp [resolveValue, complete]
  | list t ih =>
    intro hr rv path pos hf
    cases rv with
    | null => simp [resolveValue, complete]
    | list xs =>
      have hsub : ∀ x, x ∈ ((joinAll (mapIdx (fun i x => fun (_ : Unit) =>
            itemWrap c.D (path ++ [PathSeg.idx i]) (resolveValue c recM t x ss (path ++ [PathSeg.idx i]) pos)) xs 0)).map
            (·.errs)).flatten →
          x ∈ ((mapIdx (fun i x => complete c.S recS t x ss (path ++ [PathSeg.idx i]) pos) xs 0).map (·.errs)).flatten := by
        intro x hx
        simp only [List.mem_flatten, List.mem_map] at hx ⊢
        obtain ⟨l, ⟨r, hr', rfl⟩, hxl⟩ := hx
        obtain ⟨f, hf', rfl⟩ := joinAll_mem _ r hr'
        obtain ⟨j, y, hy, rfl, hm⟩ := mapIdx_mem2 _
          (fun i x => complete c.S recS t x ss (path ++ [PathSeg.idx i]) pos) xs 0 f hf'
        refine ⟨_, ⟨_, hm, rfl⟩, ?_⟩
        rw [itemWrap_none c.D hD] at hxl
        apply ih hr y _ pos _ x hxl
        intro hfl
        exact noIntLeafs_mem xs (by simpa [noIntLeaf] using hf hfl) y hy
      simp only [resolveValue, complete]
      intro x hx
      have hx' := hsub x (by split at hx <;> exact hx)
      split <;> exact hx'
    | obj ty id => simp [resolveValue, complete]
    | leaf v => simp [resolveValue, complete]
    | fail m => simp [resolveValue, complete]
    | arg a => simp [resolveValue, complete]
  | nonNull t ih =>
    intro hr rv path pos hf
    by_cases hrv : rv = .null
    · subst hrv; simp [resolveValue, complete]
    · rw [resolveValue_nonNull c recM t rv ss path pos hrv, nnWrap_errs]
      have hv := resolveValue_val_eq c hD' hb recM hrec recS ss t (fun ty id p h => (hr ty id p h).1) rv path pos hf
      have h2 := (resolveValue_props c hD' recM hrec t rv ss path pos).2
      have hsub := ih hr rv path pos hf
      obtain ⟨ca, cb⟩ := complete_nonNull_errs c.S recS t rv ss path pos hrv
      intro x hx
      have hx' := hsub x hx
      by_cases hnull : (complete c.S recS t rv ss path pos).val = some .null
      · rw [ca hnull (by intro he; rw [he] at hx'; simp at hx')]; exact hx'
      · rw [cb hnull]; exact hx'

theorem complete_fail_errs (S : Schema) (rec : String → Nat → List Sel → List PathSeg → Res) (m : String)
    (ss : List Sel) (path : List PathSeg) (pos : Pos) :
    ∀ t : TypeRef, (complete S rec t (.fail m) ss path pos).errs = [⟨path, pos⟩] := by
  intro t
  induction t with
  | named n => simp [complete]
  | list t _ => simp [complete]
  | nonNull t ih =>
    obtain ⟨ca, cb⟩ := complete_nonNull_errs S rec t (.fail m) ss path pos (by simp)
    by_cases hnull : (complete S rec t (.fail m) ss path pos).val = some .null
    · rw [ca hnull (by rw [ih]; simp), ih]
    · rw [cb hnull, ih]

theorem completeField_errs_sub (c : Model.ExecStatic.Ctx) (hD : c.D = Defects.none)
    (hb : ∀ b ∈ builtinScalars, c.S.isComposite b = false)
    (recM : String → String → Nat → List Sel → List PathSeg → Res) (hrec : RecOK recM)
    (recS : String → Nat → List Sel → List PathSeg → Res) (fd : FieldDef) (rv : RVal) (occ : FieldOcc)
    (fpath : List PathSeg)
    (hr : ∀ ty id p, (c.S.possibleTypes fd.ty.base).contains ty = true →
      (recM fd.ty.base ty id occ.sels p).val = (recS ty id occ.sels p).val ∧
      ∀ e ∈ (recM fd.ty.base ty id occ.sels p).errs, e ∈ (recS ty id occ.sels p).errs)
    (hf : fd.ty.base = "Float" → noIntLeaf rv = true) :
    ∀ e ∈ (completeField c recM fd rv occ fpath).errs, e ∈ (complete c.S recS fd.ty rv occ.sels fpath occ.pos).errs := by
  have hres := resolveValue_errs_sub c hD hb recM hrec recS occ.sels fd.ty hr rv fpath occ.pos hf
  cases rv with
  | fail m =>
    rw [complete_fail_errs]
    have h1 : c.D.ifaceErrNoPath = false := by rw [hD]; rfl
    simp only [completeField, h1, Bool.false_and]
    intro e he
    split at he <;> simpa using he
  | null => simpa [completeField] using hres
  | leaf v => simpa [completeField] using hres
  | obj ty id => simpa [completeField] using hres
  | list xs => simpa [completeField] using hres
  | arg a => simpa [completeField] using hres

/-- the errors the specification records for the (single-occurrence) field `occ` of object `(rt, id)` -/
def fieldErrs (c : Model.ExecStatic.Ctx) (fuel : Nat) (rt : String) (id : Nat) (path : List PathSeg) (occ : FieldOcc) :
    List GErr :=
  if occ.name = "__typename" then []
  else
    match c.S.field? rt occ.name with
    | none => []
    | some fd =>
      (complete c.S (execSet (sc c) fuel) fd.ty (fieldRVal c id fd occ) occ.sels (path ++ [.key occ.key]) occ.pos).errs

theorem execStep_single_errs (c : Model.ExecStatic.Ctx) (fuel : Nat) (rt : String) (id : Nat) (path : List PathSeg)
    (acc : Acc) (occ : FieldOcc) :
    (execStep (sc c) fuel rt id path acc ((eraseSt occ).key, [eraseSt occ])).2.1 =
      acc.2.1 ++ fieldErrs c fuel rt id path occ := by
  by_cases ht : occ.name = "__typename"
  · simp [execStep, fieldErrs, eraseSt, ht]
  · have hn : (eraseSt occ).name = occ.name := rfl
    cases hfd : c.S.field? rt occ.name with
    | none => simp [execStep, fieldErrs, hn, ht, hfd]
    | some fd =>
      have hrv : specRVal (sc c) id fd (eraseSt occ) = fieldRVal c id fd occ := by
        unfold fieldRVal specRVal
        simp only [argValue_erase]
        rfl
      cases hv : (complete c.S (execSet (sc c) fuel) fd.ty (fieldRVal c id fd occ) occ.sels
          (path ++ [.key occ.key]) occ.pos).val with
      | none =>
        simp [execStep, fieldErrs, hn, ht, hfd, hrv]
        simp [eraseSt, hv]
      | some v =>
        simp [execStep, fieldErrs, hn, ht, hfd, hrv]
        simp [eraseSt, hv]

theorem execStep_fold_errs (c : Model.ExecStatic.Ctx) (fuel : Nat) (rt : String) (id : Nat) (path : List PathSeg)
    (occs : List FieldOcc) :
    ∀ acc : Acc,
      (((occs.map eraseSt).map (fun o => (o.key, [o]))).foldl (execStep (sc c) fuel rt id path) acc).2.1 =
        acc.2.1 ++ (occs.map (fieldErrs c fuel rt id path)).flatten := by
  induction occs with
  | nil => intro acc; simp
  | cons o os ih =>
    intro acc
    simp only [List.map_cons, List.foldl_cons, List.flatten_cons]
    rw [ih, execStep_single_errs, List.append_assoc]

theorem runField_errs_sub (c : Model.ExecStatic.Ctx) (hD : c.D = Defects.none)
    (hb : ∀ b ∈ builtinScalars, c.S.isComposite b = false) (fuel : Nat) (rt : String) (id : Nat)
    (path : List PathSeg) (occ : FieldOcc)
    (hr : ∀ fd, occ.name ≠ "__typename" → c.S.field? rt occ.name = some fd →
      ∀ ty id p, (c.S.possibleTypes fd.ty.base).contains ty = true →
      (resolveContainer c fuel fd.ty.base ty id occ.sels p).val = (execSet (sc c) fuel ty id occ.sels p).val ∧
      ∀ e ∈ (resolveContainer c fuel fd.ty.base ty id occ.sels p).errs, e ∈ (execSet (sc c) fuel ty id occ.sels p).errs)
    (hleaf : ∀ fd, c.S.field? rt occ.name = some fd → fd.ty.base = "Float" → noIntLeaf (fieldRVal c id fd occ) = true) :
    ∀ e ∈ (runField c (resolveContainer c fuel) rt id path occ).errs, e ∈ fieldErrs c fuel rt id path occ := by
  have hD' : c.D.nanNullInNonNull = false := by rw [hD]; rfl
  by_cases ht : occ.name = "__typename"
  · simp [runField, ht]
  · cases hfd : c.S.field? rt occ.name with
    | none => simp [runField, ht, hfd]
    | some fd =>
      have e := completeField_errs_sub c hD hb (resolveContainer c fuel) (recOK_resolveContainer c hD' fuel)
        (execSet (sc c) fuel) fd (fieldRVal c id fd occ) occ (path ++ [PathSeg.key occ.key]) (hr fd ht hfd) (hleaf fd hfd)
      simpa [runField, fieldErrs, ht, hfd] using e

/-- the traversal of `noRepeatedKeys` never reaches fuel 0 (the model reports running out of fuel as
    an error, the specification executor does not) -/
def deepEnough (c : Model.ExecStatic.Ctx) : Nat → String → String → List Sel → Bool
  | 0, _, _, _ => false
  | fuel + 1, st, rt, sels =>
    (Model.ExecStatic.collect c rt (fuel + 1) st sels).all (fun occ =>
      match c.S.field? rt occ.name with
      | none => true
      | some fd => (c.S.possibleTypes fd.ty.base).all (fun ty => deepEnough c fuel fd.ty.base ty occ.sels))

theorem deepEnough_succ (c : Model.ExecStatic.Ctx) (fuel : Nat) (st rt : String) (sels : List Sel)
    (h : deepEnough c (fuel + 1) st rt sels = true) :
    ∀ occ ∈ Model.ExecStatic.collect c rt (fuel + 1) st sels, ∀ fd, c.S.field? rt occ.name = some fd →
      ∀ ty ∈ c.S.possibleTypes fd.ty.base, deepEnough c fuel fd.ty.base ty occ.sels = true := by
  simp only [deepEnough, List.all_eq_true] at h
  intro occ hocc fd hfd ty hty
  have := h occ hocc
  rw [hfd] at this
  simp only [List.all_eq_true] at this
  exact this ty hty

theorem container_errs_sub (c : Model.ExecStatic.Ctx) (H : DataHyps c) :
    ∀ (fuel : Nat) (st rt : String) (id : Nat) (sels : List Sel) (path : List PathSeg),
      IsObj c.S rt → doesApply c.S rt st = true → selsInert c.vars sels = true →
      noRepeatedKeys c fuel st rt sels = true → deepEnough c fuel st rt sels = true →
      ∀ e ∈ (resolveContainer c fuel st rt id sels path).errs, e ∈ (execSet (sc c) fuel rt id sels path).errs := by
  intro fuel
  induction fuel with
  | zero => intro st rt id sels path _ _ _ _ hde; simp [deepEnough] at hde
  | succ fuel ih =>
    intro st rt id sels path hrt hst hin hgood hdeep
    obtain ⟨hkeys, hspr, hoccs⟩ := noRepeatedKeys_succ c fuel st rt sels hgood
    have hde := deepEnough_succ c fuel st rt sels hdeep
    have hcol := (collect_agree c H.noDefect H.schema rt hrt H.frags (fuel + 1) st sels [] hst hin hspr
      (by intro n _; simp)).1
    have hkeys' : ((((Model.ExecStatic.collect c rt (fuel + 1) st sels).map eraseSt)).map (·.key)).Nodup := by
      have : ((Model.ExecStatic.collect c rt (fuel + 1) st sels).map eraseSt).map (·.key) =
          (Model.ExecStatic.collect c rt (fuel + 1) st sels).map (·.key) := by
        rw [List.map_map]; rfl
      rw [this]; exact hkeys
    have hRF : ∀ occ ∈ Model.ExecStatic.collect c rt (fuel + 1) st sels,
        ∀ e ∈ (runField c (resolveContainer c fuel) rt id path occ).errs, e ∈ fieldErrs c fuel rt id path occ := by
      intro occ hocc
      apply runField_errs_sub c H.noDefect H.builtins fuel rt id path occ ?_ (fun fd hfd => H.floats rt id fd occ hfd)
      intro fd hnt hfd ty id' p hty
      rcases hoccs occ hocc with h | ⟨fd', hfd', hsub⟩
      · exact absurd h hnt
      · rw [hfd] at hfd'
        cases hfd'
        have hty' : ty ∈ c.S.possibleTypes fd.ty.base := by simpa using hty
        obtain ⟨hobj, happ⟩ := H.schema.possible _ _ hty'
        have hi := collect_inert c rt H.frags (fuel + 1) st sels hin occ hocc
        exact ⟨container_val_eq c H fuel fd.ty.base ty id' occ.sels p hobj happ hi (hsub ty hty'),
          ih fd.ty.base ty id' occ.sels p hobj happ hi (hsub ty hty') (hde occ hocc fd hfd ty hty')⟩
    rw [execSet_succ]
    simp only [resolveContainer]
    rw [hcol, group_nodup _ hkeys']
    have f3 := execStep_fold_errs c fuel rt id path (Model.ExecStatic.collect c rt (fuel + 1) st sels) ([], [], [], false)
    intro e he
    have he' : e ∈ ((joinAll ((Model.ExecStatic.collect c rt (fuel + 1) st sels).map
        (fun occ => fun (_ : Unit) => runField c (resolveContainer c fuel) rt id path occ))).map (·.errs)).flatten := by
      split at he <;> exact he
    have hs : e ∈ ((Model.ExecStatic.collect c rt (fuel + 1) st sels).map (fieldErrs c fuel rt id path)).flatten := by
      simp only [List.mem_flatten, List.mem_map] at he' ⊢
      obtain ⟨l, ⟨r, hr', rfl⟩, hxl⟩ := he'
      obtain ⟨f, hf', rfl⟩ := joinAll_mem _ r hr'
      simp only [List.mem_map] at hf'
      obtain ⟨occ, hocc, rfl⟩ := hf'
      exact ⟨_, ⟨occ, hocc, rfl⟩, hRF occ hocc e hxl⟩
    simp only [] at f3
    split <;> (simp only []; rw [f3]; simpa using hs)

theorem run_errs_sub (S : Schema) (d : Doc) (opName : Option String) (raw : List (String × GValue)) (w : World) (fuel : Nat)
    (H : ∀ op, AGV.Spec.Exec.selectOp d opName = some op → RunHyps S d op raw w fuel ∧
      deepEnough (runCtx S d op raw w) fuel (rootOf S op) (rootOf S op) op.sels = true) :
    ∀ e ∈ (Model.ExecStatic.run Defects.none S d opName raw w fuel).errs, e ∈ (AGV.Spec.Exec.run S d opName raw w fuel).errs := by
  unfold Model.ExecStatic.run AGV.Spec.Exec.run
  cases hop : AGV.Spec.Exec.selectOp d opName with
  | none => intro e he; exact he
  | some op =>
    obtain ⟨h, hdeep⟩ := H op hop
    have hsv : skipVars Defects.none op.vars raw = AGV.Spec.Exec.coerceVars op.vars raw := rfl
    have hfr := h.data.frags
    have hd : ({ ops := d.ops, frags := d.frags.map (fun f =>
        { f with sels := prune (AGV.Spec.Exec.coerceVars op.vars raw) fuel f.sels }) } : Doc) = d := by
      have : d.frags.map (fun f => ({ f with sels := prune (AGV.Spec.Exec.coerceVars op.vars raw) fuel f.sels } : FragDef)) = d.frags := by
        conv => rhs; rw [← List.map_id d.frags]
        apply List.map_congr_left
        intro f hf
        have := prune_inert (AGV.Spec.Exec.coerceVars op.vars raw) fuel f.sels (hfr f hf)
        simp [this]
      rw [this]
    simp only [hsv, hd, prune_inert _ fuel op.sels h.opInert]
    exact container_errs_sub (runCtx S d op raw w) h.data fuel (rootOf S op) (rootOf S op) 0 op.sels [] h.root
      (doesApply_self S _ h.root) h.opInert h.keys hdeep

end AGV.Lemmas.ExecStaticData
