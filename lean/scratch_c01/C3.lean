import AGV.Props.C03
namespace AGV.Props.C03
open AGV.Core AGV.Model.ExecStatic AGV.Lemmas.ExecStatic AGV.Spec.Exec

/-- `{ node { __typename }  node { req } }` — a VALID document (both occurrences of the response key
    `node` name the same field without arguments) in the world where `req: Int!` fails -/
def docRepeat : Doc := { ops := [{ ty := .query, name := none, vars := [], dirs := [], sels := [
  Sel.field none "node" [] [] [Sel.field none "__typename" [] [] [] p0] p0, selNode] }], frags := [] }

/-- the model (like the real `merge_value`, whose `_ => {}` arm keeps the earlier value) leaves the
    partial object of the first occurrence in place although the error of the second occurrence
    nulled the nullable position `node`; the specification answers `{"node": null}` -/
theorem c03_repeated_key_error_witness :
    (Model.ExecStatic.run Defects.none S0 docRepeat none [] w0 10).val = some (.obj [("node", .obj [("__typename", .str "O")])]) ∧
    (AGV.Spec.Exec.run S0 docRepeat none [] w0 10).val = some (.obj [("node", .null)]) := by
  constructor <;> rfl

/-- `c03_full` as stated is FALSE, even on valid documents: its data conjunct fails on `docRepeat` -/
theorem c03_full_refuted : ¬ c03_full := by
  intro h
  have h1 := (h S0 docRepeat none [] w0 10 (by simp [fuelBound, selCount, docRepeat, selNode, selReq])).1
  rw [c03_repeated_key_error_witness.1, c03_repeated_key_error_witness.2] at h1
  simp at h1
end AGV.Props.C03
