import Scr.Data

namespace AGV.Props.C01
open AGV.Core AGV.Model.ExecStatic AGV.Lemmas.ExecStatic AGV.Lemmas.ExecStaticData

def c01_data_full : Prop :=
  ∀ (S : Schema) (d : Doc) (op : Option String) (vars : List (String × GValue)) (w : World),
    (∀ fuel ≥ AGV.Spec.Exec.fuelBound d,
      (Model.ExecStatic.run Defects.none S d op vars w fuel).val = (AGV.Spec.Exec.run S d op vars w fuel).val)

def p0 : Pos := ⟨1, 1⟩
def S0 : Schema := { query := "Query", types := [
  { name := "Query", kind := .object, fields := [{ name := "obj", ty := .named "O", args := [] }] },
  { name := "O", kind := .object, fields := [{ name := "a", ty := .named "Int", args := [] },
                                             { name := "f", ty := .nonNull (.named "Float"), args := [] }] },
  { name := "U", kind := .union, members := ["O"] },
  { name := "Int", kind := .scalar }, { name := "Float", kind := .scalar }, { name := "Boolean", kind := .scalar }] }
def w0 : World := { entries := [((0, "obj"), .obj "O" 1), ((1, "a"), .leaf (.int 5)), ((1, "f"), .leaf (.float "NaN"))] }
def selA : Sel := Sel.field none "a" [] [] [] p0
def selF : Sel := Sel.field none "f" [] [] [] p0

-- ------------------------------------------------------------------ the full statement needs hypotheses

/-- `{ zz }`: a field the root type does not have (rejected by validation rule 5.3.1) -/
def docUnknown : Doc := { ops := [{ ty := .query, name := none, vars := [], dirs := [], sels := [Sel.field none "zz" [] [] [] p0] }], frags := [] }

/-- `c01_data_full` as first stated (no validity hypothesis) is FALSE: for a field that does not
    exist the executor model answers `{"zz": null}` (the derive-generated `resolve_field` returns
    `Ok(None)`), the specification's executor skips the field.  Such documents never reach the
    executor (validation rejects them). -/
theorem c01_data_full_needs_validity : ¬ c01_data_full := by
  intro h
  have h1 := h S0 docUnknown none [] w0 3 (by simp [AGV.Spec.Exec.fuelBound, AGV.Spec.Exec.selCount, docUnknown])
  have hm : (run Defects.none S0 docUnknown none [] w0 3).val = some (.obj [("zz", .null)]) := by rfl
  have hs : (AGV.Spec.Exec.run S0 docUnknown none [] w0 3).val = some (.obj []) := by rfl
  rw [hm, hs] at h1
  simp at h1

/-- `{ x: obj { a }  x: obj { f } }` with `f: Float!` failing (NaN) -/
def docRepeatErr : Doc := { ops := [{ ty := .query, name := none, vars := [], dirs := [], sels := [Sel.field (some "x") "obj" [] [] [selA] p0, Sel.field (some "x") "obj" [] [] [selF] p0] }], frags := [] }

/-- Validity is not enough either: for a VALID document in which a response key occurs twice and
    the later occurrence is nulled by an error propagating out of its sub-selection, the executor
    model (like `merge_value`, whose `_ => {}` arm keeps the earlier value) answers
    `{"x": {"a": 5}}` while the specification (one execution of the merged selection set) answers
    `{"x": null}`.  Confirmed on the real executor (replays/C01/repeated-key-error.case). -/
theorem c01_repeated_key_error_witness :
    (run Defects.none S0 docRepeatErr none [] w0 10).val = some (.obj [("x", .obj [("a", .int 5)])]) ∧
    (AGV.Spec.Exec.run S0 docRepeatErr none [] w0 10).val = some (.obj [("x", .null)]) := by
  constructor <;> rfl

-- ------------------------------------------------------------------ stage 1: field collection

/-- selection sets made of plain fields: no fragments, no directives -/
def plainFields (sels : List Sel) : Bool :=
  sels.all (fun s => match s with
    | .field _ _ _ ds _ _ => ds.isEmpty
    | _ => false)

/-- warm-up: on a selection set of plain fields `Fields::add_set` and CollectFields produce the same
    occurrence list (for every schema, document, runtime type, static type and visited set) -/
theorem c01_collect_partial (cm : Model.ExecStatic.Ctx) (cs : AGV.Spec.Exec.Ctx) (rt st : String) (fuel : Nat)
    (sels : List Sel) (vis : List String) (h : plainFields sels = true) :
    AGV.Spec.Exec.collect cs rt (fuel + 1) sels vis =
      ((Model.ExecStatic.collect cm rt (fuel + 1) st sels).map eraseSt, vis) := by
  rw [spec_collect_succ]
  suffices hg : ∀ acc : List AGV.Spec.Exec.FieldOcc × List String,
      sels.foldl (specStep cs rt fuel) acc =
        (acc.1 ++ (Model.ExecStatic.collect cm rt (fuel + 1) st sels).map eraseSt, acc.2) by
    simpa using hg ([], vis)
  induction sels with
  | nil => intro acc; simp [Model.ExecStatic.collect]
  | cons s r ih =>
    intro acc
    simp only [plainFields, List.all_cons, Bool.and_eq_true] at h
    have ih' := ih (by simpa [plainFields] using h.2)
    cases s with
    | field al n args ds ss pos =>
      have hds : ds = [] := by simpa using h.1
      subst hds
      rw [List.foldl_cons, ih', collect_cons]
      simp [specStep, AGV.Spec.Exec.excluded, Model.ExecStatic.collect, eraseSt]
    | spread n ds pos => simp at h
    | inline cnd ds ss pos => simp at h

/-- CollectFields in general: with the union-condition defect repaired, on a consistent schema,
    when no directive acts and no fragment name is spread twice within the selection set, the model
    collects exactly the specification's occurrences (type conditions on objects, interfaces and
    unions; named and inline fragments; any nesting) -/
theorem c01_collect_spread_once (c : Model.ExecStatic.Ctx) (hD : c.D = Defects.none) (hok : SchemaOK c.S)
    (rt : String) (hrt : IsObj c.S rt) (hfr : ∀ f ∈ c.d.frags, selsInert c.vars f.sels = true)
    (fuel : Nat) (st : String) (sels : List Sel) (hst : AGV.Spec.Exec.doesApply c.S rt st = true)
    (hin : selsInert c.vars sels = true) (hnd : (spreads c.d fuel sels).Nodup) :
    (AGV.Spec.Exec.collect (sc c) rt fuel sels []).1 = (Model.ExecStatic.collect c rt fuel st sels).map eraseSt :=
  (collect_agree c hD hok rt hrt hfr fuel st sels [] hst hin hnd (by intro n _; simp)).1

-- ------------------------------------------------------------------ stage 2: data, distinct response keys

/-- DATA EQUALITY for documents without repeated response keys.  For every schema, document,
    variables, world (resolver failures, nulls in non-null positions, ill-typed leaves, non-finite
    floats, unknown runtime types all included) and every fuel: if, for the selected operation,
      * the schema is consistent (`SchemaOK`: `implements`/`members` agree with DoesFragmentTypeApply;
        implied by the decidable `schemaWF`), no composite type is named like a built-in scalar,
      * no `@skip`/`@include` acts (`selsInert`; present-but-inert directives are allowed),
      * no `Int` leaf is returned for a `Float` field (implied by the decidable `worldFloatOK`),
      * `noRepeatedKeys`: at every selection set reached, for every possible runtime type, the
        collected response keys are pairwise distinct, no fragment name is spread twice and every
        collected field exists,
    then the executor model without defects returns exactly the specification's data. -/
theorem c01_data_partial_nodup (S : Schema) (d : Doc) (opName : Option String) (raw : List (String × GValue))
    (w : World) (fuel : Nat)
    (H : ∀ op, AGV.Spec.Exec.selectOp d opName = some op → RunHyps S d op raw w fuel) :
    (Model.ExecStatic.run Defects.none S d opName raw w fuel).val = (AGV.Spec.Exec.run S d opName raw w fuel).val :=
  run_val_eq S d opName raw w fuel H

-- a non-trivial instance: interface, union, named + inline fragments, inert directives, a list,
-- a failing resolver and a non-finite float in a non-null position

def tQuery : TypeDef := { name := "Query", kind := .object, fields := [
  { name := "obj", ty := .named "O", args := [] }, { name := "node", ty := .named "I", args := [] },
  { name := "items", ty := .list (.nonNull (.named "O")), args := [] }] }
def S1 : Schema := { query := "Query", types := [
  tQuery,
  { name := "I", kind := .interface, fields := [{ name := "name", ty := .named "String", args := [] }] },
  { name := "O", kind := .object, implements := ["I"], fields := [
      { name := "name", ty := .named "String", args := [] }, { name := "a", ty := .named "Int", args := [] },
      { name := "f", ty := .nonNull (.named "Float"), args := [] }] },
  { name := "P", kind := .object, implements := ["I"], fields := [{ name := "name", ty := .named "String", args := [] }] },
  { name := "U", kind := .union, members := ["O", "P"] },
  { name := "Int", kind := .scalar }, { name := "Float", kind := .scalar }, { name := "String", kind := .scalar },
  { name := "Boolean", kind := .scalar }] }

def w1 : World := { entries := [
  ((0, "obj"), .obj "O" 1), ((0, "node"), .obj "P" 2), ((0, "items"), .list [.obj "O" 1, .obj "O" 3]),
  ((1, "name"), .leaf (.str "x")), ((1, "a"), .leaf (.int 5)), ((1, "f"), .leaf (.float "NaN")),
  ((2, "name"), .leaf (.str "p")), ((3, "a"), .fail "boom"), ((3, "f"), .leaf (.float "1.5"))] }

def dirOn : Dir := { name := "include", args := [("if", .bool true)] }
def dirOff : Dir := { name := "skip", args := [("if", .bool false)] }
def fragF : FragDef := { name := "F", cond := "I", dirs := [], sels := [
  Sel.field none "name" [] [] [] p0, Sel.inline none [dirOff] [Sel.field none "a" [] [] [] p0] p0] }
/-- `{ obj { ...F ... on U { f } } node { __typename ... on P { nm: name } ... on O { a } } items { a @include(if: true) } }` -/
def op1 : OpDef := { ty := .query, name := none, vars := [], dirs := [], sels := [
  Sel.field none "obj" [] [] [Sel.spread "F" [] p0, Sel.inline (some "U") [] [Sel.field none "f" [] [] [] p0] p0] p0,
  Sel.field none "node" [] [] [Sel.field none "__typename" [] [] [] p0,
    Sel.inline (some "P") [] [Sel.field (some "nm") "name" [] [] [] p0] p0,
    Sel.inline (some "O") [] [Sel.field none "a" [] [] [] p0] p0] p0,
  Sel.field none "items" [] [] [Sel.field none "a" [] [dirOn] [] p0] p0] }
def doc1 : Doc := { ops := [op1], frags := [fragF] }

/-- the hypotheses of `c01_data_partial_nodup` hold for a document with fragments on an interface and
    a union, inert directives, a list, a failing resolver and a NaN in a `Float!` position -/
theorem c01_data_partial_nodup_example :
    ∀ op, AGV.Spec.Exec.selectOp doc1 none = some op → RunHyps S1 doc1 op [] w1 10 := by
  intro op hop
  have : op = op1 := by simpa [AGV.Spec.Exec.selectOp, doc1] using hop.symm
  subst this
  exact {
    root := ⟨tQuery, rfl, rfl⟩
    data := {
      noDefect := rfl
      schema := schemaOK_of_wf _ (by decide)
      builtins := by decide
      frags := by decide
      floats := floats_of_world _ (by decide) }
    opInert := by decide
    keys := by decide }

example : (run Defects.none S1 doc1 none [] w1 10).val = (AGV.Spec.Exec.run S1 doc1 none [] w1 10).val :=
  c01_data_partial_nodup S1 doc1 none [] w1 10 c01_data_partial_nodup_example

-- ------------------------------------------------------------------ stage 3 (open): repeated response keys

def listDepth : TypeRef → Nat
  | .named _ => 0
  | .list t => listDepth t + 1
  | .nonNull t => listDepth t

/-- like `noRepeatedKeys`, but a response key may repeat when all its occurrences name the same field
    with the same arguments (FieldsInSetCanMerge, per runtime type); the sub-selections are then
    checked merged.  `merge_value` of the model is one list level deep, hence `listDepth ≤ 1` for
    repeated keys. -/
def mergeableKeys (c : Model.ExecStatic.Ctx) : Nat → String → String → List Sel → Bool
  | 0, _, _, _ => true
  | fuel + 1, st, rt, sels =>
    decide (spreads c.d (fuel + 1) sels).Nodup &&
    (AGV.Spec.Exec.group (Model.ExecStatic.collect c rt (fuel + 1) st sels)).all (fun g =>
      match g.2 with
      | [] => true
      | o :: rest =>
        rest.all (fun o' => o'.name = o.name && o'.args == o.args) &&
        (o.name = "__typename" ||
          match c.S.field? rt o.name with
          | none => false
          | some fd =>
            (rest.isEmpty || decide (listDepth fd.ty ≤ 1)) &&
            (c.S.possibleTypes fd.ty.base).all (fun ty =>
              mergeableKeys c fuel fd.ty.base ty (g.2.map (·.sels)).flatten)))

/-- OPEN (the merge lemma): `c01_data_partial_nodup` with repeated response keys allowed, for
    executions without field errors.  The error-free hypothesis cannot be dropped
    (`c01_repeated_key_error_witness`).  Needs: `collect_append`, and associativity/idempotence of
    `merge` on values that are completions of one resolver result (a SameShape invariant). -/
def c01_data_mergeable_full : Prop :=
  ∀ (S : Schema) (d : Doc) (opName : Option String) (raw : List (String × GValue)) (w : World) (fuel : Nat),
    (∀ op, AGV.Spec.Exec.selectOp d opName = some op →
      IsObj S (rootOf S op) ∧ DataHyps (runCtx S d op raw w) ∧
      selsInert (AGV.Spec.Exec.coerceVars op.vars raw) op.sels = true ∧
      mergeableKeys (runCtx S d op raw w) fuel (rootOf S op) (rootOf S op) op.sels = true) →
    (AGV.Spec.Exec.run S d opName raw w fuel).errs = [] →
    (Model.ExecStatic.run Defects.none S d opName raw w fuel).val = (AGV.Spec.Exec.run S d opName raw w fuel).val

end AGV.Props.C01
