import AGV.Lemmas.ExecStatic
open AGV.Core AGV.Model.ExecStatic AGV.Lemmas.ExecStatic
namespace T1
def p0 : Pos := ⟨1, 1⟩
def S0 : Schema := { query := "Query", types := [
  { name := "Query", kind := .object, fields := [{ name := "obj", ty := .named "O", args := [] }] },
  { name := "O", kind := .object, fields := [{ name := "a", ty := .named "Int", args := [] },
                                             { name := "f", ty := .nonNull (.named "Float"), args := [] }] },
  { name := "U", kind := .union, members := ["O"] },
  { name := "Int", kind := .scalar }, { name := "Float", kind := .scalar }, { name := "Boolean", kind := .scalar }] }
def w0 : World := { entries := [((0, "obj"), .obj "O" 1), ((1, "a"), .leaf (.int 5)), ((1, "f"), .leaf (.float "NaN"))] }
def fA : Sel := Sel.field none "a" [] [] [] p0
def fF : Sel := Sel.field none "f" [] [] [] p0
def docM : Doc := { ops := [{ ty := .query, name := none, vars := [], dirs := [], sels := [Sel.field (some "x") "obj" [] [] [fA] p0, Sel.field (some "x") "obj" [] [] [fF] p0] }], frags := [] }
def docM2 : Doc := { ops := [{ ty := .query, name := none, vars := [], dirs := [], sels := [Sel.field (some "x") "obj" [] [] [fF] p0, Sel.field (some "x") "obj" [] [] [fA] p0] }], frags := [] }
#eval (run Defects.none S0 docM none [] w0 10)
#eval (AGV.Spec.Exec.run S0 docM none [] w0 10)
#eval (run Defects.none S0 docM2 none [] w0 10)
#eval (AGV.Spec.Exec.run S0 docM2 none [] w0 10)
end T1
