import AGV.Lemmas.ExecStatic

namespace AGV.Lemmas.ExecStaticData
open AGV.Core AGV.Model.ExecStatic AGV.Lemmas.ExecStatic
open AGV.Spec.Exec (FieldOcc complete execSet group mapIdx serializeLeaf doesApply excluded argValue)

def builtinScalars : List String := ["Int", "Float", "String", "Boolean", "ID"]

theorem composite_not_enum (S : Schema) (n : String) (t : TypeDef) (h : S.find? n = some t) (hc : S.isComposite n = true) :
    (t.kind == Kind.enum) = false := by
  unfold Schema.isComposite Schema.kindOf at hc
  rw [h] at hc
  cases hk : t.kind <;> simp_all <;> rfl

theorem toValue_spec (D : Defects) (hD : D.nanNullInNonNull = false) (S : Schema) (n : String) (v v' : GValue)
    (hb : ∀ b ∈ builtinScalars, S.isComposite b = false) (hf : n = "Float" → ∀ i, v ≠ .int i) :
    toValue D S n v = some (some v') ↔ (S.isComposite n = false ∧ serializeLeaf S n v = some v') := by
  have h1 := hb "Int" (by simp [builtinScalars])
  have h2 := hb "Float" (by simp [builtinScalars])
  have h3 := hb "String" (by simp [builtinScalars])
  have h4 := hb "Boolean" (by simp [builtinScalars])
  have h5 := hb "ID" (by simp [builtinScalars])
  unfold toValue serializeLeaf
  split
  all_goals (try (simp_all; done))
  · rename_i t
    by_cases hn : (t = "NaN" ∨ t = "inf" ∨ t = "-inf") <;> simp [hn, hD, h2]
  · rename_i e
    have hs : serializeLeaf S n (GValue.enum e) = (match S.find? n with
        | some t => if (t.kind == Kind.enum && t.values.contains e) = true then some (GValue.str e) else none
        | none => none) := by
      unfold serializeLeaf
      split <;> simp_all
      rfl
    unfold serializeLeaf at hs
    rw [hs]
    cases hfind : S.find? n with
    | none => simp
    | some t =>
      cases hc : S.isComposite n with
      | true => simp [composite_not_enum S n t hfind hc]
      | false => by_cases hk : (t.kind == Kind.enum && t.values.contains e) = true <;> simp_all

end AGV.Lemmas.ExecStaticData
