import AGV.Lemmas.ExecStatic

namespace AGV.Lemmas.ExecStaticData
open AGV.Core AGV.Model.ExecStatic AGV.Lemmas.ExecStatic
open AGV.Spec.Exec (FieldOcc complete execSet group mapIdx serializeLeaf doesApply excluded argValue)

theorem joinAll_vals (fs : List (Unit → Res)) :
    ∀ (B : List Res), fs.map (fun f => (f ()).val) = B.map (·.val) →
      (joinAll fs).all (·.val.isSome) = B.all (·.val.isSome) ∧
      (B.all (·.val.isSome) = true → (joinAll fs).filterMap (·.val) = B.filterMap (·.val)) := by
  induction fs with
  | nil => intro B h; cases B <;> simp_all [joinAll]
  | cons f rest ih =>
    intro B h
    cases B with
    | nil => simp at h
    | cons b B' =>
      simp only [List.map_cons, List.cons.injEq] at h
      obtain ⟨ih1, ih2⟩ := ih B' h.2
      cases hv : (f ()).val with
      | none =>
        have hb : b.val = none := by rw [← h.1, hv]
        simp [joinAll, hv, hb]
      | some v =>
        have hb : b.val = some v := by rw [← h.1, hv]
        simp only [joinAll, hv, List.all_cons, List.filterMap_cons, hb, Option.isSome_some, Bool.true_and, ih1]
        refine ⟨trivial, fun hall => ?_⟩
        rw [ih2 hall]

end AGV.Lemmas.ExecStaticData
