import Scr.Mid

namespace AGV.Lemmas.ExecStaticData
open AGV.Core AGV.Model.ExecStatic AGV.Lemmas.ExecStatic
open AGV.Spec.Exec (FieldOcc complete execSet group mapIdx serializeLeaf doesApply excluded argValue)

#print axioms container_val_eq

theorem selsInert_mem (vars : List (String × GValue)) : ∀ ss, selsInert vars ss = true → ∀ s ∈ ss, selInert vars s = true := by
  intro ss
  induction ss with
  | nil => intro _ s hs; simp at hs
  | cons x xs ih =>
    intro h s hs
    simp only [selsInert, Bool.and_eq_true] at h
    simp only [List.mem_cons] at hs
    rcases hs with rfl | hs
    · exact h.1
    · exact ih h.2 s hs

/-- `remove_skipped_selection` leaves a selection set alone when no directive acts -/
theorem prune_inert (vars : List (String × GValue)) :
    ∀ (fuel : Nat) (ss : List Sel), selsInert vars ss = true → prune vars fuel ss = ss := by
  intro fuel
  induction fuel with
  | zero => intro ss _; rfl
  | succ fuel ih =>
    intro ss h
    have hm := selsInert_mem vars ss h
    simp only [prune]
    have hfilt : ss.filter (fun s => !isSkipped vars (selDirs s)) = ss := by
      rw [List.filter_eq_self]
      intro s hs
      have := hm s hs
      cases s <;> simp_all [selInert, dirsInert, selDirs]
    rw [hfilt]
    conv => rhs; rw [← List.map_id ss]
    apply List.map_congr_left
    intro s hs
    have := hm s hs
    cases s with
    | field al n as ds sub p =>
      simp only [selInert, Bool.and_eq_true] at this
      simp [ih sub this.2]
    | spread n ds p => rfl
    | inline cnd ds sub p =>
      simp only [selInert, Bool.and_eq_true] at this
      simp [ih sub this.2]

def rootOf (S : Schema) (op : OpDef) : String :=
  match op.ty with
  | .query => S.query
  | .mutation => S.mutation.getD ""
  | .subscription => S.subscription.getD ""

/-- the model context in which `run` executes operation `op` when no directive acts -/
def runCtx (S : Schema) (d : Doc) (op : OpDef) (raw : List (String × GValue)) (w : World) : Model.ExecStatic.Ctx :=
  { D := Defects.none, S := S, d := d, vars := AGV.Spec.Exec.coerceVars op.vars raw, w := w }

/-- hypotheses of `run_val_eq`, per selected operation -/
structure RunHyps (S : Schema) (d : Doc) (op : OpDef) (raw : List (String × GValue)) (w : World) (fuel : Nat) : Prop where
  root : IsObj S (rootOf S op)
  data : DataHyps (runCtx S d op raw w)
  opInert : selsInert (AGV.Spec.Exec.coerceVars op.vars raw) op.sels = true
  keys : noRepeatedKeys (runCtx S d op raw w) fuel (rootOf S op) (rootOf S op) op.sels = true

theorem run_val_eq (S : Schema) (d : Doc) (opName : Option String) (raw : List (String × GValue)) (w : World) (fuel : Nat)
    (H : ∀ op, AGV.Spec.Exec.selectOp d opName = some op → RunHyps S d op raw w fuel) :
    (Model.ExecStatic.run Defects.none S d opName raw w fuel).val = (AGV.Spec.Exec.run S d opName raw w fuel).val := by
  unfold Model.ExecStatic.run AGV.Spec.Exec.run
  cases hop : AGV.Spec.Exec.selectOp d opName with
  | none => rfl
  | some op =>
    have h := H op hop
    have hsv : skipVars Defects.none op.vars raw = AGV.Spec.Exec.coerceVars op.vars raw := rfl
    have hfr := h.data.frags
    have hd : ({ ops := d.ops, frags := d.frags.map (fun f =>
        { f with sels := prune (AGV.Spec.Exec.coerceVars op.vars raw) fuel f.sels }) } : Doc) = d := by
      have : d.frags.map (fun f => ({ f with sels := prune (AGV.Spec.Exec.coerceVars op.vars raw) fuel f.sels } : FragDef)) = d.frags := by
        conv => rhs; rw [← List.map_id d.frags]
        apply List.map_congr_left
        intro f hf
        have := prune_inert (AGV.Spec.Exec.coerceVars op.vars raw) fuel f.sels (hfr f hf)
        simp [this]
      rw [this]
    simp only [hsv, hd, prune_inert _ fuel op.sels h.opInert]
    exact container_val_eq (runCtx S d op raw w) h.data fuel (rootOf S op) (rootOf S op) 0 op.sels [] h.root
      (doesApply_self S _ h.root) h.opInert h.keys

#print axioms run_val_eq

-- ------------------------------------------------------------------ decidable sufficient conditions

/-- type names are unique, objects implement interfaces only, unions list object types only -/
def schemaWF (S : Schema) : Bool :=
  decide (S.types.map (·.name)).Nodup &&
  S.types.all (fun t =>
    (decide (t.kind ≠ .object) || t.implements.all (fun i => decide (S.kindOf i = some .interface))) &&
    (decide (t.kind ≠ .union) || t.members.all (fun m => decide (S.kindOf m = some .object))))

theorem find_of_nodup (l : List TypeDef) (h : (l.map (·.name)).Nodup) (o : TypeDef) (ho : o ∈ l) :
    l.find? (·.name = o.name) = some o := by
  induction l with
  | nil => simp at ho
  | cons x xs ih =>
    simp only [List.map_cons, List.nodup_cons] at h
    simp only [List.mem_cons] at ho
    rcases ho with rfl | ho
    · simp
    · have hne : ¬ x.name = o.name := by
        intro e
        exact h.1 (by rw [e]; exact List.mem_map_of_mem ho)
      simp [hne, ih h.2 ho]

theorem kind_beq (k k' : Kind) : (k == k') = decide (k = k') := by
  cases k <;> cases k' <;> rfl

theorem schemaOK_of_wf (S : Schema) (h : schemaWF S = true) : SchemaOK S := by
  simp only [schemaWF, Bool.and_eq_true, decide_eq_true_eq, List.all_eq_true, Bool.or_eq_true] at h
  obtain ⟨hnd, hall⟩ := h
  constructor
  · intro rt ⟨o, ho, hk⟩ cond
    have hom : o ∈ S.types := List.mem_of_find?_eq_some ho
    have himp : ∀ i ∈ o.implements, S.kindOf i = some .interface := by
      intro i hi
      rcases (hall o hom).1 with h1 | h1
      · exact absurd hk h1
      · exact h1 i hi
    unfold appliesConcrete doesApply
    simp only [ho, Defects.none, Bool.not_false, Bool.true_and]
    cases hc : S.find? cond with
    | none =>
      have h1 : ¬ cond = rt := by intro e; rw [e, ho] at hc; simp at hc
      have h2 : ¬ cond ∈ o.implements := by
        intro hcon
        have := himp cond hcon
        simp [Schema.kindOf, hc] at this
      simp [h1, h2]
    | some t =>
      have hkc : S.kindOf cond = some t.kind := by simp [Schema.kindOf, hc]
      have h2 : t.kind ≠ .interface → ¬ cond ∈ o.implements := by
        intro hne hcon
        have := himp cond hcon
        rw [hkc] at this
        exact hne (by simpa using this)
      have h1 : t.kind ≠ .object → ¬ cond = rt := by
        intro hne e
        rw [e, ho] at hc
        cases hc
        exact hne hk
      cases hkt : t.kind <;> simp_all [kind_beq]
  · intro n ty hty
    unfold Schema.possibleTypes at hty
    cases hn : S.find? n with
    | none => simp [hn] at hty
    | some t =>
      simp only [hn] at hty
      cases hkt : t.kind with
      | object =>
        simp only [hkt, List.mem_singleton] at hty
        subst hty
        exact ⟨⟨t, hn, hkt⟩, doesApply_self S _ ⟨t, hn, hkt⟩⟩
      | interface =>
        simp only [hkt, List.mem_map, List.mem_filter, Bool.and_eq_true] at hty
        obtain ⟨o, ⟨hom, hko, hcon⟩, rfl⟩ := hty
        have hko' : o.kind = .object := by simpa [kind_beq] using hko
        have hfo := find_of_nodup S.types hnd o hom
        refine ⟨⟨o, hfo, hko'⟩, ?_⟩
        unfold doesApply
        simp only [hn, hkt]
        unfold Schema.find?
        simp only [hfo, hcon]
      | union =>
        simp only [hkt] at hty
        have htm : t ∈ S.types := List.mem_of_find?_eq_some hn
        have hmem : S.kindOf ty = some .object := by
          rcases (hall t htm).2 with h1 | h1
          · exact absurd hkt h1
          · exact h1 ty hty
        unfold Schema.kindOf at hmem
        cases hfo : S.find? ty with
        | none => simp [hfo] at hmem
        | some o =>
          simp only [hfo, Option.map_some, Option.some.injEq] at hmem
          refine ⟨⟨o, hfo, hmem⟩, ?_⟩
          unfold doesApply
          simp [hn, hkt, hty]
      | scalar => simp [hkt] at hty
      | enum => simp [hkt] at hty
      | input => simp [hkt] at hty

def noFloatField (S : Schema) (f : String) : Bool :=
  S.types.all (fun t => t.fields.all (fun fd => decide (fd.name ≠ f) || decide (fd.ty.base ≠ "Float")))

def isArg : RVal → Bool
  | .arg _ => true
  | _ => false

/-- every world entry is free of `Int` leaves and argument echoes, or its field name is nowhere `Float`-typed -/
def worldFloatOK (S : Schema) (w : World) : Bool :=
  w.entries.all (fun e => (noIntLeaf e.2 && !isArg e.2) || noFloatField S e.1.2)

theorem floats_of_world (c : Model.ExecStatic.Ctx) (h : worldFloatOK c.S c.w = true) :
    ∀ rt id fd occ, c.S.field? rt occ.name = some fd → fd.ty.base = "Float" →
      noIntLeaf (fieldRVal c id fd occ) = true := by
  intro rt id fd occ hfd hfl
  unfold Schema.field? at hfd
  cases hrt : c.S.find? rt with
  | none => simp [hrt] at hfd
  | some t =>
    simp only [hrt] at hfd
    have htm : t ∈ c.S.types := List.mem_of_find?_eq_some hrt
    have hfm : fd ∈ t.fields := List.mem_of_find?_eq_some hfd
    have hfn : fd.name = occ.name := by simpa using List.find?_some hfd
    unfold fieldRVal World.get
    cases hfind : c.w.entries.find? (fun e => e.1.1 = id && e.1.2 = occ.name) with
    | none => simp [noIntLeaf]
    | some e =>
      have hem : e ∈ c.w.entries := List.mem_of_find?_eq_some hfind
      have hen : e.1.2 = occ.name := by
        have := List.find?_some hfind
        simp only [Bool.and_eq_true, decide_eq_true_eq] at this
        exact this.2
      simp only [worldFloatOK, List.all_eq_true, Bool.or_eq_true, Bool.and_eq_true] at h
      rcases h e hem with ⟨h1, h2⟩ | h3
      · simp only
        cases he : e.2 with
        | arg a => simp [he, isArg] at h2
        | null => simp [noIntLeaf]
        | leaf v => rw [he] at h1; exact h1
        | obj ty i => simp [noIntLeaf]
        | list xs => rw [he] at h1; exact h1
        | fail m => simp [noIntLeaf]
      · simp only [noFloatField, List.all_eq_true, Bool.or_eq_true, decide_eq_true_eq] at h3
        rcases h3 t htm fd hfm with h4 | h4
        · exact absurd (hfn.trans hen.symm) h4
        · exact absurd hfl h4

end AGV.Lemmas.ExecStaticData
