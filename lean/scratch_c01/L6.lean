import Scr.Pre

namespace AGV.Lemmas.ExecStaticData
open AGV.Core AGV.Model.ExecStatic AGV.Lemmas.ExecStatic
open AGV.Spec.Exec (FieldOcc complete execSet group mapIdx serializeLeaf doesApply excluded argValue)

abbrev Acc := List (String × GValue) × List GErr × List Inv × Bool

def specRVal (c : AGV.Spec.Exec.Ctx) (id : Nat) (fd : FieldDef) (occ : FieldOcc) : RVal :=
  match c.w.get id occ.name with
  | .arg a => .leaf (argValue c fd occ a)
  | rv => rv

def execStep (c : AGV.Spec.Exec.Ctx) (fuel : Nat) (rt : String) (id : Nat) (path : List PathSeg)
    (acc : Acc) (g : String × List FieldOcc) : Acc :=
      match g.2 with
      | [] => acc
      | occ :: _ =>
        if occ.name = "__typename" then (acc.1 ++ [(g.1, .str rt)], acc.2.1, acc.2.2.1, acc.2.2.2)
        else
          match c.S.field? rt occ.name with
          | none => acc
          | some fd =>
            let rv := specRVal c id fd occ
            let merged := (g.2.map (·.sels)).flatten
            let r := complete c.S (execSet c fuel) fd.ty rv merged (path ++ [.key g.1]) occ.pos
            let log := acc.2.2.1 ++ [⟨id, occ.name, g.1⟩] ++ r.log
            match r.val with
            | some v => (acc.1 ++ [(g.1, v)], acc.2.1 ++ r.errs, log, acc.2.2.2)
            | none => (acc.1, acc.2.1 ++ r.errs, log, true)

theorem execSet_succ (c : AGV.Spec.Exec.Ctx) (fuel : Nat) (rt : String) (id : Nat) (sels : List Sel) (path : List PathSeg) :
    execSet c (fuel + 1) rt id sels path =
      (let out := (group (AGV.Spec.Exec.collect c rt (fuel + 1) sels []).1).foldl (execStep c fuel rt id path) ([], [], [], false)
       if out.2.2.2 then { val := none, errs := out.2.1, log := out.2.2.1 }
       else { val := some (.obj out.1), errs := out.2.1, log := out.2.2.1 }) := by
  rfl

/-- the value the specification gives the (single-occurrence) field `occ` of object `(rt, id)` -/
def fieldVal (c : Model.ExecStatic.Ctx) (fuel : Nat) (rt : String) (id : Nat) (path : List PathSeg) (occ : FieldOcc) :
    Option GValue :=
  if occ.name = "__typename" then some (.str rt)
  else
    match c.S.field? rt occ.name with
    | none => none
    | some fd =>
      (complete c.S (execSet (sc c) fuel) fd.ty (fieldRVal c id fd occ) occ.sels (path ++ [.key occ.key]) occ.pos).val

def HasField (c : Model.ExecStatic.Ctx) (rt : String) (occ : FieldOcc) : Prop :=
  occ.name = "__typename" ∨ ∃ fd, c.S.field? rt occ.name = some fd

theorem argValue_erase (c : AGV.Spec.Exec.Ctx) (fd : FieldDef) (occ : FieldOcc) (a : String) :
    argValue c fd (eraseSt occ) a = argValue c fd occ a := by
  simp [argValue, eraseSt]

theorem execStep_single (c : Model.ExecStatic.Ctx) (fuel : Nat) (rt : String) (id : Nat) (path : List PathSeg)
    (acc : Acc) (occ : FieldOcc) (h : HasField c rt occ) :
    (execStep (sc c) fuel rt id path acc ((eraseSt occ).key, [eraseSt occ])).1 =
      acc.1 ++ ((fieldVal c fuel rt id path occ).map (fun v => (occ.key, v))).toList ∧
    (execStep (sc c) fuel rt id path acc ((eraseSt occ).key, [eraseSt occ])).2.2.2 =
      (acc.2.2.2 || (fieldVal c fuel rt id path occ).isNone) := by
  by_cases ht : occ.name = "__typename"
  · simp [execStep, fieldVal, eraseSt, ht]
  · rcases h with h | ⟨fd, hfd⟩
    · exact absurd h ht
    · have hrv : specRVal (sc c) id fd (eraseSt occ) = fieldRVal c id fd occ := by
        unfold fieldRVal specRVal
        simp only [argValue_erase]
        rfl
      have hn : (eraseSt occ).name = occ.name := rfl
      cases hv : (complete c.S (execSet (sc c) fuel) fd.ty (fieldRVal c id fd occ) occ.sels
          (path ++ [.key occ.key]) occ.pos).val with
      | none =>
        simp [execStep, fieldVal, hn, ht, hfd, hrv, hv]
        simp [eraseSt, hv]
      | some v =>
        simp [execStep, fieldVal, hn, ht, hfd, hrv, hv]
        simp [eraseSt, hv]

theorem execStep_fold (c : Model.ExecStatic.Ctx) (fuel : Nat) (rt : String) (id : Nat) (path : List PathSeg)
    (occs : List FieldOcc) (h : ∀ occ ∈ occs, HasField c rt occ) :
    ∀ acc : Acc,
      (((occs.map eraseSt).map (fun o => (o.key, [o]))).foldl (execStep (sc c) fuel rt id path) acc).1 =
        acc.1 ++ occs.filterMap (fun o => (fieldVal c fuel rt id path o).map (fun v => (o.key, v))) ∧
      (((occs.map eraseSt).map (fun o => (o.key, [o]))).foldl (execStep (sc c) fuel rt id path) acc).2.2.2 =
        (acc.2.2.2 || occs.any (fun o => (fieldVal c fuel rt id path o).isNone)) := by
  induction occs with
  | nil => intro acc; simp
  | cons o os ih =>
    intro acc
    obtain ⟨s1, s2⟩ := execStep_single c fuel rt id path acc o (h o (by simp))
    obtain ⟨r1, r2⟩ := ih (fun occ hocc => h occ (by simp [hocc]))
      (execStep (sc c) fuel rt id path acc ((eraseSt o).key, [eraseSt o]))
    simp only [List.map_cons, List.foldl_cons]
    refine ⟨?_, ?_⟩
    · rw [r1, s1]
      cases hv : fieldVal c fuel rt id path o <;> simp [hv]
    · rw [r2, s2]
      simp [Bool.or_assoc]

theorem complete_fail_val (S : Schema) (rec : String → Nat → List Sel → List PathSeg → Res) (m : String)
    (ss : List Sel) (path : List PathSeg) (pos : Pos) :
    ∀ t : TypeRef, (complete S rec t (.fail m) ss path pos).val = if t.isNonNull then none else some .null := by
  intro t
  induction t with
  | named n => simp [complete, TypeRef.isNonNull]
  | list t _ => simp [complete, TypeRef.isNonNull]
  | nonNull t ih =>
    obtain ⟨ca, cb⟩ := complete_nonNull_val S rec t (.fail m) ss path pos (by simp)
    simp only [TypeRef.isNonNull, if_true]
    by_cases hn : t.isNonNull = true
    · rw [hn] at ih
      simp only [if_true] at ih
      rw [cb (by simp [ih]), ih]
    · have hn' : t.isNonNull = false := by simpa using hn
      rw [hn'] at ih
      simp only [Bool.false_eq_true, if_false] at ih
      exact ca ih

theorem kvs_fold (R : FieldOcc → Res) (fv : FieldOcc → Option GValue) (occs : List FieldOcc)
    (h : ∀ o ∈ occs, (R o).val = (fv o).map (fun v => GValue.obj [(o.key, v)])) :
    ((occs.map R).filterMap (·.val)).filterMap singleKV = occs.filterMap (fun o => (fv o).map (fun v => (o.key, v))) := by
  induction occs with
  | nil => simp
  | cons o os ih =>
    have ho := h o (by simp)
    have ih' := ih (fun x hx => h x (by simp [hx]))
    cases hv : fv o with
    | none =>
      rw [hv] at ho
      simp only [List.map_cons, List.filterMap_cons, ho, Option.map_none, hv]
      exact ih'
    | some v =>
      rw [hv] at ho
      simp only [List.map_cons, List.filterMap_cons, ho, Option.map_some, hv, singleKV]
      rw [ih']

theorem keys_filterMap_sublist (fv : FieldOcc → Option GValue) (occs : List FieldOcc) :
    ((occs.filterMap (fun o => (fv o).map (fun v => (o.key, v)))).map (·.1)).Sublist (occs.map (·.key)) := by
  induction occs with
  | nil => simp
  | cons o os ih =>
    cases hv : fv o with
    | none => simp only [List.filterMap_cons, hv, Option.map_none, List.map_cons]; exact List.Sublist.cons _ ih
    | some v => simp only [List.filterMap_cons, hv, Option.map_some, List.map_cons]; exact List.Sublist.cons_cons _ ih

theorem all_congr_mem {α} (p q : α → Bool) (l : List α) (h : ∀ x ∈ l, p x = q x) : l.all p = l.all q := by
  induction l with
  | nil => rfl
  | cons x xs ih => simp only [List.all_cons]; rw [h x (by simp), ih (fun y hy => h y (by simp [hy]))]

theorem any_isNone_eq_not_all (fv : FieldOcc → Option GValue) (occs : List FieldOcc) :
    occs.any (fun o => (fv o).isNone) = !occs.all (fun o => (fv o).isSome) := by
  induction occs with
  | nil => simp
  | cons o os ih => cases hv : fv o <;> simp [hv, ih]

theorem collect_inert (c : Model.ExecStatic.Ctx) (rt : String)
    (hfr : ∀ f ∈ c.d.frags, selsInert c.vars f.sels = true) :
    ∀ (fuel : Nat) (st : String) (sels : List Sel), selsInert c.vars sels = true →
      ∀ occ ∈ Model.ExecStatic.collect c rt fuel st sels, selsInert c.vars occ.sels = true := by
  intro fuel
  induction fuel with
  | zero => intro st sels _ occ h; simp [Model.ExecStatic.collect] at h
  | succ fuel ih =>
    intro st sels
    induction sels with
    | nil => intro _ occ h; simp [Model.ExecStatic.collect] at h
    | cons s r ihr =>
      intro hin occ hocc
      simp only [selsInert, Bool.and_eq_true] at hin
      rw [collect_cons, List.mem_append] at hocc
      rcases hocc with hocc | hocc
      · cases s with
        | field al n args ds ss pos =>
          simp only [selInert, Bool.and_eq_true] at hin
          simp [Model.ExecStatic.collect] at hocc
          subst hocc
          exact hin.1.2
        | spread n ds pos =>
          cases hf : c.d.frag? n with
          | none => simp [Model.ExecStatic.collect, hf] at hocc
          | some f =>
            have hfin := hfr f (frag_mem c.d n f hf)
            simp only [Model.ExecStatic.collect, hf, List.map_cons, List.map_nil, List.flatten_cons, List.flatten_nil,
              List.append_nil] at hocc
            split at hocc
            · exact ih _ _ hfin occ hocc
            · split at hocc
              · exact ih _ _ hfin occ hocc
              · simp at hocc
        | inline cond ds ss pos =>
          simp only [selInert, Bool.and_eq_true] at hin
          cases cond with
          | none =>
            simp only [Model.ExecStatic.collect, List.map_cons, List.map_nil, List.flatten_cons, List.flatten_nil,
              List.append_nil] at hocc
            exact ih _ _ hin.1.2 occ hocc
          | some t =>
            simp only [Model.ExecStatic.collect, List.map_cons, List.map_nil, List.flatten_cons, List.flatten_nil,
              List.append_nil] at hocc
            split at hocc
            · exact ih _ _ hin.1.2 occ hocc
            · split at hocc
              · exact ih _ _ hin.1.2 occ hocc
              · simp at hocc
      · exact ihr hin.2 occ hocc

/-- `NoRepeatedKeys` (decidable, relative to the schema, for every possible runtime type): at every
    selection set that execution can reach, the collected response keys are pairwise distinct, no
    fragment name is spread twice, and every collected field exists on the runtime type -/
def noRepeatedKeys (c : Model.ExecStatic.Ctx) : Nat → String → String → List Sel → Bool
  | 0, _, _, _ => true
  | fuel + 1, st, rt, sels =>
    decide ((Model.ExecStatic.collect c rt (fuel + 1) st sels).map (·.key)).Nodup &&
    decide (spreads c.d (fuel + 1) sels).Nodup &&
    (Model.ExecStatic.collect c rt (fuel + 1) st sels).all (fun occ =>
      occ.name = "__typename" ||
      match c.S.field? rt occ.name with
      | none => false
      | some fd => (c.S.possibleTypes fd.ty.base).all (fun ty => noRepeatedKeys c fuel fd.ty.base ty occ.sels))

theorem noRepeatedKeys_succ (c : Model.ExecStatic.Ctx) (fuel : Nat) (st rt : String) (sels : List Sel)
    (h : noRepeatedKeys c (fuel + 1) st rt sels = true) :
    ((Model.ExecStatic.collect c rt (fuel + 1) st sels).map (·.key)).Nodup ∧
    (spreads c.d (fuel + 1) sels).Nodup ∧
    ∀ occ ∈ Model.ExecStatic.collect c rt (fuel + 1) st sels,
      occ.name = "__typename" ∨ ∃ fd, c.S.field? rt occ.name = some fd ∧
        ∀ ty ∈ c.S.possibleTypes fd.ty.base, noRepeatedKeys c fuel fd.ty.base ty occ.sels = true := by
  simp only [noRepeatedKeys, Bool.and_eq_true, decide_eq_true_eq, List.all_eq_true, Bool.or_eq_true] at h
  refine ⟨h.1.1, h.1.2, ?_⟩
  intro occ hocc
  rcases h.2 occ hocc with ht | hf
  · exact Or.inl ht
  · right
    cases hfd : c.S.field? rt occ.name with
    | none => rw [hfd] at hf; simp at hf
    | some fd =>
      rw [hfd] at hf
      exact ⟨fd, rfl, by simpa [List.all_eq_true] using hf⟩

theorem completeField_val_eq (c : Model.ExecStatic.Ctx) (hD : c.D = Defects.none)
    (hb : ∀ b ∈ builtinScalars, c.S.isComposite b = false)
    (recM : String → String → Nat → List Sel → List PathSeg → Res) (hrec : RecOK recM)
    (recS : String → Nat → List Sel → List PathSeg → Res) (fd : FieldDef) (rv : RVal) (occ : FieldOcc)
    (fpath : List PathSeg)
    (hr : ∀ ty id p, (c.S.possibleTypes fd.ty.base).contains ty = true →
      (recM fd.ty.base ty id occ.sels p).val = (recS ty id occ.sels p).val)
    (hf : fd.ty.base = "Float" → noIntLeaf rv = true) :
    (completeField c recM fd rv occ fpath).val = (complete c.S recS fd.ty rv occ.sels fpath occ.pos).val := by
  have hD' : c.D.nanNullInNonNull = false := by rw [hD]; rfl
  have hres := resolveValue_val_eq c hD' hb recM hrec recS occ.sels fd.ty hr rv fpath occ.pos hf
  cases rv with
  | fail m =>
    rw [complete_fail_val]
    have h1 : c.D.resolverErrPropagates = false := by rw [hD]; rfl
    simp only [completeField, h1, Bool.or_false]
    split <;> rfl
  | null => simpa [completeField] using hres
  | leaf v => simpa [completeField] using hres
  | obj ty id => simpa [completeField] using hres
  | list xs => simpa [completeField] using hres
  | arg a => simpa [completeField] using hres

theorem runField_val (c : Model.ExecStatic.Ctx) (hD : c.D = Defects.none)
    (hb : ∀ b ∈ builtinScalars, c.S.isComposite b = false) (fuel : Nat) (rt : String) (id : Nat)
    (path : List PathSeg) (occ : FieldOcc)
    (hr : ∀ fd, occ.name ≠ "__typename" → c.S.field? rt occ.name = some fd →
      ∀ ty id p, (c.S.possibleTypes fd.ty.base).contains ty = true →
      (resolveContainer c fuel fd.ty.base ty id occ.sels p).val = (execSet (sc c) fuel ty id occ.sels p).val)
    (hleaf : ∀ fd, c.S.field? rt occ.name = some fd → fd.ty.base = "Float" → noIntLeaf (fieldRVal c id fd occ) = true)
    (h : HasField c rt occ) :
    (runField c (resolveContainer c fuel) rt id path occ).val =
      (fieldVal c fuel rt id path occ).map (fun v => GValue.obj [(occ.key, v)]) := by
  have hD' : c.D.nanNullInNonNull = false := by rw [hD]; rfl
  by_cases ht : occ.name = "__typename"
  · simp [runField, fieldVal, ht]
  · rcases h with h | ⟨fd, hfd⟩
    · exact absurd h ht
    · have e := completeField_val_eq c hD hb (resolveContainer c fuel) (recOK_resolveContainer c hD' fuel)
        (execSet (sc c) fuel) fd (fieldRVal c id fd occ) occ (path ++ [PathSeg.key occ.key]) (hr fd ht hfd) (hleaf fd hfd)
      simp [runField, fieldVal, ht, hfd, e]

/-- hypotheses of the data theorem that concern schema, document and world as a whole -/
structure DataHyps (c : Model.ExecStatic.Ctx) : Prop where
  noDefect : c.D = Defects.none
  schema : SchemaOK c.S
  builtins : ∀ b ∈ builtinScalars, c.S.isComposite b = false
  frags : ∀ f ∈ c.d.frags, selsInert c.vars f.sels = true
  floats : ∀ rt id fd occ, c.S.field? rt occ.name = some fd → fd.ty.base = "Float" →
    noIntLeaf (fieldRVal c id fd occ) = true

theorem container_val_eq (c : Model.ExecStatic.Ctx) (H : DataHyps c) :
    ∀ (fuel : Nat) (st rt : String) (id : Nat) (sels : List Sel) (path : List PathSeg),
      IsObj c.S rt → doesApply c.S rt st = true → selsInert c.vars sels = true →
      noRepeatedKeys c fuel st rt sels = true →
      (resolveContainer c fuel st rt id sels path).val = (execSet (sc c) fuel rt id sels path).val := by
  intro fuel
  induction fuel with
  | zero => intro st rt id sels path _ _ _ _; simp [resolveContainer, execSet]
  | succ fuel ih =>
    intro st rt id sels path hrt hst hin hgood
    obtain ⟨hkeys, hspr, hoccs⟩ := noRepeatedKeys_succ c fuel st rt sels hgood
    have hcol := (collect_agree c H.noDefect H.schema rt hrt H.frags (fuel + 1) st sels [] hst hin hspr
      (by intro n _; simp)).1
    have hkeys' : ((((Model.ExecStatic.collect c rt (fuel + 1) st sels).map eraseSt)).map (·.key)).Nodup := by
      have : ((Model.ExecStatic.collect c rt (fuel + 1) st sels).map eraseSt).map (·.key) =
          (Model.ExecStatic.collect c rt (fuel + 1) st sels).map (·.key) := by
        rw [List.map_map]; rfl
      rw [this]; exact hkeys
    have hHF : ∀ occ ∈ Model.ExecStatic.collect c rt (fuel + 1) st sels, HasField c rt occ := by
      intro occ hocc
      rcases hoccs occ hocc with h | ⟨fd, hfd, _⟩
      · exact Or.inl h
      · exact Or.inr ⟨fd, hfd⟩
    have hRF : ∀ occ ∈ Model.ExecStatic.collect c rt (fuel + 1) st sels,
        (runField c (resolveContainer c fuel) rt id path occ).val =
          (fieldVal c fuel rt id path occ).map (fun v => GValue.obj [(occ.key, v)]) := by
      intro occ hocc
      apply runField_val c H.noDefect H.builtins fuel rt id path occ ?_ (fun fd hfd => H.floats rt id fd occ hfd) (hHF occ hocc)
      intro fd hnt hfd ty id' p hty
      rcases hoccs occ hocc with h | ⟨fd', hfd', hsub⟩
      · exact absurd h hnt
      · rw [hfd] at hfd'
        cases hfd'
        have hty' : ty ∈ c.S.possibleTypes fd.ty.base := by simpa using hty
        obtain ⟨hobj, happ⟩ := H.schema.possible _ _ hty'
        exact ih fd.ty.base ty id' occ.sels p hobj happ
          (collect_inert c rt H.frags (fuel + 1) st sels hin occ hocc) (hsub ty hty')
    rw [execSet_succ]
    simp only [resolveContainer]
    rw [hcol, group_nodup _ hkeys']
    obtain ⟨f1, f2⟩ := execStep_fold c fuel rt id path _ hHF ([], [], [], false)
    have hall : (joinAll ((Model.ExecStatic.collect c rt (fuel + 1) st sels).map
          (fun occ => fun (_ : Unit) => runField c (resolveContainer c fuel) rt id path occ))).all (·.val.isSome) =
        (Model.ExecStatic.collect c rt (fuel + 1) st sels).all (fun o => (fieldVal c fuel rt id path o).isSome) := by
      rw [joinAll_all, List.all_map]
      apply all_congr_mem
      intro o ho
      simp [hRF o ho]
    rw [hall, f2, any_isNone_eq_not_all, f1]
    cases hA : (Model.ExecStatic.collect c rt (fuel + 1) st sels).all (fun o => (fieldVal c fuel rt id path o).isSome) with
    | false => simp
    | true =>
      have hj := joinAll_eq_of_all ((Model.ExecStatic.collect c rt (fuel + 1) st sels).map
          (fun occ => fun (_ : Unit) => runField c (resolveContainer c fuel) rt id path occ)) (by
        rw [List.all_map]
        rw [← hA]
        apply all_congr_mem
        intro o ho
        simp [hRF o ho])
      rw [hj, List.map_map]
      have hk := kvs_fold (fun occ => runField c (resolveContainer c fuel) rt id path occ) (fieldVal c fuel rt id path)
        (Model.ExecStatic.collect c rt (fuel + 1) st sels) hRF
      have hcomp : ((fun f : Unit → Res => f ()) ∘ fun occ => fun (_ : Unit) => runField c (resolveContainer c fuel) rt id path occ) =
          (fun occ => runField c (resolveContainer c fuel) rt id path occ) := rfl
      rw [hcomp, hk, createValueObject_nodup _ _ (List.Nodup.sublist (keys_filterMap_sublist _ _) hkeys)]
      simp

end AGV.Lemmas.ExecStaticData
