import AGV.Lemmas.ExecStatic

namespace AGV.Lemmas.ExecStaticData
open AGV.Core AGV.Model.ExecStatic AGV.Lemmas.ExecStatic
open AGV.Spec.Exec (FieldOcc complete execSet group mapIdx serializeLeaf doesApply excluded argValue)

-- ------------------------------------------------------------------ association lists with distinct keys

theorem insertKV_fresh (f : GValue → GValue → GValue) (m : List (String × GValue)) (k : String) (v : GValue)
    (h : k ∉ m.map (·.1)) : insertKV f m k v = m ++ [(k, v)] := by
  unfold insertKV
  rw [any_key]
  simp [h]

theorem foldl_insertKV_nodup (f : GValue → GValue → GValue) (kvs : List (String × GValue)) :
    ∀ m : List (String × GValue), (m.map (·.1) ++ kvs.map (·.1)).Nodup →
      kvs.foldl (fun m p => insertKV f m p.1 p.2) m = m ++ kvs := by
  induction kvs with
  | nil => intro m _; simp
  | cons p ps ih =>
    intro m h
    have hp : p.1 ∉ m.map (·.1) := by
      intro hm
      rw [List.nodup_append] at h
      exact h.2.2 _ hm _ (by simp) rfl
    rw [List.foldl_cons, insertKV_fresh f m p.1 p.2 hp, ih]
    · simp
    · simpa [List.append_assoc] using h

/-- with pairwise distinct keys `create_value_object` is the association list itself -/
theorem createValueObject_nodup (fuel : Nat) (kvs : List (String × GValue)) (h : (kvs.map (·.1)).Nodup) :
    createValueObject fuel kvs = .obj kvs := by
  unfold createValueObject
  rw [foldl_insertKV_nodup _ kvs [] (by simpa using h)]
  simp

theorem group_foldl_nodup (occs : List FieldOcc) :
    ∀ gs : List (String × List FieldOcc), (gs.map (·.1) ++ occs.map (·.key)).Nodup →
      occs.foldl (fun gs o =>
        if gs.any (·.1 = o.key) then gs.map (fun g => if g.1 = o.key then (g.1, g.2 ++ [o]) else g)
        else gs ++ [(o.key, [o])]) gs = gs ++ occs.map (fun o => (o.key, [o])) := by
  induction occs with
  | nil => intro gs _; simp
  | cons o os ih =>
    intro gs h
    have hp : o.key ∉ gs.map (·.1) := by
      intro hm
      rw [List.nodup_append] at h
      exact h.2.2 _ hm _ (by simp) rfl
    have hany : gs.any (fun g => decide (g.1 = o.key)) = false := by
      rw [Bool.eq_false_iff]
      intro hc
      simp only [List.any_eq_true, decide_eq_true_eq] at hc
      obtain ⟨g, hg, e⟩ := hc
      exact hp (by simp only [List.mem_map]; exact ⟨g, hg, e⟩)
    rw [List.foldl_cons, hany]
    simp only [Bool.false_eq_true, if_false]
    rw [ih]
    · simp
    · simpa [List.append_assoc] using h

/-- with pairwise distinct response keys every occurrence is its own group -/
theorem group_nodup (occs : List FieldOcc) (h : (occs.map (·.key)).Nodup) :
    group occs = occs.map (fun o => (o.key, [o])) := by
  unfold group
  rw [group_foldl_nodup occs [] (by simpa using h)]
  simp

-- ------------------------------------------------------------------ joinAll

theorem joinAll_all (fs : List (Unit → Res)) :
    (joinAll fs).all (·.val.isSome) = fs.all (fun f => (f ()).val.isSome) := by
  induction fs with
  | nil => simp [joinAll]
  | cons f rest ih =>
    cases hv : (f ()).val with
    | none => simp [joinAll, hv]
    | some v => simp [joinAll, hv, ih]

theorem joinAll_eq_of_all (fs : List (Unit → Res)) (h : fs.all (fun f => (f ()).val.isSome) = true) :
    joinAll fs = fs.map (fun f => f ()) := by
  induction fs with
  | nil => simp [joinAll]
  | cons f rest ih =>
    simp only [List.all_cons, Bool.and_eq_true] at h
    cases hv : (f ()).val with
    | none => simp [hv] at h
    | some v => simp [joinAll, hv, ih h.2]

theorem mapIdx_map {α β γ} (g : β → γ) (f : Nat → α → β) (xs : List α) :
    ∀ i, (mapIdx f xs i).map g = mapIdx (fun i x => g (f i x)) xs i := by
  induction xs with
  | nil => intro i; simp [mapIdx]
  | cons x xs ih => intro i; simp [mapIdx, ih]

theorem mapIdx_congr {α β} (f g : Nat → α → β) (xs : List α) (h : ∀ i, ∀ x ∈ xs, f i x = g i x) :
    ∀ i, mapIdx f xs i = mapIdx g xs i := by
  induction xs with
  | nil => intro i; simp [mapIdx]
  | cons x xs ih =>
    intro i
    simp only [mapIdx]
    rw [h i x (by simp), ih (fun i y hy => h i y (by simp [hy]))]


def builtinScalars : List String := ["Int", "Float", "String", "Boolean", "ID"]

theorem composite_not_enum (S : Schema) (n : String) (t : TypeDef) (h : S.find? n = some t) (hc : S.isComposite n = true) :
    (t.kind == Kind.enum) = false := by
  unfold Schema.isComposite Schema.kindOf at hc
  rw [h] at hc
  cases hk : t.kind <;> simp_all <;> rfl

theorem toValue_spec (D : Defects) (hD : D.nanNullInNonNull = false) (S : Schema) (n : String) (v v' : GValue)
    (hb : ∀ b ∈ builtinScalars, S.isComposite b = false) (hf : n = "Float" → ∀ i, v ≠ .int i) :
    toValue D S n v = some (some v') ↔ (S.isComposite n = false ∧ serializeLeaf S n v = some v') := by
  have h1 := hb "Int" (by simp [builtinScalars])
  have h2 := hb "Float" (by simp [builtinScalars])
  have h3 := hb "String" (by simp [builtinScalars])
  have h4 := hb "Boolean" (by simp [builtinScalars])
  have h5 := hb "ID" (by simp [builtinScalars])
  unfold toValue serializeLeaf
  split
  all_goals (try (simp_all; done))
  · rename_i t
    by_cases hn : (t = "NaN" ∨ t = "inf" ∨ t = "-inf") <;> simp [hn, hD, h2]
  · rename_i e
    have hs : serializeLeaf S n (GValue.enum e) = (match S.find? n with
        | some t => if (t.kind == Kind.enum && t.values.contains e) = true then some (GValue.str e) else none
        | none => none) := by
      unfold serializeLeaf
      split <;> simp_all
      rfl
    unfold serializeLeaf at hs
    rw [hs]
    cases hfind : S.find? n with
    | none => simp
    | some t =>
      cases hc : S.isComposite n with
      | true => simp [composite_not_enum S n t hfind hc]
      | false => by_cases hk : (t.kind == Kind.enum && t.values.contains e) = true <;> simp_all


theorem joinAll_vals (fs : List (Unit → Res)) :
    ∀ (B : List Res), fs.map (fun f => (f ()).val) = B.map (·.val) →
      (joinAll fs).all (·.val.isSome) = B.all (·.val.isSome) ∧
      (B.all (·.val.isSome) = true → (joinAll fs).filterMap (·.val) = B.filterMap (·.val)) := by
  induction fs with
  | nil => intro B h; cases B <;> simp_all [joinAll]
  | cons f rest ih =>
    intro B h
    cases B with
    | nil => simp at h
    | cons b B' =>
      simp only [List.map_cons, List.cons.injEq] at h
      obtain ⟨ih1, ih2⟩ := ih B' h.2
      cases hv : (f ()).val with
      | none =>
        have hb : b.val = none := by rw [← h.1, hv]
        simp [joinAll, hv, hb]
      | some v =>
        have hb : b.val = some v := by rw [← h.1, hv]
        simp only [joinAll, hv, List.all_cons, List.filterMap_cons, hb, Option.isSome_some, Bool.true_and, ih1]
        refine ⟨trivial, fun hall => ?_⟩
        rw [ih2 hall]


-- ------------------------------------------------------------------ completion: model = spec (values)

mutual
/-- no `Int` leaf anywhere in a resolver result (the spec serialises an `Int` leaf at a `Float`
    position, the Rust `f64::to_value` is never handed one) -/
def noIntLeaf : RVal → Bool
  | .leaf (.int _) => false
  | .list xs => noIntLeafs xs
  | _ => true
def noIntLeafs : List RVal → Bool
  | [] => true
  | x :: r => noIntLeaf x && noIntLeafs r
end

theorem noIntLeafs_mem : ∀ xs, noIntLeafs xs = true → ∀ x ∈ xs, noIntLeaf x = true := by
  intro xs
  induction xs with
  | nil => intro _ x hx; simp at hx
  | cons y ys ih =>
    intro h x hx
    simp only [noIntLeafs, Bool.and_eq_true] at h
    simp only [List.mem_cons] at hx
    rcases hx with rfl | hx
    · exact h.1
    · exact ih h.2 x hx

theorem complete_nonNull_val (S : Schema) (rec : String → Nat → List Sel → List PathSeg → Res)
    (t : TypeRef) (rv : RVal) (ss : List Sel) (path : List PathSeg) (pos : Pos) (h : rv ≠ .null) :
    ((complete S rec t rv ss path pos).val = some .null → (complete S rec (.nonNull t) rv ss path pos).val = none) ∧
    ((complete S rec t rv ss path pos).val ≠ some .null →
      (complete S rec (.nonNull t) rv ss path pos).val = (complete S rec t rv ss path pos).val) := by
  constructor
  · intro hv
    cases rv <;> simp_all [complete] <;> split <;> simp_all
  · intro hv
    cases rv <;> simp_all [complete] <;> split <;> simp_all

theorem resolveValue_val_eq (c : Model.ExecStatic.Ctx) (hD : c.D.nanNullInNonNull = false)
    (hb : ∀ b ∈ builtinScalars, c.S.isComposite b = false)
    (recM : String → String → Nat → List Sel → List PathSeg → Res) (hrec : RecOK recM)
    (recS : String → Nat → List Sel → List PathSeg → Res) (ss : List Sel) :
    ∀ (t : TypeRef),
      (∀ ty id p, (c.S.possibleTypes t.base).contains ty = true → (recM t.base ty id ss p).val = (recS ty id ss p).val) →
      ∀ (rv : RVal) (path : List PathSeg) (pos : Pos), (t.base = "Float" → noIntLeaf rv = true) →
      (resolveValue c recM t rv ss path pos).val = (complete c.S recS t rv ss path pos).val := by
  intro t
  induction t with
  | named n =>
    intro hr rv path pos hf
    cases rv with
    | null => simp [resolveValue, complete]
    | obj ty id =>
      simp only [resolveValue, complete]
      by_cases hp : (c.S.possibleTypes n).contains ty = true
      · have e := hr ty id path hp
        simp only [TypeRef.base] at e
        rw [if_pos hp, if_pos hp]
        cases h1 : (recM n ty id ss path).val <;> cases h2 : (recS ty id ss path).val <;> simp_all
      · rw [if_neg hp, if_neg hp]
    | leaf v =>
      simp only [resolveValue, complete]
      have hf' : n = "Float" → ∀ i, v ≠ .int i := by
        intro hn i hv
        subst hv
        have := hf hn
        simp [noIntLeaf] at this
      have key := fun v' => toValue_spec c.D hD c.S n v v' hb hf'
      cases hc : c.S.isComposite n with
      | true =>
        simp only [if_true]
        cases htv : toValue c.D c.S n v with
        | none => rfl
        | some o =>
          cases o with
          | none => rfl
          | some v' => have := (key v').1 htv; simp [hc] at this
      | false =>
        simp only [Bool.false_eq_true, if_false]
        cases hs : serializeLeaf c.S n v with
        | some v' => rw [(key v').2 ⟨hc, hs⟩]
        | none =>
          cases htv : toValue c.D c.S n v with
          | none => rfl
          | some o =>
            cases o with
            | none => rfl
            | some v' => have := (key v').1 htv; simp [hs] at this
    | list xs => simp [resolveValue, complete]
    | fail m => simp [resolveValue, complete]
    | arg a => simp [resolveValue, complete]
  | list t ih =>
    intro hr rv path pos hf
    cases rv with
    | null => simp [resolveValue, complete]
    | list xs =>
      simp only [resolveValue, complete]
      have hAB : (mapIdx (fun i x => fun (_ : Unit) =>
            itemWrap c.D (path ++ [PathSeg.idx i]) (resolveValue c recM t x ss (path ++ [PathSeg.idx i]) pos)) xs 0).map
            (fun f => (f ()).val) =
          (mapIdx (fun i x => complete c.S recS t x ss (path ++ [PathSeg.idx i]) pos) xs 0).map (·.val) := by
        rw [mapIdx_map, mapIdx_map]
        apply mapIdx_congr
        intro i x hx
        rw [itemWrap_val]
        apply ih hr
        intro hfl
        exact noIntLeafs_mem xs (by simpa [noIntLeaf] using hf hfl) x hx
      obtain ⟨h1, h2⟩ := joinAll_vals _ _ hAB
      rw [h1]
      split
      · rename_i hall
        simp only
        rw [h2 hall]
      · rfl
    | obj ty id => simp [resolveValue, complete]
    | leaf v => simp [resolveValue, complete]
    | fail m => simp [resolveValue, complete]
    | arg a => simp [resolveValue, complete]
  | nonNull t ih =>
    intro hr rv path pos hf
    by_cases hrv : rv = .null
    · subst hrv; simp [resolveValue, complete]
    · rw [resolveValue_nonNull c recM t rv ss path pos hrv]
      have e := ih hr rv path pos hf
      have h2 := (resolveValue_props c hD recM hrec t rv ss path pos).2
      obtain ⟨ca, cb⟩ := complete_nonNull_val c.S recS t rv ss path pos hrv
      cases hv : (complete c.S recS t rv ss path pos).val with
      | none =>
        rw [cb (by simp [hv]), hv]
        unfold nnWrap
        rw [hv] at e
        simp [e]
      | some v =>
        by_cases hnull : v = .null
        · subst hnull
          rw [ca hv]
          rw [hv] at e
          have hne := h2 e
          unfold nnWrap
          by_cases hemp : (resolveValue c recM t rv ss path pos).errs = []
          · exact absurd (hne hemp) hrv
          · simp [e, hemp]
        · rw [cb (by simp [hv, hnull]), hv]
          rw [hv] at e
          unfold nnWrap
          cases v <;> simp_all


/-- the specification-side context of a model context -/
def sc (c : Model.ExecStatic.Ctx) : AGV.Spec.Exec.Ctx := { S := c.S, d := c.d, vars := c.vars, w := c.w }

def dirsInert (vars : List (String × GValue)) (ds : List Dir) : Bool := !excluded vars ds && !isSkipped vars ds

mutual
def selInert (vars : List (String × GValue)) : Sel → Bool
  | .field _ _ _ ds ss _ => dirsInert vars ds && selsInert vars ss
  | .spread _ ds _ => dirsInert vars ds
  | .inline _ ds ss _ => dirsInert vars ds && selsInert vars ss
def selsInert (vars : List (String × GValue)) : List Sel → Bool
  | [] => true
  | s :: r => selInert vars s && selsInert vars r
end

def spreads (d : Doc) : Nat → List Sel → List String
  | 0, _ => []
  | fuel + 1, sels => (sels.map (fun sel =>
      match sel with
      | .field _ _ _ _ _ _ => []
      | .spread n _ _ => n :: (match d.frag? n with
          | none => []
          | some f => spreads d fuel f.sels)
      | .inline _ _ ss _ => spreads d fuel ss)).flatten

def IsObj (S : Schema) (rt : String) : Prop := ∃ o, S.find? rt = some o ∧ o.kind = .object

structure SchemaOK (S : Schema) : Prop where
  applies : ∀ rt, IsObj S rt → ∀ cond, appliesConcrete Defects.none S rt cond = doesApply S rt cond
  possible : ∀ n ty, ty ∈ S.possibleTypes n → IsObj S ty ∧ doesApply S ty n = true

def eraseSt (o : FieldOcc) : FieldOcc := { o with st := "" }

def specStep (c : AGV.Spec.Exec.Ctx) (rt : String) (fuel : Nat) (acc : List FieldOcc × List String) (sel : Sel) :
    List FieldOcc × List String :=
      match sel with
      | .field al n args dirs ss pos =>
        if excluded c.vars dirs then acc
        else (acc.1 ++ [{ key := AGV.Spec.Exec.Sel.key al n, name := n, args := args, sels := ss, pos := pos }], acc.2)
      | .spread n dirs _ =>
        if excluded c.vars dirs then acc
        else if acc.2.contains n then acc
        else
          let vis := n :: acc.2
          match c.d.frag? n with
          | none => (acc.1, vis)
          | some f =>
            if !doesApply c.S rt f.cond then (acc.1, vis)
            else
              let r := AGV.Spec.Exec.collect c rt fuel f.sels vis
              (acc.1 ++ r.1, r.2)
      | .inline cond dirs ss _ =>
        if excluded c.vars dirs then acc
        else
          match cond with
          | some t =>
            if !doesApply c.S rt t then acc
            else
              let r := AGV.Spec.Exec.collect c rt fuel ss acc.2
              (acc.1 ++ r.1, r.2)
          | none =>
            let r := AGV.Spec.Exec.collect c rt fuel ss acc.2
            (acc.1 ++ r.1, r.2)

theorem spec_collect_succ (c : AGV.Spec.Exec.Ctx) (rt : String) (fuel : Nat) (sels : List Sel) (vis : List String) :
    AGV.Spec.Exec.collect c rt (fuel + 1) sels vis = sels.foldl (specStep c rt fuel) ([], vis) := by
  rfl

theorem collect_cons (c : Model.ExecStatic.Ctx) (rt : String) (fuel : Nat) (st : String) (s : Sel) (r : List Sel) :
    Model.ExecStatic.collect c rt (fuel + 1) st (s :: r) =
      Model.ExecStatic.collect c rt (fuel + 1) st [s] ++ Model.ExecStatic.collect c rt (fuel + 1) st r := by
  simp [Model.ExecStatic.collect]

theorem spreads_cons (d : Doc) (fuel : Nat) (s : Sel) (r : List Sel) :
    spreads d (fuel + 1) (s :: r) = spreads d (fuel + 1) [s] ++ spreads d (fuel + 1) r := by
  simp [spreads]

@[simp] theorem sc_S (c : Model.ExecStatic.Ctx) : (sc c).S = c.S := rfl
@[simp] theorem sc_d (c : Model.ExecStatic.Ctx) : (sc c).d = c.d := rfl
@[simp] theorem sc_vars (c : Model.ExecStatic.Ctx) : (sc c).vars = c.vars := rfl
@[simp] theorem sc_w (c : Model.ExecStatic.Ctx) : (sc c).w = c.w := rfl

theorem doesApply_self (S : Schema) (rt : String) (h : IsObj S rt) : doesApply S rt rt = true := by
  obtain ⟨o, ho, hk⟩ := h
  simp [doesApply, ho, hk]

theorem frag_mem (d : Doc) (n : String) (f : FragDef) (h : d.frag? n = some f) : f ∈ d.frags := by
  unfold Doc.frag? at h
  exact List.mem_of_find?_eq_some h

/-- the induction hypothesis on fuel of `collect_agree` -/
def CollectAgree (c : Model.ExecStatic.Ctx) (rt : String) (fuel : Nat) : Prop :=
  ∀ st sels vis, doesApply c.S rt st = true → selsInert c.vars sels = true →
    (spreads c.d fuel sels).Nodup → (∀ n ∈ spreads c.d fuel sels, n ∉ vis) →
    (AGV.Spec.Exec.collect (sc c) rt fuel sels vis).1 = (Model.ExecStatic.collect c rt fuel st sels).map eraseSt ∧
    ∀ n ∈ (AGV.Spec.Exec.collect (sc c) rt fuel sels vis).2, n ∈ vis ∨ n ∈ spreads c.d fuel sels

theorem step_agree (c : Model.ExecStatic.Ctx) (hD : c.D = Defects.none) (hok : SchemaOK c.S) (rt : String)
    (hrt : IsObj c.S rt) (hfr : ∀ f ∈ c.d.frags, selsInert c.vars f.sels = true) (fuel : Nat)
    (ih : CollectAgree c rt fuel) (st : String) (hst : doesApply c.S rt st = true)
    (acc : List FieldOcc × List String) (sel : Sel) (hin : selInert c.vars sel = true)
    (hnd : (spreads c.d (fuel + 1) [sel]).Nodup) (hdis : ∀ n ∈ spreads c.d (fuel + 1) [sel], n ∉ acc.2) :
    (specStep (sc c) rt fuel acc sel).1 = acc.1 ++ (Model.ExecStatic.collect c rt (fuel + 1) st [sel]).map eraseSt ∧
    ∀ n ∈ (specStep (sc c) rt fuel acc sel).2, n ∈ acc.2 ∨ n ∈ spreads c.d (fuel + 1) [sel] := by
  have hApp : ∀ cond, appliesConcrete c.D c.S rt cond = doesApply c.S rt cond := by
    rw [hD]; exact hok.applies rt hrt
  have hstne : ∀ cond, doesApply c.S rt cond = false → ¬ st = cond := by
    intro cond h e; subst e; simp [hst] at h
  have hrtrt := doesApply_self c.S rt hrt
  cases sel with
  | field al n args ds ss pos =>
    simp only [selInert, dirsInert, Bool.and_eq_true, Bool.not_eq_true'] at hin
    simp [specStep, hin.1.1, Model.ExecStatic.collect, eraseSt]
    intro m hm; exact Or.inl hm
  | spread n ds pos =>
    simp only [selInert, dirsInert, Bool.and_eq_true, Bool.not_eq_true'] at hin
    have hn : n ∉ acc.2 := hdis n (by simp [spreads])
    cases hf : c.d.frag? n with
    | none =>
      simp [specStep, hin.1, hn, hf, Model.ExecStatic.collect, spreads]
      intro m hm; exact Or.inl hm
    | some f =>
      have hfin := hfr f (frag_mem c.d n f hf)
      simp only [spreads, hf, List.map_cons, List.map_nil, List.flatten_cons, List.flatten_nil, List.append_nil,
        List.nodup_cons] at hnd hdis
      cases ha : doesApply c.S rt f.cond with
      | true =>
        obtain ⟨i1, i2⟩ := ih rt f.sels (n :: acc.2) hrtrt hfin hnd.2 (by
          intro m hm
          simp only [List.mem_cons, not_or]
          exact ⟨fun e => hnd.1 (e ▸ hm), hdis m (by simp [hm])⟩)
        refine ⟨?_, ?_⟩
        · simp [specStep, hin.1, hn, hf, ha, Model.ExecStatic.collect, hApp, i1]
        · intro m hm
          have hm' : m ∈ (AGV.Spec.Exec.collect (sc c) rt fuel f.sels (n :: acc.2)).2 := by
            simpa [specStep, hin.1, hn, hf, ha] using hm
          have hs : spreads c.d (fuel + 1) [Sel.spread n ds pos] = n :: spreads c.d fuel f.sels := by
            simp [spreads, hf]
          rw [hs]
          rcases i2 m hm' with h | h
          · simp only [List.mem_cons] at h
            rcases h with h | h
            · right; simp [h]
            · left; exact h
          · right; simp [h]
      | false =>
        have hne := hstne f.cond ha
        simp [specStep, hin.1, hn, hf, ha, Model.ExecStatic.collect, hApp, hne]
        refine ⟨by simp [spreads, hf], fun m hm => Or.inl hm⟩
  | inline cond ds ss pos =>
    simp only [selInert, dirsInert, Bool.and_eq_true, Bool.not_eq_true'] at hin
    have hs : spreads c.d (fuel + 1) [Sel.inline cond ds ss pos] = spreads c.d fuel ss := by
      simp [spreads]
    rw [hs] at hnd hdis ⊢
    cases cond with
    | none =>
      obtain ⟨i1, i2⟩ := ih st ss acc.2 hst hin.2 hnd hdis
      refine ⟨?_, ?_⟩
      · simp [specStep, hin.1.1, Model.ExecStatic.collect, i1]
      · intro m hm
        have hm' : m ∈ (AGV.Spec.Exec.collect (sc c) rt fuel ss acc.2).2 := by
          simpa [specStep, hin.1.1] using hm
        exact i2 m hm'
    | some t =>
      cases ha : doesApply c.S rt t with
      | true =>
        obtain ⟨i1, i2⟩ := ih rt ss acc.2 hrtrt hin.2 hnd hdis
        refine ⟨?_, ?_⟩
        · simp [specStep, hin.1.1, ha, Model.ExecStatic.collect, hApp, i1]
        · intro m hm
          have hm' : m ∈ (AGV.Spec.Exec.collect (sc c) rt fuel ss acc.2).2 := by
            simpa [specStep, hin.1.1, ha] using hm
          exact i2 m hm'
      | false =>
        have hne := hstne t ha
        simp [specStep, hin.1.1, ha, Model.ExecStatic.collect, hApp, hne]
        intro m hm; exact Or.inl hm

theorem foldl_agree (c : Model.ExecStatic.Ctx) (hD : c.D = Defects.none) (hok : SchemaOK c.S) (rt : String)
    (hrt : IsObj c.S rt) (hfr : ∀ f ∈ c.d.frags, selsInert c.vars f.sels = true) (fuel : Nat)
    (ih : CollectAgree c rt fuel) (st : String) (hst : doesApply c.S rt st = true) :
    ∀ (sels : List Sel) (acc : List FieldOcc × List String), selsInert c.vars sels = true →
      (spreads c.d (fuel + 1) sels).Nodup → (∀ n ∈ spreads c.d (fuel + 1) sels, n ∉ acc.2) →
      (sels.foldl (specStep (sc c) rt fuel) acc).1 = acc.1 ++ (Model.ExecStatic.collect c rt (fuel + 1) st sels).map eraseSt ∧
      ∀ n ∈ (sels.foldl (specStep (sc c) rt fuel) acc).2, n ∈ acc.2 ∨ n ∈ spreads c.d (fuel + 1) sels := by
  intro sels
  induction sels with
  | nil => intro acc _ _ _; simp [Model.ExecStatic.collect]; exact fun n h => Or.inl h
  | cons s r ihr =>
    intro acc hin hnd hdis
    simp only [selsInert, Bool.and_eq_true] at hin
    rw [spreads_cons] at hnd hdis
    rw [List.nodup_append] at hnd
    obtain ⟨s1, s2⟩ := step_agree c hD hok rt hrt hfr fuel ih st hst acc s hin.1 hnd.1
      (fun n hn => hdis n (by simp [hn]))
    obtain ⟨r1, r2⟩ := ihr (specStep (sc c) rt fuel acc s) hin.2 hnd.2.1 (by
      intro n hn hmem
      rcases s2 n hmem with h | h
      · exact hdis n (by simp [hn]) h
      · exact hnd.2.2 n h n hn rfl)
    rw [List.foldl_cons, collect_cons, spreads_cons]
    refine ⟨?_, ?_⟩
    · rw [r1, s1]; simp
    · intro n hn
      rcases r2 n hn with h | h
      · rcases s2 n h with h' | h'
        · exact Or.inl h'
        · right; simp [h']
      · right; simp [h]

/-- CollectFields: under a repaired `add_set` (union conditions honoured), directives that do not act,
    a schema whose `implements`/`members` lists are consistent, and every fragment name spread at most
    once per selection set, the model collects exactly the specification's field occurrences -/
theorem collect_agree (c : Model.ExecStatic.Ctx) (hD : c.D = Defects.none) (hok : SchemaOK c.S) (rt : String)
    (hrt : IsObj c.S rt) (hfr : ∀ f ∈ c.d.frags, selsInert c.vars f.sels = true) :
    ∀ fuel, CollectAgree c rt fuel := by
  intro fuel
  induction fuel with
  | zero => intro st sels vis _ _ _ _; simp [AGV.Spec.Exec.collect, Model.ExecStatic.collect]; exact fun n h => Or.inl h
  | succ fuel ih =>
    intro st sels vis hst hin hnd hdis
    rw [spec_collect_succ]
    have := foldl_agree c hD hok rt hrt hfr fuel ih st hst sels ([], vis) hin hnd hdis
    simpa using this


end AGV.Lemmas.ExecStaticData
