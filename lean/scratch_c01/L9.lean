import AGV.Lemmas.ExecStaticData

namespace AGV.Lemmas.ExecStaticData
open AGV.Core AGV.Model.ExecStatic AGV.Lemmas.ExecStatic

-- ------------------------------------------------------------------ towards the merge lemma: insert = group, then merge

/-- group key/value pairs by key, groups in order of first occurrence (mirror of `Spec.Exec.group`) -/
def groupKV (kvs : List (String × GValue)) : List (String × List GValue) :=
  kvs.foldl (fun gs p =>
    if gs.any (·.1 = p.1) then gs.map (fun g => if g.1 = p.1 then (g.1, g.2 ++ [p.2]) else g)
    else gs ++ [(p.1, [p.2])]) []

/-- left fold of the merge over the values of one key, in occurrence order -/
def mergeAll (f : GValue → GValue → GValue) : List GValue → GValue
  | [] => .null
  | v :: vs => vs.foldl f v

theorem mergeAll_snoc (f : GValue → GValue → GValue) (vs : List GValue) (v : GValue) (h : vs ≠ []) :
    mergeAll f (vs ++ [v]) = f (mergeAll f vs) v := by
  cases vs with
  | nil => exact absurd rfl h
  | cons v0 r => simp [mergeAll, List.foldl_append]

theorem insertKV_group_step (f : GValue → GValue → GValue) (gs : List (String × List GValue))
    (hne : ∀ g ∈ gs, g.2 ≠ []) (k : String) (v : GValue) :
    insertKV f (gs.map (fun g => (g.1, mergeAll f g.2))) k v =
      (if gs.any (·.1 = k) then gs.map (fun g => if g.1 = k then (g.1, g.2 ++ [v]) else g)
        else gs ++ [(k, [v])]).map (fun g => (g.1, mergeAll f g.2)) := by
  unfold insertKV
  have hany : (gs.map (fun g => (g.1, mergeAll f g.2))).any (fun p => decide (p.1 = k)) = gs.any (fun g => decide (g.1 = k)) := by
    rw [List.any_map]; rfl
  rw [hany]
  by_cases h : gs.any (fun g => decide (g.1 = k)) = true
  · rw [if_pos h, if_pos h, List.map_map, List.map_map]
    apply List.map_congr_left
    intro g hg
    by_cases hk : g.1 = k
    · simp [hk, mergeAll_snoc f g.2 v (hne g hg)]
    · simp [hk]
  · rw [if_neg h, if_neg h]
    simp [mergeAll]

theorem foldl_insertKV_group (f : GValue → GValue → GValue) (kvs : List (String × GValue)) :
    ∀ (gs : List (String × List GValue)), (∀ g ∈ gs, g.2 ≠ []) →
      kvs.foldl (fun m p => insertKV f m p.1 p.2) (gs.map (fun g => (g.1, mergeAll f g.2))) =
        (kvs.foldl (fun gs p =>
          if gs.any (·.1 = p.1) then gs.map (fun g => if g.1 = p.1 then (g.1, g.2 ++ [p.2]) else g)
          else gs ++ [(p.1, [p.2])]) gs).map (fun g => (g.1, mergeAll f g.2)) := by
  induction kvs with
  | nil => intro gs _; rfl
  | cons p ps ih =>
    intro gs hne
    rw [List.foldl_cons, List.foldl_cons, insertKV_group_step f gs hne]
    apply ih
    intro g hg
    split at hg
    · simp only [List.mem_map] at hg
      obtain ⟨g', hg', rfl⟩ := hg
      split
      · simp
      · exact hne g' hg'
    · simp only [List.mem_append, List.mem_singleton] at hg
      rcases hg with hg | rfl
      · exact hne g hg
      · simp

/-- `create_value_object` = group the field results by response key (first-occurrence order), then
    fold `merge_value` over each key's values in occurrence order — for every list of results -/
theorem createValueObject_group (fuel : Nat) (kvs : List (String × GValue)) :
    createValueObject fuel kvs = .obj ((groupKV kvs).map (fun g => (g.1, mergeAll (merge fuel) g.2))) := by
  unfold createValueObject groupKV
  have := foldl_insertKV_group (merge fuel) kvs [] (by simp)
  simpa using this

end AGV.Lemmas.ExecStaticData
