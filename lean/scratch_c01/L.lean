import AGV.Lemmas.ExecStatic

namespace AGV.Lemmas.ExecStaticData
open AGV.Core AGV.Model.ExecStatic AGV.Lemmas.ExecStatic
open AGV.Spec.Exec (FieldOcc complete execSet group mapIdx serializeLeaf doesApply excluded argValue)

-- ------------------------------------------------------------------ association lists with distinct keys

theorem insertKV_fresh (f : GValue → GValue → GValue) (m : List (String × GValue)) (k : String) (v : GValue)
    (h : k ∉ m.map (·.1)) : insertKV f m k v = m ++ [(k, v)] := by
  unfold insertKV
  rw [any_key]
  simp [h]

theorem foldl_insertKV_nodup (f : GValue → GValue → GValue) (kvs : List (String × GValue)) :
    ∀ m : List (String × GValue), (m.map (·.1) ++ kvs.map (·.1)).Nodup →
      kvs.foldl (fun m p => insertKV f m p.1 p.2) m = m ++ kvs := by
  induction kvs with
  | nil => intro m _; simp
  | cons p ps ih =>
    intro m h
    have hp : p.1 ∉ m.map (·.1) := by
      intro hm
      rw [List.nodup_append] at h
      exact h.2.2 _ hm _ (by simp) rfl
    rw [List.foldl_cons, insertKV_fresh f m p.1 p.2 hp, ih]
    · simp
    · simpa [List.append_assoc] using h

/-- with pairwise distinct keys `create_value_object` is the association list itself -/
theorem createValueObject_nodup (fuel : Nat) (kvs : List (String × GValue)) (h : (kvs.map (·.1)).Nodup) :
    createValueObject fuel kvs = .obj kvs := by
  unfold createValueObject
  rw [foldl_insertKV_nodup _ kvs [] (by simpa using h)]
  simp

theorem group_foldl_nodup (occs : List FieldOcc) :
    ∀ gs : List (String × List FieldOcc), (gs.map (·.1) ++ occs.map (·.key)).Nodup →
      occs.foldl (fun gs o =>
        if gs.any (·.1 = o.key) then gs.map (fun g => if g.1 = o.key then (g.1, g.2 ++ [o]) else g)
        else gs ++ [(o.key, [o])]) gs = gs ++ occs.map (fun o => (o.key, [o])) := by
  induction occs with
  | nil => intro gs _; simp
  | cons o os ih =>
    intro gs h
    have hp : o.key ∉ gs.map (·.1) := by
      intro hm
      rw [List.nodup_append] at h
      exact h.2.2 _ hm _ (by simp) rfl
    have hany : gs.any (fun g => decide (g.1 = o.key)) = false := by
      rw [Bool.eq_false_iff]
      intro hc
      simp only [List.any_eq_true, decide_eq_true_eq] at hc
      obtain ⟨g, hg, e⟩ := hc
      exact hp (by simp only [List.mem_map]; exact ⟨g, hg, e⟩)
    rw [List.foldl_cons, hany]
    simp only [Bool.false_eq_true, if_false]
    rw [ih]
    · simp
    · simpa [List.append_assoc] using h

/-- with pairwise distinct response keys every occurrence is its own group -/
theorem group_nodup (occs : List FieldOcc) (h : (occs.map (·.key)).Nodup) :
    group occs = occs.map (fun o => (o.key, [o])) := by
  unfold group
  rw [group_foldl_nodup occs [] (by simpa using h)]
  simp

-- ------------------------------------------------------------------ joinAll

theorem joinAll_all (fs : List (Unit → Res)) :
    (joinAll fs).all (·.val.isSome) = fs.all (fun f => (f ()).val.isSome) := by
  induction fs with
  | nil => simp [joinAll]
  | cons f rest ih =>
    cases hv : (f ()).val with
    | none => simp [joinAll, hv]
    | some v => simp [joinAll, hv, ih]

theorem joinAll_eq_of_all (fs : List (Unit → Res)) (h : fs.all (fun f => (f ()).val.isSome) = true) :
    joinAll fs = fs.map (fun f => f ()) := by
  induction fs with
  | nil => simp [joinAll]
  | cons f rest ih =>
    simp only [List.all_cons, Bool.and_eq_true] at h
    cases hv : (f ()).val with
    | none => simp [hv] at h
    | some v => simp [joinAll, hv, ih h.2]

theorem mapIdx_map {α β γ} (g : β → γ) (f : Nat → α → β) (xs : List α) :
    ∀ i, (mapIdx f xs i).map g = mapIdx (fun i x => g (f i x)) xs i := by
  induction xs with
  | nil => intro i; simp [mapIdx]
  | cons x xs ih => intro i; simp [mapIdx, ih]

theorem mapIdx_congr {α β} (f g : Nat → α → β) (xs : List α) (h : ∀ i, ∀ x ∈ xs, f i x = g i x) :
    ∀ i, mapIdx f xs i = mapIdx g xs i := by
  induction xs with
  | nil => intro i; simp [mapIdx]
  | cons x xs ih =>
    intro i
    simp only [mapIdx]
    rw [h i x (by simp), ih (fun i y hy => h i y (by simp [hy]))]

end AGV.Lemmas.ExecStaticData
