import AGV.Lemmas.ExecStatic
open AGV.Core AGV.Model.ExecStatic AGV.Lemmas.ExecStatic
namespace T0
def p0 : Pos := ⟨1, 1⟩
def S0 : Schema := { query := "Query", types := [
  { name := "Query", kind := .object, fields := [{ name := "obj", ty := .named "O", args := [] }] },
  { name := "O", kind := .object, fields := [{ name := "a", ty := .named "Int", args := [] },
                                             { name := "f", ty := .nonNull (.named "Float"), args := [] }] },
  { name := "U", kind := .union, members := ["O"] },
  { name := "Int", kind := .scalar }, { name := "Float", kind := .scalar }, { name := "Boolean", kind := .scalar }] }
def w0 : World := { entries := [((0, "obj"), .obj "O" 1), ((1, "a"), .leaf (.int 5)), ((1, "f"), .leaf (.float "NaN"))] }
def docZ : Doc := { ops := [{ ty := .query, name := none, vars := [], dirs := [], sels := [Sel.field none "zz" [] [] [] p0] }], frags := [] }
example : AGV.Spec.Exec.fuelBound docZ ≤ 3 := by simp [AGV.Spec.Exec.fuelBound, AGV.Spec.Exec.selCount, docZ]
example : (run Defects.none S0 docZ none [] w0 3).val = some (.obj [("zz", .null)]) := by rfl
example : (AGV.Spec.Exec.run S0 docZ none [] w0 3).val = some (.obj []) := by rfl
end T0
