import AGV.Lemmas.ExecStatic

namespace AGV.Lemmas.ExecStaticData
open AGV.Core AGV.Model.ExecStatic AGV.Lemmas.ExecStatic
open AGV.Spec.Exec (FieldOcc complete execSet group mapIdx serializeLeaf doesApply excluded argValue)

/-- the specification-side context of a model context -/
def sc (c : Model.ExecStatic.Ctx) : AGV.Spec.Exec.Ctx := { S := c.S, d := c.d, vars := c.vars, w := c.w }

def dirsInert (vars : List (String × GValue)) (ds : List Dir) : Bool := !excluded vars ds && !isSkipped vars ds

mutual
def selInert (vars : List (String × GValue)) : Sel → Bool
  | .field _ _ _ ds ss _ => dirsInert vars ds && selsInert vars ss
  | .spread _ ds _ => dirsInert vars ds
  | .inline _ ds ss _ => dirsInert vars ds && selsInert vars ss
def selsInert (vars : List (String × GValue)) : List Sel → Bool
  | [] => true
  | s :: r => selInert vars s && selsInert vars r
end

def spreads (d : Doc) : Nat → List Sel → List String
  | 0, _ => []
  | fuel + 1, sels => (sels.map (fun sel =>
      match sel with
      | .field _ _ _ _ _ _ => []
      | .spread n _ _ => n :: (match d.frag? n with
          | none => []
          | some f => spreads d fuel f.sels)
      | .inline _ _ ss _ => spreads d fuel ss)).flatten

def IsObj (S : Schema) (rt : String) : Prop := ∃ o, S.find? rt = some o ∧ o.kind = .object

structure SchemaOK (S : Schema) : Prop where
  applies : ∀ rt, IsObj S rt → ∀ cond, appliesConcrete Defects.none S rt cond = doesApply S rt cond
  possible : ∀ n ty, ty ∈ S.possibleTypes n → IsObj S ty ∧ doesApply S ty n = true

def eraseSt (o : FieldOcc) : FieldOcc := { o with st := "" }

def specStep (c : AGV.Spec.Exec.Ctx) (rt : String) (fuel : Nat) (acc : List FieldOcc × List String) (sel : Sel) :
    List FieldOcc × List String :=
      match sel with
      | .field al n args dirs ss pos =>
        if excluded c.vars dirs then acc
        else (acc.1 ++ [{ key := AGV.Spec.Exec.Sel.key al n, name := n, args := args, sels := ss, pos := pos }], acc.2)
      | .spread n dirs _ =>
        if excluded c.vars dirs then acc
        else if acc.2.contains n then acc
        else
          let vis := n :: acc.2
          match c.d.frag? n with
          | none => (acc.1, vis)
          | some f =>
            if !doesApply c.S rt f.cond then (acc.1, vis)
            else
              let r := AGV.Spec.Exec.collect c rt fuel f.sels vis
              (acc.1 ++ r.1, r.2)
      | .inline cond dirs ss _ =>
        if excluded c.vars dirs then acc
        else
          match cond with
          | some t =>
            if !doesApply c.S rt t then acc
            else
              let r := AGV.Spec.Exec.collect c rt fuel ss acc.2
              (acc.1 ++ r.1, r.2)
          | none =>
            let r := AGV.Spec.Exec.collect c rt fuel ss acc.2
            (acc.1 ++ r.1, r.2)

theorem spec_collect_succ (c : AGV.Spec.Exec.Ctx) (rt : String) (fuel : Nat) (sels : List Sel) (vis : List String) :
    AGV.Spec.Exec.collect c rt (fuel + 1) sels vis = sels.foldl (specStep c rt fuel) ([], vis) := by
  rfl

theorem collect_cons (c : Model.ExecStatic.Ctx) (rt : String) (fuel : Nat) (st : String) (s : Sel) (r : List Sel) :
    Model.ExecStatic.collect c rt (fuel + 1) st (s :: r) =
      Model.ExecStatic.collect c rt (fuel + 1) st [s] ++ Model.ExecStatic.collect c rt (fuel + 1) st r := by
  simp [Model.ExecStatic.collect]

theorem spreads_cons (d : Doc) (fuel : Nat) (s : Sel) (r : List Sel) :
    spreads d (fuel + 1) (s :: r) = spreads d (fuel + 1) [s] ++ spreads d (fuel + 1) r := by
  simp [spreads]

@[simp] theorem sc_S (c : Model.ExecStatic.Ctx) : (sc c).S = c.S := rfl
@[simp] theorem sc_d (c : Model.ExecStatic.Ctx) : (sc c).d = c.d := rfl
@[simp] theorem sc_vars (c : Model.ExecStatic.Ctx) : (sc c).vars = c.vars := rfl
@[simp] theorem sc_w (c : Model.ExecStatic.Ctx) : (sc c).w = c.w := rfl

theorem doesApply_self (S : Schema) (rt : String) (h : IsObj S rt) : doesApply S rt rt = true := by
  obtain ⟨o, ho, hk⟩ := h
  simp [doesApply, ho, hk]

theorem frag_mem (d : Doc) (n : String) (f : FragDef) (h : d.frag? n = some f) : f ∈ d.frags := by
  unfold Doc.frag? at h
  exact List.mem_of_find?_eq_some h

/-- the induction hypothesis on fuel of `collect_agree` -/
def CollectAgree (c : Model.ExecStatic.Ctx) (rt : String) (fuel : Nat) : Prop :=
  ∀ st sels vis, doesApply c.S rt st = true → selsInert c.vars sels = true →
    (spreads c.d fuel sels).Nodup → (∀ n ∈ spreads c.d fuel sels, n ∉ vis) →
    (AGV.Spec.Exec.collect (sc c) rt fuel sels vis).1 = (Model.ExecStatic.collect c rt fuel st sels).map eraseSt ∧
    ∀ n ∈ (AGV.Spec.Exec.collect (sc c) rt fuel sels vis).2, n ∈ vis ∨ n ∈ spreads c.d fuel sels

theorem step_agree (c : Model.ExecStatic.Ctx) (hD : c.D = Defects.none) (hok : SchemaOK c.S) (rt : String)
    (hrt : IsObj c.S rt) (hfr : ∀ f ∈ c.d.frags, selsInert c.vars f.sels = true) (fuel : Nat)
    (ih : CollectAgree c rt fuel) (st : String) (hst : doesApply c.S rt st = true)
    (acc : List FieldOcc × List String) (sel : Sel) (hin : selInert c.vars sel = true)
    (hnd : (spreads c.d (fuel + 1) [sel]).Nodup) (hdis : ∀ n ∈ spreads c.d (fuel + 1) [sel], n ∉ acc.2) :
    (specStep (sc c) rt fuel acc sel).1 = acc.1 ++ (Model.ExecStatic.collect c rt (fuel + 1) st [sel]).map eraseSt ∧
    ∀ n ∈ (specStep (sc c) rt fuel acc sel).2, n ∈ acc.2 ∨ n ∈ spreads c.d (fuel + 1) [sel] := by
  have hApp : ∀ cond, appliesConcrete c.D c.S rt cond = doesApply c.S rt cond := by
    rw [hD]; exact hok.applies rt hrt
  have hstne : ∀ cond, doesApply c.S rt cond = false → ¬ st = cond := by
    intro cond h e; subst e; simp [hst] at h
  have hrtrt := doesApply_self c.S rt hrt
  cases sel with
  | field al n args ds ss pos =>
    simp only [selInert, dirsInert, Bool.and_eq_true, Bool.not_eq_true'] at hin
    simp [specStep, hin.1.1, Model.ExecStatic.collect, eraseSt]
    intro m hm; exact Or.inl hm
  | spread n ds pos =>
    simp only [selInert, dirsInert, Bool.and_eq_true, Bool.not_eq_true'] at hin
    have hn : n ∉ acc.2 := hdis n (by simp [spreads])
    cases hf : c.d.frag? n with
    | none =>
      simp [specStep, hin.1, hn, hf, Model.ExecStatic.collect, spreads]
      intro m hm; exact Or.inl hm
    | some f =>
      have hfin := hfr f (frag_mem c.d n f hf)
      simp only [spreads, hf, List.map_cons, List.map_nil, List.flatten_cons, List.flatten_nil, List.append_nil,
        List.nodup_cons] at hnd hdis
      cases ha : doesApply c.S rt f.cond with
      | true =>
        obtain ⟨i1, i2⟩ := ih rt f.sels (n :: acc.2) hrtrt hfin hnd.2 (by
          intro m hm
          simp only [List.mem_cons, not_or]
          exact ⟨fun e => hnd.1 (e ▸ hm), hdis m (by simp [hm])⟩)
        refine ⟨?_, ?_⟩
        · simp [specStep, hin.1, hn, hf, ha, Model.ExecStatic.collect, hApp, i1]
        · intro m hm
          have hm' : m ∈ (AGV.Spec.Exec.collect (sc c) rt fuel f.sels (n :: acc.2)).2 := by
            simpa [specStep, hin.1, hn, hf, ha] using hm
          have hs : spreads c.d (fuel + 1) [Sel.spread n ds pos] = n :: spreads c.d fuel f.sels := by
            simp [spreads, hf]
          rw [hs]
          rcases i2 m hm' with h | h
          · simp only [List.mem_cons] at h
            rcases h with h | h
            · right; simp [h]
            · left; exact h
          · right; simp [h]
      | false =>
        have hne := hstne f.cond ha
        simp [specStep, hin.1, hn, hf, ha, Model.ExecStatic.collect, hApp, hne]
        refine ⟨by simp [spreads, hf], fun m hm => Or.inl hm⟩
  | inline cond ds ss pos =>
    simp only [selInert, dirsInert, Bool.and_eq_true, Bool.not_eq_true'] at hin
    have hs : spreads c.d (fuel + 1) [Sel.inline cond ds ss pos] = spreads c.d fuel ss := by
      simp [spreads]
    rw [hs] at hnd hdis ⊢
    cases cond with
    | none =>
      obtain ⟨i1, i2⟩ := ih st ss acc.2 hst hin.2 hnd hdis
      refine ⟨?_, ?_⟩
      · simp [specStep, hin.1.1, Model.ExecStatic.collect, i1]
      · intro m hm
        have hm' : m ∈ (AGV.Spec.Exec.collect (sc c) rt fuel ss acc.2).2 := by
          simpa [specStep, hin.1.1] using hm
        exact i2 m hm'
    | some t =>
      cases ha : doesApply c.S rt t with
      | true =>
        obtain ⟨i1, i2⟩ := ih rt ss acc.2 hrtrt hin.2 hnd hdis
        refine ⟨?_, ?_⟩
        · simp [specStep, hin.1.1, ha, Model.ExecStatic.collect, hApp, i1]
        · intro m hm
          have hm' : m ∈ (AGV.Spec.Exec.collect (sc c) rt fuel ss acc.2).2 := by
            simpa [specStep, hin.1.1, ha] using hm
          exact i2 m hm'
      | false =>
        have hne := hstne t ha
        simp [specStep, hin.1.1, ha, Model.ExecStatic.collect, hApp, hne]
        intro m hm; exact Or.inl hm

theorem foldl_agree (c : Model.ExecStatic.Ctx) (hD : c.D = Defects.none) (hok : SchemaOK c.S) (rt : String)
    (hrt : IsObj c.S rt) (hfr : ∀ f ∈ c.d.frags, selsInert c.vars f.sels = true) (fuel : Nat)
    (ih : CollectAgree c rt fuel) (st : String) (hst : doesApply c.S rt st = true) :
    ∀ (sels : List Sel) (acc : List FieldOcc × List String), selsInert c.vars sels = true →
      (spreads c.d (fuel + 1) sels).Nodup → (∀ n ∈ spreads c.d (fuel + 1) sels, n ∉ acc.2) →
      (sels.foldl (specStep (sc c) rt fuel) acc).1 = acc.1 ++ (Model.ExecStatic.collect c rt (fuel + 1) st sels).map eraseSt ∧
      ∀ n ∈ (sels.foldl (specStep (sc c) rt fuel) acc).2, n ∈ acc.2 ∨ n ∈ spreads c.d (fuel + 1) sels := by
  intro sels
  induction sels with
  | nil => intro acc _ _ _; simp [Model.ExecStatic.collect]; exact fun n h => Or.inl h
  | cons s r ihr =>
    intro acc hin hnd hdis
    simp only [selsInert, Bool.and_eq_true] at hin
    rw [spreads_cons] at hnd hdis
    rw [List.nodup_append] at hnd
    obtain ⟨s1, s2⟩ := step_agree c hD hok rt hrt hfr fuel ih st hst acc s hin.1 hnd.1
      (fun n hn => hdis n (by simp [hn]))
    obtain ⟨r1, r2⟩ := ihr (specStep (sc c) rt fuel acc s) hin.2 hnd.2.1 (by
      intro n hn hmem
      rcases s2 n hmem with h | h
      · exact hdis n (by simp [hn]) h
      · exact hnd.2.2 n h n hn rfl)
    rw [List.foldl_cons, collect_cons, spreads_cons]
    refine ⟨?_, ?_⟩
    · rw [r1, s1]; simp
    · intro n hn
      rcases r2 n hn with h | h
      · rcases s2 n h with h' | h'
        · exact Or.inl h'
        · right; simp [h']
      · right; simp [h]

/-- CollectFields: under a repaired `add_set` (union conditions honoured), directives that do not act,
    a schema whose `implements`/`members` lists are consistent, and every fragment name spread at most
    once per selection set, the model collects exactly the specification's field occurrences -/
theorem collect_agree (c : Model.ExecStatic.Ctx) (hD : c.D = Defects.none) (hok : SchemaOK c.S) (rt : String)
    (hrt : IsObj c.S rt) (hfr : ∀ f ∈ c.d.frags, selsInert c.vars f.sels = true) :
    ∀ fuel, CollectAgree c rt fuel := by
  intro fuel
  induction fuel with
  | zero => intro st sels vis _ _ _ _; simp [AGV.Spec.Exec.collect, Model.ExecStatic.collect]; exact fun n h => Or.inl h
  | succ fuel ih =>
    intro st sels vis hst hin hnd hdis
    rw [spec_collect_succ]
    have := foldl_agree c hD hok rt hrt hfr fuel ih st hst sels ([], vis) hin hnd hdis
    simpa using this

end AGV.Lemmas.ExecStaticData
