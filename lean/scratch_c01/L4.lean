import AGV.Lemmas.ExecStatic

namespace AGV.Lemmas.ExecStaticData
open AGV.Core AGV.Model.ExecStatic AGV.Lemmas.ExecStatic
open AGV.Spec.Exec (FieldOcc complete execSet group mapIdx serializeLeaf doesApply excluded argValue)

-- ------------------------------------------------------------------ association lists with distinct keys

theorem insertKV_fresh (f : GValue → GValue → GValue) (m : List (String × GValue)) (k : String) (v : GValue)
    (h : k ∉ m.map (·.1)) : insertKV f m k v = m ++ [(k, v)] := by
  unfold insertKV
  rw [any_key]
  simp [h]

theorem foldl_insertKV_nodup (f : GValue → GValue → GValue) (kvs : List (String × GValue)) :
    ∀ m : List (String × GValue), (m.map (·.1) ++ kvs.map (·.1)).Nodup →
      kvs.foldl (fun m p => insertKV f m p.1 p.2) m = m ++ kvs := by
  induction kvs with
  | nil => intro m _; simp
  | cons p ps ih =>
    intro m h
    have hp : p.1 ∉ m.map (·.1) := by
      intro hm
      rw [List.nodup_append] at h
      exact h.2.2 _ hm _ (by simp) rfl
    rw [List.foldl_cons, insertKV_fresh f m p.1 p.2 hp, ih]
    · simp
    · simpa [List.append_assoc] using h

/-- with pairwise distinct keys `create_value_object` is the association list itself -/
theorem createValueObject_nodup (fuel : Nat) (kvs : List (String × GValue)) (h : (kvs.map (·.1)).Nodup) :
    createValueObject fuel kvs = .obj kvs := by
  unfold createValueObject
  rw [foldl_insertKV_nodup _ kvs [] (by simpa using h)]
  simp

theorem group_foldl_nodup (occs : List FieldOcc) :
    ∀ gs : List (String × List FieldOcc), (gs.map (·.1) ++ occs.map (·.key)).Nodup →
      occs.foldl (fun gs o =>
        if gs.any (·.1 = o.key) then gs.map (fun g => if g.1 = o.key then (g.1, g.2 ++ [o]) else g)
        else gs ++ [(o.key, [o])]) gs = gs ++ occs.map (fun o => (o.key, [o])) := by
  induction occs with
  | nil => intro gs _; simp
  | cons o os ih =>
    intro gs h
    have hp : o.key ∉ gs.map (·.1) := by
      intro hm
      rw [List.nodup_append] at h
      exact h.2.2 _ hm _ (by simp) rfl
    have hany : gs.any (fun g => decide (g.1 = o.key)) = false := by
      rw [Bool.eq_false_iff]
      intro hc
      simp only [List.any_eq_true, decide_eq_true_eq] at hc
      obtain ⟨g, hg, e⟩ := hc
      exact hp (by simp only [List.mem_map]; exact ⟨g, hg, e⟩)
    rw [List.foldl_cons, hany]
    simp only [Bool.false_eq_true, if_false]
    rw [ih]
    · simp
    · simpa [List.append_assoc] using h

/-- with pairwise distinct response keys every occurrence is its own group -/
theorem group_nodup (occs : List FieldOcc) (h : (occs.map (·.key)).Nodup) :
    group occs = occs.map (fun o => (o.key, [o])) := by
  unfold group
  rw [group_foldl_nodup occs [] (by simpa using h)]
  simp

-- ------------------------------------------------------------------ joinAll

theorem joinAll_all (fs : List (Unit → Res)) :
    (joinAll fs).all (·.val.isSome) = fs.all (fun f => (f ()).val.isSome) := by
  induction fs with
  | nil => simp [joinAll]
  | cons f rest ih =>
    cases hv : (f ()).val with
    | none => simp [joinAll, hv]
    | some v => simp [joinAll, hv, ih]

theorem joinAll_eq_of_all (fs : List (Unit → Res)) (h : fs.all (fun f => (f ()).val.isSome) = true) :
    joinAll fs = fs.map (fun f => f ()) := by
  induction fs with
  | nil => simp [joinAll]
  | cons f rest ih =>
    simp only [List.all_cons, Bool.and_eq_true] at h
    cases hv : (f ()).val with
    | none => simp [hv] at h
    | some v => simp [joinAll, hv, ih h.2]

theorem mapIdx_map {α β γ} (g : β → γ) (f : Nat → α → β) (xs : List α) :
    ∀ i, (mapIdx f xs i).map g = mapIdx (fun i x => g (f i x)) xs i := by
  induction xs with
  | nil => intro i; simp [mapIdx]
  | cons x xs ih => intro i; simp [mapIdx, ih]

theorem mapIdx_congr {α β} (f g : Nat → α → β) (xs : List α) (h : ∀ i, ∀ x ∈ xs, f i x = g i x) :
    ∀ i, mapIdx f xs i = mapIdx g xs i := by
  induction xs with
  | nil => intro i; simp [mapIdx]
  | cons x xs ih =>
    intro i
    simp only [mapIdx]
    rw [h i x (by simp), ih (fun i y hy => h i y (by simp [hy]))]


def builtinScalars : List String := ["Int", "Float", "String", "Boolean", "ID"]

theorem composite_not_enum (S : Schema) (n : String) (t : TypeDef) (h : S.find? n = some t) (hc : S.isComposite n = true) :
    (t.kind == Kind.enum) = false := by
  unfold Schema.isComposite Schema.kindOf at hc
  rw [h] at hc
  cases hk : t.kind <;> simp_all <;> rfl

theorem toValue_spec (D : Defects) (hD : D.nanNullInNonNull = false) (S : Schema) (n : String) (v v' : GValue)
    (hb : ∀ b ∈ builtinScalars, S.isComposite b = false) (hf : n = "Float" → ∀ i, v ≠ .int i) :
    toValue D S n v = some (some v') ↔ (S.isComposite n = false ∧ serializeLeaf S n v = some v') := by
  have h1 := hb "Int" (by simp [builtinScalars])
  have h2 := hb "Float" (by simp [builtinScalars])
  have h3 := hb "String" (by simp [builtinScalars])
  have h4 := hb "Boolean" (by simp [builtinScalars])
  have h5 := hb "ID" (by simp [builtinScalars])
  unfold toValue serializeLeaf
  split
  all_goals (try (simp_all; done))
  · rename_i t
    by_cases hn : (t = "NaN" ∨ t = "inf" ∨ t = "-inf") <;> simp [hn, hD, h2]
  · rename_i e
    have hs : serializeLeaf S n (GValue.enum e) = (match S.find? n with
        | some t => if (t.kind == Kind.enum && t.values.contains e) = true then some (GValue.str e) else none
        | none => none) := by
      unfold serializeLeaf
      split <;> simp_all
      rfl
    unfold serializeLeaf at hs
    rw [hs]
    cases hfind : S.find? n with
    | none => simp
    | some t =>
      cases hc : S.isComposite n with
      | true => simp [composite_not_enum S n t hfind hc]
      | false => by_cases hk : (t.kind == Kind.enum && t.values.contains e) = true <;> simp_all


theorem joinAll_vals (fs : List (Unit → Res)) :
    ∀ (B : List Res), fs.map (fun f => (f ()).val) = B.map (·.val) →
      (joinAll fs).all (·.val.isSome) = B.all (·.val.isSome) ∧
      (B.all (·.val.isSome) = true → (joinAll fs).filterMap (·.val) = B.filterMap (·.val)) := by
  induction fs with
  | nil => intro B h; cases B <;> simp_all [joinAll]
  | cons f rest ih =>
    intro B h
    cases B with
    | nil => simp at h
    | cons b B' =>
      simp only [List.map_cons, List.cons.injEq] at h
      obtain ⟨ih1, ih2⟩ := ih B' h.2
      cases hv : (f ()).val with
      | none =>
        have hb : b.val = none := by rw [← h.1, hv]
        simp [joinAll, hv, hb]
      | some v =>
        have hb : b.val = some v := by rw [← h.1, hv]
        simp only [joinAll, hv, List.all_cons, List.filterMap_cons, hb, Option.isSome_some, Bool.true_and, ih1]
        refine ⟨trivial, fun hall => ?_⟩
        rw [ih2 hall]


-- ------------------------------------------------------------------ completion: model = spec (values)

mutual
/-- no `Int` leaf anywhere in a resolver result (the spec serialises an `Int` leaf at a `Float`
    position, the Rust `f64::to_value` is never handed one) -/
def noIntLeaf : RVal → Bool
  | .leaf (.int _) => false
  | .list xs => noIntLeafs xs
  | _ => true
def noIntLeafs : List RVal → Bool
  | [] => true
  | x :: r => noIntLeaf x && noIntLeafs r
end

theorem noIntLeafs_mem : ∀ xs, noIntLeafs xs = true → ∀ x ∈ xs, noIntLeaf x = true := by
  intro xs
  induction xs with
  | nil => intro _ x hx; simp at hx
  | cons y ys ih =>
    intro h x hx
    simp only [noIntLeafs, Bool.and_eq_true] at h
    simp only [List.mem_cons] at hx
    rcases hx with rfl | hx
    · exact h.1
    · exact ih h.2 x hx

theorem complete_nonNull_val (S : Schema) (rec : String → Nat → List Sel → List PathSeg → Res)
    (t : TypeRef) (rv : RVal) (ss : List Sel) (path : List PathSeg) (pos : Pos) (h : rv ≠ .null) :
    ((complete S rec t rv ss path pos).val = some .null → (complete S rec (.nonNull t) rv ss path pos).val = none) ∧
    ((complete S rec t rv ss path pos).val ≠ some .null →
      (complete S rec (.nonNull t) rv ss path pos).val = (complete S rec t rv ss path pos).val) := by
  constructor
  · intro hv
    cases rv <;> simp_all [complete] <;> split <;> simp_all
  · intro hv
    cases rv <;> simp_all [complete] <;> split <;> simp_all

theorem resolveValue_val_eq (c : Model.ExecStatic.Ctx) (hD : c.D.nanNullInNonNull = false)
    (hb : ∀ b ∈ builtinScalars, c.S.isComposite b = false)
    (recM : String → String → Nat → List Sel → List PathSeg → Res) (hrec : RecOK recM)
    (recS : String → Nat → List Sel → List PathSeg → Res) (ss : List Sel) :
    ∀ (t : TypeRef),
      (∀ ty id p, (c.S.possibleTypes t.base).contains ty = true → (recM t.base ty id ss p).val = (recS ty id ss p).val) →
      ∀ (rv : RVal) (path : List PathSeg) (pos : Pos), (t.base = "Float" → noIntLeaf rv = true) →
      (resolveValue c recM t rv ss path pos).val = (complete c.S recS t rv ss path pos).val := by
  intro t
  induction t with
  | named n =>
    intro hr rv path pos hf
    cases rv with
    | null => simp [resolveValue, complete]
    | obj ty id =>
      simp only [resolveValue, complete]
      by_cases hp : (c.S.possibleTypes n).contains ty = true
      · have e := hr ty id path hp
        simp only [TypeRef.base] at e
        rw [if_pos hp, if_pos hp]
        cases h1 : (recM n ty id ss path).val <;> cases h2 : (recS ty id ss path).val <;> simp_all
      · rw [if_neg hp, if_neg hp]
    | leaf v =>
      simp only [resolveValue, complete]
      have hf' : n = "Float" → ∀ i, v ≠ .int i := by
        intro hn i hv
        subst hv
        have := hf hn
        simp [noIntLeaf] at this
      have key := fun v' => toValue_spec c.D hD c.S n v v' hb hf'
      cases hc : c.S.isComposite n with
      | true =>
        simp only [if_true]
        cases htv : toValue c.D c.S n v with
        | none => rfl
        | some o =>
          cases o with
          | none => rfl
          | some v' => have := (key v').1 htv; simp [hc] at this
      | false =>
        simp only [Bool.false_eq_true, if_false]
        cases hs : serializeLeaf c.S n v with
        | some v' => rw [(key v').2 ⟨hc, hs⟩]
        | none =>
          cases htv : toValue c.D c.S n v with
          | none => rfl
          | some o =>
            cases o with
            | none => rfl
            | some v' => have := (key v').1 htv; simp [hs] at this
    | list xs => simp [resolveValue, complete]
    | fail m => simp [resolveValue, complete]
    | arg a => simp [resolveValue, complete]
  | list t ih =>
    intro hr rv path pos hf
    cases rv with
    | null => simp [resolveValue, complete]
    | list xs =>
      simp only [resolveValue, complete]
      have hAB : (mapIdx (fun i x => fun (_ : Unit) =>
            itemWrap c.D (path ++ [PathSeg.idx i]) (resolveValue c recM t x ss (path ++ [PathSeg.idx i]) pos)) xs 0).map
            (fun f => (f ()).val) =
          (mapIdx (fun i x => complete c.S recS t x ss (path ++ [PathSeg.idx i]) pos) xs 0).map (·.val) := by
        rw [mapIdx_map, mapIdx_map]
        apply mapIdx_congr
        intro i x hx
        rw [itemWrap_val]
        apply ih hr
        intro hfl
        exact noIntLeafs_mem xs (by simpa [noIntLeaf] using hf hfl) x hx
      obtain ⟨h1, h2⟩ := joinAll_vals _ _ hAB
      rw [h1]
      split
      · rename_i hall
        simp only
        rw [h2 hall]
      · rfl
    | obj ty id => simp [resolveValue, complete]
    | leaf v => simp [resolveValue, complete]
    | fail m => simp [resolveValue, complete]
    | arg a => simp [resolveValue, complete]
  | nonNull t ih =>
    intro hr rv path pos hf
    by_cases hrv : rv = .null
    · subst hrv; simp [resolveValue, complete]
    · rw [resolveValue_nonNull c recM t rv ss path pos hrv]
      have e := ih hr rv path pos hf
      have h2 := (resolveValue_props c hD recM hrec t rv ss path pos).2
      obtain ⟨ca, cb⟩ := complete_nonNull_val c.S recS t rv ss path pos hrv
      cases hv : (complete c.S recS t rv ss path pos).val with
      | none =>
        rw [cb (by simp [hv]), hv]
        unfold nnWrap
        rw [hv] at e
        simp [e]
      | some v =>
        by_cases hnull : v = .null
        · subst hnull
          rw [ca hv]
          rw [hv] at e
          have hne := h2 e
          unfold nnWrap
          by_cases hemp : (resolveValue c recM t rv ss path pos).errs = []
          · exact absurd (hne hemp) hrv
          · simp [e, hemp]
        · rw [cb (by simp [hv, hnull]), hv]
          rw [hv] at e
          unfold nnWrap
          cases v <;> simp_all

end AGV.Lemmas.ExecStaticData
