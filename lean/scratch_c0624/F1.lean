import AGV.Lemmas.UploadBind
namespace AGV.Lemmas.UploadBind
open AGV.Spec.UploadBind
open AGV.Model.UploadBind

theorem segments_eq_splitDot (s : Str) : segments s = splitDot s := by
  induction s with
  | nil => simp [segments, splitDot]
  | cons c cs ih =>
    simp only [segments, List.foldr_cons] at ih ⊢
    simp only [splitDot, ih]
    split <;> rfl

theorem digitsVal_eq (ds : Str) (acc : Nat) :
    digitsVal acc ds = if ds.all (fun c => '0' ≤ c ∧ c ≤ '9') then
      some (ds.foldl (fun a c => a * 10 + (c.toNat - '0'.toNat)) acc) else none := by
  induction ds generalizing acc with
  | nil => simp [digitsVal]
  | cons c cs ih =>
    simp only [digitsVal, ih]
    by_cases h : '0' ≤ c ∧ c ≤ '9'
    · simp [h]
    · simp [h]

theorem parseCore_eq (bits : Nat) (ds : Str) :
    (match ds with
      | [] => none
      | _ => match digitsVal 0 ds with
        | some n => if n ≤ 2 ^ bits - 1 then some n else none
        | none => none) =
    (if ds ≠ [] ∧ ds.all (fun c => '0' ≤ c ∧ c ≤ '9') then
      let n := ds.foldl (fun a c => a * 10 + (c.toNat - '0'.toNat)) 0
      if n < 2 ^ bits then some n else none
    else none) := by
  have hp : 0 < 2 ^ bits := Nat.pow_pos (by decide)
  cases ds with
  | nil => simp
  | cons d r =>
    simp only [digitsVal_eq]
    by_cases hall : (d :: r).all (fun c => '0' ≤ c ∧ c ≤ '9') = true
    · simp only [hall, if_true, ne_eq, reduceCtorEq, not_false_eq_true, and_self]
      split <;> split <;> first | rfl | omega
    · simp only [hall]
      simp

theorem stripPlus_eq (s : Str) :
    parseUnsigned.match_1 (fun _ => List Char) s (fun r => r) (fun _ => s) =
      if s.head? = some '+' then s.drop 1 else s := by
  cases s with
  | nil => rfl
  | cons c r =>
    by_cases hc : c = '+'
    · subst hc; rfl
    · simp only [List.head?_cons, Option.some.injEq, hc, if_false]
      split
      · rename_i heq; simp at heq; exact absurd heq.1 hc
      · rfl

theorem parseUnsigned_eq (bits : Nat) (s : Str) : parseUnsigned (2 ^ bits - 1) s = index? bits s := by
  have h := parseCore_eq bits (if s.head? = some '+' then s.drop 1 else s)
  simp only [parseUnsigned, index?, stripPlus_eq]
  exact h

theorem parseU32_eq (s : Str) : parseU32 s = index? 32 s := parseUnsigned_eq 32 s
theorem parseUsize_eq (s : Str) : parseUsize s = index? 64 s := parseUnsigned_eq 64 s


