import AGV.Lemmas.UploadBindSim
namespace AGV.Lemmas.UploadBind
open AGV.Spec.UploadBind
open AGV.Model.UploadBind

/-- the model's bindings as one run over (file, path) pairs -/
def runAsg (b : Batch) (asg : List (File × Str)) : Option Batch :=
  asg.foldlM (fun b fp => bindPath b fp.2 fp.1) b

/-- the relation `Spec.require` demands of any two bindings -/
def okPair (x y : Tgt) : Bool := x.2.1 ≠ y.2.1 || independent x.2.2 y.2.2

theorem okPair_symm (x y : Tgt) (h : okPair x y = true) : okPair y x = true := by
  simp only [okPair, independent, Bool.or_eq_true, decide_eq_true_eq, Bool.and_eq_true] at h ⊢
  rcases h with h | h
  · exact Or.inl (Ne.symm h)
  · exact Or.inr ⟨h.2, h.1⟩

theorem okPair_frame {x y : Tgt} (h : okPair x y = true) : x.2.1 ≠ y.2.1 ∨ x.2.2.isPrefixOf y.2.2 = false := by
  simp only [okPair, independent, Bool.or_eq_true, decide_eq_true_eq, Bool.and_eq_true] at h
  rcases h with h | h
  · exact Or.inl h
  · exact Or.inr (by simpa using h.1)

theorem runAsg_complete (single : Bool) (vs0 : List VT) (asg : List (File × Str)) :
    ∀ (tsNew : List Tgt) (b : Batch) (ts : List Tgt),
      BInv single b (ts.foldl stepS vs0) →
      asg.map (fun fp => (fp.1, tgtV single vs0 fp.2)) = tsNew.map (fun t => (t.1, some t.2)) →
      List.Pairwise (fun x y => okPair x y = true) (ts ++ tsNew) →
      ∃ b', runAsg b asg = some b' ∧ BInv single b' ((ts ++ tsNew).foldl stepS vs0) := by
  induction asg with
  | nil =>
    intro tsNew b ts hinv hmap _
    cases tsNew with
    | nil => exact ⟨b, by simp [runAsg], by simpa using hinv⟩
    | cons t r => simp at hmap
  | cons fp asg ih =>
    intro tsNew b ts hinv hmap hpw
    obtain ⟨f, p⟩ := fp
    cases tsNew with
    | nil => simp at hmap
    | cons t tsNew' =>
      obtain ⟨f', n, a⟩ := t
      simp only [List.map_cons, List.cons.injEq, Prod.mk.injEq] at hmap
      obtain ⟨⟨rfl, htg⟩, hrest⟩ := hmap
      have hfr : ∀ t' ∈ ts, t'.2.1 ≠ n ∨ t'.2.2.isPrefixOf a = false := by
        intro t' ht'
        have := (List.pairwise_append.mp hpw).2.2 t' ht' (f, n, a) (by simp)
        exact okPair_frame this
      have hcur := tgtV_foldl_fwd single ts vs0 p n a htg hfr
      obtain ⟨b1, hb1, hinv1⟩ := bindPath_some hinv p f n a hcur
      have hinv1' : BInv single b1 ((ts ++ [(f, n, a)]).foldl stepS vs0) := by
        simpa [List.foldl_append] using hinv1
      obtain ⟨b', hb', hinv'⟩ := ih tsNew' b1 (ts ++ [(f, n, a)]) hinv1' hrest (by simpa using hpw)
      refine ⟨b', ?_, by simpa using hinv'⟩
      simp only [runAsg, List.foldlM_cons, hb1] at hb' ⊢
      exact hb'

theorem runAsg_sound (single : Bool) (vs0 : List VT) (asg : List (File × Str)) :
    ∀ (b b' : Batch) (ts : List Tgt),
      BInv single b (ts.foldl stepS vs0) → runAsg b asg = some b' →
      ∀ fp ∈ asg, tgtV single vs0 fp.2 ≠ none := by
  induction asg with
  | nil => intro _ _ _ _ _ fp hfp; simp at hfp
  | cons fp0 asg ih =>
    intro b b' ts hinv hrun fp hfp
    obtain ⟨f, p⟩ := fp0
    simp only [runAsg, List.foldlM_cons] at hrun
    cases htc : tgtV single (ts.foldl stepS vs0) p with
    | none => simp [bindPath_none hinv p f htc] at hrun
    | some na =>
      obtain ⟨n, a⟩ := na
      have h0 := tgtV_foldl_back single ts vs0 p (n, a) htc
      obtain ⟨b1, hb1, hinv1⟩ := bindPath_some hinv p f n a htc
      have hinv1' : BInv single b1 ((ts ++ [(f, n, a)]).foldl stepS vs0) := by
        simpa [List.foldl_append] using hinv1
      simp only [hb1] at hrun
      rcases List.mem_cons.mp hfp with rfl | hfp
      · simp [h0]
      · exact ih b1 b' _ hinv1' hrun fp hfp


-- ------------------------------------------------------------------ start and end of the run

/-- the assumptions the model documents: the decoded variables contain no upload marker and every
    object has pairwise distinct keys (what a JSON map keeps) -/
def wfBatch (b : Batch) : Bool := b.reqs.all (fun r => wfT false (T.obj r.vars))

def origOf (b : Batch) : List VT := (Batch.vars b).map (fun m => mapExt (fun _ => none) (T.obj m))

theorem Batch.vars_eq (b : Batch) : Batch.vars b = b.reqs.map (·.vars) := by
  cases b <;> simp [Batch.vars, Batch.reqs]

theorem BInv_init (b : Batch) (hw : wfBatch b = true) : BInv b.isSingle b (origOf b) := by
  refine ⟨rfl, by simp [origOf, Batch.vars_eq], ?_⟩
  intro i r v h1 h2
  simp only [origOf, Batch.vars_eq, List.map_map, List.getElem?_map, h1, Option.map_some, Function.comp,
    Option.some.injEq] at h2
  subst h2
  have hwr : wfT false (T.obj r.vars) = true := by
    simp only [wfBatch, List.all_eq_true] at hw
    exact hw r (List.mem_of_getElem? h1)
  exact ⟨wfT_weaken _ hwr, fun more => mapExt_noExt _ _ _ hwr⟩

theorem BInv_final {single : Bool} {b : Batch} {vs : List VT} (h : BInv single b vs) :
    b.reqs.map viewReq = vs.map (fun t => match t with | .obj kvs => kvs | _ => []) := by
  obtain ⟨_, hl, hi⟩ := h
  apply List.ext_getElem?
  intro i
  simp only [List.getElem?_map]
  cases hr : b.reqs[i]? with
  | none =>
    have : vs[i]? = none := by
      rw [List.getElem?_eq_none_iff] at hr ⊢; omega
    simp [this]
  | some r =>
    have hlt : i < vs.length := by
      have := (List.getElem?_eq_some_iff.mp hr).1; omega
    have hv : vs[i]? = some vs[i] := by simp [hlt]
    have := (hi i r vs[i] hr hv).2 []
    simp only [viewW, List.append_nil, mapExt] at this
    simp only [hv, Option.map_some, ← this, viewReq]

-- ------------------------------------------------------------------ the order of the bindings

def pathsOf (f : File) (m : FileMap) : List (File × Str) :=
  match getKey f.name m with
  | some ps => ps.map (fun p => (f, p))
  | none => []

/-- (file, path) pairs in the order the model binds them: file parts in arrival order -/
def asgM (m : FileMap) (files : List File) : List (File × Str) := files.flatMap (fun f => pathsOf f m)

theorem assignments_cons (e : Str × List Str) (m : FileMap) (files : List File) :
    assignments (e :: m) files =
      (match files.find? (fun f => f.name = e.1) with
        | some f => e.2.map (fun p => (f, p))
        | none => []) ++ assignments m files := by
  simp only [assignments, List.flatMap_cons]
  congr 1

theorem assignments_nil_files (m : FileMap) : assignments m [] = [] := by
  induction m with
  | nil => simp [assignments]
  | cons e m ih => rw [assignments_cons, ih]; simp

theorem assignments_skip (f : File) (fs : List File) (m : FileMap) (h : f.name ∉ m.map (·.1)) :
    assignments m (f :: fs) = assignments m fs := by
  induction m with
  | nil => simp [assignments]
  | cons e m ih =>
    simp only [List.map_cons, List.mem_cons, not_or] at h
    rw [assignments_cons, assignments_cons, ih h.2]
    simp [h.1]

theorem assignments_perm_cons (f : File) (fs : List File) (m : FileMap)
    (hf : f.name ∉ fs.map (·.name)) (hm : distinct (m.map (·.1)) = true) :
    (assignments m (f :: fs)).Perm (pathsOf f m ++ assignments m fs) := by
  induction m with
  | nil => simp [assignments, pathsOf, getKey]
  | cons e m ih =>
    obtain ⟨k, ps⟩ := e
    simp only [List.map_cons, distinct_cons] at hm
    by_cases hk : k = f.name
    · subst hk
      have hnone : fs.find? (fun g => g.name = f.name) = none := by
        simp only [List.find?_eq_none, decide_eq_true_eq]
        intro g hg heq
        exact hf (heq ▸ List.mem_map_of_mem hg)
      rw [assignments_cons, assignments_cons, assignments_skip f fs m hm.1]
      simp [pathsOf, getKey, hnone]
    · have hk' : ¬ f.name = k := fun h => hk h.symm
      rw [assignments_cons, assignments_cons]
      simp only [List.find?_cons, hk', decide_false, pathsOf, getKey, hk, if_false]
      refine (List.Perm.append_left _ (ih hm.2)).trans ?_
      simp only [pathsOf]
      exact List.perm_append_comm_assoc _ _ _

theorem assignments_perm (m : FileMap) (files : List File)
    (hm : distinct (m.map (·.1)) = true) (hf : distinct (files.map (·.name)) = true) :
    (assignments m files).Perm (asgM m files) := by
  induction files with
  | nil =>
    simp [assignments_nil_files, asgM]
  | cons f fs ih =>
    simp only [List.map_cons, distinct_cons] at hf
    refine (assignments_perm_cons f fs m hf.1 hm).trans ?_
    simp only [asgM, List.flatMap_cons]
    exact List.Perm.append_left _ (ih hf.2)


theorem getKey_eraseKey {β : Type} (k k' : Str) (m : List (Str × β)) (h : k' ≠ k) :
    getKey k' (eraseKey k m) = getKey k' m := by
  induction m with
  | nil => simp [eraseKey, getKey]
  | cons e m ih =>
    obtain ⟨k0, v⟩ := e
    simp only [eraseKey, List.filter_cons] at ih ⊢
    by_cases h0 : k0 = k
    · subst h0
      have : ¬ k0 = k' := fun h' => h h'.symm
      simp only [ne_eq, not_true_eq_false, decide_false, Bool.false_eq_true, if_false, getKey, this]
      exact ih
    · simp only [ne_eq, h0, not_false_eq_true, decide_true, if_true, getKey]
      by_cases h1 : k0 = k'
      · simp [h1]
      · simp only [h1, if_false]; exact ih

theorem asgM_erase (k : Str) (m : FileMap) (fs : List File) (h : k ∉ fs.map (·.name)) :
    asgM (eraseKey k m) fs = asgM m fs := by
  induction fs with
  | nil => simp [asgM]
  | cons g fs ih =>
    simp only [List.map_cons, List.mem_cons, not_or] at h
    simp only [asgM, List.flatMap_cons] at ih ⊢
    rw [ih h.2]
    have : g.name ≠ k := fun heq => h.1 heq.symm
    simp only [pathsOf, getKey_eraseKey k g.name m this]

theorem runAsg_append (b : Batch) (l1 l2 : List (File × Str)) :
    runAsg b (l1 ++ l2) = (runAsg b l1).bind (fun b1 => runAsg b1 l2) := by
  simp only [runAsg, List.foldlM_append]
  rfl

theorem runAsg_pathsOf (b : Batch) (f : File) (m : FileMap) :
    runAsg b (pathsOf f m) = match getKey f.name m with
      | some paths => bindPaths Defects.none f b paths
      | none => some b := by
  cases hg : getKey f.name m with
  | none => simp [pathsOf, hg, runAsg]
  | some paths => simp only [pathsOf, hg, runAsg, bindPaths_none_eq_foldlM, List.foldlM_map]

theorem bindFiles_flat (files : List File) (hf : distinct (files.map (·.name)) = true) :
    ∀ (b : Batch) (m : FileMap), (bindFiles Defects.none b m files).map (·.1) = runAsg b (asgM m files) := by
  induction files with
  | nil => intro b m; simp [bindFiles, asgM, runAsg]
  | cons f fs ih =>
    intro b m
    simp only [List.map_cons, distinct_cons] at hf
    have hsplit : asgM m (f :: fs) = pathsOf f m ++ asgM m fs := by simp [asgM]
    rw [hsplit, runAsg_append, runAsg_pathsOf]
    simp only [bindFiles]
    cases hg : getKey f.name m with
    | none => simpa using ih hf.2 b m
    | some paths =>
      simp only []
      cases bindPaths Defects.none f b paths with
      | none => simp
      | some b1 =>
        have := ih hf.2 b1 (eraseKey f.name m)
        rw [asgM_erase f.name m fs hf.1] at this
        simpa using this

theorem dedup_id (m : FileMap) (h : distinct (m.map (·.1)) = true) : dedup m = m := by
  induction m with
  | nil => simp [dedup]
  | cons e m ih =>
    obtain ⟨k, v⟩ := e
    simp only [List.map_cons, distinct_cons] at h
    have : (getKey k m).isSome = false := by
      cases hg : (getKey k m).isSome with
      | false => rfl
      | true => exact absurd (mem_keys_of_getKey k m hg) h.1
    simp [dedup, this, ih h.2]


-- ------------------------------------------------------------------ the scan

theorem scan_ops {D : Defects} {o : Opts} {ps : List Part} {st st' : St}
    (h : scan D o st ps = .ok st') :
    (∀ b, (opsParts ps).getLast? = some (some b) → st'.ops = some b) ∧
    (opsParts ps = [] → st'.ops = st.ops) := by
  induction ps generalizing st with
  | nil => simp [scan] at h; subst h; simp [opsParts]
  | cons p ps ih =>
    cases p with
    | map b n =>
      simp only [scan] at h
      split at h
      · cases h
      · split at h
        · cases h
        · simpa [opsParts] using ih h
    | ops m0 n =>
      simp only [scan] at h
      split at h
      · cases h
      · split at h
        · cases h
        · rename_i m1
          have := ih h
          refine ⟨?_, by simp [opsParts]⟩
          intro m hm
          cases hmp : opsParts ps with
          | nil =>
            simp [opsParts, hmp] at hm
            subst hm
            simpa using this.2 hmp
          | cons a r =>
            simp only [opsParts, hmp, List.getLast?_cons_cons] at hm
            exact this.1 m (by rw [hmp]; exact hm)
    | file f =>
      simp only [scan] at h
      split at h
      · cases h
      · split at h
        · cases h
        · simpa [opsParts] using ih h
    | other n =>
      simp only [scan] at h
      split at h
      · cases h
      · simpa [opsParts] using ih h

/-- when every `operations`/`map` part decodes and the file parts respect the limits, the loop
    over the parts either goes through or stops at a non-file part larger than `max_file_size` -/
theorem scan_total {o : Opts} {ps : List Part} {st : St}
    (hops : ∀ x ∈ opsParts ps, x ≠ none) (hmaps : ∀ x ∈ mapParts ps, x ≠ none)
    (hcount : ∀ n, o.maxNumFiles = some n → st.files.length + (fileParts ps).length ≤ n)
    (hsize : ∀ s, o.maxFileSize = some s → ∀ f ∈ fileParts ps, f.size ≤ s) :
    (∃ st', scan Defects.none o st ps = .ok st') ∨
    (scan Defects.none o st ps = .error .tooLarge ∧
      ∃ s, o.maxFileSize = some s ∧ ∃ p ∈ ps, (∀ f, p ≠ .file f) ∧ p.size > s) := by
  induction ps generalizing st with
  | nil => exact Or.inl ⟨st, by simp [scan]⟩
  | cons p ps ih =>
    have lift : ∀ {st1 : St}, ((∃ st', scan Defects.none o st1 ps = .ok st') ∨
        (scan Defects.none o st1 ps = .error .tooLarge ∧
          ∃ s, o.maxFileSize = some s ∧ ∃ p ∈ ps, (∀ f, p ≠ .file f) ∧ p.size > s)) →
        ((∃ st', scan Defects.none o st1 ps = .ok st') ∨
        (scan Defects.none o st1 ps = .error .tooLarge ∧
          ∃ s, o.maxFileSize = some s ∧ ∃ q ∈ p :: ps, (∀ f, q ≠ .file f) ∧ q.size > s)) := by
      intro st1 h
      rcases h with h | ⟨h1, s, hs, q, hq, hq2⟩
      · exact Or.inl h
      · exact Or.inr ⟨h1, s, hs, q, List.mem_cons_of_mem _ hq, hq2⟩
    have big : ∀ n, fieldTooBig o n = true → ∃ s, o.maxFileSize = some s ∧ n > s := by
      intro n hn
      simp only [fieldTooBig] at hn
      split at hn
      · rename_i s hs; exact ⟨s, hs, by simpa using hn⟩
      · cases hn
    cases p with
    | ops b n =>
      simp only [scan]
      by_cases hb : fieldTooBig o n = true
      · obtain ⟨s, hs, hgt⟩ := big n hb
        exact Or.inr ⟨by simp [hb], s, hs, _, List.mem_cons_self, by simp, by simpa [Part.size] using hgt⟩
      · cases b with
        | none => exact absurd rfl (hops none (by simp [opsParts]))
        | some b =>
          simp only [hb]
          exact lift (ih (fun x hx => hops x (by simp [opsParts, hx])) (by simpa [mapParts] using hmaps)
            (by simpa [fileParts] using hcount) (by simpa [fileParts] using hsize))
    | map m n =>
      simp only [scan]
      by_cases hb : fieldTooBig o n = true
      · obtain ⟨s, hs, hgt⟩ := big n hb
        exact Or.inr ⟨by simp [hb], s, hs, _, List.mem_cons_self, by simp, by simpa [Part.size] using hgt⟩
      · cases m with
        | none => exact absurd rfl (hmaps none (by simp [mapParts]))
        | some m =>
          simp only [hb]
          exact lift (ih (by simpa [opsParts] using hops) (fun x hx => hmaps x (by simp [mapParts, hx]))
            (by simpa [fileParts] using hcount) (by simpa [fileParts] using hsize))
    | file f =>
      simp only [scan]
      have hc : countExceeded Defects.none o st.files.length = false := by
        simp only [countExceeded, Defects.none]
        cases hn : o.maxNumFiles with
        | none => simp
        | some n =>
          have := hcount n hn
          simp only [fileParts, List.length_cons] at this
          simp; omega
      have hb : fieldTooBig o f.size = false := by
        simp only [fieldTooBig]
        cases hs : o.maxFileSize with
        | none => simp
        | some s =>
          have := hsize s hs f (by simp [fileParts])
          simp; omega
      simp only [hc, hb]
      exact lift (ih (by simpa [opsParts] using hops) (by simpa [mapParts] using hmaps)
        (by intro n hn; have := hcount n hn; simp [fileParts] at this ⊢; omega)
        (fun s hs g hg => hsize s hs g (by simp [fileParts, hg])))
    | other n =>
      simp only [scan]
      by_cases hb : fieldTooBig o n = true
      · obtain ⟨s, hs, hgt⟩ := big n hb
        exact Or.inr ⟨by simp [hb], s, hs, _, List.mem_cons_self, by simp, by simpa [Part.size] using hgt⟩
      · simp only [hb]
        exact lift (ih (by simpa [opsParts] using hops) (by simpa [mapParts] using hmaps)
          (by simpa [fileParts] using hcount) (by simpa [fileParts] using hsize))

end AGV.Lemmas.UploadBind
