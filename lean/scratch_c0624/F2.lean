import AGV.Lemmas.UploadBind
namespace AGV.Lemmas.UploadBind
open AGV.Spec.UploadBind
open AGV.Model.UploadBind

-- ------------------------------------------------------------------ mapExt on lists

theorem mapExtL_eq {α β : Type} (g : α → β) (xs : List (T α)) : mapExtL g xs = xs.map (mapExt g) := by
  induction xs with
  | nil => simp [mapExtL]
  | cons x xs ih => simp [mapExtL, ih]

theorem mapExtM_eq {α β : Type} (g : α → β) (kvs : List (Str × T α)) :
    mapExtM g kvs = kvs.map (fun kv => (kv.1, mapExt g kv.2)) := by
  induction kvs with
  | nil => simp [mapExtM]
  | cons kv r ih => obtain ⟨k, v⟩ := kv; simp [mapExtM, ih]

-- ------------------------------------------------------------------ well-formed variable trees

mutual
/-- every object has pairwise distinct keys; `e = false`: moreover no `ext` leaf occurs -/
def wfT {α : Type} (e : Bool) : T α → Bool
  | .arr xs => wfL e xs
  | .obj kvs => distinct (kvs.map (·.1)) && wfM e kvs
  | .ext _ => e
  | _ => true
def wfL {α : Type} (e : Bool) : List (T α) → Bool
  | [] => true
  | x :: xs => wfT e x && wfL e xs
def wfM {α : Type} (e : Bool) : List (Str × T α) → Bool
  | [] => true
  | (_, v) :: r => wfT e v && wfM e r
end

theorem wfL_iff {α : Type} (e : Bool) (xs : List (T α)) : wfL e xs = true ↔ ∀ x ∈ xs, wfT e x = true := by
  induction xs with
  | nil => simp [wfL]
  | cons x xs ih => simp [wfL, ih]

theorem wfM_iff {α : Type} (e : Bool) (kvs : List (Str × T α)) : wfM e kvs = true ↔ ∀ kv ∈ kvs, wfT e kv.2 = true := by
  induction kvs with
  | nil => simp [wfM]
  | cons kv r ih => obtain ⟨k, v⟩ := kv; simp [wfM, ih]

theorem getKey_mem {β : Type} {k : Str} {kvs : List (Str × β)} {v : β} (h : getKey k kvs = some v) : (k, v) ∈ kvs := by
  induction kvs with
  | nil => simp [getKey] at h
  | cons kv r ih =>
    obtain ⟨k', v'⟩ := kv
    by_cases hk : k' = k
    · simp [getKey, hk] at h; simp [hk, h]
    · simp [getKey, hk] at h; simp [ih h]

theorem getKey_eq_find {β : Type} (k : Str) (kvs : List (Str × β)) :
    getKey k kvs = (kvs.find? (fun kv => kv.1 = k)).map (·.2) := by
  induction kvs with
  | nil => simp [getKey]
  | cons kv r ih =>
    obtain ⟨k', v'⟩ := kv
    by_cases hk : k' = k
    · simp [getKey, hk]
    · simp [getKey, hk, ih]

theorem find_key {β : Type} {k : Str} {kvs : List (Str × β)} {kv : Str × β}
    (h : kvs.find? (fun kv => kv.1 = k) = some kv) : kv.1 = k := by
  have := List.find?_some h
  simpa using this

-- ------------------------------------------------------------------ resolve in a friendlier form

theorem resolve_nil {α : Type} (t : T α) : resolve t [] = some [] := by
  cases t <;> simp [resolve]

theorem resolve_arr {α : Type} (xs : List (T α)) (p : Str) (ps : List Str) :
    resolve (.arr xs) (p :: ps) =
      (parseU32 p).bind (fun i => (xs[i]?).bind (fun v => (resolve v ps).map (fun a => Step.idx i :: a))) := by
  rw [parseU32_eq]
  simp only [resolve]
  cases index? 32 p <;> simp
  rename_i i
  cases xs[i]? <;> simp
  rename_i v
  cases resolve v ps <;> simp

theorem resolve_obj {α : Type} (kvs : List (Str × T α)) (p : Str) (ps : List Str) :
    resolve (.obj kvs) (p :: ps) =
      (getKey p kvs).bind (fun v => (resolve v ps).map (fun a => Step.key p :: a)) := by
  rw [getKey_eq_find]
  simp only [resolve]
  cases List.find? (fun kv => kv.1 = p) kvs <;> simp
  rename_i kv
  cases resolve kv.2 ps <;> simp

theorem resolve_leaf {α : Type} (t : T α) (p : Str) (ps : List Str)
    (h1 : ∀ xs, t ≠ .arr xs) (h2 : ∀ kvs, t ≠ .obj kvs) : resolve t (p :: ps) = none := by
  cases t <;> simp_all [resolve]

end AGV.Lemmas.UploadBind
