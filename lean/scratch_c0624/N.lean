import AGV.Lemmas.UploadBindRefine
import AGV.Props.C24
namespace AGV.Props.C24
open AGV.Spec.UploadBind
open AGV.Model.UploadBind AGV.Lemmas.UploadBind

theorem target_origOf (b : Batch) (p : Str) :
    target (Batch.isSingle b) (Batch.vars b) p = tgtV (Batch.isSingle b) (origOf b) p := by
  rw [target_eq, origOf]
  have : (Batch.vars b).map (fun m => mapExt (fun _ => (none : Option File)) (T.obj m)) =
      ((Batch.vars b).map (fun m => T.obj m)).map (mapExt (fun _ => none)) := by
    simp [List.map_map]
  rw [this, tgtV_mapExt]

/-- the refinement for one body of the specified shape whose variables are well-formed -/
theorem refines_shape (o : Opts) (len : Nat) (parts : List Part) (b : Batch) (m : FileMap)
    (hops : opsParts parts = [some b]) (hmaps : mapParts parts = [some m]) (hwf : wfBatch b = true) :
    match require o parts with
    | .unspecified => True
    | .reject => ∃ e, receive Defects.none o len parts = .error e
    | .accept single reqs =>
      (∃ b, receive Defects.none o len parts = .ok b ∧ Batch.isSingle b = single ∧ b.reqs.map viewReq = reqs) ∨
      (resourceBound o len parts = true ∧ receive Defects.none o len parts = .error .tooLarge) := by
  rw [require_eq o parts b m hops hmaps]
  by_cases c1 : (!(distinct (m.map (·.1))) || !(distinct ((fileParts parts).map (·.name)))) = true
  · simp only [c1, if_true]
  simp only [c1]
  have hdm : distinct (m.map (·.1)) = true := by
    cases h : distinct (m.map (·.1)) <;> simp [h] at c1 ⊢
  have hdf : distinct ((fileParts parts).map (·.name)) = true := by
    cases h : distinct ((fileParts parts).map (·.name)) <;> simp [h] at c1 ⊢
  by_cases c2 : (overCount o (fileParts parts) || overSize o (fileParts parts) || missingFile m (fileParts parts)) = true
  · simp only [c2, if_true]
    simp only [Bool.or_eq_true] at c2
    rcases c2 with c2 | c2
    · exact c24_over_limit_rejected o len parts c2
    · simp only [missingFile, List.any_eq_true, Bool.not_eq_true', List.any_eq_false, decide_eq_true_eq] at c2
      obtain ⟨e, he, hno⟩ := c2
      exact c24_missing_rejected Defects.none o len parts m e.1 (by rw [hmaps]; rfl)
        (List.mem_map_of_mem he) (fun f hf => hno f hf)
  simp only [c2]
  simp only [Bool.or_eq_true, not_or, Bool.not_eq_true] at c2
  obtain ⟨⟨hcnt, hsz⟩, hmiss⟩ := c2
  have hshape := receive_shape o len parts b m hops hmaps hdm hcnt hsz
  have hperm := assignments_perm m (fileParts parts) hdm hdf
  have hflat := bindFiles_flat (fileParts parts) hdf b m
  have hinit := BInv_init b hwf
  by_cases c3 : ((assignments m (fileParts parts)).map (fun fp => (fp.1, target (Batch.isSingle b) (Batch.vars b) fp.2))).any (fun t => t.2.isNone) = true
  · simp only [c3, if_true]
    rcases hshape with ⟨h, _⟩ | h
    · exact ⟨_, h⟩
    · rw [h]
      cases hbf : bindFiles Defects.none b m (fileParts parts) with
      | none => exact ⟨_, rfl⟩
      | some bm =>
        obtain ⟨b', m'⟩ := bm
        exfalso
        rw [hbf] at hflat
        simp only [Option.map_some] at hflat
        have hs := runAsg_sound (Batch.isSingle b) (origOf b) _ b b' [] (by simpa using hinit) hflat.symm
        simp only [List.any_eq_true, List.mem_map] at c3
        obtain ⟨t, ⟨fp, hfp, rfl⟩, hnone⟩ := c3
        have := hs fp (hperm.mem_iff.mp hfp)
        rw [← target_origOf] at this
        simp at hnone
        exact this hnone
  simp only [c3]
  by_cases c4 : (!(pairwise okPair (((assignments m (fileParts parts)).map (fun fp => (fp.1, target (Batch.isSingle b) (Batch.vars b) fp.2))).filterMap (fun t => t.2.map (fun a => (t.1, a)))))) = true
  · rw [if_pos c4]; exact trivial
  rw [if_neg c4]
  rcases hshape with ⟨h1, h2⟩ | h
  · exact Or.inr ⟨h2, h1⟩
  left
  -- the bindings in the order of the map (reference) and in the order of the file parts (model)
  let tg (l : List (File × Str)) : List (File × Option (Nat × Addr)) :=
    l.map (fun fp => (fp.1, target (Batch.isSingle b) (Batch.vars b) fp.2))
  let tsOf (l : List (File × Str)) : List Tgt := (tg l).filterMap (fun t => t.2.map (fun a => (t.1, a)))
  have hpermT : (tsOf (assignments m (fileParts parts))).Perm (tsOf (asgM m (fileParts parts))) :=
    (hperm.map _).filterMap _
  have hpw : (tsOf (assignments m (fileParts parts))).Pairwise (fun x y => okPair x y = true) := by
    rw [← pairwise_iff]
    cases hp : pairwise okPair (tsOf (assignments m (fileParts parts))) with
    | true => rfl
    | false =>
      exfalso; apply c4
      show (!pairwise okPair (tsOf (assignments m (fileParts parts)))) = true
      rw [hp]; rfl
  have hpwM : (tsOf (asgM m (fileParts parts))).Pairwise (fun x y => okPair x y = true) :=
    (List.Perm.pairwise_iff (fun {x y} h => okPair_symm x y h) hpermT).mp hpw
  have hallM : ∀ t ∈ tg (asgM m (fileParts parts)), t.2 ≠ none := by
    intro t ht hnone
    apply c3
    simp only [List.any_eq_true]
    obtain ⟨fp, hfp, rfl⟩ := List.mem_map.mp ht
    exact ⟨_, List.mem_map.mpr ⟨fp, hperm.mem_iff.mpr hfp, rfl⟩, by rw [show (fp.1, target (Batch.isSingle b) (Batch.vars b) fp.2).2 = none from hnone]; rfl⟩
  have hmapM : (asgM m (fileParts parts)).map (fun fp => (fp.1, tgtV (Batch.isSingle b) (origOf b) fp.2)) =
      (tsOf (asgM m (fileParts parts))).map (fun t => (t.1, some t.2)) := by
    have := all_some_map (tg (asgM m (fileParts parts))) hallM
    simp only [tg, target_origOf] at this
    simp only [tsOf, tg, target_origOf]
    exact this
  obtain ⟨b', hrun, hfin⟩ := runAsg_complete (Batch.isSingle b) (origOf b) _ _ b [] (by simpa using hinit) hmapM
    (by simpa using hpwM)
  -- the two orders give the same bindings
  have hfold : (tsOf (asgM m (fileParts parts))).foldl stepS (origOf b) =
      (tsOf (assignments m (fileParts parts))).foldl stepS (origOf b) := by
    symm
    apply List.Perm.foldl_eq' hpermT
    intro x hx y hy z
    rcases pairwise_mem okPair_symm hpw x hx y hy with rfl | hxy
    · rfl
    · exact stepS_comm z x y hxy
  simp only [List.nil_append] at hfin
  rw [hfold] at hfin
  -- the model's verdict
  rw [hrun] at hflat
  cases hbf : bindFiles Defects.none b m (fileParts parts) with
  | none => simp [hbf] at hflat
  | some bm =>
    obtain ⟨b1, m'⟩ := bm
    simp only [hbf, Option.map_some, Option.some.injEq] at hflat
    subst hflat
    have hrest := bindFiles_rest hbf
    have hempty : m' = [] := by
      rw [hrest, List.filter_eq_nil_iff]
      intro e he hall
      simp only [missingFile, List.any_eq_false] at hmiss
      have := hmiss e he
      simp only [Bool.not_eq_true', Bool.not_eq_false] at this
      obtain ⟨f, hf, hname⟩ := List.any_eq_true.mp this
      have := (List.all_eq_true.mp hall) f hf
      simp at hname this
      exact this hname
    refine ⟨b1, ?_, hfin.1, ?_⟩
    · rw [h, hbf]; simp [hempty]
    · exact BInv_final hfin

end AGV.Props.C24
