import AGV.Lemmas.UploadBindRun
namespace AGV.Lemmas.UploadBind
open AGV.Spec.UploadBind
open AGV.Model.UploadBind

theorem stepS_comm (z : List VT) (x y : Tgt) (h : okPair x y = true) :
    stepS (stepS z x) y = stepS (stepS z y) x := by
  obtain ⟨f, n, a⟩ := x
  obtain ⟨g, m, b⟩ := y
  simp only [okPair, Bool.or_eq_true, decide_eq_true_eq] at h
  by_cases hnm : n = m
  · subst hnm
    have hind : independent a b = true := by
      rcases h with h | h
      · exact absurd rfl h
      · exact h
    have hind' : independent b a = true := by
      simp only [independent, Bool.and_eq_true] at hind ⊢; exact ⟨hind.2, hind.1⟩
    simp only [stepS]
    cases hv : z[n]? with
    | none => simp [hv]
    | some v =>
      have hlt : n < z.length := (List.getElem?_eq_some_iff.mp hv).1
      simp [hlt, put_comm _ _ v b a hind']
  · have hmn : ¬ m = n := fun h' => hnm h'.symm
    simp only [stepS]
    cases hv : z[n]? with
    | none =>
      cases hw : z[m]? with
      | none => simp [hv]
      | some w => simp [hv, hmn]
    | some v =>
      cases hw : z[m]? with
      | none => simp [hv, hw, hnm]
      | some w =>
        simp [hv, hw, hnm, hmn]
        exact List.set_comm _ _ hnm

theorem pairwise_mem {β : Type} {R : β → β → Prop} (S : ∀ x y, R x y → R y x) {l : List β}
    (h : l.Pairwise R) : ∀ x ∈ l, ∀ y ∈ l, x = y ∨ R x y := by
  induction l with
  | nil => intro x hx; simp at hx
  | cons a l ih =>
    rw [List.pairwise_cons] at h
    intro x hx y hy
    rcases List.mem_cons.mp hx with hxa | hxl
    · rcases List.mem_cons.mp hy with hya | hyl
      · exact Or.inl (hxa.trans hya.symm)
      · exact Or.inr (hxa ▸ h.1 y hyl)
    · rcases List.mem_cons.mp hy with hya | hyl
      · exact Or.inr (S _ _ (hya ▸ h.1 x hxl))
      · exact ih h.2 x hxl y hyl

theorem pairwise_iff {β : Type} (r : β → β → Bool) (l : List β) :
    pairwise r l = true ↔ l.Pairwise (fun x y => r x y = true) := by
  induction l with
  | nil => simp [pairwise]
  | cons a l ih => simp [pairwise, ih]

theorem all_some_map {β γ : Type} (l : List (β × Option γ)) (h : ∀ t ∈ l, t.2 ≠ none) :
    l = (l.filterMap (fun t => t.2.map (fun a => (t.1, a)))).map (fun t => (t.1, some t.2)) := by
  induction l with
  | nil => simp
  | cons t l ih =>
    obtain ⟨x, o⟩ := t
    cases o with
    | none => exact absurd rfl (h (x, none) (by simp))
    | some a =>
      simp only [List.filterMap_cons, Option.map_some, List.map_cons, List.cons.injEq, true_and]
      exact ih (fun t ht => h t (by simp [ht]))

/-- `Spec.require` on a body with exactly one decodable `operations` and one valid `map` part -/
theorem require_eq (o : Opts) (parts : List Part) (b : Batch) (m : FileMap)
    (hops : opsParts parts = [some b]) (hmaps : mapParts parts = [some m]) :
    require o parts =
      if (!(distinct (m.map (·.1))) || !(distinct ((fileParts parts).map (·.name)))) = true then .unspecified
      else if (overCount o (fileParts parts) || overSize o (fileParts parts) || missingFile m (fileParts parts)) = true then .reject
      else if ((assignments m (fileParts parts)).map (fun fp => (fp.1, target (Batch.isSingle b) (Batch.vars b) fp.2))).any (fun t => t.2.isNone) = true then .reject
      else if (!(pairwise okPair (((assignments m (fileParts parts)).map (fun fp => (fp.1, target (Batch.isSingle b) (Batch.vars b) fp.2))).filterMap (fun t => t.2.map (fun a => (t.1, a)))))) = true then .unspecified
      else .accept (Batch.isSingle b)
        (((((assignments m (fileParts parts)).map (fun fp => (fp.1, target (Batch.isSingle b) (Batch.vars b) fp.2))).filterMap (fun t => t.2.map (fun a => (t.1, a)))).foldl stepS (origOf b)).map
          (fun t => match t with | .obj kvs => kvs | _ => [])) := by
  simp only [require, hops, hmaps]
  rfl

/-- the model on such a body, when the file parts respect the limits -/
theorem receive_shape (o : Opts) (len : Nat) (parts : List Part) (b : Batch) (m : FileMap)
    (hops : opsParts parts = [some b]) (hmaps : mapParts parts = [some m])
    (hdm : distinct (m.map (·.1)) = true)
    (hcount : overCount o (fileParts parts) = false) (hsize : overSize o (fileParts parts) = false) :
    (receive Defects.none o len parts = .error .tooLarge ∧ resourceBound o len parts = true) ∨
    receive Defects.none o len parts =
      (match bindFiles Defects.none b m (fileParts parts) with
        | none => .error .invalidFilesMap
        | some (b', m') => if m'.isEmpty then .ok b' else .error .missingFiles) := by
  simp only [receive]
  by_cases hst : streamTooBig o len = true
  · left
    refine ⟨by simp [hst], ?_⟩
    simp only [streamTooBig] at hst
    split at hst
    · rename_i s n hs hn
      simp [resourceBound, hs, hn] at hst ⊢
      exact Or.inr hst
    · cases hst
  · simp only [hst]
    have htot := scan_total (o := o) (ps := parts) (st := {})
      (by rw [hops]; simp) (by rw [hmaps]; simp)
      (by
        intro n hn
        simp only [overCount, hn] at hcount
        simpa using hcount)
      (by
        intro s hs f hf
        simp only [overSize, hs] at hsize
        have := (List.any_eq_false.mp hsize) f hf
        simpa using this)
    rcases htot with ⟨st, hscan⟩ | ⟨hscan, s, hs, p, hp, hnf, hgt⟩
    · right
      have hfiles := scan_files hscan
      have hmap := (scan_map hscan).1 m (by rw [hmaps]; rfl)
      have hop := (scan_ops hscan).1 b (by rw [hops]; rfl)
      simp at hfiles
      simp only [hscan, hop, hmap, hfiles, dedup_id m hdm]
      rfl
    · left
      refine ⟨by simp [hscan], ?_⟩
      simp only [resourceBound, hs, Bool.or_eq_true, List.any_eq_true]
      left
      refine ⟨p, hp, ?_⟩
      cases p with
      | file f => exact absurd rfl (hnf f)
      | ops _ _ => simpa using hgt
      | map _ _ => simpa using hgt
      | other _ => simpa using hgt

end AGV.Lemmas.UploadBind
