/-
  C24 — multipart uploads bind files exactly as mapped and respect limits.
  Property theorems only (helper lemmas live in AGV/Lemmas/UploadBind.lean).  All theorems are
  about the model with no defect toggle (`Defects.none`) unless the toggle is named.

  Limits: an accepted body has at most `max_num_files` file parts, none larger than `max_file_size`
  OBLIGATION c24_limits
  OBLIGATION c24_over_limit_rejected
  Missing files: every key of the (last) map part names a file part of an accepted body
  OBLIGATION c24_missing
  OBLIGATION c24_missing_rejected
  Binding: a path that is set reads back as the marker of the file that was pushed, older uploads stay
  OBLIGATION c24_bind_step
  OBLIGATION c24_paths_all_resolve
  OBLIGATION c24_unresolvable_rejected
  Witnesses of the defect toggles (the reference semantics rejects, the pinned behaviour accepts)
  OBLIGATION c24_limits_violated_by_byte_budget
  OBLIGATION c24_bind_violated_by_ignored_path
  OPEN c24_refines_spec
-/
import AGV.Lemmas.UploadBindRefine

namespace AGV.Props.C24
open AGV.Spec.UploadBind
open AGV.Model.UploadBind AGV.Lemmas.UploadBind

/-- an accepted body respects both limits, counted in file parts and in bytes per file part —
    whatever the order of the parts, whether or not the files are named by the map -/
theorem c24_limits (o : Opts) (len : Nat) (parts : List Part) (b : Batch)
    (h : receive Defects.none o len parts = .ok b) :
    (∀ n, o.maxNumFiles = some n → (fileParts parts).length ≤ n) ∧
    (∀ s, o.maxFileSize = some s → ∀ f ∈ fileParts parts, f.size ≤ s) := by
  simp only [receive] at h
  split at h
  · cases h
  · split at h
    · cases h
    · rename_i st hst
      have hf := scan_files hst
      have hl := scan_limits hst
      simp at hf
      refine ⟨?_, hl.1⟩
      intro n hn
      have := hl.2 n hn (by simp)
      rwa [hf] at this

/-- the same as a rejection: too many file parts, or one too large, is never accepted -/
theorem c24_over_limit_rejected (o : Opts) (len : Nat) (parts : List Part)
    (h : overCount o (fileParts parts) = true ∨ overSize o (fileParts parts) = true) :
    ∃ e, receive Defects.none o len parts = .error e := by
  cases hr : receive Defects.none o len parts with
  | error e => exact ⟨e, rfl⟩
  | ok b =>
    exfalso
    have hl := c24_limits o len parts b hr
    rcases h with h | h
    · simp only [overCount] at h
      split at h
      · rename_i n hn
        have := hl.1 n hn
        simp at h; omega
      · cases h
    · simp only [overSize] at h
      split at h
      · rename_i s hs
        simp only [List.any_eq_true, decide_eq_true_eq] at h
        obtain ⟨f, hf, hgt⟩ := h
        have := hl.2 s hs f hf
        omega
      · cases h

example : ∃ o len parts b, receive Defects.none o len parts = .ok b ∧ o.maxNumFiles = some 1 ∧ (fileParts parts).length = 1 :=
  ⟨⟨some 5, some 1⟩, 5,
   [.file ⟨['0'], ['a'], none, ['x'], 1, 0⟩, .ops (some (.single ⟨[(['a'], .null)], []⟩)) 5,
    .map (some [(['0'], [['v','a','r','i','a','b','l','e','s','.','a']])]) 5], _, rfl, rfl, rfl⟩

/-- accepted ⇒ every key of the map part (the last one, as the implementation keeps it) names a
    file part; holds with and without the defect toggles -/
theorem c24_missing (D : Defects) (o : Opts) (len : Nat) (parts : List Part) (b : Batch) (m : FileMap)
    (h : receive D o len parts = .ok b) (hm : (mapParts parts).getLast? = some (some m)) :
    ∀ k ∈ m.map (·.1), ∃ f ∈ fileParts parts, f.name = k := by
  intro k hk
  simp only [receive] at h
  split at h
  · cases h
  · split at h
    · cases h
    · rename_i st hst
      have hf := scan_files hst
      have hmap := (scan_map hst).1 m hm
      simp at hf
      split at h
      · cases h
      · split at h
        · cases h
        · rename_i m0 hm0
          split at h
          · cases h
          · rename_i b' m' hb
            split at h
            · rename_i hempty
              have hrest := bindFiles_rest hb
              rw [hm0] at hmap
              cases hmap
              have hk' : k ∈ (dedup m).map (·.1) := (dedup_keys m k).mpr hk
              obtain ⟨e, he, hek⟩ := List.mem_map.mp hk'
              -- e is not in the rest, so some file has its key
              have hnot : e ∉ m' := by
                have : m' = [] := by simpa using hempty
                simp [this]
              by_cases hx : ∃ f ∈ st.files, f.name = e.1
              · obtain ⟨f, hfm, hne⟩ := hx
                exact ⟨f, hf ▸ hfm, by rw [hne, hek]⟩
              · exfalso
                apply hnot
                rw [hrest]
                apply List.mem_filter.mpr
                refine ⟨he, ?_⟩
                simp only [List.all_eq_true, decide_eq_true_eq]
                intro f hfm heq
                exact hx ⟨f, hfm, heq⟩
            · cases h

/-- a map entry without a matching file part ⇒ the body is rejected -/
theorem c24_missing_rejected (D : Defects) (o : Opts) (len : Nat) (parts : List Part) (m : FileMap) (k : Str)
    (hm : (mapParts parts).getLast? = some (some m)) (hk : k ∈ m.map (·.1))
    (hno : ∀ f ∈ fileParts parts, f.name ≠ k) :
    ∃ e, receive D o len parts = .error e := by
  cases hr : receive D o len parts with
  | error e => exact ⟨e, rfl⟩
  | ok b =>
    obtain ⟨f, hf, hname⟩ := c24_missing D o len parts b m hr hm k hk
    exact absurd hname (hno f hf)

/-- one `set_upload` that finds its variable: the path reads back as the marker of exactly the
    upload that was pushed, which is the given file; uploads pushed before keep their index -/
theorem c24_bind_step (r r' : Req) (path : Str) (f : File) (h : setUpload r path f = some r') :
    ∃ parts, pathParts path = some parts ∧
      getAt (.obj r'.vars) parts = some (.ext r.uploads.length) ∧
      r'.uploads[r.uploads.length]? = some f ∧
      ∀ k, k < r.uploads.length → r'.uploads[k]? = r.uploads[k]? := by
  simp only [setUpload] at h
  split at h
  · cases h
  · rename_i parts hp
    split at h
    · cases h
    · rename_i t ht
      cases h
      refine ⟨parts, hp, ?_, by simp, ?_⟩
      · have hne : parts ≠ [] := by
          simp only [pathParts] at hp
          cases hs : stripPrefix variablesDot path with
          | none => simp [hs] at hp
          | some rest => simp [hs] at hp; rw [← hp]; exact splitDot_ne_nil rest
        cases parts with
        | nil => exact absurd rfl hne
        | cons p ps =>
          obtain ⟨kvs', rfl⟩ := setAt_obj _ _ _ _ _ ht
          simpa [membersOf] using getAt_setAt _ _ _ _ ht
      · intro k hk
        simp [List.getElem?_append_left hk]

example : ∃ r r' path f, setUpload r path f = some r' :=
  ⟨⟨[(['a'], .arr [.null, .null])], []⟩, _, ['v','a','r','i','a','b','l','e','s','.','a','.','1'],
   ⟨['0'], ['a'], none, ['x'], 1, 0⟩, rfl⟩

/-- with the repaired behaviour the paths of an entry are bound one after the other and each of
    them must address a variable: the entry is bound to all of its paths or the body is rejected -/
theorem c24_paths_all_resolve (f : File) (b b' : Batch) (ps : List Str) :
    bindPaths Defects.none f b ps = some b' ↔ ps.foldlM (fun b p => bindPath b p f) b = some b' := by
  rw [bindPaths_none_eq_foldlM]

/-- a first path that addresses nothing rejects the entry -/
theorem c24_unresolvable_rejected (f : File) (b : Batch) (p : Str) (ps : List Str)
    (h : bindPath b p f = none) : bindPaths Defects.none f b (p :: ps) = none := by
  simp [bindPaths, h, Defects.none]

-- ------------------------------------------------------------------ witnesses

def vA : Str := ['v','a','r','i','a','b','l','e','s','.','a']
def vB : Str := ['v','a','r','i','a','b','l','e','s','.','b']
def vNope : Str := ['v','a','r','i','a','b','l','e','s','.','n','o','p','e']
def file (n : Char) (pid : Nat) : File := ⟨[n], ['f'], none, ['x'], 1, pid⟩
def opsAB : Part := .ops (some (.single ⟨[(['a'], .null), (['b'], .null)], []⟩)) 40

/-- `max_num_files = 1`, two files of one byte each: the reference semantics rejects, the pinned
    behaviour (file count only used as a byte budget) accepts and binds both -/
theorem c24_limits_violated_by_byte_budget :
    ∃ o len parts,
      (match require o parts with | .reject => true | _ => false) = true ∧
      (match receive Defects.none o len parts with | .error _ => true | .ok _ => false) = true ∧
      (match receive { numFilesNotCounted := true } o len parts with
        | .ok (.single r) => r.uploads.length == 2 | _ => false) = true :=
  ⟨⟨some 1000, some 1⟩, 600,
   [opsAB, .map (some [(['0'], [vA]), (['1'], [vB])]) 40, .file (file '0' 2), .file (file '1' 3)],
   by decide, by decide, by decide⟩

/-- a map path that addresses no variable: the reference semantics rejects, the pinned behaviour
    accepts the body and silently drops the file (no upload, variables unchanged) -/
theorem c24_bind_violated_by_ignored_path :
    ∃ o len parts,
      (match require o parts with | .reject => true | _ => false) = true ∧
      (match receive Defects.none o len parts with | .error _ => true | .ok _ => false) = true ∧
      (match receive { ignoreUnresolvable := true } o len parts with
        | .ok (.single r) => r.uploads.length == 0 | _ => false) = true :=
  ⟨⟨none, none⟩, 400,
   [opsAB, .map (some [(['0'], [vNope])]) 40, .file (file '0' 2)],
   by decide, by decide, by decide⟩

/-- The refinement as first stated, for ALL part lists.  It is FALSE (see
    `c24_refines_spec_false_duplicate_keys`, `c24_refines_spec_false_marker`): `Spec.require` does not
    look at the shape of the decoded variables, the model's documented assumptions (objects with
    pairwise distinct keys, no `#__graphql_file__:` marker in the original variables) are needed.
    The corrected statement is `c24_refines_spec_wf`. -/
def c24_refines_spec : Prop :=
  ∀ (o : Opts) (len : Nat) (parts : List Part),
    match require o parts with
    | .unspecified => True
    | .reject => ∃ e, receive Defects.none o len parts = .error e
    | .accept single reqs =>
      (∃ b, receive Defects.none o len parts = .ok b ∧ Batch.isSingle b = single ∧ b.reqs.map viewReq = reqs) ∨
      (resourceBound o len parts = true ∧ receive Defects.none o len parts = .error .tooLarge)

-- ------------------------------------------------------------------ the frame lemma

/-- Frame lemma for `set_upload`: on a tree whose objects have distinct keys, two sequential
    `setAt`s along paths that resolve to independent addresses (neither a prefix of the other)
    both succeed — the first does not disturb what the second path addresses — and the result is
    the substitution of the reference semantics at both addresses, in either order. -/
theorem c24_frame {α : Type} (x y t : T α) (ps qs : List Str) (a b : Addr)
    (hw : wfT true t = true) (hy : wfT true y = true)
    (ha : resolve t ps = some a) (hb : resolve t qs = some b) (hi : independent a b = true) :
    (setAt y t qs).bind (fun t1 => setAt x t1 ps) = some (put x (put y t b) a) ∧
    put x (put y t b) a = put y (put x t a) b := by
  refine ⟨?_, put_comm x y t a b hi⟩
  have hba : b.isPrefixOf a = false := by
    simp only [independent, Bool.and_eq_true, Bool.not_eq_true'] at hi; exact hi.2
  rw [setAt_eq_put y t qs hw, hb]
  simp only [Option.map_some, Option.bind_some]
  rw [setAt_eq_put x _ ps (wfT_put y t b hy hw), resolve_put_fwd y t b ps a ha hba]
  rfl

example : ∃ (t : T Nat) (ps qs : List Str) (a b : Addr), wfT true t = true ∧
    resolve t ps = some a ∧ resolve t qs = some b ∧ independent a b = true :=
  ⟨.obj [(['a'], .arr [.null, .null]), (['b'], .null)], [['a'], ['1']], [['b']], _, _, by decide, rfl, rfl, by decide⟩

-- ------------------------------------------------------------------ refinement of the reference semantics

/-- the documented assumptions on the decoded `operations` part(s): no upload marker in the
    variables, every object with pairwise distinct keys -/
def wfParts (parts : List Part) : Bool :=
  (opsParts parts).all (fun ob => match ob with
    | some b => wfBatch b
    | none => true)

private theorem target_origOf (b : Batch) (p : Str) :
    target (Batch.isSingle b) (Batch.vars b) p = tgtV (Batch.isSingle b) (origOf b) p := by
  rw [target_eq, origOf]
  have : (Batch.vars b).map (fun m => mapExt (fun _ => (none : Option File)) (T.obj m)) =
      ((Batch.vars b).map (fun m => T.obj m)).map (mapExt (fun _ => none)) := by
    simp [List.map_map]
  rw [this, tgtV_mapExt]

/-- the refinement for one body of the specified shape whose variables are well-formed -/
private theorem refines_shape (o : Opts) (len : Nat) (parts : List Part) (b : Batch) (m : FileMap)
    (hops : opsParts parts = [some b]) (hmaps : mapParts parts = [some m]) (hwf : wfBatch b = true) :
    match require o parts with
    | .unspecified => True
    | .reject => ∃ e, receive Defects.none o len parts = .error e
    | .accept single reqs =>
      (∃ b, receive Defects.none o len parts = .ok b ∧ Batch.isSingle b = single ∧ b.reqs.map viewReq = reqs) ∨
      (resourceBound o len parts = true ∧ receive Defects.none o len parts = .error .tooLarge) := by
  rw [require_eq o parts b m hops hmaps]
  by_cases c1 : (!(distinct (m.map (·.1))) || !(distinct ((fileParts parts).map (·.name)))) = true
  · simp only [c1, if_true]
  simp only [c1]
  have hdm : distinct (m.map (·.1)) = true := by
    cases h : distinct (m.map (·.1)) <;> simp [h] at c1 ⊢
  have hdf : distinct ((fileParts parts).map (·.name)) = true := by
    cases h : distinct ((fileParts parts).map (·.name)) <;> simp [h] at c1 ⊢
  by_cases c2 : (overCount o (fileParts parts) || overSize o (fileParts parts) || missingFile m (fileParts parts)) = true
  · simp only [c2, if_true]
    simp only [Bool.or_eq_true] at c2
    rcases c2 with c2 | c2
    · exact c24_over_limit_rejected o len parts c2
    · simp only [missingFile, List.any_eq_true, Bool.not_eq_true', List.any_eq_false, decide_eq_true_eq] at c2
      obtain ⟨e, he, hno⟩ := c2
      exact c24_missing_rejected Defects.none o len parts m e.1 (by rw [hmaps]; rfl)
        (List.mem_map_of_mem he) (fun f hf => hno f hf)
  simp only [c2]
  simp only [Bool.or_eq_true, not_or, Bool.not_eq_true] at c2
  obtain ⟨⟨hcnt, hsz⟩, hmiss⟩ := c2
  have hshape := receive_shape o len parts b m hops hmaps hdm hcnt hsz
  have hperm := assignments_perm m (fileParts parts) hdm hdf
  have hflat := bindFiles_flat (fileParts parts) hdf b m
  have hinit := BInv_init b hwf
  by_cases c3 : ((assignments m (fileParts parts)).map (fun fp => (fp.1, target (Batch.isSingle b) (Batch.vars b) fp.2))).any (fun t => t.2.isNone) = true
  · simp only [c3, if_true]
    rcases hshape with ⟨h, _⟩ | h
    · exact ⟨_, h⟩
    · rw [h]
      cases hbf : bindFiles Defects.none b m (fileParts parts) with
      | none => exact ⟨_, rfl⟩
      | some bm =>
        obtain ⟨b', m'⟩ := bm
        exfalso
        rw [hbf] at hflat
        simp only [Option.map_some] at hflat
        have hs := runAsg_sound (Batch.isSingle b) (origOf b) _ b b' [] (by simpa using hinit) hflat.symm
        simp only [List.any_eq_true, List.mem_map] at c3
        obtain ⟨t, ⟨fp, hfp, rfl⟩, hnone⟩ := c3
        have := hs fp (hperm.mem_iff.mp hfp)
        rw [← target_origOf] at this
        simp at hnone
        exact this hnone
  simp only [c3]
  by_cases c4 : (!(pairwise okPair (((assignments m (fileParts parts)).map (fun fp => (fp.1, target (Batch.isSingle b) (Batch.vars b) fp.2))).filterMap (fun t => t.2.map (fun a => (t.1, a)))))) = true
  · rw [if_pos c4]; exact trivial
  rw [if_neg c4]
  rcases hshape with ⟨h1, h2⟩ | h
  · exact Or.inr ⟨h2, h1⟩
  left
  -- the bindings in the order of the map (reference) and in the order of the file parts (model)
  let tg (l : List (File × Str)) : List (File × Option (Nat × Addr)) :=
    l.map (fun fp => (fp.1, target (Batch.isSingle b) (Batch.vars b) fp.2))
  let tsOf (l : List (File × Str)) : List Tgt := (tg l).filterMap (fun t => t.2.map (fun a => (t.1, a)))
  have hpermT : (tsOf (assignments m (fileParts parts))).Perm (tsOf (asgM m (fileParts parts))) :=
    (hperm.map _).filterMap _
  have hpw : (tsOf (assignments m (fileParts parts))).Pairwise (fun x y => okPair x y = true) := by
    rw [← pairwise_iff]
    cases hp : pairwise okPair (tsOf (assignments m (fileParts parts))) with
    | true => rfl
    | false =>
      exfalso; apply c4
      show (!pairwise okPair (tsOf (assignments m (fileParts parts)))) = true
      rw [hp]; rfl
  have hpwM : (tsOf (asgM m (fileParts parts))).Pairwise (fun x y => okPair x y = true) :=
    (List.Perm.pairwise_iff (fun {x y} h => okPair_symm x y h) hpermT).mp hpw
  have hallM : ∀ t ∈ tg (asgM m (fileParts parts)), t.2 ≠ none := by
    intro t ht hnone
    apply c3
    simp only [List.any_eq_true]
    obtain ⟨fp, hfp, rfl⟩ := List.mem_map.mp ht
    exact ⟨_, List.mem_map.mpr ⟨fp, hperm.mem_iff.mpr hfp, rfl⟩, by rw [show (fp.1, target (Batch.isSingle b) (Batch.vars b) fp.2).2 = none from hnone]; rfl⟩
  have hmapM : (asgM m (fileParts parts)).map (fun fp => (fp.1, tgtV (Batch.isSingle b) (origOf b) fp.2)) =
      (tsOf (asgM m (fileParts parts))).map (fun t => (t.1, some t.2)) := by
    have := all_some_map (tg (asgM m (fileParts parts))) hallM
    simp only [tg, target_origOf] at this
    simp only [tsOf, tg, target_origOf]
    exact this
  obtain ⟨b', hrun, hfin⟩ := runAsg_complete (Batch.isSingle b) (origOf b) _ _ b [] (by simpa using hinit) hmapM
    (by simpa using hpwM)
  -- the two orders give the same bindings
  have hfold : (tsOf (asgM m (fileParts parts))).foldl stepS (origOf b) =
      (tsOf (assignments m (fileParts parts))).foldl stepS (origOf b) := by
    symm
    apply List.Perm.foldl_eq' hpermT
    intro x hx y hy z
    rcases pairwise_mem okPair_symm hpw x hx y hy with rfl | hxy
    · rfl
    · exact stepS_comm z x y hxy
  simp only [List.nil_append] at hfin
  rw [hfold] at hfin
  -- the model's verdict
  rw [hrun] at hflat
  cases hbf : bindFiles Defects.none b m (fileParts parts) with
  | none => simp [hbf] at hflat
  | some bm =>
    obtain ⟨b1, m'⟩ := bm
    simp only [hbf, Option.map_some, Option.some.injEq] at hflat
    subst hflat
    have hrest := bindFiles_rest hbf
    have hempty : m' = [] := by
      rw [hrest, List.filter_eq_nil_iff]
      intro e he hall
      simp only [missingFile, List.any_eq_false] at hmiss
      have := hmiss e he
      simp only [Bool.not_eq_true', Bool.not_eq_false] at this
      obtain ⟨f, hf, hname⟩ := List.any_eq_true.mp this
      have := (List.all_eq_true.mp hall) f hf
      simp at hname this
      exact this hname
    refine ⟨b1, ?_, hfin.1, ?_⟩
    · rw [h, hbf]; simp [hempty]
    · exact BInv_final hfin


/-- Full refinement of the reference semantics, under the model's documented assumptions on the
    decoded variables (`wfParts`).  Whenever `Spec.require` determines the outcome, the repaired
    model produces it: `reject` ⇒ an error; `accept single reqs` ⇒ either the body is accepted with
    exactly these bindings (every addressed node holds its file, everything else unchanged; the
    order in which the model binds — file parts in arrival order, resolving each path in the
    already modified variables — does not matter) or it is refused as too large within
    `resourceBound`. -/
theorem c24_refines_spec_wf (o : Opts) (len : Nat) (parts : List Part) (hwf : wfParts parts = true) :
    match require o parts with
    | .unspecified => True
    | .reject => ∃ e, receive Defects.none o len parts = .error e
    | .accept single reqs =>
      (∃ b, receive Defects.none o len parts = .ok b ∧ Batch.isSingle b = single ∧ b.reqs.map viewReq = reqs) ∨
      (resourceBound o len parts = true ∧ receive Defects.none o len parts = .error .tooLarge) := by
  by_cases hshape : ∃ b m, opsParts parts = [some b] ∧ mapParts parts = [some m]
  · obtain ⟨b, m, hops, hmaps⟩ := hshape
    have hb : wfBatch b = true := by
      simp only [wfParts, hops, List.all_cons, List.all_nil, Bool.and_true] at hwf
      exact hwf
    exact refines_shape o len parts b m hops hmaps hb
  · have : require o parts = .unspecified := by
      simp only [require]
      split
      · rename_i b m h1 h2; exact absurd ⟨b, m, h1, h2⟩ hshape
      · rfl
    rw [this]
    exact trivial

/-- a non-trivial body satisfies the hypothesis and is accepted by the reference semantics: two
    files bound to two variables, files arriving before `operations` and `map` -/
example : wfParts [.file (file '1' 0), .file (file '0' 1), opsAB, .map (some [(['0'], [vA]), (['1'], [vB])]) 40] = true ∧
    (match require ⟨none, none⟩ [.file (file '1' 0), .file (file '0' 1), opsAB, .map (some [(['0'], [vA]), (['1'], [vB])]) 40] with
      | .accept _ _ => true | _ => false) = true := by
  constructor <;> decide

def opsDup : Part := .ops (some (.single ⟨[(['a'], .null), (['a'], .null)], []⟩)) 40
def opsMarker : Part := .ops (some (.single ⟨[(['a'], .null), (['b'], .ext 0)], []⟩)) 40

/-- `c24_refines_spec` is false without the distinct-keys assumption: variables object
    `{"a": null, "a": null}` (as an association list) and the path `variables.a` — the reference
    substitution replaces every member named `a`, `set_upload` the first one -/
theorem c24_refines_spec_false_duplicate_keys : ¬ c24_refines_spec := by
  intro h
  have h := h ⟨none, none⟩ 100 [opsDup, .map (some [(['0'], [vA])]) 40, .file (file '0' 2)]
  have hreq : require ⟨none, none⟩ [opsDup, .map (some [(['0'], [vA])]) 40, .file (file '0' 2)] =
      .accept true [[(['a'], .ext (some (file '0' 2))), (['a'], .ext (some (file '0' 2)))]] := by rfl
  have hrec : receive Defects.none ⟨none, none⟩ 100 [opsDup, .map (some [(['0'], [vA])]) 40, .file (file '0' 2)] =
      .ok (.single ⟨[(['a'], .ext 0), (['a'], .null)], [file '0' 2]⟩) := by rfl
  rw [hreq] at h
  rcases h with ⟨b, hb, _, hview⟩ | ⟨_, hb⟩
  · rw [hrec] at hb
    cases hb
    simp [Batch.reqs, viewReq, mapExtM, mapExt] at hview
  · rw [hrec] at hb
    cases hb

/-- `c24_refines_spec` is false without the no-marker assumption: the original variables hold the
    string `#__graphql_file__:0` (a forged marker, `ext 0`) at `b`, a file is bound to `a`; the
    reference semantics keeps `b` free of any file, the decoded request reads upload 0 there -/
theorem c24_refines_spec_false_marker : ¬ c24_refines_spec := by
  intro h
  have h := h ⟨none, none⟩ 100 [opsMarker, .map (some [(['0'], [vA])]) 40, .file (file '0' 2)]
  have hreq : require ⟨none, none⟩ [opsMarker, .map (some [(['0'], [vA])]) 40, .file (file '0' 2)] =
      .accept true [[(['a'], .ext (some (file '0' 2))), (['b'], .ext none)]] := by rfl
  have hrec : receive Defects.none ⟨none, none⟩ 100 [opsMarker, .map (some [(['0'], [vA])]) 40, .file (file '0' 2)] =
      .ok (.single ⟨[(['a'], .ext 0), (['b'], .ext 0)], [file '0' 2]⟩) := by rfl
  rw [hreq] at h
  rcases h with ⟨b, hb, _, hview⟩ | ⟨_, hb⟩
  · rw [hrec] at hb
    cases hb
    simp [Batch.reqs, viewReq, mapExtM, mapExt] at hview
  · rw [hrec] at hb
    cases hb

end AGV.Props.C24
