import AGV.Props.C24
open AGV.Spec.UploadBind AGV.Model.UploadBind AGV.Props.C24

def opsDup : Part := .ops (some (.single ⟨[(['a'], .null), (['a'], .null)], []⟩)) 40
def partsDup : List Part := [opsDup, .map (some [(['0'], [vA])]) 40, .file (file '0' 2)]
#eval (match require ⟨none,none⟩ partsDup with | .accept s r => repr (s, r) | .reject => "rej" | .unspecified => "unspec")
#eval (match receive Defects.none ⟨none,none⟩ 100 partsDup with | .ok b => repr (b.reqs.map viewReq) | .error e => repr e)
def opsExt : Part := .ops (some (.single ⟨[(['a'], .null), (['b'], .ext 0)], []⟩)) 40
def partsExt : List Part := [opsExt, .map (some [(['0'], [vA])]) 40, .file (file '0' 2)]
#eval (match require ⟨none,none⟩ partsExt with | .accept s r => repr (s, r) | .reject => "rej" | .unspecified => "unspec")
#eval (match receive Defects.none ⟨none,none⟩ 100 partsExt with | .ok b => repr (b.reqs.map viewReq) | .error e => repr e)
