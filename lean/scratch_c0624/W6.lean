import AGV.Props.C06
open AGV.Core AGV.Spec.Coerce AGV.Model.Coerce AGV.Props.C06

def T1 : Table :=
  { types := [("Int", .scalar), ("I", .input false [⟨"a", .opt (.named "Int"), none⟩]),
              ("O", .input true [⟨"m", .mu (.named "Int"), none⟩]),
              ("Dup", .input false [⟨"a", .opt (.named "Int"), none⟩, ⟨"a", .named "Int", some (.int 1)⟩])],
    fields := [⟨"f", [⟨"x", .opt (.named "I"), none⟩]⟩] }

#eval parseD Defects.none T1 (.named "I") (.obj [("z", .int 1)])
#eval (coerce T1 true (RTy.named "I").gql (.obj [("z", .int 1)])).map (view T1 (.named "I"))
#eval parseD Defects.none T1 (.named "O") (.obj [("m", .null)])
#eval (coerce T1 true (RTy.named "O").gql (.obj [("m", .null)])).map (view T1 (.named "O"))
#eval (parseD Defects.none T1 (.named "O") (.obj [("m", .null)])).map (typed T1 (.named "O"))
#eval parseD Defects.none T1 (.named "Dup") (.obj [])
#eval (parseD Defects.none T1 (.named "Dup") (.obj [])).map (typed T1 (.named "Dup"))
-- request-level: unknown key with unsupplied variable
def op1 : OpDef := { ty := .query, name := none, vars := [⟨"v", .named "Int", none⟩], dirs := [], sels := [.field none "f" [("x", .obj [("a", .var "v"), ("zzz", .int 1)])] [] [] ⟨0, 0⟩] }
#eval (run Defects.none T1 op1 []).fields
#eval (run Defects.none T1 op1 []).status
#eval request T1 op1 []
