import AGV.Lemmas.UploadBind
open AGV.Model.UploadBind
set_option pp.match false
#print parseUnsigned
