import AGV.Model.Hostile
open AGV.Model.Peg AGV.Gen.Grammar
local notation "G" => AGV.Gen.Grammar.grammar

namespace T4
theorem find_number : findRule G "number" = some r_number := by rfl
theorem find_float : findRule G "float" = some r_float := by rfl
theorem find_int : findRule G "int" = some r_int := by rfl
theorem find_name_start : findRule G "name_start" = some r_name_start := by rfl
theorem find_ws : findRule G "WHITESPACE" = some r_WHITESPACE := by rfl
theorem find_comment : findRule G "COMMENT" = some r_COMMENT := by rfl
theorem find_lt : findRule G "line_terminator" = some r_line_terminator := by rfl

abbrev No (n : String) : Prop := ∀ (f : Nat) (c : Ctx) (p : Nat) (t : List Char),
    eval G f c (.ident n) p ('[' :: t) = .oof ∨ eval G f c (.ident n) p ('[' :: t) = .fail

set_option maxRecDepth 8000 in
theorem no_number : No "number" := by
  intro f c p t
  rcases f with _ | _ | _ | _ | _ | _ | _ | _ | _ | _ | _ | _ | _ | f
  all_goals first
    | (left; simp [eval, find_number, find_float, find_int, charClass, r_number, r_float, r_int, matchStr, bodyCtx, isAsciiNonzeroDigit]; done)
    | (right; simp [eval, find_number, find_float, find_int, charClass, r_number, r_float, r_int, matchStr, bodyCtx, isAsciiNonzeroDigit]; done)

/-- `hidden::skip` in front of a bracket consumes nothing -/
theorem skip_bracket (f : Nat) (c : Ctx) (p : Nat) (ch : Char) (t : List Char) (h : ch = '[' ∨ ch = ']') :
    eval G f { c with atom := .atomic } skipExpr p (ch :: t) = .oof ∨
    eval G f { c with atom := .atomic } skipExpr p (ch :: t) = .ok p (ch :: t) [] := by
  rcases h with rfl | rfl
  all_goals
    rcases f with _ | _ | _ | _ | _ | _ | _ | _ | _ | _ | _ | _ | _ | f
    all_goals first
      | (left; simp [eval, skipExpr, find_ws, find_comment, find_lt, charClass, r_WHITESPACE, r_COMMENT, r_line_terminator, matchStr, bodyCtx]; done)
      | (right; simp [eval, skipExpr, find_ws, find_comment, find_lt, charClass, r_WHITESPACE, r_COMMENT, r_line_terminator, matchStr, bodyCtx]; done)
end T4
