import AGV.Model.Hostile
open AGV.Model.Peg AGV.Gen.Grammar
local notation "G" => AGV.Gen.Grammar.grammar

theorem find_variable : findRule G "variable" = some r_variable := by rfl
theorem find_name : findRule G "name" = some r_name := by rfl

theorem cc_none (n : String) (h : n = "variable") : charClass n = none := by subst h; decide

set_option maxRecDepth 4000 in
theorem variable_no (f : Nat) (c : Ctx) (p : Nat) (t : List Char) :
    eval G f c (.ident "variable") p ('[' :: t) = .oof ∨ eval G f c (.ident "variable") p ('[' :: t) = .fail := by
  rcases f with _ | _ | _ | f
  · left; simp [eval]
  · left; simp [eval, find_variable, charClass, r_variable]
  · left; simp [eval, find_variable, charClass, r_variable]
  · right; simp [eval, find_variable, charClass, r_variable, matchStr]
