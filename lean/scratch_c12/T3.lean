import AGV.Model.Hostile
open AGV.Model.Peg AGV.Gen.Grammar
local notation "G" => AGV.Gen.Grammar.grammar

namespace T3
theorem find_variable : findRule G "variable" = some r_variable := by rfl
theorem find_number : findRule G "number" = some r_number := by rfl
theorem find_float : findRule G "float" = some r_float := by rfl
theorem find_int : findRule G "int" = some r_int := by rfl
theorem find_string : findRule G "string" = some r_string := by rfl
theorem find_boolean : findRule G "boolean" = some r_boolean := by rfl
theorem find_null : findRule G "null" = some r_null := by rfl
theorem find_enum_value : findRule G "enum_value" = some r_enum_value := by rfl
theorem find_name : findRule G "name" = some r_name := by rfl
theorem find_name_start : findRule G "name_start" = some r_name_start := by rfl
theorem find_list : findRule G "list" = some r_list := by rfl
theorem find_value : findRule G "value" = some r_value := by rfl
theorem find_ws : findRule G "WHITESPACE" = some r_WHITESPACE := by rfl
theorem find_comment : findRule G "COMMENT" = some r_COMMENT := by rfl
theorem find_lt : findRule G "line_terminator" = some r_line_terminator := by rfl

abbrev No (n : String) : Prop := ∀ (f : Nat) (c : Ctx) (p : Nat) (t : List Char),
    eval G f c (.ident n) p ('[' :: t) = .oof ∨ eval G f c (.ident n) p ('[' :: t) = .fail

set_option maxRecDepth 8000 in
theorem no_variable : No "variable" := by
  intro f c p t
  rcases f with _ | _ | _ | f
  all_goals first
    | (left; simp [eval, find_variable, charClass, r_variable, matchStr]; done)
    | (right; simp [eval, find_variable, charClass, r_variable, matchStr]; done)

set_option maxRecDepth 8000 in
theorem no_boolean : No "boolean" := by
  intro f c p t
  rcases f with _ | _ | _ | _ | f
  all_goals first
    | (left; simp [eval, find_boolean, charClass, r_boolean, matchStr]; done)
    | (right; simp [eval, find_boolean, charClass, r_boolean, matchStr]; done)

set_option maxRecDepth 8000 in
theorem no_null : No "null" := by
  intro f c p t
  rcases f with _ | _ | _ | f
  all_goals first
    | (left; simp [eval, find_null, charClass, r_null, matchStr]; done)
    | (right; simp [eval, find_null, charClass, r_null, matchStr]; done)

set_option maxRecDepth 8000 in
theorem no_string : No "string" := by
  intro f c p t
  rcases f with _ | _ | _ | _ | _ | f
  all_goals first
    | (left; simp [eval, find_string, charClass, r_string, matchStr, bodyCtx]; done)
    | (right; simp [eval, find_string, charClass, r_string, matchStr, bodyCtx]; done)

set_option maxRecDepth 8000 in
set_option maxHeartbeats 1000000 in
theorem no_enum_value : No "enum_value" := by
  intro f c p t
  rcases f with _ | _ | _ | _ | _ | _ | _ | _ | f
  all_goals first
    | (left; simp [eval, find_enum_value, find_boolean, find_null, find_name, find_name_start, charClass, r_enum_value, r_boolean, r_null, r_name, r_name_start, matchStr, bodyCtx, isAsciiAlpha]; done)
    | (right; simp [eval, find_enum_value, find_boolean, find_null, find_name, find_name_start, charClass, r_enum_value, r_boolean, r_null, r_name, r_name_start, matchStr, bodyCtx, isAsciiAlpha]; done)
end T3
