import AGV.Model.Hostile
open AGV.Model.Peg AGV.Gen.Grammar
local notation "G" => AGV.Gen.Grammar.grammar

namespace T2

-- generic propagation of `oof`
theorem seq_oof_first (f c a b p s) (h : eval G f c a p s = .oof) : eval G (f + 1) c (.seq a b) p s = .oof := by
  simp [eval, h]

theorem rep_oof_first (f c a p s) (h : eval G f c a p s = .oof) : eval G (f + 1) c (.rep a) p s = .oof := by
  simp [eval, h]

theorem choice_oof_first (f c a b p s) (h : eval G f c a p s = .oof) : eval G (f + 1) c (.choice a b) p s = .oof := by
  simp [eval, h]

theorem choice_oof_second (f c a b p s) (ha : eval G f c a p s = .oof ∨ eval G f c a p s = .fail)
    (hb : eval G f c b p s = .oof) : eval G (f + 1) c (.choice a b) p s = .oof := by
  rcases ha with h | h <;> simp [eval, h, hb]

theorem seq_oof_second (f c a b p s p1 s1 ps1) (ha : eval G f c a p s = .ok p1 s1 ps1)
    (hs : eval G f { c with atom := .atomic } skipExpr p1 s1 = .oof ∨
          eval G f { c with atom := .atomic } skipExpr p1 s1 = .ok p1 s1 [])
    (hb : eval G f c b p1 s1 = .oof) : eval G (f + 1) c (.seq a b) p s = .oof := by
  by_cases hc : c.atom = .non
  · rcases hs with h | h <;> simp [eval, ha, hc, h, hb]
  · simp [eval, ha, hc, hb]

theorem zero_oof (c e p s) : eval G 0 c e p s = .oof := by simp [eval]
end T2
