import AGV.Model.WsFrame
namespace AGV.Lemmas.WsFrame
open AGV.Spec.WsFrame AGV.Model.WsFrame AGV.Gen

theorem slot_eq_member (k : Str) (kvs : List (Str × J)) : slot k kvs = member k kvs := by sorry

theorem drf_q (r k : Str) (a : Option (Option J)) :
    (a.bind (decodeReqField ⟨r, k, true, ['S', 't', 'r', 'i', 'n', 'g']⟩))
      = (queryOf a).map RSlot.q := by
  rcases a with _ | _ | j
  · rfl
  · simp [decodeReqField, tyString, queryOf]
  · cases j <;> simp [decodeReqField, tyString, queryOf]

theorem drf_o (r k : Str) (a : Option (Option J)) :
    (a.bind (decodeReqField ⟨r, k, true, ['O', 'p', 't', 'i', 'o', 'n', '<', 'S', 't', 'r', 'i', 'n', 'g', '>']⟩))
      = (opNameOf a).map RSlot.o := by
  rcases a with _ | _ | j
  · rfl
  · simp [decodeReqField, tyString, tyOptString, opNameOf]
  · cases j <;> simp [decodeReqField, tyString, tyOptString, opNameOf]

theorem drf_v (r k : Str) (a : Option (Option J)) :
    (a.bind (decodeReqField ⟨r, k, true, ['V', 'a', 'r', 'i', 'a', 'b', 'l', 'e', 's']⟩))
      = (membersOf a).map RSlot.m := by
  rcases a with _ | _ | j
  · rfl
  · simp [decodeReqField, tyString, tyOptString, tyVariables, membersOf]
  · cases j <;> simp [decodeReqField, tyString, tyOptString, tyVariables, membersOf]

theorem drf_e (r k : Str) (a : Option (Option J)) :
    (a.bind (decodeReqField ⟨r, k, true, ['E', 'x', 't', 'e', 'n', 's', 'i', 'o', 'n', 's']⟩))
      = (membersOf a).map RSlot.m := by
  rcases a with _ | _ | j
  · rfl
  · simp [decodeReqField, tyString, tyOptString, tyVariables, tyExtensions, membersOf]
  · cases j <;> simp [decodeReqField, tyString, tyOptString, tyVariables, tyExtensions, membersOf]

theorem decodeReqObj_eq (kvs : List (Str × J)) : decodeReqObj kvs = reqOf (.obj kvs) := by
  unfold decodeReqObj reqOf
  simp only [RequestKeys.jsonFields, List.map, slot_eq_member]
  have e1 : (['q','u','e','r','y'] : Str) = kQuery := rfl
  have e2 : (['o','p','e','r','a','t','i','o','n','N','a','m','e'] : Str) = kOperationName := rfl
  have e3 : (['v','a','r','i','a','b','l','e','s'] : Str) = kVariables := rfl
  have e4 : (['e','x','t','e','n','s','i','o','n','s'] : Str) = kExtensions := rfl
  rw [e1, e2, e3, e4, drf_q, drf_o, drf_v, drf_e]
  generalize queryOf (member kQuery kvs) = a
  generalize opNameOf (member kOperationName kvs) = b
  generalize membersOf (member kVariables kvs) = c
  generalize membersOf (member kExtensions kvs) = d
  cases a <;> cases b <;> cases c <;> cases d <;> simp [allSome, buildReq]

theorem decodeReq_eq (v : J) : decodeReq {} v = reqOf v := by
  cases v <;> simp [decodeReq, reqOf, decodeReqObj_eq]

end AGV.Lemmas.WsFrame
