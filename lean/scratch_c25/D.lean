import AGV.Model.WsFrame
namespace AGV.Lemmas.WsFrame
open AGV.Spec.WsFrame AGV.Model.WsFrame AGV.Gen

theorem slot_eq_member (k : Str) (kvs : List (Str × J)) : slot k kvs = member k kvs := by sorry
theorem member_filter_ne (k t : Str) (h : k ≠ t) (kvs : List (Str × J)) :
    member k (kvs.filter (fun p => p.1 ≠ t)) = member k kvs := by sorry
theorem decodeReq_eq (v : J) : decodeReq {} v = reqOf v := by sorry

def rowOf : Kind → WsWire.ClientVariant
  | .init => ⟨[tConnectionInit], "ConnectionInit", [(kPayload, .optJson)]⟩
  | .start => ⟨[tStart, tSubscribe], "Start", [(kId, .string), (kPayload, .request)]⟩
  | .stop => ⟨[tStop, tComplete], "Stop", [(kId, .string)]⟩
  | .term => ⟨[tConnectionTerminate], "ConnectionTerminate", []⟩
  | .ping => ⟨[tPing], "Ping", [(kPayload, .optJson)]⟩
  | .pong => ⟨[tPong], "Pong", [(kPayload, .optJson)]⟩

theorem variantOf_eq (t : Str) : variantOf t = (kindOf t).map rowOf := by sorry

theorem optField (a : Option (Option J)) :
    (a.bind (decodeField {} .optJson)) = (match a with
      | none => none | some none => some none | some (some .null) => some none | some (some v) => some (some v)).map Slot.j := by
  rcases a with _ | _ | j
  · rfl
  · rfl
  · cases j <;> rfl

theorem decodeVariantMap_eq (k : Kind) (kvs : List (Str × J)) :
    decodeVariantMap {} (rowOf k) (kvs.filter (fun p => p.1 ≠ WsWire.clientTag)) =
      match k with
      | .init => (optPayload kvs).map .init
      | .start =>
        match idOf kvs, member kPayload kvs with
        | some id, some (some p) => (reqOf p).map (.start id)
        | _, _ => none
      | .stop => (idOf kvs).map .stop
      | .term => some .term
      | .ping => (optPayload kvs).map .ping
      | .pong => (optPayload kvs).map .pong := by
  have hp : member kPayload (kvs.filter (fun p => p.1 ≠ WsWire.clientTag)) = member kPayload kvs :=
    member_filter_ne _ _ (by decide) kvs
  have hi : member kId (kvs.filter (fun p => p.1 ≠ WsWire.clientTag)) = member kId kvs :=
    member_filter_ne _ _ (by decide) kvs
  cases k <;> simp only [decodeVariantMap, rowOf, List.map, slot_eq_member, hp, hi, optField]
  · unfold optPayload
    generalize member kPayload kvs = a
    rcases a with _ | _ | j
    · rfl
    · rfl
    · cases j <;> rfl
  · unfold idOf
    generalize member kPayload kvs = a
    generalize member kId kvs = b
    rcases b with _ | _ | j
    · rfl
    · rcases a with _ | _ | p <;> rfl
    · cases j <;> (try (rcases a with _ | _ | p <;> rfl))
      rcases a with _ | _ | p
      · rfl
      · rfl
      · simp [decodeField, decodeReq_eq, allSome, build]
        cases reqOf p <;> simp [allSome, build]
  · unfold idOf
    generalize member kId kvs = b
    rcases b with _ | _ | j
    · rfl
    · rfl
    · cases j <;> rfl
  · rfl
  · unfold optPayload
    generalize member kPayload kvs = a
    rcases a with _ | _ | j
    · rfl
    · rfl
    · cases j <;> rfl
  · unfold optPayload
    generalize member kPayload kvs = a
    rcases a with _ | _ | j
    · rfl
    · rfl
    · cases j <;> rfl

end AGV.Lemmas.WsFrame
