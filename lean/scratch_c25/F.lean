import AGV.Model.WsFrame
namespace AGV.Lemmas.WsFrame
open AGV.Spec.WsFrame AGV.Model.WsFrame AGV.Gen

theorem skipWs_append_ws (w r : Str) (h : AllWs w) : skipWs (w ++ r) = skipWs r := by
  induction w with
  | nil => rfl
  | cons c w ih =>
    have hc : isWs c = true := h c (by simp)
    simp only [List.cons_append, skipWs, hc, if_true]
    exact ih (fun x hx => h x (by simp [hx]))

theorem skipWs_cons_nonws (c : Char) (r : Str) (h : isWs c = false) : skipWs (c :: r) = c :: r := by
  simp [skipWs, h]

theorem skipWs_spec (cs : Str) : ∃ w, cs = w ++ skipWs cs ∧ AllWs w := by
  induction cs with
  | nil => exact ⟨[], rfl, by simp [AllWs]⟩
  | cons c r ih =>
    by_cases hc : isWs c = true
    · obtain ⟨w, hw, ha⟩ := ih
      refine ⟨c :: w, ?_, ?_⟩
      · simp only [skipWs, hc, if_true, List.cons_append]; rw [← hw]
      · intro x hx
        rcases List.mem_cons.mp hx with rfl | hx
        · exact hc
        · exact ha x hx
    · refine ⟨[], ?_, by simp [AllWs]⟩
      simp [skipWs, hc]

theorem skipWs_head (cs : Str) (c : Char) (r : Str) (h : skipWs cs = c :: r) : isWs c = false := by
  induction cs with
  | nil => simp [skipWs] at h
  | cons d t ih =>
    by_cases hd : isWs d = true
    · simp only [skipWs, hd, if_true] at h; exact ih h
    · simp only [skipWs, hd] at h
      simp at h
      obtain ⟨rfl, _⟩ := h
      simpa using hd

theorem skipWs_nil_iff (r : Str) : skipWs r = [] ↔ AllWs r := by
  induction r with
  | nil => simp [skipWs, AllWs]
  | cons c r ih =>
    by_cases hc : isWs c = true
    · simp only [skipWs, hc, if_true, ih]
      constructor
      · intro h x hx
        rcases List.mem_cons.mp hx with rfl | hx
        · exact hc
        · exact h x hx
      · intro h x hx; exact h x (by simp [hx])
    · simp only [skipWs, hc]
      constructor
      · intro h; simp at h
      · intro h; exact absurd (h c (by simp)) hc

-- ---------------------------------------------------------------- strings

theorem readStr_complete {t s : Str} (h : StrBody t s) (rest : Str) :
    readStr (t ++ '"' :: rest) = some (s, rest) := by
  induction h with
  | nil => simp [readStr]
  | plain c h1 h2 h3 _ ih =>
    have : ¬ c.toNat < 32 := by omega
    simp [readStr, h2, h3, this, ih, consStr]
  | esc e c he _ ih =>
    have hu : e ≠ 'u' := by
      intro h; subst h; simp [simpleEsc] at he
    simp [readStr, hu, he, ih, consStr]
  | uni a b c d n hh h1 h2 _ ih =>
    simp [readStr, hh, h1, h2, ih, consStr]
  | pair a b c d e f g h hi lo h1 h2 h3 h4 _ ih =>
    simp [readStr, h1, h2, h3, h4, ih, consStr]

end AGV.Lemmas.WsFrame
