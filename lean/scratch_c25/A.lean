import AGV.Model.WsFrame
namespace AGV.Lemmas.WsFrame
open AGV.Spec.WsFrame AGV.Model.WsFrame AGV.Gen

theorem slot_eq_member (k : Str) (kvs : List (Str × J)) : slot k kvs = member k kvs := by
  induction kvs with
  | nil => simp [slot, member]
  | cons p r ih =>
    unfold slot
    by_cases h : p.1 = k
    · simp only [h, if_true, ih]
      unfold member
      simp only [List.filter_cons, h, decide_true, if_true]
      generalize r.filter (fun p => decide (p.1 = k)) = l
      rcases l with _ | ⟨q, _ | ⟨q2, l⟩⟩ <;> rfl
    · simp only [h, if_false, ih]
      unfold member
      simp [h]

theorem member_filter_ne (k t : Str) (h : k ≠ t) (kvs : List (Str × J)) :
    member k (kvs.filter (fun p => p.1 ≠ t)) = member k kvs := by
  unfold member
  congr 1
  rw [List.filter_filter]
  apply List.filter_congr
  intro p _
  by_cases hp : p.1 = k
  · simp [hp, h]
  · simp [hp]

end AGV.Lemmas.WsFrame
