import AGV.Model.WsFrame
namespace AGV.Lemmas.WsFrame
open AGV.Spec.WsFrame AGV.Model.WsFrame AGV.Gen

theorem slot_eq_member (k : Str) (kvs : List (Str × J)) : slot k kvs = member k kvs := by sorry
theorem member_filter_ne (k t : Str) (h : k ≠ t) (kvs : List (Str × J)) :
    member k (kvs.filter (fun p => p.1 ≠ t)) = member k kvs := by sorry
theorem decodeReq_eq (v : J) : decodeReq {} v = reqOf v := by sorry

def rowOf : Kind → WsWire.ClientVariant
  | .init => ⟨[tConnectionInit], "ConnectionInit", [(kPayload, .optJson)]⟩
  | .start => ⟨[tStart, tSubscribe], "Start", [(kId, .string), (kPayload, .request)]⟩
  | .stop => ⟨[tStop, tComplete], "Stop", [(kId, .string)]⟩
  | .term => ⟨[tConnectionTerminate], "ConnectionTerminate", []⟩
  | .ping => ⟨[tPing], "Ping", [(kPayload, .optJson)]⟩
  | .pong => ⟨[tPong], "Pong", [(kPayload, .optJson)]⟩

theorem variantOf_eq (t : Str) : variantOf t = (kindOf t).map rowOf := by
  unfold kindOf
  by_cases h1 : t = tConnectionInit
  · subst h1; rfl
  by_cases h2 : t = tStart
  · subst h2; rfl
  by_cases h3 : t = tSubscribe
  · subst h3; rfl
  by_cases h4 : t = tStop
  · subst h4; rfl
  by_cases h5 : t = tComplete
  · subst h5; rfl
  by_cases h6 : t = tConnectionTerminate
  · subst h6; rfl
  by_cases h7 : t = tPing
  · subst h7; rfl
  by_cases h8 : t = tPong
  · subst h8; rfl
  simp only [h1, h2, h3, h4, h5, h6, h7, h8, if_false, or_self, Option.map_none]
  simp only [tConnectionInit, tStart, tSubscribe, tStop, tComplete, tConnectionTerminate, tPing, tPong] at h1 h2 h3 h4 h5 h6 h7 h8
  simp [variantOf, WsWire.clientVariants, List.find?, h1, h2, h3, h4, h5, h6, h7, h8]

end AGV.Lemmas.WsFrame
