import AGV.Model.WsFrame
namespace AGV.Lemmas.WsFrame
open AGV.Spec.WsFrame AGV.Model.WsFrame AGV.Gen

def rowOf : Kind → WsWire.ClientVariant
  | .init => ⟨[tConnectionInit], "ConnectionInit", [(kPayload, .optJson)]⟩
  | .start => ⟨[tStart, tSubscribe], "Start", [(kId, .string), (kPayload, .request)]⟩
  | .stop => ⟨[tStop, tComplete], "Stop", [(kId, .string)]⟩
  | .term => ⟨[tConnectionTerminate], "ConnectionTerminate", []⟩
  | .ping => ⟨[tPing], "Ping", [(kPayload, .optJson)]⟩
  | .pong => ⟨[tPong], "Pong", [(kPayload, .optJson)]⟩

theorem variantOf_eq (t : Str) : variantOf t = (kindOf t).map rowOf := by sorry
theorem decodeVariantMap_eq (k : Kind) (kvs : List (Str × J)) :
    decodeVariantMap {} (rowOf k) (kvs.filter (fun p => p.1 ≠ WsWire.clientTag)) =
      match k with
      | .init => (optPayload kvs).map .init
      | .start =>
        match idOf kvs, member kPayload kvs with
        | some id, some (some p) => (reqOf p).map (.start id)
        | _, _ => none
      | .stop => (idOf kvs).map .stop
      | .term => some .term
      | .ping => (optPayload kvs).map .ping
      | .pong => (optPayload kvs).map .pong := by sorry

theorem decodeMsg_eq (v : J) : decodeMsg {} v = msgOf v := by
  cases v with
  | obj kvs =>
    unfold decodeMsg msgOf member
    have ht : WsWire.clientTag = kType := rfl
    simp only [ht]
    generalize hl : kvs.filter (fun p => decide (p.1 = kType)) = l
    rcases l with _ | ⟨⟨k0, j⟩, _ | ⟨q2, l⟩⟩
    · rfl
    · cases j <;> try rfl
      rename_i t
      simp only [variantOf_eq]
      cases hk : kindOf t with
      | none => rfl
      | some k =>
        simp only [Option.map_some]
        have := decodeVariantMap_eq k kvs
        rw [ht] at this
        rw [this]
        cases k <;> rfl
    · cases j <;> rfl
  | arr xs =>
    cases xs with
    | nil => rfl
    | cons x r => cases x <;> rfl
  | _ => rfl

end AGV.Lemmas.WsFrame
