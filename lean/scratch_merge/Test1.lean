import AGV.Lemmas.ExecStaticData
import AGV.Util.Sexp
open AGV AGV.Sexp AGV.Core AGV.Model.ExecStatic AGV.Lemmas.ExecStaticData

def dataStr (r : Res) : String :=
  match r.val with
  | some v => render v.toSexp
  | none => "NONE"

def hypsOK (S : Schema) (d : Doc) (op : OpDef) (raw : List (String × GValue)) (w : World) (fuel : Nat) : Bool :=
  let c := runCtx S d op raw w
  (match S.find? (rootOf S op) with | some o => o.kind == .object | none => false) &&
  schemaWF S && builtinScalars.all (fun b => !S.isComposite b) &&
  d.frags.all (fun f => selsInert c.vars f.sels) && worldFloatOK S w &&
  selsInert c.vars op.sels && mergeableKeys c fuel (rootOf S op) (rootOf S op) op.sels

def main (args : List String) : IO UInt32 := do
  let cases ← IO.FS.lines args[0]!
  let mut nh := 0
  let mut nrep := 0
  let mut bad := 0
  let mut badE := 0
  let mut badP := 0
  for line in cases do
    match parse line with
    | some (.list (.atom "case" :: s :: d :: opn :: vs :: w :: _)) =>
      match Decode.schema? s, Decode.doc? d, Decode.optStr? opn, Decode.vars? vs, Decode.world? w with
      | some S, some doc, some opName, some vars, some world =>
        match AGV.Spec.Exec.selectOp doc opName with
        | none => pure ()
        | some op =>
          let fb := AGV.Spec.Exec.fuelBound doc
          for fuel in [fb, 1, 2, 3, 4, 5] do
            if hypsOK S doc op vars world fuel then
              let m := Model.ExecStatic.run Defects.none S doc opName vars world fuel
              let sp := AGV.Spec.Exec.run S doc opName vars world fuel
              if fuel = fb then
                nh := nh + 1
                if !(hypsOK S doc op vars world fuel && noRepeatedKeys (runCtx S doc op vars world) fuel (rootOf S op) (rootOf S op) op.sels) then nrep := nrep + 1
              if dataStr m ≠ dataStr sp then
                bad := bad + 1
                IO.println s!"VAL MISMATCH fuel={fuel}: {line.take 0}\n  model {dataStr m}\n  spec  {dataStr sp}\n  {(line.splitOn "\"query").getLast!}"
              if fuel = fb then
                if !(m.errs.all (fun e => sp.errs.contains e)) then
                  badE := badE + 1
                  if badE < 4 then IO.println s!"ERR not subset: {(line.splitOn "\"query").getLast!}\n  model {m.errs.map (fun e => render e.toSexp)}\n  spec {sp.errs.map (fun e => render e.toSexp)}"
                if !(m.errs.all (fun e => sp.errs.any (fun e' => e'.path == e.path))) then
                  badP := badP + 1
                  IO.println s!"ERR PATH not subset: {(line.splitOn "\"query").getLast!}\n  model {m.errs.map (fun e => render e.toSexp)}\n  spec {sp.errs.map (fun e => render e.toSexp)}"
      | _, _, _, _, _ => IO.println "undecodable"
    | _ => IO.println "bad case"
  IO.println s!"cases={cases.size} hyps-hold={nh} with-repeated-keys={nrep} valMismatch={bad} errNotSubset={badE} errPathNotSubset={badP}"
  return 0
