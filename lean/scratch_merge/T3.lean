import Scr.Q5
#print axioms AGV.Lemmas.ExecStaticMerge.container_errs_paths
#print axioms AGV.Lemmas.ExecStaticMerge.execSet_errs_mono
