import AGV.Lemmas.ExecStaticData
open AGV.Core
#print AGV.Core.instBEqDValue.beq
#print axioms AGV.Core.instBEqDValue.beq
set_option pp.proofs true in
#print AGV.Core.instBEqDValue.beq._unsafe_rec
example : (DValue.int 1 == DValue.int 1) = true := by simp [BEq.beq, instBEqDValue.beq]
