import AGV.Lemmas.ExecStaticMergeErrs
import AGV.Util.Sexp
open AGV AGV.Sexp AGV.Core AGV.Model.ExecStatic AGV.Lemmas.ExecStaticData

def main (args : List String) : IO UInt32 := do
  let cases ← IO.FS.lines args[0]!
  let mut n := 0
  let mut bad := 0
  for line in cases do
    match parse line with
    | some (.list (.atom "case" :: s :: d :: opn :: vs :: w :: _)) =>
      match Decode.schema? s, Decode.doc? d, Decode.optStr? opn, Decode.vars? vs, Decode.world? w with
      | some S, some doc, some opName, some vars, some world =>
        match AGV.Spec.Exec.selectOp doc opName with
        | none => pure ()
        | some op =>
          let fb := AGV.Spec.Exec.fuelBound doc
          n := n + 1
          if !(deepEnough (runCtx S doc op vars world) fb (rootOf S op) (rootOf S op) op.sels) then
            bad := bad + 1
            IO.println s!"NOT DEEP ENOUGH at fuelBound {fb}: {(line.splitOn "\"query").getLast!}"
      | _, _, _, _, _ => IO.println "undecodable"
    | _ => IO.println "bad case"
  IO.println s!"cases={n} notDeepEnough={bad}"
  return 0
