import AGV.Lemmas.ExecStaticMergeExec
open AGV.Core AGV.Model.ExecStatic AGV.Lemmas.ExecStatic AGV.Lemmas.ExecStaticData AGV.Spec.Exec

def p0 : Pos := ⟨1, 1⟩
def Sc : Schema := { query := "Query", types := [
  { name := "Query", kind := .object, fields := [{ name := "me", ty := .named "Query", args := [] }] },
  { name := "Int", kind := .scalar }] }
def wc : World := { entries := [((0, "me"), .obj "Query" 0)] }
def fragC : FragDef := { name := "F", cond := "Query", dirs := [], sels := [
  Sel.field none "me" [] [] [Sel.field none "me" [] [] [Sel.spread "F" [] p0] p0] p0] }
def opC : OpDef := { ty := .query, name := none, vars := [], dirs := [], sels := [Sel.spread "F" [] p0] }
def docC : Doc := { ops := [opC], frags := [fragC] }
#eval fuelBound docC
#eval (AGV.Model.ExecStatic.run Defects.none Sc docC none [] wc 7).errs
#eval (AGV.Model.ExecStatic.run Defects.none Sc docC none [] wc 8).errs
#eval (AGV.Spec.Exec.run Sc docC none [] wc 8).errs
#eval noRepeatedKeys (runCtx Sc docC opC [] wc) 8 "Query" "Query" opC.sels
#eval noRepeatedKeys (runCtx Sc docC opC [] wc) 7 "Query" "Query" opC.sels
