import Scr.Q1

namespace AGV.Lemmas.ExecStaticMerge
open AGV.Core AGV.Model.ExecStatic AGV.Lemmas.ExecStatic AGV.Lemmas.ExecStaticData
open AGV.Spec.Exec (FieldOcc complete execSet group mapIdx serializeLeaf doesApply excluded argValue)

theorem complete_nonNull_not_null (S : Schema) (rec : String → Nat → List Sel → List PathSeg → Res)
    (t : TypeRef) (rv : RVal) (ss : List Sel) (path : List PathSeg) (pos : Pos) :
    (complete S rec (.nonNull t) rv ss path pos).val ≠ some .null := by
  by_cases hrv : rv = .null
  · subst hrv; simp [complete]
  · intro hc
    obtain ⟨d1, d2⟩ := complete_nonNull_val S rec t rv ss path pos hrv
    by_cases hnull : (complete S rec t rv ss path pos).val = some .null
    · rw [d1 hnull] at hc; simp at hc
    · rw [d2 hnull] at hc; exact hnull hc

theorem complete_list_errs (S : Schema) (rec : String → Nat → List Sel → List PathSeg → Res) (t : TypeRef)
    (xs : List RVal) (ss : List Sel) (path : List PathSeg) (pos : Pos) :
    (complete S rec (.list t) (.list xs) ss path pos).errs =
      (mapIdx (fun i x => (complete S rec t x ss (path ++ [.idx i]) pos).errs) xs 0).flatten := by
  rw [← mapIdx_map (fun r : Res => r.errs)]
  simp only [complete]
  split <;> rfl

/-- a `null` without an error (`null` returned by the resolver, or the recursion giving up silently) does
    not depend on the selection set -/
theorem complete_quiet_null (S : Schema) (rec : String → Nat → List Sel → List PathSeg → Res) (ss ss' : List Sel)
    (hnn : ∀ ty id p, (rec ty id ss p).val ≠ some .null)
    (hq : ∀ ty id p, (rec ty id ss p).val = none → (rec ty id ss p).errs = [] →
      (rec ty id ss' p).val = none ∧ (rec ty id ss' p).errs = []) :
    ∀ (t : TypeRef) (rv : RVal) (path : List PathSeg) (pos pos' : Pos),
      (complete S rec t rv ss path pos).val = some .null → (complete S rec t rv ss path pos).errs = [] →
      (complete S rec t rv ss' path pos').val = some .null ∧ (complete S rec t rv ss' path pos').errs = [] := by
  intro t
  cases t with
  | nonNull t =>
    intro rv path pos pos' h
    exact absurd h (complete_nonNull_not_null S rec t rv ss path pos)
  | list t =>
    intro rv path pos pos' hv he
    cases rv with
    | null => simp [complete]
    | fail e => simp [complete] at he
    | obj ty id => simp [complete] at he
    | arg a => simp [complete] at he
    | leaf v => simp [complete] at he
    | list xs =>
      exfalso
      rw [complete_list_val] at hv
      rw [complete_list_errs] at he
      unfold lstVal at hv
      split at hv
      · simp at hv
      · rename_i hall
        have hmem : none ∈ mapIdx (fun i x => (complete S rec t x ss (path ++ [.idx i]) pos).val) xs 0 := by
          simpa using hall
        obtain ⟨j, x, hx, hj, hm⟩ := mapIdx_mem2 (fun i x => (complete S rec t x ss (path ++ [.idx i]) pos).val)
          (fun i x => (complete S rec t x ss (path ++ [.idx i]) pos).errs) xs 0 none hmem
        have := complete_none_errs S rec t x ss _ pos hj.symm
        rw [List.flatten_eq_nil_iff] at he
        exact this (he _ hm)
  | named n =>
    intro rv path pos pos' hv he
    cases rv with
    | null => simp [complete]
    | fail e => simp [complete] at he
    | list xs => simp [complete] at he
    | arg a => simp [complete] at he
    | leaf v =>
      by_cases hc : S.isComposite n = true
      · simp [complete, hc] at he
      · cases hs : serializeLeaf S n v with
        | none => simp [complete, hc, hs] at he
        | some v' =>
          simp only [complete, hc, hs, Bool.false_eq_true, if_false] at hv ⊢
          exact ⟨hv, trivial⟩
    | obj ty id =>
      simp only [complete] at hv he ⊢
      by_cases hp : (S.possibleTypes n).contains ty = true
      · simp only [hp, if_true] at hv he ⊢
        cases hr : (rec ty id ss path).val with
        | some v =>
          rw [hr] at hv he
          simp only [Option.some.injEq] at hv
          subst hv
          exact absurd hr (hnn ty id path)
        | none =>
          rw [hr] at he
          simp only at he
          obtain ⟨q1, q2⟩ := hq ty id path hr he
          rw [q1]
          exact ⟨rfl, q2⟩
      · rw [if_neg hp] at he; simp at he

/-- errors of CompleteValue grow (by response path) with the selection set when those of the executor
    for object values do -/
theorem complete_errs_mono (S : Schema) (rec : String → Nat → List Sel → List PathSeg → Res) (ss ss' : List Sel)
    (n : String)
    (hnn : ∀ ty id p, (rec ty id ss p).val ≠ some .null)
    (hq : ∀ ty id p, (rec ty id ss p).val = none → (rec ty id ss p).errs = [] →
      (rec ty id ss' p).val = none ∧ (rec ty id ss' p).errs = [])
    (hmono : ∀ ty ∈ S.possibleTypes n, ∀ id p, PathSub (rec ty id ss p).errs (rec ty id ss' p).errs) :
    ∀ (t : TypeRef), t.base = n → ∀ (rv : RVal) (path : List PathSeg) (pos pos' : Pos),
      PathSub (complete S rec t rv ss path pos).errs (complete S rec t rv ss' path pos').errs := by
  intro t
  induction t with
  | named m =>
    intro hm rv path pos pos'
    simp only [TypeRef.base] at hm
    subst hm
    cases rv with
    | null => simp [complete, PathSub.nil]
    | fail e => simpa [complete] using PathSub.single path pos pos'
    | list xs => simpa [complete] using PathSub.single path pos pos'
    | arg a => simpa [complete] using PathSub.single path pos pos'
    | leaf v =>
      simp only [complete]
      split
      · exact PathSub.single path pos pos'
      · split
        · exact PathSub.nil _
        · exact PathSub.single path pos pos'
    | obj ty id =>
      simp only [complete]
      by_cases hp : (S.possibleTypes m).contains ty = true
      · simp only [hp, if_true]
        have hty : ty ∈ S.possibleTypes m := by simpa using hp
        have := hmono ty hty id path
        cases (rec ty id ss path).val <;> cases (rec ty id ss' path).val <;> exact this
      · simp only [hp, Bool.false_eq_true, if_false]
        exact PathSub.single path pos pos'
  | list t ih =>
    intro hb rv path pos pos'
    simp only [TypeRef.base] at hb
    cases rv with
    | null => simp [complete, PathSub.nil]
    | fail e => simpa [complete] using PathSub.single path pos pos'
    | obj ty id => simpa [complete] using PathSub.single path pos pos'
    | arg a => simpa [complete] using PathSub.single path pos pos'
    | leaf v => simpa [complete] using PathSub.single path pos pos'
    | list xs =>
      rw [complete_list_errs, complete_list_errs]
      apply mapIdx_pathSub
      intro i x _
      exact ih hb x _ pos pos'
  | nonNull t ih =>
    intro hb rv path pos pos'
    simp only [TypeRef.base] at hb
    by_cases hrv : rv = .null
    · subst hrv
      simpa [complete] using PathSub.single path pos pos'
    · obtain ⟨a1, a2, a3⟩ := complete_nonNull_errs3 S rec t rv ss path pos hrv
      obtain ⟨b1, b2, b3⟩ := complete_nonNull_errs3 S rec t rv ss' path pos' hrv
      have hin := ih hb rv path pos pos'
      -- the errors on the right: those of the inner completion, or the single "null in non-null" error
      have hright : PathSub (complete S rec t rv ss path pos).errs (complete S rec (.nonNull t) rv ss' path pos').errs := by
        by_cases hnull' : (complete S rec t rv ss' path pos').val = some .null
        · by_cases hemp' : (complete S rec t rv ss' path pos').errs = []
          · rw [hemp'] at hin
            rw [PathSub.of_nil hin]
            exact PathSub.nil _
          · rw [b2 hnull' hemp']; exact hin
        · rw [b3 hnull']; exact hin
      by_cases hnull : (complete S rec t rv ss path pos).val = some .null
      · by_cases hemp : (complete S rec t rv ss path pos).errs = []
        · obtain ⟨q1, q2⟩ := complete_quiet_null S rec ss ss' hnn hq t rv path pos pos' hnull hemp
          rw [a1 hnull hemp, b1 q1 q2]
          exact PathSub.single path pos pos'
        · rw [a2 hnull hemp]; exact hright
      · rw [a3 hnull]; exact hright

end AGV.Lemmas.ExecStaticMerge
