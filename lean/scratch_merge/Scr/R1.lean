import AGV.Lemmas.ExecStaticMergeErrs

namespace AGV.Lemmas.ExecStaticMerge
open AGV.Core AGV.Model.ExecStatic AGV.Lemmas.ExecStatic AGV.Lemmas.ExecStaticData
open AGV.Spec.Exec (FieldOcc selCount fuelBound)

-- ------------------------------------------------------------------ the drivers' fuel bound suffices on acyclic documents

/-- weight of the fragments of rank below `r` -/
def fragWeight (rank : String → Nat) (frags : List FragDef) (r : Nat) : Nat :=
  ((frags.filter (fun g => decide (rank g.name < r))).map (fun g => 1 + selCount g.sels)).sum

theorem fragWeight_mono (rank : String → Nat) (frags : List FragDef) (r r' : Nat) (h : r ≤ r') :
    fragWeight rank frags r ≤ fragWeight rank frags r' := by
  unfold fragWeight
  induction frags with
  | nil => simp
  | cons g gs ih =>
    simp only [List.filter_cons]
    by_cases h1 : rank g.name < r
    · have h2 : rank g.name < r' := by omega
      simp only [h1, h2, decide_true, if_true, List.map_cons, List.sum_cons]
      omega
    · by_cases h2 : rank g.name < r'
      · simp only [h1, h2, decide_true, decide_false, if_true, Bool.false_eq_true, if_false, List.map_cons, List.sum_cons]
        omega
      · simp only [h1, h2, decide_false, Bool.false_eq_true, if_false]
        exact ih

theorem fragWeight_step (rank : String → Nat) (frags : List FragDef) (f : FragDef) (hf : f ∈ frags) :
    fragWeight rank frags (rank f.name) + (1 + selCount f.sels) ≤ fragWeight rank frags (rank f.name + 1) := by
  unfold fragWeight
  induction frags with
  | nil => simp at hf
  | cons g gs ih =>
    simp only [List.filter_cons]
    simp only [List.mem_cons] at hf
    by_cases h1 : rank g.name < rank f.name
    · have h2 : rank g.name < rank f.name + 1 := by omega
      simp only [h1, h2, decide_true, if_true, List.map_cons, List.sum_cons]
      rcases hf with rfl | hf
      · omega
      · have := ih hf; omega
    · by_cases h2 : rank g.name < rank f.name + 1
      · simp only [h1, h2, decide_true, decide_false, if_true, Bool.false_eq_true, if_false, List.map_cons, List.sum_cons]
        rcases hf with rfl | hf
        · have := fragWeight_mono rank gs (rank f.name) (rank f.name + 1) (by omega)
          unfold fragWeight at this
          omega
        · have := ih hf; omega
      · simp only [h1, h2, decide_false, Bool.false_eq_true, if_false]
        rcases hf with rfl | hf
        · omega
        · exact ih hf

theorem fragWeight_le_all (rank : String → Nat) (frags : List FragDef) (r : Nat) :
    fragWeight rank frags r ≤ (frags.map (fun g => 1 + selCount g.sels)).sum := by
  unfold fragWeight
  induction frags with
  | nil => simp
  | cons g gs ih =>
    simp only [List.filter_cons]
    split <;> simp only [List.map_cons, List.sum_cons] <;> omega

/-- every defined fragment spread below `sels` has rank < `r` -/
def Bnd (d : Doc) (rank : String → Nat) (r : Nat) (sels : List Sel) : Prop :=
  ∀ n ∈ selsSpreadNames sels, n ∈ d.frags.map (·.name) → rank n < r

theorem bnd_cons (d : Doc) (rank : String → Nat) (r : Nat) (s : Sel) (rest : List Sel) (h : Bnd d rank r (s :: rest)) :
    Bnd d rank r [s] ∧ Bnd d rank r rest := by
  constructor
  · intro n hn; exact h n (by simp only [selsSpreadNames, List.append_nil, List.mem_append] at hn ⊢; exact Or.inl hn)
  · intro n hn; exact h n (by simp only [selsSpreadNames, List.mem_append]; exact Or.inr hn)

theorem selCount_cons_ge (s : Sel) (rest : List Sel) : selCount rest ≤ selCount (s :: rest) ∧ selCount [s] ≤ selCount (s :: rest) := by
  cases s <;> simp [selCount] <;> omega

/-- an occurrence collected from `sels`: its sub-selections are strictly lighter (selections + fragments
    still enterable), because a fragment only spreads fragments of smaller rank -/
theorem collect_lighter (c : Model.ExecStatic.Ctx) (rt : String) (rank : String → Nat)
    (hac : ∀ f ∈ c.d.frags, ∀ n ∈ selsSpreadNames f.sels, n ∈ c.d.frags.map (·.name) → rank n < rank f.name) :
    ∀ (k : Nat) (st : String) (sels : List Sel) (r : Nat), Bnd c.d rank r sels →
      ∀ occ ∈ Model.ExecStatic.collect c rt k st sels,
        ∃ r', Bnd c.d rank r' occ.sels ∧
          selCount occ.sels + fragWeight rank c.d.frags r' < selCount sels + fragWeight rank c.d.frags r := by
  intro k
  induction k with
  | zero => intro st sels r _ occ h; simp [Model.ExecStatic.collect] at h
  | succ k ih =>
    intro st sels
    induction sels with
    | nil => intro r _ occ h; simp [Model.ExecStatic.collect] at h
    | cons s rest ihr =>
      intro r hb occ hocc
      obtain ⟨hb1, hb2⟩ := bnd_cons _ _ _ _ _ hb
      obtain ⟨hc1, hc2⟩ := selCount_cons_ge s rest
      rw [collect_cons, List.mem_append] at hocc
      rcases hocc with hocc | hocc
      · cases s with
        | field al n args ds ss pos =>
          simp [Model.ExecStatic.collect] at hocc
          subst hocc
          refine ⟨r, ?_, ?_⟩
          · intro m hm; exact hb1 m (by simpa [selsSpreadNames, selSpreadNames] using hm)
          · simp only [selCount] at hc2 ⊢; omega
        | spread n ds pos =>
          cases hf : c.d.frag? n with
          | none => simp [Model.ExecStatic.collect, hf] at hocc
          | some f =>
            have hfm := frag_mem c.d n f hf
            have hfn : f.name = n := by
              unfold Doc.frag? at hf
              simpa using List.find?_some hf
            have hrn : rank n < r := hb1 n (by simp [selsSpreadNames, selSpreadNames])
              (by rw [← hfn]; exact List.mem_map_of_mem hfm)
            have hbf : Bnd c.d rank (rank n) f.sels := by
              intro m hm hex
              rw [← hfn]
              exact hac f hfm m hm hex
            have hin : occ ∈ Model.ExecStatic.collect c rt k rt f.sels ∨ occ ∈ Model.ExecStatic.collect c rt k st f.sels := by
              simp only [Model.ExecStatic.collect, hf, List.map_cons, List.map_nil, List.flatten_cons, List.flatten_nil,
                List.append_nil] at hocc
              split at hocc
              · exact Or.inl hocc
              · split at hocc
                · exact Or.inr hocc
                · simp at hocc
            have hstep := fragWeight_step rank c.d.frags f hfm
            rw [hfn] at hstep
            have hmono := fragWeight_mono rank c.d.frags (rank n + 1) r (by omega)
            have hsel : 1 ≤ selCount (Sel.spread n ds pos :: rest) := by simp [selCount]; omega
            rcases hin with hin | hin
            · obtain ⟨r', b', l'⟩ := ih _ f.sels (rank n) hbf occ hin
              exact ⟨r', b', by omega⟩
            · obtain ⟨r', b', l'⟩ := ih _ f.sels (rank n) hbf occ hin
              exact ⟨r', b', by omega⟩
        | inline cond ds ss pos =>
          have hbs : Bnd c.d rank r ss := by
            intro m hm; exact hb1 m (by simpa [selsSpreadNames, selSpreadNames] using hm)
          have hcs : selCount ss < selCount (Sel.inline cond ds ss pos :: rest) := by simp only [selCount]; omega
          have hin : occ ∈ Model.ExecStatic.collect c rt k rt ss ∨ occ ∈ Model.ExecStatic.collect c rt k st ss := by
            cases cond with
            | none =>
              simp only [Model.ExecStatic.collect, List.map_cons, List.map_nil, List.flatten_cons, List.flatten_nil,
                List.append_nil] at hocc
              exact Or.inr hocc
            | some t =>
              simp only [Model.ExecStatic.collect, List.map_cons, List.map_nil, List.flatten_cons, List.flatten_nil,
                List.append_nil] at hocc
              split at hocc
              · exact Or.inl hocc
              · split at hocc
                · exact Or.inr hocc
                · simp at hocc
          rcases hin with hin | hin
          · obtain ⟨r', b', l'⟩ := ih _ ss r hbs occ hin
            exact ⟨r', b', by omega⟩
          · obtain ⟨r', b', l'⟩ := ih _ ss r hbs occ hin
            exact ⟨r', b', by omega⟩
      · obtain ⟨r', b', l'⟩ := ihr r hb2 occ hocc
        exact ⟨r', b', by omega⟩

theorem deepEnough_of_weight (c : Model.ExecStatic.Ctx) (rank : String → Nat)
    (hac : ∀ f ∈ c.d.frags, ∀ n ∈ selsSpreadNames f.sels, n ∈ c.d.frags.map (·.name) → rank n < rank f.name) :
    ∀ (F : Nat) (st rt : String) (sels : List Sel) (r : Nat), Bnd c.d rank r sels →
      selCount sels + fragWeight rank c.d.frags r < F → deepEnough c F st rt sels = true := by
  intro F
  induction F with
  | zero => intro st rt sels r _ h; omega
  | succ F ih =>
    intro st rt sels r hb hw
    simp only [deepEnough, List.all_eq_true]
    intro occ hocc
    obtain ⟨r', b', l'⟩ := collect_lighter c rt rank hac (F + 1) st sels r hb occ hocc
    cases hfd : c.S.field? rt occ.name with
    | none => rfl
    | some fd =>
      simp only [List.all_eq_true]
      intro ty _
      exact ih _ _ _ r' b' (by omega)

theorem sum_map_ge_of_mem {α} (f : α → Nat) (l : List α) (a : α) (h : a ∈ l) : f a ≤ (l.map f).sum := by
  induction l with
  | nil => simp at h
  | cons x xs ih =>
    simp only [List.mem_cons] at h
    simp only [List.map_cons, List.sum_cons]
    rcases h with rfl | h
    · omega
    · have := ih h; omega

/-- on a document with acyclic fragment spreads the drivers' fuel bound is never exhausted -/
theorem deepEnough_of_fuelBound (c : Model.ExecStatic.Ctx) (hac : FragsAcyclic c.d) (op : OpDef) (hop : op ∈ c.d.ops)
    (F : Nat) (hF : fuelBound c.d ≤ F) (st rt : String) : deepEnough c F st rt op.sels = true := by
  obtain ⟨rank, hrank⟩ := hac
  let R := (c.d.frags.map (fun g => rank g.name)).sum + 1
  have hb : Bnd c.d rank R op.sels := by
    intro n _ hex
    simp only [List.mem_map] at hex
    obtain ⟨g, hg, rfl⟩ := hex
    have := sum_map_ge_of_mem (fun g => rank g.name) c.d.frags g hg
    show rank g.name < (c.d.frags.map (fun g => rank g.name)).sum + 1
    omega
  apply deepEnough_of_weight c rank hrank F st rt op.sels R hb
  have h1 := fragWeight_le_all rank c.d.frags R
  have h2 := sum_map_ge_of_mem (fun o : OpDef => selCount o.sels) c.d.ops op hop
  unfold fuelBound at hF
  omega

end AGV.Lemmas.ExecStaticMerge
